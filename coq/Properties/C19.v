(* Properties/C19.v — statements only.  "Sync converges to the peer's better chain; hostile peer input is
   harmless" — the parts decided by proof: the common-ancestor search (comm/sync.go findCommonAncestor) returns the
   last common height for every head < 2^31 within 2*log2 head + 4 probes and without uint32 wrap; the batch
   decoder forwards exactly the well-formed in-sequence prefix; the stream handed to import is consecutively
   numbered for every peer; an honest peer's preferred chain becomes best, for every batch cut. *)
From Coq Require Import List NArith Bool Lia.
From Verif Require Import Common.Util Sync.Model Sync.Proofs Sync.ProofsDownload Sync.ProofsConverge
  Sync.ModelRPC Sync.ProofsRPC.
From Verif Require Compose.SyncOrder.
Import ListNotations.
Open Scope N_scope.

(* 1. ancestor_correct: for every head < 2^31 and every monotone overlap predicate true at genesis, the search
      returns the LARGEST height <= head at which the chains agree; it needs at most 2*log2 head + 4 probes;
      the uint32 operations of the code (start+end, mid+1, mid-1, head-backward, backward<<1) are modelled with
      explicit wrap and the result shows no wrap changes the outcome under the bound. *)
Theorem ancestor_correct (P : N -> bool) head fuel :
  monotone P -> P 0 = true -> head < 2147483648 -> (ancestor_fuel head <= fuel)%nat ->
  exists L, find_common_ancestor (fun n => Some (P n)) head fuel = Anc L /\
            L <= head /\ P L = true /\ forall m, L < m -> m <= head -> P m = false.
Proof. exact (ancestor_correct_all P head fuel). Qed.

(* the last common height is unique, so "the" ancestor is well defined *)
Theorem last_common_unique P head L L' : is_last P head L -> is_last P head L' -> L = L'.
Proof. exact (is_last_unique P head L L'). Qed.

(* 2. a failed probe (peer error, time-out, local lookup error) is reported as a failure at that height and is
      never turned into an ancestor; every returned ancestor is 0 or a height that was probed equal *)
Theorem ancestor_fail_sound ov head fuel a :
  find_common_ancestor ov head fuel = Fail a -> ov a = None.
Proof. exact (fca_fail_sound ov head fuel a). Qed.

Theorem ancestor_result_probed ov head fuel r :
  find_common_ancestor ov head fuel = Anc r -> r = 0 \/ ov r = Some true.
Proof. exact (fca_result_probed ov head fuel r). Qed.

(* 2b. whatever the peer answers (inconsistent, failing), the search ends within the probe budget: it never loops *)
Theorem ancestor_terminates ov head fuel :
  head < 2147483648 -> (ancestor_fuel head <= fuel)%nat -> find_common_ancestor ov head fuel <> NoFuel.
Proof. intro H. exact (fca_terminates ov head H fuel). Qed.

(* 3. bad_batch_rejected (as coded: per block, in order): the decoder forwards the decoded longest prefix of
      blocks that are well-formed and numbered start+i; the first offending block and everything behind it in the
      batch never reaches import, and the status names the offence.  (Blocks of the same batch that precede
      the offending one ARE forwarded — the code checks block by block — and still face full validation.) *)
Theorem bad_batch_rejected (Raw Blk : Type) hn db raws start l st :
  decode_batch Raw Blk hn db start 0 raws = (l, st) ->
  exists pre post,
    raws = pre ++ post /\ length pre = length l /\
    (forall k r, nth_error pre k = Some r -> good Raw Blk hn db start (0 + N.of_nat k) r /\ db r = nth_error l k) /\
    match st with
    | DlDone => post = []
    | _ => exists r t, post = r :: t /\ offending Raw Blk hn db start (0 + N.of_nat (length pre)) r st
    end.
Proof. exact (decode_batch_spec Raw Blk hn db raws start 0 l st). Qed.

(* 4. whatever the peer answers (any batches, any fuel), the blocks handed to import are numbered
      from, from+1, from+2, ... (mod 2^32) with no gap, repeat or reordering *)
Theorem stream_in_sequence (Raw Blk : Type) hn db (num : Blk -> N) peer fuel from l st :
  (forall r b n, db r = Some b -> hn r = Some n -> num b = n) ->
  download_stream Raw Blk hn db peer from fuel = (l, st) ->
  forall k b, nth_error l k = Some b -> num b = wrap32 (from + N.of_nat k).
Proof. intros H. exact (ProofsDownload.stream_in_sequence Raw Blk hn db num H peer fuel from l st). Qed.

(* 4b. without wrap: as long as from + (blocks handed over) stays below 2^32 the numbers are from + k themselves *)
Theorem stream_in_sequence_nowrap (Raw Blk : Type) hn db (num : Blk -> N) peer fuel from l st :
  (forall r b n, db r = Some b -> hn r = Some n -> num b = n) ->
  download_stream Raw Blk hn db peer from fuel = (l, st) -> from + N.of_nat (length l) <= 4294967296 ->
  forall k b, nth_error l k = Some b -> num b = from + N.of_nat k.
Proof.
  intros H Hd Hb k b Hk. rewrite (ProofsDownload.stream_in_sequence Raw Blk hn db num H peer fuel from l st Hd k b Hk).
  assert (k < length l)%nat by (apply nth_error_Some; congruence). apply wrap32_small. lia.
Qed.

(* 5. an honest peer's chain is delivered whole, for every choice of batch boundaries *)
Theorem download_complete (Blk : Type) (num : Blk -> N) rc cut fuel from :
  (forall n b, nth_error rc n = Some b -> num b = N.of_nat n) ->
  N.of_nat (length rc) < 4294967296 ->
  (forall n, (1 <= cut n <= max_batch)%nat) ->
  (length rc - N.to_nat from < fuel)%nat -> from < 4294967296 ->
  download_stream Blk Blk (fun b => Some (num b)) (fun b => Some b) (honest_peer Blk rc cut) from fuel
    = (skipn (N.to_nat from) rc, DlDone).
Proof. intros H1 H2 H3. exact (download_honest Blk num rc H1 H2 cut H3 fuel from). Qed.

(* 6. sync_converges.  Assumed (and only this): the node's select `better` is a strict weak order; ids identify
      blocks (hash collision freeness); both chains are parent-linked lists by height with the same genesis; the
      local best chain is in the local store and `best` is maximal in the store; every block of the peer's chain
      passes the node's validation once its parent is stored; the peer's head is preferred by the node's own
      select over the local best and over the other blocks of the peer's chain; the peer answers honestly with
      arbitrary batch cuts.  Then: the ancestor search returns the last common height a, the download delivers
      the peer's chain above a, every block is imported, and the node's best block is the peer's head —
      whatever the prior local chain and wherever the two diverge. *)
Theorem sync_converges (Blk : Type) (bid parent num : Blk -> N) valid better
        (lc rc : list Blk) (st : node Blk) (cut : N -> nat) (h : Blk) fuel fuel2 :
  (forall x y, better x y = true -> better y x = false) ->
  (forall x y z, better x z = true -> better x y = true \/ better y z = true) ->
  (forall x y, bid x = bid y -> x = y) ->
  chain_linked Blk bid parent lc -> chain_linked Blk bid parent rc ->
  best_max Blk better st -> (forall b, In b lc -> In b (store Blk st)) ->
  same_at Blk bid lc rc 0 = true -> lc <> [] ->
  N.of_nat (length lc - 1) < 2147483648 ->
  (forall n b, nth_error rc n = Some b -> num b = N.of_nat n) ->
  N.of_nat (length rc) < 4294967296 ->
  (forall b, In b rc -> valid b = true) ->
  (forall n, (1 <= cut n <= max_batch)%nat) ->
  nth_error rc (length rc - 1) = Some h ->
  better h (best Blk st) = true ->
  (forall b, In b rc -> b <> h -> better h b = true) ->
  (ancestor_fuel (N.of_nat (length lc - 1)) <= fuel)%nat -> (length rc < fuel2)%nat ->
  exists a l st',
    find_common_ancestor (fun n => Some (same_at Blk bid lc rc n)) (N.of_nat (length lc - 1)) fuel = Anc a /\
    is_last (same_at Blk bid lc rc) (N.of_nat (length lc - 1)) a /\
    download_stream Blk Blk (fun b => Some (num b)) (fun b => Some b) (honest_peer Blk rc cut) (a + 1) fuel2
      = (l, DlDone) /\
    import_all Blk bid parent valid better st l = (st', true) /\
    best Blk st' = h.
Proof.
  intros. eapply sync_converges_thm; eauto.
Qed.

(* 7. hostile peer input — the part that is proved.  NOTE: the hostile_* theorems below are INVERSIONS of the
      transcription `serve` (they read back its guards); their content is that the transcription has these guards and
      no other path to an effect — what ties the transcription to comm/handle_rpc.go and p2psrv/rpc/rpc.go is the
      per-message drop/keep comparison of the harness, not a proof.  `serve` models the effects on repository, block
      feed, announcement loop and tx pool; the per-peer bookkeeping of the handlers (MarkBlock, MarkTransaction,
      UpdateHead, txsToSync) is not modelled, "read-only" below means "no such effect".
      rpc.Serve + comm.handleRPC as accept/reject functions
      (Sync/ModelRPC.v; decoding itself is an input): nothing of a message reaches the node (block feed -> import,
      announcement fetch, tx pool) unless its frame is within the size limit of its class (10 MiB; tx messages
      64 KiB + 1 KiB) AND it decodes as the type of its message code; messages above the limit, undecodable ones and
      unknown codes disconnect the peer; all other codes are answered read-only; a result is delivered only to the call
      waiting for that code.  NOT proved (exercised by the harness only): that decoding and the handlers never
      panic on any byte string, and that the read-only answers do not write to the store. *)
Theorem hostile_effect_guarded pending m :
  touches_node (serve pending mcode_eqb m) = true ->
  m_size m <= max_msg_size /\ m_arg_ok m = true /\ (exists id, m_env m = Some (id, false)) /\
  match serve pending mcode_eqb m with
  | RFeedBlock => m_code m = CNewBlock
  | RAnnounce => m_code m = CNewBlockID
  | RPoolAdd => m_code m = CNewTx /\ m_size m <= max_tx_msg_size
  | _ => False
  end.
Proof. exact (effect_guarded pending m). Qed.

Theorem hostile_oversize_dropped pending m : max_msg_size < m_size m -> serve pending mcode_eqb m = RDrop.
Proof. exact (oversize_dropped pending m). Qed.

Theorem hostile_undecodable_dropped pending m :
  m_env m = None \/ (exists id, m_env m = Some (id, false) /\ m_arg_ok m = false) -> serve pending mcode_eqb m = RDrop.
Proof. exact (undecodable_dropped pending m). Qed.

Theorem hostile_unknown_code_dropped pending m id :
  m_env m = Some (id, false) -> m_code m = CUnknown -> serve pending mcode_eqb m = RDrop.
Proof. exact (unknown_code_dropped pending m id). Qed.

Theorem hostile_other_codes_read_only pending m :
  match m_code m with CNewBlock | CNewBlockID | CNewTx => False | _ => True end ->
  touches_node (serve pending mcode_eqb m) = false.
Proof. exact (other_codes_read_only pending m). Qed.

Theorem hostile_result_guarded pending m :
  serve pending mcode_eqb m = RDeliver ->
  exists id, m_env m = Some (id, true) /\ pending id = Some (m_code m) /\ m_arg_ok m = true.
Proof. exact (result_guarded pending m). Qed.

(* a peer that announces an id and then answers the node's GetBlockByID inconsistently (another block, several
   blocks, a malformed one, a wrong body) gets nothing into the block feed *)
Theorem hostile_announcement_fetch_guarded announced answer id :
  fetch_accept announced answer = FFeed id -> id = announced /\ answer = [(Some announced, true)].
Proof. exact (fetch_guarded announced answer id). Qed.

(* and whatever stream of blocks reaches import (download stream, block feed), from whatever peer: only blocks that
   pass the node's validation with a stored parent enter the store, and best moves only to such a block.
   (`valid` abstracts consensus.Process + bft.Accepts: C02.) *)
Theorem hostile_import_sound (Blk : Type) bid parent valid better l st st' ok :
  import_all Blk bid parent valid better st l = (st', ok) ->
  (forall x, In x (store Blk st') -> In x (store Blk st) \/
             (In x l /\ valid x = true /\ known Blk bid st' (parent x) = true)) /\
  (best Blk st' = best Blk st \/ (In (best Blk st') l /\ valid (best Blk st') = true)).
Proof. exact (import_all_sound Blk bid parent valid better l st st' ok). Qed.

(* ------------------------------------------------------------------ non-vacuity *)

(* ancestor_correct: head 1000, chains agree up to 617 *)
Example ancestor_example :
  find_common_ancestor (fun n => Some (n <=? 617)) 1000 (ancestor_fuel 1000) = Anc 617.
Proof. vm_compute. reflexivity. Qed.

Example ancestor_hyps_example : monotone (fun n => n <=? 617) /\ (0 <=? 617) = true.
Proof.
  split; [|reflexivity]. intros n m Hle H. apply N.leb_le in H. apply N.leb_le. lia.
Qed.

(* the bound matters: with head >= 2^31 the modelled uint32 midpoint wraps and the search returns a wrong
   height (the bisection leaves the interval) — the code is correct only under the bound of the theorem *)
Example ancestor_wrap_example :
  find_common_ancestor (fun n => Some (n <=? 4000000000)) 4294967295 200 <> Anc 4000000000.
Proof. vm_compute. discriminate. Qed.

(* bad batch: third block out of sequence -> two forwarded, status names the offence *)
Example bad_batch_example :
  decode_batch (N * bool) N (fun r => Some (fst r)) (fun r => if snd r then Some (fst r) else None)
               5 0 [(5, true); (6, true); (8, true); (9, true)] = ([5; 6], DlBrokenSequence).
Proof. vm_compute. reflexivity. Qed.

(* sync_converges: local chain 0-1-2, peer's chain 0-1-12-13 (diverging at height 2), select = larger key *)
Definition ex_parent (b : N) : N := match b with 1 => 0 | 2 => 1 | 12 => 1 | 13 => 12 | _ => 0 end.
Definition ex_num (b : N) : N := match b with 1 => 1 | 2 => 2 | 12 => 2 | 13 => 3 | _ => 0 end.
Definition ex_better (x y : N) : bool := y <? x.

Example sync_converges_example :
  exists a l st',
    find_common_ancestor (fun n => Some (same_at N (fun b => b) [0; 1; 2] [0; 1; 12; 13] n)) 2 20 = Anc a /\
    a = 1 /\ l = [12; 13] /\
    import_all N (fun b => b) ex_parent (fun _ => true) ex_better (mkNode N [2; 1; 0] 2) l = (st', true) /\
    best N st' = 13.
Proof.
  destruct (sync_converges N (fun b => b) ex_parent ex_num (fun _ => true) ex_better
              [0; 1; 2] [0; 1; 12; 13] (mkNode N [2; 1; 0] 2) (fun _ => 1%nat) 13 20 20)
    as [a [l [st' [H1 [H2 [H3 [H4 H5]]]]]]].
  - unfold ex_better. intros x y H. apply N.ltb_lt in H. apply N.ltb_ge. lia.
  - unfold ex_better. intros x y z H. apply N.ltb_lt in H.
    destruct (y <? x) eqn:E; auto. right. apply N.ltb_ge in E. apply N.ltb_lt. lia.
  - auto.
  - intros n x y H1 H2.
    repeat (destruct n as [|n]; cbn in H1, H2; try discriminate;
            try (inversion H1; inversion H2; subst; reflexivity)).
  - intros n x y H1 H2.
    repeat (destruct n as [|n]; cbn in H1, H2; try discriminate;
            try (inversion H1; inversion H2; subst; reflexivity)).
  - intros x Hx. cbn in Hx. unfold ex_better. cbn [best]. apply N.ltb_ge.
    destruct Hx as [<-|[<-|[<-|[]]]]; lia.
  - intros b Hb. cbn in *. tauto.
  - reflexivity.
  - discriminate.
  - cbn. lia.
  - intros n b H.
    repeat (destruct n as [|n]; cbn in H; try discriminate; try (inversion H; subst; reflexivity)).
  - cbn. lia.
  - auto.
  - intros n. cbn. unfold max_batch. lia.
  - reflexivity.
  - reflexivity.
  - intros b Hb Hne. unfold ex_better. apply N.ltb_lt. cbn in Hb.
    destruct Hb as [<-|[<-|[<-|[<-|[]]]]]; try lia; congruence.
  - vm_compute. lia.
  - cbn. lia.
  - exists a, l, st'.
    assert (Ea : a = 1).
    { vm_compute in H1. inversion H1. reflexivity. }
    subst a. vm_compute in H3. inversion H3. subst l. auto.
Qed.

(* the hypothesis of stream_in_sequence (the body decodes the header whose number was checked) on the oracle's instance *)
Example body_header_example :
  forall (r : N * bool) (b n : N),
    (if snd r then Some (fst r) else None) = Some b -> Some (fst r) = Some n -> (fun x : N => x) b = n.
Proof. intros [x [|]] b n H1 H2; cbn in *; congruence. Qed.

Example serve_example :
  serve (fun _ => None) mcode_eqb (mkMsg CNewTx 70000 (Some (5, false)) true) = RDrop /\
  serve (fun _ => None) mcode_eqb (mkMsg CNewTx 300 (Some (0, false)) true) = RPoolAdd /\
  serve (fun _ => None) mcode_eqb (mkMsg CNewBlock 300 (Some (0, false)) false) = RDrop /\
  serve (fun _ => None) mcode_eqb (mkMsg CGetBlocksFromNumber 9 (Some (77, true)) true) = RIgnore /\
  fetch_accept 9 [(Some 8, true)] = FRejected /\ fetch_accept 9 [(Some 9, true)] = FFeed 9.
Proof. vm_compute. repeat split; reflexivity. Qed.

(* ------------------------------------------------------------------ composition *)

(* C19 <-> C04 (Compose/SyncOrder.v).  sync_converges instantiated with the REAL fork choice of Bft/Model.v:
   Blk := N (block ids read in a universe tree U that holds every block either side knows, so ids identify blocks
   trivially), better i j := ProofsNode.beats c U (block i) (block j) — quality from the definitions, then total score,
   then smaller id, i.e. bft.Select (select_is_sbetter) — and the node := the Sync view (ids of the repository, best
   id) of a Bft node.  The hypotheses "better is asymmetric", "better is negatively transitive", "best is maximal in the
   store" and "ids identify blocks" of sync_converges are DISCHARGED: the first two hold for the order outright
   (bft_order_strict_weak), the third follows from C04's node invariant `inv c nd` (best_is_max), which holds along
   every import history (C04 import_history_invariants).  The remaining premises are those of sync_converges. *)
Theorem bft_order_strict_weak (c : Bft.Model.cfg) (U : Bft.Tree.repo) :
  (forall x y, Compose.SyncOrder.sbetter c U x y = true -> Compose.SyncOrder.sbetter c U y x = false) /\
  (forall x y z, Compose.SyncOrder.sbetter c U x z = true ->
                 Compose.SyncOrder.sbetter c U x y = true \/ Compose.SyncOrder.sbetter c U y z = true) /\
  (forall x y : N, Compose.SyncOrder.sbid x = Compose.SyncOrder.sbid y -> x = y).
Proof.
  exact (conj (Compose.SyncOrder.sbetter_asym c U) (conj (Compose.SyncOrder.sbetter_cotrans c U) Compose.SyncOrder.sbid_inj)).
Qed.

Theorem bft_node_best_max (c : Bft.Model.cfg) (U : Bft.Tree.repo) (nd : Bft.Model.node) :
  Bft.ProofsNode.inv c nd -> Bft.Tree.wf_repo U -> (forall x, In x (Bft.Model.n_repo nd) -> In x U) ->
  best_max N (Compose.SyncOrder.sbetter c U) (Compose.SyncOrder.sync_node nd).
Proof. exact (Compose.SyncOrder.inv_gives_best_max c U nd). Qed.

Theorem sync_converges_bft_order (c : Bft.Model.cfg) (U : Bft.Tree.repo) (nd : Bft.Model.node)
        (num : N -> N) (valid : N -> bool) (lc rc : list N) (cut : N -> nat) (h : N) fuel fuel2 :
  Bft.ProofsNode.inv c nd -> Bft.Tree.wf_repo U -> (forall x, In x (Bft.Model.n_repo nd) -> In x U) ->
  chain_linked N Compose.SyncOrder.sbid (Compose.SyncOrder.sparent U) lc ->
  chain_linked N Compose.SyncOrder.sbid (Compose.SyncOrder.sparent U) rc ->
  (forall b, In b lc -> In b (store N (Compose.SyncOrder.sync_node nd))) ->
  same_at N Compose.SyncOrder.sbid lc rc 0 = true ->
  N.of_nat (length lc - 1) < 2147483648 ->
  (forall n b, nth_error rc n = Some b -> num b = N.of_nat n) ->
  N.of_nat (length rc) < 4294967296 ->
  (forall b, In b rc -> valid b = true) ->
  (forall n, (1 <= cut n <= max_batch)%nat) ->
  nth_error rc (length rc - 1) = Some h ->
  Compose.SyncOrder.sbetter c U h (best N (Compose.SyncOrder.sync_node nd)) = true ->
  (forall b, In b rc -> b <> h -> Compose.SyncOrder.sbetter c U h b = true) ->
  (ancestor_fuel (N.of_nat (length lc - 1)) <= fuel)%nat -> (length rc < fuel2)%nat ->
  exists a l st',
    find_common_ancestor (fun n => Some (same_at N Compose.SyncOrder.sbid lc rc n)) (N.of_nat (length lc - 1)) fuel = Anc a /\
    is_last (same_at N Compose.SyncOrder.sbid lc rc) (N.of_nat (length lc - 1)) a /\
    download_stream N N (fun b => Some (num b)) (fun b => Some b) (honest_peer N rc cut) (a + 1) fuel2 = (l, DlDone) /\
    import_all N Compose.SyncOrder.sbid (Compose.SyncOrder.sparent U) valid (Compose.SyncOrder.sbetter c U)
               (Compose.SyncOrder.sync_node nd) l = (st', true) /\
    best N st' = h.
Proof. exact (Compose.SyncOrder.sync_converges_bft_order c U nd num valid lc rc cut h fuel fuel2). Qed.

(* non-vacuity: a fork where the local branch (best l5: quality 1, total score 200) has the higher total score and the
   peer's branch (head m7: quality 2, total score 7) the higher quality; all hypotheses of sync_converges_bft_order are
   discharged on it (Compose.SyncOrder.sync_converges_bft_order_example) and the peer's head becomes best *)
Example sync_converges_bft_order_example :
  exists a l st',
    find_common_ancestor (fun n => Some (same_at N Compose.SyncOrder.sbid Compose.SyncOrder.ex_lc Compose.SyncOrder.ex_rc n)) 5 20 = Anc a /\
    a = 3 /\ l = map Bft.Tree.b_id (map Compose.SyncOrder.ex_m [4; 5; 6; 7]) /\
    import_all N Compose.SyncOrder.sbid (Compose.SyncOrder.sparent Compose.SyncOrder.ex_U) (fun _ => true)
               (Compose.SyncOrder.sbetter Compose.SyncOrder.ex_cfg Compose.SyncOrder.ex_U)
               (Compose.SyncOrder.sync_node Compose.SyncOrder.ex_nd) l = (st', true) /\
    best N st' = Bft.Tree.b_id (Compose.SyncOrder.ex_m 7).
Proof. exact Compose.SyncOrder.sync_converges_bft_order_example. Qed.

(* C19 <-> C04, second round (Compose/SyncStep.v): the STEP simulation.  Sync's `valid` is instantiated with
   bft.Accepts (valid_bft U fin: fin has number 0 or lies on the chain, in the universe tree U, of the block's parent) and
   Sync's import / import_all are shown to BE the Bft node's import / handleBlockStream seen through sync_node, in a
   fixed finalized context; then sync_converges is restated about the real node.  Side conditions, stated explicitly:
   fin_fixed (finalized does not move during the stream) and no_commit_error (CommitBlock does not fail during the
   stream; after such a failure the Go node has stored the block AND aborts the stream, an outcome Sync's model does not
   have).  no_commit_error is discharged for the repaired code (guard = true) by C04's commit_block_total; fin_fixed is
   dropped for one-chain streams — what an honest peer's download is — because finalized only moves along the imported
   chain; it cannot be dropped in general (fin_moves_valid_is_not_a_function). *)
From Verif Require Compose.SyncStep.

Theorem bft_accepts_is_valid (c : Bft.Model.cfg) (U : Bft.Tree.repo) (nd : Bft.Model.node) (b : Bft.Tree.blk) (fin : N) :
  Bft.ProofsNode.inv c nd -> Bft.Tree.wf_repo U -> (forall x, In x (Bft.Model.n_repo nd) -> In x U) -> In b U ->
  Bft.Tree.known (Bft.Model.n_repo nd) (Bft.Tree.b_parent b) = true -> Bft.Model.e_fin (Bft.Model.n_eng nd) = fin ->
  Bft.Model.accepts (Bft.Model.n_repo nd) (Bft.Model.n_eng nd) (Bft.Tree.b_parent b) =
  Compose.SyncStep.valid_bft U fin (Bft.Tree.b_id b).
Proof. exact (Compose.SyncStep.valid_bft_is_accepts c U nd b fin). Qed.

(* one block: codes 0 / 1 -> Some (Sync view of Bft's next node); codes 2 / 3 -> None; a CommitBlock error (100+) ->
   Some as far as the state goes (bft_step_commit_error) *)
Theorem bft_step_sim (c : Bft.Model.cfg) (guard : bool) (U : Bft.Tree.repo) (nd : Bft.Model.node) (b : Bft.Tree.blk) (fin : N) :
  0 < Bft.Model.c_L c -> Bft.ProofsNode.inv c nd -> Bft.Tree.wf_repo U -> (forall x, In x (Bft.Model.n_repo nd) -> In x U) ->
  In b U -> Bft.Model.e_fin (Bft.Model.n_eng nd) = fin ->
  import N Compose.SyncOrder.sbid (Compose.SyncOrder.sparent U) (Compose.SyncStep.valid_bft U fin)
         (Compose.SyncOrder.sbetter c U) (Compose.SyncOrder.sync_node nd) (Bft.Tree.b_id b) =
  if Compose.SyncStep.rejected (snd (Bft.Model.import guard c nd b)) then None
  else Some (Compose.SyncOrder.sync_node (fst (Bft.Model.import guard c nd b))).
Proof. exact (Compose.SyncStep.step_sim c guard U nd b fin). Qed.

Theorem bft_step_commit_error (c : Bft.Model.cfg) (guard : bool) (U : Bft.Tree.repo) (nd : Bft.Model.node)
        (b : Bft.Tree.blk) (fin : N) (nd' : Bft.Model.node) (code : N) :
  0 < Bft.Model.c_L c -> Bft.Tree.wf_repo U -> Bft.ProofsNode.inv c nd -> (forall x, In x (Bft.Model.n_repo nd) -> In x U) ->
  In b U -> Bft.Model.e_fin (Bft.Model.n_eng nd) = fin -> Bft.Model.import guard c nd b = (nd', code) -> 100 <= code ->
  import N Compose.SyncOrder.sbid (Compose.SyncOrder.sparent U) (Compose.SyncStep.valid_bft U fin)
         (Compose.SyncOrder.sbetter c U) (Compose.SyncOrder.sync_node nd) (Bft.Tree.b_id b) =
    Some (Compose.SyncOrder.sync_node nd') /\
  Bft.Model.n_repo nd' = b :: Bft.Model.n_repo nd.
Proof. intros HL WU. exact (Compose.SyncStep.step_commit_error c HL guard U WU nd b fin nd' code). Qed.

(* a stream: Sync's import_all = Bft's handleBlockStream (same stopping point, same verdict) through sync_node *)
Theorem bft_stream_sim (c : Bft.Model.cfg) (guard : bool) (U : Bft.Tree.repo) (fin : N) (l : list Bft.Tree.blk) (nd : Bft.Model.node) :
  0 < Bft.Model.c_L c -> Bft.Tree.wf_repo U -> Bft.ProofsNode.inv c nd -> (forall x, In x (Bft.Model.n_repo nd) -> In x U) ->
  (forall b, In b l -> In b U) ->
  Compose.SyncStep.fin_fixed c guard nd l fin -> Compose.SyncStep.no_commit_error c guard nd l ->
  import_all N Compose.SyncOrder.sbid (Compose.SyncOrder.sparent U) (Compose.SyncStep.valid_bft U fin)
             (Compose.SyncOrder.sbetter c U) (Compose.SyncOrder.sync_node nd) (map Bft.Tree.b_id l) =
  (Compose.SyncOrder.sync_node (fst (Compose.SyncStep.import_stream c guard nd l)), snd (Compose.SyncStep.import_stream c guard nd l)).
Proof. intros HL WU. exact (Compose.SyncStep.stream_sim c HL guard U WU fin l nd). Qed.

Theorem bft_stream_sim_ok (c : Bft.Model.cfg) (guard : bool) (U : Bft.Tree.repo) (fin : N) (l : list Bft.Tree.blk) (nd : Bft.Model.node) :
  0 < Bft.Model.c_L c -> Bft.Tree.wf_repo U -> Bft.ProofsNode.inv c nd -> (forall x, In x (Bft.Model.n_repo nd) -> In x U) ->
  (forall b, In b l -> In b U) ->
  Compose.SyncStep.fin_fixed c guard nd l fin -> Compose.SyncStep.codes_ok c guard nd l ->
  import_all N Compose.SyncOrder.sbid (Compose.SyncOrder.sparent U) (Compose.SyncStep.valid_bft U fin)
             (Compose.SyncOrder.sbetter c U) (Compose.SyncOrder.sync_node nd) (map Bft.Tree.b_id l) =
  (Compose.SyncOrder.sync_node (Bft.ProofsNode.import_all c guard nd l), true).
Proof. intros HL WU. exact (Compose.SyncStep.stream_sim_ok c HL guard U WU fin l nd). Qed.

(* one chain hanging off a stored block: finalized may move, nothing is refused *)
Theorem bft_stream_sim_chain (c : Bft.Model.cfg) (guard : bool) (U : Bft.Tree.repo) (fin0 : N) (l : list Bft.Tree.blk)
        (nd : Bft.Model.node) (prev : N) :
  0 < Bft.Model.c_L c -> Bft.Tree.wf_repo U ->
  Bft.ProofsNode.inv c nd -> Bft.ProofsMonotone.fin_ok nd -> (forall x, In x (Bft.Model.n_repo nd) -> In x U) ->
  (forall b, In b l -> In b U) -> (forall b, In b l -> Bft.Tree.b_num b <> 0) ->
  Compose.SyncStep.linked_from prev l -> Bft.Tree.known (Bft.Model.n_repo nd) prev = true ->
  (Bft.Model.e_fin (Bft.Model.n_eng nd) = fin0 \/ Bft.Model.accepts (Bft.Model.n_repo nd) (Bft.Model.n_eng nd) prev = true) ->
  (forall b, In b l -> Bft.Tree.known (Bft.Model.n_repo nd) (Bft.Tree.b_id b) = false ->
             Compose.SyncStep.valid_bft U fin0 (Bft.Tree.b_id b) = true) ->
  Compose.SyncStep.no_commit_error c guard nd l ->
  import_all N Compose.SyncOrder.sbid (Compose.SyncOrder.sparent U) (Compose.SyncStep.valid_bft U fin0)
             (Compose.SyncOrder.sbetter c U) (Compose.SyncOrder.sync_node nd) (map Bft.Tree.b_id l) =
  (Compose.SyncOrder.sync_node (Bft.ProofsNode.import_all c guard nd l), true) /\
  Compose.SyncStep.codes_ok c guard nd l.
Proof. intros HL WU. exact (Compose.SyncStep.stream_sim_chain c HL guard U WU fin0 l nd prev). Qed.

(* C04 commit_block_total, relative to a universe: the repaired CommitBlock does not fail on any stream *)
Theorem bft_no_commit_error_guarded (c : Bft.Model.cfg) (U : Bft.Tree.repo) (l : list Bft.Tree.blk) (nd : Bft.Model.node) :
  0 < Bft.Model.c_L c -> Bft.Tree.wf_repo U -> Bft.ProofsNode.inv c nd -> Bft.ProofsCommit.fin_cp c nd ->
  (forall x, In x (Bft.Model.n_repo nd) -> In x U) -> (forall b, In b l -> In b U) ->
  Compose.SyncStep.no_commit_error c true nd l.
Proof. intros HL WU. exact (Compose.SyncStep.no_commit_error_guarded c U HL WU l nd). Qed.

(* sync_converges on the real node, finalized fixed: premises of sync_converges_bft_order with `valid` replaced by what
   bft.Accepts means (asked only of blocks the node does not store), plus 0 < epoch length and "U holds the peer's chain" *)
Theorem sync_converges_bft_node (c : Bft.Model.cfg) (guard : bool) (U : Bft.Tree.repo) (nd : Bft.Model.node) (fin : N)
        (num : N -> N) (lc rc : list N) (cut : N -> nat) (h : N) fuel fuel2 :
  0 < Bft.Model.c_L c ->
  Bft.ProofsNode.inv c nd -> Bft.Tree.wf_repo U -> (forall x, In x (Bft.Model.n_repo nd) -> In x U) ->
  (forall i, In i rc -> Bft.Tree.known U i = true) ->
  chain_linked N Compose.SyncOrder.sbid (Compose.SyncOrder.sparent U) lc ->
  chain_linked N Compose.SyncOrder.sbid (Compose.SyncOrder.sparent U) rc ->
  (forall b, In b lc -> In b (store N (Compose.SyncOrder.sync_node nd))) ->
  same_at N Compose.SyncOrder.sbid lc rc 0 = true ->
  N.of_nat (length lc - 1) < 2147483648 ->
  (forall n b, nth_error rc n = Some b -> num b = N.of_nat n) ->
  N.of_nat (length rc) < 4294967296 ->
  (forall i, In i rc -> Bft.Tree.known (Bft.Model.n_repo nd) i = false ->
     Bft.Tree.idnum fin = 0 \/ Bft.Tree.has_block U (Compose.SyncOrder.sparent U i) fin = true) ->
  (forall n, (1 <= cut n <= max_batch)%nat) ->
  nth_error rc (length rc - 1) = Some h ->
  Compose.SyncOrder.sbetter c U h (best N (Compose.SyncOrder.sync_node nd)) = true ->
  (forall b, In b rc -> b <> h -> Compose.SyncOrder.sbetter c U h b = true) ->
  (ancestor_fuel (N.of_nat (length lc - 1)) <= fuel)%nat -> (length rc < fuel2)%nat ->
  exists a l,
    find_common_ancestor (fun n => Some (same_at N Compose.SyncOrder.sbid lc rc n)) (N.of_nat (length lc - 1)) fuel = Anc a /\
    is_last (same_at N Compose.SyncOrder.sbid lc rc) (N.of_nat (length lc - 1)) a /\
    download_stream N N (fun b => Some (num b)) (fun b => Some b) (honest_peer N rc cut) (a + 1) fuel2 = (l, DlDone) /\
    l = skipn (N.to_nat (a + 1)) rc /\
    (Compose.SyncStep.fin_fixed c guard nd (map (Compose.SyncOrder.blk_of U) l) fin ->
     Compose.SyncStep.no_commit_error c guard nd (map (Compose.SyncOrder.blk_of U) l) ->
     let nd' := Bft.ProofsNode.import_all c guard nd (map (Compose.SyncOrder.blk_of U) l) in
     import_all N Compose.SyncOrder.sbid (Compose.SyncOrder.sparent U) (Compose.SyncStep.valid_bft U fin)
                (Compose.SyncOrder.sbetter c U) (Compose.SyncOrder.sync_node nd) l = (Compose.SyncOrder.sync_node nd', true) /\
     Compose.SyncStep.codes_ok c guard nd (map (Compose.SyncOrder.blk_of U) l) /\
     Bft.ProofsNode.inv c nd' /\ Bft.Model.n_best nd' = h).
Proof. exact (Compose.SyncStep.sync_converges_bft_node c guard U nd fin num lc rc cut h fuel fuel2). Qed.

(* ... finalized free to move (the download is one chain): fin is the node's finalized id when the download starts *)
Theorem sync_converges_bft_node_chain (c : Bft.Model.cfg) (guard : bool) (U : Bft.Tree.repo) (nd : Bft.Model.node)
        (num : N -> N) (lc rc : list N) (cut : N -> nat) (h : N) fuel fuel2 :
  0 < Bft.Model.c_L c ->
  Bft.ProofsNode.inv c nd -> Bft.ProofsMonotone.fin_ok nd -> Bft.Tree.wf_repo U ->
  (forall x, In x (Bft.Model.n_repo nd) -> In x U) ->
  (forall i, In i rc -> Bft.Tree.known U i = true) ->
  chain_linked N Compose.SyncOrder.sbid (Compose.SyncOrder.sparent U) lc ->
  chain_linked N Compose.SyncOrder.sbid (Compose.SyncOrder.sparent U) rc ->
  (forall b, In b lc -> In b (store N (Compose.SyncOrder.sync_node nd))) ->
  same_at N Compose.SyncOrder.sbid lc rc 0 = true ->
  N.of_nat (length lc - 1) < 2147483648 ->
  (forall n b, nth_error rc n = Some b -> num b = N.of_nat n) -> (forall i, In i rc -> num i = Bft.Tree.idnum i) ->
  N.of_nat (length rc) < 4294967296 ->
  (forall i, In i rc -> Bft.Tree.known (Bft.Model.n_repo nd) i = false ->
     Bft.Tree.idnum (Bft.Model.e_fin (Bft.Model.n_eng nd)) = 0 \/
     Bft.Tree.has_block U (Compose.SyncOrder.sparent U i) (Bft.Model.e_fin (Bft.Model.n_eng nd)) = true) ->
  (forall n, (1 <= cut n <= max_batch)%nat) ->
  nth_error rc (length rc - 1) = Some h ->
  Compose.SyncOrder.sbetter c U h (best N (Compose.SyncOrder.sync_node nd)) = true ->
  (forall b, In b rc -> b <> h -> Compose.SyncOrder.sbetter c U h b = true) ->
  (ancestor_fuel (N.of_nat (length lc - 1)) <= fuel)%nat -> (length rc < fuel2)%nat ->
  exists a l,
    find_common_ancestor (fun n => Some (same_at N Compose.SyncOrder.sbid lc rc n)) (N.of_nat (length lc - 1)) fuel = Anc a /\
    is_last (same_at N Compose.SyncOrder.sbid lc rc) (N.of_nat (length lc - 1)) a /\
    download_stream N N (fun b => Some (num b)) (fun b => Some b) (honest_peer N rc cut) (a + 1) fuel2 = (l, DlDone) /\
    l = skipn (N.to_nat (a + 1)) rc /\
    (Compose.SyncStep.no_commit_error c guard nd (map (Compose.SyncOrder.blk_of U) l) ->
     let nd' := Bft.ProofsNode.import_all c guard nd (map (Compose.SyncOrder.blk_of U) l) in
     import_all N Compose.SyncOrder.sbid (Compose.SyncOrder.sparent U)
                (Compose.SyncStep.valid_bft U (Bft.Model.e_fin (Bft.Model.n_eng nd)))
                (Compose.SyncOrder.sbetter c U) (Compose.SyncOrder.sync_node nd) l = (Compose.SyncOrder.sync_node nd', true) /\
     Compose.SyncStep.codes_ok c guard nd (map (Compose.SyncOrder.blk_of U) l) /\
     Bft.ProofsNode.inv c nd' /\ Bft.Model.n_best nd' = h).
Proof. exact (Compose.SyncStep.sync_converges_bft_node_chain c guard U nd num lc rc cut h fuel fuel2). Qed.

(* ... and for the repaired code (guard = true) with finalized at a checkpoint number: no side condition about the run *)
Theorem sync_converges_bft_node_guarded (c : Bft.Model.cfg) (U : Bft.Tree.repo) (nd : Bft.Model.node)
        (num : N -> N) (lc rc : list N) (cut : N -> nat) (h : N) fuel fuel2 :
  0 < Bft.Model.c_L c ->
  Bft.ProofsNode.inv c nd -> Bft.ProofsMonotone.fin_ok nd -> Bft.ProofsCommit.fin_cp c nd -> Bft.Tree.wf_repo U ->
  (forall x, In x (Bft.Model.n_repo nd) -> In x U) ->
  (forall i, In i rc -> Bft.Tree.known U i = true) ->
  chain_linked N Compose.SyncOrder.sbid (Compose.SyncOrder.sparent U) lc ->
  chain_linked N Compose.SyncOrder.sbid (Compose.SyncOrder.sparent U) rc ->
  (forall b, In b lc -> In b (store N (Compose.SyncOrder.sync_node nd))) ->
  same_at N Compose.SyncOrder.sbid lc rc 0 = true ->
  N.of_nat (length lc - 1) < 2147483648 ->
  (forall n b, nth_error rc n = Some b -> num b = N.of_nat n) -> (forall i, In i rc -> num i = Bft.Tree.idnum i) ->
  N.of_nat (length rc) < 4294967296 ->
  (forall i, In i rc -> Bft.Tree.known (Bft.Model.n_repo nd) i = false ->
     Bft.Tree.idnum (Bft.Model.e_fin (Bft.Model.n_eng nd)) = 0 \/
     Bft.Tree.has_block U (Compose.SyncOrder.sparent U i) (Bft.Model.e_fin (Bft.Model.n_eng nd)) = true) ->
  (forall n, (1 <= cut n <= max_batch)%nat) ->
  nth_error rc (length rc - 1) = Some h ->
  Compose.SyncOrder.sbetter c U h (best N (Compose.SyncOrder.sync_node nd)) = true ->
  (forall b, In b rc -> b <> h -> Compose.SyncOrder.sbetter c U h b = true) ->
  (ancestor_fuel (N.of_nat (length lc - 1)) <= fuel)%nat -> (length rc < fuel2)%nat ->
  exists a l,
    find_common_ancestor (fun n => Some (same_at N Compose.SyncOrder.sbid lc rc n)) (N.of_nat (length lc - 1)) fuel = Anc a /\
    is_last (same_at N Compose.SyncOrder.sbid lc rc) (N.of_nat (length lc - 1)) a /\
    download_stream N N (fun b => Some (num b)) (fun b => Some b) (honest_peer N rc cut) (a + 1) fuel2 = (l, DlDone) /\
    l = skipn (N.to_nat (a + 1)) rc /\
    let nd' := Bft.ProofsNode.import_all c true nd (map (Compose.SyncOrder.blk_of U) l) in
    import_all N Compose.SyncOrder.sbid (Compose.SyncOrder.sparent U)
               (Compose.SyncStep.valid_bft U (Bft.Model.e_fin (Bft.Model.n_eng nd)))
               (Compose.SyncOrder.sbetter c U) (Compose.SyncOrder.sync_node nd) l = (Compose.SyncOrder.sync_node nd', true) /\
    Compose.SyncStep.codes_ok c true nd (map (Compose.SyncOrder.blk_of U) l) /\
    Bft.ProofsNode.inv c nd' /\ Bft.Model.n_best nd' = h.
Proof. exact (Compose.SyncStep.sync_converges_bft_node_guarded c U nd num lc rc cut h fuel fuel2). Qed.

(* non-vacuity (Compose/SyncStep.v section 6).  Instance with a NON-genesis finalized block m2 (epoch length 2): local
   head l7 (quality 2, total score 200), peer's chain g..m7 resp. g..m9; the common ancestor is height 5; finalized is m2
   at the arrival of m6 and m7 (fixed-finalized statement) and moves to m4 and m6 while m6..m9 are imported (guarded
   statement); every import has code 0 and the peer's head becomes the Bft node's best block. *)
Example sync_converges_bft_node_example :
  Bft.Tree.idnum Compose.SyncStep.ex2_fin <> 0 /\
  exists a l,
    find_common_ancestor (fun n => Some (same_at N Compose.SyncOrder.sbid Compose.SyncStep.ex2_lc Compose.SyncStep.ex2_rc7 n)) 7 20 = Anc a /\
    a = 5 /\ l = map Bft.Tree.b_id (map Compose.SyncStep.ex2_m [6; 7]) /\
    let nd' := Bft.ProofsNode.import_all Compose.SyncStep.ex2_cfg true Compose.SyncStep.ex2_nd
                 (map (Compose.SyncOrder.blk_of Compose.SyncStep.ex2_U) l) in
    import_all N Compose.SyncOrder.sbid (Compose.SyncOrder.sparent Compose.SyncStep.ex2_U)
               (Compose.SyncStep.valid_bft Compose.SyncStep.ex2_U Compose.SyncStep.ex2_fin)
               (Compose.SyncOrder.sbetter Compose.SyncStep.ex2_cfg Compose.SyncStep.ex2_U)
               (Compose.SyncOrder.sync_node Compose.SyncStep.ex2_nd) l = (Compose.SyncOrder.sync_node nd', true) /\
    Compose.SyncStep.codes_ok Compose.SyncStep.ex2_cfg true Compose.SyncStep.ex2_nd
      (map (Compose.SyncOrder.blk_of Compose.SyncStep.ex2_U) l) /\
    Bft.ProofsNode.inv Compose.SyncStep.ex2_cfg nd' /\ Bft.Model.n_best nd' = Bft.Tree.b_id (Compose.SyncStep.ex2_m 7).
Proof. exact Compose.SyncStep.sync_converges_bft_node_example. Qed.

Example sync_converges_bft_node_guarded_example :
  exists a l,
    find_common_ancestor (fun n => Some (same_at N Compose.SyncOrder.sbid Compose.SyncStep.ex2_lc Compose.SyncStep.ex2_rc9 n)) 7 20 = Anc a /\
    a = 5 /\ l = map Bft.Tree.b_id (map Compose.SyncStep.ex2_m [6; 7; 8; 9]) /\
    let nd' := Bft.ProofsNode.import_all Compose.SyncStep.ex2_cfg true Compose.SyncStep.ex2_nd
                 (map (Compose.SyncOrder.blk_of Compose.SyncStep.ex2_U) l) in
    import_all N Compose.SyncOrder.sbid (Compose.SyncOrder.sparent Compose.SyncStep.ex2_U)
               (Compose.SyncStep.valid_bft Compose.SyncStep.ex2_U Compose.SyncStep.ex2_fin)
               (Compose.SyncOrder.sbetter Compose.SyncStep.ex2_cfg Compose.SyncStep.ex2_U)
               (Compose.SyncOrder.sync_node Compose.SyncStep.ex2_nd) l = (Compose.SyncOrder.sync_node nd', true) /\
    Compose.SyncStep.codes_ok Compose.SyncStep.ex2_cfg true Compose.SyncStep.ex2_nd
      (map (Compose.SyncOrder.blk_of Compose.SyncStep.ex2_U) l) /\
    Bft.ProofsNode.inv Compose.SyncStep.ex2_cfg nd' /\ Bft.Model.n_best nd' = Bft.Tree.b_id (Compose.SyncStep.ex2_m 9) /\
    Bft.Model.e_fin (Bft.Model.n_eng nd') = Bft.Tree.b_id (Compose.SyncStep.ex2_m 6).
Proof. exact Compose.SyncStep.sync_converges_bft_node_guarded_example. Qed.

(* why fin_fixed cannot be dropped for arbitrary streams: the fork block f4 is imported (code 0) when it arrives before
   m7 and refused (code 3) when it arrives after m7 has moved finalized from m2 to m4, while Sync's state-independent
   `valid` at fin = m2 accepts it in both orders *)
Example fin_moves_valid_is_not_a_function :
  Bft.Safety.import_codes true Compose.SyncStep.ex2_cfg Compose.SyncStep.ex2_nd
    ([Compose.SyncStep.ex2_f4] ++ map Compose.SyncStep.ex2_m [6; 7]) = [0; 0; 0] /\
  Bft.Safety.import_codes true Compose.SyncStep.ex2_cfg Compose.SyncStep.ex2_nd
    (map Compose.SyncStep.ex2_m [6; 7] ++ [Compose.SyncStep.ex2_f4]) = [0; 0; 3] /\
  Compose.SyncStep.valid_bft Compose.SyncStep.ex2_U Compose.SyncStep.ex2_fin (Bft.Tree.b_id Compose.SyncStep.ex2_f4) = true /\
  Compose.SyncStep.valid_bft Compose.SyncStep.ex2_U (Bft.Tree.b_id (Compose.SyncStep.ex2_m 4)) (Bft.Tree.b_id Compose.SyncStep.ex2_f4) = false /\
  snd (import_all N Compose.SyncOrder.sbid (Compose.SyncOrder.sparent Compose.SyncStep.ex2_U)
         (Compose.SyncStep.valid_bft Compose.SyncStep.ex2_U Compose.SyncStep.ex2_fin)
         (Compose.SyncOrder.sbetter Compose.SyncStep.ex2_cfg Compose.SyncStep.ex2_U)
         (Compose.SyncOrder.sync_node Compose.SyncStep.ex2_nd)
         (map Bft.Tree.b_id (map Compose.SyncStep.ex2_m [6; 7] ++ [Compose.SyncStep.ex2_f4]))) = true /\
  ~ Compose.SyncStep.fin_fixed Compose.SyncStep.ex2_cfg true Compose.SyncStep.ex2_nd
      (map Compose.SyncStep.ex2_m [6; 7] ++ [Compose.SyncStep.ex2_f4]) Compose.SyncStep.ex2_fin.
Proof. exact Compose.SyncStep.fin_moves_valid_is_not_a_function. Qed.

Print Assumptions ancestor_example.
Print Assumptions ancestor_hyps_example.
Print Assumptions ancestor_wrap_example.
Print Assumptions bad_batch_example.
Print Assumptions ancestor_terminates.
Print Assumptions stream_in_sequence_nowrap.
Print Assumptions hostile_effect_guarded.
Print Assumptions hostile_oversize_dropped.
Print Assumptions hostile_undecodable_dropped.
Print Assumptions hostile_unknown_code_dropped.
Print Assumptions hostile_other_codes_read_only.
Print Assumptions hostile_result_guarded.
Print Assumptions hostile_announcement_fetch_guarded.
Print Assumptions hostile_import_sound.
Print Assumptions ancestor_correct.
Print Assumptions last_common_unique.
Print Assumptions ancestor_fail_sound.
Print Assumptions ancestor_result_probed.
Print Assumptions bad_batch_rejected.
Print Assumptions stream_in_sequence.
Print Assumptions download_complete.
Print Assumptions sync_converges.
Print Assumptions sync_converges_example.
Print Assumptions bft_order_strict_weak.
Print Assumptions bft_node_best_max.
Print Assumptions sync_converges_bft_order.
Print Assumptions sync_converges_bft_order_example.
Print Assumptions bft_accepts_is_valid.
Print Assumptions bft_step_sim.
Print Assumptions bft_step_commit_error.
Print Assumptions bft_stream_sim.
Print Assumptions bft_stream_sim_ok.
Print Assumptions bft_stream_sim_chain.
Print Assumptions bft_no_commit_error_guarded.
Print Assumptions sync_converges_bft_node.
Print Assumptions sync_converges_bft_node_chain.
Print Assumptions sync_converges_bft_node_guarded.
Print Assumptions sync_converges_bft_node_example.
Print Assumptions sync_converges_bft_node_guarded_example.
Print Assumptions fin_moves_valid_is_not_a_function.
