(* Properties/C07.v — statements only.  "Transactions are atomic and gas accounting stays within its bounds."
   The EVM is an oracle (clause_result); the only thing assumed about it is oracle_ok: a clause hands back at most the gas
   it was given and a non-negative refund counter.  A clause result also lists the ledger primitives the clause performed
   (cr_ops) and the rest of the world after it (cr_world); the oracle sees the block context, the transaction, the clause index,
   the gas handed in and the state.  W = the rest of the world state, O = a clause output. *)
From Coq Require Import ZArith List Bool Lia.
From Verif Require Import Ledger.Model Ledger.Proofs TxExec.Model TxExec.Proofs TxExec.ProofsEffects TxExec.ProofsBlock TxExec.ProofsAdopt.
From Verif Require Header.Rules Validation.Body Validation.ProofsPacker Compose.ExecSane.
Import ListNotations.
Open Scope Z_scope.

Section C07.
  Variables W O : Type.
  Variable clause_result : env -> txn -> nat -> Z -> state W -> cres W O.
  Variable write_credit : Z -> Z -> Z -> W -> W.
  Let exec := exec_tx W O clause_result write_credit.

  (* 1. intrinsic <= gasUsed <= gas <= block limit; paid = gasUsed x price; every applied refund <= half of the gas that
        clause consumed (log_ok), hence total refund <= half of the total consumed; gasUsed = intrinsic + consumed - refunded *)
  Theorem gas_bounds e t ci st0 st rc :
    oracle_ok W O clause_result -> exec e t ci st0 = Done W O st rc ->
    exists ig, intrinsic_gas (t_clauses t) = Some ig /\
      ig <= r_gas_used O rc <= t_gas t /\ t_gas t <= e_gas_limit e /\
      r_paid O rc = r_gas_used O rc * r_price O rc /\
      log_ok (r_clause_log O rc) /\
      r_gas_used O rc = ig + log_used (r_clause_log O rc) - log_refund (r_clause_log O rc) /\
      2 * log_refund (r_clause_log O rc) <= log_used (r_clause_log O rc).
  Proof. intros OK. exact (gas_bounds_lemma W O clause_result write_credit OK e t ci st0 st rc). Qed.

  (* 2. if some clause fails: outputs empty, and the state is EXACTLY the pre-state after three energy operations
        (payer -prepaid, payer +returned, beneficiary +reward; these also move the total-add/sub counters) plus at most the
        user-credit record of the common To *)
  Theorem tx_atomic e t ci st0 st rc :
    oracle_ok W O clause_result -> exec e t ci st0 = Done W O st rc -> r_reverted O rc = true ->
    let T := e_time e in let S := e_stop e in
    let prepaid := t_gas t * r_price O rc in
    let returned := (t_gas t - r_gas_used O rc) * r_price O rc in
    r_outputs O rc = [] /\
    snd (energy_sub T S (fst st0) (r_payer O rc) prepaid) = true /\
    fst st = energy_add T S (energy_add T S (fst (energy_sub T S (fst st0) (r_payer O rc) prepaid))
                                        (r_payer O rc) returned) (e_benef e) (r_reward O rc) /\
    (snd st = snd st0 \/
     exists to credit', r_credit O rc = Some credit' /\ common_to (t_clauses t) = Some to /\
                        snd st = write_credit to (t_origin t) credit' (snd st0)).
  Proof. intros OK. exact (tx_atomic_lemma W O clause_result write_credit OK e t ci st0 st rc). Qed.

  (* 2b. the success half and the flag.  effs = the results of executing every clause in order, each on the state and with the
         gas left by the previous one (tx_effects).  The reverted flag is set EXACTLY when one of them failed; otherwise the
         outputs are those of all the clauses, one per clause, and the state is the fold of all the clauses' effects over the
         post-buy-gas state, followed by the returned gas and the reward *)
  Theorem tx_all_applied e t ci st0 st rc :
    exec e t ci st0 = Done W O st rc ->
    let T := e_time e in let S := e_stop e in
    let effs := tx_effects W O clause_result e t ci st0 in
    let prepaid := t_gas t * r_price O rc in
    let returned := (t_gas t - r_gas_used O rc) * r_price O rc in
    let st1 : state W := (fst (energy_sub T S (fst st0) (r_payer O rc) prepaid), snd st0) in
    length effs = length (t_clauses t) /\
    r_reverted O rc = any_error W O effs /\
    (r_reverted O rc = false ->
       r_outputs O rc = outs_of W O effs /\ length (r_outputs O rc) = length (t_clauses t) /\
       fst st = energy_add T S (energy_add T S (fst (state_after W O T S effs st1)) (r_payer O rc) returned) (e_benef e) (r_reward O rc) /\
       (snd st = snd (state_after W O T S effs st1) \/
        exists to credit', r_credit O rc = Some credit' /\ common_to (t_clauses t) = Some to /\
                           snd st = write_credit to (t_origin t) credit' (snd (state_after W O T S effs st1)))).
  Proof. exact (tx_outcome_lemma W O clause_result write_credit e t ci st0 st rc). Qed.

  (* 3. REMARKS, true by construction of the model (every failing branch of exec_tx / adopt returns the state it was given; the
        model has no journal): a transaction that cannot start changes nothing.  The content of this clause is carried by the
        harness, which compares the real state root before and after every failed ExecuteTransaction (and after checkpoint /
        RevertTo as the packer does), and by the block-level leaf explanation on real packed blocks. *)
  Remark not_started_unchanged e t ci st0 err st :
    exec e t ci st0 = Failed W O err st -> err <> ErrContext -> st = st0.
  Proof. exact (not_started_unchanged_lemma W O clause_result write_credit e t ci st0 err st). Qed.

  Remark adopt_rejected_unchanged e used t ci st0 st :
    adopt W O clause_result write_credit e used t ci st0 = Rejected W O st -> st = st0.
  Proof. exact (adopt_rejected_unchanged_lemma W O clause_result write_credit e used t ci st0 st). Qed.

  (* 4. a block's gas used is the sum of its receipts and never exceeds the limit (limit < 2^63: the packer's
        gasUsed+gas is an unguarded uint64 sum) *)
  Theorem block_gas e txs st used st' rcs :
    oracle_ok W O clause_result -> 0 <= e_gas_limit e -> 2 * e_gas_limit e < two64 ->
    Forall (fun p => 0 <= t_gas (fst p) < two64 /\
                     Forall (fun c => 0 <= c_zeros c /\ 0 <= c_nonzeros c) (t_clauses (fst p))) txs ->
    adopt_all W O clause_result write_credit e 0 txs st [] = (used, st', rcs) ->
    used = sum_used O rcs /\ 0 <= used <= e_gas_limit e.
  Proof.
    intros OK H0 HL HF H.
    exact (block_gas_lemma W O clause_result write_credit OK e txs HL HF 0 st [] used st' rcs (conj (Z.le_refl 0) H0) eq_refl H).
  Qed.

  (* 5. packer Flow.Adopt in full (pre-checks in the order of the code, execution, flow bookkeeping): a rejected tx — whatever
        the reason: blocked, bad features / chain tag, from the future, expired, no gas room, fee, known, dependency, failure to
        start — leaves the state as it was (remark, by construction as in 3); an adopted one is exactly an adoption of the gas/exec core, is not already known,
        lies in its block-ref window, and its dependency (if any) is a non-reverted earlier tx *)
  Remark adopt_full_rejected_unchanged e fe fs t ai ci st0 c st :
    adopt_full W O clause_result write_credit e fe fs t ai ci st0 = FRejected W O c st -> st = st0.
  Proof. exact (adopt_full_rejected W O clause_result write_credit e fe fs t ai ci st0 c st). Qed.

  Theorem adopt_full_refines e fe fs t ai ci st0 st rc fs' :
    adopt_full W O clause_result write_credit e fe fs t ai ci st0 = FAdopted W O st rc fs' ->
    adopt W O clause_result write_credit e (fs_used fs) t ci st0 = Adopted W O st rc /\
    fs' = mkFS (fs_used fs + r_gas_used O rc) ((ai_id ai, r_reverted O rc) :: fs_processed fs) /\
    adopt_pre e fe fs t ai = None.
  Proof. exact (adopt_full_adopted W O clause_result write_credit e fe fs t ai ci st0 st rc fs'). Qed.

  Theorem adopted_tx_facts e fe fs t ai : adopt_pre e fe fs t ai = None ->
    lookup_processed (ai_id ai) (fs_processed fs) = None /\ ai_chain_has_tx ai = false /\
    t_ref_num t <= e_number e <= t_ref_num t + ai_expiration ai /\
    (forall dep, ai_depends_on ai = Some dep ->
       lookup_processed dep (fs_processed fs) = Some false \/
       (lookup_processed dep (fs_processed fs) = None /\ ai_chain_dep ai = Some false)).
  Proof. exact (adopt_pre_none_facts e fe fs t ai). Qed.

  Theorem block_gas_full e fe txs st fs' st' rcs :
    oracle_ok W O clause_result -> 0 <= e_gas_limit e -> 2 * e_gas_limit e < two64 ->
    Forall (fun p => 0 <= t_gas (fst (fst p)) < two64 /\
                     Forall (fun c => 0 <= c_zeros c /\ 0 <= c_nonzeros c) (t_clauses (fst (fst p)))) txs ->
    adopt_all_full W O clause_result write_credit e fe (mkFS 0 []) txs st [] = (fs', st', rcs) ->
    fs_used fs' = sum_used O rcs /\ 0 <= fs_used fs' <= e_gas_limit e.
  Proof.
    intros OK H0 HL HF H.
    exact (block_gas_full_lemma W O clause_result write_credit OK e fe txs HL HF (mkFS 0 []) st [] fs' st' rcs
             (conj (Z.le_refl 0) H0) eq_refl H).
  Qed.
End C07.

(* non-vacuity: concrete oracles satisfying oracle_ok; a 3-clause transaction whose 2nd clause fails after the 1st wrote; the same
   transaction with all clauses succeeding; a block of three transactions *)
Definition ex_oracle (_ : env) (_ : txn) (i : nat) (g : Z) (st : state Z) : cres Z Z :=
  mkCres Z Z (g / 3) 9000 (Nat.eqb i 1) [OTransfer 1 2 5] (snd st + 1) (Z.of_nat i).
Definition ex_oracle_fine (_ : env) (_ : txn) (i : nat) (g : Z) (st : state Z) : cres Z Z :=
  mkCres Z Z (g / 3) 9000 false [OTransfer 1 2 5] (snd st + 1) (Z.of_nat i).
Definition ex_wc (_ _ c w : Z) : Z := w + 1000 * c.
Definition ex_env := mkEnv 100 1000 5 3 10000000 (Some 10000000000000) 1000000000000000 300000000000000000 77 10.
Definition ex_tx := mkTx true 200000 [mkClause (Some 2) 3 4 5; mkClause (Some 2) 0 0 0; mkClause None 0 10 0]
                         0 20000000000000 500 1 true None true 0 0 0 false.
Definition ex_led : ledger :=
  mkL (fun a => if a =? 1 then mkAcc 1000 90000000000000000000 50 else empty_acc) 0 0 0.
Definition ex_ci := mkCI 0 0 false false.

Example ex_oracle_ok : oracle_ok Z Z ex_oracle /\ oracle_ok Z Z ex_oracle_fine.
Proof.
  split; intros e t i g st Hg; cbn; pose proof (Z.div_mod g 3 ltac:(lia)); pose proof (Z.mod_pos_bound g 3 ltac:(lia)); lia.
Qed.

Example ex_reverts : exists st rc,
  exec_tx Z Z ex_oracle ex_wc ex_env ex_tx ex_ci (ex_led, 0) = Done Z Z st rc /\
  r_reverted Z rc = true /\ r_outputs Z rc = [] /\ snd st = 0 /\
  r_gas_used Z rc = 175330 /\ intrinsic_gas (t_clauses ex_tx) = Some 85964 /\
  r_clause_log Z rc = [(114036, 76024, 9000); (47012, 31342, 9000)] /\
  any_error Z Z (tx_effects Z Z ex_oracle ex_env ex_tx ex_ci (ex_led, 0)) = true.
Proof. eexists _, _. split; [vm_compute; reflexivity|]. vm_compute. repeat split; reflexivity. Qed.

Example ex_all_applied : exists st rc,
  exec_tx Z Z ex_oracle_fine ex_wc ex_env ex_tx ex_ci (ex_led, 0) = Done Z Z st rc /\
  r_reverted Z rc = false /\ r_outputs Z rc = [0; 1; 2] /\ snd st = 3 /\ r_gas_used Z rc = 183554 /\
  view 100 1000 (fst st) 2 = (15, 0) /\ view 100 1000 (fst st) 1 = (985, 88164459999908223000) /\
  any_error Z Z (tx_effects Z Z ex_oracle_fine ex_env ex_tx ex_ci (ex_led, 0)) = false.
Proof. eexists _, _. split; [vm_compute; reflexivity|]. vm_compute. repeat split; reflexivity. Qed.

Example ex_not_started :
  (exists err, exec_tx Z Z ex_oracle ex_wc ex_env (mkTx true 200000 [] 0 5 1 1 true None true 0 0 0 false) ex_ci (ex_led, 0)
               = Failed Z Z err (ex_led, 0) /\ err = ErrPriceBelowBaseFee) /\
  (exists err, exec_tx Z Z ex_oracle ex_wc ex_env (mkTx true 20000 [] 0 20000000000000 1 1 true None true 0 0 0 false) ex_ci (ex_led, 0)
               = Failed Z Z err (ex_led, 0) /\ err = ErrGasBelowIntrinsic) /\
  (exists err, exec_tx Z Z ex_oracle ex_wc ex_env (mkTx true 200000 [] 0 20000000000000 1 9 true None true 0 0 0 false) ex_ci (ex_led, 0)
               = Failed Z Z err (ex_led, 0) /\ err = ErrInsufficientEnergy) /\
  (exists err, exec_tx Z Z ex_oracle ex_wc ex_env (mkTx true 200000 [] 0 20000000000000 1 1 false None true 0 0 0 false) ex_ci (ex_led, 0)
               = Failed Z Z err (ex_led, 0) /\ err = ErrOrigin).
Proof. repeat split; eexists; (split; [vm_compute; reflexivity|reflexivity]). Qed.

(* a block: three copies of ex_tx adopted one after the other (block_gas), and the full Adopt: the first adopted, its duplicate
   rejected as known, a third rejected because its dependency (the first, reverted) failed, a fourth for lack of gas room *)
Example ex_block_gas : exists st rcs,
  adopt_all Z Z ex_oracle ex_wc ex_env 0 [(ex_tx, ex_ci); (ex_tx, ex_ci); (ex_tx, ex_ci)] (ex_led, 0) [] = (525990, st, rcs) /\
  map (r_gas_used Z) rcs = [175330; 175330; 175330] /\ 525990 <= e_gas_limit ex_env.
Proof. eexists _, _. split; [vm_compute; reflexivity|]. vm_compute. split; [reflexivity|discriminate]. Qed.

Definition ex_ai (id : Z) (dep : option Z) := mkAI false false true true 1000 id dep false None.
Example ex_adopt_full :
  let fe := mkFE 0 0 in
  exists st rc fs,
    adopt_full Z Z ex_oracle ex_wc ex_env fe (mkFS 0 []) ex_tx (ex_ai 11 None) ex_ci (ex_led, 0) = FAdopted Z Z st rc fs /\
    fs = mkFS 175330 [(11, true)] /\
    adopt_full Z Z ex_oracle ex_wc ex_env fe fs ex_tx (ex_ai 11 None) ex_ci st = FRejected Z Z AcKnownTx st /\
    adopt_full Z Z ex_oracle ex_wc ex_env fe fs ex_tx (ex_ai 12 (Some 11)) ex_ci st = FRejected Z Z AcNotAdoptableForever st /\
    adopt_full Z Z ex_oracle ex_wc ex_env fe fs ex_tx (ex_ai 13 (Some 99)) ex_ci st = FRejected Z Z AcNotAdoptableNow st /\
    adopt_full Z Z ex_oracle ex_wc ex_env fe (mkFS 9990000 []) ex_tx (ex_ai 14 None) ex_ci st = FRejected Z Z AcGasLimitReached st /\
    adopt_pre ex_env fe (mkFS 0 []) ex_tx (ex_ai 11 None) = None.
Proof. cbv zeta. eexists _, _, _. split; [vm_compute; reflexivity|]. vm_compute. repeat split; reflexivity. Qed.

Print Assumptions gas_bounds.
Print Assumptions tx_atomic.
Print Assumptions tx_all_applied.
Print Assumptions not_started_unchanged.
Print Assumptions adopt_rejected_unchanged.
Print Assumptions block_gas.
Print Assumptions adopt_full_rejected_unchanged.
Print Assumptions adopt_full_refines.
Print Assumptions adopted_tx_facts.
Print Assumptions block_gas_full.

(* ================================================================ composition *)
(* C07 <-> C01 (Compose/ExecSane.v).  gas_bounds (1 above) together with ResolveTransaction's need of the origin is exactly
   what C01's packed_block_accepted assumes of its abstract execution function (Validation.ProofsPacker.exec_sane: a receipt
   uses at most the tx gas, execution needs a recoverable origin, tx gas <= block gas limit): with this model's exec_tx in the
   place of C01's abstract exec (the fields C01's transaction view carries are taken from the view) the premise is a theorem. *)
Theorem gas_bounds_discharge_c01_exec_sane (W O : Type)
        (clause_result : env -> txn -> nat -> Z -> state W -> cres W O) (write_credit : Z -> Z -> Z -> W -> W)
        (tx_rest : Validation.Body.txn -> txn) (env_rest : Header.Rules.bctx -> state W -> env)
        (credit_of : Header.Rules.bctx -> state W -> Validation.Body.txn -> credit_info) (digest : receipt O -> N) :
  oracle_ok W O clause_result ->
  Validation.ProofsPacker.exec_sane (state W)
    (ExecSane.exec_of_c07 W O clause_result write_credit tx_rest env_rest credit_of digest).
Proof. exact (ExecSane.exec_of_c07_sane W O clause_result write_credit tx_rest env_rest credit_of digest). Qed.

(* non-vacuity: ex_oracle_fine of this file is ExecSane.x_oracle; the instance packs and validates a block (Properties/C01.v) *)
Example exec_sane_example : oracle_ok Z Z ExecSane.x_oracle.
Proof. exact ExecSane.x_oracle_ok. Qed.

Print Assumptions gas_bounds_discharge_c01_exec_sane.
Print Assumptions exec_sane_example.

(* C07 <-> C10 (Compose/EvmOracle.v, EVM/ProofsRefund.v).  The premise oracle_ok of 1, 2, 4, 5 above — the only thing this
   property assumes about the EVM — is a THEOREM for the clause oracle induced by C10's interpreter model (EVM/Model.v) driven the
   way runtime.PrepareClause drives the EVM: a fresh statedb per clause (accounts / storage view, no logs, no transfer records,
   refund counter 0), evm.Call = call_top for a clause with a To, evm.Create = do_create at depth 0 with creation counter 0 for
   a clause without, fuel gas+1; gas left = r_gas, refund counter = w_refund of the final world, VM error = outcome other than
   O_ok (REVERT, every error, and the out-of-model outcome O_unsupported).  How the EVM environment and the accounts / storage
   view are read off this model's env / txn / clause index / state, the clause's input bytes, how the final world is written
   back, the ledger primitives and the output are arbitrary functions (data, not premises).  0 <= left <= gas comes from C10's
   run_terminates_within_gas / do_create_gas; refund >= 0 from the new EVM/ProofsRefund.v (the refund counter never
   decreases along a run: only gasSStore / gasSuicide add to it, a failed frame returns its entry world). *)
From Verif Require EVM.Model Compose.EvmOracle.

Section C07_C10.
  Variables W O : Type.
  Variable evm_env : env -> txn -> nat -> state W -> Verif.EVM.Model.env.
  Variable world_of : state W -> Verif.EVM.Model.world.
  Variable input_of : txn -> nat -> list Z.
  Variable world_back : state W -> Verif.EVM.Model.world -> W.
  Variable ops_of : Verif.EVM.Model.fres -> list op.
  Variable out_of : Verif.EVM.Model.fres -> O.
  Variable write_credit : Z -> Z -> Z -> W -> W.
  Let evm_oracle := EvmOracle.evm_clause_result W O evm_env world_of input_of world_back ops_of out_of.

  Theorem oracle_ok_of_c10_interpreter : oracle_ok W O evm_oracle.
  Proof. exact (EvmOracle.evm_oracle_ok W O evm_env world_of input_of world_back ops_of out_of). Qed.

  (* 1 without its premise *)
  Theorem gas_bounds_c10 e t ci st0 st rc :
    exec_tx W O evm_oracle write_credit e t ci st0 = Done W O st rc ->
    exists ig, intrinsic_gas (t_clauses t) = Some ig /\
      ig <= r_gas_used O rc <= t_gas t /\ t_gas t <= e_gas_limit e /\
      r_paid O rc = r_gas_used O rc * r_price O rc /\
      log_ok (r_clause_log O rc) /\
      r_gas_used O rc = ig + log_used (r_clause_log O rc) - log_refund (r_clause_log O rc) /\
      2 * log_refund (r_clause_log O rc) <= log_used (r_clause_log O rc).
  Proof. exact (EvmOracle.gas_bounds_evm W O evm_env world_of input_of world_back ops_of out_of write_credit e t ci st0 st rc). Qed.

  (* 2 without its premise *)
  Theorem tx_atomic_c10 e t ci st0 st rc :
    exec_tx W O evm_oracle write_credit e t ci st0 = Done W O st rc -> r_reverted O rc = true ->
    let T := e_time e in let S := e_stop e in
    let prepaid := t_gas t * r_price O rc in
    let returned := (t_gas t - r_gas_used O rc) * r_price O rc in
    r_outputs O rc = [] /\
    snd (energy_sub T S (fst st0) (r_payer O rc) prepaid) = true /\
    fst st = energy_add T S (energy_add T S (fst (energy_sub T S (fst st0) (r_payer O rc) prepaid))
                                        (r_payer O rc) returned) (e_benef e) (r_reward O rc) /\
    (snd st = snd st0 \/
     exists to credit', r_credit O rc = Some credit' /\ common_to (t_clauses t) = Some to /\
                        snd st = write_credit to (t_origin t) credit' (snd st0)).
  Proof. exact (EvmOracle.tx_atomic_evm W O evm_env world_of input_of world_back ops_of out_of write_credit e t ci st0 st rc). Qed.

  (* 4 and 5 (block gas) without their premise *)
  Theorem block_gas_c10 e txs st used st' rcs :
    0 <= e_gas_limit e -> 2 * e_gas_limit e < two64 ->
    Forall (fun p => 0 <= t_gas (fst p) < two64 /\
                     Forall (fun c => 0 <= c_zeros c /\ 0 <= c_nonzeros c) (t_clauses (fst p))) txs ->
    adopt_all W O evm_oracle write_credit e 0 txs st [] = (used, st', rcs) ->
    used = sum_used O rcs /\ 0 <= used <= e_gas_limit e.
  Proof. exact (EvmOracle.block_gas_evm W O evm_env world_of input_of world_back ops_of out_of write_credit e txs st used st' rcs). Qed.

  Theorem block_gas_full_c10 e fe txs st fs' st' rcs :
    0 <= e_gas_limit e -> 2 * e_gas_limit e < two64 ->
    Forall (fun p => 0 <= t_gas (fst (fst p)) < two64 /\
                     Forall (fun c => 0 <= c_zeros c /\ 0 <= c_nonzeros c) (t_clauses (fst (fst p)))) txs ->
    adopt_all_full W O evm_oracle write_credit e fe (mkFS 0 []) txs st [] = (fs', st', rcs) ->
    fs_used fs' = sum_used O rcs /\ 0 <= fs_used fs' <= e_gas_limit e.
  Proof. exact (EvmOracle.block_gas_full_evm W O evm_env world_of input_of world_back ops_of out_of write_credit e fe txs st fs' st' rcs). Qed.

  (* a clause the wrapper counts as failed returned the fresh EVM view untouched (C10: failed_frame_no_effect /
     failed_creation_no_effect) with refund counter 0 *)
  Theorem failed_clause_world_c10 e t i g st :
    cr_err W O (evm_oracle e t i g st) = true ->
    exists r, EvmOracle.evm_frame W evm_env world_of input_of e t i g st = Some r /\
              Verif.EVM.Model.r_out r <> Verif.EVM.Model.O_ok /\
              Verif.EVM.Model.r_world r = EvmOracle.fresh (world_of st) /\
              cr_refund W O (evm_oracle e t i g st) = 0 /\
              cr_world W O (evm_oracle e t i g st) = world_back st (EvmOracle.fresh (world_of st)).
  Proof. exact (EvmOracle.evm_clause_failed_world W O evm_env world_of input_of world_back ops_of out_of e t i g st). Qed.

  (* ... and C01's premise about execution (the composition with C01 above) holds outright: C01 <- C07 <- C10 *)
  Theorem exec_sane_c10 (tx_rest : Validation.Body.txn -> txn) (env_rest : Header.Rules.bctx -> state W -> env)
          (credit_of : Header.Rules.bctx -> state W -> Validation.Body.txn -> credit_info) (digest : receipt O -> N) :
    Validation.ProofsPacker.exec_sane (state W)
      (ExecSane.exec_of_c07 W O evm_oracle write_credit tx_rest env_rest credit_of digest).
  Proof. exact (EvmOracle.exec_sane_evm W O evm_env world_of input_of world_back ops_of out_of write_credit tx_rest env_rest credit_of digest). Qed.
End C07_C10.

(* non-vacuity (instances in Compose/EvmOracle.v): the EVM's balances are read from the ledger, its transfer records go back as
   ledger transfers; a transaction of two clauses — a call into a contract that clears a storage slot (refund counter 15000,
   capped to half of the 5005 gas consumed) carrying 3 wei, and a creation deploying one byte of code — runs through exec_tx on
   the interpreter: Done, gas used 72194 = intrinsic 69476 + 5220 - 2502; with a third clause calling a contract that hits
   INVALID the transaction is reverted (hypotheses of tx_atomic_c10 / failed_clause_world_c10); a block of both (block_gas_c10) *)
Example c10_oracle_runs : exists st rc,
  exec_tx EvmOracle.XW EvmOracle.XO EvmOracle.x_oracle EvmOracle.x_wc EvmOracle.x_env EvmOracle.x_tx EvmOracle.x_ci
          (EvmOracle.x_led, EvmOracle.x_w0) = Done EvmOracle.XW EvmOracle.XO st rc /\
  r_reverted EvmOracle.XO rc = false /\ r_gas_used EvmOracle.XO rc = 72194 /\
  r_clause_log EvmOracle.XO rc = [(130524, 5005, 2502); (128021, 215, 0)].
Proof. destruct EvmOracle.x_runs as (st & rc & E & R & G & _ & L & _). exists st, rc. repeat split; assumption. Qed.

Example c10_oracle_reverts : exists st rc,
  exec_tx EvmOracle.XW EvmOracle.XO EvmOracle.x_oracle EvmOracle.x_wc EvmOracle.x_env EvmOracle.x_tx_bad EvmOracle.x_ci
          (EvmOracle.x_led, EvmOracle.x_w0) = Done EvmOracle.XW EvmOracle.XO st rc /\
  r_reverted EvmOracle.XO rc = true /\ r_outputs EvmOracle.XO rc = [] /\ snd st = EvmOracle.x_w0.
Proof. destruct EvmOracle.x_reverts as (st & rc & E & R & Ho & Hs & _). exists st, rc. repeat split; assumption. Qed.

Example c10_failed_clause :
  cr_err EvmOracle.XW EvmOracle.XO
         (EvmOracle.x_oracle EvmOracle.x_env EvmOracle.x_tx_bad 2%nat 1000 (EvmOracle.x_led, EvmOracle.x_w0)) = true.
Proof. exact (proj1 EvmOracle.x_failed_world). Qed.

Example c10_block : exists st rcs,
  adopt_all EvmOracle.XW EvmOracle.XO EvmOracle.x_oracle EvmOracle.x_wc EvmOracle.x_env 0
            [(EvmOracle.x_tx, EvmOracle.x_ci); (EvmOracle.x_tx_bad, EvmOracle.x_ci)] (EvmOracle.x_led, EvmOracle.x_w0) []
  = (272194, st, rcs) /\ map (r_gas_used EvmOracle.XO) rcs = [72194; 200000].
Proof. destruct EvmOracle.x_block as (st & rcs & E & M & _). exists st, rcs. split; assumption. Qed.

Print Assumptions oracle_ok_of_c10_interpreter.
Print Assumptions gas_bounds_c10.
Print Assumptions tx_atomic_c10.
Print Assumptions block_gas_c10.
Print Assumptions block_gas_full_c10.
Print Assumptions failed_clause_world_c10.
Print Assumptions exec_sane_c10.
Print Assumptions c10_oracle_runs.
Print Assumptions c10_oracle_reverts.
Print Assumptions c10_failed_clause.
Print Assumptions c10_block.
