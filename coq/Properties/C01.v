(* Properties/C01.v — statements only.  "Every block the packer produces is accepted, identically, by every validator;
   the verdict and the resulting state depend only on the block and its ancestors."
   Model: Header/Rules.v (Packer.Schedule side: schedule_ctx; validator side: validate_header, validate_proposer),
   Validation/Body.v (Flow.Adopt admission switch, Flow.Pack, Consensus.Process).  Transaction execution, reward hook,
   staker sanity check, the three Merkle roots and the chain lookups are universally quantified Section variables; the
   schedulers are C05's model (Sched/Model.v) and its theorems; the gas-limit functions are the go2v translation. *)
From Coq Require Import List NArith ZArith Bool Lia.
From Verif Require Import Common.Util Common.GoInt Sched.Model Sched.Proofs Gen.GasLimit GenProofs.GasLimitProofs BaseFee.Model
     Header.Rules Header.Proofs Validation.Body Validation.Catalogue Validation.ProofsRules Validation.ProofsPacker
     Validation.Cache Validation.ProofsCache Validation.ExamplesCache.
From Verif Require TxExec.Model TxExec.Proofs Compose.ExecSane.
Import ListNotations.
Open Scope N_scope.

(* 0. packer side of the gas-limit rule, over the go2v translation of block/gas_limit.go: Qualify always lands inside IsValid *)
Theorem gas_limit_packer_valid target parent : u64 target -> u64 parent -> (GasLimitProofs.min_gas_limit <= parent)%Z ->
  GasLimit_IsValid (GasLimit_Qualify target parent) parent = true.
Proof. exact (qualify_is_valid target parent). Qed.

(* 1. proposer turn: the slot Schedule returns is accepted by IsTheTime, for PoA v1, PoA v2 and PoS (C05) *)
Theorem schedule_slot_accepted k hsh pt T cs me mep now fuel t : 0 < T ->
  find_me me (props cs) = Some mep ->
  sched_schedule k hsh pt T cs me now fuel = Some t ->
  sched_is_the_time k hsh pt T cs me t = true.
Proof. exact (sched_schedule_accepted k hsh pt T cs me mep now fuel t). Qed.

Section C01.
  Variable State : Type.
  Variable exec : bctx -> State -> txn -> option (State * receipt).
  Variable apply_updates : bool -> N -> State -> list (N * bool) -> State.
  Variable rewards : bctx -> State -> option State.
  Variable sanity : State -> bool.
  Variable root_of_state : State -> N.
  Variable root_of_receipts : list receipt -> N.
  Variable root_of_txs : list txn -> N.
  Variable has_tx : N -> N -> bool.
  Variable find_meta : N -> option bool.

  Notation process := (process State exec apply_updates rewards sanity root_of_state root_of_receipts root_of_txs has_tx find_meta).
  Notation pack_block := (pack_block State exec apply_updates rewards root_of_state root_of_receipts root_of_txs has_tx find_meta).
  Notation premises := (premises State exec).

  (* 2. for every fork configuration, parent, proposer option set, clock, candidate transaction sequence and vote: the
        block Schedule+Adopt*+Pack produces passes Process on every validator whose clock has reached it, and Process
        returns exactly the packer's final state and receipts.  Premises (named): numbers below the uint64 wrap
        (gas limits < 2^62, block number < 2^32), unique candidate addresses, exec_sane (a receipt uses at most the tx
        gas - C07 -, execution needs a recoverable origin and refuses a tx whose gas exceeds the block gas limit -
        runtime.PrepareTransaction; this is what keeps the uint64 sum gasUsed+tx.Gas() of Flow.Adopt from wrapping),
        crypto round trips, total score grows (see 3 for PoA v2), staker sanity check (PoS; C16) *)
  Theorem packed_block_accepted cfg pv parent po now st0 txs vote sr b stp rcs vnow :
    premises cfg pv parent po -> crypto_roundtrip cfg parent po sr ->
    pack_block cfg pv parent po now st0 txs vote sr = Some (b, stp, rcs) ->
    h_total_score parent < h_total_score (b_header b) ->
    (pv_pos pv = true -> forall ctx stf, rewards ctx stf = Some stp -> sanity stf = true) ->
    h_time (b_header b) <= vnow + c_interval cfg ->
    process cfg pv parent st0 b vnow = Accepted State stp rcs.
  Proof. exact (packed_block_accepted_lemma State exec apply_updates rewards sanity root_of_state root_of_receipts root_of_txs has_tx find_meta cfg pv parent po now st0 txs vote sr b stp rcs vnow). Qed.

  (* 2b. the same with the score premise discharged from premises on the INPUTS: unique candidates, no uint64 wrap of the
         total score, and for PoS the proposer's own weight x 10000 reaching the total weight (pos_weight_premise; without
         it the score rounds to 0 and the packed block IS rejected: pos_score_zero_block_rejected below, finding F14) *)
  Theorem packed_block_accepted_from_inputs cfg pv parent po now st0 txs vote sr b stp rcs vnow :
    premises cfg pv parent po -> crypto_roundtrip cfg parent po sr ->
    pos_weight_premise pv po ->
    h_total_score parent + max_pos_score + N.of_nat (length (pv_cands pv)) < 18446744073709551616 ->
    pack_block cfg pv parent po now st0 txs vote sr = Some (b, stp, rcs) ->
    (pv_pos pv = true -> forall ctx stf, rewards ctx stf = Some stp -> sanity stf = true) ->
    h_time (b_header b) <= vnow + c_interval cfg ->
    process cfg pv parent st0 b vnow = Accepted State stp rcs.
  Proof.
    intros P C W NW Hp Hs Hn.
    destruct (pack_block_score _ _ _ _ _ _ _ _ _ _ _ _ _ _ _ _ _ _ _ _ _ Hp) as (ctx & ups & Hc & E).
    apply (packed_block_accepted cfg pv parent po now st0 txs vote sr b stp rcs vnow P C Hp); [|exact Hs | exact Hn].
    rewrite E. destruct P as [PT _ _ _ PU _]. exact (packer_score_grows cfg pv parent po now ctx ups PT PU W NW Hc).
  Qed.

  (* 4. the verdict does not depend on the validator's clock once the block is not in the future ... *)
  Theorem verdict_independent_of_clock cfg pv parent st0 b now1 now2 :
    h_time (b_header b) <= now1 + c_interval cfg -> h_time (b_header b) <= now2 + c_interval cfg ->
    process cfg pv parent st0 b now1 = process cfg pv parent st0 b now2.
  Proof. exact (verdict_independent_of_clock_lemma State exec apply_updates rewards sanity root_of_state root_of_receipts root_of_txs has_tx find_meta cfg pv parent st0 b now1 now2). Qed.

  (* 5. ... nor on the validators' candidate cache, over whole histories.  Blocks are abstract identifiers; what a fresh
        read of the state after a block gives (all_of / funded_of / mbp_of for PoA, hk_of / leaders_of / leaders_pre for
        PoS) and how the rest of a judgement's inputs depend on the block are arbitrary functions.  A judgement is
        `process` on the view built from the proposer list; the cachers consume the scheduler's updates and the events of
        the accepted block's receipts.  The two named hypotheses of each theorem state that the candidate list / leader
        group changes only through what the cachers watch (Validation/ProofsCache.v):
          PoA  list_changes_only_by_authority_events, selection_changes_only_by_watched_events
          PoS  housekeeping_reports_changes, leaders_change_only_by_watched_events.
        Conclusion: a warm validator that has processed ANY sequence of parent/child pairs (accepted or rejected, any
        branch order), whose cache may lose arbitrary entries between two validations (the LRU bound), returns for every
        block the outcome of a cold validator reading the state.
        Restart, number of stored siblings (`conflicts`) and repetition: `process` has no such input — the model cannot
        express a dependence on them; that the CODE has none is what the cold / warm-again / restarted /
        different-conflicts differential of the harness tests (not a theorem).  scheduler.Seeder's cache is not modelled
        (the seed is data). *)
  Variable Blk : Type.
  Variable blk_eqb : Blk -> Blk -> bool.
  Variable child : Blk -> Blk -> Prop.
  Variable cfg : config.
  Variable parent_hdr : Blk -> header.
  Variable st0_of : Blk -> State.
  Variable block_of : Blk -> block.
  Variable clock_of : Blk -> N.
  Variable events_of : list receipt -> events.

  Definition outcome_and_feedback {P} (view_of : P -> Blk -> pview) (ups_of : P -> Blk -> Blk -> list (N * bool))
             (props : P) (p b : Blk) : outcome State * option (list (N * bool) * events) :=
    let o := process cfg (view_of props p) (parent_hdr p) (st0_of p) (block_of b) (clock_of b) in
    (o, match o with Accepted _ _ rcs => Some (ups_of props p b, events_of rcs) | Rejected _ _ => None end).

  Theorem verdict_independent_of_cache_poa
          all_of funded_of mbp_of hayabusa_of (view_of : list acand -> Blk -> pview) ups_of
          (steps : list ((pcache Blk -> pcache Blk) * (Blk * Blk))) :
    (forall a b, blk_eqb a b = true <-> a = b) ->
    let judge := outcome_and_feedback view_of ups_of in
    (forall p b ups ev, child p b -> snd (judge (poa_fresh Blk all_of funded_of mbp_of p) p b) = Some (ups, ev) ->
        ev_authority ev = false -> all_of b = apply_updates_list (all_of p) ups) ->
    (forall p b ups ev, child p b -> snd (judge (poa_fresh Blk all_of funded_of mbp_of p) p b) = Some (ups, ev) ->
        (hayabusa_of b && ev_staker ev) = false -> ev_params ev = false ->
        (forall a, In a (ev_parties ev) -> existsb (fun c => ac_endorsor c =? a) (all_of p) = false) ->
        (forall c, In c (all_of p) -> funded_of b (ac_master c) (ac_endorsor c) = funded_of p (ac_master c) (ac_endorsor c)) /\
        mbp_of b = mbp_of p) ->
    Forall (fun s => only_loses_p Blk blk_eqb (fst s) /\ child (fst (snd s)) (snd (snd s))) steps ->
    poa_run_lossy Blk blk_eqb (outcome State) all_of funded_of mbp_of hayabusa_of judge [] steps =
    map (fun s => let p := fst (snd s) in let b := snd (snd s) in
                  process cfg (view_of (poa_fresh Blk all_of funded_of mbp_of p) p) (parent_hdr p) (st0_of p) (block_of b) (clock_of b)) steps.
  Proof.
    intros Heq judge HA HF Hs.
    rewrite (poa_run_lossy_is_cold Blk blk_eqb Heq (outcome State) child all_of funded_of mbp_of hayabusa_of judge HA HF steps [] ltac:(intros b e X; discriminate) Hs).
    reflexivity.
  Qed.

  Theorem verdict_independent_of_cache_pos
          hk_of leaders_of leaders_pre (view_of : list cand -> Blk -> pview) ups_of
          (steps : list ((scache Blk -> scache Blk) * (Blk * Blk))) :
    (forall a b, blk_eqb a b = true <-> a = b) ->
    let judge := outcome_and_feedback view_of ups_of in
    (forall p, hk_of p = false -> leaders_of p = leaders_pre p) ->
    (forall p b ev, child p b -> snd (judge (leaders_of p) p b) = Some ([], ev) -> ev_beneficiary_set ev = false ->
        leaders_pre b = leaders_of p) ->
    Forall (fun s => only_loses_s Blk blk_eqb (fst s) /\ child (fst (snd s)) (snd (snd s))) steps ->
    pos_run_lossy Blk blk_eqb (outcome State) hk_of leaders_of judge [] steps =
    map (fun s => let p := fst (snd s) in let b := snd (snd s) in
                  process cfg (view_of (leaders_of p) p) (parent_hdr p) (st0_of p) (block_of b) (clock_of b)) steps.
  Proof.
    intros Heq judge H1 H2 Hs.
    rewrite (pos_run_lossy_is_cold Blk blk_eqb Heq (outcome State) child hk_of leaders_of leaders_pre judge H1 H2 steps [] ltac:(intros b e X; discriminate) Hs).
    reflexivity.
  Qed.
End C01.

(* 5b. scope of the first PoA hypothesis on the code as it is: it holds with two or more listed authority nodes, and fails for a
       sole listed node (authority.Update does not write the flag of an entry with neither Prev nor Next) *)
Theorem poa_hypothesis_scope :
  (forall l ups, length l <> 1%nat -> state_apply_updates l ups = apply_updates_list l ups) /\
  (exists l ups, state_apply_updates l ups <> apply_updates_list l ups).
Proof. exact (conj state_updates_agree sole_node_cache_flag_diverges). Qed.

(* 6. the packer's read of the authority list (authority.Candidates) is the validator's (AllCandidates + Pick) *)
Theorem candidates_reads_agree funded limit l :
  snd (pick (new_candidates l) funded limit) = cands_walk funded limit l 0.
Proof. exact (candidates_eq_all_pick funded limit l). Qed.

(* 3. PoA v2: the packer's score is between 1 and the number of candidates, so the total score grows *)
Theorem poa_v2_score_positive pt T cs me mep t : 0 < T ->
  find_me me (props cs) = Some mep -> is_scheduled pt T (addrs (seq_of me (pks cs))) t me = true ->
  1 <= snd (updates_v2 pt T (seq_of me (pks cs)) mep t) <= N.of_nat (length cs).
Proof. exact (v2_score_positive pt T cs me mep t). Qed.

(* 3b. PoA v1 and PoS scores; the packer's total score grows for all three schedulers from premises on the inputs *)
Theorem poa_v1_score_positive hsh pt T cs me mep t :
  NoDup (map cand_addr cs) -> find_me me (props cs) = Some mep ->
  1 <= snd (updates_v1 hsh pt T (actives_v1 me (props cs)) mep t) <= N.of_nat (length cs).
Proof. exact (v1_score_positive hsh pt T cs me mep t). Qed.

Theorem pos_score_at_least_one pt T cs me mep total t : 0 < T ->
  find_me me (props cs) = Some mep -> is_scheduled pt T (addrs (seq_of me (pks cs))) t me = true ->
  sumN (ProofsUpdates.weights (seq_of me (pks cs))) * max_pos_score < 18446744073709551616 ->
  sumN (ProofsUpdates.weights (seq_of me (pks cs))) <= total -> 0 < total -> total <= p_weight mep * max_pos_score ->
  1 <= snd (updates_pos pt T (seq_of me (pks cs)) mep total t) <= max_pos_score.
Proof. exact (pos_score_positive pt T cs me mep total t). Qed.

Theorem packer_total_score_grows cfg pv parent po now ctx ups :
  0 < c_interval cfg -> NoDup (map cand_addr (pv_cands pv)) -> pos_weight_premise pv po ->
  h_total_score parent + max_pos_score + N.of_nat (length (pv_cands pv)) < 18446744073709551616 ->
  schedule_ctx cfg pv parent po now = Some (ctx, ups) ->
  h_total_score parent < x_total_score ctx.
Proof. exact (packer_score_grows cfg pv parent po now ctx ups). Qed.

(* 5c. the four cache hypotheses instantiated on histories in which list, selection and leader group really change *)
Example cache_hypotheses_hold_on_a_history :
  poa_run N N.eqb (list acand) x_all x_funded x_mbp (fun _ => false) x_judge [] x_steps =
    map (fun pb => poa_fresh N x_all x_funded x_mbp (fst pb)) x_steps /\
  pos_run N N.eqb (list cand) y_hk y_of y_judge [] y_steps = map (fun pb => y_of (fst pb)) y_steps.
Proof. exact (conj poa_cache_hypotheses_instance pos_cache_hypotheses_instance). Qed.
(* (the judge of these histories is a toy that accepts every block and returns the proposer list it was given; the lossy variant is
   instantiated by ExamplesCache.poa_cache_lossy_instance; the `process`-level statements 5 above are not instantiated in-tree) *)

(* ---- non-vacuity: the concrete PoA-v2 parent of Properties/C02.v; the model packer builds a block on it and the
        validator model accepts it with the same state *)
Definition ex_cfg := mkCfg 0 0 0 0 1000 10 39.
Definition ex_parent := mkH 5 1000 10000000 0 0 50 0 1 777 0 (0, 0) false None 146 (Some 11) (Some (0, 0)).
Definition ex_cands := [ mkC (mkP 11 true 0) 2 111 None; mkC (mkP 22 true 0) 1 222 None ].
Definition ex_pv := mkPV false ex_cands 0 (fun _ => 0).
Definition ex_po := mkPO 11 None 20000000 0.
Definition ex_txs := [ mkTx 9001 true false true false 39 4 32 0 0 false 21000 true None;
                       mkTx 9002 true false true false 38 4 32 0 0 false 21000 true None;   (* wrong chain tag: refused *)
                       mkTx 9003 true false true false 39 4 32 0 0 false 30000 true (Some 9001) ].
Definition ex_exec (c : bctx) (st : N) (t : txn) : option (N * receipt) :=
  if t_origin_ok t && (21000 <=? t_gas t) && (t_gas t <=? x_gas_limit c) then Some (st + t_id t, mkRc 21000 false 5) else None.
Definition ex_sr := mkSR 146 (Some 11) (Some (32, 4242)) None.
Definition ex_pack := pack_block N ex_exec (fun _ _ st _ => st) (fun _ st => Some st) (fun st => st)
          (fun rs => N.of_nat (length rs)) (fun ts => N.of_nat (length ts)) (fun _ _ => false) (fun _ => None)
          ex_cfg ex_pv ex_parent ex_po 1003 7 ex_txs true ex_sr.

Example ex_packed :
  exists b, ex_pack = Some (b, 18011, [mkRc 21000 false 5; mkRc 21000 false 5]) /\
            h_time (b_header b) = 1020 /\ h_gas_limit (b_header b) = 10009765 /\ h_total_score (b_header b) = 51 /\
            map t_id (b_txs b) = [9001; 9003] /\
            h_total_score ex_parent < h_total_score (b_header b).
Proof. eexists. split; [vm_compute; reflexivity|]. vm_compute. repeat split; reflexivity. Qed.

Example ex_premises : premises N ex_exec ex_cfg ex_pv ex_parent ex_po /\ crypto_roundtrip ex_cfg ex_parent ex_po ex_sr.
Proof.
  split.
  - constructor.
    + reflexivity.
    + reflexivity.
    + split; [discriminate | reflexivity].
    + reflexivity.
    + constructor; [cbn; intuition discriminate|]. constructor; [cbn; intuition | constructor].
    + intros ctx st t st' r E. unfold ex_exec in E. destruct (t_origin_ok t) eqn:Eo; cbn [andb] in E; [|discriminate].
      destruct (N.leb_spec 21000 (t_gas t)); cbn [andb] in E; [|discriminate].
      destruct (N.leb_spec (t_gas t) (x_gas_limit ctx)); [|discriminate]. inversion E; subst. cbn [r_gas]. auto.
  - split; [reflexivity|]. split; [reflexivity|]. intros _. discriminate.
Qed.

(* ---- PoS after GALACTICA: the theorem (input-premise form) applied to a concrete instance *)
Definition p_cfg := mkCfg 0 0 0 0 3 10 39.
Definition p_parent := mkH 5 1000 10000000 0 7500000 50 0 1 777 0 (0, 0) false (Some 10000000000000) 146 (Some 11) (Some (0, 0)).
Definition p_cands := [ mkC (mkP 11 true 60) 2 111 (Some 555); mkC (mkP 22 true 40) 1 222 None ].
Definition p_pv (total : N) := mkPV true p_cands total (fun _ => 0).
Definition p_pack total := pack_block N ex_exec (fun _ _ st _ => st) (fun _ st => Some st) (fun st => st)
          (fun rs => N.of_nat (length rs)) (fun ts => N.of_nat (length ts)) (fun _ _ => false) (fun _ => None)
          p_cfg (p_pv total) p_parent ex_po 1003 7 ex_txs true ex_sr.
Definition p_process total b now := process N ex_exec (fun _ _ st _ => st) (fun _ st => Some st) (fun _ => true) (fun st => st)
          (fun rs => N.of_nat (length rs)) (fun ts => N.of_nat (length ts)) (fun _ _ => false) (fun _ => None)
          p_cfg (p_pv total) p_parent 7 b now.

Lemma p_premises total : premises N ex_exec p_cfg (p_pv total) p_parent ex_po /\ crypto_roundtrip p_cfg p_parent ex_po ex_sr.
Proof.
  split.
  - constructor.
    + reflexivity.
    + reflexivity.
    + split; [discriminate | reflexivity].
    + reflexivity.
    + constructor; [cbn; intuition discriminate|]. constructor; [cbn; intuition | constructor].
    + intros ctx st t st' r E. unfold ex_exec in E. destruct (t_origin_ok t) eqn:Eo; cbn [andb] in E; [|discriminate].
      destruct (N.leb_spec 21000 (t_gas t)); cbn [andb] in E; [|discriminate].
      destruct (N.leb_spec (t_gas t) (x_gas_limit ctx)); [|discriminate]. inversion E; subst. cbn [r_gas]. auto.
  - split; [reflexivity|]. split; [reflexivity|]. intros _. discriminate.
Qed.

Example pos_galactica_packed_block_accepted :
  exists b stp rcs, p_pack 100 = Some (b, stp, rcs) /\ h_base_fee (b_header b) = Some 10000000000000 /\
                    h_beneficiary (b_header b) = 555 /\ forall vnow, 1020 <= vnow + 10 -> p_process 100 b vnow = Accepted N stp rcs.
Proof.
  eexists. eexists. eexists. split; [vm_compute; reflexivity|]. split; [reflexivity|]. split; [reflexivity|].
  intros vnow Hn. destruct (p_premises 100) as [P C].
  eapply (packed_block_accepted_from_inputs N ex_exec _ _ (fun _ => true) _ _ _ _ _ p_cfg (p_pv 100) p_parent ex_po 1003 7 ex_txs true ex_sr);
    [exact P | exact C | | reflexivity | vm_compute; reflexivity | intros; reflexivity | exact Hn].
  intros _ mep Hf. vm_compute in Hf. inversion Hf; subst mep. vm_compute. repeat split; (reflexivity || discriminate).
Qed.

(* ---- the PoS corner the weight premise excludes: online weight x 10000 < total weight => score 0 => the packer's block
        does not raise the total score and validators REJECT it, every other premise holding (refutes the statement
        without pos_weight_premise; replayed on the real packer / consensus by the harness: known finding F14) *)
Example pos_score_zero_block_rejected :
  exists b stp rcs, p_pack 100000000 = Some (b, stp, rcs) /\ h_total_score (b_header b) = h_total_score p_parent /\
                    p_process 100000000 b 2000 = Rejected N (Critical 5) /\
                    premises N ex_exec p_cfg (p_pv 100000000) p_parent ex_po /\ crypto_roundtrip p_cfg p_parent ex_po ex_sr.
Proof.
  eexists. eexists. eexists. split; [vm_compute; reflexivity|]. split; [reflexivity|]. split; [vm_compute; reflexivity|].
  exact (p_premises 100000000).
Qed.

Print Assumptions gas_limit_packer_valid.
Print Assumptions schedule_slot_accepted.
Print Assumptions packed_block_accepted.
Print Assumptions verdict_independent_of_clock.
Print Assumptions verdict_independent_of_cache_poa.
Print Assumptions verdict_independent_of_cache_pos.
Print Assumptions candidates_reads_agree.
Print Assumptions poa_hypothesis_scope.
Print Assumptions poa_v2_score_positive.
Print Assumptions packed_block_accepted_from_inputs.
Print Assumptions packer_total_score_grows.
Print Assumptions poa_v1_score_positive.
Print Assumptions pos_score_at_least_one.
Print Assumptions pos_galactica_packed_block_accepted.
Print Assumptions pos_score_zero_block_rejected.
Print Assumptions p_premises.
Print Assumptions cache_hypotheses_hold_on_a_history.

(* ================================================================ composition *)
(* C01 <-> C07 (Compose/ExecSane.v).  The abstract `exec` of theorem 2 instantiated with C07's model of the transaction
   wrapper (TxExec.Model.exec_tx: ResolveTransaction / PrepareTransaction / ExecuteTransaction over a clause oracle), the
   fields C01's transaction view shares with C07's record being taken from the view (ExecSane.full, ExecSane.env_of).
   exec_sane then FOLLOWS from C07's gas_bounds, and theorem 2 holds with that premise removed; what is left assumed about
   execution is C07's single assumption on the EVM (oracle_ok: a clause hands back at most the gas it was given). *)
Section Composition.
  Variables W O : Type.
  Variable clause_result : TxExec.Model.env -> TxExec.Model.txn -> nat -> Z -> TxExec.Model.state W -> TxExec.Model.cres W O.
  Variable write_credit : Z -> Z -> Z -> W -> W.
  Variable tx_rest : txn -> TxExec.Model.txn.
  Variable env_rest : bctx -> TxExec.Model.state W -> TxExec.Model.env.
  Variable credit_of : bctx -> TxExec.Model.state W -> txn -> TxExec.Model.credit_info.
  Variable digest : TxExec.Model.receipt O -> N.
  Notation exec_c07 := (ExecSane.exec_of_c07 W O clause_result write_credit tx_rest env_rest credit_of digest).

  (* 6. exec_sane for C07's wrapper *)
  Theorem exec_sane_from_c07 : TxExec.Proofs.oracle_ok W O clause_result -> exec_sane (TxExec.Model.state W) exec_c07.
  Proof. exact (ExecSane.exec_of_c07_sane W O clause_result write_credit tx_rest env_rest credit_of digest). Qed.

  Variable apply_updates : bool -> N -> TxExec.Model.state W -> list (N * bool) -> TxExec.Model.state W.
  Variable rewards : bctx -> TxExec.Model.state W -> option (TxExec.Model.state W).
  Variable sanity : TxExec.Model.state W -> bool.
  Variable root_of_state : TxExec.Model.state W -> N.
  Variable root_of_receipts : list receipt -> N.
  Variable root_of_txs : list txn -> N.
  Variable has_tx : N -> N -> bool.
  Variable find_meta : N -> option bool.

  (* 7. theorem 2 without the premise exec_sane *)
  Theorem packed_block_accepted_c07 cfg pv parent po now st0 txs vote sr b stp rcs vnow :
    TxExec.Proofs.oracle_ok W O clause_result ->
    ExecSane.premises_rest cfg pv parent po -> crypto_roundtrip cfg parent po sr ->
    pack_block (TxExec.Model.state W) exec_c07 apply_updates rewards root_of_state root_of_receipts root_of_txs has_tx find_meta
               cfg pv parent po now st0 txs vote sr = Some (b, stp, rcs) ->
    h_total_score parent < h_total_score (b_header b) ->
    (pv_pos pv = true -> forall ctx stf, rewards ctx stf = Some stp -> sanity stf = true) ->
    h_time (b_header b) <= vnow + c_interval cfg ->
    process (TxExec.Model.state W) exec_c07 apply_updates rewards sanity root_of_state root_of_receipts root_of_txs has_tx find_meta
            cfg pv parent st0 b vnow = Accepted (TxExec.Model.state W) stp rcs.
  Proof. exact (ExecSane.packed_block_accepted_c07 W O clause_result write_credit tx_rest env_rest credit_of digest apply_updates rewards sanity root_of_state root_of_receipts root_of_txs has_tx find_meta cfg pv parent po now st0 txs vote sr b stp rcs vnow). Qed.
End Composition.

(* non-vacuity of 7: C07's example oracle inside the packer; one transaction adopted (gas used 169921 of 200000), one refused by
   the pre-checks, one by ResolveTransaction (gas below intrinsic gas); the validator accepts by theorem 7 *)
Example packed_block_accepted_c07_example :
  exists b stp rcs,
    ExecSane.x_pack = Some (b, stp, rcs) /\ map t_id (b_txs b) = [9001] /\ map r_gas rcs = [169921] /\ snd stp = 2%Z /\
    h_gas_used (b_header b) = 169921 /\
    ExecSane.x_process b 1020 = Accepted (TxExec.Model.state Z) stp rcs.
Proof. exact ExecSane.x_packed_and_accepted. Qed.

Print Assumptions exec_sane_from_c07.
Print Assumptions packed_block_accepted_c07.
Print Assumptions packed_block_accepted_c07_example.
