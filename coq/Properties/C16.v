(* Properties/C16.v — statements only.  "Staked VET is fully accounted for and withdrawable exactly once".
   Model: Staker/Model.v (transcription of builtin/staker + the value statements of staker.sol).
   Invariant: InvAll s = exists la lq, WF s la lq /\ Inv1 s /\ InvA s   (Staker/Inv.v)
     Inv1: locked = sum(v.Locked) + sum(agg.Locked); queued = sum(v.Queued) + sum(agg.Pending); cooldown = sum(v.Cooldown);
           withdrawable + sum(agg.Locked) + sum(agg.Pending) = sum(v.Withdrawable) + sum(delegation.Stake);
           effectiveVET = (locked + queued + withdrawable + cooldown) * 1e18 <= balance. *)
From Coq Require Import List NArith Bool Lia.
From Verif Require Import Common.Util Staker.Model Staker.Base Staker.Lists Staker.Inv Staker.RList Staker.Inv2 Staker.ProofsStep
  Staker.ProofsUser Staker.ProofsUser2 Staker.ProofsHist Staker.Held Staker.ProofsEpoch Staker.ProofsAll Staker.ProofsCustody Staker.Witness.
Import ListNotations.
Open Scope N_scope.

(* ---- counters = sums, tracked total = counters, balance >= tracked total ---- *)

(* along EVERY history — any sequence of add-validation, increase / decrease stake, signal-exit, withdraw, set-online,
   set-beneficiary, add-delegation (all multipliers), signal-delegation-exit, withdraw-delegation, reward, parameter change,
   forced donation by any actors, successful or reverted, interleaved with blocks (SyncPOS: the PoA->PoS transition and
   housekeeping with renewals, the scheduled exit, evictions, activations) — the full invariant holds:
   Full = WF (lists) /\ Inv1 (VET accounting) /\ InvA /\ Inv2 (auxiliary: idle aggregations, weights, renewal list, exit slots) *)
Theorem full_invariant c d m ops : exists la lq, Full (run c (init d m) ops) la lq.
Proof. exact (history_FullInv c d m ops). Qed.

Theorem counters_sum c d m ops : Inv1 (run c (init d m) ops).
Proof. destruct (history_FullInv c d m ops) as [la [lq H]]. exact (f_1 _ _ _ H). Qed.

(* corollary in money terms: at every point of every history effectiveVET is exactly the sum of what every validation holds
   (locked + queued + cooldown + withdrawable) plus every delegation's remaining stake, the four counters add up to it,
   and the contract owns at least that *)
Theorem tracked_total_along_histories c d m ops :
  let s := run c (init d m) ops in
  eff s = (sumf held (vals s) + sumf d_stake (dels s)) * e18 /\ eff s <= bal s /\
  g_lv s + g_q s + g_wd s + g_cd s = sumf held (vals s) + sumf d_stake (dels s).
Proof. exact (effective_is_sum_of_holdings _ (counters_sum c d m ops)). Qed.

Theorem counters_sum_initial d m : InvAll (init d m).
Proof. exact (InvAll_init d m). Qed.

Theorem counters_sum_every_user_operation c o s la lq :
  is_block o = false -> WF s la lq -> Inv1 s -> InvA s ->
  exists lq', WF (step c s o) la lq' /\ Inv1 (step c s o) /\ InvA (step c s o).
Proof.
  intros Hb H1 H2 H3. destruct (user_step_ok c o s la lq Hb H1 H2 H3) as [lq' [A [B [_ C]]]]. exists lq'; auto.
Qed.

(* unconditional for histories that contain no epoch-boundary block (any number of actors and operations) *)
Theorem counters_sum_between_epochs c s ops la lq :
  WF s la lq -> Inv1 s -> InvA s -> no_epoch_block c s ops ->
  exists lq', WF (run c s ops) la lq' /\ Inv1 (run c s ops) /\ InvA (run c s ops).
Proof.
  intros H1 H2 H3 H4. destruct (run_InvAll_no_epoch c s ops la lq H1 H2 H3 H4) as [lq' [A [B [C _]]]]. exists lq'; auto.
Qed.

(* what the invariant says about money: effectiveVET is exactly the sum of what every validation holds
   (locked + queued + cooldown + withdrawable) plus every delegation's remaining stake, and the contract owns at least that *)
Theorem tracked_total_is_sum_of_holdings s : Inv1 s ->
  eff s = (sumf held (vals s) + sumf d_stake (dels s)) * e18 /\ eff s <= bal s /\
  g_lv s + g_q s + g_wd s + g_cd s = sumf held (vals s) + sumf d_stake (dels s).
Proof. exact (effective_is_sum_of_holdings s). Qed.

(* ---- custody ---- *)

(* per-staker ledger along every history.  held_by s a = locked + queued + cooldown + withdrawable of validation a;
   paid_in / paid_out = the VET a successful AddValidation / IncreaseStake brought in and a successful WithdrawStake paid out
   (read off the operation's answer); total sums them along the history.  What was paid in is exactly what was paid out plus
   what is still held: nobody gets out more than was put in, and gets everything once nothing is held any more. *)
Theorem custody c d m ops a :
  held_by (run c (init d m) ops) a + total paid_out c (init d m) ops a = total paid_in c (init d m) ops a.
Proof. pose proof (custody_validation_hist c (init d m) ops a (Full_init d m)) as H. exact H. Qed.

Theorem custody_never_more_out_than_in c d m ops a :
  total paid_out c (init d m) ops a <= total paid_in c (init d m) ops a /\
  (held_by (run c (init d m) ops) a = 0 <-> total paid_out c (init d m) ops a = total paid_in c (init d m) ops a).
Proof. pose proof (custody c d m ops a). split; [lia|split; lia]. Qed.

(* the same for a delegation id: stake still there + withdrawn = deposited *)
Theorem custody_delegation c d m ops id :
  stake_of (run c (init d m) ops) id + total deleg_out c (init d m) ops id = total deleg_in c (init d m) ops id.
Proof. pose proof (custody_delegation_hist c (init d m) ops id (Full_init d m)) as H. exact H. Qed.

(* never twice: from any state reached by a history, a WithdrawStake that follows a successful WithdrawStake of the same
   validation (with no operation in between) pays 0 *)
Theorem second_withdraw_pays_nothing c d m ops a e s1 x s2 s3 y :
  let s := run c (init d m) ops in
  withdraw_stake c a e s = Ok (s1, x) -> pay_out x s1 = Ok s2 -> withdraw_stake c a e s2 = Ok (s3, y) -> y = 0.
Proof.
  cbv zeta. destruct (history_FullInv c d m ops) as [la [lq HF]]. exact (second_withdraw_pays_zero c a e _ s1 x s2 s3 y la lq HF).
Qed.

(* one step, from any state reached by a history: the ledger equation for every operation incl. blocks *)
Theorem custody_every_step c d m ops o a :
  let s := run c (init d m) ops in
  held_by (step c s o) a + paid_out c s o a = held_by s a + paid_in c s o a.
Proof. exact (custody_step c _ o a (history_FullInv c d m ops)). Qed.

(* proved: WithdrawStake pays exactly the free buckets: withdrawable + queued, and the cooldown bucket only once
   exit block + cooldown period <= current block; the locked bucket is never paid; only the endorser is served *)
Theorem withdraw_only_free_stake c a e s s1 x v :
  withdraw_stake c a e s = Ok (s1, x) -> getv s a = Some v ->
  x = v_withdrawable v + v_queued v +
      (if negb (v_status v =? StatusQueued) && cooldown_ended c v (blk s) then v_cooldown v else 0)
  /\ v_endorser v = e.
Proof. exact (withdraw_stake_amount c a e s s1 x v). Qed.

(* proved: WithdrawDelegation pays only a delegation that has not started or has ended, pays its whole stake, and leaves
   the stake at 0: whatever a later withdrawal of the same id does, it pays 0 *)
Theorem delegation_withdrawn_once id s s1 x :
  withdraw_delegation id s = Ok (s1, x) ->
  exists d v, get (dels s) id = Some d /\ getv s (d_val d) = Some v /\ x = d_stake d /\
    (exists st fi, d_started d v (blk s) = Ok st /\ d_ended d v (blk s) = Ok fi /\ (st = false \/ fi = true)) /\
    exists d1, get (dels s1) id = Some d1 /\ d_stake d1 = 0.
Proof. exact (withdraw_delegation_pays_stake id s s1 x). Qed.

(* ---- "each staker can withdraw, in total, exactly what they deposited": liveness is NOT a theorem, and fails in one case ----

   The statement below (an active validation's scheduled exit block is always still ahead, i.e. every scheduled exit is executed
   when its block comes) is FALSE for the faithful model and for builtin/staker (replayed on the real staker on every run:
   corpus/C16/scheduled-exit-lost.json, known finding class custody:scheduled-exit-lost-when-housekeeping-fails):
   if SyncPOS fails at the very block an exit is scheduled for, packer and validator skip that block's housekeeping; the exit map
   is keyed by block and never consulted again; the validation stays active with its exit block set, cannot signal again and
   its locked stake never reaches the cooldown / withdrawable buckets. *)
Definition scheduled_exit_is_executed_statement : Prop :=
  forall c d m ops a v b, let s := run c (init d m) ops in
    getv s a = Some v -> v_status v = StatusActive -> v_exit v = Some b -> blk s < b.

(* witness history (Staker/Witness.v, computed once): lost_cfg, lost_ops, lost_fact, lost_stuck *)
Theorem scheduled_exit_is_executed_refuted : ~ scheduled_exit_is_executed_statement.
Proof.
  intros H. specialize (H lost_cfg 0 103 lost_ops 8191). cbv zeta in H. pose proof lost_fact as F.
  remember (run lost_cfg (init 0 103) lost_ops) as s eqn:Es. clear Es.
  destruct (getv s 8191) as [v|]; [|inversion F].
  inversion F as [[E1 E2 E3]]. specialize (H v 16 eq_refl E1 E2). rewrite E3 in H. apply N.ltb_lt in H. vm_compute in H. discriminate.
Qed.
(* the stake is stuck: 40 blocks after the lost exit the validation still holds its 25M locked, signalling again reverts, a
   withdrawal pays 0 *)
Example lost_exit_is_stuck :
  let s := run lost_cfg (init 0 103) lost_ops in
  (blk s, held_by s 8191, answer lost_cfg s (OSignalExit 8191 65535), answer lost_cfg s (OWithdraw 8191 65535),
   answer lost_cfg (run lost_cfg (init 0 103) (firstn 221 lost_ops)) OBlock) = (56, 25000000, (1, 0), (0, 0), (0, 6)).
Proof. exact lost_stuck. Qed.

(* ---- non-vacuity: a history of two actors (deposit, failed and successful operations, a withdrawal while queued)
        satisfies the hypotheses of counters_sum_between_epochs from the initial state and moves money ---- *)
Definition ex_cfg : cfg := mkC 4 8 12 16 4 8 8 0 0.
Definition ex_ops : list op :=
  [OAddValidation 161 57505 8 25000000; OAddDeleg 161 1000 200; OAddValidation 162 57506 12 30000000;
   OBlock; OIncrease 161 57505 5; OWithdrawDeleg 1; OBlock; OWithdraw 162 57506; OWithdraw 162 57506; OBlock].
Example ex_no_epoch_block : no_epoch_block ex_cfg (init 7 3) ex_ops.
Proof. vm_compute. repeat split; intros; discriminate. Qed.
Example ex_moves_money :
  let s := run ex_cfg (init 7 3) ex_ops in
  (g_q s, eff s, map (fun o => answer ex_cfg (init 7 3) o) [OAddValidation 161 57505 8 25000000]) =
  (25000000, 25000000 * e18, [(0, 0)]).
Proof. vm_compute. reflexivity. Qed.
Example ex_custody_nontrivial :
  (total paid_in ex_cfg (init 7 3) ex_ops 162, total paid_out ex_cfg (init 7 3) ex_ops 162, held_by (run ex_cfg (init 7 3) ex_ops) 162,
   total paid_in ex_cfg (init 7 3) ex_ops 161, held_by (run ex_cfg (init 7 3) ex_ops) 161) = (30000000, 30000000, 0, 25000000, 25000000).
Proof. vm_compute. reflexivity. Qed.
(* a PoS history: two validators activated at block 4, a delegation, an exit signalled at block 5 and executed at block 12,
   a withdrawal during the cooldown (pays 0), one after it (pays the whole stake), a second one (pays 0); the delegation is
   withdrawn after the exit (pays its stake) and once more (pays 0) *)
Definition pos_cfg : cfg := mkC 4 8 12 16 4 8 8 0 0.
Definition pos_ops : list op :=
  [OAddValidation 161 57505 8 25000000; OAddValidation 162 57506 8 26000000] ++ repeat OBlock 5 ++
  [OAddDeleg 161 1000 200; OSignalExit 161 57505] ++ repeat OBlock 8 ++ [OWithdraw 161 57505] ++ repeat OBlock 3 ++
  [OWithdraw 161 57505; OWithdraw 161 57505; OWithdrawDeleg 1; OWithdrawDeleg 1].
Example ex_pos_history :
  let s := run pos_cfg (init 0 2) pos_ops in
  (blk s, l_size (act s), total paid_in pos_cfg (init 0 2) pos_ops 161, total paid_out pos_cfg (init 0 2) pos_ops 161, held_by s 161,
   total deleg_in pos_cfg (init 0 2) pos_ops 1, total deleg_out pos_cfg (init 0 2) pos_ops 1, stake_of s 1, g_lv s, g_cd s, g_wd s) =
  (16, 1, 25000000, 25000000, 0, 1000, 1000, 0, 26000000, 0, 0).
Proof. vm_compute. reflexivity. Qed.
Example ex_pos_withdraw_answers :
  let s13 := run pos_cfg (init 0 2) (firstn 17 pos_ops) in
  let s16 := run pos_cfg (init 0 2) (firstn 21 pos_ops) in
  (blk s13, answer pos_cfg s13 (OWithdraw 161 57505), blk s16, answer pos_cfg s16 (OWithdraw 161 57505),
   answer pos_cfg (step pos_cfg s16 (OWithdraw 161 57505)) (OWithdraw 161 57505)) = (13, (0, 0), 16, (0, 25000000), (0, 0)).
Proof. vm_compute. reflexivity. Qed.

Example ex_hyps_hold : exists lq, WF (init 7 3) [] lq /\ Inv1 (init 7 3) /\ InvA (init 7 3).
Proof. destruct (InvAll_init 7 3) as [la [lq [H1 [H2 H3]]]]. exists []. split; [|split]; auto.
  constructor; [constructor; cbn; auto; constructor|constructor; cbn; auto; constructor|intros a v H; discriminate]. Qed.

Print Assumptions full_invariant.
Print Assumptions counters_sum.
Print Assumptions tracked_total_along_histories.
Print Assumptions custody.
Print Assumptions custody_never_more_out_than_in.
Print Assumptions custody_delegation.
Print Assumptions custody_every_step.
Print Assumptions second_withdraw_pays_nothing.
Print Assumptions scheduled_exit_is_executed_refuted.
Print Assumptions counters_sum_initial.
Print Assumptions counters_sum_every_user_operation.
Print Assumptions counters_sum_between_epochs.
Print Assumptions tracked_total_is_sum_of_holdings.
Print Assumptions withdraw_only_free_stake.
Print Assumptions delegation_withdrawn_once.

(* ---- translation tie (T): the time / period functions the model uses ARE the code ----
   coq/Gen/StakerTime.v is regenerated by tools/go2v on every run from builtin/staker/validation/validation.go (CurrentIteration,
   IsPeriodEnd, CooldownEnded, CalculateWithdrawableVET, NextPeriodTVL, multiplier) and delegation/delegation.go (Started, Ended);
   gen_f v b is the generated function applied to the fields of the model record.  On in-range inputs the hand-written model
   functions used throughout this file are equal to the translated code (GenProofs/StakerTimeProofs.v also gives the inputs
   where the unbounded model and the fixed-width code differ: block 2^32 - 1 and exit block + cooldown period >= 2^32). *)
From Coq Require Import ZArith.
From Verif Require Import GenProofs.StakerTimeProofs.
Open Scope N_scope.

Theorem staker_time_model_is_translated_code c d v b :
  val_in_range v -> (b < 4294967295)%N ->
  gen_current_iteration v b = res_Z (current_iteration v b) /\
  gen_is_period_end v b = is_period_end v b /\
  gen_started d v b = res_bool (d_started d v b) /\
  gen_ended d v b = res_bool (d_ended d v b) /\
  gen_multiplier v = Z.of_N (v_multiplier v) /\
  (cooldown_fits c v -> gen_cooldown_ended c v b = cooldown_ended c v b) /\
  (cooldown_fits c v -> n64 (v_withdrawable v + v_cooldown v + v_queued v) ->
     gen_calc_withdrawable c v b = Z.of_N (calc_withdrawable c v b)) /\
  (n64 (v_locked v + v_queued v) -> n64 (v_punlock v) -> gen_next_period_tvl v = res_Z (v_next_period_tvl v)).
Proof. exact (staker_time_translation_tie c d v b). Qed.

Example ex_translation_tie_hyps :
  let v := mkV 7 None 180 0 2 360 (Some 900) None 25000000 0 5 0 0 25000000 None None in
  val_in_range v /\ cooldown_fits (mkC 180 0 0 0 8640 0 0 0 0) v /\ n64 (v_withdrawable v + v_cooldown v + v_queued v) /\
  gen_current_iteration v 1000 = Some 4%Z /\ current_iteration v 1000 = Ok 4.
Proof. exact tie_hyps_hold. Qed.

Print Assumptions staker_time_model_is_translated_code.
