(* Properties/C16.v — statements only.  "Staked VET is fully accounted for and withdrawable exactly once".
   Model: Staker/Model.v (transcription of builtin/staker + the value statements of staker.sol). *)
From Coq Require Import List NArith Bool Lia.
From Verif Require Import Common.Util Staker.Model Staker.Base Staker.ProofsStep.
Import ListNotations.
Open Scope N_scope.

(* WithdrawStake pays exactly the free buckets: withdrawable + queued, and the cooldown bucket only once
   exit block + cooldown period <= current block; the locked bucket is never paid; only the endorser is served *)
Theorem withdraw_only_free_stake c a e s s1 x v :
  withdraw_stake c a e s = Ok (s1, x) -> getv s a = Some v ->
  x = v_withdrawable v + v_queued v +
      (if negb (v_status v =? StatusQueued) && cooldown_ended c v (blk s) then v_cooldown v else 0)
  /\ v_endorser v = e.
Proof. exact (withdraw_stake_amount c a e s s1 x v). Qed.

(* WithdrawDelegation pays only a delegation that has not started or has ended, pays its whole stake, and leaves the
   stake at 0: whatever a later withdrawal of the same id does, it pays 0 *)
Theorem delegation_withdrawn_once id s s1 x :
  withdraw_delegation id s = Ok (s1, x) ->
  exists d v, get (dels s) id = Some d /\ getv s (d_val d) = Some v /\ x = d_stake d /\
    (exists st fi, d_started d v (blk s) = Ok st /\ d_ended d v (blk s) = Ok fi /\ (st = false \/ fi = true)) /\
    exists d1, get (dels s1) id = Some d1 /\ d_stake d1 = 0.
Proof. exact (withdraw_delegation_pays_stake id s s1 x). Qed.

Print Assumptions withdraw_only_free_stake.
Print Assumptions delegation_withdrawn_once.
