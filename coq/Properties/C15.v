(* Properties/C15.v — statements only.  "The log index always equals the logs of the canonical chain; filters
   return exactly the matching subsequence." *)
From Coq Require Import List NArith ZArith Bool Lia.
From Verif Require Import Common.GoInt Gen.Sequence GenProofs.SequenceProofs.
From Verif Require Import Chain.Model Chain.Proofs Chain.ProofsWalk Chain.ProofsSys Chain.ProofsPath Chain.Examples
  LogDB.Model LogDB.Proofs LogDB.ProofsCanon LogDB.ProofsRows LogDB.ProofsGenesis LogDB.ProofsSync LogDB.ProofsSyncFrame LogDB.ProofsVerify.
Import ListNotations.
Open Scope N_scope.

(* 1. sequence packing: under the three range checks the key is injective, order-isomorphic to lexicographic
      (block, tx, log), inverted by the accessors, and fits a non-negative int64 *)
Theorem seq_pack_inj_mono b1 t1 l1 s1 b2 t2 l2 s2 :
  seq_of b1 t1 l1 = Some s1 -> seq_of b2 t2 l2 = Some s2 ->
  (s1 < s2 <-> b1 < b2 \/ (b1 = b2 /\ (t1 < t2 \/ (t1 = t2 /\ l1 < l2)))) /\
  (s1 = s2 -> b1 = b2 /\ t1 = t2 /\ l1 = l2) /\
  seq_block s1 = b1 /\ seq_txi s1 = t1 /\ seq_logi s1 = l1 /\ s1 < 9223372036854775808.
Proof. exact (seq_pack_inj_mono_lemma b1 t1 l1 s1 b2 t2 l2 s2). Qed.

(* ... and the model's packing IS the code's: it equals the go2v translation of logdb/sequence.go:newSequence,
   regenerated from the working tree on every run (coq/Gen/Sequence.v) *)
Theorem seq_model_is_translated b t l :
  option_map Z.of_N (seq_of b t l) = newSequence (Z.of_N b) (Z.of_N t) (Z.of_N l).
Proof.
  destruct (seq_of b t l) as [s|] eqn:E.
  - apply seq_of_inv in E. destruct E as [[H1 [H2 H3]] ->]. unfold max_block, max_txi, max_logi in *.
    rewrite new_sequence_value by (unfold SequenceProofs.seq_ok; lia). cbn [option_map]. unfold SequenceProofs.pack. f_equal. lia.
  - assert (N : ~ LogDB.Proofs.seq_ok b t l) by (intros H; rewrite (seq_of_some _ _ _ H) in E; discriminate).
    rewrite new_sequence_rejects; [reflexivity | lia | lia | lia |].
    unfold SequenceProofs.seq_ok, LogDB.Proofs.seq_ok, max_block, max_txi, max_logi in *. lia.
Qed.

(* 2. every filter query returns exactly the matching subsequence: with `full` = the rows of the table that satisfy
      the block range and the criteria disjunction, in table order (reversed for DESC), the answer is `full`, or its
      window [offset, offset+limit) — and in particular an order-preserving subsequence of the table *)
Theorem filter_is_subsequence_events db cs o out : filter_events db cs o = Some out ->
  exists full,
    sublist full (if fo_desc o then rev (db_events db) else db_events db) /\
    (forall x, In x full <-> In x (db_events db) /\ any_crit ev_match cs x = true /\ in_range o (er_seq x)) /\
    out = match fo_page o with None => full | Some (off, lim) => takeN lim (dropN off full) end /\
    sublist out full.
Proof. exact (run_filter_spec er_seq (any_crit ev_match cs) o (db_events db) out). Qed.

Theorem filter_is_subsequence_transfers db cs o out : filter_transfers db cs o = Some out ->
  exists full,
    sublist full (if fo_desc o then rev (db_transfers db) else db_transfers db) /\
    (forall x, In x full <-> In x (db_transfers db) /\ any_crit tr_match cs x = true /\ in_range o (tr_seq x)) /\
    out = match fo_page o with None => full | Some (off, lim) => takeN lim (dropN off full) end /\
    sublist out full.
Proof. exact (run_filter_spec tr_seq (any_crit tr_match cs) o (db_transfers db) out). Qed.

(* 3. the table-level facts the reorganisation argument rests on — INSERT OR IGNORE keeps the table sorted, never drops an existing row,
      silently ignores a row whose position key is present (this is where a missed truncate would keep a stale row),
      really inserts a row whose key is absent; Truncate(n) keeps exactly the rows below block n, hence every row
      written afterwards for a block >= n is inserted. *)
Theorem insert_or_ignore_partial x l :
  ev_sorted l ->
  ev_sorted (ins_ev x l) /\ (forall y, In y l -> In y (ins_ev x l)) /\
  (forall z, In z l -> er_seq z = er_seq x -> ins_ev x l = l) /\
  ((forall z, In z l -> er_seq z <> er_seq x) -> In x (ins_ev x l)).
Proof.
  intros S. split; [exact (ins_ev_sorted x l S)|]. split; [exact (ins_ev_keeps x l)|].
  split; [intros z; exact (ins_ev_stale x l z S) | exact (ins_ev_fresh x l)].
Qed.

Theorem truncate_then_insert_partial n db db' b t l s x :
  truncate n db = Some db' -> n <= b -> seq_of b t l = Some s -> er_seq x = s ->
  (forall y, In y (db_events db') <-> In y (db_events db) /\ er_seq y < n * 34359738368) /\
  In x (ins_ev x (db_events db')).
Proof.
  intros T Hb E Ex. split; [apply (truncate_spec n db db' T) | exact (no_stale_after_truncate n db db' b t l s x T Hb E Ex)].
Qed.

(* 4. C15 first sentence: after EVERY import history — any tree, any sequence of best changes (to higher, equal or
      lower blocks, back and forth), blocks with and without logs, different logs at equal positions on siblings —
      where each block that becomes best goes through writeLogs against the previous best and then AddBlock, the two
      tables are exactly what writing the blocks of the canonical chain, oldest first, into empty tables produces
      (rows_of_path: same block ids, times, tx ids, origins, clause / tx / log positions; nothing from abandoned
      branches).  Proof: Exclude both ways is the split of the two paths at the fork point (Chain/ProofsPath.v);
      Truncate at the first old-branch block forgets exactly the old branch; every later write lies above all stored
      keys of lower blocks, so INSERT OR IGNORE never meets a stale row. *)
Theorem logdb_tracks_canonical g gp tag r db : num_of g = 0 -> imported g gp tag r db ->
  forall st, is_path r (r_best r) st -> rows_of_path r st = Some db.
Proof. intros Hg I. exact (logdb_tracks_canonical_lemma g gp tag Hg r db I). Qed.

(* 5. ... and those tables are, literally, the logs of the canonical chain: the concatenation in chain order of the rows
      each block's receipts prescribe (block_events / block_transfers: block id and time, tx id and origin, clause index,
      and the position key (block number, tx index, running log index within the block)). *)
Theorem logdb_is_canonical_logs g gp tag r db : num_of g = 0 -> imported g gp tag r db ->
  forall st, is_path r (r_best r) st ->
    db_events db = chain_events r st /\ db_transfers db = chain_transfers r st.
Proof.
  intros Hg I st P. pose proof (imported_reachable _ _ _ _ _ I) as R.
  apply (rows_of_path_flat r st (reachable_wf_body _ _ _ _ _ Hg R) (path_desc g gp r (reachable_wf _ _ _ _ _ Hg R) _ _ P)).
  exact (logdb_tracks_canonical_lemma g gp tag Hg r db I st P).
Qed.

(* both sentences together: after every import history, every event filter answer is exactly the matching
   subsequence of the canonical chain's logs (window [offset, offset+limit) of the matching rows, in chain order or
   reversed) *)
Theorem filter_on_canonical_logs g gp tag r db st cs o out : num_of g = 0 -> imported g gp tag r db ->
  is_path r (r_best r) st -> filter_events db cs o = Some out ->
  exists full,
    sublist full (if fo_desc o then rev (chain_events r st) else chain_events r st) /\
    (forall x, In x full <-> In x (chain_events r st) /\ any_crit ev_match cs x = true /\ in_range o (er_seq x)) /\
    out = match fo_page o with None => full | Some (off, lim) => takeN lim (dropN off full) end.
Proof.
  intros Hg I P F. destruct (logdb_is_canonical_logs g gp tag r db Hg I st P) as [E _]. rewrite <- E.
  destruct (filter_is_subsequence_events db cs o out F) as [full [H1 [H2 [H3 _]]]]. exists full. auto.
Qed.

Theorem filter_on_canonical_logs_transfers g gp tag r db st cs o out : num_of g = 0 -> imported g gp tag r db ->
  is_path r (r_best r) st -> filter_transfers db cs o = Some out ->
  exists full,
    sublist full (if fo_desc o then rev (chain_transfers r st) else chain_transfers r st) /\
    (forall x, In x full <-> In x (chain_transfers r st) /\ any_crit tr_match cs x = true /\ in_range o (tr_seq x)) /\
    out = match fo_page o with None => full | Some (off, lim) => takeN lim (dropN off full) end.
Proof.
  intros Hg I P F. destruct (logdb_is_canonical_logs g gp tag r db Hg I st P) as [_ E]. rewrite <- E.
  destruct (filter_is_subsequence_transfers db cs o out F) as [full [H1 [H2 [H3 _]]]]. exists full. auto.
Qed.

(* 5b. genesis rows.  A running node's log db also holds the events / transfers of the genesis builder, written at every
       start by cmd/thor/utils.go:initChainRepository as rows of block 0 (the repository stores genesis without
       receipts, so they are not part of chain_events).  For every import history that starts from ANY tables d0 whose
       keys lie below block 1, the tables are d0's rows followed by the logs of the canonical chain: Truncate (always at
       a height >= 1, Exclude never returns genesis), Write and hence writeLogs commute with such a prefix. *)
Theorem logdb_tracks_canonical_after_genesis_rows g gp tag d0 r db : num_of g = 0 -> below two35 d0 ->
  imported_from g gp tag d0 r db ->
  forall st, is_path r (r_best r) st ->
    db_events db = db_events d0 ++ chain_events r st /\ db_transfers db = db_transfers d0 ++ chain_transfers r st.
Proof.
  intros Hg B0 I st P. destruct (imported_from_frame g gp tag d0 r db Hg B0 I) as [db1 [I1 ->]].
  destruct (logdb_is_canonical_logs g gp tag r db1 Hg I1 st P) as [E1 E2]. unfold frame. cbn [db_events db_transfers].
  rewrite E1, E2. auto.
Qed.

(* writing a block above every stored key appends exactly the rows its receipts prescribe *)
Theorem write_block_appends_rows b d d' : write_block b d = Some d' -> below (num_of (b_id b) * two35) d ->
  db_events d' = db_events d ++ block_events b /\ db_transfers d' = db_transfers d ++ block_transfers b.
Proof. exact (write_block_appends b d d'). Qed.

(* the canonical path exists and is unique, so the statement is not vacuous in `st` *)
Theorem canonical_path_exists g gp tag r db : num_of g = 0 -> imported g gp tag r db -> exists st, is_path r (r_best r) st.
Proof.
  intros Hg I. pose proof (reachable_wf _ _ _ _ _ Hg (imported_reachable _ _ _ _ _ I)) as W.
  exact (path_exists g gp r W (r_best r) (w_best _ _ _ W)).
Qed.

(* 6. the startup re-sync (cmd/thor/sync_logdb.go as repaired by 47028d8; the functions live in package main and are
      tied to the model through the test binary of cmd/thor, see harness/cmd/c15/synclog.go): if the tables are the canonical tables of ANY stored block x (the best block when logs were last written:
      an ancestor of the current best, a descendant of it, or a block of an abandoned branch), then after sync_logdb
      they are the canonical tables of the current best block.  Covers all four exits of seekLogDBSyncPosition
      (empty chain, empty tables, newest row belongs to best, seek walk with HasBlockID's exact-key test — a block
      whose first log is not in tx 0 is simply not recognised and the walk goes further down). *)
Theorem sync_reestablishes_canonical g gp tag adm r x st_x st_b db db' :
  num_of g = 0 -> reachable g gp tag adm r ->
  is_path r x st_x -> is_path r (r_best r) st_b -> rows_of_path r st_x = Some db ->
  sync_logdb r db = Some db' ->
  rows_of_path r st_b = Some db' /\ db_events db' = chain_events r st_b /\ db_transfers db' = chain_transfers r st_b.
Proof.
  intros Hg R Px Pb Hdb Hs. pose proof (reachable_wf _ _ _ _ _ Hg R) as W. pose proof (reachable_wf_body _ _ _ _ _ Hg R) as WB.
  pose proof (sync_reestablishes_lemma g gp r W WB x st_x st_b db Px Pb Hdb db' Hs) as H.
  split; [exact H|]. exact (rows_of_path_flat r st_b WB (path_desc g gp r W _ _ Pb) db' H).
Qed.

(* 6b. the re-sync on the tables of a real node, which also hold the genesis rows (block 0, block ids of number 0): sync_logdb
       ignores and preserves such a prefix (sync_logdb_commutes_with_genesis_rows), so 6 lifts: from "genesis rows ++ the
       canonical tables of any stored block x" a successful re-sync yields "genesis rows ++ the logs of best's chain".
       Like 6 this is conditional on sync_logdb returning Some (no totality theorem: a Write can fail on a key out of the
       28 / 15 / 20-bit ranges); the verify variants 7(a)-(c) are NOT lifted to tables with genesis rows. *)
Theorem sync_logdb_commutes_with_genesis_rows g gp tag adm r d0 db : num_of g = 0 -> reachable g gp tag adm r ->
  below two35 d0 -> genesis_ids d0 -> sync_logdb r (frame d0 db) = option_map (frame d0) (sync_logdb r db).
Proof.
  intros Hg R B0 G0. exact (sync_logdb_frame g gp r d0 (reachable_wf _ _ _ _ _ Hg R) (reachable_wf_body _ _ _ _ _ Hg R) B0 G0 db).
Qed.

Theorem sync_reestablishes_canonical_with_genesis_rows g gp tag adm r x st_x st_b d0 db D :
  num_of g = 0 -> reachable g gp tag adm r -> below two35 d0 -> genesis_ids d0 ->
  is_path r x st_x -> is_path r (r_best r) st_b -> rows_of_path r st_x = Some db ->
  sync_logdb r (frame d0 db) = Some D ->
  db_events D = db_events d0 ++ chain_events r st_b /\ db_transfers D = db_transfers d0 ++ chain_transfers r st_b.
Proof.
  intros Hg R B0 G0 Px Pb Hdb Hs. rewrite (sync_logdb_commutes_with_genesis_rows g gp tag adm r d0 db Hg R B0 G0) in Hs.
  destruct (sync_logdb r db) as [db'|] eqn:E; [|discriminate]. injection Hs as <-.
  destruct (sync_reestablishes_canonical g gp tag adm r x st_x st_b db db' Hg R Px Pb Hdb E) as [_ [E1 E2]].
  unfold frame. cbn [db_events db_transfers]. rewrite E1, E2. auto.
Qed.

(* 7. syncLogDB's verify argument (verifyLogDB: 100-block windows re-read from the tables, the leading rows carrying the
      block's id compared field by field with the rows its receipts prescribe).  (a) a re-sync that succeeds with
      verify = true leaves the canonical tables; (b) verifyLogDB accepts canonical tables up to any block that best's
      chain shares with the chain the tables were written for; (c) hence on such tables the verifying re-sync behaves
      exactly like the plain one: it never fails where the plain one succeeds (for chains below 2^28 - 100 blocks: the
      window's upper end must be a valid block number, as in the code).  Nothing is claimed about verifyLogDB as a
      detector of wrong tables (it overlooks stale rows of a foreign block when the canonical blocks of the rest of the
      window carry no logs; corpus/C15/synclog-verify-overlooks-stale-sibling-rows.json shows it on the real code). *)
Theorem sync_verify_reestablishes_canonical g gp tag adm r x st_x st_b db db' v :
  num_of g = 0 -> reachable g gp tag adm r ->
  is_path r x st_x -> is_path r (r_best r) st_b -> rows_of_path r st_x = Some db ->
  sync_logdb_v v r db = Some db' ->
  rows_of_path r st_b = Some db' /\ db_events db' = chain_events r st_b /\ db_transfers db' = chain_transfers r st_b.
Proof.
  intros Hg R Px Pb Hdb Hs.
  exact (sync_reestablishes_canonical g gp tag adm r x st_x st_b db db' Hg R Px Pb Hdb (sync_logdb_v_some v r db db' Hs)).
Qed.

Theorem verify_accepts_canonical_prefix g gp tag adm r x st_x db h e :
  num_of g = 0 -> reachable g gp tag adm r ->
  is_path r x st_x -> rows_of_path r st_x = Some db ->
  In h st_x -> anc r (r_best r) h -> num_of h + log_step <= max_block -> e <= num_of h ->
  verify_logdb r db e = true.
Proof.
  intros Hg R Px Hdb Hin Ha Hmax He.
  exact (verify_accepts_common_prefix g gp r (reachable_wf _ _ _ _ _ Hg R) (reachable_wf_body _ _ _ _ _ Hg R) x st_x db Px Hdb h Hin Ha Hmax e He).
Qed.

Theorem sync_verify_raises_no_false_alarm g gp tag adm r x st_x db v :
  num_of g = 0 -> reachable g gp tag adm r ->
  is_path r x st_x -> rows_of_path r st_x = Some db ->
  num_of (r_best r) + log_step <= max_block ->
  sync_logdb_v v r db = sync_logdb r db.
Proof.
  intros Hg R Px Hdb Hmax.
  exact (sync_verify_no_false_alarm g gp r (reachable_wf _ _ _ _ _ Hg R) (reachable_wf_body _ _ _ _ _ Hg R) x st_x db Px Hdb v Hmax).
Qed.

(* non-vacuity: the example history of Chain/Examples.v (tx 1001 with logs on both siblings at height 2, then a
   reorganisation to the sibling branch) imported through write_logs: the table holds the sibling's rows only, and
   equals the rows of the canonical path; skipping the truncate would have kept the stale row (ins_ev ignores it) *)
Definition ex_db1 := match write_logs ex_r0 empty_db ex_b1 ex_g with Some d => d | None => empty_db end.
Definition ex_db2 := match write_logs ex_r1 ex_db1 ex_b2 (bid 1 1) with Some d => d | None => empty_db end.
Definition ex_db4 := match write_logs ex_r3 ex_db2 ex_b3' (bid 2 1) with Some d => d | None => empty_db end.
Example ex_c15 :
  imported ex_g ex_gp ex_tag ex_r4 ex_db4 /\
  map er_block (db_events ex_db2) = [bid 2 1] /\
  map er_block (db_events ex_db4) = [bid 2 2; bid 2 2] /\ map er_tx (db_events ex_db4) = [1001; 1002] /\
  map (fun x => (seq_block (er_seq x), seq_txi (er_seq x), seq_logi (er_seq x))) (db_events ex_db4) = [(2, 0, 0); (2, 1, 1)] /\
  rows_of_path ex_r4 [bid 3 1; bid 2 2; bid 1 1; ex_g] = Some ex_db4 /\
  chain_events ex_r4 [bid 3 1; bid 2 2; bid 1 1; ex_g] = db_events ex_db4 /\ length (chain_transfers ex_r4 [bid 3 1; bid 2 2; bid 1 1; ex_g]) = 2%nat /\
  (exists stale, In stale (db_events ex_db2) /\ er_block stale = bid 2 1 /\
     match write_block ex_b2' ex_db2 with Some d => In stale (db_events d) | None => False end) /\
  filter_events ex_db4 [mkEC (Some 900) [Some 5; None; None; None; None]] (mkFO (Some (2, 1)) None true) = Some [] /\
  option_map (map er_tx) (filter_events ex_db4 [mkEC None [None; Some 0; None; None; None]] (mkFO (Some (0, 9)) (Some (1, 5)) true)) = Some [1001].
Proof.
  split.
  - apply (imp_best _ _ _ ex_r3 ex_db2 ex_b3' 0); [| vm_compute; repeat split | vm_compute; reflexivity | vm_compute; reflexivity].
    apply (imp_side _ _ _ ex_r2 ex_db2 ex_b2' 1); [| vm_compute; repeat split | vm_compute; reflexivity].
    apply (imp_best _ _ _ ex_r1 ex_db1 ex_b2 0); [| vm_compute; repeat split | vm_compute; reflexivity | vm_compute; reflexivity].
    apply (imp_best _ _ _ ex_r0 empty_db ex_b1 0); [| vm_compute; repeat split | vm_compute; reflexivity | vm_compute; reflexivity].
    apply imp_init.
  - vm_compute. repeat split. eexists. split; [left; reflexivity|]. split; [reflexivity|]. left. reflexivity.
Qed.

(* non-vacuity of 6, in the situation of finding F8: the tables are those of block (2,2), best is its child (3,7) which has
   logs; the seek walk stops at (2,2) (row key (2,0,0) present), position 3 = best: block 3 is written *)
Definition ex_b3l := mkB (bid 3 7) (bid 2 2) 30 [mkTx 1003 7 2 10 None 52] [ex_rc false].
Definition ex_r5 := step_or ex_r3 ex_b3l 0 true.
Example ex_c15_sync :
  reachable ex_g ex_gp ex_tag (fun _ _ _ => True) ex_r5 /\
  (exists dbx, rows_of_path ex_r5 [bid 2 2; bid 1 1; ex_g] = Some dbx /\ seek_position ex_r5 dbx = Ok 3 /\
     sync_logdb ex_r5 dbx = rows_of_path ex_r5 [bid 3 7; bid 2 2; bid 1 1; ex_g] /\
     option_map (fun d => length (db_events d)) (sync_logdb ex_r5 dbx) = Some 3%nat).
Proof.
  split.
  - apply (reach_add _ _ _ _ ex_r3 ex_b3l 0 true); [| vm_compute; repeat split | exact I | vm_compute; reflexivity].
    apply (reach_add _ _ _ _ ex_r2 ex_b2' 1 false); [| vm_compute; repeat split | exact I | vm_compute; reflexivity].
    apply (reach_add _ _ _ _ ex_r1 ex_b2 0 true); [| vm_compute; repeat split | exact I | vm_compute; reflexivity].
    apply (reach_add _ _ _ _ ex_r0 ex_b1 0 true); [| vm_compute; repeat split | exact I | vm_compute; reflexivity].
    apply reach_init.
  - eexists. split; [vm_compute; reflexivity|]. vm_compute. repeat split.
Qed.

(* non-vacuity of 7 on the same situation: verifyLogDB accepts the tables of (2,2) up to height 2, rejects them at height 3
   (best's block 3 has logs the tables do not hold), and the verifying re-sync gives the canonical tables of best *)
Example ex_c15_verify :
  exists dbx, rows_of_path ex_r5 [bid 2 2; bid 1 1; ex_g] = Some dbx /\
    verify_logdb ex_r5 dbx 2 = true /\ verify_logdb ex_r5 dbx 3 = false /\
    sync_logdb_v true ex_r5 dbx = rows_of_path ex_r5 [bid 3 7; bid 2 2; bid 1 1; ex_g] /\
    In (bid 2 2) [bid 2 2; bid 1 1; ex_g] /\ num_of (r_best ex_r5) + log_step <= max_block.
Proof. eexists. split; [vm_compute; reflexivity|]. vm_compute. repeat split; auto; discriminate. Qed.

(* non-vacuity of 5b: what Write(genesis, one receipt) leaves (rows of block 0) is a valid starting table, and the
   example history imported on top of it keeps those rows in front; a transfer filter on the result *)
Definition ex_d0 := match write_block (mkB ex_g ex_gp 0 [] [ex_rc false]) empty_db with Some d => d | None => empty_db end.
Definition ex_dg1 := match write_logs ex_r0 ex_d0 ex_b1 ex_g with Some d => d | None => empty_db end.
Definition ex_dg2 := match write_logs ex_r1 ex_dg1 ex_b2 (bid 1 1) with Some d => d | None => empty_db end.
Definition ex_dg4 := match write_logs ex_r3 ex_dg2 ex_b3' (bid 2 1) with Some d => d | None => empty_db end.
Example ex_c15_genesis_rows :
  below two35 ex_d0 /\ length (db_events ex_d0) = 1%nat /\ length (db_transfers ex_d0) = 1%nat /\
  imported_from ex_g ex_gp ex_tag ex_d0 ex_r4 ex_dg4 /\
  map (fun x => seq_block (er_seq x)) (db_events ex_dg4) = [0; 2; 2] /\
  option_map (map (fun x => (seq_block (tr_seq x), tr_tx x)))
    (filter_transfers ex_dg4 [mkTC None (Some 50) None; mkTC (Some 99) None None] (mkFO (Some (1, 5)) (Some (0, 1)) true)) = Some [(2, 1002)].
Proof.
  split; [split; intros x Hx; vm_compute in Hx; destruct Hx as [<-|[]]; vm_compute; reflexivity|].
  split; [reflexivity|]. split; [reflexivity|]. split.
  - apply (impf_best _ _ _ _ ex_r3 ex_dg2 ex_b3' 0); [| vm_compute; repeat split | vm_compute; reflexivity | vm_compute; reflexivity].
    apply (impf_side _ _ _ _ ex_r2 ex_dg2 ex_b2' 1); [| vm_compute; repeat split | vm_compute; reflexivity].
    apply (impf_best _ _ _ _ ex_r1 ex_dg1 ex_b2 0); [| vm_compute; repeat split | vm_compute; reflexivity | vm_compute; reflexivity].
    apply (impf_best _ _ _ _ ex_r0 ex_d0 ex_b1 0); [| vm_compute; repeat split | vm_compute; reflexivity | vm_compute; reflexivity].
    apply impf_init.
  - vm_compute. repeat split.
Qed.

(* composition *)
From Verif Require Compose.LogCanon.
Module LC := Verif.Compose.LogCanon.

(* 8. C15 <-> C14 (coq/Compose/LogCanon.v).  4 / 5 / 5b above are stated over histories whose best-changing step is
      write_logs — DEFINED through Chain's Exclude, both ways — and conclude about `is_path` lists.  C14
      (Properties/C14.v exclude_is_difference) says what Exclude returns: exactly the blocks on one chain and not on the
      other, ascending.  Here the two are composed at statement level: neither `exclude` nor `is_path` occurs below.

   8a. the bridge: an ascending list with exactly the members of the difference is unique, so C14's characterisation is an
       equation — Exclude(c, o) = Ok l iff l is THE ascending enumeration of ancestors(c) \ ancestors(o) *)
Theorem exclude_is_the_ascending_enumeration g gp tag adm r c o l :
  num_of g = 0 -> reachable g gp tag adm r -> stored r c -> stored r o ->
  (exclude r c o = Ok l <-> (forall a, In a l <-> anc r c a /\ ~ anc r o a) /\ asc l).
Proof. intros Hg R. exact (LC.exclude_is_enum g gp r c o l (reachable_wf _ _ _ _ _ Hg R)). Qed.

Theorem ascending_enumeration_is_unique (P : N -> Prop) l1 l2 :
  (forall a, In a l1 <-> P a) /\ asc l1 -> (forall a, In a l2 <-> P a) /\ asc l2 -> l1 = l2.
Proof. exact (LC.ascending_enum_unique P l1 l2). Qed.

(* 8b. the log-writing step over ancestry (this is LC.write_logs_spec r db nb ob db', unfolded): for ANY tables whose
       keys lie at or below old_best's height, the tables after writeLogs are
         - the surviving rows dk: all of db if every block of old_best's chain is on the new block's chain, otherwise
           the rows whose key lies below the LOWEST block f of old_best's chain that is not (what Truncate(f) leaves),
         - then the rows of the blocks ln of the parent's chain that are not on old_best's chain, in ascending height,
         - then the rows of the new block. *)
Theorem write_logs_over_ancestry g gp tag adm r db nb ob db' :
  num_of g = 0 -> reachable g gp tag adm r -> stored r ob -> stored r (b_parent nb) ->
  num_of (b_id nb) = num_of (b_parent nb) + 1 -> below ((num_of ob + 1) * two35) db ->
  write_logs r db nb ob = Some db' ->
  exists dk ln,
    (((forall a, ~ (anc r ob a /\ ~ anc r (b_parent nb) a)) /\ dk = db) \/
     (exists f, ((anc r ob f /\ ~ anc r (b_parent nb) f) /\
                 (forall a, anc r ob a /\ ~ anc r (b_parent nb) a -> num_of f <= num_of a)) /\
                dk = mkDB (filter (fun x => er_seq x <? num_of f * two35) (db_events db))
                          (filter (fun x => tr_seq x <? num_of f * two35) (db_transfers db)))) /\
    ((forall a, In a ln <-> anc r (b_parent nb) a /\ ~ anc r ob a) /\ asc ln) /\
    db_events db' = db_events dk ++ concat (map (blk_events r) ln) ++ block_events nb /\
    db_transfers db' = db_transfers dk ++ concat (map (blk_transfers r) ln) ++ block_transfers nb.
Proof.
  intros Hg R So Sp. exact (LC.write_logs_meets_spec g gp r (reachable_wf _ _ _ _ _ Hg R) (reachable_wf_body _ _ _ _ _ Hg R) ob nb So Sp db db').
Qed.

(* 8c. the specification determines the tables, hence wherever writeLogs is defined it IS the specification *)
Theorem write_logs_spec_determines_tables r db nb ob d1 d2 :
  LC.write_logs_spec r db nb ob d1 -> LC.write_logs_spec r db nb ob d2 -> d1 = d2.
Proof. exact (LC.write_logs_spec_functional r db nb ob d1 d2). Qed.

Theorem write_logs_is_spec_where_defined g gp tag adm r db nb ob db' :
  num_of g = 0 -> reachable g gp tag adm r -> stored r ob -> stored r (b_parent nb) ->
  num_of (b_id nb) = num_of (b_parent nb) + 1 -> below ((num_of ob + 1) * two35) db ->
  write_logs r db nb ob <> None ->
  (write_logs r db nb ob = Some db' <-> LC.write_logs_spec r db nb ob db').
Proof.
  intros Hg R So Sp. exact (LC.write_logs_iff_spec g gp r (reachable_wf _ _ _ _ _ Hg R) (reachable_wf_body _ _ _ _ _ Hg R) ob nb So Sp db db').
Qed.

(* 8d. ... and it is undefined exactly where a sequence range check fails: the Truncate height is above 2^28-1, or Write
       of a block of the new branch, or of the new block itself, fails (whether a Write fails does not depend on the
       tables: `write_block b empty_db`); block number, receipt count and the two per-block log counts within
       28 / 15 / 20 bits suffice for a Write to succeed *)
Theorem write_logs_failure_modes g gp tag adm r db nb ob :
  num_of g = 0 -> reachable g gp tag adm r -> stored r ob -> stored r (b_parent nb) ->
  (write_logs r db nb ob = None <->
   (exists f, ((anc r ob f /\ ~ anc r (b_parent nb) f) /\
               (forall a, anc r ob a /\ ~ anc r (b_parent nb) a -> num_of f <= num_of a)) /\ max_block < num_of f) \/
   (exists a s b, (anc r (b_parent nb) a /\ ~ anc r ob a) /\ get_block r a = Some (s, b) /\
                  ~ (exists d', write_block b empty_db = Some d')) \/
   ~ (exists d', write_block nb empty_db = Some d')).
Proof.
  intros Hg R So Sp. exact (LC.write_logs_fails_iff g gp r (reachable_wf _ _ _ _ _ Hg R) (reachable_wf_body _ _ _ _ _ Hg R) ob nb So Sp db).
Qed.

Theorem write_succeeds_within_ranges b d :
  num_of (b_id b) <= max_block /\ lenN (b_rcs b) <= max_txi + 1 /\
  LC.rcs_count_ev (b_rcs b) <= max_logi + 1 /\ LC.rcs_count_tr (b_rcs b) <= max_logi + 1 ->
  exists d', write_block b d = Some d'.
Proof. intros F. exact (proj2 (LC.write_block_writable b d) (LC.fits_writable b F)). Qed.

(* 9. C15 first sentence over ancestry: after EVERY import history the two tables are exactly the rows the receipts of
      best's ancestors prescribe, ancestor by ancestor in ascending height — for THE ascending list l of the ancestors
      of best other than genesis (it exists, 9a; it is unique, 8a; genesis is stored without receipts and has no rows) *)
Theorem logdb_is_ancestor_logs g gp tag r db : num_of g = 0 -> imported g gp tag r db ->
  forall l, (forall a, In a l <-> anc r (r_best r) a /\ a <> g) -> asc l ->
    db_events db = concat (map (blk_events r) l) /\ db_transfers db = concat (map (blk_transfers r) l).
Proof. intros Hg I l M A. exact (LC.logdb_is_ancestor_logs g gp tag Hg r db I l (conj M A)). Qed.

Theorem logdb_is_ancestor_logs_all g gp tag r db : num_of g = 0 -> imported g gp tag r db ->
  forall l, (forall a, In a l <-> anc r (r_best r) a) -> asc l ->
    db_events db = concat (map (blk_events r) l) /\ db_transfers db = concat (map (blk_transfers r) l).
Proof. intros Hg I l M A. exact (LC.logdb_is_ancestor_logs_all g gp tag Hg r db I l (conj M A)). Qed.

(* 9a. that list exists; through C14 it is what Exclude(best, genesis) returns *)
Theorem ancestor_enumeration_exists g gp tag r db : num_of g = 0 -> imported g gp tag r db ->
  exists l, (forall a, In a l <-> anc r (r_best r) a /\ a <> g) /\ asc l.
Proof. intros Hg I. exact (LC.ancestor_enum_exists g gp tag Hg r db I). Qed.

Theorem ancestor_enumeration_is_exclude_genesis g gp tag adm r h l :
  num_of g = 0 -> reachable g gp tag adm r -> stored r h ->
  (exclude r h g = Ok l <-> (forall a, In a l <-> anc r h a /\ a <> g) /\ asc l).
Proof. intros Hg R. exact (LC.exclude_gen_enum g gp r h l (reachable_wf _ _ _ _ _ Hg R)). Qed.

(* 9b. membership form: a row is in a table iff the receipts of a block on best's chain prescribe it *)
Theorem logdb_rows_membership g gp tag r db : num_of g = 0 -> imported g gp tag r db ->
  (forall x, In x (db_events db) <->
             exists a s b, anc r (r_best r) a /\ get_block r a = Some (s, b) /\ In x (block_events b)) /\
  (forall x, In x (db_transfers db) <->
             exists a s b, anc r (r_best r) a /\ get_block r a = Some (s, b) /\ In x (block_transfers b)).
Proof. intros Hg I. exact (LC.logdb_rows_membership g gp tag Hg r db I). Qed.

(* 9c. order: both tables are strictly ascending in the sequence key — by 1 the lexicographic order of (block number,
       tx index, log index) — and the rows of an ancestor carry its id and lie inside its own key range *)
Theorem logdb_rows_ordered g gp tag r db : num_of g = 0 -> imported g gp tag r db ->
  ev_sorted (db_events db) /\ LC.tr_sorted (db_transfers db) /\
  (forall a, anc r (r_best r) a ->
     (forall x, In x (blk_events r a) -> er_block x = a /\ num_of a * two35 <= er_seq x < (num_of a + 1) * two35) /\
     (forall x, In x (blk_transfers r a) -> tr_block x = a /\ num_of a * two35 <= tr_seq x < (num_of a + 1) * two35)).
Proof. intros Hg I. exact (LC.logdb_rows_ordered g gp tag Hg r db I). Qed.

(* 9d. the genesis-rows variant of 5b over ancestry *)
Theorem logdb_after_genesis_rows_is_ancestor_logs g gp tag d0 r db : num_of g = 0 -> below two35 d0 ->
  imported_from g gp tag d0 r db ->
  forall l, (forall a, In a l <-> anc r (r_best r) a /\ a <> g) -> asc l ->
    db_events db = db_events d0 ++ concat (map (blk_events r) l) /\
    db_transfers db = db_transfers d0 ++ concat (map (blk_transfers r) l).
Proof. intros Hg B0 I l M A. exact (LC.logdb_after_genesis_rows_is_ancestor_logs g gp tag Hg d0 r db B0 I l (conj M A)). Qed.

(* 10. the best-changing step of an import history meets 8b (its premises hold of every such step), and on the tables of
       an import history the surviving rows are exactly the rows whose block is not on the abandoned branch *)
Theorem imported_step_over_ancestry g gp tag r db b conf r' db' : num_of g = 0 -> imported g gp tag r db ->
  valid_add r b conf -> write_logs r db b (r_best r) = Some db' -> add_block r b conf true = Some r' ->
  LC.write_logs_spec r db b (r_best r) db'.
Proof. intros Hg I. exact (LC.imported_step_meets_spec g gp tag Hg r db b conf r' db' I). Qed.

Theorem kept_rows_are_off_the_old_branch g gp tag r db nb dk : num_of g = 0 -> imported g gp tag r db ->
  stored r (b_parent nb) -> LC.kept r (r_best r) nb db dk ->
  (forall x, In x (db_events dk) <->
             In x (db_events db) /\ ~ (anc r (r_best r) (er_block x) /\ ~ anc r (b_parent nb) (er_block x))) /\
  (forall x, In x (db_transfers dk) <->
             In x (db_transfers db) /\ ~ (anc r (r_best r) (tr_block x) /\ ~ anc r (b_parent nb) (tr_block x))).
Proof. intros Hg I. exact (LC.kept_on_canonical g gp tag Hg r db nb dk I). Qed.

(* non-vacuity of 8-10 on the example history: the reorganisation step ex_r3 -> ex_r4 (best (2,1), new block (3,1) on the
   sibling (2,2)) satisfies the premises of 8b-8d; its old branch is {(2,1)} (lowest: (2,1)), its new branch [(2,2)]; the
   ancestors of the new best other than genesis are [(1,1); (2,2); (3,1)], the table is their rows — (2,2)'s two events —
   and the abandoned block's row, present before the step, is gone *)
Example ex_c15_over_ancestry :
  (stored ex_r3 (bid 2 1) /\ stored ex_r3 (b_parent ex_b3') /\ num_of (b_id ex_b3') = num_of (b_parent ex_b3') + 1 /\
   below ((num_of (bid 2 1) + 1) * two35) ex_db2 /\ write_logs ex_r3 ex_db2 ex_b3' (bid 2 1) = Some ex_db4) /\
  LC.write_logs_spec ex_r3 ex_db2 ex_b3' (bid 2 1) ex_db4 /\
  LC.lowest (LC.old_branch ex_r3 (bid 2 1) ex_b3') (bid 2 1) /\
  LC.ascending_enum (LC.new_branch ex_r3 (bid 2 1) ex_b3') [bid 2 2] /\
  LC.kept ex_r3 (bid 2 1) ex_b3' ex_db2 empty_db /\
  LC.ascending_enum (fun a => anc ex_r4 (r_best ex_r4) a /\ a <> ex_g) [bid 1 1; bid 2 2; bid 3 1] /\
  db_events ex_db4 = LC.rows_ev ex_r4 [bid 1 1; bid 2 2; bid 3 1] /\
  db_transfers ex_db4 = LC.rows_tr ex_r4 [bid 1 1; bid 2 2; bid 3 1] /\
  map er_block (LC.rows_ev ex_r4 [bid 1 1; bid 2 2; bid 3 1]) = [bid 2 2; bid 2 2] /\
  In (bid 2 1) (map er_block (db_events ex_db2)) /\ ~ In (bid 2 1) (map er_block (db_events ex_db4)) /\
  LC.fits ex_b2' /\ LC.writable ex_b3'.
Proof.
  pose proof (reachable_wf _ _ _ _ _ ex_g_num ex_reachable3_tip) as W3.
  pose proof (reachable_wf_body _ _ _ _ _ ex_g_num ex_reachable3_tip) as WB3.
  pose proof (reachable_wf _ _ _ _ _ ex_g_num ex_reachable_tip) as W4.
  assert (So : stored ex_r3 (bid 2 1)) by (eexists; vm_compute; reflexivity).
  assert (Sp : stored ex_r3 (b_parent ex_b3')) by (eexists; vm_compute; reflexivity).
  assert (Hn : num_of (b_id ex_b3') = num_of (b_parent ex_b3') + 1) by (vm_compute; reflexivity).
  assert (B : below ((num_of (bid 2 1) + 1) * two35) ex_db2)
    by (split; intros x Hx; vm_compute in Hx; destruct Hx as [<-|[]]; vm_compute; reflexivity).
  assert (Hw : write_logs ex_r3 ex_db2 ex_b3' (bid 2 1) = Some ex_db4) by (vm_compute; reflexivity).
  assert (Eo : LC.ascending_enum (LC.old_branch ex_r3 (bid 2 1) ex_b3') [bid 2 1])
    by (apply (LC.exclude_is_enum ex_g ex_gp ex_r3 (bid 2 1) (b_parent ex_b3') _ W3 So Sp); vm_compute; reflexivity).
  assert (Lf : LC.lowest (LC.old_branch ex_r3 (bid 2 1) ex_b3') (bid 2 1)).
  { destruct Eo as [M _]. split; [apply M; left; reflexivity|]. intros a Ha. apply M in Ha. destruct Ha as [<-|[]]. apply N.le_refl. }
  split; [exact (conj So (conj Sp (conj Hn (conj B Hw))))|].
  split; [exact (LC.write_logs_meets_spec ex_g ex_gp ex_r3 W3 WB3 (bid 2 1) ex_b3' So Sp ex_db2 ex_db4 Hn B Hw)|].
  split; [exact Lf|].
  split; [apply (LC.exclude_is_enum ex_g ex_gp ex_r3 (b_parent ex_b3') (bid 2 1) _ W3 Sp So); vm_compute; reflexivity|].
  split; [right; exists (bid 2 1); split; [exact Lf | vm_compute; reflexivity]|].
  split; [apply (LC.exclude_gen_enum ex_g ex_gp ex_r4 (r_best ex_r4) _ W4 (w_best _ _ _ W4)); vm_compute; reflexivity|].
  split; [vm_compute; reflexivity|]. split; [vm_compute; reflexivity|]. split; [vm_compute; reflexivity|].
  split; [vm_compute; left; reflexivity|].
  split; [vm_compute; intros [H|[H|[]]]; discriminate H|].
  split; [vm_compute; repeat split; intros H; discriminate H | eexists; vm_compute; reflexivity].
Qed.

(* non-vacuity of 9d on the genesis-rows history of ex_c15_genesis_rows: block 0's rows stay in front *)
Example ex_c15_over_ancestry_genesis_rows :
  db_events ex_dg4 = db_events ex_d0 ++ LC.rows_ev ex_r4 [bid 1 1; bid 2 2; bid 3 1] /\
  db_transfers ex_dg4 = db_transfers ex_d0 ++ LC.rows_tr ex_r4 [bid 1 1; bid 2 2; bid 3 1] /\
  length (db_events ex_d0) = 1%nat /\ length (LC.rows_ev ex_r4 [bid 1 1; bid 2 2; bid 3 1]) = 2%nat.
Proof. vm_compute. repeat split. Qed.

(* non-vacuity of 6b: ex_d0 (what Write(genesis, one receipt) leaves) satisfies both premises, and the F11 situation of
   ex_c15_sync with those rows in front re-syncs to "genesis rows ++ canonical logs" *)
Example ex_c15_sync_genesis_rows :
  below two35 ex_d0 /\ genesis_ids ex_d0 /\
  (exists dbx, rows_of_path ex_r5 [bid 2 2; bid 1 1; ex_g] = Some dbx /\
     option_map (fun d => map (fun x => seq_block (er_seq x)) (db_events d)) (sync_logdb ex_r5 (frame ex_d0 dbx)) = Some [0; 2; 2; 3]).
Proof.
  split; [split; intros x Hx; vm_compute in Hx; destruct Hx as [<-|[]]; vm_compute; reflexivity|].
  split; [split; intros x Hx; vm_compute in Hx; destruct Hx as [<-|[]]; vm_compute; reflexivity|].
  eexists. split; [vm_compute; reflexivity|]. vm_compute. reflexivity.
Qed.

Print Assumptions seq_pack_inj_mono.
Print Assumptions seq_model_is_translated.
Print Assumptions filter_is_subsequence_events.
Print Assumptions filter_is_subsequence_transfers.
Print Assumptions insert_or_ignore_partial.
Print Assumptions truncate_then_insert_partial.
Print Assumptions logdb_tracks_canonical.
Print Assumptions canonical_path_exists.
Print Assumptions logdb_is_canonical_logs.
Print Assumptions filter_on_canonical_logs.
Print Assumptions filter_on_canonical_logs_transfers.
Print Assumptions write_block_appends_rows.
Print Assumptions logdb_tracks_canonical_after_genesis_rows.
Print Assumptions sync_reestablishes_canonical.
Print Assumptions sync_logdb_commutes_with_genesis_rows.
Print Assumptions sync_reestablishes_canonical_with_genesis_rows.
Print Assumptions sync_verify_reestablishes_canonical.
Print Assumptions verify_accepts_canonical_prefix.
Print Assumptions sync_verify_raises_no_false_alarm.
Print Assumptions exclude_is_the_ascending_enumeration.
Print Assumptions ascending_enumeration_is_unique.
Print Assumptions write_logs_over_ancestry.
Print Assumptions write_logs_spec_determines_tables.
Print Assumptions write_logs_is_spec_where_defined.
Print Assumptions write_logs_failure_modes.
Print Assumptions write_succeeds_within_ranges.
Print Assumptions logdb_is_ancestor_logs.
Print Assumptions logdb_is_ancestor_logs_all.
Print Assumptions ancestor_enumeration_exists.
Print Assumptions ancestor_enumeration_is_exclude_genesis.
Print Assumptions logdb_rows_membership.
Print Assumptions logdb_rows_ordered.
Print Assumptions logdb_after_genesis_rows_is_ancestor_logs.
Print Assumptions imported_step_over_ancestry.
Print Assumptions kept_rows_are_off_the_old_branch.
