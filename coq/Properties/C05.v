(* Properties/C05.v — statements only.  "For every slot exactly one active proposer is entitled, and
   all nodes agree who".  V2 and PoS share the sequence scheduler; `ps` is the candidate list paired with
   the sort key computed from the seed (Blake2b rank / ChaCha8 float score: inputs, see DESIGN §4-C05). *)
From Coq Require Import List NArith Bool Lia.
From Verif Require Import Common.Util Sched.Model Sched.Arith Sched.Proofs Sched.ProofsUpdates Sched.ProofsV1.
Import ListNotations.
Open Scope N_scope.

Definition addr_keys (ps : list (proposer * N)) := map (fun pk : proposer * N => p_addr (fst pk)) ps.
Definition listed (me : N) (ps : list (proposer * N)) := exists mep, In mep (map fst ps) /\ p_addr mep = me.
Definition listed_active (me : N) (ps : list (proposer * N)) :=
  exists p k, In (p, k) ps /\ p_addr p = me /\ p_active p = true.

(* 1. every aligned slot after the parent has exactly one owner, a member of the sequence *)
Theorem slot_owner_unique me ps pt T t :
  0 < T -> listed me ps -> pt < t -> (t - pt) mod T = 0 ->
  let seq := addrs (seq_of me ps) in
  exists a, In a seq /\ is_scheduled pt T seq t a = true /\
            forall b, is_scheduled pt T seq t b = true -> b = a.
Proof.
  intros HT [mep [Hin E]] Hlt Hal seq. apply slot_owner_unique_lemma; auto.
  pose proof (me_in_seq me ps mep Hin E) as H. fold seq in H. destruct seq; [contradiction|congruence].
Qed.

(* 2. all nodes agree: the sequence (hence owner, score, updates) computed from the viewpoint of any
      two active members coincides; for any viewpoint its members are the actives plus that viewpoint *)
Theorem owner_agreement me1 me2 ps :
  NoDup (addr_keys ps) -> listed_active me1 ps -> listed_active me2 ps ->
  seq_of me1 ps = seq_of me2 ps.
Proof. exact (owner_agreement_lemma me1 me2 ps). Qed.

Theorem sequence_members me ps p :
  In p (seq_of me ps) <-> In p (map fst ps) /\ (p_active p = true \/ p_addr p = me).
Proof. exact (seq_membership me ps p). Qed.

(* 3. Schedule returns the earliest aligned slot >= now (and > parent) owned by me; it never panics *)
Theorem schedule_is_earliest me ps pt T now :
  0 < T -> listed me ps ->
  let seq := addrs (seq_of me ps) in
  exists t, schedule pt T seq me now = Some t /\
    is_scheduled pt T seq t me = true /\ now <= t /\ pt < t /\
    forall t', now <= t' -> pt < t' -> t' < t -> is_scheduled pt T seq t' me = false.
Proof.
  intros HT [mep [Hin E]] seq. apply schedule_is_earliest_lemma; auto. exact (me_in_seq me ps mep Hin E).
Qed.

(* 4. the validator side accepts a time from me iff me owns that slot *)
Theorem is_the_time_iff pt T seq t me : 0 < T -> seq <> [] ->
  is_scheduled pt T seq t me = true <->
  pt < t /\ (t - pt) mod T = 0 /\
  nth_error seq (N.to_nat (slot_index pt T (N.of_nat (length seq)) t)) = Some me.
Proof. exact (is_scheduled_iff pt T seq t me). Qed.

Theorem schedule_accepted me ps pt T now :
  0 < T -> listed me ps ->
  exists t, schedule pt T (addrs (seq_of me ps)) me now = Some t /\
            is_scheduled pt T (addrs (seq_of me ps)) t me = true.
Proof.
  intros HT [mep [Hin E]]. apply schedule_accepted_lemma; auto. exact (me_in_seq me ps mep Hin E).
Qed.

(* 5. Updates: deactivated = exactly the owners (other than me) of the slots strictly between parent and
      the new block within the first round; scores within bounds *)
Theorem updates_sound pt T k me seq p : 0 < T -> 1 <= k ->
  In p (missed pt T (pt + k * T) me seq 0) ->
  p_addr p <> me /\ exists j, 1 <= j /\ j < k /\ is_scheduled pt T (addrs seq) (pt + j * T) (p_addr p) = true.
Proof. exact (updates_missed_sound pt T k me seq p). Qed.

Theorem updates_complete pt T k me seq j p : 0 < T -> 1 <= k ->
  nth_error seq j = Some p -> N.of_nat j + 1 < k -> p_addr p <> me ->
  In p (missed pt T (pt + k * T) me seq 0).
Proof. exact (updates_missed_complete pt T k me seq j p). Qed.

Theorem score_v2 pt T k seq mep : 0 < T -> 1 <= k -> In (p_addr mep) (addrs seq) ->
  let score := snd (updates_v2 pt T seq mep (pt + k * T)) in 1 <= score /\ score <= N.of_nat (length seq).
Proof. exact (score_v2_bounds pt T k seq mep). Qed.

Theorem score_pos pt T k seq mep total : 0 < T -> 1 <= k ->
  sumN (weights seq) * max_pos_score < 18446744073709551616 ->
  sumN (weights seq) <= total -> 0 < total ->
  let ms := missed pt T (pt + k * T) (p_addr mep) seq 0 in
  snd (updates_pos pt T seq mep total (pt + k * T)) =
    (sumN (weights seq) - sumN (weights ms)) * max_pos_score / total /\
  snd (updates_pos pt T seq mep total (pt + k * T)) <= max_pos_score.
Proof. exact (score_pos_bounds pt T k seq mep total). Qed.

(* 6. PoA v1: the owner of a slot is a function of (parent number, time) — one owner by construction *)
Theorem v1_is_the_time_iff h pt T acts me t :
  is_the_time_v1 h pt T acts me t = true <->
  pt < t /\ (t - pt) mod T = 0 /\ exists p, whose_turn h acts t = Some p /\ p_addr p = me.
Proof. exact (is_the_time_v1_iff h pt T acts me t). Qed.

Theorem v1_slot_owner_exists h acts t : acts <> [] -> exists p, whose_turn h acts t = Some p /\ In p acts.
Proof. exact (whose_turn_some h acts t). Qed.

Theorem v1_schedule_is_earliest h pt T acts me now fuel t : 0 < T ->
  schedule_v1 h pt T acts me now fuel = Some t ->
  is_the_time_v1 h pt T acts me t = true /\ now <= t /\ pt < t /\
  forall t', now <= t' -> pt < t' -> t' < t -> is_the_time_v1 h pt T acts me t' = false.
Proof. exact (schedule_v1_spec h pt T acts me now fuel t). Qed.

Theorem v1_schedule_out_of_fuel h pt T acts me now fuel : acts <> [] ->
  schedule_v1 h pt T acts me now fuel = None ->
  forall i, i < N.of_nat fuel -> forall p,
    whose_turn h acts (first_slot pt T now + i * T) = Some p -> p_addr p <> me.
Proof. exact (schedule_v1_none_spec h pt T acts me now fuel). Qed.

Theorem v1_updates_sound h pt T acts mep nbt a : 0 < T ->
  In (a, false) (fst (updates_v1 h pt T acts mep nbt)) ->
  a <> p_addr mep /\ exists t, pt < t /\ t < nbt /\ exists p, whose_turn h acts t = Some p /\ p_addr p = a.
Proof. exact (updates_v1_sound h pt T acts mep nbt a). Qed.

Theorem v1_score h pt T acts mep nbt :
  NoDup (addrs acts) -> In (p_addr mep) (addrs acts) ->
  let score := snd (updates_v1 h pt T acts mep nbt) in 1 <= score /\ score <= N.of_nat (length acts).
Proof. exact (score_v1_bounds h pt T acts mep nbt). Qed.

(* 7. PoA v1 over the list the constructor really builds (actives_v1 = the listed proposers that are active or me):
      never empty for a listed proposer (so the Go `% len(actives)` cannot divide by zero), contains me, keeps addresses
      distinct, and — all nodes agree — is the same from the viewpoint of any two active members *)
Definition v1_listed (me : N) (ps : list proposer) := exists mep, In mep ps /\ p_addr mep = me.
Definition v1_listed_active (me : N) (ps : list proposer) := exists p, In p ps /\ p_addr p = me /\ p_active p = true.

Theorem v1_actives_wellformed me ps : v1_listed me ps -> NoDup (addrs ps) ->
  actives_v1 me ps <> [] /\ In me (addrs (actives_v1 me ps)) /\ NoDup (addrs (actives_v1 me ps)) /\
  forall p, In p (actives_v1 me ps) <-> In p ps /\ (p_active p = true \/ p_addr p = me).
Proof.
  intros [mep [Hin E]] Hnd. split; [exact (actives_v1_nonempty me ps mep Hin E)|].
  split; [exact (actives_v1_me me ps mep Hin E)|]. split; [exact (actives_v1_nodup me ps Hnd)|].
  exact (actives_v1_in me ps).
Qed.

Theorem v1_owner_agreement me1 me2 ps : NoDup (addrs ps) -> v1_listed_active me1 ps -> v1_listed_active me2 ps ->
  actives_v1 me1 ps = actives_v1 me2 ps.
Proof. exact (actives_v1_agree me1 me2 ps). Qed.

(* for a listed proposer every slot has an owner among the constructor's actives, and the score is within [1, n] *)
Theorem v1_slot_owner_listed h me ps t : v1_listed me ps ->
  exists p, whose_turn h (actives_v1 me ps) t = Some p /\ In p (actives_v1 me ps).
Proof. intros [mep [Hin E]]. apply whose_turn_some. exact (actives_v1_nonempty me ps mep Hin E). Qed.

Theorem v1_score_listed h pt T ps mep nbt : In mep ps -> NoDup (addrs ps) ->
  let acts := actives_v1 (p_addr mep) ps in
  let score := snd (updates_v1 h pt T acts mep nbt) in 1 <= score /\ score <= N.of_nat (length acts).
Proof.
  intros Hin Hnd acts. apply score_v1_bounds; [exact (actives_v1_nodup _ ps Hnd)|exact (actives_v1_me _ ps mep Hin eq_refl)].
Qed.

(* v1 Updates completeness: the owner (other than me) of every slot walked back from nbt - T, within 101 slots and after the
   parent, is deactivated *)
Theorem v1_updates_complete h pt T acts mep nbt i p :
  i < 101 -> (i + 1) * T <= nbt -> pt < nbt - T - i * T ->
  (forall j, j <= i -> whose_turn h acts (nbt - T - j * T) <> None) ->
  whose_turn h acts (nbt - T - i * T) = Some p -> p_addr p <> p_addr mep ->
  In (p_addr p, false) (fst (updates_v1 h pt T acts mep nbt)).
Proof.
  intros Hi Hle Hgt Hall Hp Hnm. cbn [updates_v1 fst]. apply in_or_app. left.
  apply in_map_iff. exists (p_addr p). split; [reflexivity|]. apply dedupN_in.
  apply (missed_v1_complete h pt T acts (p_addr mep) initial_max_block_proposers (nbt - T) i p); auto;
    unfold initial_max_block_proposers; try lia; nia.
Qed.

(* 8. converse of schedule_accepted (v2 / PoS): a slot the proposer owns is exactly what Schedule answers when asked at that
      time — so "the validator accepts t from me" and "the packer, asked at t, waits for t" are the same fact *)
Theorem owned_slot_scheduled me ps pt T t : 0 < T -> listed me ps ->
  is_scheduled pt T (addrs (seq_of me ps)) t me = true -> schedule pt T (addrs (seq_of me ps)) me t = Some t.
Proof.
  intros HT [mep [Hin E]]. apply owned_slot_is_scheduled; auto. exact (me_in_seq me ps mep Hin E).
Qed.

Theorem reactivation_iff mep : reactivation mep = if p_active mep then [] else [(p_addr mep, true)].
Proof. exact (updates_reactivation mep). Qed.

(* non-vacuity: a concrete 4-member list (one inactive), keys out of order *)
Definition ex_ps : list (proposer * N) :=
  [ (mkP 11 true 5, 40); (mkP 22 false 7, 10); (mkP 33 true 1, 30); (mkP 44 true 9, 20) ].
Example ex_hyps : NoDup (addr_keys ex_ps) /\ listed 22 ex_ps /\ listed_active 11 ex_ps /\ listed_active 44 ex_ps.
Proof.
  split; [repeat constructor; cbn; intuition discriminate|]. split.
  - exists (mkP 22 false 7). cbn. tauto.
  - split; [exists (mkP 11 true 5), 40 | exists (mkP 44 true 9), 20]; cbn; tauto.
Qed.
Example ex_seq : addrs (seq_of 22 ex_ps) = [22; 44; 33; 11] /\ addrs (seq_of 11 ex_ps) = [44; 33; 11]
                 /\ schedule 1000 10 (addrs (seq_of 22 ex_ps)) 22 1075 = Some 1090.
Proof. vm_compute. auto. Qed.

(* non-vacuity for Updates / scores / v1: 5 missed slots on the 4-member sequence of viewpoint 22 (inactive): the three other members
   are deactivated, 22 re-activates itself, score 1; PoS score with weights 5,7,1,9 and total 22 *)
Example ex_updates : updates_v2 1000 10 (seq_of 22 ex_ps) (mkP 22 false 7) 1060
                     = ([(44, false); (33, false); (11, false); (22, true)], 1)
                  /\ snd (updates_pos 1000 10 (seq_of 22 ex_ps) (mkP 22 false 7) 22 1030) = 5909.
Proof. vm_compute. auto. Qed.
Example ex_score_pos_hyps : sumN (weights (seq_of 22 ex_ps)) * max_pos_score < 18446744073709551616 /\ sumN (weights (seq_of 22 ex_ps)) <= 22.
Proof. vm_compute. split; [reflexivity|discriminate]. Qed.
Definition ex_v1 : list proposer := [mkP 11 true 0; mkP 22 false 0; mkP 33 true 0].
Definition ex_h (t : N) : N := t / 10 * 7 + 3.   (* stands for dprp(parentNumber, t) *)
Example ex_v1_hyps : v1_listed 22 ex_v1 /\ NoDup (addrs ex_v1) /\ v1_listed_active 11 ex_v1 /\ v1_listed_active 33 ex_v1.
Proof.
  split; [exists (mkP 22 false 0); cbn; tauto|]. split; [repeat constructor; cbn; intuition discriminate|].
  split; [exists (mkP 11 true 0)|exists (mkP 33 true 0)]; cbn; tauto.
Qed.
Example ex_v1_run : addrs (actives_v1 22 ex_v1) = [11; 22; 33] /\ addrs (actives_v1 11 ex_v1) = [11; 33]
                 /\ schedule_v1 ex_h 1000 10 (actives_v1 22 ex_v1) 22 1005 50 = Some 1030
                 /\ fst (updates_v1 ex_h 1000 10 (actives_v1 22 ex_v1) (mkP 22 false 0) 1020) = [(33, false); (22, true)].
Proof. vm_compute. auto. Qed.

Print Assumptions slot_owner_unique.
Print Assumptions owner_agreement.
Print Assumptions sequence_members.
Print Assumptions schedule_is_earliest.
Print Assumptions is_the_time_iff.
Print Assumptions schedule_accepted.
Print Assumptions updates_sound.
Print Assumptions updates_complete.
Print Assumptions score_v2.
Print Assumptions score_pos.
Print Assumptions v1_is_the_time_iff.
Print Assumptions v1_slot_owner_exists.
Print Assumptions v1_schedule_is_earliest.
Print Assumptions v1_schedule_out_of_fuel.
Print Assumptions v1_updates_sound.
Print Assumptions v1_score.
Print Assumptions v1_actives_wellformed.
Print Assumptions v1_owner_agreement.
Print Assumptions v1_slot_owner_listed.
Print Assumptions v1_score_listed.
Print Assumptions v1_updates_complete.
Print Assumptions owned_slot_scheduled.
Print Assumptions reactivation_iff.
