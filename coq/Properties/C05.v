(* Properties/C05.v — statements only.  "For every slot exactly one active proposer is entitled, and
   all nodes agree who".  V2 and PoS share the sequence scheduler; `ps` is the candidate list paired with
   the sort key computed from the seed (Blake2b rank / ChaCha8 float score: inputs, see DESIGN §4-C05). *)
From Coq Require Import List NArith Bool Lia.
From Verif Require Import Common.Util Sched.Model Sched.Arith Sched.Proofs Sched.ProofsUpdates.
Import ListNotations.
Open Scope N_scope.

Definition addr_keys (ps : list (proposer * N)) := map (fun pk : proposer * N => p_addr (fst pk)) ps.
Definition listed (me : N) (ps : list (proposer * N)) := exists mep, In mep (map fst ps) /\ p_addr mep = me.
Definition listed_active (me : N) (ps : list (proposer * N)) :=
  exists p k, In (p, k) ps /\ p_addr p = me /\ p_active p = true.

(* 1. every aligned slot after the parent has exactly one owner, a member of the sequence *)
Theorem slot_owner_unique me ps pt T t :
  0 < T -> listed me ps -> pt < t -> (t - pt) mod T = 0 ->
  let seq := addrs (seq_of me ps) in
  exists a, In a seq /\ is_scheduled pt T seq t a = true /\
            forall b, is_scheduled pt T seq t b = true -> b = a.
Proof.
  intros HT [mep [Hin E]] Hlt Hal seq. apply slot_owner_unique_lemma; auto.
  pose proof (me_in_seq me ps mep Hin E) as H. fold seq in H. destruct seq; [contradiction|congruence].
Qed.

(* 2. all nodes agree: the sequence (hence owner, score, updates) computed from the viewpoint of any
      two active members coincides; for any viewpoint its members are the actives plus that viewpoint *)
Theorem owner_agreement me1 me2 ps :
  NoDup (addr_keys ps) -> listed_active me1 ps -> listed_active me2 ps ->
  seq_of me1 ps = seq_of me2 ps.
Proof. exact (owner_agreement_lemma me1 me2 ps). Qed.

Theorem sequence_members me ps p :
  In p (seq_of me ps) <-> In p (map fst ps) /\ (p_active p = true \/ p_addr p = me).
Proof. exact (seq_membership me ps p). Qed.

(* 3. Schedule returns the earliest aligned slot >= now (and > parent) owned by me; it never panics *)
Theorem schedule_is_earliest me ps pt T now :
  0 < T -> listed me ps ->
  let seq := addrs (seq_of me ps) in
  exists t, schedule pt T seq me now = Some t /\
    is_scheduled pt T seq t me = true /\ now <= t /\ pt < t /\
    forall t', now <= t' -> pt < t' -> t' < t -> is_scheduled pt T seq t' me = false.
Proof.
  intros HT [mep [Hin E]] seq. apply schedule_is_earliest_lemma; auto. exact (me_in_seq me ps mep Hin E).
Qed.

(* 4. the validator side accepts a time from me iff me owns that slot *)
Theorem is_the_time_iff pt T seq t me : 0 < T -> seq <> [] ->
  is_scheduled pt T seq t me = true <->
  pt < t /\ (t - pt) mod T = 0 /\
  nth_error seq (N.to_nat (slot_index pt T (N.of_nat (length seq)) t)) = Some me.
Proof. exact (is_scheduled_iff pt T seq t me). Qed.

Theorem schedule_accepted me ps pt T now :
  0 < T -> listed me ps ->
  exists t, schedule pt T (addrs (seq_of me ps)) me now = Some t /\
            is_scheduled pt T (addrs (seq_of me ps)) t me = true.
Proof.
  intros HT [mep [Hin E]]. apply schedule_accepted_lemma; auto. exact (me_in_seq me ps mep Hin E).
Qed.

(* 5. Updates: deactivated = exactly the owners (other than me) of the slots strictly between parent and
      the new block within the first round; scores within bounds *)
Theorem updates_sound pt T k me seq p : 0 < T -> 1 <= k ->
  In p (missed pt T (pt + k * T) me seq 0) ->
  p_addr p <> me /\ exists j, 1 <= j /\ j < k /\ is_scheduled pt T (addrs seq) (pt + j * T) (p_addr p) = true.
Proof. exact (updates_missed_sound pt T k me seq p). Qed.

Theorem updates_complete pt T k me seq j p : 0 < T -> 1 <= k ->
  nth_error seq j = Some p -> N.of_nat j + 1 < k -> p_addr p <> me ->
  In p (missed pt T (pt + k * T) me seq 0).
Proof. exact (updates_missed_complete pt T k me seq j p). Qed.

Theorem score_v2 pt T k seq mep : 0 < T -> 1 <= k -> In (p_addr mep) (addrs seq) ->
  let score := snd (updates_v2 pt T seq mep (pt + k * T)) in 1 <= score /\ score <= N.of_nat (length seq).
Proof. exact (score_v2_bounds pt T k seq mep). Qed.

Theorem score_pos pt T k seq mep total : 0 < T -> 1 <= k ->
  sumN (weights seq) * max_pos_score < 18446744073709551616 ->
  sumN (weights seq) <= total -> 0 < total ->
  let ms := missed pt T (pt + k * T) (p_addr mep) seq 0 in
  snd (updates_pos pt T seq mep total (pt + k * T)) =
    (sumN (weights seq) - sumN (weights ms)) * max_pos_score / total /\
  snd (updates_pos pt T seq mep total (pt + k * T)) <= max_pos_score.
Proof. exact (score_pos_bounds pt T k seq mep total). Qed.

(* 6. PoA v1: the owner of a slot is a function of (parent number, time) — one owner by construction *)
Theorem v1_is_the_time_iff h pt T acts me t :
  is_the_time_v1 h pt T acts me t = true <->
  pt < t /\ (t - pt) mod T = 0 /\ exists p, whose_turn h acts t = Some p /\ p_addr p = me.
Proof. exact (is_the_time_v1_iff h pt T acts me t). Qed.

Theorem v1_slot_owner_exists h acts t : acts <> [] -> exists p, whose_turn h acts t = Some p /\ In p acts.
Proof. exact (whose_turn_some h acts t). Qed.

Theorem v1_schedule_is_earliest h pt T acts me now fuel t : 0 < T ->
  schedule_v1 h pt T acts me now fuel = Some t ->
  is_the_time_v1 h pt T acts me t = true /\ now <= t /\ pt < t /\
  forall t', now <= t' -> pt < t' -> t' < t -> is_the_time_v1 h pt T acts me t' = false.
Proof. exact (schedule_v1_spec h pt T acts me now fuel t). Qed.

Theorem v1_schedule_out_of_fuel h pt T acts me now fuel : acts <> [] ->
  schedule_v1 h pt T acts me now fuel = None ->
  forall i, i < N.of_nat fuel -> forall p,
    whose_turn h acts (first_slot pt T now + i * T) = Some p -> p_addr p <> me.
Proof. exact (schedule_v1_none_spec h pt T acts me now fuel). Qed.

Theorem v1_updates_sound h pt T acts mep nbt a : 0 < T ->
  In (a, false) (fst (updates_v1 h pt T acts mep nbt)) ->
  a <> p_addr mep /\ exists t, pt < t /\ t < nbt /\ exists p, whose_turn h acts t = Some p /\ p_addr p = a.
Proof. exact (updates_v1_sound h pt T acts mep nbt a). Qed.

Theorem v1_score h pt T acts mep nbt :
  NoDup (addrs acts) -> In (p_addr mep) (addrs acts) ->
  let score := snd (updates_v1 h pt T acts mep nbt) in 1 <= score /\ score <= N.of_nat (length acts).
Proof. exact (score_v1_bounds h pt T acts mep nbt). Qed.

(* non-vacuity: a concrete 4-member list (one inactive), keys out of order *)
Definition ex_ps : list (proposer * N) :=
  [ (mkP 11 true 5, 40); (mkP 22 false 7, 10); (mkP 33 true 1, 30); (mkP 44 true 9, 20) ].
Example ex_hyps : NoDup (addr_keys ex_ps) /\ listed 22 ex_ps /\ listed_active 11 ex_ps /\ listed_active 44 ex_ps.
Proof.
  split; [repeat constructor; cbn; intuition discriminate|]. split.
  - exists (mkP 22 false 7). cbn. tauto.
  - split; [exists (mkP 11 true 5), 40 | exists (mkP 44 true 9), 20]; cbn; tauto.
Qed.
Example ex_seq : addrs (seq_of 22 ex_ps) = [22; 44; 33; 11] /\ addrs (seq_of 11 ex_ps) = [44; 33; 11]
                 /\ schedule 1000 10 (addrs (seq_of 22 ex_ps)) 22 1075 = Some 1090.
Proof. vm_compute. auto. Qed.

Print Assumptions slot_owner_unique.
Print Assumptions owner_agreement.
Print Assumptions sequence_members.
Print Assumptions schedule_is_earliest.
Print Assumptions is_the_time_iff.
Print Assumptions schedule_accepted.
Print Assumptions updates_sound.
Print Assumptions updates_complete.
Print Assumptions score_v2.
Print Assumptions score_pos.
Print Assumptions v1_is_the_time_iff.
Print Assumptions v1_slot_owner_exists.
Print Assumptions v1_schedule_is_earliest.
Print Assumptions v1_schedule_out_of_fuel.
Print Assumptions v1_updates_sound.
Print Assumptions v1_score.
