(* Properties/C10.v — statements only.  "The EVM computes what the reference EVM semantics prescribe" (partial scope, see
   manifest.d/C10.json).  Independent references inside Coq: the mathematical ALU (Word.v, m_alu), the declarative gas pieces
   (GasSpec.v) and the Yellow-Paper semantics of a fragment (RefSpec.v: stack / flow / memory / storage / environment reads, no
   calls, copies, logs); the interpreter model EVM.Model (transcribed from /repo/vm and tied to it on every run by the
   correspondence harness) is proved to refine them for FRAGMENT-ONLY executions.  For everything else the model itself is the
   reference and the clause is correspondence-only.  failed_* theorems hold by construction of the model (see section 3). *)
From Coq Require Import ZArith List Bool Lia.
From Verif Require Import EVM.Word EVM.ProofsALU EVM.Model EVM.ProofsRun EVM.GasSpec EVM.ProofsGas
  EVM.RefSpec EVM.ProofsRef EVM.Journal EVM.ProofsJournal.
Import ListNotations.
Open Scope Z_scope.

(* 1. every arithmetic, comparison, bitwise and shift instruction = 256-bit modular integer arithmetic, for all operands *)
Theorem alu_matches_math (op : alu_op) (a b c : Z) :
  in_word a -> in_word b -> in_word c -> i_alu op a b c = m_alu op a b c.
Proof. exact (alu_matches_math_lemma op a b c). Qed.

(* ... and that is what a running frame pushes (stack entries are 256-bit words: invariant stack_ok) *)
Theorem alu_step_matches_math E cx op s : stack_ok (s_stack s) ->
  exec_plain E cx (I_ALU op) s =
  next s (pushw (m_alu op (nthz (s_stack s) 0) (nthz (s_stack s) 1) (nthz (s_stack s) 2)) (dropz (alu_arity op) (s_stack s))).
Proof. exact (alu_step_math E cx op s). Qed.

(* 2. termination made explicit: every non-halting iteration costs >= 1 gas and a callee never returns more gas than it
      was given, so fuel gas+1 suffices for every program, input, world and call nesting; gas left is within [0, gas] *)
Theorem run_terminates_within_gas fuel E static to v input gas w :
  0 <= gas < Z.of_nat fuel ->
  let r := call_top fuel E static to v input gas w in
  r_out r <> O_fuel /\ 0 <= r_gas r <= gas.
Proof. exact (call_top_terminates fuel E static to v input gas w). Qed.

Theorem frame_terminates_within_gas fuel E cx s : inv s -> s_gas s < Z.of_nat fuel ->
  r_out (run fuel E cx s) <> O_fuel /\ 0 <= r_gas (run fuel E cx s) <= s_gas s.
Proof. exact (run_gas fuel E cx s). Qed.

(* ... and any larger fuel gives the same answer (the oracle runs with one fixed large fuel) *)
Theorem fuel_irrelevant f f' E static to v input gas w :
  r_out (call_top f E static to v input gas w) <> O_fuel -> (f <= f')%nat ->
  call_top f' E static to v input gas w = call_top f E static to v input gas w.
Proof. exact (call_top_fuel_irrelevant f f' E static to v input gas w). Qed.

(* 3. a frame that does not end successfully (error, REVERT, or outside the model) leaves the world — balances, code, created
      accounts (master flag), storage, logs, transfer records, refund, self-destruct set — exactly as at its entry, whatever it
      and its nested calls / creations did: at the entry call, at every nested call and at every CREATE / CREATE2 *)
Theorem failed_frame_no_effect fuel E static to v input gas w :
  let r := call_top fuel E static to v input gas w in
  r_out r <> O_ok -> r_world r = w.
Proof. exact (call_top_failed fuel E static to v input gas w). Qed.

Theorem failed_nested_frame_no_effect fuel E self cs vs static d k to v args gas w cc :
  let r := do_call (run fuel E) E self cs vs static d k to v args gas w cc in
  r_out r <> O_ok -> r_world r = w.
Proof. exact (frame_failed fuel E self cs vs static d k to v args gas w cc). Qed.

Theorem failed_creation_no_effect fuel E self static d addr init v gas w cc :
  let r := do_create (run fuel E) E self static d addr init v gas w cc in
  r_out r <> O_ok -> r_world r = w.
Proof. exact (create_failed fuel E self static d addr init v gas w cc). Qed.

(* 4. under the static flag no program changes the world (balances, code, accounts, storage, logs, transfers, refund,
      self-destruct set), at any depth, whatever the outcome *)
Theorem static_no_write fuel E to input gas w :
  r_world (call_top fuel E true to 0 input gas w) = w.
Proof. exact (call_top_static fuel E to input gas w). Qed.

Theorem static_frame_no_write fuel E cx s : c_static cx = true -> r_world (run fuel E cx s) = s_world s.
Proof. exact (run_static fuel E cx s). Qed.

(* a STATICCALL from any frame; a CALL made under the static flag carries value 0 (the interpreter rejects it otherwise) *)
Theorem staticcall_no_write fuel E self cs vs static d k to v args gas w cc :
  static = true \/ k = K_STATIC -> (k = K_CALL -> v = 0) ->
  r_world (do_call (run fuel E) E self cs vs static d k to v args gas w cc) = w.
Proof. exact (frame_static fuel E self cs vs static d k to v args gas w cc). Qed.

(* 5. independent gas reference (GasSpec.v, from the Yellow Paper): the interpreter's memory charge is the difference of
      C_mem(a) = 3a + floor(a^2/512) between the word counts before and after; C_mem is monotone and expansion costs add up;
      the gas handed to a callee is min(requested, L(available - base)), L(n) = n - floor(n/64), and an unaffordable call
      never passes the gas check *)
Theorem mem_gas_matches_spec ow need :
  0 <= ow -> 0 <= need -> to_words need * 32 <= 1099511627744 ->
  mem_gas (32 * ow) (to_words need * 32) = Some (expansion_cost ow (Z.max ow (to_words need))).
Proof. exact (ProofsGas.mem_gas_matches_spec ow need). Qed.

Theorem mem_cost_monotone a b : 0 <= a <= b -> mem_cost a <= mem_cost b.
Proof. exact (ProofsGas.mem_cost_monotone a b). Qed.

Theorem expansion_cost_additive a b c : expansion_cost a b + expansion_cost b c = expansion_cost a c.
Proof. exact (ProofsGas.expansion_cost_additive a b c). Qed.

Theorem call_gas_matches_spec avail base req :
  0 <= base <= avail -> avail < W64 -> 0 <= req ->
  call_gas avail base req = callee_gas avail base req.
Proof. exact (ProofsGas.call_gas_matches_spec avail base req). Qed.

Theorem call_gas_unaffordable avail base req :
  0 <= avail < base -> base < W64 -> 0 <= req ->
  W64 <= base + call_gas avail base req \/ avail < base + call_gas avail base req.
Proof. exact (ProofsGas.call_gas_unaffordable avail base req). Qed.

Example gas_spec_nonvacuous :
  mem_gas (32 * 2) (to_words 100 * 32) = Some 6 /\ expansion_cost 2 4 = 6 /\
  call_gas 100000 700 50000 = 50000 /\ call_gas 100000 700 99999 = callee_gas 100000 700 99999 /\ callee_gas 100000 700 99999 = 97749.
Proof. vm_compute. repeat split; reflexivity. Qed.

(* a call instruction passes the gas check only if its own cost (everything except the gas handed to the callee) is affordable:
   cost - callee gas >= 700 (+ stipend margin), cost <= gas available, callee gas >= 0 — this ties call_gas_unaffordable to pre *)
Theorem call_step_affordable E cx s k s1 cg : inv s -> pre E cx s = P_ok (I_CALLI k) s1 cg ->
  exists cost, s_gas s1 = s_gas s - cost /\ 0 <= cost <= s_gas s /\ 0 <= cg /\
               700 + (if call_value k (s_stack s) =? 0 then 0 else 2300) <= cost - cg.
Proof.
  intros Hi Hp. destruct (pre_ok E cx s (I_CALLI k) s1 cg Hi Hp) as (_ & _ & cost & H1 & H2 & H3 & _ & H5).
  exists cost. repeat split; try assumption; try lia. apply H5. reflexivity.
Qed.

(* the state every frame starts in satisfies the invariants used by frame_terminates_within_gas / run_refines_reference *)
Theorem frame_entry_invariants gas w cc : 0 <= gas -> inv (mkSt 0 [] [] 0 gas [] w cc) /\ rinv (mkSt 0 [] [] 0 gas [] w cc).
Proof.
  intros H. split; [|apply initial_rinv; exact H]. unfold inv. cbn. repeat split; try lia. constructor.
Qed.

(* 6. an INDEPENDENT reference semantics (RefSpec.v, written from the Yellow Paper: delta/alpha, exceptional halting Z, jump
      destinations D(c) as inductively defined instruction positions, the fee schedule by W-classes + C_mem + the SSTORE
      schedule + EXP, the ALU by its mathematical definition, storage/refund effects extensionally) for the core fragment
      STOP / ALU / POP / PUSH / DUP / SWAP / JUMP / JUMPI / JUMPDEST / PC / GAS / MSIZE / MLOAD / MSTORE / MSTORE8 / SLOAD / SSTORE /
      RETURN / REVERT / invalid opcodes / the environment reads (ADDRESS ORIGIN CALLER CALLVALUE CALLDATASIZE CALLDATALOAD
      CODESIZE GASPRICE RETURNDATASIZE COINBASE TIMESTAMP NUMBER DIFFICULTY GASLIMIT CHAINID BASEFEE): a finished run of the
      interpreter model that stays inside the fragment is a run of the reference with the same result class, return data,
      gas left and world; at the first instruction outside the fragment the reference stops silent (RR_outside).  (Shared, not independent: opcode table, byte layout of memory words / PUSH operands, SWAP.) *)
Theorem run_refines_reference fuel E cx s : cwf cx -> rinv s -> r_out (run fuel E cx s) <> O_fuel ->
  exists rr, ref_run E cx s rr /\ res_matches (run fuel E cx s) rr /\
             (forall pc i, rr = RR_outside pc i -> leaves_fragment E cx).
Proof. exact (ProofsRef.run_refines_reference fuel E cx s). Qed.

(* what this does NOT say: the statement is about executions that stay inside the fragment.  From the first instruction
   outside it (RR_outside pc i names the pc and the instruction; by the definition of ref_step it decodes at that pc and is not
   in the fragment) res_matches is True, i.e. nothing is claimed about that run.  For RR_fail only the class is claimed at
   frame level (a failing frame's gas and world are discarded by its caller); the caller-level statement is the next theorem. *)
Theorem outside_names_the_instruction E cx s pc i : ref_step E cx s (RS_stop (RR_outside pc i)) ->
  pc = s_pc s /\ decode_at (e_fork E) (fetch cx s) = Some i /\ in_fragment i = false.
Proof. intros H. inversion H; subst. repeat split; assumption. Qed.

(* lifted to the entry call (runtime clause -> evm.Call): when the call reaches the interpreter, the result the caller sees is
   the reference's — success: the frame's data, gas and world; REVERT: data and gas, entry world; exceptional halt: no data, no
   gas, entry world.  Premise zlen code < 2^64 is not derived (deployed code is at most 24576 bytes, init code is bounded by
   memory gas). *)
Theorem call_top_refines_reference fuel E static to v input gas w :
  let w1 := transfer w (e_origin E) to v in
  let code := code_of w1 to in
  let cx0 := mkCtx to (e_origin E) v code (zlen code) input static 1 in
  let s0 := mkSt 0 [] [] 0 gas [] w1 0 in
  (negb (v =? 0) && (balance w (e_origin E) <? v)) = false ->
  precompile E to = false ->
  (negb (exists_acct w to) && (v =? 0)) = false ->
  code <> [] -> zlen code < W64 -> 0 <= gas ->
  r_out (call_top fuel E static to v input gas w) <> O_fuel ->
  exists rr, ref_run E cx0 s0 rr /\ call_matches w (call_top fuel E static to v input gas w) rr /\
             (forall pc i, rr = RR_outside pc i -> leaves_fragment E cx0).
Proof. exact (ProofsRef.call_top_refines_reference fuel E static to v input gas w). Qed.

(* the model's jump-destination analysis (a scan with a skip counter; the Go code uses a bit vector) decides exactly D(c) *)
Theorem jumpdest_analysis_matches_spec cx d : c_codelen cx = zlen (c_code cx) -> zlen (c_code cx) < W64 -> 0 <= d ->
  valid_jumpdest cx d = true <-> R_valid_dest (c_code cx) d.
Proof. exact (valid_jumpdest_ref cx d). Qed.

(* 7. the mechanism behind Snapshot / RevertToSnapshot as coded (Journal.v: stackedmap levels, statedb's stateRevKey entry,
      the state's own stacked map): a failed frame — whatever it and its nested frames, failed or not, wrote — leaves both
      stacked maps exactly as at its snapshot (plus the stateRevKey entry in the repo's old top level), hence every Get and
      the journal of logs / transfers answer as before; and no frame ever touches the levels below its snapshot *)
Theorem revert_to_snapshot_restores body s : d_state s <> [] -> d_repo s <> [] ->
  run_act (A_frame body true) s = mkSdb (d_state s) (put (d_repo s) SRK (Z.of_nat (depth (d_state s)))).
Proof. exact (proj2 (all_acts_good (A_frame body true)) body eq_refl s). Qed.

Theorem frame_keeps_lower_levels a s bst brepo : above s bst brepo -> above (run_act a s) bst brepo.
Proof. exact (proj1 (all_acts_good a) s bst brepo). Qed.

Theorem failed_frame_restores_reads body s src : d_state s <> [] -> d_repo s <> [] ->
  let s' := run_act (A_frame body true) s in
  d_state s' = d_state s /\
  (forall k, get src (d_state s') k = get src (d_state s) k) /\
  journal (d_state s') = journal (d_state s) /\
  (forall k, k <> SRK -> get src (d_repo s') k = get src (d_repo s) k) /\
  (forall k, k <> SRK -> filter (fun e => fst e =? k) (journal (d_repo s')) = filter (fun e => fst e =? k) (journal (d_repo s))).
Proof. exact (ProofsJournal.failed_frame_restores_reads body s src). Qed.

(* ---------------------------------------------------------------- non-vacuity *)
(* A (address 10): SSTORE(0,1); CALL B with all gas; INVALID.   B (address 11): SSTORE(1,7); STOP. *)
Definition exA : list Z := [96;1;95;85; 95;95;95;95;95;96;11;90;241; 254].
Definition exA_ok : list Z := [96;1;95;85; 95;95;95;95;95;96;11;90;241; 0].
Definition exB : list Z := [96;7;96;1;85;0].
Definition exE : env := mkEnv 99 1 0 0 1 0 1000000 0 0 [500; 501] [([], 77)] 42 3.
Definition exW (a : list Z) : world :=
  mkWorld [(10, mkAcc 5 a false); (11, mkAcc 0 exB false); (99, mkAcc 1000 [] false)] [(10, 5, 3)] [] 0 [] [].

Example words_exist : in_word 0 /\ in_word (W - 1) /\ i_alu A_SAR 4 (W - 16) 0 = W - 1 /\ i_alu A_SDIV HALF (W - 1) 0 = HALF.
Proof. vm_compute. repeat split; try reflexivity; try (intros; discriminate). Qed.

(* the hypotheses of 2 hold for a run with a nested call that returns data (A2 calls B2 with all gas; gas 1500 < fuel 1600) *)
Definition exA2 : list Z := [96;1;95;82; 96;32;95;95;95;95;96;11;90;241; 95;81;0].
Definition exB2 : list Z := [96;7;95;82;96;32;95;243].
Example terminates_nonvacuous :
  let w := mkWorld [(10, mkAcc 0 exA2 false); (11, mkAcc 0 exB2 false)] [] [] 0 [] [] in
  let r := call_top 1600 exE false 10 0 [] 1500 w in
  0 <= 1500 < Z.of_nat 1600 /\ r_out r = O_ok /\ 0 < r_gas r < 1500.
Proof. vm_compute. repeat split; try reflexivity; try (intros; discriminate). Qed.

(* nested calls, value transfer and writes really happen: the successful variant ends with three storage bindings and the
   3 wei sent along with the entry call have moved from the origin (99) to A (10) *)
Example writes_happen :
  let r := call_top 200 exE false 10 3 [] 100000 (exW exA_ok) in
  r_out r = O_ok /\ length (w_store (r_world r)) = 3%nat /\ balance (r_world r) 10 = 8 /\ balance (r_world r) 99 = 997.
Proof. vm_compute. repeat split; reflexivity. Qed.

(* a frame that fails AFTER receiving value, its own write and a successful nested writer: world is the entry world *)
Example failed_nonvacuous :
  let r := call_top 200 exE false 10 3 [] 100000 (exW exA) in
  r_out r = O_err E_invalid /\ r_world r = exW exA.
Proof. vm_compute. split; reflexivity. Qed.

(* CREATE whose init code writes, then fails (INVALID): creation reports failure, master flag / log / write are gone.
   C (address 10): MSTORE8(0, 0xfe) ... init code = [PUSH1 1, PUSH0, SSTORE, INVALID] stored via MSTORE; CREATE(0, 27, 5) *)
Example failed_creation_nonvacuous :
  let init := [96;1;95;85;254] in
  let r := do_create (run 100 exE) exE 10 false 1 500 init 0 60000 (exW exA) 0 in
  r_out r = O_err E_invalid /\ r_world r = exW exA /\ r_cc r = 1.
Proof. vm_compute. repeat split; reflexivity. Qed.

(* the jump table depends on the fork: PUSH0 and SHL are invalid opcodes before GALACTICA / ETH_CONST *)
Example fork_tables_nonvacuous :
  let E2 := mkEnv 99 1 0 0 1 0 1000000 0 0 [] [] 42 2 in
  let E0 := mkEnv 99 1 0 0 1 0 1000000 0 0 [] [] 42 0 in
  let w c := mkWorld [(10, mkAcc 0 c false)] [] [] 0 [] [] in
  r_out (call_top 50 E2 false 10 0 [] 1000 (w [95; 0])) = O_err E_invalid /\
  r_out (call_top 50 exE false 10 0 [] 1000 (w [95; 0])) = O_ok /\
  r_out (call_top 50 E0 false 10 0 [] 1000 (w [96; 1; 96; 1; 27; 0])) = O_err E_invalid /\
  r_out (call_top 50 E2 false 10 0 [] 1000 (w [96; 1; 96; 1; 27; 0])) = O_ok.
Proof. vm_compute. repeat split; reflexivity. Qed.

(* a program entirely inside the fragment (SSTORE, ADD, MSTORE, a taken JUMPI over an INVALID, RETURN): the hypotheses of 6
   hold, no byte of it decodes outside the fragment, so the reference run ends in RR_done with the model's result *)
Definition exF : list Z := [96;7;96;1;85; 96;2;96;3;1; 95;82; 96;1;96;18;87; 254; 91; 96;31;96;1;243].
Example refinement_nonvacuous :
  let cx := mkCtx 10 99 0 exF (zlen exF) [] false 1 in
  let s0 := mkSt 0 [] [] 0 100000 [] (exW exF) 0 in
  cwf cx /\ rinv s0 /\ r_out (run 100 exE cx s0) = O_ok /\ r_data (run 100 exE cx s0) = dropz 1 (word_bytes 5) /\
  forallb (fun b => match decode_at 3 b with Some i => in_fragment i | None => true end) (0 :: exF) = true.
Proof.
  cbv zeta. split. { split; vm_compute; reflexivity. }
  split. { apply initial_rinv. vm_compute. discriminate. }
  vm_compute. repeat split; reflexivity.
Qed.

(* a Solidity-dispatcher-like prologue is inside the fragment now: CALLVALUE ISZERO JUMPI(ok) REVERT | JUMPDEST CALLDATASIZE
   PUSH0 CALLDATALOAD CALLER ... : every byte decodes inside the fragment, the run ends ok, and the entry-call lift applies *)
Definition exD : list Z := [52;21;96;8;87; 95;95;253; 91; 54;95;53;51;1;1; 95;82; 96;31;96;1;243].
Example dispatcher_inside_fragment :
  let w := mkWorld [(10, mkAcc 0 exD false); (99, mkAcc 5 [] false)] [] [] 0 [] [] in
  forallb (fun b => match decode_at 3 b with Some i => in_fragment i | None => true end) (0 :: exD) = true /\
  r_out (call_top 100 exE false 10 0 [1;2;3] 50000 w) = O_ok /\
  precompile exE 10 = false /\ code_of (transfer w 99 10 0) 10 <> [] /\ zlen exD < W64.
Proof. vm_compute. repeat split; try reflexivity; discriminate. Qed.

(* alu_step_matches_math and frame_terminates_within_gas: their hypotheses hold in a concrete running frame *)
Example alu_step_nonvacuous :
  let s := mkSt 9 [W - 1; 2; 7] [] 0 50 [] (exW exF) 0 in
  stack_ok (s_stack s) /\ inv s /\ s_gas s < Z.of_nat 60 /\
  exec_plain exE (mkCtx 10 99 0 exF (zlen exF) [] false 1) (I_ALU A_ADD) s = next s [1; 7].
Proof.
  cbv zeta. cbn [s_stack s_gas s_msize].
  assert (Hst : stack_ok [W - 1; 2; 7]).
  { assert (iw : forall v, (0 <=? v) = true -> (v <? W) = true -> in_word v).
    { intros v A B. split; [apply Z.leb_le, A|apply Z.ltb_lt, B]. }
    constructor; [apply iw; reflexivity|]. constructor; [apply iw; reflexivity|]. constructor; [apply iw; reflexivity|constructor]. }
  split; [exact Hst|]. split; [unfold inv; cbn; repeat split; [exact Hst|lia|lia]|]. split; [reflexivity|]. vm_compute. reflexivity.
Qed.

(* the journal mechanism on a concrete history: an outer failed frame containing a successful inner frame and a failed one *)
Example journal_nonvacuous :
  let s := mkSdb [[(1, 10)]] [[(7, 70)]] in
  let body := [A_state 1 11; A_repo 8 80; A_frame [A_state 2 22; A_repo 7 71] false; A_frame [A_state 1 99] true; A_state 3 33] in
  d_state (run_act (A_frame body false) s) <> d_state s /\
  get (fun _ => None) (d_state (run_act (A_frame body false) s)) 1 = Some 11 /\
  d_state (run_act (A_frame body true) s) = d_state s /\
  get (fun _ => None) (d_repo (run_act (A_frame body true) s)) 7 = Some 70.
Proof. vm_compute. repeat split; try reflexivity. discriminate. Qed.

(* STATICCALL from a non-static parent: the callee (a writer) fails with the write-protection error, the parent continues *)
Example staticcall_nonvacuous :
  let callerc := [95;95;95;95;96;11;90;250; 80; 96;9;95;85; 0] in       (* STATICCALL B; POP; SSTORE(0, 9) *)
  let w := mkWorld [(10, mkAcc 0 callerc false); (11, mkAcc 0 exB false)] [] [] 0 [] [] in
  let r := call_top 300 exE false 10 0 [] 2000000 w in
  r_out r = O_ok /\ sload (r_world r) 11 1 = 0 /\ sload (r_world r) 10 0 = 9.
Proof. vm_compute. repeat split; reflexivity. Qed.

(* under static the same program stops at its first SSTORE with the write-protection error *)
Example static_nonvacuous :
  r_out (call_top 200 exE true 10 0 [] 100000 (exW exA_ok)) = O_err E_write.
Proof. vm_compute. reflexivity. Qed.

Print Assumptions alu_matches_math.
Print Assumptions alu_step_matches_math.
Print Assumptions run_terminates_within_gas.
Print Assumptions frame_terminates_within_gas.
Print Assumptions fuel_irrelevant.
Print Assumptions failed_frame_no_effect.
Print Assumptions failed_nested_frame_no_effect.
Print Assumptions failed_creation_no_effect.
Print Assumptions mem_gas_matches_spec.
Print Assumptions mem_cost_monotone.
Print Assumptions expansion_cost_additive.
Print Assumptions call_gas_matches_spec.
Print Assumptions call_gas_unaffordable.
Print Assumptions call_step_affordable.
Print Assumptions frame_entry_invariants.
Print Assumptions run_refines_reference.
Print Assumptions outside_names_the_instruction.
Print Assumptions call_top_refines_reference.
Print Assumptions jumpdest_analysis_matches_spec.
Print Assumptions revert_to_snapshot_restores.
Print Assumptions frame_keeps_lower_levels.
Print Assumptions failed_frame_restores_reads.
Print Assumptions static_no_write.
Print Assumptions static_frame_no_write.
Print Assumptions staticcall_no_write.

(* ================================================================ composition *)
(* C10 <-> C07 (EVM/ProofsRefund.v, Compose/EvmOracle.v).  Property C07 models the transaction wrapper over an ABSTRACT clause
   oracle and assumes of it only TxExec.Proofs.oracle_ok: for gas >= 0 a clause hands back 0 <= left <= gas and a refund
   counter >= 0.  For this interpreter model, driven the way runtime.PrepareClause drives the EVM (fresh statedb per clause,
   call_top for a clause with a recipient, do_create at depth 0 / creation counter 0 for a creation, fuel gas+1), that premise is
   a theorem: the gas half is 2 above (run_terminates_within_gas; do_create_gas for a top-level creation); the refund half
   needs a fact not stated so far — the refund counter never decreases along a run, at any depth, whatever the outcome: only
   gasSStore (+15000, clearing a slot) and gasSuicide (+24000) add to it, no instruction body touches it, and a frame that does
   not end successfully returns its entry world (3 above). *)
From Verif Require EVM.ProofsRefund TxExec.Model TxExec.Proofs Compose.EvmOracle.

Theorem refund_counter_monotone fuel E cx s : w_refund (s_world s) <= w_refund (r_world (run fuel E cx s)).
Proof. exact (ProofsRefund.run_refund fuel E cx s). Qed.

Theorem entry_call_refund_monotone fuel E static to v input gas w :
  w_refund w <= w_refund (r_world (call_top fuel E static to v input gas w)).
Proof. exact (ProofsRefund.call_top_refund fuel E static to v input gas w). Qed.

Theorem nested_frame_refund_monotone fuel E self cs vs static d k to v args gas w cc :
  w_refund w <= w_refund (r_world (do_call (run fuel E) E self cs vs static d k to v args gas w cc)).
Proof. exact (ProofsRefund.frame_refund fuel E self cs vs static d k to v args gas w cc). Qed.

Theorem creation_refund_monotone fuel E self static d addr init v gas w cc :
  w_refund w <= w_refund (r_world (do_create (run fuel E) E self static d addr init v gas w cc)).
Proof. exact (ProofsRefund.create_refund fuel E self static d addr init v gas w cc). Qed.

(* what C07 assumes about the EVM, for the clause oracle induced by this model (every way of reading the EVM environment /
   accounts view / input bytes off C07's state and of writing the result back) *)
Theorem c07_oracle_premise_holds (Wd Od : Type)
        (evm_env : TxExec.Model.env -> TxExec.Model.txn -> nat -> TxExec.Model.state Wd -> env)
        (world_of : TxExec.Model.state Wd -> world) (input_of : TxExec.Model.txn -> nat -> list Z)
        (world_back : TxExec.Model.state Wd -> world -> Wd) (ops_of : fres -> list Verif.Ledger.Model.op) (out_of : fres -> Od) :
  TxExec.Proofs.oracle_ok Wd Od (EvmOracle.evm_clause_result Wd Od evm_env world_of input_of world_back ops_of out_of).
Proof. exact (EvmOracle.evm_oracle_ok Wd Od evm_env world_of input_of world_back ops_of out_of). Qed.

(* non-vacuity: the counter really moves — contract 10 clears slot 5 (PUSH0; PUSH1 5; SSTORE; STOP): 0 -> 15000; the same call
   into the failing variant (… INVALID) hands the entry world back, counter 0 *)
Example refund_nonvacuous :
  let w c := mkWorld [(10, mkAcc 0 c false)] [(10, 5, 3)] [] 0 [] [] in
  w_refund (r_world (call_top 100 exE false 10 0 [] 10000 (w [95; 96; 5; 85; 0]))) = 15000 /\
  r_out (call_top 100 exE false 10 0 [] 10000 (w [95; 96; 5; 85; 254])) = O_err E_invalid /\
  w_refund (r_world (call_top 100 exE false 10 0 [] 10000 (w [95; 96; 5; 85; 254]))) = 0.
Proof. vm_compute. repeat split; reflexivity. Qed.

Print Assumptions refund_counter_monotone.
Print Assumptions entry_call_refund_monotone.
Print Assumptions nested_frame_refund_monotone.
Print Assumptions creation_refund_monotone.
Print Assumptions c07_oracle_premise_holds.
Print Assumptions refund_nonvacuous.
