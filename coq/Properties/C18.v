(* Properties/C18.v — statements only.  "The pool's bookkeeping never drifts; the published executables are in
   non-increasing priority-price order" over the model of txpool/tx_object_map.go + the publishing loop of wash. *)
From Coq Require Import List NArith ZArith Bool Lia Sorted.
From Verif Require Import Common.Util TxPool.Model TxPool.Proofs TxPool.ModelWash TxPool.ProofsWash
  TxPool.ModelAdmission TxPool.ProofsAdmission TxPool.Compose.
From Verif Require Common.GoInt Gen.PoolSync GenProofs.PoolSyncProofs.
Import ListNotations.
Open Scope N_scope.

(* 1. bookkeeping_inv: after EVERY sequence of atomic steps (every linearisation of concurrent
      Add/AddLocal/StrictlyAdd (SAdd), Remove and wash evictions (SRemove), wash promotions (SPromote), Fill (SFill),
      pricing publications (SSetPricing)), with arbitrary arguments.  Pooled objects have an identity (oid) distinct
      from the tx hash; SPromote / SSetPricing carry the identity of the object wash captured when it started, so the
      step list also covers "the tx was removed and submitted again while the wash was running" (finding F12: before
      the repair in /repo promote tested presence by hash only — see bookkeeping_unguarded_refuted below):
        - no two pooled objects share a hash,
        - quota a = #objects with origin a + #objects with delegator a, and the entry is ABSENT exactly when that is 0,
        - pending cost of p = sum of the cost of the executable objects paid by p. *)
Theorem bookkeeping_inv (steps : list step) :
  let p := run steps in
  NoDup (map hash (objs p)) /\
  (forall a, quota p a = if quota_of (objs p) a =? 0 then None else Some (quota_of (objs p) a)) /\
  (forall a, aget (cost p) a = cost_of (objs p) a).
Proof. exact (bookkeeping_inv_thm steps). Qed.

(* finding F12 (repaired in /repo by "fix: txpool promote must act on the pooled object itself"): with promote as it
   was — presence by hash, then the CAPTURED object is marked and its cost added — the invariant is refuted by the
   schedule Fill A; wash captures A and prices it; Remove; Add the same tx again (object B, cost counted); wash promotes
   A: the payer's pending cost is twice what the pool implies and the residue stays after the tx has left. *)
Theorem bookkeeping_unguarded_refuted :
  exists (p : pool) (a : txobj),
    inv p /\ ~ inv (fst (promote_unguarded p a)) /\
    aget (cost (fst (remove_by_hash (fst (promote_unguarded p a)) (hash a)))) 10 = 100 /\
    objs (fst (remove_by_hash (fst (promote_unguarded p a)) (hash a))) = [].
Proof.
  exists f12_pool, f12_A. destruct f12_refutes_unguarded as [A [B [_ [_ C]]]].
  split; [exact A|]. split; [exact B|]. split; [exact C|]. vm_compute. reflexivity.
Qed.

(* on every pool where the captured object is still the pooled one the two promotes coincide: the repair changes
   nothing else *)
Theorem promote_unguarded_differs_only_when_stale p a :
  (forall o, find_obj (hash a) (objs p) = Some o -> oid o = oid a) ->
  promote_unguarded p a = promote p (hash a) (oid a).
Proof. exact (promote_unguarded_same p a). Qed.

(* no lock-out: once an account's transactions have left the pool its slot entry is gone *)
Theorem no_lockout steps a : quota_of (objs (run steps)) a = 0 -> quota (run steps) a = None.
Proof. exact (Proofs.no_lockout steps a). Qed.

(* no residue: an empty pool has empty accounting, whatever happened before *)
Theorem empty_pool_clean steps :
  objs (run steps) = [] -> forall a, quota (run steps) a = None /\ aget (cost (run steps)) a = 0.
Proof. exact (Proofs.empty_pool_clean steps). Qed.

(* the executable property oracle used on the implementation's maps is implied by the invariant *)
Theorem holds_everywhere steps a : holds_at (run steps) a = true.
Proof. apply inv_holds_at. apply bookkeeping_inv_thm. Qed.

(* 2. executables_sorted: the list wash publishes (sorted candidates, minus the ones dropped in the promotion loop)
      is non-increasing in priority price, for every pool state, energy table and candidate set *)
Theorem executables_sorted p energy l :
  StronglySorted (fun a b => pgp_of b <= pgp_of a) (snd (fst (publish p energy (sort_desc l)))).
Proof. exact (executables_sorted_thm p energy l). Qed.

(* the promotion loop of wash preserves the bookkeeping invariant (it only acts through promote) *)
Theorem wash_publish_keeps_inv p energy cands : inv p -> inv (fst (fst (publish p energy cands))).
Proof. exact (publish_inv energy cands p). Qed.

(* 3. the WHOLE wash (TxPool/ModelWash.v: blocked / out of lifetime / Evaluate verdicts, pricing publication and
      refresh, sort, the three over-limit cases, promotion loop, eviction) over arbitrary per-object verdicts:
      it preserves the bookkeeping invariant ... *)
Theorem wash_keeps_inv env p : inv p -> inv (wr_pool (wash env p)).
Proof. exact (wash_inv env p). Qed.

(* ... drop_reasons: whatever it removes carries one of the listed reasons and the reason is TRUE of the pooled
      object: blocked; remote and out of lifetime; Evaluate error (class c: expired, settled = known tx, dependency
      reverted, unpayable = BuyGas failure, or not includable: gas above the block gas limit / block ref beyond the
      5-minute schedule / unsupported type or feature — see ModelAdmission.ev_err); displaced under one of the three
      documented limits (only remote txs); payer cannot cover pending + cost at promotion ... *)
Theorem drop_reasons env p h r :
  In (h, r) (wr_removed (wash env p)) ->
  exists o, In o (objs p) /\ hash o = h /\
    let a := run_phase1 env p in
    let ne := length (p1_exec a) in let nn := length (p1_nonexec a) in let limit := w_limit env in
    match r with
    | RBlocked => w_blocked env o = true
    | ROutlived => local_ o = false /\ w_outlived env o = true
    | REvalErr c => w_eval env o = EvErr c
    | RLimitNonExecAll => local_ o = false /\ w_eval env o = EvNo /\ (limit < ne)%nat
    | RLimitExecTail => local_ o = false /\ (exists pr, w_eval env o = EvYes pr) /\ (limit < ne)%nat
    | RLimitTotal => local_ o = false /\ w_eval env o = EvNo /\ (ne <= limit < ne + nn)%nat
    | RLimitNonExec => local_ o = false /\ w_eval env o = EvNo /\ (ne + nn <= limit)%nat /\ (Nat.div (limit * 2) 10 < nn)%nat
    | RUnpayable => executable o = false /\ exists pr, w_eval env o = EvYes pr
    end.
Proof. exact (drop_reasons_thm env p h r). Qed.

(* ... and nothing leaves the pool in a wash without being in that list *)
Theorem wash_only_removes_listed env p o :
  In o (objs p) ->
  In (hash o) (map hash (objs (wr_pool (wash env p)))) \/ In (hash o) (map fst (wr_removed (wash env p))).
Proof. exact (ProofsWash.wash_only_removes_listed env p o). Qed.

(* what wash publishes is in non-increasing priority price order, was evaluated executable on this head, is not blocked *)
Theorem wash_published_sorted env p :
  StronglySorted (fun a b => pgp_of b <= pgp_of a) (wr_published (wash env p)).
Proof. exact (ProofsWash.wash_published_sorted env p). Qed.

Theorem published_were_evaluated env p o' :
  In o' (wr_published (wash env p)) ->
  exists o, In o (objs p) /\ hash o' = hash o /\ w_blocked env o = false /\ exists pr, w_eval env o = EvYes pr.
Proof. exact (ProofsWash.published_were_evaluated env p o'). Qed.

(* 3b. evaluate_implies_adopt.  TxObject.Evaluate (txpool/tx_object.go) and Flow.Adopt (packer/flow.go) transcribed
      clause by clause over the same abstract head (TxPool/ModelAdmission.v).  If the pool evaluates a pooled tx
      executable on head h (and holds it: chain tag and delegator checked at admission, not blocked), then Adopt on ANY
      flow over the same head answers "adopted" or exactly one of the enumerated differences:
        - bad tx "effective priority fee too low": only with the packer option --min-tx-priority-fee set above the fee;
        - bad tx from execution: only if, on the FLOW's state and time, the payer can no longer buy the gas
          (state consumed by an earlier tx of the block);
        - not adoptable now / gas limit reached: only for lack of block space (this includes a new-block gas limit
          below the head's, which Evaluate compares against);
        - not adoptable now "gas price below base fee": only if the flow's state changed the fee parameters;
        - known tx: only if an earlier tx of this flow has the same id;
        - not adoptable forever: only if the dependency was re-executed and reverted inside this flow.
      No other bad-tx class (blocked, features, chain tag, expired, type) and no "block ref ahead" / "dependency
      missing" answer is possible. *)
Theorem evaluate_implies_adopt (St : Type) fee_ok energy_ok eff_priority_fee interval_30 h s (f : flowv St) t :
  evaluate St fee_ok energy_ok interval_30 h s t = VExecutable -> pool_static t = true ->
  match adopt St fee_ok energy_ok eff_priority_fee h f t with
  | AOk => True
  | ABad BPriorityFeeTooLow =>
      0 < f_min_priority_fee St f /\ eff_priority_fee (f_state St f) t < f_min_priority_fee St f
  | ABad BExecFailed => fee_ok (f_state St f) t && energy_ok (f_state St f) (f_time St f) t = false
  | ABad _ => False
  | ANotNow NBlockSpace | AGasLimitReached => f_gas_limit St f < f_gas_used St f + t_gas t
  | ANotNow NFeeBelowBaseFee => fee_ok (f_state St f) t = false
  | ANotNow NBlockRefAhead => False
  | ANotNow NDepMissing => False
  | AKnownTx => f_processed St f (t_id t) <> None
  | ANotForever => exists d, t_dep t = Some d /\ f_processed St f d = Some true
  end.
Proof. exact (evaluate_implies_adopt_thm St fee_ok energy_ok eff_priority_fee interval_30 h s f t). Qed.

(* on a fresh flow (head state, nothing adopted yet, block time not before the pool's evaluation time, energy not
   shrinking with time, priority-fee option off or met, tx gas within the new block's limit) the tx IS adopted *)
Theorem fresh_flow_adopts (St : Type) fee_ok energy_ok eff_priority_fee interval_30 h s (f : flowv St) t :
  evaluate St fee_ok energy_ok interval_30 h s t = VExecutable -> pool_static t = true ->
  f_state St f = s -> (forall i, f_processed St f i = None) -> f_gas_used St f = 0 ->
  h_next_time h <= f_time St f ->
  (forall tm tm', tm <= tm' -> energy_ok s tm t = true -> energy_ok s tm' t = true) ->
  (f_min_priority_fee St f = 0 \/ f_min_priority_fee St f <= eff_priority_fee s t) ->
  t_gas t <= f_gas_limit St f ->
  adopt St fee_ok energy_ok eff_priority_fee h f t = AOk.
Proof. exact (ProofsAdmission.fresh_flow_adopts St fee_ok energy_ok eff_priority_fee interval_30 h s f t). Qed.

(* 3c. the two halves composed: the verdict wash uses for an object is DEFINED as Evaluate of `view o` on the wash's
      head (eval_of; `view : txobj -> txv`, the transaction inside a pooled object, is a parameter: nothing in the model
      ties it to the object's hash/origin — the harness ties both halves to the code separately); then every published executable is adoptable on that head up to the enumerated differences, and an
      Evaluate drop names the clause of Evaluate that failed.  Premise static_ok (a BARE premise: no step of the model establishes it): chain tag / delegator checked at
      admission and "not blocked" re-checked by wash — established by add(), NOT by Fill (Fill only checks the block
      list and resolvability): for Fill'ed transactions it is an assumption on Fill's caller. *)
Theorem wash_published_adoptable (St : Type) fee_ok energy_ok eff_priority_fee interval_30 h s view pricing_of
        blocked outlived refresh energy limit p o' :
  (forall o, In o (objs p) -> blocked o = false -> pool_static (view o) = true) ->
  In o' (wr_published (wash (env_of St fee_ok energy_ok interval_30 h s view pricing_of blocked outlived refresh energy limit) p)) ->
  exists o, In o (objs p) /\ hash o' = hash o /\
    evaluate St fee_ok energy_ok interval_30 h s (view o) = VExecutable /\
    forall f, allowed St fee_ok energy_ok eff_priority_fee h s f (view o)
                      (adopt St fee_ok energy_ok eff_priority_fee h f (view o)).
Proof. exact (Compose.wash_published_adoptable St fee_ok energy_ok eff_priority_fee interval_30 h s view pricing_of
               blocked outlived refresh energy limit p o'). Qed.

Theorem eval_drop_names_clause (St : Type) fee_ok energy_ok interval_30 h s view pricing_of
        blocked outlived refresh energy limit p hh c :
  In (hh, REvalErr c) (wr_removed (wash (env_of St fee_ok energy_ok interval_30 h s view pricing_of blocked outlived refresh energy limit) p)) ->
  exists o e, In o (objs p) /\ hash o = hh /\ c = ev_code e /\
              evaluate St fee_ok energy_ok interval_30 h s (view o) = VErr e.
Proof. exact (Compose.eval_drop_names_clause St fee_ok energy_ok interval_30 h s view pricing_of
               blocked outlived refresh energy limit p hh c). Qed.

(* the executables displaced by the pool limit are the lowest priced ones *)
Theorem limit_displaces_lowest_priced limit l nonexec kept over y :
  apply_limits limit (sort_desc l) nonexec = (kept, over) ->
  In y (skipn limit (sort_desc l)) ->
  forall x, In x kept -> pgp_of y <= pgp_of x.
Proof. exact (Compose.limit_displaces_lowest_priced limit l nonexec kept over y). Qed.

(* ... and inside wash: when the remote executables alone exceed the limit, exactly the tail of the price-sorted list
   is removed with RLimitExecTail, and every victim is priced no higher than every candidate that stays *)
Theorem wash_displaces_lowest_priced env p :
  let a := run_phase1 env p in
  let sorted := sort_desc (p1_exec a) in
  (w_limit env < length (p1_exec a))%nat ->
  forall y, In y (skipn (w_limit env) sorted) ->
    In (hash y, RLimitExecTail) (wr_removed (wash env p)) /\
    forall x, In x (firstn (w_limit env) sorted) -> pgp_of y <= pgp_of x.
Proof. exact (ProofsWash.wash_displaces_lowest_priced env p). Qed.

(* RUnpayable with its energy condition (drop_reasons above only says "was not executable, Evaluate said executable"):
   the candidate had no published pricing, or its payer's energy at the next block time is below pending + cost,
   pending read from the pool q as it stood when the candidate's turn came in the promotion loop *)
Theorem unpayable_energy_reason env p h :
  In (h, RUnpayable) (wr_removed (wash env p)) ->
  exists o' q, hash o' = h /\ executable o' = false /\
    (price o' = None \/
     exists pc, price o' = Some pc /\ w_energy env (payer pc) < aget (cost q) (payer pc) + pcost pc).
Proof. exact (ProofsWash.unpayable_energy_reason env p h). Qed.

(* the error path of wash (legacy base gas price unreadable: cut the pool to the limit) keeps the invariant *)
Theorem wash_error_cut_keeps_inv limit p : inv p -> inv (wash_error_cut limit p).
Proof. exact (Compose.wash_error_cut_keeps_inv limit p). Qed.

(* never over-admitted: without Fill (which skips the per-account check by design) no account ever holds more than
   limit + 1 slots, for every interleaving (limit + 1 only when a tx names its own origin as delegator) *)
Theorem quota_bounded L steps a :
  forallb no_fill steps = true -> forallb (limit_le L) steps = true -> quota_of (objs (run steps)) a <= L + 1.
Proof. exact (Compose.quota_bounded L steps a). Qed.

(* 4. (T) the mode switch of the pool: over the definition GENERATED from txpool/tx_pool.go on every run, the pool
      treats the chain as synced (Add evaluates against the head, housekeeping washes) iff the head's timestamp is
      within 6 block intervals of the clock, in either direction; uint64 inputs, 6*BlockInterval < 2^64. *)
Theorem is_chain_synced_iff (T now blk : Z) :
  (0 <= T * 6 < 18446744073709551616)%Z ->
  (0 <= now < 18446744073709551616)%Z -> (0 <= blk < 18446744073709551616)%Z ->
  (PoolSync.isChainSynced T now blk = true <-> (Z.abs (now - blk) < 6 * T)%Z).
Proof. intro H. exact (PoolSyncProofs.is_chain_synced_iff T H now blk). Qed.

(* ------------------------------------------------------------------ non-vacuity *)
Definition ex_o (h o : N) (d : option N) := mkObj h o d false None h false h.
Definition ex_steps : list step :=
  [ SAdd (ex_o 1 10 None) true (Some (mkPricing 10 500 7)) 16 (fun _ => 100000);
    SAdd (ex_o 2 10 (Some 20)) true (Some (mkPricing 20 300 9)) 16 (fun _ => 100000);
    SAdd (ex_o 3 11 (Some 20)) false None 16 (fun _ => 0);
    SFill [ex_o 4 10 None; ex_o 2 10 (Some 20)];
    SSetPricing 3 3 (mkPricing 20 250 8);
    SPromote 3 3;
    SRemove 1;
    SAdd (ex_o 5 12 None) true (Some (mkPricing 12 99999999 1)) 16 (fun _ => 10) ].

Example bookkeeping_example :
  let p := run ex_steps in
  map hash (objs p) = [4; 3; 2] /\ quota p 10 = Some 2 /\ quota p 20 = Some 2 /\ quota p 11 = Some 1 /\
  quota p 12 = None /\ aget (cost p) 20 = 550 /\ cost p 10 = None.
Proof. vm_compute. repeat split; reflexivity. Qed.

Example sorted_example :
  map hash (snd (fst (publish (run ex_steps) (fun _ => 100000)
                              (sort_desc (objs (run (ex_steps ++ [SSetPricing 4 4 (mkPricing 10 5 8)]))))))) = [2; 4; 3].
Proof. vm_compute. reflexivity. Qed.

(* a wash over the example pool: object 4 blocked, object 2 fails Evaluate (class 2), object 3 stays executable *)
Definition ex_env : wash_env :=
  mkEnv (fun o => hash o =? 4) (fun _ => false)
        (fun o => if hash o =? 2 then EvErr 2 else EvYes None) (fun _ => None) (fun _ => 100000) 10.

Example wash_example :
  let w := wash ex_env (run ex_steps) in
  map hash (objs (wr_pool w)) = [3] /\ map hash (wr_published w) = [3] /\
  wr_removed w = [(2, REvalErr 2); (4, RBlocked)] /\ quota (wr_pool w) 10 = None /\ aget (cost (wr_pool w)) 20 = 250.
Proof. vm_compute. repeat split; reflexivity. Qed.

(* Evaluate says executable, a fresh flow adopts; with 25M gas already used the same tx waits for space *)
Definition ex_tx : txv := mkTx 77 21000 5 100 true false false None true false true false.
Definition ex_head : headv := mkHead 6 40000000 1000 0 0 0 (fun _ _ => false) (fun _ => None).
Example admission_example :
  evaluate unit (fun _ _ => true) (fun _ _ _ => true) 30 ex_head tt ex_tx = VExecutable /\
  adopt unit (fun _ _ => true) (fun _ _ _ => true) (fun _ _ => 0) ex_head (mkFlow unit 0 40000000 1000 tt (fun _ => None) 0) ex_tx = AOk /\
  adopt unit (fun _ _ => true) (fun _ _ _ => true) (fun _ _ => 0) ex_head (mkFlow unit 39990000 40000000 1000 tt (fun _ => None) 0) ex_tx = AGasLimitReached.
Proof. vm_compute. repeat split; reflexivity. Qed.

(* a state-dependent instance: energy suffices on the head state (true) but not after an earlier tx of the block consumed
   it (false): Evaluate says executable, a flow over the consumed state answers bad tx (execution) — the enumerated
   difference — and a flow over the head state adopts *)
Definition ex_energy (st : bool) (_ : N) (_ : txv) : bool := st.
Example admission_state_example :
  evaluate bool (fun _ _ => true) ex_energy 30 ex_head true ex_tx = VExecutable /\
  adopt bool (fun _ _ => true) ex_energy (fun _ _ => 0) ex_head (mkFlow bool 21000 40000000 1000 false (fun i => if i =? 5 then Some false else None) 0) ex_tx = ABad BExecFailed /\
  adopt bool (fun _ _ => true) ex_energy (fun _ _ => 0) ex_head (mkFlow bool 0 40000000 1000 true (fun _ => None) 0) ex_tx = AOk /\
  adopt bool (fun _ _ => true) ex_energy (fun _ _ => 3) ex_head (mkFlow bool 0 40000000 1000 true (fun _ => None) 4) ex_tx = ABad BPriorityFeeTooLow /\
  adopt bool (fun _ _ => true) ex_energy (fun _ _ => 0) ex_head (mkFlow bool 0 40000000 1000 true (fun i => if i =? 77 then Some false else None) 0) ex_tx = AKnownTx.
Proof. vm_compute. repeat split; reflexivity. Qed.

(* quota_bounded / no_lockout / empty_pool_clean applied: three adds under limit 2 by one account (the third is refused),
   then everything removed *)
Definition ex_steps2 : list step :=
  [ SAdd (ex_o 1 10 None) false None 2 (fun _ => 0); SAdd (ex_o 2 10 None) false None 2 (fun _ => 0);
    SAdd (ex_o 3 10 None) false None 2 (fun _ => 0); SRemove 1; SRemove 2 ].
Example quota_example :
  quota_of (objs (run (firstn 3 ex_steps2))) 10 <= 2 + 1 /\ quota (run (firstn 3 ex_steps2)) 10 = Some 2 /\
  quota (run ex_steps2) 10 = None /\ aget (cost (run ex_steps2)) 10 = 0.
Proof.
  split; [apply quota_bounded; reflexivity|]. split; [vm_compute; reflexivity|].
  apply empty_pool_clean. vm_compute. reflexivity.
Qed.

Print Assumptions bookkeeping_inv.
Print Assumptions bookkeeping_unguarded_refuted.
Print Assumptions promote_unguarded_differs_only_when_stale.
Print Assumptions no_lockout.
Print Assumptions empty_pool_clean.
Print Assumptions holds_everywhere.
Print Assumptions executables_sorted.
Print Assumptions wash_publish_keeps_inv.
Print Assumptions wash_keeps_inv.
Print Assumptions drop_reasons.
Print Assumptions wash_only_removes_listed.
Print Assumptions wash_published_sorted.
Print Assumptions published_were_evaluated.
Print Assumptions evaluate_implies_adopt.
Print Assumptions fresh_flow_adopts.
Print Assumptions wash_published_adoptable.
Print Assumptions eval_drop_names_clause.
Print Assumptions limit_displaces_lowest_priced.
Print Assumptions wash_error_cut_keeps_inv.
Print Assumptions quota_bounded.
Print Assumptions wash_displaces_lowest_priced.
Print Assumptions unpayable_energy_reason.
Print Assumptions quota_example.
Print Assumptions is_chain_synced_iff.
