(* Properties/C18.v — statements only.  "The pool's bookkeeping never drifts; the published executables are in
   non-increasing priority-price order" over the model of txpool/tx_object_map.go + the publishing loop of wash. *)
From Coq Require Import List NArith ZArith Bool Lia Sorted.
From Verif Require Import Common.Util TxPool.Model TxPool.Proofs.
From Verif Require Common.GoInt Gen.PoolSync GenProofs.PoolSyncProofs.
Import ListNotations.
Open Scope N_scope.

(* 1. bookkeeping_inv: after EVERY sequence of atomic steps (every linearisation of concurrent
      Add/AddLocal/StrictlyAdd (SAdd), Remove and wash evictions (SRemove), wash promotions (SPromote), Fill (SFill),
      pricing publications (SSetPricing)), with arbitrary arguments:
        - no two pooled objects share a hash,
        - quota a = #objects with origin a + #objects with delegator a, and the entry is ABSENT exactly when that is 0,
        - pending cost of p = sum of the cost of the executable objects paid by p. *)
Theorem bookkeeping_inv (steps : list step) :
  let p := run steps in
  NoDup (map hash (objs p)) /\
  (forall a, quota p a = if quota_of (objs p) a =? 0 then None else Some (quota_of (objs p) a)) /\
  (forall a, aget (cost p) a = cost_of (objs p) a).
Proof. exact (bookkeeping_inv_thm steps). Qed.

(* no lock-out: once an account's transactions have left the pool its slot entry is gone *)
Theorem no_lockout steps a : quota_of (objs (run steps)) a = 0 -> quota (run steps) a = None.
Proof. exact (Proofs.no_lockout steps a). Qed.

(* no residue: an empty pool has empty accounting, whatever happened before *)
Theorem empty_pool_clean steps :
  objs (run steps) = [] -> forall a, quota (run steps) a = None /\ aget (cost (run steps)) a = 0.
Proof. exact (Proofs.empty_pool_clean steps). Qed.

(* the executable property oracle used on the implementation's maps is implied by the invariant *)
Theorem holds_everywhere steps a : holds_at (run steps) a = true.
Proof. apply inv_holds_at. apply bookkeeping_inv_thm. Qed.

(* 2. executables_sorted: the list wash publishes (sorted candidates, minus the ones dropped in the promotion loop)
      is non-increasing in priority price, for every pool state, energy table and candidate set *)
Theorem executables_sorted p energy l :
  StronglySorted (fun a b => pgp_of b <= pgp_of a) (snd (fst (publish p energy (sort_desc l)))).
Proof. exact (executables_sorted_thm p energy l). Qed.

(* the promotion loop of wash preserves the bookkeeping invariant (it only acts through promote) *)
Theorem wash_publish_keeps_inv p energy cands : inv p -> inv (fst (fst (publish p energy cands))).
Proof. exact (publish_inv energy cands p). Qed.

(* 3. drop_reasons — PARTIAL: only the promotion loop of wash is modelled (an object is dropped there only if it
      was not yet executable, i.e. its payer could not cover pending + cost or it had no pricing).  The earlier
      phase (blocked / outlived / Evaluate error / the three over-limit cases) is not modelled (listed as a gap in manifest.d/C18.json). *)
Theorem drop_reasons_partial energy cands p h :
  In h (snd (publish p energy cands)) -> exists o, In o cands /\ hash o = h /\ executable o = false.
Proof. exact (publish_drop_reason energy cands p h). Qed.

(* 4. (T) the mode switch of the pool: over the definition GENERATED from txpool/tx_pool.go on every run, the pool
      treats the chain as synced (Add evaluates against the head, housekeeping washes) iff the head's timestamp is
      within 6 block intervals of the clock, in either direction; uint64 inputs, 6*BlockInterval < 2^64. *)
Theorem is_chain_synced_iff (T now blk : Z) :
  (0 <= T * 6 < 18446744073709551616)%Z ->
  (0 <= now < 18446744073709551616)%Z -> (0 <= blk < 18446744073709551616)%Z ->
  (PoolSync.isChainSynced T now blk = true <-> (Z.abs (now - blk) < 6 * T)%Z).
Proof. intro H. exact (PoolSyncProofs.is_chain_synced_iff T H now blk). Qed.

(* ------------------------------------------------------------------ non-vacuity *)
Definition ex_o (h o : N) (d : option N) := mkObj h o d false None h.
Definition ex_steps : list step :=
  [ SAdd (ex_o 1 10 None) true (Some (mkPricing 10 500 7)) 16 (fun _ => 100000);
    SAdd (ex_o 2 10 (Some 20)) true (Some (mkPricing 20 300 9)) 16 (fun _ => 100000);
    SAdd (ex_o 3 11 (Some 20)) false None 16 (fun _ => 0);
    SFill [ex_o 4 10 None; ex_o 2 10 (Some 20)];
    SSetPricing 3 (mkPricing 20 250 8);
    SPromote 3;
    SRemove 1;
    SAdd (ex_o 5 12 None) true (Some (mkPricing 12 99999999 1)) 16 (fun _ => 10) ].

Example bookkeeping_example :
  let p := run ex_steps in
  map hash (objs p) = [4; 3; 2] /\ quota p 10 = Some 2 /\ quota p 20 = Some 2 /\ quota p 11 = Some 1 /\
  quota p 12 = None /\ aget (cost p) 20 = 550 /\ cost p 10 = None.
Proof. vm_compute. repeat split; reflexivity. Qed.

Example sorted_example :
  map hash (snd (fst (publish (run ex_steps) (fun _ => 100000)
                              (sort_desc (objs (run (ex_steps ++ [SSetPricing 4 (mkPricing 10 5 8)]))))))) = [2; 4; 3].
Proof. vm_compute. reflexivity. Qed.

Print Assumptions bookkeeping_inv.
Print Assumptions no_lockout.
Print Assumptions empty_pool_clean.
Print Assumptions holds_everywhere.
Print Assumptions executables_sorted.
Print Assumptions wash_publish_keeps_inv.
Print Assumptions drop_reasons_partial.
Print Assumptions is_chain_synced_iff.
