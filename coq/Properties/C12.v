(* Properties/C12.v — statements only.  "Committed tries stay readable across versions, restarts and pruning."
   The store model is Store/Model.v (hist / deduped key spaces, reader order, commit, checkpoint, partition delete);
   the logical trie a root resolves to is `open_root`.  That a committed hash is the canonical Merkle-Patricia root
   of the resolved content is C06's trie_canonical (Properties/C06.v), restated here as root_is_mpt. *)
From Coq Require Import List NArith Bool Arith Lia.
From Verif Require Import Trie.Model Trie.Keys Trie.ProofsWf Trie.Theorems Store.Model Store.Proofs Store.ProofsCommit.
Import ListNotations.
Open Scope N_scope.

Section C12.
  Variable V : Type.

  (* committing version v of a trie never changes what any resolvable root (name', v') resolves to — for every
     set of written nodes, every other trie and every other version of the same trie — provided v is fresh for
     that trie (nothing answers for (name, _, v) before the commit: versions are (block number, conflicts), unique) *)
  Theorem commit_preserves_roots f (s : store V) name v es name' v' t :
    (forall p, sget V s name p v = None) ->
    open_root V f s name' v' = Some t ->
    open_root V f (commit V s name v es) name' v' = Some t.
  Proof. exact (commit_preserves_roots_lemma V f s name v es name' v' t). Qed.

  (* a cache that only holds what the store holds (filled from reads and commits) is invisible *)
  Theorem resolve_independent_of_cache f cache (s : store V) name v :
    cache_coherent V cache (sget V s name) ->
    expand V f (cached_get V cache (sget V s name)) [] (SRef v) = open_root V f s name v.
  Proof. intros H. exact (resolve_independent_of_cache_lemma V f cache (sget V s name) [] (SRef v) H). Qed.

  (* ---- what a commit writes (hasher.store, transcribed as Store/Model.v wstore) ----
     A handle holds a working trie n (nodes with dirty/clean flags, references) that is coherent with the store (every
     clean node's blob in the store is its encoding) and denotes the logical trie t.  Trie.Commit(newVer) at a fresh
     version: the root written by hasher.store — standalone nodes are the root, full nodes with a hash (`big`), every
     node when hashes are skipped; short nodes below the root stay embedded; clean subtrees are referenced, not
     rewritten — read back through the store resolves to exactly t, and the handle with its new flags still denotes
     t and is coherent with the new store (so the next commit starts from the same invariant).  For every choice of
     `big` (which full nodes are large enough to be hashed) and both hashed and hash-skipped tries. *)
  Theorem commit_reads_back (s : store V) name newv big skip n t :
    (forall p, sget V s name p newv = None) ->
    Coh V (sget V s name) [] n -> WRes V (sget V s name) [] n t -> is_inner V n ->
    let n' := fst (wstore V big skip newv [] n) in
    let s' := commit V s name newv (snd (wstore V big skip newv [] n)) in
    Res V (sget V s' name) [] (SRef newv) t /\ Coh V (sget V s' name) [] n' /\ WRes V (sget V s' name) [] n' t.
  Proof. exact (commit_reads_back_lemma V s name newv big skip n t). Qed.

  (* the fuel-based open_root and the resolution relation agree *)
  Theorem open_root_resolves f (s : store V) name v t :
    open_root V f s name v = Some t -> Res V (sget V s name) [] (SRef v) t.
  Proof. exact (expand_Res V f (sget V s name) [] (SRef v) t). Qed.

  (* ---- pruning ---- *)
  (* full statement (not proved): after checkpointing root (target-1) of the pruned chain and deleting [base,target),
     every root with major >= target that descends from block target-1 resolves to the same trie *)
  Definition prune_preserves_recent_statement : Prop :=
    forall f (s : store V) cps base target name v t,
      0 < hf V s -> base mod hf V s = 0 -> target mod hf V s = 0 -> target <= fst v ->
      (* cps are the checkpoints of the tries of root (target-1), v descends from it *)
      open_root V f s name v = Some t ->
      open_root V f (prune V s cps base target) name v = Some t.

  (* proved, conditional on the reachability lemma: if every reference followed while resolving a root survives the
     round — its node is stored at a version outside the deleted partitions, or the deduped space holds exactly its
     blob under its path after the checkpoints (and it is not an account/index root) — the root resolves to the
     same trie after checkpoint + delete.  What is NOT proved is that the real checkpoint (iterator over root
     target-1 with the version filter) establishes `survives` for every root >= target descending from block target-1;
     that needs the history of the chain (a node older than target referenced from a later root is the node at that
     path in root target-1). *)
  Theorem prune_preserves_recent_cond (s : store V) cps base target name p n t :
    ResC V (survives V s cps base target name) (sget V s name) p n t ->
    Res V (sget V (prune V s cps base target) name) p n t.
  Proof. exact (prune_preserves_resolution V s cps base target name p n t). Qed.

  (* proved part 1: with an aligned target, every node written at a version >= target is still served from the
     hist space, unchanged (whatever was checkpointed); what is missing for the full statement is the reachability
     lemma "a node with version < target referenced from a root >= target is the node at the same path in
     root (target-1)", which makes the deduped copy the right one *)
  Theorem prune_preserves_recent_partial (s : store V) cps base target name p v :
    0 < hf V s -> target mod hf V s = 0 -> target <= fst v ->
    hist_find V (hist V (prune V s cps base target)) name p v = hist_find V (hist V s) name p v.
  Proof.
    intros Hf Ha Hv. apply prune_keeps_hist_outside. apply aligned_recent_outside; auto.
  Qed.

  (* proved part 2 (never_silently_different for the account and index tries): a root in the deleted partitions
     fails; the deduped space is never consulted for it *)
  Theorem pruned_root_fails_partial (s : store V) cps base target name v :
    root_only name = true -> in_deleted V s base target v = true ->
    sget V (prune V s cps base target) name [] v = None.
  Proof. exact (pruned_root_fails V s cps base target name v). Qed.

  (* the committed hash is the canonical root of the resolved content: two well-formed tries with the same
     content are the same tree (so any hash of the tree is a function of the key/value set) *)
  Theorem root_is_mpt (t1 t2 : node V) :
    wfc V t1 -> wfc V t2 -> (forall k, vkey k -> trie_get V t1 k = trie_get V t2 k) -> t1 = t2.
  Proof. exact (canonical_get V t1 t2). Qed.
End C12.

(* ---- non-vacuity ---- *)
Definition ex_store : store nat :=
  mkStore nat [(0, [], (3, 0), SShort [1%nat; 16%nat] (SValue 7%nat)); (0, [], (2, 0), SFull (repeat SNil 17))] [] 4 None.

Example ex_fresh : forall p, sget nat ex_store 0 p (5, 0) = None.
Proof. intros p. destruct p; reflexivity. Qed.

Example ex_open : open_root nat 5 ex_store 0 (3, 0) = Some (Short [1%nat; 16%nat] (Value 7%nat)).
Proof. vm_compute. reflexivity. Qed.

(* a working trie coherent with ex_store: the root loaded from version (3,0); committing it at the fresh version (5,0) *)
Definition ex_w : wnode nat := WShort [1%nat; 16%nat] (WValue 7%nat) (Clean (3, 0)).
Example ex_coh : Coh nat (sget nat ex_store 0) [] ex_w /\ WRes nat (sget nat ex_store 0) [] ex_w (Short [1%nat; 16%nat] (Value 7%nat)) /\ is_inner nat ex_w.
Proof.
  split; [|split; [|exact I]].
  - constructor; [discriminate|constructor|]. intros v E. inversion E; subst. reflexivity.
  - repeat constructor.
Qed.

Example ex_aligned : 0 < hf nat ex_store /\ 8 mod hf nat ex_store = 0.
Proof. split; vm_compute; reflexivity. Qed.

Example ex_deleted : root_only 0 = true /\ in_deleted nat ex_store 0 4 (3, 0) = true.
Proof. split; vm_compute; reflexivity. Qed.

Print Assumptions commit_preserves_roots.
Print Assumptions resolve_independent_of_cache.
Print Assumptions commit_reads_back.
Print Assumptions open_root_resolves.
Print Assumptions prune_preserves_recent_cond.
Print Assumptions prune_preserves_recent_partial.
Print Assumptions pruned_root_fails_partial.
Print Assumptions root_is_mpt.
