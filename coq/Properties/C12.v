(* Properties/C12.v — statements only.  "Committed tries stay readable across versions, restarts and pruning."
   The store model is Store/Model.v (hist / deduped key spaces, reader order, commit, checkpoint, partition delete);
   the logical trie a root resolves to is `open_root`.  That a committed hash is the canonical Merkle-Patricia root
   of the resolved content is C06's trie_canonical (Properties/C06.v), restated here as root_is_mpt. *)
From Coq Require Import List NArith Bool Arith Lia.
From Verif Require Import Trie.Model Trie.Keys Trie.ProofsWf Trie.Theorems Store.Model Store.Proofs Store.ProofsCommit
  Store.ProofsReach Store.ProofsPrune Store.ProofsLink Store.ProofsTie Store.ExamplesPrune
  Store.WorkTrie Store.ProofsWork Store.ProofsDirty Store.ExamplesWork Store.ProofsCompose Store.ExamplesCompose.
Import ListNotations.
Open Scope N_scope.

Section C12.
  Variable V : Type.

  (* committing version v of a trie never changes what any resolvable root (name', v') resolves to — for every
     set of written nodes, every other trie and every other version of the same trie — provided v is fresh for
     that trie (nothing answers for (name, _, v) before the commit: versions are (block number, conflicts), unique) *)
  (* NOTE on the premise: `sget` falls through to the deduped space, whose key carries no version (and no partition in
     production), so once a pruner round has checkpointed a node of the trie the premise is false for every v
     (Example ex_old_freshness_fails).  This form is the statement for stores that have not been pruned;
     commit_preserves_roots_any below needs no freshness at all and is the one that applies after pruning. *)
  Theorem commit_preserves_roots f (s : store V) name v es name' v' t :
    (forall p, sget V s name p v = None) ->
    open_root V f s name' v' = Some t ->
    open_root V f (commit V s name v es) name' v' = Some t.
  Proof. exact (commit_preserves_roots_lemma V f s name v es name' v' t). Qed.

  (* any store, pruned or not: a commit of (name, v) changes the reader only at version v of trie name; a root that
     follows no node of that version — every root of another trie, every root of this trie whose followed nodes have other
     versions — resolves to the same trie with the same fuel.  (The premise is exact: a root that does follow a node at
     (name, q, v) with q among the written paths reads the new blob.)  On histories the premise holds for every live
     canonical root (live_roots_follow_no_fresh_version below; Example ex_commit_any_premise on a pruned store) and for
     those only: nothing is claimed for dead-fork roots or directly opened pruned storage roots. *)
  Theorem commit_preserves_roots_any f (s : store V) name v es name' v' t :
    open_root V f s name' v' = Some t ->
    name' <> name \/ (forall q w b, Reach V (sget V s name') [] (SRef v') q w b -> w <> v) ->
    open_root V f (commit V s name v es) name' v' = Some t.
  Proof. exact (ProofsLink.commit_preserves_roots_any V f s name v es name' v' t). Qed.

  (* a cache that only holds what the store holds (filled from reads and commits) is invisible *)
  Theorem resolve_independent_of_cache f cache (s : store V) name v :
    cache_coherent V cache (sget V s name) ->
    expand V f (cached_get V cache (sget V s name)) [] (SRef v) = open_root V f s name v.
  Proof. intros H. exact (resolve_independent_of_cache_lemma V f cache (sget V s name) [] (SRef v) H). Qed.

  (* ---- what a commit writes (hasher.store, transcribed as Store/Model.v wstore) ----
     A handle holds a working trie n (nodes with dirty/clean flags, references) that is coherent with the store (every
     clean node's blob in the store is its encoding) and denotes the logical trie t.  Trie.Commit(newVer) at a fresh
     version: the root written by hasher.store — standalone nodes are the root, full nodes with a hash (`big`), every
     node when hashes are skipped; short nodes below the root stay embedded; clean subtrees are referenced, not
     rewritten — read back through the store resolves to exactly t, and the handle with its new flags still denotes
     t and is coherent with the new store (so the next commit starts from the same invariant).  For every choice of
     `big` (which full nodes are large enough to be hashed) and both hashed and hash-skipped tries.
     The freshness premise is the unpruned-store form (see the NOTE at commit_preserves_roots); commit_reads_back_any
     below is the form that also applies to pruned stores. *)
  Theorem commit_reads_back (s : store V) name newv big skip n t :
    (forall p, sget V s name p newv = None) ->
    Coh V (sget V s name) [] n -> WRes V (sget V s name) [] n t -> is_inner V n ->
    let n' := fst (wstore V big skip newv [] n) in
    let s' := commit V s name newv (snd (wstore V big skip newv [] n)) in
    Res V (sget V s' name) [] (SRef newv) t /\ Coh V (sget V s' name) [] n' /\ WRes V (sget V s' name) [] n' t.
  Proof. exact (commit_reads_back_lemma V s name newv big skip n t). Qed.

  (* commit_reads_back for any store, pruned or not (its freshness premise above is false on a pruned store): `Old` is any
     set of stored nodes that contains every clean node and reference of the working trie (WTop), is closed under what
     resolving them follows, resolves, and contains no node of version newv.  Then the committed root reads back, the
     handle stays coherent, and every node the new root follows is an entry of the commit (a well-formed blob) or in Old.
     With Old = the nodes of the head root this is commit_links_to_parent. *)
  Theorem commit_reads_back_any (s : store V) name newv big skip n t (Old : list nat -> ver -> snode V -> Prop) :
    (forall q w b, Old q w b -> w <> newv /\ sget V s name q w = Some b) ->
    (forall q w b q1 w1 b1, Old q w b -> Reach V (sget V s name) q b q1 w1 b1 -> Old q1 w1 b1) ->
    (forall q w b, Old q w b -> exists t', Res V (sget V s name) q b t') ->
    (forall q w r, WTop V [] n q w r -> exists b, Old q w b) ->
    Coh V (sget V s name) [] n -> WRes V (sget V s name) [] n t -> is_inner V n ->
    let es := snd (wstore V big skip newv [] n) in
    let n' := fst (wstore V big skip newv [] n) in
    let g' := sget V (commit V s name newv es) name in
    Res V g' [] (SRef newv) t /\ Coh V g' [] n' /\ WRes V g' [] n' t /\
    (forall q w b, Reach V g' [] (SRef newv) q w b ->
       (w = newv /\ lookup V q es = Some b /\ blob_ok V b) \/ Old q w b).
  Proof. exact (wstore_general V s name newv big skip n t Old). Qed.

  (* the fuel-based open_root and the resolution relation agree *)
  Theorem open_root_resolves f (s : store V) name v t :
    open_root V f s name v = Some t -> Res V (sget V s name) [] (SRef v) t.
  Proof. exact (expand_Res V f (sget V s name) [] (SRef v) t). Qed.

  (* ---- pruning ---- *)
  (* The life of one trie (`History name s chain P`, Store/ProofsLink.v): canonical commits — hasher.store (wstore) at a
     version fresh in the hist space, major above the head's, on a working trie all of whose clean nodes and references
     are nodes of the head root (`derived`: the handle was opened at the head root and edited) —, any other commit (another
     trie; a fork of this one at a fresh version not below the pruned mark P), and pruner rounds [base, target) with
     HistPtnFactor | base, HistPtnFactor | target, P <= base <= target, whose checkpoint of this trie is what the
     version-filtered iterator (iter_nodes, minVer = (base,0)) reports on the newest canonical root below target.
     `chain` lists the live canonical roots, newest first, with the trie each commit denoted; after a round:
     the roots at or above target and — for a storage trie, whose root may be fetched from the deduped space — the
     checkpointed root itself (live_after). *)

  (* prune_preserves_recent, one round: every live root resolves, for every sufficient fuel, to the trie its commit
     denoted both before and after checkpoint + delete *)
  Theorem prune_preserves_recent name (s : store V) newer anchor older P base target cps f nodes v t :
    History V name s (newer ++ anchor :: older) P ->
    P <= base -> base <= target -> base mod hf V s = 0 -> target mod hf V s = 0 ->
    Forall (fun vt => target <= fst (fst vt)) newer -> fst (fst anchor) < target ->
    checkpoint_nodes V f s name (fst anchor) base = Some nodes ->
    cps_for V name cps nodes ->
    In (v, t) (live_after V name newer anchor) ->
    exists f0, forall f', (f0 <= f')%nat ->
      open_root V f' s name v = Some t /\ open_root V f' (prune V s cps base target) name v = Some t.
  Proof. exact (prune_round_preserves_open V name s newer anchor older P base target cps f nodes v t). Qed.

  (* prune_preserves_recent over whole histories (any number of rounds, commits and forks in between): every live
     canonical root resolves to exactly the trie its commit denoted *)
  Theorem prune_preserves_recent_rounds name (s : store V) chain P v t :
    History V name s chain P -> In (v, t) chain ->
    Res V (sget V s name) [] (SRef v) t /\ exists f0, forall f, (f0 <= f)%nat -> open_root V f s name v = Some t.
  Proof.
    intros H I. split; [exact (history_roots_resolve V name s chain P v t H I)|exact (history_roots_open V name s chain P v t H I)].
  Qed.

  (* the invariant behind it (Store/ProofsPrune.v Inv): every live root resolves; the nodes it follows are well-formed
     blobs whose versions do not increase downwards, those at or above P are in the hist space; a node followed from a
     root was written by that root's commit or is followed from its parent *)
  Theorem history_invariant name (s : store V) chain P : History V name s chain P -> Inv V s name chain P.
  Proof. exact (History_Inv V name s chain P). Qed.

  (* the version-filtered iterator (trie/iterator.go with minVer, Store/Model.v iter_nodes): it reports exactly the
     standalone nodes reachable from the start through nodes none of which compares below min *)
  Theorem checkpoint_iterator_spec (g : list nat -> ver -> option (snode V)) min f p n l :
    iter_nodes V f g min p n = Some l ->
    forall q w b, In (q, w, b) l <-> ReachMin V g min p n q w b.
  Proof. exact (iter_nodes_spec V g min f p n l). Qed.

  (* what hasher.store writes links the new root to its parent: a node the new root follows is one of the commit's own
     entries (a well-formed blob) or a node the parent root follows; and the new root reads back — with freshness
     required in the hist space only (valid after pruner rounds, unlike commit_reads_back's premise) *)
  Theorem commit_links_to_parent (s : store V) name chain P newv big skip n t :
    Inv V s name chain P -> hist_fresh V s name newv -> P <= fst newv ->
    match chain with [] => True | vt :: _ => fst (fst vt) < fst newv end ->
    Coh V (sget V s name) [] n -> WRes V (sget V s name) [] n t -> is_inner V n ->
    derived V (sget V s name) chain n ->
    let es := snd (wstore V big skip newv [] n) in
    link_cond V s name chain newv es /\ Res V (sget V (commit V s name newv es) name) [] (SRef newv) t.
  Proof. exact (wstore_links V s name chain P newv big skip n t). Qed.

  (* commit_preserves_roots after pruning (the premise of commit_preserves_roots — the reader is silent at the new
     version — no longer holds once the deduped space answers for a path): any commit of another trie, or of this trie at
     a version fresh in the hist space and not below the pruned mark, keeps the invariant, hence every live root *)
  Theorem commit_preserves_roots_pruned (s : store V) name chain P name' v' es :
    Inv V s name chain P -> name' <> name \/ (hist_fresh V s name v' /\ P <= fst v') ->
    Inv V (commit V s name' v' es) name chain P.
  Proof. exact (Inv_other_commit V s name chain P name' v' es). Qed.

  (* the reader after a round, exactly: hist unless in a deleted partition; else (unless an account/index root) the
     deduped space after the checkpoints; and the condition under which a deduped key answers b after the checkpoints:
     every checkpointed node under that key carries b, and either one does or the key answered b before.  In a history
     the checkpoint writes the node the checkpointed root has at a path, which is the node every later root has there
     whenever that node is older than the target (history_invariant) — that is why overwriting the key is harmless. *)
  Theorem reader_after_round (s : store V) cps base target name q w :
    sget V (prune V s cps base target) name q w =
    match (if in_deleted V s base target w then None else hist_find V (hist V s) name q w) with
    | Some b => Some b
    | None => if is_root q && root_only name then None
              else dedup_find V (dedup V (checkpoints V s cps)) (dptn V s (fst w)) name q
    end.
  Proof. exact (sget_prune V s cps base target name q w). Qed.

  Theorem deduped_key_after_checkpoints cps (s : store V) pt name q b :
    (forall nodes q' w' b', In (name, nodes) cps -> In (q', w', b') nodes -> dptn V s (fst w') = pt -> q' = q -> b' = b) ->
    ((exists nodes w' b', In (name, nodes) cps /\ In (q, w', b') nodes /\ dptn V s (fst w') = pt) \/
     dedup_find V (dedup V s) pt name q = Some b) ->
    dedup_find V (dedup V (checkpoints V s cps)) pt name q = Some b.
  Proof. exact (dedup_find_checkpoints V cps s pt name q b). Qed.

  (* caches: a cache that agrees with the store on the nodes a root follows is invisible for that root; a cache filled
     before a round (coherent with the store then; the real node cache is not flushed by the pruner and may keep deleted
     hist nodes) is invisible for every live root after the round *)
  Theorem cache_invisible_on_followed f (cache g : list nat -> ver -> option (snode V)) p n t :
    expand V f g p n = Some t ->
    (forall q w b b', Reach V g p n q w b -> cache q w = Some b' -> b' = b) ->
    expand V f (cached_get V cache g) p n = Some t.
  Proof. exact (ProofsLink.cache_invisible_on_followed V f cache g p n t). Qed.

  Theorem cache_survives_round name (s : store V) newer anchor older P base target cps f nodes cache v t :
    History V name s (newer ++ anchor :: older) P ->
    P <= base -> base <= target -> base mod hf V s = 0 -> target mod hf V s = 0 ->
    Forall (fun vt => target <= fst (fst vt)) newer -> fst (fst anchor) < target ->
    checkpoint_nodes V f s name (fst anchor) base = Some nodes ->
    cps_for V name cps nodes ->
    cache_coherent V cache (sget V s name) ->
    In (v, t) (live_after V name newer anchor) ->
    Res V (cached_get V cache (sget V (prune V s cps base target) name)) [] (SRef v) t.
  Proof. exact (ProofsLink.cache_survives_round V name s newer anchor older P base target cps f nodes cache v t). Qed.

  (* ---- what the correspondence harness evaluates on the recorded writes of the real code ----
     link_check (extracted; run on the decoded hist puts of every real Trie.Commit of the tie stream) answering 0 is the
     link condition towards the parent root, every entry being followed from the new root; so a checked commit on a state
     satisfying the invariant keeps it.  prune_round (extracted; compared put by put / delete by delete with a real pruner
     round) is the round of the History theorems. *)
  Theorem link_check_sound (veqb : V -> V -> bool) f (s : store V) name newv es parent :
    (forall a b, veqb a b = true -> a = b) ->
    link_check V veqb f s name newv es parent = 0 ->
    (forall q w b, RR V (sget V (commit V s name newv es) name) newv q w b ->
       (w = newv /\ lookup V q es = Some b /\ blob_ok V b) \/
       (w <> newv /\ match parent with Some vp => RR V (sget V s name) vp q w b | None => False end)) /\
    (forall q b, In (q, b) es -> RR V (sget V (commit V s name newv es) name) newv q newv b).
  Proof. intros Hv. exact (ProofsTie.link_check_sound V veqb Hv f s name newv es parent). Qed.

  Theorem checked_commit_keeps_invariant (veqb : V -> V -> bool) f (s : store V) name chain P newv es t :
    (forall a b, veqb a b = true -> a = b) ->
    Inv V s name chain P -> hist_fresh V s name newv -> P <= fst newv ->
    match chain with [] => True | vt :: _ => fst (fst vt) < fst newv end ->
    link_check V veqb f s name newv es (match chain with [] => None | vt :: _ => Some (fst vt) end) = 0 ->
    Res V (sget V (commit V s name newv es) name) [] (SRef newv) t ->
    Inv V (commit V s name newv es) name ((newv, t) :: chain) P.
  Proof. intros Hv. exact (ProofsTie.checked_commit_keeps_invariant V veqb Hv f s name chain P newv es t). Qed.

  Theorem prune_round_is_prune f (s : store V) tries base target s' cps :
    prune_round V f s tries base target = Some (s', cps) ->
    s' = prune V s cps base target /\
    (forall name nodes, In (name, nodes) cps -> exists v, In (name, v) tries /\ checkpoint_nodes V f s name v base = Some nodes).
  Proof. exact (ProofsTie.prune_round_is_prune V f s tries base target s' cps). Qed.

  (* proved, conditional on the reachability lemma: if every reference followed while resolving a root survives the
     round — its node is stored at a version outside the deleted partitions, or the deduped space holds exactly its
     blob under its path after the checkpoints (and it is not an account/index root) — the root resolves to the
     same trie after checkpoint + delete.  (One round from an unpruned store; prune_preserves_recent above discharges
     the premise from the history of the chain and covers repeated rounds.) *)
  Theorem prune_preserves_recent_cond (s : store V) cps base target name p n t :
    ResC V (survives V s cps base target name) (sget V s name) p n t ->
    Res V (sget V (prune V s cps base target) name) p n t.
  Proof. exact (prune_preserves_resolution V s cps base target name p n t). Qed.

  (* with an aligned target, every node written at a version >= target is still served from the hist space,
     unchanged (whatever was checkpointed) *)
  Theorem prune_preserves_recent_partial (s : store V) cps base target name p v :
    0 < hf V s -> target mod hf V s = 0 -> target <= fst v ->
    hist_find V (hist V (prune V s cps base target)) name p v = hist_find V (hist V s) name p v.
  Proof.
    intros Hf Ha Hv. apply prune_keeps_hist_outside. apply aligned_recent_outside; auto.
  Qed.

  (* ---- never silently different ----
     account and index tries: a root in the deleted partitions fails; the deduped space is never consulted for it *)
  Theorem pruned_root_fails_partial (s : store V) cps base target name v :
    root_only name = true -> in_deleted V s base target v = true ->
    sget V (prune V s cps base target) name [] v = None.
  Proof. exact (pruned_root_fails V s cps base target name v). Qed.

  (* ... and it stays failed: neither a further round nor a commit of another trie / version brings it back *)
  Theorem pruned_root_stays_failed_prune (s : store V) cps base target name v :
    root_only name = true -> sget V s name [] v = None -> sget V (prune V s cps base target) name [] v = None.
  Proof. exact (failed_root_prune V s cps base target name v). Qed.
  Theorem pruned_root_stays_failed_commit (s : store V) name' v' es name v :
    sget V s name [] v = None -> name' <> name \/ v <> v' -> sget V (commit V s name' v' es) name [] v = None.
  Proof. exact (failed_root_commit V s name' v' es name v). Qed.

  (* storage below the target: a storage trie is only opened through the account trie of its block; that read fails
     whatever the deduped space holds for the storage trie *)
  Theorem pruned_state_fails_partial f (s : store V) cps base target acc_ver sname sver :
    in_deleted V s base target acc_ver = true ->
    read_through_account V f (prune V s cps base target) acc_ver sname sver = None.
  Proof. exact (pruned_state_fails V f s cps base target acc_ver sname sver). Qed.

  (* the committed hash is the canonical root of the resolved content: two well-formed tries with the same
     content are the same tree (so any hash of the tree is a function of the key/value set) *)
  Theorem root_is_mpt (t1 t2 : node V) :
    wfc V t1 -> wfc V t2 -> (forall k, vkey k -> trie_get V t1 k = trie_get V t2 k) -> t1 = t2.
  Proof. exact (canonical_get V t1 t2). Qed.

  (* ---- scope: every theorem above is PER TRIE (one `name`).  Composition for a state read ----
     One store, the accounts trie (name 0) and a storage trie, each with its own History, pruned by the same round.  If the
     account root is live after the round and the storage root the leaf names is live after the round in the storage
     trie's history (live_after keeps the checkpointed root of a storage trie for this), the read "account root, then
     storage root" answers the same trie before and after.  That the storage root named by a leaf of a live account root is
     a live root of the storage trie's history is a PREMISE (it relates state.go to the store; not derived). *)
  Theorem state_read_preserved (s : store V) sname
      newerA anchorA olderA newerS anchorS olderS P base target cps fA nodesA fS nodesS av at_ sv st :
    History V 0 s (newerA ++ anchorA :: olderA) P ->
    History V sname s (newerS ++ anchorS :: olderS) P ->
    P <= base -> base <= target -> base mod hf V s = 0 -> target mod hf V s = 0 ->
    Forall (fun vt => target <= fst (fst vt)) newerA -> fst (fst anchorA) < target ->
    Forall (fun vt => target <= fst (fst vt)) newerS -> fst (fst anchorS) < target ->
    checkpoint_nodes V fA s 0 (fst anchorA) base = Some nodesA -> cps_for V 0 cps nodesA ->
    checkpoint_nodes V fS s sname (fst anchorS) base = Some nodesS -> cps_for V sname cps nodesS ->
    In (av, at_) (live_after V 0 newerA anchorA) ->
    In (sv, st) (live_after V sname newerS anchorS) ->
    exists f0, forall f, (f0 <= f)%nat ->
      read_through_account V f s av sname sv = Some st /\
      read_through_account V f (prune V s cps base target) av sname sv = Some st.
  Proof.
    exact (ProofsCompose.state_read_preserved V s sname newerA anchorA olderA newerS anchorS olderS P base target cps fA nodesA fS nodesS av at_ sv st).
  Qed.

  (* the executable round gives the checkpoint premise (cps_for) for every trie handed to it once *)
  Theorem prune_round_cps_for f (s : store V) tries base target s' cps name v :
    prune_round V f s tries base target = Some (s', cps) ->
    NoDup (map fst tries) -> In (name, v) tries ->
    exists nodes, checkpoint_nodes V f s name v base = Some nodes /\ cps_for V name cps nodes.
  Proof. exact (ProofsCompose.prune_round_cps_for V f s tries base target s' cps name v). Qed.

  (* the premise of commit_preserves_roots_any for the live canonical roots of a trie: they follow no node of a version
     that is fresh in the hist space and not below the pruned mark.  (For other roots — dead forks, pruned storage roots
     opened directly — nothing is claimed after pruning.) *)
  Theorem live_roots_follow_no_fresh_version (s : store V) name chain P v' :
    Inv V s name chain P -> hist_fresh V s name v' -> P <= fst v' ->
    forall vt, In vt chain -> forall q w b, RR V (sget V s name) (fst vt) q w b -> w <> v'.
  Proof. exact (followed_not_fresh V s name chain P v'). Qed.
End C12.

(* ---- the working-trie side of trie.go (Store/WorkTrie.v: tryGet / insert / delete over trees whose untouched subtrees are
   references loaded lazily through the reader, with dirty flags) and histories given as lists of operations ----
   `Good g Old p n t`: the working trie n at path p denotes t through the reader g, is coherent with it (every clean node's
   blob is its encoding), and every clean node and reference of n is in Old — any set of stored nodes the reader answers,
   closed under what resolving them follows, made of well-formed full / short blobs. *)
Section C12_ops.
  Variable V : Type.
  Variable veqb : V -> V -> bool.
  Hypothesis veqb_sound : forall a b, veqb a b = true -> a = b.

  (* Trie.Update on a handle refines C06's trie_update: it never fails (no MissingNodeError), the new root denotes
     trie_update of what the old one denoted — for every key and every trie, no well-formedness needed —, the handle
     stays coherent, and every clean node / reference of the result is still in Old (created nodes are dirty, retained
     subtrees keep their absolute paths) *)
  Theorem worktrie_update_refines (g : getter V) (Old : list nat -> ver -> snode V -> Prop) w key ov t :
    (forall q w b, Old q w b -> g q w = Some b) ->
    (forall q w b q1 w1 b1, Old q w b -> Reach V g q b q1 w1 b1 -> Old q1 w1 b1) ->
    (forall q w b, Old q w b -> blob_ok V b) ->
    Good V g Old [] w t ->
    exists w', wt_update V veqb g w key ov = Some w' /\ Good V g Old [] w' (trie_update V veqb t key ov).
  Proof. intros H1 H2 H3. exact (wt_update_refines V veqb veqb_sound g Old H1 H2 H3 w key ov t). Qed.

  (* Trie.Get returns C06's trie_get and only replaces references by the (clean) nodes they load *)
  Theorem worktrie_get_refines (g : getter V) (Old : list nat -> ver -> snode V -> Prop) w key t :
    (forall q w b, Old q w b -> g q w = Some b) ->
    (forall q w b q1 w1 b1, Old q w b -> Reach V g q b q1 w1 b1 -> Old q1 w1 b1) ->
    (forall q w b, Old q w b -> blob_ok V b) ->
    Good V g Old [] w t ->
    exists val w', wt_get V g w key = Some (val, w') /\ val = trie_get V t key /\ Good V g Old [] w' t.
  Proof. intros H1 H2 H3. exact (wt_get_refines V g Old H1 H2 H3 w key t). Qed.

  (* the recursion itself, with the dirty flag it reports: w_insert / w_delete answer exactly (dirty, node) of C06's
     insert / delete at every fuel; when nothing changed (`false`) the old node is kept — or, if it was a reference,
     the node it resolved to *)
  Theorem worktrie_insert_refines (g : getter V) (Old : list nat -> ver -> snode V -> Prop) f n p key v t :
    (forall q w b, Old q w b -> g q w = Some b) ->
    (forall q w b q1 w1 b1, Old q w b -> Reach V g q b q1 w1 b1 -> Old q1 w1 b1) ->
    (forall q w b, Old q w b -> blob_ok V b) ->
    Good V g Old p n t ->
    exists d n', w_insert V veqb g f n p key (WValue v) = Some (d, n') /\
      Good V g Old p n' (snd (insert V veqb f t key (Value v))) /\ fst (insert V veqb f t key (Value v)) = d /\
      (d = false -> n' = n \/ exists w, n = WRef w /\ w_resolve_ref V g p w = Some n').
  Proof. intros H1 H2 H3. exact (w_insert_ok V veqb veqb_sound g Old H1 H2 H3 f n p key v t). Qed.

  Theorem worktrie_delete_refines (g : getter V) (Old : list nat -> ver -> snode V -> Prop) f n p key t :
    (forall q w b, Old q w b -> g q w = Some b) ->
    (forall q w b q1 w1 b1, Old q w b -> Reach V g q b q1 w1 b1 -> Old q1 w1 b1) ->
    (forall q w b, Old q w b -> blob_ok V b) ->
    Good V g Old p n t ->
    exists d n', w_delete V g f n p key = Some (d, n') /\
      Good V g Old p n' (snd (delete V f t key)) /\ fst (delete V f t key) = d /\
      (d = true -> not_ref V n') /\
      (d = false -> n' = n \/ exists w, n = WRef w /\ w_resolve_ref V g p w = Some n').
  Proof. intros H1 H2 H3. exact (w_delete_ok V g Old H1 H2 H3 f n p key t). Qed.

  (* `derived` discharged: on any state satisfying the chain invariant, the handle opened at the head root and driven by
     ANY list of reads / updates / deletes exists (no operation fails), denotes what the operations give on the head's
     trie, is coherent with the store, and all its clean nodes and references are nodes of the head root *)
  Theorem handle_derived_from_ops (s : store V) name chain P ops :
    Inv V s name chain P ->
    exists w, wt_run V veqb (sget V s name) ops (head_handle V chain) = Some w /\
      WRes V (sget V s name) [] w (lrun veqb ops (head_trie V chain)) /\ Coh V (sget V s name) [] w /\
      derived V (sget V s name) chain w.
  Proof. intros HI. exact (handle_from_ops V veqb veqb_sound s name chain P HI ops). Qed.

  (* the canonical commit step with its working-trie premises (Coh, WRes, is_inner, derived) gone: operations on valid
     keys that leave a non-empty trie, then Trie.Commit (root resolved, hasher.store) — commit_ops computes the store *)
  Theorem ops_commit_step name (s : store V) chain P newv big skip ops :
    History V name s chain P -> all_wfc V chain ->
    hist_fresh V s name newv -> P <= fst newv ->
    match chain with [] => True | vt :: _ => fst (fst vt) < fst newv end ->
    Forall (hop_valid V) ops -> lrun veqb ops (head_trie V chain) <> Nil ->
    History V name (commit_ops V veqb s name chain newv big skip ops)
            ((newv, lrun veqb ops (head_trie V chain)) :: chain) P /\
    wfc V (lrun veqb ops (head_trie V chain)).
  Proof. exact (commit_ops_step V veqb veqb_sound name s chain P newv big skip ops). Qed.

  (* OpsHistory: History with every canonical commit given by its operation list (no hypothesis about a working trie):
     it is a History, and every trie of its chain is well-formed *)
  Theorem ops_history_is_history name (s : store V) chain P :
    OpsHistory V veqb name s chain P -> History V name s chain P /\ all_wfc V chain.
  Proof. exact (ops_history_sound V veqb veqb_sound name s chain P). Qed.

  (* prune_preserves_recent_rounds over histories given as operation lists *)
  Theorem prune_preserves_recent_rounds_from_ops name (s : store V) chain P v t :
    OpsHistory V veqb name s chain P -> In (v, t) chain ->
    Res V (sget V s name) [] (SRef v) t /\
    (exists f0, forall f, (f0 <= f)%nat -> open_root V f s name v = Some t) /\ wfc V t.
  Proof. exact (ops_history_roots_open V veqb veqb_sound name s chain P v t). Qed.

  Theorem prune_preserves_recent_from_ops name (s : store V) newer anchor older P base target cps f nodes v t :
    OpsHistory V veqb name s (newer ++ anchor :: older) P ->
    P <= base -> base <= target -> base mod hf V s = 0 -> target mod hf V s = 0 ->
    Forall (fun vt => target <= fst (fst vt)) newer -> fst (fst anchor) < target ->
    checkpoint_nodes V f s name (fst anchor) base = Some nodes ->
    cps_for V name cps nodes ->
    In (v, t) (live_after V name newer anchor) ->
    exists f0, forall f', (f0 <= f')%nat ->
      open_root V f' s name v = Some t /\ open_root V f' (prune V s cps base target) name v = Some t.
  Proof. exact (ops_prune_round_preserves V veqb veqb_sound name s newer anchor older P base target cps f nodes v t). Qed.

  (* root_is_mpt with its wfc premises discharged from the histories: two live roots with the same content resolve to
     the same tree *)
  Theorem root_is_mpt_from_ops name (s : store V) chain P v t name' (s' : store V) chain' P' v' t' :
    OpsHistory V veqb name s chain P -> In (v, t) chain ->
    OpsHistory V veqb name' s' chain' P' -> In (v', t') chain' ->
    (forall k, vkey k -> trie_get V t k = trie_get V t' k) ->
    t = t' /\ Res V (sget V s name) [] (SRef v) t /\ Res V (sget V s' name') [] (SRef v') t.
  Proof. exact (ops_history_canonical V veqb veqb_sound name s chain P v t name' s' chain' P' v' t'). Qed.
  (* which nodes are dirty: when Trie.Update changes the root, every full / short node of the new root met along the
     updated key is dirty and no reference is left on that walk — hasher.store, which descends through dirty nodes only,
     reaches and rewrites every node on the modified path.  (When insert / delete report `false` the old node is kept:
     last conjunct of worktrie_insert_refines / worktrie_delete_refines.)  Purely structural, no premise. *)
  Theorem update_dirty_on_path (g : getter V) w key ov d w' :
    (match ov with
     | Some v => w_insert V veqb g (S (length key)) w [] key (WValue v)
     | None => w_delete V g (S (length key)) w [] key
     end) = Some (d, w') -> d = true -> Spine V w' key.
  Proof. exact (update_spine V veqb g w key ov d w'). Qed.

  Theorem insert_dirty_on_path (g : getter V) f n p key v n' :
    w_insert V veqb g f n p key (WValue v) = Some (true, n') -> Spine V n' key.
  Proof. exact (insert_spine V veqb g f n p key v n'). Qed.

  Theorem delete_dirty_on_path (g : getter V) f n p key n' :
    w_delete V g f n p key = Some (true, n') -> Spine V n' key.
  Proof. exact (delete_spine V g f n p key n'). Qed.

  (* the node tree a canonical commit returns (what muxdb's root-node cache keeps, trie.FromRootNode) is itself a Good
     handle for the new head: coherent with the new store, denoting the committed trie, all its clean nodes and references
     nodes of the new root *)
  Theorem committed_handle_derived name (s : store V) chain P newv big skip n t :
    History V name s chain P -> hist_fresh V s name newv -> P <= fst newv ->
    match chain with [] => True | vt :: _ => fst (fst vt) < fst newv end ->
    Coh V (sget V s name) [] n -> WRes V (sget V s name) [] n t -> is_inner V n ->
    derived V (sget V s name) chain n ->
    let s' := commit V s name newv (snd (wstore V big skip newv [] n)) in
    Good V (sget V s' name) (head_old V (sget V s' name) ((newv, t) :: chain)) [] (fst (wstore V big skip newv [] n)) t.
  Proof. exact (committed_handle_good V name s chain P newv big skip n t). Qed.

  (* one block from ANY Good start handle (a reference to the head root or a kept node tree): never fails, is a canonical
     commit step, leaves a well-formed trie, and returns a handle that is Good for the new head — so a client may keep
     its handle over any number of its own consecutive blocks *)
  Theorem block_from_handle_step name (s : store V) chain P w0 newv big skip ops :
    History V name s chain P -> all_wfc V chain ->
    Good V (sget V s name) (head_old V (sget V s name) chain) [] w0 (head_trie V chain) ->
    hist_fresh V s name newv -> P <= fst newv ->
    match chain with [] => True | vt :: _ => fst (fst vt) < fst newv end ->
    Forall (hop_valid V) ops -> lrun veqb ops (head_trie V chain) <> Nil ->
    exists w' s', block_from V veqb s name w0 newv big skip ops = Some (w', s') /\
      History V name s' ((newv, lrun veqb ops (head_trie V chain)) :: chain) P /\
      wfc V (lrun veqb ops (head_trie V chain)) /\
      Good V (sget V s' name) (head_old V (sget V s' name) ((newv, lrun veqb ops (head_trie V chain)) :: chain)) [] w'
           (lrun veqb ops (head_trie V chain)).
  Proof. exact (block_from_step V veqb veqb_sound name s chain P w0 newv big skip ops). Qed.
  (* OpsHistoryC: OpsHistory with muxdb's root-node cache — a block starts from a reference to the head root or from the
     node tree kept for it; a commit leaves its own tree; commits of other tries / forks and pruner rounds that keep the
     head leave the kept tree in place; it may be dropped at any time.  It is a History, every trie is well formed, and the
     kept tree is always a Good handle for the head (coherent, denoting the head's trie, derived). *)
  Theorem ops_history_with_root_cache name (s : store V) chain P cache :
    OpsHistoryC V veqb name s chain P cache ->
    History V name s chain P /\ all_wfc V chain /\ cache_good V s name chain cache.
  Proof. exact (ops_history_cache_sound V veqb veqb_sound name s chain P cache). Qed.
End C12_ops.

(* ---- non-vacuity ---- *)
Definition ex_store : store nat :=
  mkStore nat [(0, [], (3, 0), SShort [1%nat; 16%nat] (SValue 7%nat)); (0, [], (2, 0), SFull (repeat SNil 17))] [] 4 None.

Example ex_fresh : forall p, sget nat ex_store 0 p (5, 0) = None.
Proof. intros p. destruct p; reflexivity. Qed.

Example ex_open : open_root nat 5 ex_store 0 (3, 0) = Some (Short [1%nat; 16%nat] (Value 7%nat)).
Proof. vm_compute. reflexivity. Qed.

(* a working trie coherent with ex_store: the root loaded from version (3,0); committing it at the fresh version (5,0) *)
Definition ex_w : wnode nat := WShort [1%nat; 16%nat] (WValue 7%nat) (Clean (3, 0)).
Example ex_coh : Coh nat (sget nat ex_store 0) [] ex_w /\ WRes nat (sget nat ex_store 0) [] ex_w (Short [1%nat; 16%nat] (Value 7%nat)) /\ is_inner nat ex_w.
Proof.
  split; [|split; [|exact I]].
  - constructor; [discriminate|constructor|]. intros v E. inversion E; subst. reflexivity.
  - repeat constructor.
Qed.

Example ex_aligned : 0 < hf nat ex_store /\ 8 mod hf nat ex_store = 0.
Proof. split; vm_compute; reflexivity. Qed.

Example ex_deleted : root_only 0 = true /\ in_deleted nat ex_store 0 4 (3, 0) = true.
Proof. split; vm_compute; reflexivity. Qed.

(* never_silently_different over ALL roots of a trie (canonical or not) is refuted in the model — finding F8: a block
   at or above the target on a fork that left the canonical chain below block target-1 keeps its hist root, follows a
   reference whose hist node was deleted, and is answered from the deduped space with the canonical node of that path
   (Store/ExamplesPrune.v: block 2' = version (2,1), round [0,2)).  Canonical live roots: prune_preserves_recent;
   account/index roots in deleted partitions: pruned_root_fails_partial. *)
Theorem prune_dead_fork_refuted : ~ never_silently_different_statement nat.
Proof. exact never_silently_different_refuted. Qed.

(* non-vacuity of the History theorems: four canonical blocks, a two-block dead fork, HistPtnFactor 2, round [0,2)
   (checkpoint of block 1: two nodes), then blocks 4, 5 and a second round [2,4) *)
Example ex_history_round1 : History nat 0 xs7 [(v3, xt3); (v2, xt2)] 2.
Proof. exact xH7. Qed.
Example ex_history_round2 : History nat 0 xs10 [(v5, xt5); (v4, xt4)] 4.
Proof. exact xH10. Qed.
Example ex_round1_reads : open_root nat 10 xs7 0 v2 = Some xt2 /\ hist_find nat (hist nat xs7) 0 [1%nat] v0 = None.
Proof. exact x_block2_after. Qed.
Example ex_round2_reads : map (fun e => fst e) xnodes2 = [([], v3); ([1%nat], v3)] /\
  open_root nat 10 xs10 0 v4 = Some xt4 /\ open_root nat 10 xs10 0 v5 = Some xt5 /\
  open_root nat 10 xs10 0 v2 = None /\ open_root nat 10 xs10 0 w2 = None.
Proof. exact x_round2. Qed.
Example ex_dead_fork : open_root nat 10 xs6 0 w2 = Some xtf2 /\ open_root nat 10 xs7 0 w2 = Some xtf2' /\ xtf2 <> xtf2'.
Proof. exact (conj x_fork_before (conj x_fork_after x_fork_differs)). Qed.

Example ex_old_freshness_fails : sget nat xs7 0 [1%nat] v4 <> None.
Proof. exact x_old_freshness_fails. Qed.
Example ex_commit_any_premise : forall q w b, Reach nat (sget nat xs7 0) [] (SRef v3) q w b -> w <> v4.
Proof. exact x_commit_any_premise. Qed.
Example ex_commit_after_prune : open_root nat 10 xs8 0 v3 = Some xt3 /\ Res nat (sget nat xs8 0) [] (SRef v4) xt4.
Proof. exact x_commit_after_prune. Qed.
Example ex_survives : ResC nat (survives nat xs6 xcps 0 2 0) (sget nat xs6 0) [] (SRef v2) xt2.
Proof. exact x_survives. Qed.
Example ex_link_check : link_check nat Nat.eqb 10 xs5 0 v3 (snd (wstore nat bigT false v3 [] xn3)) (Some v2) = 0.
Proof. vm_compute. reflexivity. Qed.

(* non-vacuity of the operation-list theorems (Store/ExamplesWork.v): five blocks given only by Get / Update lists — block 1
   ends with a no-op update, block 2 deletes below a referenced branch, block 3 collapses and splits at the root —, a round
   [0,2) after block 3, and block 4 whose operations load a node that only the deduped space still holds *)
Example ex_ops_history : OpsHistory nat Nat.eqb 0 ys4 yc4 0.
Proof. exact yH4. Qed.
Example ex_ops_history_pruned : OpsHistory nat Nat.eqb 0 ys6 yc6 2.
Proof. exact yH6. Qed.
Example ex_ops_reads :
  open_root nat 12 ys6 0 v4 = Some yt4 /\ open_root nat 12 ys6 0 v3 = Some yt3 /\ open_root nat 12 ys6 0 v2 = Some yt2 /\
  open_root nat 12 ys6 0 v1 = None.
Proof. exact y_reads_after. Qed.
Example ex_ops_content :
  trie_get nat yt0 ka = Some 10%nat /\ trie_get nat yt1 kc = Some 2%nat /\
  trie_get nat yt2 ka = None /\ trie_get nat yt2 kd = Some 30%nat /\ trie_get nat yt3 kc = None /\ trie_get nat yt3 ke = Some 5%nat /\
  trie_get nat yt4 ka = Some 11%nat /\ trie_get nat yt4 kg = None /\ trie_get nat yt4 kf = Some 7%nat.
Proof. exact y_tries. Qed.
Example ex_ops_loads_deduped :
  hist_find nat (hist nat ys5) 0 [5%nat] v0 = None /\ sget nat ys5 0 [5%nat] v0 <> None /\
  (exists w, wt_run nat Nat.eqb (sget nat ys5 0) yops4 (head_handle nat yc5) = Some w /\ w <> WNil).
Proof. exact y_handle4_loaded. Qed.
Example ex_ops_good_start : Good nat (sget nat ys5 0) (head_old nat (sget nat ys5 0) yc5) [] (head_handle nat yc5) (head_trie nat yc5).
Proof.
  apply (head_handle_good nat ys5 0 yc5 2).
  apply (History_Inv nat 0 ys5 yc5 2). apply (ops_history_sound nat Nat.eqb nat_eqb_sound 0 ys5 yc5 2). exact yH5.
Qed.
Example ex_kept_handle_same_stores :
  (match ykept0 with Some (_, s) => s = ys1 | None => False end) /\
  (match ykept1 with Some (w, s) => s = ys2 /\ enc_child nat w = SRef v1 | None => False end).
Proof. exact y_kept_handle_same_stores. Qed.
Example ex_delete_dirty :
  exists w', w_delete nat (sget nat ys2 0) 4 (WRef v1) [] ka = Some (true, w') /\ Spine nat w' ka.
Proof. exact y_delete_dirty. Qed.
Example ex_delete_clean :
  exists w', w_delete nat (sget nat ys2 0) 4 (WRef v1) [] kd = Some (false, w') /\
             w_resolve_ref nat (sget nat ys2 0) [] v1 = Some w' /\ dirty_paths nat [] w' = [].
Proof. exact y_delete_clean. Qed.
Example ex_ops_history_root_cache : OpsHistoryC nat Nat.eqb 0 ys3' yc3 0 (Some ykw3).
Proof. exact yC3. Qed.
Example ex_root_cache_reads : open_root nat 12 ys3' 0 v2 = Some yt2 /\ open_root nat 12 ys3' 0 v1 = Some yt1 /\ ykw2 <> WRef v1.
Proof. exact y_cache_reads. Qed.

(* a storage trie (name 2) next to the accounts trie in one store with deduped partition factor 1, three blocks, round
   [0,2) through the executable prune_round (Store/ExamplesCompose.v): both histories, the checkpoint premise from
   prune_round_cps_for, a state read through the account root after the round, a non-empty cache *)
Example ex_two_tries : History nat 0 zs6 zchain 0 /\ History nat 2 zs6 zchain 0.
Proof. exact (conj zH0 zH2). Qed.
Example ex_cps_for : exists nodesA nodesS,
  checkpoint_nodes nat 10 zs6 0 v1 0 = Some nodesA /\ cps_for nat 0 zcps nodesA /\
  checkpoint_nodes nat 10 zs6 2 v1 0 = Some nodesS /\ cps_for nat 2 zcps nodesS.
Proof. exact z_cps_for. Qed.
Example ex_state_read : exists f0, forall f, (f0 <= f)%nat ->
  read_through_account nat f zs6 v2 2 v1 = Some xt1 /\
  read_through_account nat f (prune nat zs6 zcps 0 2) v2 2 v1 = Some xt1.
Proof. exact z_state_read. Qed.
Example ex_storage_root_from_deduped :
  open_root nat 10 zs7 2 v1 = Some xt1 /\ open_root nat 10 zs7 0 v1 = None /\
  hist_find nat (hist nat zs7) 2 [] v1 = None /\ read_through_account nat 10 zs7 v2 2 v1 = Some xt1.
Proof. exact z_reads_computed. Qed.
Example ex_nonempty_cache : (exists b, zcache [1%nat] v0 = Some b) /\ cache_coherent nat zcache (sget nat zs6 0) /\
  Res nat (cached_get nat zcache (sget nat (prune nat zs6 zcps 0 2) 0)) [] (SRef v2) xt2.
Proof. exact z_cache. Qed.

Print Assumptions commit_preserves_roots.
Print Assumptions resolve_independent_of_cache.
Print Assumptions commit_reads_back.
Print Assumptions open_root_resolves.
Print Assumptions prune_preserves_recent.
Print Assumptions prune_preserves_recent_rounds.
Print Assumptions history_invariant.
Print Assumptions checkpoint_iterator_spec.
Print Assumptions commit_links_to_parent.
Print Assumptions commit_preserves_roots_pruned.
Print Assumptions commit_preserves_roots_any.
Print Assumptions commit_reads_back_any.
Print Assumptions reader_after_round.
Print Assumptions deduped_key_after_checkpoints.
Print Assumptions cache_invisible_on_followed.
Print Assumptions cache_survives_round.
Print Assumptions link_check_sound.
Print Assumptions checked_commit_keeps_invariant.
Print Assumptions prune_round_is_prune.
Print Assumptions prune_preserves_recent_cond.
Print Assumptions prune_preserves_recent_partial.
Print Assumptions pruned_root_fails_partial.
Print Assumptions pruned_root_stays_failed_prune.
Print Assumptions pruned_root_stays_failed_commit.
Print Assumptions pruned_state_fails_partial.
Print Assumptions root_is_mpt.
Print Assumptions prune_dead_fork_refuted.
Print Assumptions ex_history_round2.
Print Assumptions worktrie_update_refines.
Print Assumptions worktrie_get_refines.
Print Assumptions worktrie_insert_refines.
Print Assumptions worktrie_delete_refines.
Print Assumptions handle_derived_from_ops.
Print Assumptions ops_commit_step.
Print Assumptions ops_history_is_history.
Print Assumptions prune_preserves_recent_rounds_from_ops.
Print Assumptions prune_preserves_recent_from_ops.
Print Assumptions root_is_mpt_from_ops.
Print Assumptions ex_ops_history_pruned.
Print Assumptions update_dirty_on_path.
Print Assumptions insert_dirty_on_path.
Print Assumptions delete_dirty_on_path.
Print Assumptions committed_handle_derived.
Print Assumptions block_from_handle_step.
Print Assumptions ops_history_with_root_cache.
Print Assumptions state_read_preserved.
Print Assumptions prune_round_cps_for.
Print Assumptions live_roots_follow_no_fresh_version.
Print Assumptions ex_state_read.
