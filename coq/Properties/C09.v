(* Properties/C09.v — statements only.  "A transaction is included at most once per chain, only in its validity
   window; lookup by id finds it exactly when it is on that head's chain, whichever path is taken."
   Histories as in C14.v (every sequence of AddBlock calls the node can make, any tree, any best choices). *)
From Coq Require Import List NArith Bool Lia.
From Verif Require Import Chain.Model Chain.Proofs Chain.ProofsWalk Chain.ProofsSys Chain.ProofsTx Chain.ProofsAccept
  Chain.ProofsChainInv Chain.ProofsChainDep Chain.Replay Chain.Examples.
From Verif Require Header.Rules Validation.Body Compose.Replay Compose.ReplayExamples.
From Verif Require Codec.Model Codec.ProofsBind Compose.TxIdBind Compose.TxIdBindExamples.
Import ListNotations.
Open Scope N_scope.

Section C09.
  Variables g gp tag : N.
  Variable adm : repo -> blk -> bool -> Prop.
  Hypothesis Hg : num_of g = 0.
  Hypothesis Hgp : num_of gp = max_u32.

  (* 1. the premise the tx index relies on: (height, conflicts) identifies a stored block *)
  Theorem conflicts_identify r a sa b sb : reachable g gp tag adm r ->
    get_summary r a = Some sa -> get_summary r b = Some sb -> num_of a = num_of b -> s_conf sa = s_conf sb -> a = b.
  Proof. intros R. exact (reachable_conf_inj _ _ _ _ _ Hg R a sa b sb). Qed.

  (* 2. what HasTransaction answers, per path: the recent-window walk sees inclusions at heights >= ref,
        the indexed lookup sees all inclusions on the chain of h (sibling branches and filter-key collisions are
        irrelevant); it never fails for a stored head *)
  Theorem has_transaction_paths r h x ref : reachable g gp tag adm r -> stored r h ->
    exists v, has_transaction r h x ref = Ok v /\
      (v = true <-> if num_of h <? ref then False
                    else if num_of h - ref <? 100 then exists a, incl_on r h x a /\ ref <= num_of a
                    else exists a, incl_on r h x a).
  Proof.
    intros R. exact (has_transaction_spec g gp r (reachable_wf _ _ _ _ _ Hg R) (reachable_wf_body _ _ _ _ _ Hg R)
                       (reachable_wf_txi _ _ _ _ _ Hg R) (reachable_conf_inj _ _ _ _ _ Hg R) Hgp h x ref).
  Qed.

  (* 3. on a chain that respects the window rule for x (every inclusion of x at a height >= ref) the two paths
        agree with each other and with membership on that chain, for every head *)
  Theorem has_tx_paths_agree r h x ref : reachable g gp tag adm r -> stored r h ->
    (forall a, incl_on r h x a -> ref <= num_of a) ->
    exists v, has_transaction r h x ref = Ok v /\ has_tx_indexed r h x = Ok v /\
              (ref <= num_of h -> num_of h - ref < 100 -> recent_walk r x ref 102 h = Ok v) /\
              (v = true <-> exists a, incl_on r h x a).
  Proof.
    intros R. exact (has_tx_paths_agree_lemma g gp r (reachable_wf _ _ _ _ _ Hg R) (reachable_wf_body _ _ _ _ _ Hg R)
                       (reachable_wf_txi _ _ _ _ _ Hg R) (reachable_conf_inj _ _ _ _ _ Hg R) Hgp h x ref).
  Qed.

  (* 4. lookup by id: found => on that head's chain at the reported block/index with that receipt's reverted
        flag; not found => on no block of that chain *)
  Theorem get_tx_meta_on_chain r h x : reachable g gp tag adm r -> stored r h ->
    match get_tx_meta r h x with
    | Ok e => e_tx e = x /\ exists a s b t rc, anc r h a /\ num_of a = e_num e /\ get_summary r a = Some s /\ s_conf s = e_conf e /\
                get_block r a = Some (s, b) /\ nth_error (b_txs b) (N.to_nat (e_idx e)) = Some t /\ tx_id t = x /\
                nth_error (b_rcs b) (N.to_nat (e_idx e)) = Some rc /\ rc_rev rc = e_rev e
    | NotFound => forall a, ~ incl_on r h x a
    | Fail => False
    end.
  Proof.
    intros R. exact (get_tx_meta_spec g gp r (reachable_wf _ _ _ _ _ Hg R)
                       (reachable_wf_txi _ _ _ _ _ Hg R) (reachable_conf_inj _ _ _ _ _ Hg R) Hgp h x).
  Qed.

  (* 5. the induction step of accepted_chain_inv for one accepted block (at-most-once / tag / window): a block accepted by the
        body and verify rules on top of a parent chain that respects the window rule repeats no id, carries no tx
        already on the parent's chain, and every tx has the chain tag and sits inside [ref, ref + expiration] *)
  Theorem accepted_block_step_partial r b : reachable g gp tag adm r ->
    stored r (b_parent b) -> validate r b = V_ok ->
    (forall t a, In t (b_txs b) -> incl_on r (b_parent b) (tx_id t) a -> tx_ref t <= num_of a) ->
    NoDup (map tx_id (b_txs b)) /\
    (forall t, In t (b_txs b) ->
       (forall a, ~ incl_on r (b_parent b) (tx_id t) a) /\
       tx_tag t = r_tag r /\ tx_ref t <= num_of (b_id b) /\ num_of (b_id b) <= tx_ref t + tx_exp t).
  Proof.
    intros R. exact (accepted_block_step g gp r (reachable_wf _ _ _ _ _ Hg R) (reachable_wf_body _ _ _ _ _ Hg R)
                       (reachable_wf_txi _ _ _ _ _ Hg R) (reachable_conf_inj _ _ _ _ _ Hg R) Hgp b).
  Qed.
End C09.

(* 6. C09 first sentence, chain level (at most once / chain tag / validity window): on every history all of whose
      blocks passed the body and verify rules (`validate`), where an id determines the tx body (U: the transactions
      that exist; hash collision freedom is the named premise), every chain the node stores — seen from any head —
      carries every tx id at most once (neither twice in one block nor in two blocks), and every included tx has the
      chain tag and sits at a height inside [ref, ref + expiration]. *)
Theorem accepted_chain_inv g gp tag (U : txrec -> Prop) :
  (forall t1 t2, U t1 -> U t2 -> tx_id t1 = tx_id t2 -> t1 = t2) -> num_of g = 0 -> num_of gp = max_u32 ->
  forall r, reachable g gp tag (accepted U) r -> forall h, stored r h ->
    (forall a t, anc r h a -> tx_in r a t -> U t /\ tx_tag t = tag /\ tx_ref t <= num_of a /\ num_of a <= tx_ref t + tx_exp t) /\
    (forall a1 t1 a2 t2, anc r h a1 -> anc r h a2 -> tx_in r a1 t1 -> tx_in r a2 t2 -> tx_id t1 = tx_id t2 -> a1 = a2) /\
    (forall a s b, anc r h a -> get_block r a = Some (s, b) -> NoDup (map tx_id (b_txs b))).
Proof. intros Uinj Hg Hgp r R h Sh. exact (accepted_chain_ok g gp tag U Uinj Hg Hgp r R h Sh). Qed.

(* 7. C09 first sentence, dependency clause: on the same histories, for every chain from every head, the dependency of
      every included tx occurs earlier on that same chain — in a lower block, or at an earlier position of the same
      block — and the receipt at that position is not reverted.  (Induction over the history; the step combines the
      verify loop's `processed` bookkeeping, by absolute position in the block, with get_tx_meta_on_chain.) *)
Theorem accepted_chain_dependency g gp tag (U : txrec -> Prop) :
  num_of g = 0 -> num_of gp = max_u32 ->
  forall r, reachable g gp tag (accepted U) r -> forall h, stored r h ->
    forall a i t rc d, anc r h a -> tx_at r a i t rc -> tx_dep t = Some d ->
      exists a' i' t' rc', anc r h a' /\ tx_at r a' i' t' rc' /\ tx_id t' = d /\ rc_rev rc' = false /\
                           (num_of a' < num_of a \/ (a' = a /\ (i' < i)%nat)).
Proof. intros Hg Hgp r R h Sh. exact (accepted_chain_dep_ok g gp tag U Hg Hgp r R h Sh). Qed.

(* 8. the two lookup paths on ACCEPTED chains, with no premise left about the chain: on every history all of whose blocks
      passed `validate` (ids determine bodies), for every head and every existing tx, HasTransaction with the tx's own
      block ref, the indexed lookup and (when the head is within 100 blocks of the ref) the recent-window walk all give
      the same answer, which is "the tx is on this head's chain". *)
Theorem has_tx_paths_agree_on_accepted g gp tag (U : txrec -> Prop) :
  (forall t1 t2, U t1 -> U t2 -> tx_id t1 = tx_id t2 -> t1 = t2) -> num_of g = 0 -> num_of gp = max_u32 ->
  forall r, reachable g gp tag (accepted U) r -> forall h t, stored r h -> U t ->
    exists v, has_transaction r h (tx_id t) (tx_ref t) = Ok v /\ has_tx_indexed r h (tx_id t) = Ok v /\
              (tx_ref t <= num_of h -> num_of h - tx_ref t < 100 -> recent_walk r (tx_id t) (tx_ref t) 102 h = Ok v) /\
              (v = true <-> exists a, incl_on r h (tx_id t) a).
Proof. intros Uinj Hg Hgp r R h t. exact (accepted_paths_agree g gp tag U Uinj Hg Hgp r R h t). Qed.

(* non-vacuity: tx 1001 sits on both siblings at height 2; each head finds its own copy, by both paths *)
Example ex_c09 :
  reachable ex_g ex_gp ex_tag (fun _ _ _ => True) ex_r4 /\
  get_tx_meta ex_r4 (bid 3 1) 1001 = Ok (mkE 1001 2 1 0 false) /\
  get_tx_meta ex_r4 (bid 2 1) 1001 = Ok (mkE 1001 2 0 0 false) /\
  get_tx_meta ex_r4 (bid 2 1) 1002 = NotFound /\
  has_transaction ex_r4 (bid 3 1) 1002 0 = Ok true /\ has_tx_indexed ex_r4 (bid 3 1) 1002 = Ok true /\
  has_transaction ex_r4 (bid 2 1) 1002 0 = Ok false /\
  validate ex_r1 ex_b2 = V_ok /\ validate ex_r2 ex_b2' = V_ok /\
  validate ex_r4 (mkB (bid 4 1) (bid 3 1) 40 [ex_t1] [ex_rc false]) = V_exists /\
  validate ex_r4 (mkB (bid 4 1) (bid 3 1) 40 [mkTx 1003 7 0 3 None 50] [ex_rc false]) = V_expired /\
  validate ex_r4 (mkB (bid 4 1) (bid 3 1) 40 [mkTx 1003 7 0 9 (Some 1002) 50] [ex_rc false]) = V_deprev.
Proof. split; [apply ex_reachable; exact I|]. vm_compute. repeat split. Qed.

(* non-vacuity of accepted_chain_inv: the example history passes `validate` at every step, with a two-element universe *)
Definition ex_U (t : txrec) : Prop := t = ex_t1 \/ t = ex_t2.
Example ex_c09_accepted :
  (forall t1 t2, ex_U t1 -> ex_U t2 -> tx_id t1 = tx_id t2 -> t1 = t2) /\
  reachable ex_g ex_gp ex_tag (accepted ex_U) ex_r4.
Proof.
  split.
  - intros t1 t2 H1 H2. destruct H1 as [H1|H1]; destruct H2 as [H2|H2]; subst t1 t2; cbn; intros E;
      try reflexivity; discriminate.
  - apply ex_reachable; (split; [vm_compute; reflexivity | cbn; unfold ex_U; intros t H; intuition]).
Qed.

(* non-vacuity of the dependency clause: tx 1002 (depends on 1001) sits at position 1 of block (2,2), its dependency at position 0 *)
Example ex_c09_dep :
  tx_at ex_r4 (bid 2 2) 1 ex_t2 (ex_rc true) /\ tx_dep ex_t2 = Some 1001 /\ tx_at ex_r4 (bid 2 2) 0 ex_t1 (ex_rc false).
Proof. repeat split; try (eexists; eexists; vm_compute; repeat split). Qed.

(* non-vacuity across the 100-block boundary and with a filter-key collision: a 105-block chain (every block passes
   `validate`) with tx x1 at height 2; x2 shares x1's 8-byte filter key and is nowhere included.  From the tip
   (105 - 1 >= 100) the indexed path answers, from height 100 (100 - 1 < 100) the recent-window walk; they agree; the
   colliding id passes the filter test and is still reported absent. *)
Definition deep_U (t : txrec) : Prop := t = deep_tx.
Example ex_c09_deep :
  reachable ex_g ex_gp ex_tag (fun _ _ _ => True) deep_repo /\
  num_of (r_best deep_repo) = 105 /\ filter_key deep_x1 = filter_key deep_x2 /\
  has_transaction deep_repo (bid 105 1) deep_x1 1 = Ok true /\ has_tx_indexed deep_repo (bid 105 1) deep_x1 = Ok true /\
  has_transaction deep_repo (bid 101 1) deep_x1 1 = Ok true /\ has_transaction deep_repo (bid 100 1) deep_x1 1 = Ok true /\
  recent_walk deep_repo deep_x1 1 102 (bid 100 1) = Ok true /\
  has_transaction deep_repo (bid 1 1) deep_x1 1 = Ok false /\
  memN (filter_key deep_x2) (r_filt deep_repo) = true /\ has_tx_indexed deep_repo (bid 105 1) deep_x2 = Ok false /\
  has_transaction deep_repo (bid 105 1) deep_x2 1 = Ok false.
Proof. split; [apply deep_reachable; intros; exact I|]. vm_compute. repeat split. Qed.

(* ... and the deep chain is an ACCEPTED history (premise of 6-8 met beyond the window boundary) *)
Example ex_c09_deep_accepted :
  (forall t1 t2, deep_U t1 -> deep_U t2 -> tx_id t1 = tx_id t2 -> t1 = t2) /\
  reachable ex_g ex_gp ex_tag (accepted deep_U) deep_repo.
Proof.
  split; [unfold deep_U; congruence|].
  apply deep_reachable. intros r b best H. unfold deep_admb in H. apply andb_true_iff in H. destruct H as [H1 H2]. split.
  - destruct (validate r b); try discriminate; reflexivity.
  - intros t Ht. rewrite forallb_forall in H2. apply txrec_eqb_eq. exact (H2 t Ht).
Qed.

Print Assumptions conflicts_identify.
Print Assumptions has_transaction_paths.
Print Assumptions has_tx_paths_agree.
Print Assumptions get_tx_meta_on_chain.
Print Assumptions accepted_block_step_partial.
Print Assumptions accepted_chain_inv.
Print Assumptions accepted_chain_dependency.
Print Assumptions has_tx_paths_agree_on_accepted.

(* ================================================================ composition *)
(* C09 <-> C02 (Compose/Replay.v).  `validate` above is this area's own transcription of the replay / window / dependency
   rules of consensus/validator.go; C02's model of consensus.Process (Validation/Body.v) is another one, with abstract chain
   lookups.  With those lookups instantiated by this repository's has_transaction / get_tx_meta on the parent's chain the two
   agree (Properties/C02.v 6-8), so the premise "every block passed validate" of 6 and 7 above is discharged for every
   history of blocks accepted by C02's Process (Replay.c02_accepted: Process run with whatever fork configuration, proposer
   view, parent header, state and clock; the stored receipts carry the reverted flags Process returned). *)
Section Composition.
  Variable State : Type.
  Variable exec : Header.Rules.bctx -> State -> Validation.Body.txn -> option (State * Validation.Body.receipt).
  Variable apply_updates : bool -> N -> State -> list (N * bool) -> State.
  Variable rewards : Header.Rules.bctx -> State -> option State.
  Variable sanity : State -> bool.
  Variable root_of_state : State -> N.
  Variable root_of_receipts : list Validation.Body.receipt -> N.
  Variable root_of_txs : list Validation.Body.txn -> N.
  Variables g gp tag : N.
  Variable U : txrec -> Prop.
  Notation c02_accepted := (Replay.c02_accepted State exec apply_updates rewards sanity root_of_state root_of_receipts root_of_txs U).

  (* 9. a block C02's Process accepts passes validate *)
  Theorem c02_accepted_block_validates cfg pv parent st0 b now r cb st rcs :
    Replay.linked cfg parent r b cb -> Replay.lookups_total r (b_parent cb) ->
    map rc_rev (b_rcs cb) = map Validation.Body.r_reverted rcs ->
    Replay.process_on State exec apply_updates rewards sanity root_of_state root_of_receipts root_of_txs
      r (b_parent cb) cfg pv parent st0 b now = Validation.Body.Accepted State st rcs ->
    validate r cb = V_ok.
  Proof. exact (Replay.process_accepted_validates State exec apply_updates rewards sanity root_of_state root_of_receipts root_of_txs cfg pv parent st0 b now r cb st rcs). Qed.

  (* 10. a block C02's Process rejects with the code of a rule modelled here is rejected by validate with that verdict *)
  Theorem c02_rejected_block_same_verdict cfg pv parent st0 b now r cb c v :
    Replay.linked cfg parent r b cb -> Replay.lookups_total r (b_parent cb) ->
    (forall ctx st1, Replay.start_of State apply_updates cfg pv parent st0 b = Some (ctx, st1) ->
                     map rc_rev (b_rcs cb) = Replay.exec_flags State exec ctx st1 (Validation.Body.b_txs b)) ->
    Replay.process_on State exec apply_updates rewards sanity root_of_state root_of_receipts root_of_txs
      r (b_parent cb) cfg pv parent st0 b now = Validation.Body.Rejected State (Header.Rules.Critical c) ->
    Replay.replay_class c = Some v ->
    validate r cb = v.
  Proof. exact (Replay.process_replay_reject_same_verdict State exec apply_updates rewards sanity root_of_state root_of_receipts root_of_txs cfg pv parent st0 b now r cb c v). Qed.

  (* 11. the lookups never fail on a stored parent of a reachable repository (2 and 4 above): the premise of 9 and 10 *)
  Theorem lookups_total_on_histories adm r p : num_of g = 0 -> num_of gp = max_u32 ->
    reachable g gp tag adm r -> stored r p -> Replay.lookups_total r p.
  Proof. exact (Replay.lookups_total_reachable g gp tag adm r p). Qed.

  (* 12. theorems 6 and 7 for chains of blocks accepted by C02's Process *)
  Theorem c02_accepted_chain_inv :
    (forall t1 t2, U t1 -> U t2 -> tx_id t1 = tx_id t2 -> t1 = t2) -> num_of g = 0 -> num_of gp = max_u32 ->
    forall r, reachable g gp tag c02_accepted r -> forall h, stored r h ->
      (forall a t, anc r h a -> tx_in r a t -> U t /\ tx_tag t = tag /\ tx_ref t <= num_of a /\ num_of a <= tx_ref t + tx_exp t) /\
      (forall a1 t1 a2 t2, anc r h a1 -> anc r h a2 -> tx_in r a1 t1 -> tx_in r a2 t2 -> tx_id t1 = tx_id t2 -> a1 = a2) /\
      (forall a s b, anc r h a -> get_block r a = Some (s, b) -> NoDup (map tx_id (b_txs b))).
  Proof. exact (Replay.c02_chain_at_most_once_in_window State exec apply_updates rewards sanity root_of_state root_of_receipts root_of_txs g gp tag U). Qed.

  Theorem c02_accepted_chain_dependency : num_of g = 0 -> num_of gp = max_u32 ->
    forall r, reachable g gp tag c02_accepted r -> forall h, stored r h ->
      forall a i t rc d, anc r h a -> tx_at r a i t rc -> tx_dep t = Some d ->
        exists a' i' t' rc', anc r h a' /\ tx_at r a' i' t' rc' /\ tx_id t' = d /\ rc_rev rc' = false /\
                             (num_of a' < num_of a \/ (a' = a /\ (i' < i)%nat)).
  Proof. exact (Replay.c02_chain_dependency State exec apply_updates rewards sanity root_of_state root_of_receipts root_of_txs g gp tag U). Qed.
End Composition.

(* non-vacuity of 12: the example history is a history of blocks accepted by C02's Process (premises of 12 all met);
   and both models reject the same concrete blocks on top of it with the same verdict (duplicate, reverted / unknown
   dependency, expired, foreign chain tag, future ref; per branch) *)
Example ex_c09_accepted_by_c02 :
  (forall t1 t2, ReplayExamples.x_U t1 -> ReplayExamples.x_U t2 -> tx_id t1 = tx_id t2 -> t1 = t2) /\
  num_of ex_g = 0 /\ num_of ex_gp = max_u32 /\
  reachable ex_g ex_gp ex_tag
    (Replay.c02_accepted N ReplayExamples.x_exec (fun _ _ st _ => st) (fun _ st => Some (st + 1)) (fun _ => true) (fun st => st)
                         (fun rs => N.of_nat (length rs)) (fun ts => N.of_nat (length ts)) ReplayExamples.x_U) ex_r4.
Proof. exact ReplayExamples.fork_history_accepted_by_c02. Qed.

Print Assumptions c02_accepted_block_validates.
Print Assumptions c02_rejected_block_same_verdict.
Print Assumptions lookups_total_on_histories.
Print Assumptions c02_accepted_chain_inv.
Print Assumptions c02_accepted_chain_dependency.
Print Assumptions ex_c09_accepted_by_c02.

(* ================================================================ composition, second round *)
(* C09 <-> C11 (Compose/TxIdBind.v).  Theorems 6, 8 and 12 above carry the premise "an id determines the tx" (U_inj) about
   the abstract universe U.  C11 proves, for the transactions the real decoders return and with Blake2b replaced by an opaque
   function H that is assumed INJECTIVE ON ALL BYTE STRINGS (the named hypothesis H_inj), that the id
   H(H(signing bytes) ++ origin) binds every signed field and the origin.  H_inj is an idealisation: it is false for any
   fixed-length hash (so for Blake2b itself) and is satisfied only by identity-like functions; it stands for "no collision
   is ever met" (Compose/TxIdBind.v:21-24).  The theorems below are therefore statements about an idealised collision-free
   hash, not about Blake2b (18-19 below need collision-freeness only on the strings actually hashed; 20 is the
   collision-extraction form at record level).  With U instantiated by the records of those transactions (TxIdBind.view: id := the id bytes as a number,
   chain tag / block-ref number / expiration / depends-on := projections of C11's signed part, origin := the 20 recovered
   bytes) U_inj is a THEOREM under H_inj, and 6, 8, 12 hold with U_inj replaced by H_inj. *)
Section CompositionC11.
  Variable H : Codec.Model.bytes -> Codec.Model.bytes.
  Hypothesis H_inj : forall a b, H a = H b -> a = b.
  Notation U11 := (TxIdBind.c11_universe H).

  (* 13. U_inj for C11's transactions *)
  Theorem tx_id_determines_record : forall t1 t2, U11 t1 -> U11 t2 -> tx_id t1 = tx_id t2 -> t1 = t2.
  Proof. exact (TxIdBind.c11_universe_inj H H_inj). Qed.

  (* ... in C11's terms: equal ids => equal signed parts and equal origins *)
  Theorem tx_id_binds_signed_part_and_origin t1 t2 o1 o2 :
    Codec.Model.wfp Codec.Model.c_tx t1 -> Codec.Model.wfp Codec.Model.c_tx t2 -> length o1 = length o2 ->
    tx_id (TxIdBind.view H t1 o1) = tx_id (TxIdBind.view H t2 o2) ->
    Codec.ProofsBind.signed_part t1 = Codec.ProofsBind.signed_part t2 /\ o1 = o2.
  Proof. exact (TxIdBind.view_id_binds H H_inj t1 t2 o1 o2). Qed.

  (* 14. theorem 6 (accepted_chain_inv) with U_inj replaced by H_inj *)
  Theorem accepted_chain_inv_c11 g gp tag : num_of g = 0 -> num_of gp = max_u32 ->
    forall r, reachable g gp tag (accepted U11) r -> forall h, stored r h ->
      (forall a t, anc r h a -> tx_in r a t -> U11 t /\ tx_tag t = tag /\ tx_ref t <= num_of a /\ num_of a <= tx_ref t + tx_exp t) /\
      (forall a1 t1 a2 t2, anc r h a1 -> anc r h a2 -> tx_in r a1 t1 -> tx_in r a2 t2 -> tx_id t1 = tx_id t2 -> a1 = a2) /\
      (forall a s b, anc r h a -> get_block r a = Some (s, b) -> NoDup (map tx_id (b_txs b))).
  Proof. intros Hg Hgp. exact (TxIdBind.accepted_chain_inv_c11 H H_inj g gp tag Hg Hgp). Qed.

  (* 15. theorem 8 (has_tx_paths_agree_on_accepted) with U_inj replaced by H_inj *)
  Theorem has_tx_paths_agree_on_accepted_c11 g gp tag : num_of g = 0 -> num_of gp = max_u32 ->
    forall r, reachable g gp tag (accepted U11) r ->
    forall h t o, stored r h -> Codec.Model.wfp Codec.Model.c_tx t -> length o = 20%nat ->
      let x := TxIdBind.view H t o in
      exists v, has_transaction r h (tx_id x) (tx_ref x) = Ok v /\ has_tx_indexed r h (tx_id x) = Ok v /\
                (tx_ref x <= num_of h -> num_of h - tx_ref x < 100 -> recent_walk r (tx_id x) (tx_ref x) 102 h = Ok v) /\
                (v = true <-> exists a, incl_on r h (tx_id x) a).
  Proof. intros Hg Hgp. exact (TxIdBind.has_tx_paths_agree_on_accepted_c11 H H_inj g gp tag Hg Hgp). Qed.

  (* 16. the same transaction (same id) is on a chain at most once, and two inclusions with one id are one transaction up to
         the signature *)
  Theorem included_once_c11 g gp tag : num_of g = 0 -> num_of gp = max_u32 ->
    forall r, reachable g gp tag (accepted U11) r -> forall h, stored r h ->
    forall a1 a2 t1 o1 t2 o2, anc r h a1 -> anc r h a2 ->
      Codec.Model.wfp Codec.Model.c_tx t1 -> Codec.Model.wfp Codec.Model.c_tx t2 -> length o1 = length o2 ->
      tx_in r a1 (TxIdBind.view H t1 o1) -> tx_in r a2 (TxIdBind.view H t2 o2) ->
      Codec.ProofsBind.go_tx_id H t1 (Some o1) = Codec.ProofsBind.go_tx_id H t2 (Some o2) ->
      a1 = a2 /\ Codec.ProofsBind.signed_part t1 = Codec.ProofsBind.signed_part t2 /\ o1 = o2.
  Proof. intros Hg Hgp. exact (TxIdBind.included_once_c11 H H_inj g gp tag Hg Hgp). Qed.

  (* 17. theorem 12 (chains of blocks accepted by C02's Process) with U_inj replaced by H_inj: both first-round premises of
         theorem 6 — "every block passed validate" and "an id determines the tx" — are now discharged *)
  Theorem c02_accepted_chain_inv_c11 (State : Type)
      (exec : Header.Rules.bctx -> State -> Validation.Body.txn -> option (State * Validation.Body.receipt))
      (apply_updates : bool -> N -> State -> list (N * bool) -> State) (rewards : Header.Rules.bctx -> State -> option State)
      (sanity : State -> bool) (root_of_state : State -> N) (root_of_receipts : list Validation.Body.receipt -> N)
      (root_of_txs : list Validation.Body.txn -> N) g gp tag : num_of g = 0 -> num_of gp = max_u32 ->
    forall r, reachable g gp tag
                (Replay.c02_accepted State exec apply_updates rewards sanity root_of_state root_of_receipts root_of_txs U11) r ->
    forall h, stored r h ->
      (forall a t, anc r h a -> tx_in r a t -> U11 t /\ tx_tag t = tag /\ tx_ref t <= num_of a /\ num_of a <= tx_ref t + tx_exp t) /\
      (forall a1 t1 a2 t2, anc r h a1 -> anc r h a2 -> tx_in r a1 t1 -> tx_in r a2 t2 -> tx_id t1 = tx_id t2 -> a1 = a2) /\
      (forall a s b, anc r h a -> get_block r a = Some (s, b) -> NoDup (map tx_id (b_txs b))).
  Proof.
    exact (c02_accepted_chain_inv State exec apply_updates rewards sanity root_of_state root_of_receipts root_of_txs g gp tag U11
             tx_id_determines_record).
  Qed.
End CompositionC11.

(* 18-19. the same with collision-freeness required only ON THE STRINGS ACTUALLY HASHED.  H_inj above (C11's form) quantifies over
   all byte strings, which no 32-byte hash satisfies; for any set S of (transaction, origin) pairs it suffices that H has no
   collision among the SigningHash() and ID() preimages of S (TxIdBind.hashed H S) — satisfiable by a non-injective H when S
   is finite (Example ex_c09_c11_on: a truncating hash). *)
Section CompositionC11OnPreimages.
  Variable H : Codec.Model.bytes -> Codec.Model.bytes.
  Variable S : Codec.Model.tx -> Codec.Model.bytes -> Prop.
  Hypothesis H_inj_on : forall a b, TxIdBind.hashed H S a -> TxIdBind.hashed H S b -> H a = H b -> a = b.
  Notation US := (TxIdBind.c11_universe_on H S).

  Theorem accepted_chain_inv_c11_on g gp tag : num_of g = 0 -> num_of gp = max_u32 ->
    forall r, reachable g gp tag (accepted US) r -> forall h, stored r h ->
      (forall a t, anc r h a -> tx_in r a t -> US t /\ tx_tag t = tag /\ tx_ref t <= num_of a /\ num_of a <= tx_ref t + tx_exp t) /\
      (forall a1 t1 a2 t2, anc r h a1 -> anc r h a2 -> tx_in r a1 t1 -> tx_in r a2 t2 -> tx_id t1 = tx_id t2 -> a1 = a2) /\
      (forall a s b, anc r h a -> get_block r a = Some (s, b) -> NoDup (map tx_id (b_txs b))).
  Proof. intros Hg Hgp. exact (TxIdBind.accepted_chain_inv_c11_on H S H_inj_on g gp tag Hg Hgp). Qed.

  Theorem has_tx_paths_agree_on_accepted_c11_on g gp tag : num_of g = 0 -> num_of gp = max_u32 ->
    forall r, reachable g gp tag (accepted US) r ->
    forall h t o, stored r h -> S t o -> Codec.Model.wfp Codec.Model.c_tx t -> length o = 20%nat ->
      let x := TxIdBind.view H t o in
      exists v, has_transaction r h (tx_id x) (tx_ref x) = Ok v /\ has_tx_indexed r h (tx_id x) = Ok v /\
                (tx_ref x <= num_of h -> num_of h - tx_ref x < 100 -> recent_walk r (tx_id x) (tx_ref x) 102 h = Ok v) /\
                (v = true <-> exists a, incl_on r h (tx_id x) a).
  Proof. intros Hg Hgp. exact (TxIdBind.has_tx_paths_agree_on_accepted_c11_on H S H_inj_on g gp tag Hg Hgp). Qed.
End CompositionC11OnPreimages.

(* 20. collision extraction, no hypothesis on H: two records of decodable transactions with one id either agree in every signed
       field and the origin, or exhibit an explicit collision of H among the four strings hashed for them *)
Theorem tx_id_equal_or_collision H t1 t2 o1 o2 :
  Codec.Model.wfp Codec.Model.c_tx t1 -> Codec.Model.wfp Codec.Model.c_tx t2 -> length o1 = length o2 ->
  tx_id (TxIdBind.view H t1 o1) = tx_id (TxIdBind.view H t2 o2) ->
  (Codec.ProofsBind.signed_part t1 = Codec.ProofsBind.signed_part t2 /\ o1 = o2 /\ TxIdBind.view H t1 o1 = TxIdBind.view H t2 o2) \/
  TxIdBind.collision_in H (fun a => a = Codec.Model.go_signing_tx t1 \/ a = Codec.Model.go_signing_tx t2 \/
                                    a = Codec.ProofsBind.go_tx_signing_hash H t1 ++ o1 \/
                                    a = Codec.ProofsBind.go_tx_signing_hash H t2 ++ o2).
Proof. exact (TxIdBind.view_id_extract H t1 t2 o1 o2). Qed.

(* non-vacuity of 16 (the same transaction on both siblings, once per chain) and of 20 (a constant hash: the collision is exhibited) *)
Example ex_c09_c11_once_and_extract :
  (tx_in TxIdBindExamples.x_r3 (bid 2 1) TxIdBindExamples.x_vb /\ tx_in TxIdBindExamples.x_r3 (bid 2 2) TxIdBindExamples.x_vb) /\
  (forall h a1 a2, stored TxIdBindExamples.x_r3 h -> anc TxIdBindExamples.x_r3 h a1 -> anc TxIdBindExamples.x_r3 h a2 ->
     tx_in TxIdBindExamples.x_r3 a1 TxIdBindExamples.x_vb -> tx_in TxIdBindExamples.x_r3 a2 TxIdBindExamples.x_vb -> a1 = a2) /\
  tx_id (TxIdBind.view TxIdBindExamples.x_H0 TxIdBindExamples.x_ta TxIdBindExamples.x_oa) =
  tx_id (TxIdBind.view TxIdBindExamples.x_H0 TxIdBindExamples.x_tb TxIdBindExamples.x_ob).
Proof.
  split; [exact TxIdBindExamples.x_included_twice_on_siblings|]. split; [exact TxIdBindExamples.x_included_once|].
  exact (proj1 TxIdBindExamples.x_extract_collision).
Qed.

Example ex_c09_c11_on :
  (exists a b, a <> b /\ TxIdBindExamples.x_Ht a = TxIdBindExamples.x_Ht b) /\
  (forall a b, TxIdBind.hashed TxIdBindExamples.x_Ht TxIdBindExamples.x_S a ->
               TxIdBind.hashed TxIdBindExamples.x_Ht TxIdBindExamples.x_S b ->
               TxIdBindExamples.x_Ht a = TxIdBindExamples.x_Ht b -> a = b) /\
  reachable ex_g ex_gp 7 (accepted (TxIdBind.c11_universe_on TxIdBindExamples.x_Ht TxIdBindExamples.x_S)) TxIdBindExamples.x_q3.
Proof.
  split; [exact TxIdBindExamples.x_Ht_collides|]. split; [exact TxIdBindExamples.x_Ht_inj_on | exact TxIdBindExamples.x_history_on].
Qed.

(* non-vacuity of 13-16: an injective toy hash, decodable transactions (legacy and dynamic-fee), a fork history with the
   same transaction on both siblings, every block accepted: all premises met, H_inj proved for the instance *)
Example ex_c09_c11 :
  (forall a b, TxIdBindExamples.x_H a = TxIdBindExamples.x_H b -> a = b) /\
  num_of ex_g = 0 /\ num_of ex_gp = max_u32 /\
  reachable ex_g ex_gp 7 (accepted (TxIdBind.c11_universe TxIdBindExamples.x_H)) TxIdBindExamples.x_r3 /\
  validate TxIdBindExamples.x_r3 (mkB (bid 3 1) (bid 2 1) 30 [TxIdBindExamples.x_va] [TxIdBindExamples.x_rc]) = V_exists.
Proof.
  split; [exact TxIdBindExamples.x_H_inj|]. split; [exact ex_g_num|]. split; [exact ex_gp_num|].
  split; [exact TxIdBindExamples.x_history | exact (proj1 TxIdBindExamples.x_rejects)].
Qed.

Print Assumptions tx_id_determines_record.
Print Assumptions tx_id_binds_signed_part_and_origin.
Print Assumptions accepted_chain_inv_c11.
Print Assumptions has_tx_paths_agree_on_accepted_c11.
Print Assumptions included_once_c11.
Print Assumptions c02_accepted_chain_inv_c11.
Print Assumptions ex_c09_c11.
Print Assumptions accepted_chain_inv_c11_on.
Print Assumptions has_tx_paths_agree_on_accepted_c11_on.
Print Assumptions ex_c09_c11_on.
Print Assumptions tx_id_equal_or_collision.
Print Assumptions ex_c09_c11_once_and_extract.
