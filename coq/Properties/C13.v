(* Properties/C13.v — C13: a crash at any point of block import leaves a consistent, resumable node.
   Statements closed by [exact]; hypotheses: [wf_cfg] (genesis has number 0, epoch length > 0), [Inv] of the initial
   store (proved for every genesis store: genesis_inv), [wf_hist] (the trie-layer premise on the node sets, see Crash/ProofsImport.v). *)
From Coq Require Import List NArith Bool.
From Verif Require Import Crash.Model Crash.ProofsStore Crash.ProofsInv Crash.ProofsImport Crash.ProofsCrash Crash.Examples.
Import ListNotations.
Open Scope N_scope.

(* every batch of every import keeps "visible => complete": stated for every prefix of the writes of one import *)
Theorem import_keeps_visible_complete c s b :
  wf_cfg c -> Inv c s -> wf_blk s b -> all_prefixes (Inv c) s (import_batches c s b).
Proof. exact (import_all_prefixes c s b). Qed.

(* ... hence for every history and EVERY cut position *)
Theorem every_cut_satisfies_invariant c s0 hist k :
  wf_cfg c -> Inv c s0 -> wf_hist c s0 hist -> Inv c (crash c s0 hist k).
Proof. exact (crash_inv c s0 hist k). Qed.

(* after restart (with or without the F6 repair in NewEngine) the best block's summary, transactions, receipts, index
   nodes, state nodes and all ancestors are present, the finalized block is stored *)
Theorem crash_consistent c rep s0 hist k :
  wf_cfg c -> Inv c s0 -> wf_hist c s0 hist ->
  exists s' best fin, restart c rep (crash c s0 hist k) = Some (s', best, fin) /\
                      readable s' best = true /\ stored s' fin = true /\ Inv c s'.
Proof. exact (ProofsCrash.crash_consistent c rep s0 hist k). Qed.

(* quality / finalized records found after a cut refer to blocks that are stored and complete (they are written last) *)
Theorem bft_records_after_block c s0 hist k :
  wf_cfg c -> Inv c s0 -> wf_hist c s0 hist ->
  let s := crash c s0 hist k in
  (forall id, has s (KQuality id) = true -> stored s id = true /\ readable s id = true) /\
  (forall f, get_id s KFinalized = Some f -> stored s f = true /\ readable s f = true).
Proof. exact (bft_records_refer_to_stored_blocks c s0 hist k). Qed.

Theorem genesis_store_invariant L g :
  num_of (b_id g) = 0 -> b_skeep g = [] -> b_ikeep g = [] -> Inv (mkCfg L (b_id g)) (genesis_store g).
Proof. exact (genesis_inv L g). Qed.

(* non-vacuity: a concrete genesis and a seven-block history over three committed epochs meet the hypotheses *)
Example hypotheses_met : wf_cfg ex_cfg /\ Inv ex_cfg ex_s0 /\ wf_hist ex_cfg ex_s0 ex_hist.
Proof. exact (conj ex_wf_cfg (conj ex_inv0 ex_wf_hist)). Qed.

Example history_not_trivial :
  get_id (run ex_cfg ex_s0 ex_hist) KBest = Some (bid 7 7) /\
  finalized ex_cfg (run ex_cfg ex_s0 ex_hist) = bid 4 4 /\
  map snd (tallies ex_cfg (run ex_cfg ex_s0 ex_hist)) = [4; 3; 2; 1].
Proof. exact ex_run_facts. Qed.

Print Assumptions import_keeps_visible_complete.
Print Assumptions every_cut_satisfies_invariant.
Print Assumptions crash_consistent.
Print Assumptions bft_records_after_block.
Print Assumptions genesis_store_invariant.
Print Assumptions hypotheses_met.
Print Assumptions history_not_trivial.
