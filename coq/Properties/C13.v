(* Properties/C13.v — C13: a crash at any point of block import leaves a consistent, resumable node.
   Statements closed by [exact]; hypotheses: [wf_cfg] (genesis has number 0, epoch length > 0), [Inv] of the initial
   store (proved for every genesis store: genesis_inv), [wf_hist] (the trie-layer premise on the node sets, see Crash/ProofsImport.v). *)
From Coq Require Import List NArith Bool.
From Verif Require Import Crash.Model Crash.ProofsStore Crash.ProofsInv Crash.ProofsImport Crash.ProofsCrash Crash.Examples
  Crash.ProofsResume.
Import ListNotations.
Open Scope N_scope.

(* every batch of every import keeps "visible => complete": stated for every prefix of the writes of one import *)
Theorem import_keeps_visible_complete c s b :
  wf_cfg c -> Inv c s -> wf_blk s b -> all_prefixes (Inv c) s (import_batches c s b).
Proof. exact (import_all_prefixes c s b). Qed.

(* ... hence for every history and EVERY cut position *)
Theorem every_cut_satisfies_invariant c s0 hist k :
  wf_cfg c -> Inv c s0 -> wf_hist c s0 hist -> Inv c (crash c s0 hist k).
Proof. exact (crash_inv c s0 hist k). Qed.

(* after restart (with or without the F6 repair in NewEngine) the best block's summary, transactions, receipts, index
   nodes, state nodes and all ancestors are present, the finalized block is stored *)
Theorem crash_consistent c rep s0 hist k :
  wf_cfg c -> Inv c s0 -> wf_hist c s0 hist ->
  exists s' best fin, restart c rep (crash c s0 hist k) = Some (s', best, fin) /\
                      readable s' best = true /\ stored s' fin = true /\ Inv c s'.
Proof. exact (ProofsCrash.crash_consistent c rep s0 hist k). Qed.

(* quality / finalized records found after a cut refer to blocks that are stored and complete (they are written last) *)
Theorem bft_records_after_block c s0 hist k :
  wf_cfg c -> Inv c s0 -> wf_hist c s0 hist ->
  let s := crash c s0 hist k in
  (forall id, has s (KQuality id) = true -> stored s id = true /\ readable s id = true) /\
  (forall f, get_id s KFinalized = Some f -> stored s f = true /\ readable s f = true).
Proof. exact (bft_records_refer_to_stored_blocks c s0 hist k). Qed.

Theorem genesis_store_invariant L g :
  num_of (b_id g) = 0 -> b_skeep g = [] -> b_ikeep g = [] -> Inv (mkCfg L (b_id g)) (genesis_store g).
Proof. exact (genesis_inv L g). Qed.

(* ---- the resume clause.
   [resume_converges_statement rep] (Crash/ProofsResume.v): for every history, every cut and the import it interrupts,
   restart + resuming the stream from the interrupted block ends with the same best block and the same tallies as the
   uninterrupted run.  For the code BEFORE the F6 repair (rep = false) the faithful model refutes it: *)
Theorem resume_quality_refuted : ~ resume_converges_statement false.
Proof. exact ProofsResume.resume_quality_refuted. Qed.

(* the witness is the cut between the block bulk and the quality record of a store-point block ... *)
Example f6_witness_is_that_cut :
  cut_in_import ex_cfg ex_s0 ex_hist f6_cut 2 /\
  stored (crash ex_cfg ex_s0 ex_hist f6_cut) (bid 3 3) = true /\
  has (crash ex_cfg ex_s0 ex_hist f6_cut) (KQuality (bid 3 3)) = false /\
  has (crash ex_cfg ex_s0 ex_hist (S f6_cut)) (KQuality (bid 3 3)) = true.
Proof. exact f6_cut_position. Qed.

(* ... and in the example history (28 writes, 29 cut positions) the unrepaired restart diverges at exactly the four cuts of
   that class and nowhere else (a checked instance, not a theorem over all histories) *)
Example without_repair_exactly_the_f6_cuts_diverge :
  filter (fun k =>
    negb match resume ex_cfg false (crash ex_cfg ex_s0 ex_hist k) (skipn (import_of_cut ex_cfg ex_s0 ex_hist k) ex_hist) with
         | Some s' => same_outcome ex_cfg false s' (run ex_cfg ex_s0 ex_hist)
         | None => false
         end) (seq 0 (S (length (writes_of ex_cfg ex_s0 ex_hist)))) = [3; 10; 18; 26]%nat.
Proof. exact resume_diverges_exactly_at_f6_cuts. Qed.

(* with the repair (the code as it is now) every cut of the example converges; finalized lags only at the cut between the
   quality and the finalized record of the last committed epoch. [resume_converges_statement true] for ALL histories is
   NOT proved (it stays a Definition); the harness evaluates it on the real code and on the model at every cut. *)
Example with_repair_every_cut_of_the_example_converges :
  (forallb (fun k =>
    match resume ex_cfg true (crash ex_cfg ex_s0 ex_hist k) (skipn (import_of_cut ex_cfg ex_s0 ex_hist k) ex_hist) with
    | Some s' => same_outcome ex_cfg (negb (Nat.eqb k 27)) s' (run ex_cfg ex_s0 ex_hist)
    | None => false
    end) (seq 0 (S (length (writes_of ex_cfg ex_s0 ex_hist))))) = true /\
  length (writes_of ex_cfg ex_s0 ex_hist) = 28%nat /\
  option_map (finalized ex_cfg) (resume ex_cfg true (crash ex_cfg ex_s0 ex_hist 27) []) = Some (bid 2 2).
Proof. exact resume_converges_on_example. Qed.

(* non-vacuity: a concrete genesis and a seven-block history over three committed epochs meet the hypotheses *)
Example hypotheses_met : wf_cfg ex_cfg /\ Inv ex_cfg ex_s0 /\ wf_hist ex_cfg ex_s0 ex_hist.
Proof. exact (conj ex_wf_cfg (conj ex_inv0 ex_wf_hist)). Qed.

Example history_not_trivial :
  get_id (run ex_cfg ex_s0 ex_hist) KBest = Some (bid 7 7) /\
  finalized ex_cfg (run ex_cfg ex_s0 ex_hist) = bid 4 4 /\
  map snd (tallies ex_cfg (run ex_cfg ex_s0 ex_hist)) = [4; 3; 2; 1].
Proof. exact ex_run_facts. Qed.

Print Assumptions import_keeps_visible_complete.
Print Assumptions every_cut_satisfies_invariant.
Print Assumptions crash_consistent.
Print Assumptions bft_records_after_block.
Print Assumptions genesis_store_invariant.
Print Assumptions resume_quality_refuted.
Print Assumptions f6_witness_is_that_cut.
Print Assumptions without_repair_exactly_the_f6_cuts_diverge.
Print Assumptions with_repair_every_cut_of_the_example_converges.
Print Assumptions hypotheses_met.
Print Assumptions history_not_trivial.
