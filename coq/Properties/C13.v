(* Properties/C13.v — C13: a crash at any point of block import leaves a consistent, resumable node.
   Statements closed by [exact]; hypotheses: [wf_cfg] (genesis has number 0, epoch length > 0), [Inv] of the initial
   store (proved for every genesis store: genesis_inv), [wf_hist] (the trie-layer premise on the node sets, see Crash/ProofsImport.v). *)
From Coq Require Import List NArith Bool.
From Verif Require Import Crash.Model Crash.ProofsStore Crash.ProofsInv Crash.ProofsImport Crash.ProofsCrash Crash.Examples
  Crash.ProofsEqv Crash.ProofsShape Crash.ProofsResumeAll Crash.ProofsOrphans Crash.ProofsResume
  Crash.ProofsFinalized Crash.ProofsQuality Crash.ProofsCatchUp Crash.ExamplesCatchUp Crash.ProofsDual.
(* the log-database part is stated over wp-chain's repository model and wp-chain's log-db model: qualified names, no Import
   (Chain.Model and Crash.Model both define blk, summary, stored, ...) *)
From Verif Require Chain.Model Chain.Proofs Chain.ProofsWalk Chain.Examples LogDB.Model LogDB.ProofsCanon LogDB.ProofsSync
  Crash.LogCrash Crash.ExamplesLog.
(* the bridge to wp-bft's model (coq/Bft): qualified names as well (Bft.Tree and Crash.Model both define blk, b_id, ...) *)
From Verif Require Compose.CrashBft Compose.CrashBftExamples Compose.CrashBftFork.
Import ListNotations.
Open Scope N_scope.

(* every batch of every import keeps "visible => complete": stated for every prefix of the writes of one import *)
Theorem import_keeps_visible_complete c s b :
  wf_cfg c -> Inv c s -> wf_blk s b -> all_prefixes (Inv c) s (import_batches c s b).
Proof. exact (import_all_prefixes c s b). Qed.

(* ... hence for every history and EVERY cut position *)
Theorem every_cut_satisfies_invariant c s0 hist k :
  wf_cfg c -> Inv c s0 -> wf_hist c s0 hist -> Inv c (crash c s0 hist k).
Proof. exact (crash_inv c s0 hist k). Qed.

(* after restart (with or without the F6 repair in NewEngine) the best block's summary, transactions, receipts, index
   nodes, state nodes and all ancestors are present, the finalized block is stored.
   NOTE: the model's [restart] is total where the code is not: bft.NewEngine returns an error (the node does not start) when
   the CommitBlock it re-runs for an interrupted head fails (computeState / findCheckpointByQuality error).  In the model a
   failing search is [find_checkpoint = None] and the repair then writes the quality record alone; no lemma excludes that
   branch for the interrupted head, so "restart succeeds" is proved of the model's restart, on the real code it is what the
   harness observes at every cut (restart-fails is a finding class). *)
Theorem crash_consistent c rep s0 hist k :
  wf_cfg c -> Inv c s0 -> wf_hist c s0 hist ->
  exists s' best fin, restart c rep (crash c s0 hist k) = Some (s', best, fin) /\
                      readable s' best = true /\ stored s' fin = true /\ Inv c s'.
Proof. exact (ProofsCrash.crash_consistent c rep s0 hist k). Qed.

(* a second crash, during the restart repair of a head (at most one batch since the F13 repair): the invariant holds after
   any prefix of it and the next start succeeds again *)
Theorem crash_during_repair_is_consistent c rep s id j : wf_cfg c -> Inv c s ->
  let s1 := apply_writes s (firstn j (repair_one c s id)) in
  Inv c s1 /\
  exists s' best fin, restart c rep s1 = Some (s', best, fin) /\ Inv c s' /\ readable s' best = true /\ stored s' fin = true.
Proof. exact (ProofsCrash.crash_during_repair_is_consistent c rep s id j). Qed.

(* quality / finalized records found after a cut refer to blocks that are stored and complete (they are written last) *)
Theorem bft_records_after_block c s0 hist k :
  wf_cfg c -> Inv c s0 -> wf_hist c s0 hist ->
  let s := crash c s0 hist k in
  (forall id, has s (KQuality id) = true -> stored s id = true /\ readable s id = true) /\
  (forall f, get_id s KFinalized = Some f -> stored s f = true /\ readable s f = true).
Proof. exact (bft_records_refer_to_stored_blocks c s0 hist k). Qed.

Theorem genesis_store_invariant L g :
  num_of (b_id g) = 0 -> b_skeep g = [] -> b_ikeep g = [] -> Inv (mkCfg L (b_id g)) (genesis_store g).
Proof. exact (genesis_inv L g). Qed.

(* ---- the resume clause.
   [resume_converges_statement rep] (Crash/ProofsResume.v): for every history, every cut and the import it interrupts,
   restart + resuming the stream from the interrupted block ends with the same best block and the same tallies as the
   uninterrupted run.  For the code BEFORE the F6 repair (rep = false) the faithful model refutes it: *)
Theorem resume_quality_refuted : ~ resume_converges_statement false.
Proof. exact ProofsResume.resume_quality_refuted. Qed.

(* the witness is the cut between the block bulk and the quality record of a store-point block ... *)
Example f6_witness_is_that_cut :
  cut_in_import ex_cfg ex_s0 ex_hist f6_cut 2 /\
  stored (crash ex_cfg ex_s0 ex_hist f6_cut) (bid 3 3) = true /\
  has (crash ex_cfg ex_s0 ex_hist f6_cut) (KQuality (bid 3 3)) = false /\
  has (crash ex_cfg ex_s0 ex_hist (S f6_cut)) (KQuality (bid 3 3)) = true.
Proof. exact f6_cut_position. Qed.

(* ... and in the example history (25 writes, 26 cut positions) the unrepaired restart diverges at exactly the four cuts of
   that class and nowhere else (a checked instance, not a theorem over all histories) *)
Example without_repair_exactly_the_f6_cuts_diverge :
  filter (fun k =>
    negb match resume ex_cfg false (crash ex_cfg ex_s0 ex_hist k) (skipn (import_of_cut ex_cfg ex_s0 ex_hist k) ex_hist) with
         | Some s' => same_outcome ex_cfg false s' (run ex_cfg ex_s0 ex_hist)
         | None => false
         end) (seq 0 (S (length (writes_of ex_cfg ex_s0 ex_hist)))) = [3; 10; 17; 24]%nat.
Proof. exact resume_diverges_exactly_at_f6_cuts. Qed.

(* ---- with both repairs (F6: NewEngine commits an interrupted store-point head again; F13: CommitBlock writes the quality
   record and the finalized record in ONE batch) — the code as it is now: for EVERY history and EVERY cut, no exception.
   Hypotheses: wf_cfg2 (epoch length > 1), Inv2 of the initial store (Inv + every stored store-point block has its quality
   record + every chain-head entry names a stored block; proved for every genesis store), wf_hist.
   [cut_in_import k i]: the cut k lies inside (or at the start of) the import of block i.  After restart and resumption of the
   stream from block i the store is EQUIVALENT (same value under every key: stored set, best pointer, quality records,
   finalized record) to the uninterrupted run's.  No premise about which blocks the stream contains (forks below the
   finalized block, refused blocks, duplicates: all allowed). *)
Theorem resume_converges c s0 hist k i :
  wf_cfg2 c -> Inv2 c s0 -> wf_hist c s0 hist -> cut_in_import c s0 hist k i ->
  exists r, resume c true (crash c s0 hist k) (skipn i hist) = Some r /\ eqv r (run c s0 hist).
Proof. exact (ProofsResumeAll.resume_converges c s0 hist k i). Qed.

(* equivalence spelled out: same best block, finalized block, stored set and quality records (vote tallies) *)
Theorem resume_converges_observations c s0 hist k i :
  wf_cfg2 c -> Inv2 c s0 -> wf_hist c s0 hist -> cut_in_import c s0 hist k i ->
  exists r, resume c true (crash c s0 hist k) (skipn i hist) = Some r /\
    get_id r KBest = get_id (run c s0 hist) KBest /\ finalized c r = finalized c (run c s0 hist) /\
    (forall id, stored r id = stored (run c s0 hist) id) /\ (forall id, get_quality r id = get_quality (run c s0 hist) id).
Proof. exact (ProofsResumeAll.resume_converges_observations c s0 hist k i). Qed.

(* REMARK (restates the shape of the model's commit_steps, which is tied to the code by the write-sequence comparison of the
   harness): the commit of the bft engine is at most ONE batch, so there is no cut between the quality and the finalized record *)
Theorem bft_commit_is_one_batch c s id parent just comm :
  let cw := writes_of_steps (commit_steps c s id parent just comm) in
  cw = [] \/
  (exists q, cw = [[Put (KQuality id) (VNum q)]] /\ is_storepoint (c_L c) (num_of id) = true) \/
  (exists q f, cw = [[Put (KQuality id) (VNum q); Put KFinalized (VId f)]] /\ is_storepoint (c_L c) (num_of id) = true).
Proof. exact (commit_shape c s id parent just comm). Qed.

(* ---- finding F13 (the code before /repo 38d50ce wrote the two records separately).  [split_window] is the image a stop
   between the two writes left: the cut before a commit batch plus that batch's quality record alone.  The resume clause at
   such an image is refuted: blocks 1..5 of the example history (block 5 finalizes block 2), then a sibling of block 2 — the
   uninterrupted node refuses it (errBFTRejected), the node restarted from the image still holds genesis as finalized and
   stores it.  (On the real code, with a longer fork that wins Select, best and finalized diverge as well:
   corpus/C13/f13-fork-below-pending-checkpoint.json.)  Under the repaired code the same stream converges at every cut. *)
Theorem f13_split_write_refuted : ~ resume_converges_split_statement.
Proof. exact ExamplesCatchUp.f13_split_write_refuted. Qed.

Example f13_witness :
  cut_in_import ex_cfg ex_s0 ex_hist_fork 17 4 /\
  nth_error (writes_of ex_cfg ex_s0 ex_hist_fork) 17 = Some [Put (KQuality (bid 5 5)) (VNum 3); Put KFinalized (VId (bid 2 2))] /\
  no_bft_reject ex_cfg ex_s0 ex_hist_fork = false /\
  stored (run ex_cfg ex_s0 ex_hist_fork) (bid 2 9) = false /\
  finalized ex_cfg (run ex_cfg ex_s0 ex_hist_fork) = bid 2 2 /\
  finalized ex_cfg (split_window ex_cfg ex_s0 ex_hist_fork 17 (bid 5 5) 3) = bid 0 7 /\
  option_map (fun r => stored r (bid 2 9))
    (resume ex_cfg true (split_window ex_cfg ex_s0 ex_hist_fork 17 (bid 5 5) 3) (skipn 4 ex_hist_fork)) = Some true.
Proof. exact ex_fork_facts. Qed.

Example f13_stream_converges_with_the_repair :
  wf_hist ex_cfg ex_s0 ex_hist_fork /\
  forallb (fun k =>
    match resume ex_cfg true (crash ex_cfg ex_s0 ex_hist_fork k) (skipn (import_of_cut ex_cfg ex_s0 ex_hist_fork k) ex_hist_fork) with
    | Some s' => same_outcome ex_cfg true s' (run ex_cfg ex_s0 ex_hist_fork) && negb (stored s' (bid 2 9))
    | None => false
    end) (seq 0 (S (length (writes_of ex_cfg ex_s0 ex_hist_fork)))) = true /\
  length (writes_of ex_cfg ex_s0 ex_hist_fork) = 18%nat.
Proof. exact (conj ex_fork_wf_hist ex_fork_converges). Qed.

(* a block that is stored is a no-op when delivered again; the DECISIONS of the import path (known / parent missing /
   rejected / conflicts / fork choice / quality / finalized) read chain and bft keys only: the model issues the same steps on
   stores that agree outside the trie-node / code spaces.  (By construction for block execution: its results are data of the
   block here; that re-execution over leftovers gives the same results is checked on the real code only.) *)
Theorem redelivered_known_block_is_noop c s b : stored s (b_id b) = true -> import_batches c s b = [].
Proof. exact (known_is_noop c s b). Qed.
Theorem import_decisions_read_only_chain_keys s s' c b : eqv_na s s' -> import_steps c s b = import_steps c s' b.
Proof. exact (na_import_steps s s' c b). Qed.

(* the uninterrupted run keeps the extended invariant; every genesis store has it *)
Theorem run_keeps_inv2 c l s : wf_cfg2 c -> Inv2 c s -> wf_hist c s l -> Inv2 c (run c s l).
Proof. exact (run_inv2 c l s). Qed.
Theorem genesis_store_inv2 L g : 1 < L -> num_of (b_id g) = 0 -> b_skeep g = [] -> b_ikeep g = [] ->
  Inv2 (mkCfg L (b_id g)) (genesis_store g).
Proof. exact (genesis_inv2 L g). Qed.

Example resume_hypotheses_met : wf_cfg2 ex_cfg /\ Inv2 ex_cfg ex_s0 /\ wf_hist ex_cfg ex_s0 ex_hist /\ cut_in_import ex_cfg ex_s0 ex_hist f6_cut 2.
Proof. exact (conj ex_wf_cfg2 (conj ex_inv2 (conj ex_wf_hist (proj1 f6_cut_position)))). Qed.

(* the example history, cut by cut: same best block, tallies and finalized block at every one of its 26 cuts *)
Example with_repair_every_cut_of_the_example_converges :
  (forallb (fun k =>
    match resume ex_cfg true (crash ex_cfg ex_s0 ex_hist k) (skipn (import_of_cut ex_cfg ex_s0 ex_hist k) ex_hist) with
    | Some s' => same_outcome ex_cfg true s' (run ex_cfg ex_s0 ex_hist)
    | None => false
    end) (seq 0 (S (length (writes_of ex_cfg ex_s0 ex_hist))))) = true /\
  length (writes_of ex_cfg ex_s0 ex_hist) = 25%nat.
Proof. exact resume_converges_on_example. Qed.

(* ---- qualities along a chain and nodes whose finalized record lags (what the code before the F13 repair could at best
   converge to; kept as general facts about the model: InvQ = the quality recurrence + the finalized block is the first block
   of an epoch; Lag r u = r and u agree under every key but the finalized record and r's finalized block is u's or an
   ancestor of it). *)
(* one import on a lagging and an up-to-date store: the relation is kept, and the import that moves the up-to-date node's
   finalized block makes the stores equivalent *)
Theorem lagging_import_step c r u b : wf_cfg2 c -> Inv2 c u -> InvQ c u -> wf_blk u b -> Lag c r u ->
  bft_rejected c u b = false ->
  Lag c (run1 c r b) (run1 c u b) /\
  (finalized c (run1 c u b) <> finalized c u -> eqv (run1 c r b) (run1 c u b)).
Proof. exact (lag_step c r u b). Qed.

(* findCheckpointByQuality over a chain whose records obey the recurrence: the first block of the least epoch, from the
   finalized one on, whose store-point quality reaches the target, provided it equals the target (sort.Search is correct
   because the qualities never decrease along a chain) *)
Theorem find_checkpoint_is_least_epoch c s head E t fin e0 f :
  wf_cfg c -> Inv c s -> Qrec c s -> stored s head = true -> num_of head = E * c_L c + c_L c - 1 ->
  num_of fin = e0 * c_L c -> e0 <= E ->
  (find_checkpoint c s t fin head = Some f <->
   exists e, e0 <= e <= E /\ Qe c s head e = t /\ (forall e', e0 <= e' < e -> Qe c s head e' < t) /\
             anc s head (e * c_L c) = Some f).
Proof. exact (fun Hc I Q Hs HE => find_checkpoint_spec c s head E Hc I Q Hs HE t fin e0 f). Qed.

Theorem run_keeps_invq c l s : wf_cfg2 c -> Inv2 c s -> InvQ c s -> wf_hist c s l -> InvQ c (run c s l).
Proof. exact (run_invq c l s). Qed.
Theorem genesis_store_invq L g : 1 < L -> num_of (b_id g) = 0 -> InvQ (mkCfg L (b_id g)) (genesis_store g).
Proof. exact (genesis_invq L g). Qed.

Example invq_and_lag_not_vacuous :
  InvQ ex_cfg ex_s0 /\ InvQ ex_cfg (run ex_cfg ex_s0 ex_hist) /\
  Lag ex_cfg (split_window ex_cfg ex_s0 ex_hist 17 (bid 5 5) 3) (run ex_cfg ex_s0 (firstn 5 ex_hist)).
Proof. exact ex_invq_lag. Qed.

(* ---- the log database (the node's second store; anchors cmd/thor/sync_logdb.go, logdb/logdb.go).
   Key-value level — REMARKS, not independent theorems: [dual_steps] DEFINES the combined sequence of atomic commits of
   one import as the main database's batches with the log database's single transaction inserted after the state commit, for
   a block that becomes best only; the four statements below read that definition back (what ties it to the code is the
   harness's observer of the log tables at every main-database write: class log-commit-position).  The content is in the
   block-level theorems further down. *)
Theorem main_db_sees_the_same_writes c s b : mains (dual_steps c s b) = import_batches c s b.
Proof. exact (dual_mains c s b). Qed.

(* at EVERY cut of the combined sequence: a block that is visible in the main database and became best has its log commit
   behind it; the log commit never precedes the end of the block's state commit; a side block has no log commit *)
Theorem visible_best_block_is_logged c s b j :
  becomes_best c s b = true ->
  stored (apply_writes s (mains (firstn j (dual_steps c s b)))) (b_id b) = true -> In WLog (firstn j (dual_steps c s b)).
Proof. exact (ProofsDual.visible_best_block_is_logged c s b j). Qed.
Theorem log_commit_follows_state_commit c s b j :
  becomes_best c s b = true -> In WLog (firstn j (dual_steps c s b)) ->
  exists rest, mains (firstn j (dual_steps c s b)) = state_batches b (conf_of s b) ++ rest.
Proof. exact (ProofsDual.log_commit_follows_state_commit c s b j). Qed.
Theorem side_block_has_no_log_commit c s b : becomes_best c s b = false -> ~ In WLog (dual_steps c s b).
Proof. exact (ProofsDual.side_block_has_no_log_commit c s b). Qed.

(* Block level (Crash/LogCrash.v: node = wp-chain's repository + wp-chain's log tables; an import = [log transaction;]
   AddBlock; lcut = a crash after j of these updates; lrestart = syncLogDB at start, LogDB/Model.v sync_logdb).
   Scope: tables as [imported] builds them from [empty_db] (no rows for the genesis block: a genesis with receipts is outside),
   and conditional on sync_logdb returning Some (no totality lemma).
   For EVERY import history (LogDB.ProofsCanon.imported: any valid AddBlock calls, best blocks through writeLogs), EVERY
   next block and EVERY cut: if the start-up re-sync returns, the node is in a state of the uninterrupted run — the one
   before the import or the one after it — and its log tables are exactly the logs of the canonical chain of the
   repository found on disk (no row missing, none duplicated, none of an abandoned branch).  Uses
   sync_reestablishes_canonical (LogDB/ProofsSync.v, wp-chain) for a block stored beside the best chain, and the fact that
   syncLogDB reads the best block's chain only. *)
Theorem log_crash_then_resync g gp tag r db b conf best j n' n'' :
  Chain.Model.num_of g = 0 ->
  LogDB.ProofsCanon.imported g gp tag r db -> Chain.Proofs.valid_add r b conf ->
  LogCrash.lcut (LogCrash.mkNode r db) b conf best j = Some n' -> LogCrash.lrestart n' = Some n'' ->
  LogDB.ProofsCanon.imported g gp tag (LogCrash.n_repo n'') (LogCrash.n_log n'') /\ LogCrash.log_canonical n'' /\
  (n'' = LogCrash.mkNode r db \/
   exists l, LogCrash.import_lsteps (LogCrash.mkNode r db) b conf best = Some l /\
             n'' = fold_left LogCrash.do_lstep l (LogCrash.mkNode r db)).
Proof. exact (fun Hg => LogCrash.log_crash_resync g gp tag Hg r db b conf best j n' n''). Qed.

(* the cut the re-sync exists for: log transaction committed, AddBlock not done — the tables come back to the ones before *)
Theorem resync_after_log_commit g gp tag r db b conf db' d :
  Chain.Model.num_of g = 0 ->
  LogDB.ProofsCanon.imported g gp tag r db -> Chain.Proofs.valid_add r b conf ->
  LogDB.Model.write_logs r db b (Chain.Model.r_best r) = Some db' ->
  (exists r', Chain.Model.add_block r b conf true = Some r') ->
  LogDB.Model.sync_logdb r db' = Some d -> d = db.
Proof. exact (fun Hg => LogCrash.sync_after_log_commit g gp tag Hg r db b conf db' d). Qed.

(* non-vacuity (wp-chain's example history): the import of block (3,1) reorganises from (2,1) to its sibling (2,2); after
   the log commit the tables hold the sibling branch's rows while the repository's best block still is (2,1); the re-sync
   restores the tables of (2,1); after AddBlock the re-sync changes nothing *)
Example log_crash_example :
  LogDB.ProofsCanon.imported Chain.Examples.ex_g Chain.Examples.ex_gp Chain.Examples.ex_tag Chain.Examples.ex_r3 ExamplesLog.lx_db2 /\
  Chain.Proofs.valid_add Chain.Examples.ex_r3 Chain.Examples.ex_b3' 0 /\
  LogCrash.lcut (LogCrash.mkNode Chain.Examples.ex_r3 ExamplesLog.lx_db2) Chain.Examples.ex_b3' 0 true 1
    = Some (LogCrash.mkNode Chain.Examples.ex_r3 ExamplesLog.lx_db4) /\
  map LogDB.Model.er_block (LogDB.Model.db_events ExamplesLog.lx_db2) = [Chain.Examples.bid 2 1] /\
  map LogDB.Model.er_block (LogDB.Model.db_events ExamplesLog.lx_db4) = [Chain.Examples.bid 2 2; Chain.Examples.bid 2 2] /\
  Chain.Model.r_best Chain.Examples.ex_r3 = Chain.Examples.bid 2 1 /\
  LogCrash.lrestart (LogCrash.mkNode Chain.Examples.ex_r3 ExamplesLog.lx_db4)
    = Some (LogCrash.mkNode Chain.Examples.ex_r3 ExamplesLog.lx_db2) /\
  LogCrash.lcut (LogCrash.mkNode Chain.Examples.ex_r3 ExamplesLog.lx_db2) Chain.Examples.ex_b3' 0 true 2
    = Some (LogCrash.mkNode Chain.Examples.ex_r4 ExamplesLog.lx_db4) /\
  LogCrash.lrestart (LogCrash.mkNode Chain.Examples.ex_r4 ExamplesLog.lx_db4)
    = Some (LogCrash.mkNode Chain.Examples.ex_r4 ExamplesLog.lx_db4).
Proof. exact (conj ExamplesLog.lx_imported (conj ExamplesLog.lx_valid ExamplesLog.lx_cut)). Qed.

(* non-vacuity of the key-value statements: block 3 of the example history becomes best; the log commit is the second of
   its five combined steps (account batch, LOG, index batch, block bulk, quality + finalized) *)
Example dual_example :
  let s := run ex_cfg ex_s0 (firstn 2 ex_hist) in
  becomes_best ex_cfg s (ex_blk 3 []) = true /\
  map (fun x => match x with WLog => true | WMain _ => false end) (dual_steps ex_cfg s (ex_blk 3 [])) = [false; true; false; false; false] /\
  stored (apply_writes s (mains (firstn 4 (dual_steps ex_cfg s (ex_blk 3 []))))) (bid 3 3) = true /\
  stored (apply_writes s (mains (firstn 3 (dual_steps ex_cfg s (ex_blk 3 []))))) (bid 3 3) = false.
Proof. exact ex_dual. Qed.

(* ---- value consistency and orphans_harmless.
   [key_ver k] is the (number, conflicts) version a key is stamped with (trie nodes, transactions, receipts, tx-index entries).
   Inv3 = FreshInv (a stored block's conflicts number is below ScanConflicts of its height) + VerInv (every node a stored root
   reaches carries the version of a stored block); it holds for every genesis store and at EVERY cut of every history. *)
Theorem every_cut_satisfies_inv3 c s0 hist k : wf_cfg c -> Inv c s0 -> Inv3 s0 -> wf_hist c s0 hist -> Inv3 (crash c s0 hist k).
Proof. exact (crash_inv3 c s0 hist k). Qed.

(* no import — complete or cut anywhere — writes a key stamped with the version of a stored block *)
Theorem import_never_rewrites_stored_version c s b j k v :
  FreshInv s -> key_ver k = Some v -> stored_ver s v ->
  get (apply_writes s (firstn j (import_batches c s b))) k = get s k.
Proof. exact (ProofsOrphans.import_never_rewrites_stored_version c s b j k v). Qed.

(* ... so everything a stored block wrote keeps its value over any number of further imports *)
Theorem run_keeps_stored_data c l s k v : wf_cfg c -> Inv c s -> Inv3 s -> wf_hist c s l ->
  key_ver k = Some v -> stored_ver s v -> get (run c s l) k = get s k.
Proof. exact (ProofsOrphans.run_keeps_stored_data c l s k v). Qed.

(* ... and after a crash at ANY cut, whatever block comes next (the interrupted one or another block that is given the same
   version as the leftovers) and however far its import gets: what a committed root resolves to does not change *)
Theorem reimport_after_crash_keeps_stored_data c s0 hist k b' j key v :
  wf_cfg c -> Inv c s0 -> Inv3 s0 -> wf_hist c s0 hist ->
  let s' := crash c s0 hist k in
  key_ver key = Some v -> stored_ver s' v ->
  get (apply_writes s' (firstn j (import_batches c s' b'))) key = get s' key.
Proof. exact (ProofsOrphans.reimport_after_crash_keeps_stored_data c s0 hist k b' j key v). Qed.

(* orphans_harmless: a versioned key written by an import whose block is not stored is reachable from no stored root *)
Theorem orphans_unreachable c s b j w o :
  Inv3 s -> In w (firstn j (import_batches c s b)) -> In o w -> stored s (b_id b) = false ->
  forall x sm, get_summary s x = Some sm -> key_ver (op_key o) <> None -> ~ In (op_key o) (s_sreach sm ++ s_ireach sm).
Proof. exact (ProofsOrphans.orphans_unreachable c s b j w o). Qed.

(* the tx index: at every cut each transaction of each stored block has its tx-index entry, and the (number, conflicts) in
   the entry's key identifies exactly one stored block — the block holding the transaction *)
Theorem tx_index_points_to_its_block c s0 hist k : wf_cfg c -> Inv c s0 -> Inv3 s0 -> Inv4 s0 -> wf_hist c s0 hist ->
  let s := crash c s0 hist k in
  forall x sm t, get_summary s x = Some sm -> In t (s_txs sm) ->
    has s (KTxMeta t (num_of x) (s_conf sm)) = true /\
    (forall y sy, get_summary s y = Some sy -> num_of y = num_of x -> s_conf sy = s_conf sm -> y = x).
Proof. exact (ProofsOrphans.tx_index_points_to_its_block c s0 hist k). Qed.

Theorem genesis_store_inv4 g : b_txs g = [] -> Inv4 (genesis_store g).
Proof. exact (genesis_inv4 g). Qed.

Theorem genesis_store_inv3 g : b_skeep g = [] -> b_ikeep g = [] -> Inv3 (genesis_store g).
Proof. exact (genesis_inv3 g). Qed.

Example orphan_exists_in_example :
  Inv3 ex_s0 /\ Inv4 ex_s0 /\
  has (crash ex_cfg ex_s0 ex_hist 9) (KNode 0 31 3 0) = true /\ stored (crash ex_cfg ex_s0 ex_hist 9) (bid 3 3) = false /\
  stored (crash ex_cfg ex_s0 ex_hist 9) (bid 2 2) = true.
Proof. exact (conj ex_inv3 (conj ex_inv4 ex_orphan)). Qed.

(* non-vacuity: a concrete genesis and a seven-block history over three committed epochs meet the hypotheses *)
Example hypotheses_met : wf_cfg ex_cfg /\ Inv ex_cfg ex_s0 /\ wf_hist ex_cfg ex_s0 ex_hist.
Proof. exact (conj ex_wf_cfg (conj ex_inv0 ex_wf_hist)). Qed.

Example history_not_trivial :
  get_id (run ex_cfg ex_s0 ex_hist) KBest = Some (bid 7 7) /\
  finalized ex_cfg (run ex_cfg ex_s0 ex_hist) = bid 4 4 /\
  map snd (tallies ex_cfg (run ex_cfg ex_s0 ex_hist)) = [4; 3; 2; 1].
Proof. exact ex_run_facts. Qed.

(* ================================================================ (* composition *) C13/C20 <-> C03/C04
   The crash model (key-value write log, justified/committed flags of a round as DATA) and wp-bft's model (coq/Bft: block list,
   vote tally from signers and COM bits, compressed ids) connected by a simulation (Compose/CrashBft.v).
   Parameters of the bridge: the Bft configuration [bc] with the same epoch length; an id translation [tr] on a domain [D]
   that keeps the block number and the order (hence injective; instance: CrashBft.tr_small / CrashBft.small, and what the C04
   harness does when it compresses ids); signer [sg] and COM bit [cm] of a block id (data the crash model does not carry).
   The coupling hypothesis (CrashBft.flags_ok / flags_are_tallies; per imported block CrashBft.blk_flags_ok inside blk_ok /
   hist_ok): the flags the crash side carries ARE Bft.Model.compute_state's for that block over the stored blocks. *)
Section Composition.
Variable c : cfg.
Variable bc : CrashBft.BM.cfg.
Hypothesis HcL : CrashBft.BM.c_L bc = c_L c.
Variable tr : N -> N.
Variable D : N -> Prop.
Hypothesis tr_num : forall a, D a -> CrashBft.BT.idnum (tr a) = num_of a.
Hypothesis tr_lt : forall a b, D a -> D b -> (tr a <? tr b) = (a <? b).
Variables (sg : N -> N) (cm : N -> bool) (master : N).

Local Notation ablk := (CrashBft.ablk tr sg cm).
Local Notation asum := (CrashBft.asum tr sg cm).
Local Notation abs := (CrashBft.abs c tr sg cm master).
Local Notation refines := (CrashBft.refines c tr D sg cm).
Local Notation view := (CrashBft.view c tr D sg cm).
Local Notation flags_ok := (CrashBft.flags_ok bc tr sg cm).
Local Notation flags_are_tallies := (CrashBft.flags_are_tallies c bc tr sg cm master).
Local Notation blk_ok := (CrashBft.blk_ok bc tr D sg cm).
Local Notation hist_ok := (CrashBft.hist_ok c bc tr D sg cm).
Local Notation sim := (CrashBft.sim c bc tr D sg cm).
Local Notation bft_import_all := (CrashBft.BN.import_all bc true).

(* the decision functions of the two models agree on related states: the parent-link walk with fuel and block_at on the
   structural chain; computeState's quality; findCheckpointByQuality (the two sort.Search definitions differ only when the
   fuel runs out, which it never does with the fuel both callers pass: bsearch_agree, pure arithmetic) *)
Theorem ancestor_walk_is_block_at s R qs id n : view s R qs -> D id ->
  option_map tr (anc s id n) = option_map CrashBft.BT.b_id (CrashBft.BT.block_at R (tr id) n).
Proof. intros V. exact (CrashBft.anc_block_at c bc HcL tr D tr_num tr_lt sg cm master s R qs V id n). Qed.

Theorem quality_of_is_compute_state s R qs id parent score just : view s R qs -> wf_cfg c -> D id -> D parent ->
  (num_of id = 0 \/ (stored s parent = true /\ num_of parent + 1 = num_of id)) ->
  just = CrashBft.BM.s_just (CrashBft.BM.compute_state bc R qs (CrashBft.ablk_of tr sg cm id parent score)) ->
  quality_of c s parent (num_of id) just =
  Some (CrashBft.BM.s_q (CrashBft.BM.compute_state bc R qs (CrashBft.ablk_of tr sg cm id parent score))).
Proof. intros V Hc. exact (CrashBft.quality_agree c bc HcL tr D tr_num tr_lt sg cm master s R qs V Hc id parent score just). Qed.

Theorem search_definitions_agree (f : N -> option bool) (g : N -> CrashBft.BM.res bool) :
  (forall h, CrashBft.rel_res eq (f h) (g h)) ->
  forall fuel i j, (N.to_nat (j - i) < fuel)%nat ->
  CrashBft.rel_res eq (bsearch fuel f i j) (CrashBft.BM.bsearch fuel g i j).
Proof. exact (CrashBft.bsearch_agree f g). Qed.

Theorem find_checkpoint_is_find_cp s R qs t fin head : view s R qs -> D fin -> D head ->
  CrashBft.rel_res (fun a b => b = tr a) (find_checkpoint c s t fin head) (CrashBft.BM.find_cp bc R qs t (tr fin) (tr head)).
Proof. intros V. exact (CrashBft.find_agree c bc HcL tr D tr_num tr_lt sg cm master s R qs V t fin head). Qed.

(* ONE IMPORT.  Node.processBlock on a store against Bft.Model.import on a node that refines it: the new store refines the
   new node (same stored blocks, same best block, same finalized block, same quality records), the coupling is kept, and
   the outcome classes agree (stored / known / parent missing / refused by Accepts; "too far ahead" is "parent missing") *)
Theorem crash_import_is_bft_import s nd b : wf_cfg c -> refines s nd -> flags_ok s nd -> blk_ok s nd b ->
  let s' := run1 c s b in
  let r := CrashBft.BM.import true bc nd (ablk b) in
  refines s' (fst r) /\ flags_ok s' (fst r) /\
  CrashBft.bft_class (snd r) = CrashBft.crash_class (CrashBft.crash_code c s b) /\
  CrashBft.BN.valid_child (CrashBft.BM.n_repo nd) (ablk b) /\
  CrashBft.crash_code c s b <> 6 /\
  CrashBft.BM.n_repo (fst r) = if CrashBft.crash_code c s b =? 0 then ablk b :: CrashBft.BM.n_repo nd else CrashBft.BM.n_repo nd.
Proof. exact (CrashBft.import_sim c bc HcL tr D tr_num tr_lt sg cm master s nd b). Qed.

(* RESTART of a store no import of which was cut = Bft.Model.restart (a crash image is covered by the resume theorems) *)
Theorem crash_restart_is_bft_restart s nd : wf_cfg c -> refines s nd -> Qinv c s -> Hinv s ->
  exists best, restart c true s = Some (s, best, finalized c s) /\
    refines s (CrashBft.BM.restart nd) /\ CrashBft.BM.n_best (CrashBft.BM.restart nd) = tr best /\
    CrashBft.BM.e_fin (CrashBft.BM.n_eng (CrashBft.BM.restart nd)) = tr (finalized c s).
Proof. exact (CrashBft.restart_sim c tr D sg cm s nd). Qed.

(* RESTART ON A CRASH IMAGE.  After a crash at ANY cut k of a history (i = index of the interrupted import), NewRepository +
   NewEngine with the F6 repair bring up a node that refines Bft.Model.restart of the Bft node that imported the first i
   blocks (the cut precedes the block bulk) or the first i + 1 (the cut follows it: the repair re-runs the pending
   CommitBlock).  Genesis stores satisfy the premise sim (genesis_is_bft_init). *)
Theorem crash_restart_is_bft_node s0 nd0 hist k i :
  wf_cfg2 c -> Inv2 c s0 -> wf_hist c s0 hist -> cut_in_import c s0 hist k i ->
  sim s0 nd0 -> hist_ok s0 nd0 hist ->
  let img := crash c s0 hist k in
  exists best, restart c true img = Some (restart_store c true img, best, finalized c (restart_store c true img)) /\
    (refines (restart_store c true img) (CrashBft.BM.restart (bft_import_all nd0 (map ablk (firstn i hist)))) \/
     refines (restart_store c true img) (CrashBft.BM.restart (bft_import_all nd0 (map ablk (firstn (S i) hist))))).
Proof. exact (CrashBft.crash_restart_sim c bc HcL tr D tr_num tr_lt sg cm master s0 nd0 hist k i). Qed.

Theorem genesis_is_bft_init g : wf_cfg c -> c_g c = b_id g -> b_skeep g = [] -> b_ikeep g = [] ->
  b_just g = false -> b_comm g = false -> D (b_id g) ->
  sim (genesis_store g) (CrashBft.BM.init_node (ablk g) master).
Proof. exact (CrashBft.genesis_sim c bc HcL tr D tr_num tr_lt sg cm master g). Qed.

(* from a genesis store *)
Section FromGenesis.
Variable g : blk.
Hypothesis Hc2 : wf_cfg2 c.
Hypothesis Hg : c_g c = b_id g.
Hypothesis Hk : b_skeep g = [].
Hypothesis Hi : b_ikeep g = [].
Hypothesis Hj : b_just g = false.
Hypothesis Hcm : b_comm g = false.
Hypothesis Hd : D (b_id g).
Local Notation gnode := (CrashBft.gnode tr sg cm master g).

(* the abstraction function along the uninterrupted run: abs of the store after the history refines it, satisfies the
   coupling, and is the Bft node after the same imports (same repository list, best, finalized, same record under every id) *)
Theorem abs_of_run_is_bft_run hist : hist_ok (genesis_store g) gnode hist ->
  let s := run c (genesis_store g) hist in
  let nd := bft_import_all gnode (map ablk hist) in
  refines s (abs s) /\ flags_are_tallies s /\
  CrashBft.BM.n_repo (abs s) = CrashBft.BM.n_repo nd /\ CrashBft.BM.n_best (abs s) = CrashBft.BM.n_best nd /\
  CrashBft.BM.e_fin (CrashBft.BM.n_eng (abs s)) = CrashBft.BM.e_fin (CrashBft.BM.n_eng nd) /\
  (forall i, D i -> CrashBft.BM.get_q (CrashBft.BM.e_qs (CrashBft.BM.n_eng (abs s))) (tr i) =
                    CrashBft.BM.get_q (CrashBft.BM.e_qs (CrashBft.BM.n_eng nd)) (tr i)).
Proof. exact (CrashBft.abs_of_run_is_bft_run c bc HcL tr D tr_num tr_lt sg cm master g Hc2 Hg Hk Hi Hj Hcm Hd hist). Qed.

(* CRASH + RESTART + RESUME.  After a crash at ANY cut of ANY import, restart (with the F6 repair) and resumption of the
   stream, the node is in the simulation relation with the Bft node that imported the same blocks without interruption:
   "tallies and finalized after crash+restart+resume are those of the Bft model on the same stored set" *)
Theorem resumed_node_is_bft_run hist k i :
  wf_hist c (genesis_store g) hist -> cut_in_import c (genesis_store g) hist k i -> hist_ok (genesis_store g) gnode hist ->
  let nd := bft_import_all gnode (map ablk hist) in
  exists r, resume c true (crash c (genesis_store g) hist k) (skipn i hist) = Some r /\
    sim r nd /\
    (exists best, get_id r KBest = Some best /\ CrashBft.BM.n_best nd = tr best) /\
    CrashBft.BM.e_fin (CrashBft.BM.n_eng nd) = tr (finalized c r) /\
    (forall id, D id -> CrashBft.BT.known (CrashBft.BM.n_repo nd) (tr id) = stored r id) /\
    (forall id, D id -> CrashBft.BM.get_q (CrashBft.BM.e_qs (CrashBft.BM.n_eng nd)) (tr id) = get_quality r id).
Proof. exact (CrashBft.resumed_is_bft_run c bc HcL tr D tr_num tr_lt sg cm master g Hc2 Hg Hk Hi Hj Hcm Hd hist k i). Qed.

(* C04 stored_quality_is_from_scratch, on every resumed node: the quality the node computes for a stored block from the
   records it finds after the crash — and the record itself at a store point — is the quality recomputed from the
   definitions (state_pure: no records, no caches) over the blocks it stores *)
Theorem stored_quality_is_from_scratch_after_resume hist k i :
  wf_hist c (genesis_store g) hist -> cut_in_import c (genesis_store g) hist k i -> hist_ok (genesis_store g) gnode hist ->
  let nd := bft_import_all gnode (map ablk hist) in
  exists r, resume c true (crash c (genesis_store g) hist k) (skipn i hist) = Some r /\
    forall id sm, get_summary r id = Some sm ->
      quality_of c r (s_parent sm) (num_of id) (s_just sm) =
        Some (CrashBft.BC.quality_pure bc (CrashBft.BT.chain_of (CrashBft.BM.n_repo nd) (tr id))) /\
      (is_storepoint (c_L c) (num_of id) = true ->
       get_quality r id = CrashBft.BC.quality_pure bc (CrashBft.BT.chain_of (CrashBft.BM.n_repo nd) (tr id))).
Proof. exact (CrashBft.resumed_quality_from_scratch c bc HcL tr D tr_num tr_lt sg cm master g Hc2 Hg Hk Hi Hj Hcm Hd hist k i). Qed.

(* C03 finalized_monotone, on every resumed node: along the history every finalized value of the Bft node has its
   predecessor on its chain (Bft.ProofsMonotone.monotone_from), these values are the crash model's finalized blocks after
   each import, and the resumed node holds the last of them *)
Theorem finalized_monotone_after_resume hist k i :
  wf_hist c (genesis_store g) hist -> cut_in_import c (genesis_store g) hist k i -> hist_ok (genesis_store g) gnode hist ->
  exists r, resume c true (crash c (genesis_store g) hist k) (skipn i hist) = Some r /\
    CrashBft.BMo.monotone_from (tr (b_id g)) (CrashBft.BMo.fin_trace bc true gnode (map ablk hist)) /\
    map snd (CrashBft.BMo.fin_trace bc true gnode (map ablk hist)) = map tr (CrashBft.cfin_trace c (genesis_store g) hist) /\
    finalized c r = last (CrashBft.cfin_trace c (genesis_store g) hist) (b_id g).
Proof. exact (CrashBft.resumed_finalized_monotone c bc HcL tr D tr_num tr_lt sg cm master g Hc2 Hg Hk Hi Hj Hcm Hd hist k i). Qed.

(* C04 finalized_is_function_of_set / import_set_order_independent, on resumed nodes: two nodes run two histories (any
   orders, duplicates, refused blocks) over a consistent block tree, each crashes at any cut, restarts and resumes; each
   one's finalized block is fin_char of the set it stores, and if they hold the same blocks (same id, parent, total score)
   they hold the same best block, the same finalized block and the same quality records *)
Theorem finalized_is_function_of_set_after_resume U h1 k1 i1 h2 k2 i2 :
  CrashBft.BO3.tree_consistent bc U -> In (ablk g) U ->
  (forall b, In b h1 \/ In b h2 -> In (ablk b) U) ->
  wf_hist c (genesis_store g) h1 -> cut_in_import c (genesis_store g) h1 k1 i1 -> hist_ok (genesis_store g) gnode h1 ->
  wf_hist c (genesis_store g) h2 -> cut_in_import c (genesis_store g) h2 k2 i2 -> hist_ok (genesis_store g) gnode h2 ->
  exists r1 r2,
    resume c true (crash c (genesis_store g) h1 k1) (skipn i1 h1) = Some r1 /\
    resume c true (crash c (genesis_store g) h2 k2) (skipn i2 h2) = Some r2 /\
    CrashBft.BO.fin_char bc (CrashBft.BM.n_repo (bft_import_all gnode (map ablk h1))) (tr (finalized c r1)) /\
    CrashBft.BO.fin_char bc (CrashBft.BM.n_repo (bft_import_all gnode (map ablk h2))) (tr (finalized c r2)) /\
    ((forall id, option_map (asum id) (get_summary r1 id) = option_map (asum id) (get_summary r2 id)) ->
     get_id r1 KBest = get_id r2 KBest /\ finalized c r1 = finalized c r2 /\
     (forall id, stored r1 id = true -> is_storepoint (c_L c) (num_of id) = true -> get_quality r1 id = get_quality r2 id)).
Proof.
  exact (CrashBft.resumed_function_of_set c bc HcL tr D tr_num tr_lt sg cm master g Hc2 Hg Hk Hi Hj Hcm Hd U h1 k1 i1 h2 k2 i2).
Qed.
End FromGenesis.
End Composition.

(* the premises of hist_ok stated once for a history: ids in the domain and numbered after their parents, Crash's trie-layer
   premise wf_hist, and the coupling along the Bft run *)
Theorem bridge_premises_from_static_ones c bc tr D sg cm l s nd :
  CrashBft.ids_ok D l -> wf_hist c s l -> CrashBft.flags_hist bc tr sg cm nd l -> CrashBft.hist_ok c bc tr D sg cm s nd l.
Proof. exact (CrashBft.hist_ok_intro c bc tr D sg cm l s nd). Qed.

(* non-vacuity: an id translation exists on ids with small low bits ... *)
Example id_bridge_instance :
  (forall a, CrashBft.small a -> CrashBft.BT.idnum (CrashBft.tr_small a) = num_of a) /\
  (forall a b, CrashBft.small a -> CrashBft.small b -> (CrashBft.tr_small a <? CrashBft.tr_small b) = (a <? b)).
Proof. exact (conj CrashBft.tr_small_num CrashBft.tr_small_lt). Qed.

(* ... every hypothesis of the theorems above holds of the example history (DEGENERATE: one signer, COM votes, one proposer
   slot, threshold 0, linear chain; the forked three-signer instance follows below) ... *)
Example bridge_hypotheses_met :
  CrashBft.BM.c_L CrashBftExamples.xbc = c_L ex_cfg /\
  (forall a, CrashBft.small a -> CrashBft.BT.idnum (CrashBft.tr_small a) = num_of a) /\
  (forall a b, CrashBft.small a -> CrashBft.small b -> (CrashBft.tr_small a <? CrashBft.tr_small b) = (a <? b)) /\
  wf_cfg2 ex_cfg /\ c_g ex_cfg = b_id ex_gen /\ b_skeep ex_gen = [] /\ b_ikeep ex_gen = [] /\
  b_just ex_gen = false /\ b_comm ex_gen = false /\ CrashBft.small (b_id ex_gen) /\
  wf_hist ex_cfg ex_s0 ex_hist /\
  CrashBft.hist_ok ex_cfg CrashBftExamples.xbc CrashBft.tr_small CrashBft.small CrashBftExamples.xsg CrashBftExamples.xcm
                   ex_s0 CrashBftExamples.xnode ex_hist.
Proof. exact CrashBftExamples.ex_bridge_hypotheses. Qed.

(* ... the coupling is CHECKED (vm_compute of the Bft tally against the stored flags) for the genesis store, the store after
   the history and the store resumed after the F6 cut ... *)
Example flags_are_tallies_on_example :
  CrashBft.flags_are_tallies ex_cfg CrashBftExamples.xbc CrashBft.tr_small CrashBftExamples.xsg CrashBftExamples.xcm
                             CrashBftExamples.xmaster ex_s0 /\
  CrashBft.flags_are_tallies ex_cfg CrashBftExamples.xbc CrashBft.tr_small CrashBftExamples.xsg CrashBftExamples.xcm
                             CrashBftExamples.xmaster (run ex_cfg ex_s0 ex_hist) /\
  match resume ex_cfg true (crash ex_cfg ex_s0 ex_hist f6_cut) (skipn 2 ex_hist) with
  | Some r => CrashBft.flags_are_tallies ex_cfg CrashBftExamples.xbc CrashBft.tr_small CrashBftExamples.xsg CrashBftExamples.xcm
                                         CrashBftExamples.xmaster r
  | None => False
  end.
Proof. exact CrashBftExamples.ex_flags_are_tallies. Qed.

(* ... the abstraction of the final store is the Bft node after the seven imports (best = block 7, finalized = block 4,
   quality records 1 2 3 4), the store resumed after the F6 cut abstracts to the same node, and the example tree is consistent *)
Example abs_on_example :
  CrashBft.BM.n_repo (CrashBftExamples.xabs (run ex_cfg ex_s0 ex_hist)) = CrashBft.BM.n_repo CrashBftExamples.xrun /\
  CrashBft.BM.n_best (CrashBftExamples.xabs (run ex_cfg ex_s0 ex_hist)) = CrashBft.BM.n_best CrashBftExamples.xrun /\
  CrashBft.BM.e_fin (CrashBft.BM.n_eng (CrashBftExamples.xabs (run ex_cfg ex_s0 ex_hist))) =
    CrashBft.BM.e_fin (CrashBft.BM.n_eng CrashBftExamples.xrun) /\
  length (CrashBft.BM.n_repo CrashBftExamples.xrun) = 8%nat /\
  CrashBft.BM.n_best CrashBftExamples.xrun = CrashBft.tr_small (bid 7 7) /\
  CrashBft.BM.e_fin (CrashBft.BM.n_eng CrashBftExamples.xrun) = CrashBft.tr_small (bid 4 4) /\
  map (fun k => CrashBft.BM.get_q (CrashBft.BM.e_qs (CrashBft.BM.n_eng CrashBftExamples.xrun)) (CrashBft.tr_small (bid k k))) [1; 3; 5; 7]
    = [1; 2; 3; 4] /\
  map (fun k => get_quality (run ex_cfg ex_s0 ex_hist) (bid k k)) [1; 3; 5; 7] = [1; 2; 3; 4].
Proof. exact CrashBftExamples.ex_abs_is_bft_run. Qed.

Example resumed_abs_on_example :
  cut_in_import ex_cfg ex_s0 ex_hist f6_cut 2 /\
  option_map (fun r => (CrashBft.BM.n_repo (CrashBftExamples.xabs r), CrashBft.BM.n_best (CrashBftExamples.xabs r),
                        CrashBft.BM.e_fin (CrashBft.BM.n_eng (CrashBftExamples.xabs r))))
    (resume ex_cfg true (crash ex_cfg ex_s0 ex_hist f6_cut) (skipn 2 ex_hist)) =
  Some (CrashBft.BM.n_repo CrashBftExamples.xrun, CrashBft.BM.n_best CrashBftExamples.xrun,
        CrashBft.BM.e_fin (CrashBft.BM.n_eng CrashBftExamples.xrun)).
Proof. exact CrashBftExamples.ex_resumed_abs. Qed.

Example consistent_tree_on_example :
  CrashBft.BO3.tree_consistent CrashBftExamples.xbc (CrashBft.BM.n_repo CrashBftExamples.xrun) /\
  In (CrashBft.ablk CrashBft.tr_small CrashBftExamples.xsg CrashBftExamples.xcm ex_gen) (CrashBft.BM.n_repo CrashBftExamples.xrun) /\
  (forall b, In b ex_hist ->
     In (CrashBft.ablk CrashBft.tr_small CrashBftExamples.xsg CrashBftExamples.xcm b) (CrashBft.BM.n_repo CrashBftExamples.xrun)).
Proof. exact CrashBftExamples.ex_tree. Qed.

(* a second, non-degenerate instance of the bridge (Compose/CrashBftFork.v): epoch length 4, three proposer slots (a round is
   justified by 3 distinct signers, committed by 3 COM votes), one non-COM vote, and a fork whose round is not justified.
   The crash-side flags are the Bft tally at import time (the coupling premise); the flags differ from block to block ... *)
Example fork_bridge_flags :
  map (fun b => (num_of (b_id b), b_just b, b_comm b)) CrashBftFork.fhist =
  [ (1, false, false); (2, false, false); (3, true, false);
    (4, false, false); (5, false, false); (6, true, true); (7, true, true);
    (6, false, false); (7, false, false);
    (8, false, false); (9, false, false); (10, true, true); (11, true, true) ].
Proof. exact CrashBftFork.fhist_flags. Qed.

(* ... every hypothesis of the bridge theorems holds of it ... *)
Example fork_bridge_hypotheses_met :
  CrashBft.BM.c_L CrashBftFork.fbc = c_L CrashBftFork.fcfg /\ wf_cfg2 CrashBftFork.fcfg /\
  c_g CrashBftFork.fcfg = b_id ex_gen /\ CrashBft.small (b_id ex_gen) /\
  wf_hist CrashBftFork.fcfg CrashBftFork.fs0 CrashBftFork.fhist /\
  CrashBft.hist_ok CrashBftFork.fcfg CrashBftFork.fbc CrashBft.tr_small CrashBft.small CrashBftFork.fsg CrashBftFork.fcm
                   CrashBftFork.fs0 CrashBftFork.fnode CrashBftFork.fhist.
Proof. exact CrashBftFork.f_bridge_hypotheses. Qed.

(* ... the derived coupling is checked on the final store and on the store resumed after the F6-window cut of the SIDE store
   point 7' ... *)
Example fork_flags_are_tallies :
  CrashBft.flags_are_tallies CrashBftFork.fcfg CrashBftFork.fbc CrashBft.tr_small CrashBftFork.fsg CrashBftFork.fcm
                             CrashBftFork.fmaster (run CrashBftFork.fcfg CrashBftFork.fs0 CrashBftFork.fhist) /\
  cut_in_import CrashBftFork.fcfg CrashBftFork.fs0 CrashBftFork.fhist CrashBftFork.f_cut 8 /\
  stored (crash CrashBftFork.fcfg CrashBftFork.fs0 CrashBftFork.fhist CrashBftFork.f_cut) (bid 7 7) = true /\
  has (crash CrashBftFork.fcfg CrashBftFork.fs0 CrashBftFork.fhist CrashBftFork.f_cut) (KQuality (bid 7 7)) = false /\
  match resume CrashBftFork.fcfg true (crash CrashBftFork.fcfg CrashBftFork.fs0 CrashBftFork.fhist CrashBftFork.f_cut)
               (skipn 8 CrashBftFork.fhist) with
  | Some r => CrashBft.flags_are_tallies CrashBftFork.fcfg CrashBftFork.fbc CrashBft.tr_small CrashBftFork.fsg CrashBftFork.fcm
                                         CrashBftFork.fmaster r
  | None => False
  end.
Proof. exact CrashBftFork.f_flags_are_tallies. Qed.

(* ... the abstraction of the crash store (final and resumed) is the Bft node that imported the thirteen blocks: 14 stored
   blocks, best = block 11, finalized = block 4, quality records 1, 2, 1 (side branch), 3 ... *)
Example fork_abs_is_bft_run :
  CrashBft.BM.n_repo (CrashBftFork.fabs (run CrashBftFork.fcfg CrashBftFork.fs0 CrashBftFork.fhist)) = CrashBft.BM.n_repo CrashBftFork.frun /\
  CrashBft.BM.n_best (CrashBftFork.fabs (run CrashBftFork.fcfg CrashBftFork.fs0 CrashBftFork.fhist)) = CrashBft.BM.n_best CrashBftFork.frun /\
  CrashBft.BM.e_fin (CrashBft.BM.n_eng (CrashBftFork.fabs (run CrashBftFork.fcfg CrashBftFork.fs0 CrashBftFork.fhist))) =
    CrashBft.BM.e_fin (CrashBft.BM.n_eng CrashBftFork.frun) /\
  length (CrashBft.BM.n_repo CrashBftFork.frun) = 14%nat /\
  CrashBft.BM.n_best CrashBftFork.frun = CrashBft.tr_small (bid 11 3) /\
  CrashBft.BM.e_fin (CrashBft.BM.n_eng CrashBftFork.frun) = CrashBft.tr_small (bid 4 0) /\
  map (fun id => CrashBft.BM.get_q (CrashBft.BM.e_qs (CrashBft.BM.n_eng CrashBftFork.frun)) (CrashBft.tr_small id))
      [bid 3 1; bid 7 3; bid 7 7; bid 11 3] = [1; 2; 1; 3] /\
  map (fun id => get_quality (run CrashBftFork.fcfg CrashBftFork.fs0 CrashBftFork.fhist) id) [bid 3 1; bid 7 3; bid 7 7; bid 11 3] = [1; 2; 1; 3] /\
  option_map (fun r => (CrashBft.BM.n_repo (CrashBftFork.fabs r), CrashBft.BM.n_best (CrashBftFork.fabs r),
                        CrashBft.BM.e_fin (CrashBft.BM.n_eng (CrashBftFork.fabs r))))
    (resume CrashBftFork.fcfg true (crash CrashBftFork.fcfg CrashBftFork.fs0 CrashBftFork.fhist CrashBftFork.f_cut) (skipn 8 CrashBftFork.fhist)) =
  Some (CrashBft.BM.n_repo CrashBftFork.frun, CrashBft.BM.n_best CrashBftFork.frun, CrashBft.BM.e_fin (CrashBft.BM.n_eng CrashBftFork.frun)).
Proof. exact CrashBftFork.f_abs_is_bft_run. Qed.

(* ... and a theorem of the FromGenesis section (resumed_node_is_bft_run) APPLIED to it *)
Example fork_resumed_node_is_bft_run :
  exists r, resume CrashBftFork.fcfg true (crash CrashBftFork.fcfg CrashBftFork.fs0 CrashBftFork.fhist CrashBftFork.f_cut)
                   (skipn 8 CrashBftFork.fhist) = Some r /\
    (exists best, get_id r KBest = Some best /\ CrashBft.BM.n_best CrashBftFork.frun = CrashBft.tr_small best) /\
    CrashBft.BM.e_fin (CrashBft.BM.n_eng CrashBftFork.frun) = CrashBft.tr_small (finalized CrashBftFork.fcfg r) /\
    (forall id, CrashBft.small id -> CrashBft.BT.known (CrashBft.BM.n_repo CrashBftFork.frun) (CrashBft.tr_small id) = stored r id) /\
    (forall id, CrashBft.small id ->
       CrashBft.BM.get_q (CrashBft.BM.e_qs (CrashBft.BM.n_eng CrashBftFork.frun)) (CrashBft.tr_small id) = get_quality r id).
Proof. exact CrashBftFork.f_resumed_is_bft_run. Qed.

Print Assumptions import_keeps_visible_complete.
Print Assumptions every_cut_satisfies_invariant.
Print Assumptions crash_consistent.
Print Assumptions crash_during_repair_is_consistent.
Print Assumptions fork_bridge_flags.
Print Assumptions fork_bridge_hypotheses_met.
Print Assumptions fork_flags_are_tallies.
Print Assumptions fork_abs_is_bft_run.
Print Assumptions fork_resumed_node_is_bft_run.
Print Assumptions bft_records_after_block.
Print Assumptions genesis_store_invariant.
Print Assumptions resume_quality_refuted.
Print Assumptions f6_witness_is_that_cut.
Print Assumptions without_repair_exactly_the_f6_cuts_diverge.
Print Assumptions with_repair_every_cut_of_the_example_converges.
Print Assumptions resume_converges.
Print Assumptions bft_commit_is_one_batch.
Print Assumptions f13_split_write_refuted.
Print Assumptions f13_witness.
Print Assumptions f13_stream_converges_with_the_repair.
Print Assumptions invq_and_lag_not_vacuous.
Print Assumptions resume_converges_observations.
Print Assumptions redelivered_known_block_is_noop.
Print Assumptions import_decisions_read_only_chain_keys.
Print Assumptions run_keeps_inv2.
Print Assumptions genesis_store_inv2.
Print Assumptions resume_hypotheses_met.
Print Assumptions lagging_import_step.
Print Assumptions find_checkpoint_is_least_epoch.
Print Assumptions run_keeps_invq.
Print Assumptions genesis_store_invq.
Print Assumptions main_db_sees_the_same_writes.
Print Assumptions visible_best_block_is_logged.
Print Assumptions log_commit_follows_state_commit.
Print Assumptions side_block_has_no_log_commit.
Print Assumptions log_crash_then_resync.
Print Assumptions resync_after_log_commit.
Print Assumptions log_crash_example.
Print Assumptions dual_example.
Print Assumptions every_cut_satisfies_inv3.
Print Assumptions import_never_rewrites_stored_version.
Print Assumptions run_keeps_stored_data.
Print Assumptions reimport_after_crash_keeps_stored_data.
Print Assumptions orphans_unreachable.
Print Assumptions tx_index_points_to_its_block.
Print Assumptions genesis_store_inv4.
Print Assumptions genesis_store_inv3.
Print Assumptions orphan_exists_in_example.
Print Assumptions hypotheses_met.
Print Assumptions history_not_trivial.
Print Assumptions ancestor_walk_is_block_at.
Print Assumptions quality_of_is_compute_state.
Print Assumptions search_definitions_agree.
Print Assumptions find_checkpoint_is_find_cp.
Print Assumptions crash_import_is_bft_import.
Print Assumptions crash_restart_is_bft_restart.
Print Assumptions crash_restart_is_bft_node.
Print Assumptions genesis_is_bft_init.
Print Assumptions abs_of_run_is_bft_run.
Print Assumptions resumed_node_is_bft_run.
Print Assumptions stored_quality_is_from_scratch_after_resume.
Print Assumptions finalized_monotone_after_resume.
Print Assumptions finalized_is_function_of_set_after_resume.
Print Assumptions bridge_premises_from_static_ones.
Print Assumptions id_bridge_instance.
Print Assumptions bridge_hypotheses_met.
Print Assumptions flags_are_tallies_on_example.
Print Assumptions abs_on_example.
Print Assumptions resumed_abs_on_example.
Print Assumptions consistent_tree_on_example.
