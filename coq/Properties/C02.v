(* Properties/C02.v — statements only.  "Validation rejects every block that breaks a protocol rule (even re-signed),
   a rejected block leaves no trace, validation never panics."
   Model: Header/Rules.v (validateBlockHeader, proposer validators), Validation/Body.v (Process/validate/
   validateBlockBody/verifyBlock, node import); catalogue: Validation/Catalogue.v (declarative, one Prop per rule).
   Abstract (Section variables of the theorems, universally quantified): transaction execution, reward hook, staker
   sanity check, the three Merkle roots, chain lookups.  Crypto results are data carried by the header / tx views. *)
From Coq Require Import List NArith ZArith Bool Lia.
From Verif Require Import Common.Util Common.GoInt Sched.Model Gen.GasLimit GenProofs.GasLimitProofs BaseFee.Model
     Header.Rules Header.Proofs Validation.Body Validation.Catalogue Validation.ProofsRules Validation.RuleCheck.
From Verif Require Chain.Model Chain.Proofs Chain.ProofsChainInv Chain.ProofsChainDep Compose.Replay Compose.ReplayExamples.
Import ListNotations.
Open Scope N_scope.

(* 0. the gas-limit step rule, over the go2v translation of block/gas_limit.go (regenerated on every run) *)
Theorem gas_limit_rule gl parent : u64 gl -> u64 parent ->
  GasLimit_IsValid gl parent = true <->
  (GasLimitProofs.min_gas_limit <= gl /\ Z.abs (gl - parent) <= parent / bound_divisor)%Z.
Proof. exact (is_valid_spec gl parent). Qed.

(* 1. the header rule chain accepts exactly the headers satisfying the declarative header rules *)
Theorem header_accept_iff cfg parent h now :
  h_gas_limit h < two64 -> h_gas_limit parent < two64 ->
  validate_header cfg parent h now = Accept <-> header_rules cfg parent h now.
Proof. exact (validate_header_accept_iff cfg parent h now). Qed.

Section C02.
  Variable State : Type.
  Variable exec : bctx -> State -> txn -> option (State * receipt).
  Variable apply_updates : bool -> N -> State -> list (N * bool) -> State.
  Variable rewards : bctx -> State -> option State.
  Variable sanity : State -> bool.
  Variable root_of_state : State -> N.
  Variable root_of_receipts : list receipt -> N.
  Variable root_of_txs : list txn -> N.
  Variable has_tx : N -> N -> bool.
  Variable find_meta : N -> option bool.

  Notation process := (process State exec apply_updates rewards sanity root_of_state root_of_receipts root_of_txs has_tx find_meta).
  Notation rule_holds := (rule_holds State exec apply_updates rewards sanity root_of_state root_of_receipts root_of_txs has_tx find_meta).
  Notation all_rules := (all_rules State exec apply_updates rewards sanity root_of_state root_of_receipts root_of_txs has_tx find_meta).
  Notation import := (import State exec apply_updates rewards sanity root_of_state root_of_receipts root_of_txs has_tx find_meta).

  (* 2. a block is accepted iff every rule of the catalogue holds (block interval > 0, gas limits < 2^64).
        For rules 11, 22, 23, 41-47 the catalogue uses the same Gallina functions as the validator model (base-fee
        formula, scheduler updates/score, leader beneficiary, plain sequential run): for those the iff relates the ORDER and
        SHAPE of the checks to the rule, not two independent formulas; rule 21 is stated through C05's slot owner. *)
  Theorem accept_iff_rules cfg pv parent st0 b now : 0 < c_interval cfg -> wf_gas parent b ->
    (exists st rcs, process cfg pv parent st0 b now = Accepted State st rcs) <-> all_rules cfg pv parent st0 b now.
  Proof. exact (accept_iff_rules_lemma State exec apply_updates rewards sanity root_of_state root_of_receipts root_of_txs has_tx find_meta cfg pv parent st0 b now). Qed.

  (* 3a. ANY breach — one rule or several, whatever the mutation — of a block that is not from the future (rule 3) and
         whose transactions and reward hook execute (rules 41, 46) is rejected with a consensus-critical error *)
  Theorem rule_breach_rejected_critical cfg pv parent st0 b now :
    0 < c_interval cfg -> wf_gas parent b -> parent_sane cfg parent ->
    ~ all_rules cfg pv parent st0 b now ->
    rule_holds cfg pv parent st0 b now 3 -> rule_holds cfg pv parent st0 b now 41 -> rule_holds cfg pv parent st0 b now 46 ->
    exists r, process cfg pv parent st0 b now = Rejected State (Critical r).
  Proof. exact (rule_breach_rejected_critical_lemma State exec apply_updates rewards sanity root_of_state root_of_receipts root_of_txs has_tx find_meta cfg pv parent st0 b now). Qed.

  (* 3b. exactly one rule broken (all others, incl. the crypto-report rules 7, 8, 20: "correctly re-signed") => consensus-
         critical, except the three rules the code classes otherwise (3 future, 41 non-executable tx, 46 reward hook).
         The catalogue's rules are independent enough for this to be satisfiable for every rule family of the property's
         mutation list: see the Examples below (one concrete mutant per family with EXACTLY that rule failing). *)
  Theorem single_mutation_rejected cfg pv parent st0 b now i :
    0 < c_interval cfg -> wf_gas parent b -> parent_sane cfg parent ->
    ~ rule_holds cfg pv parent st0 b now i ->
    (forall j, j <> i -> rule_holds cfg pv parent st0 b now j) ->
    non_critical_rule i = false ->
    exists r, process cfg pv parent st0 b now = Rejected State (Critical r).
  Proof. exact (single_mutation_rejected_lemma State exec apply_updates rewards sanity root_of_state root_of_receipts root_of_txs has_tx find_meta cfg pv parent st0 b now i). Qed.

  (* 3c. a breach of ANY rule that Process checks before executing transactions (header 1,2,4-12; proposer 20-23; txs root 30;
         body 31-37) is consensus-critical whether or not the transactions would execute — e.g. an unrecoverable origin,
         which breaks rule 31 and (with any exec satisfying C01's exec_sane) rule 41 as well, so that 3a and 3b do not apply.
         Only the clock rule 3 is required.  Not covered: breaches of the loop / root rules 40, 42-47 in a block where ALSO
         a transaction or the reward hook fails to execute (the code returns the raw runtime error there: reject_class). *)
  Theorem pre_execution_breach_rejected_critical cfg pv parent st0 b now i :
    0 < c_interval cfg -> wf_gas parent b -> parent_sane cfg parent ->
    rule_holds cfg pv parent st0 b now 3 -> pre_exec_rule i = true -> ~ rule_holds cfg pv parent st0 b now i ->
    exists r, process cfg pv parent st0 b now = Rejected State (Critical r).
  Proof. exact (pre_execution_breach_rejected_critical_lemma State exec apply_updates rewards sanity root_of_state root_of_receipts root_of_txs has_tx find_meta cfg pv parent st0 b now i). Qed.

  (* 4. every rejection is critical, or names the non-critical rule that failed; the model's panic sites (CalcBaseFee's nil
        dereference and division by zero) are unreachable for a child of a sane parent *)
  Theorem reject_class cfg pv parent st0 b now v : parent_sane cfg parent ->
    process cfg pv parent st0 b now = Rejected State v ->
    match v with
    | Critical _ => True
    | Future => ~ rule_holds cfg pv parent st0 b now 3
    | Other _ => ~ rule_holds cfg pv parent st0 b now 41 \/ ~ rule_holds cfg pv parent st0 b now 46
    | Accept | Panics => False
    end.
  Proof. exact (process_reject_class State exec apply_updates rewards sanity root_of_state root_of_receipts root_of_txs has_tx find_meta cfg pv parent st0 b now v). Qed.

  (* 4b. parent_sane is an invariant of accepted chains (below the uint64 wrap of gasLimit*75): a header that passed the
         header rules as a child of its own parent is a sane parent *)
  Theorem accepted_parent_sane cfg gp parent now :
    header_rules cfg gp parent now -> h_number parent = h_number gp + 1 -> h_number parent + 1 < 4294967296 ->
    (Z.of_N (h_gas_limit parent) <= max_nowrap_gas_limit)%Z -> parent_sane cfg parent.
  Proof. exact (accepted_parent_is_sane State apply_updates has_tx find_meta cfg gp parent now). Qed.

  (* 5. REMARK (by the shape of executeAndCommitBlock in the model: every write is issued after cons.Process returned nil):
        a rejected block issues no repository write and leaves the repository as it was.  On the implementation this
        clause is TESTED (Process level and on a real node.Node), not proved. *)
  Theorem rejected_leaves_no_trace cfg pv parent st0 rp b now conflicts known ps ba best rp' v :
    import cfg pv parent st0 rp b now conflicts known ps ba best = (rp', Rejected State v) -> rp' = rp.
  Proof. exact (rejected_leaves_no_trace_lemma State exec apply_updates rewards sanity root_of_state root_of_receipts root_of_txs has_tx find_meta cfg pv parent st0 rp b now conflicts known ps ba best rp' v). Qed.
End C02.

(* ================================================================ non-vacuity *)
(* A concrete PoA-v2 parent and valid block, a post-GALACTICA / FINALITY-later variant, a PoS variant; for every rule family of
   the property's mutation list a mutant on which EXACTLY that rule fails (every other catalogue rule holds), to which
   single_mutation_rejected applies. *)
Definition ex_exec (c : bctx) (st : N) (t : txn) : option (N * receipt) :=
  if t_gas t <? 21000 then None else Some (st + t_id t, mkRc 21000 (t_id t =? 9009) 5).
Definition ex_has (id _ : N) : bool := id =? 8000.                 (* tx 8000 is on the parent's chain *)
Definition ex_meta (id : N) : option bool := if id =? 8000 then Some false else if id =? 8001 then Some true else None.
Definition X_process cfg pv parent b now :=
  process N ex_exec (fun _ _ st _ => st) (fun _ st => Some (st + 1)) (fun _ => true) (fun st => st)
          (fun rs => N.of_nat (length rs)) (fun ts => N.of_nat (length ts)) ex_has ex_meta cfg pv parent 7 b now.
Definition X_rule cfg pv parent b now :=
  rule_holds N ex_exec (fun _ _ st _ => st) (fun _ st => Some (st + 1)) (fun _ => true) (fun st => st)
             (fun rs => N.of_nat (length rs)) (fun ts => N.of_nat (length ts)) ex_has ex_meta cfg pv parent 7 b now.
Definition X_check cfg pv parent b now i :=
  forallb (fun j => (j =? i) || rule_b N ex_exec (fun _ _ st _ => st) (fun _ st => Some (st + 1)) (fun _ => true) (fun st => st)
             (fun rs => N.of_nat (length rs)) (fun ts => N.of_nat (length ts)) ex_has ex_meta cfg pv parent 7 b now j) rule_ids.
Definition exactly cfg pv parent b now i :=
  ~ X_rule cfg pv parent b now i /\ (forall j, j <> i -> X_rule cfg pv parent b now j).

Lemma exactly_intro cfg pv parent b now i v : 0 < c_interval cfg -> wf_gas parent b ->
  X_check cfg pv parent b now i = true -> X_process cfg pv parent b now = Rejected N v -> exactly cfg pv parent b now i.
Proof. intros HT W Hc Hp. exact (exactly_one_rule_fails_by_check N _ _ _ _ _ _ _ _ _ cfg pv parent 7 b now i v HT W Hc Hp). Qed.

(* applying theorem 3b to such a mutant *)
Lemma exactly_critical cfg pv parent b now i : 0 < c_interval cfg -> wf_gas parent b -> parent_sane cfg parent ->
  exactly cfg pv parent b now i -> non_critical_rule i = false ->
  exists r, X_process cfg pv parent b now = Rejected N (Critical r).
Proof. intros HT W S [H1 H2] Hn. exact (single_mutation_rejected N _ _ _ _ _ _ _ _ _ cfg pv parent 7 b now i HT W S H1 H2 Hn). Qed.

Ltac exact_fail := eapply exactly_intro; [reflexivity | split; reflexivity | vm_compute; reflexivity | vm_compute; reflexivity].

(* ---- PoA v2, before FINALITY-independent forks; GALACTICA at 1000, FINALITY at 0 *)
Definition ex_cfg := mkCfg 0 0 0 0 1000 10 39.
Definition ex_parent := mkH 5 1000 10000000 0 0 50 0 1 777 0 (0, 0) false None 146 (Some 11) (Some (0, 0)).
Definition ex_cands := [ mkC (mkP 11 true 0) 2 111 None; mkC (mkP 22 true 0) 1 222 None ].
Definition ex_pv := mkPV false ex_cands 0 (fun _ => 0).
Definition tx1 := mkTx 9001 true false true false 39 4 32 0 0 false 21000 true None.
(* header: time gaslimit beneficiary gasused score txsroot features stateroot receiptsroot alpha com basefee siglen signer beta *)
Definition hdr time gl ben gu score troot feat sroot rroot alpha com bf sl sg beta :=
  mkH 6 time gl ben gu score troot feat sroot rroot alpha com bf sl sg beta.
Definition ex_header := hdr 1010 10000000 222 21000 52 1 1 9008 1 (32, 777) true None 146 (Some 22) (Some (32, 4242)).
Definition ex_block := mkB ex_header [tx1] None.

Example ex_accepted : X_process ex_cfg ex_pv ex_parent ex_block 1005 = Accepted N 9008 [mkRc 21000 false 5]
  /\ wf_gas ex_parent ex_block /\ parent_sane ex_cfg ex_parent /\ 0 < c_interval ex_cfg.
Proof. split; [vm_compute; reflexivity|]. split; [split; reflexivity|]. split; [split; [reflexivity | vm_compute; discriminate] | reflexivity]. Qed.

(* every catalogue rule holds on the valid block (through accept_iff_rules) *)
Example ex_all_rules : forall i, X_rule ex_cfg ex_pv ex_parent ex_block 1005 i.
Proof.
  apply (accept_iff_rules N _ _ _ _ _ _ _ _ _ ex_cfg ex_pv ex_parent 7 ex_block 1005); [reflexivity | split; reflexivity |].
  eexists. eexists. vm_compute. reflexivity.
Qed.

Definition with_hdr h := mkB h [tx1] None.
(* header family.  Note on rules 1 / 2 failing ALONE: slot_index uses truncated subtraction, so for a time at or before the parent's
   (or less than one interval after it) the slot is index 0 of the eligible sequence: the two mutants below keep rule 21 because the signer
   22 is that first element; for another signer a non-positive time shift breaks rule 21 as well (then 3a / 3c apply, not 3b) *)
Example mut_time_equals_parent :       (* rule 1 *)
  exactly ex_cfg ex_pv ex_parent (with_hdr (hdr 1000 10000000 222 21000 52 1 1 9008 1 (32, 777) true None 146 (Some 22) (Some (32, 4242)))) 1005 1.
Proof. exact_fail. Qed.
Example mut_time_off_interval :        (* rule 2 *)
  exactly ex_cfg ex_pv ex_parent (with_hdr (hdr 1015 10000000 222 21000 52 1 1 9008 1 (32, 777) true None 146 (Some 22) (Some (32, 4242)))) 1005 2.
Proof. exact_fail. Qed.
Example mut_gas_limit_beyond_bound :   (* rule 6: parent/1024 = 9765 *)
  exactly ex_cfg ex_pv ex_parent (with_hdr (hdr 1010 10009766 222 21000 52 1 1 9008 1 (32, 777) true None 146 (Some 22) (Some (32, 4242)))) 1005 6.
Proof. exact_fail. Qed.
Example mut_gas_limit_at_bound_is_valid :
  X_process ex_cfg ex_pv ex_parent (with_hdr (hdr 1010 10009765 222 21000 52 1 1 9008 1 (32, 777) true None 146 (Some 22) (Some (32, 4242)))) 1005
  = Accepted N 9008 [mkRc 21000 false 5].
Proof. vm_compute. reflexivity. Qed.
Example mut_alpha_wrong :              (* rule 8 *)
  exactly ex_cfg ex_pv ex_parent (with_hdr (hdr 1010 10000000 222 21000 52 1 1 9008 1 (32, 778) true None 146 (Some 22) (Some (32, 4242)))) 1005 8.
Proof. exact_fail. Qed.
Example mut_vrf_proof_invalid :        (* rule 8 *)
  exactly ex_cfg ex_pv ex_parent (with_hdr (hdr 1010 10000000 222 21000 52 1 1 9008 1 (32, 777) true None 146 (Some 22) None)) 1005 8.
Proof. exact_fail. Qed.
Example mut_features :                 (* rule 12 (the tx itself uses no feature) *)
  exactly ex_cfg ex_pv ex_parent (with_hdr (hdr 1010 10000000 222 21000 52 1 0 9008 1 (32, 777) true None 146 (Some 22) (Some (32, 4242)))) 1005 12.
Proof. exact_fail. Qed.
(* proposer family *)
Example mut_unauthorised_signer :      (* rule 20 *)
  exactly ex_cfg ex_pv ex_parent (with_hdr (hdr 1010 10000000 222 21000 52 1 1 9008 1 (32, 777) true None 146 (Some 33) (Some (32, 4242)))) 1005 20.
Proof. exact_fail. Qed.
Example mut_other_master_signs :       (* rule 21: 11 is authorised, the slot is 22's *)
  exactly ex_cfg ex_pv ex_parent (with_hdr (hdr 1010 10000000 222 21000 52 1 1 9008 1 (32, 777) true None 146 (Some 11) (Some (32, 4242)))) 1005 21.
Proof. exact_fail. Qed.
Example mut_score_plus_one :           (* rule 22 *)
  exactly ex_cfg ex_pv ex_parent (with_hdr (hdr 1010 10000000 222 21000 53 1 1 9008 1 (32, 777) true None 146 (Some 22) (Some (32, 4242)))) 1005 22.
Proof. exact_fail. Qed.
(* body family *)
Definition with_txs h txs := mkB h txs None.
Example mut_txs_root :                 (* rule 30 *)
  exactly ex_cfg ex_pv ex_parent (with_hdr (hdr 1010 10000000 222 21000 52 2 1 9008 1 (32, 777) true None 146 (Some 22) (Some (32, 4242)))) 1005 30.
Proof. exact_fail. Qed.
Example mut_tx_chain_tag :             (* rule 33 *)
  exactly ex_cfg ex_pv ex_parent (with_txs ex_header [mkTx 9001 true false true false 38 4 32 0 0 false 21000 true None]) 1005 33.
Proof. exact_fail. Qed.
Example mut_tx_future_ref :            (* rule 34 *)
  exactly ex_cfg ex_pv ex_parent (with_txs ex_header [mkTx 9001 true false true false 39 7 32 0 0 false 21000 true None]) 1005 34.
Proof. exact_fail. Qed.
Example mut_tx_expired :               (* rule 35 *)
  exactly ex_cfg ex_pv ex_parent (with_txs ex_header [mkTx 9001 true false true false 39 1 4 0 0 false 21000 true None]) 1005 35.
Proof. exact_fail. Qed.
Example mut_tx_typed_before_galactica : (* rule 36 *)
  exactly ex_cfg ex_pv ex_parent (with_txs ex_header [mkTx 9001 true false true false 39 4 32 81 0 false 21000 true None]) 1005 36.
Proof. exact_fail. Qed.
Example mut_tx_unsupported_feature :   (* rule 37 *)
  exactly ex_cfg ex_pv ex_parent (with_txs ex_header [mkTx 9001 true false true false 39 4 32 0 2 false 21000 true None]) 1005 37.
Proof. exact_fail. Qed.
Example mut_tx_unused_reserved :       (* rule 37 *)
  exactly ex_cfg ex_pv ex_parent (with_txs ex_header [mkTx 9001 true false true false 39 4 32 0 0 true 21000 true None]) 1005 37.
Proof. exact_fail. Qed.
(* re-execution family *)
Example mut_tx_already_on_chain :      (* rule 40: id 8000 is on the parent's chain *)
  exactly ex_cfg ex_pv ex_parent
    (with_txs (hdr 1010 10000000 222 21000 52 1 1 8007 1 (32, 777) true None 146 (Some 22) (Some (32, 4242)))
              [mkTx 8000 true false true false 39 4 32 0 0 false 21000 true None]) 1005 40.
Proof. exact_fail. Qed.
Example mut_tx_duplicate_in_block :    (* rule 40 *)
  exactly ex_cfg ex_pv ex_parent
    (with_txs (hdr 1010 10000000 222 42000 52 2 1 18009 2 (32, 777) true None 146 (Some 22) (Some (32, 4242))) [tx1; tx1]) 1005 40.
Proof. exact_fail. Qed.
Example mut_tx_dependency_unknown :    (* rule 42 *)
  exactly ex_cfg ex_pv ex_parent (with_txs ex_header [mkTx 9001 true false true false 39 4 32 0 0 false 21000 true (Some 5555)]) 1005 42.
Proof. exact_fail. Qed.
Example mut_tx_dependency_reverted_on_chain :  (* rule 42: 8001 is on the chain, reverted *)
  exactly ex_cfg ex_pv ex_parent (with_txs ex_header [mkTx 9001 true false true false 39 4 32 0 0 false 21000 true (Some 8001)]) 1005 42.
Proof. exact_fail. Qed.
Example mut_tx_dependency_reverted_in_block :  (* rule 42: tx 9009 reverts in the VM *)
  exactly ex_cfg ex_pv ex_parent
    (with_txs (hdr 1010 10000000 222 42000 52 2 1 18017 2 (32, 777) true None 146 (Some 22) (Some (32, 4242)))
              [mkTx 9009 true false true false 39 4 32 0 0 false 21000 true None; mkTx 9001 true false true false 39 4 32 0 0 false 21000 true (Some 9009)]) 1005 42.
Proof. exact_fail. Qed.
Example mut_gas_used_plus_one :        (* rule 43 *)
  exactly ex_cfg ex_pv ex_parent (with_hdr (hdr 1010 10000000 222 21001 52 1 1 9008 1 (32, 777) true None 146 (Some 22) (Some (32, 4242)))) 1005 43.
Proof. exact_fail. Qed.
Example mut_receipts_root :            (* rule 44 *)
  exactly ex_cfg ex_pv ex_parent (with_hdr (hdr 1010 10000000 222 21000 52 1 1 9008 77 (32, 777) true None 146 (Some 22) (Some (32, 4242)))) 1005 44.
Proof. exact_fail. Qed.
Example mut_state_root :               (* rule 47 *)
  exactly ex_cfg ex_pv ex_parent (with_hdr (hdr 1010 10000000 222 21000 52 1 1 9009 1 (32, 777) true None 146 (Some 22) (Some (32, 4242)))) 1005 47.
Proof. exact_fail. Qed.
(* over-limit gas: the block's transactions use more gas than its limit (48 x 21000 > 1 000 000 = the parent's limit) while the
   header's gasUsed is the executed gas: exactly rule 4 fails *)
Definition small_parent := mkH 5 1000 1000000 0 0 50 0 1 777 0 (0, 0) false None 146 (Some 11) (Some (0, 0)).
Definition many_txs := map (fun k => mkTx (9001 + N.of_nat k) true false true false 39 4 32 0 0 false 21000 true None) (seq 0 48).
Example mut_over_limit_gas :           (* rule 4 *)
  exactly ex_cfg ex_pv small_parent
    (mkB (hdr 1010 1000000 222 1008000 52 48 1 433183 48 (32, 777) true None 146 (Some 22) (Some (32, 4242))) many_txs None) 1005 4.
Proof. exact_fail. Qed.
Example mut_receipts_root_fixed_by_table :
  X_process ex_cfg ex_pv ex_parent (mkB (hdr 1010 10000000 222 21000 52 1 1 9008 77 (32, 777) true None 146 (Some 22) (Some (32, 4242))) [tx1] (Some 1)) 1005
  = Accepted N 9008 [mkRc 21000 false 5].
Proof. vm_compute. reflexivity. Qed.

(* ---- after GALACTICA (fork at 3), before FINALITY (fork at 100), before VIP214 is irrelevant (0) *)
Definition g_cfg := mkCfg 0 0 0 100 3 10 39.
Definition g_parent := mkH 5 1000 10000000 0 7500000 50 0 1 777 0 (0, 0) false (Some 10000000000000) 146 (Some 11) (Some (0, 0)).
Definition g_header := hdr 1010 10000000 222 21000 52 1 1 9008 1 (32, 777) false (Some 10000000000000) 146 (Some 22) (Some (32, 4242)).
Example g_accepted : X_process g_cfg ex_pv g_parent (with_hdr g_header) 1005 = Accepted N 9008 [mkRc 21000 false 5]
  /\ parent_sane g_cfg g_parent.
Proof. split; [vm_compute; reflexivity | split; [reflexivity | vm_compute; discriminate]]. Qed.
Example mut_base_fee_plus_one :        (* rule 11 *)
  exactly g_cfg ex_pv g_parent (with_hdr (hdr 1010 10000000 222 21000 52 1 1 9008 1 (32, 777) false (Some 10000000000001) 146 (Some 22) (Some (32, 4242)))) 1005 11.
Proof. exact_fail. Qed.
Example mut_base_fee_missing :         (* rule 11 *)
  exactly g_cfg ex_pv g_parent (with_hdr (hdr 1010 10000000 222 21000 52 1 1 9008 1 (32, 777) false None 146 (Some 22) (Some (32, 4242)))) 1005 11.
Proof. exact_fail. Qed.
Example mut_com_before_finality :      (* rule 9 *)
  exactly g_cfg ex_pv g_parent (with_hdr (hdr 1010 10000000 222 21000 52 1 1 9008 1 (32, 777) true (Some 10000000000000) 146 (Some 22) (Some (32, 4242)))) 1005 9.
Proof. exact_fail. Qed.
Example mut_base_fee_before_galactica : (* rule 10, on the first configuration *)
  exactly ex_cfg ex_pv ex_parent (with_hdr (hdr 1010 10000000 222 21000 52 1 1 9008 1 (32, 777) true (Some 10000000000000) 146 (Some 22) (Some (32, 4242)))) 1005 10.
Proof. exact_fail. Qed.

(* ---- PoS: the signer's validation has a contract-level beneficiary 999 *)
Definition s_cands := [ mkC (mkP 11 true 60) 2 111 None; mkC (mkP 22 true 40) 1 222 (Some 999) ].
Definition s_pv := mkPV true s_cands 100 (fun _ => 0).
Definition s_header := hdr 1010 10000000 999 21000 10050 1 1 9009 1 (32, 777) true None 146 (Some 22) (Some (32, 4242)).
Example s_accepted : X_process ex_cfg s_pv ex_parent (with_hdr s_header) 1005 = Accepted N 9009 [mkRc 21000 false 5].
Proof. vm_compute. reflexivity. Qed.
Example mut_pos_beneficiary_mismatch : (* rule 23 *)
  exactly ex_cfg s_pv ex_parent (with_hdr (hdr 1010 10000000 998 21000 10050 1 1 9009 1 (32, 777) true None 146 (Some 22) (Some (32, 4242)))) 1005 23.
Proof. exact_fail. Qed.

(* theorem 3b applied: each of these mutants is rejected with a consensus-critical error *)
Example single_mutation_applies :
  (exists r, X_process ex_cfg ex_pv ex_parent (with_hdr (hdr 1000 10000000 222 21000 52 1 1 9008 1 (32, 777) true None 146 (Some 22) (Some (32, 4242)))) 1005 = Rejected N (Critical r)) /\
  (exists r, X_process ex_cfg ex_pv ex_parent (with_hdr (hdr 1010 10000000 222 21000 52 1 1 9008 1 (32, 777) true None 146 (Some 33) (Some (32, 4242)))) 1005 = Rejected N (Critical r)) /\
  (exists r, X_process ex_cfg ex_pv ex_parent (with_txs ex_header [mkTx 9001 true false true false 39 1 4 0 0 false 21000 true None]) 1005 = Rejected N (Critical r)).
Proof.
  assert (S : parent_sane ex_cfg ex_parent) by (split; [reflexivity | vm_compute; discriminate]).
  split; [|split].
  - apply (exactly_critical _ _ _ _ _ 1); [reflexivity | split; reflexivity | exact S | exact mut_time_equals_parent | reflexivity].
  - apply (exactly_critical _ _ _ _ _ 20); [reflexivity | split; reflexivity | exact S | exact mut_unauthorised_signer | reflexivity].
  - apply (exactly_critical _ _ _ _ _ 35); [reflexivity | split; reflexivity | exact S | exact mut_tx_expired | reflexivity].
Qed.

(* the classes the code reports otherwise *)
Example other_classes :
  X_process ex_cfg ex_pv ex_parent ex_block 999 = Rejected N Future /\
  X_process ex_cfg ex_pv ex_parent (with_txs ex_header [mkTx 9001 true false true false 39 4 32 0 0 false 20999 true None]) 1005 = Rejected N (Other 53).
Proof. split; vm_compute; reflexivity. Qed.

(* theorem 3c applied: an origin-unrecoverable transaction that the runtime also refuses (rules 31 AND 41 fail): critical *)
Example origin_unrecoverable_is_critical :
  let b := with_txs ex_header [mkTx 9001 false false true false 39 4 32 0 0 false 20999 true None] in
  ~ X_rule ex_cfg ex_pv ex_parent b 1005 31 /\ ~ X_rule ex_cfg ex_pv ex_parent b 1005 41 /\
  exists r, X_process ex_cfg ex_pv ex_parent b 1005 = Rejected N (Critical r).
Proof.
  cbv zeta. assert (H31 : ~ X_rule ex_cfg ex_pv ex_parent (with_txs ex_header [mkTx 9001 false false true false 39 4 32 0 0 false 20999 true None]) 1005 31).
  { intros H. inversion H as [|? ? [C _] _]. discriminate C. }
  split; [exact H31|]. split.
  - intros H. destruct (H (mkP 22 true 0)) as (stf & rs & C); [exists 22; split; reflexivity | vm_compute in C; discriminate C].
  - apply (pre_execution_breach_rejected_critical N _ _ _ _ _ _ _ _ _ ex_cfg ex_pv ex_parent 7 _ 1005 31);
      [reflexivity | split; reflexivity | split; [reflexivity | vm_compute; discriminate] | vm_compute; discriminate | reflexivity | exact H31].
Qed.

(* theorem 3a applied to a breach of two rules at once (total score = the parent's: rules 5 and 22) *)
Example two_rule_breach_is_critical :
  let b := with_hdr (hdr 1010 10000000 222 21000 50 1 1 9008 1 (32, 777) true None 146 (Some 22) (Some (32, 4242))) in
  ~ X_rule ex_cfg ex_pv ex_parent b 1005 5 /\ ~ X_rule ex_cfg ex_pv ex_parent b 1005 22 /\
  exists r, X_process ex_cfg ex_pv ex_parent b 1005 = Rejected N (Critical r).
Proof.
  cbv zeta. split; [intros H; vm_compute in H; discriminate H|]. split.
  - intros H. specialize (H (mkP 22 true 0) ltac:(exists 22; split; reflexivity)). vm_compute in H. discriminate H.
  - apply (rule_breach_rejected_critical N _ _ _ _ _ _ _ _ _ ex_cfg ex_pv ex_parent 7 _ 1005);
      [reflexivity | split; reflexivity | split; [reflexivity | vm_compute; discriminate] | | vm_compute; discriminate | | ].
    + intros A. specialize (A 5). vm_compute in A. discriminate A.
    + apply (rule_b_sound N _ _ _ _ _ _ _ _ _ ex_cfg ex_pv ex_parent 7 _ 1005 41). vm_compute. reflexivity.
    + apply (rule_b_sound N _ _ _ _ _ _ _ _ _ ex_cfg ex_pv ex_parent 7 _ 1005 46). vm_compute. reflexivity.
Qed.

(* theorem 4b applied: the valid block of the first Example, accepted as a child of ex_parent, is a sane parent *)
Example accepted_block_is_sane_parent : parent_sane ex_cfg ex_header.
Proof.
  apply (accepted_parent_sane N (fun _ _ st _ => st) ex_has ex_meta ex_cfg ex_parent ex_header 1005);
    [apply header_accept_iff; [reflexivity | reflexivity | vm_compute; reflexivity] | reflexivity | reflexivity | vm_compute; discriminate].
Qed.

Print Assumptions gas_limit_rule.
Print Assumptions header_accept_iff.
Print Assumptions accept_iff_rules.
Print Assumptions rule_breach_rejected_critical.
Print Assumptions single_mutation_rejected.
Print Assumptions reject_class.
Print Assumptions accepted_parent_sane.
Print Assumptions rejected_leaves_no_trace.
Print Assumptions single_mutation_applies.
Print Assumptions pre_execution_breach_rejected_critical.
Print Assumptions exactly_intro.
Print Assumptions exactly_critical.
Print Assumptions origin_unrecoverable_is_critical.
Print Assumptions two_rule_breach_is_critical.
Print Assumptions accepted_block_is_sane_parent.

(* ================================================================ composition *)
(* C02 <-> C09 (Compose/Replay.v).  The chain lookups has_tx / find_meta, abstract above, instantiated with C09's repository
   (Chain/Model.v: HasTransaction / GetTransactionMeta on the parent's chain, Replay.has_tx_of / find_meta_of): the body and
   re-execution rules of this file and C09's independently written `validate` give the same verdict on every block, and every
   chain of blocks `process` accepted satisfies C09's first sentence.  Remaining premise: lookups_total (C02's lookups cannot
   fail, C09's can on a corrupt database) - discharged on every repository reached by AddBlock calls. *)
Section Composition.
  Variable State : Type.
  Variable exec : bctx -> State -> txn -> option (State * receipt).
  Variable apply_updates : bool -> N -> State -> list (N * bool) -> State.
  Variable rewards : bctx -> State -> option State.
  Variable sanity : State -> bool.
  Variable root_of_state : State -> N.
  Variable root_of_receipts : list receipt -> N.
  Variable root_of_txs : list txn -> N.
  Notation process_on := (Replay.process_on State exec apply_updates rewards sanity root_of_state root_of_receipts root_of_txs).

  (* 6. validateBlockBody: same verdict as C09's body_rules on every transaction list *)
  Theorem body_check_same_verdict_as_c09 cfg num feats txs ctxs : Forall2 Replay.same_tx txs ctxs ->
    match body_txs_check cfg num feats txs with
    | None => Chain.Model.body_rules (c_chain_tag cfg) num ctxs = Chain.Model.V_ok
    | Some c => match Replay.replay_class c with
                | Some v => Chain.Model.body_rules (c_chain_tag cfg) num ctxs = v
                | None => True
                end
    end.
  Proof. exact (Replay.body_same_verdict cfg num feats txs ctxs). Qed.

  (* 7. verifyBlock's loop: same verdict as C09's verify_loop on every transaction list, from every loop state *)
  Theorem verify_loop_same_verdict_as_c09 r p ctx txs ctxs st proc used :
    Replay.lookups_total r p -> Forall2 Replay.same_tx txs ctxs ->
    match verify_txs State exec (Replay.has_tx_of r p) (Replay.find_meta_of r p) ctx txs st proc used with
    | VOk _ _ rcs _ => Replay.exec_flags State exec ctx st txs = map r_reverted rcs /\
                       Chain.Model.verify_loop r p proc ctxs (map r_reverted rcs) = Chain.Model.V_ok
    | VBad _ v => match Replay.loop_class v with
                  | Some cv => Chain.Model.verify_loop r p proc ctxs (Replay.exec_flags State exec ctx st txs) = cv
                  | None => v = Other 53 \/ v = Critical 54
                  end
    end.
  Proof. intros LT S. exact (Replay.verify_same_verdict State exec r p LT ctx txs ctxs S st proc used). Qed.

  (* 8. the block: accepted iff C09's validate accepts and the rules C09 does not model hold *)
  Theorem accepted_iff_c09_validate cfg pv parent st0 b now r cb st2 rcs :
    wf_gas parent b -> Replay.linked cfg parent r b cb -> Replay.lookups_total r (Chain.Model.b_parent cb) ->
    map Chain.Model.rc_rev (Chain.Model.b_rcs cb) = map r_reverted rcs ->
    process_on r (Chain.Model.b_parent cb) cfg pv parent st0 b now = Accepted State st2 rcs <->
    Chain.Model.validate r cb = Chain.Model.V_ok /\
    Replay.accept_rest State exec apply_updates rewards sanity root_of_state root_of_receipts root_of_txs cfg pv parent st0 b now st2 rcs.
  Proof. exact (Replay.process_accept_iff_validate State exec apply_updates rewards sanity root_of_state root_of_receipts root_of_txs cfg pv parent st0 b now r cb st2 rcs). Qed.

  (* 9. every chain of blocks accepted by `process` carries every transaction at most once, with the chain tag, inside its
        validity window (C09 accepted_chain_inv with its premise "every block passed validate" discharged) *)
  Theorem accepted_chain_satisfies_c09 g gp tag (U : Chain.Model.txrec -> Prop) :
    (forall t1 t2, U t1 -> U t2 -> Chain.Model.tx_id t1 = Chain.Model.tx_id t2 -> t1 = t2) ->
    Chain.Model.num_of g = 0 -> Chain.Model.num_of gp = Chain.Model.max_u32 ->
    forall r, Chain.Proofs.reachable g gp tag
                (Replay.c02_accepted State exec apply_updates rewards sanity root_of_state root_of_receipts root_of_txs U) r ->
    forall h, Chain.Proofs.stored r h ->
      (forall a t, Chain.Proofs.anc r h a -> Chain.ProofsChainInv.tx_in r a t ->
         U t /\ Chain.Model.tx_tag t = tag /\ Chain.Model.tx_ref t <= Chain.Model.num_of a /\
         Chain.Model.num_of a <= Chain.Model.tx_ref t + Chain.Model.tx_exp t) /\
      (forall a1 t1 a2 t2, Chain.Proofs.anc r h a1 -> Chain.Proofs.anc r h a2 -> Chain.ProofsChainInv.tx_in r a1 t1 ->
         Chain.ProofsChainInv.tx_in r a2 t2 -> Chain.Model.tx_id t1 = Chain.Model.tx_id t2 -> a1 = a2) /\
      (forall a s b, Chain.Proofs.anc r h a -> Chain.Model.get_block r a = Some (s, b) ->
         NoDup (map Chain.Model.tx_id (Chain.Model.b_txs b))).
  Proof. exact (Replay.c02_chain_at_most_once_in_window State exec apply_updates rewards sanity root_of_state root_of_receipts root_of_txs g gp tag U). Qed.
End Composition.

(* non-vacuity of 9: the fork history of Chain/Examples.v is a history of blocks accepted by `process` *)
Example accepted_chain_example :
  Chain.Proofs.reachable Chain.Examples.ex_g Chain.Examples.ex_gp Chain.Examples.ex_tag
    (Replay.c02_accepted N ReplayExamples.x_exec (fun _ _ st _ => st) (fun _ st => Some (st + 1)) (fun _ => true) (fun st => st)
                         (fun rs => N.of_nat (length rs)) (fun ts => N.of_nat (length ts)) ReplayExamples.x_U) Chain.Examples.ex_r4.
Proof. exact (proj2 (proj2 (proj2 ReplayExamples.fork_history_accepted_by_c02))). Qed.

Print Assumptions body_check_same_verdict_as_c09.
Print Assumptions verify_loop_same_verdict_as_c09.
Print Assumptions accepted_iff_c09_validate.
Print Assumptions accepted_chain_satisfies_c09.
Print Assumptions accepted_chain_example.
