(* Properties/C02.v — statements only.  "Validation rejects every block that breaks a protocol rule (even re-signed),
   a rejected block leaves no trace, validation never panics."
   Model: Header/Rules.v (validateBlockHeader, proposer validators), Validation/Body.v (Process/validate/
   validateBlockBody/verifyBlock, node import); catalogue: Validation/Catalogue.v (declarative, one Prop per rule).
   Abstract (Section variables of the theorems, universally quantified): transaction execution, reward hook, staker
   sanity check, the three Merkle roots, chain lookups.  Crypto results are data carried by the header / tx views. *)
From Coq Require Import List NArith ZArith Bool Lia.
From Verif Require Import Common.Util Common.GoInt Sched.Model Gen.GasLimit GenProofs.GasLimitProofs BaseFee.Model
     Header.Rules Header.Proofs Validation.Body Validation.Catalogue Validation.ProofsRules.
Import ListNotations.
Open Scope N_scope.

(* 0. the gas-limit step rule, over the go2v translation of block/gas_limit.go (regenerated on every run) *)
Theorem gas_limit_rule gl parent : u64 gl -> u64 parent ->
  GasLimit_IsValid gl parent = true <->
  (GasLimitProofs.min_gas_limit <= gl /\ Z.abs (gl - parent) <= parent / bound_divisor)%Z.
Proof. exact (is_valid_spec gl parent). Qed.

(* 1. the header rule chain accepts exactly the headers satisfying the declarative header rules *)
Theorem header_accept_iff cfg parent h now :
  h_gas_limit h < two64 -> h_gas_limit parent < two64 ->
  validate_header cfg parent h now = Accept <-> header_rules cfg parent h now.
Proof. exact (validate_header_accept_iff cfg parent h now). Qed.

Section C02.
  Variable State : Type.
  Variable exec : bctx -> State -> txn -> option (State * receipt).
  Variable apply_updates : bool -> N -> State -> list (N * bool) -> State.
  Variable rewards : bctx -> State -> option State.
  Variable sanity : State -> bool.
  Variable root_of_state : State -> N.
  Variable root_of_receipts : list receipt -> N.
  Variable root_of_txs : list txn -> N.
  Variable has_tx : N -> N -> bool.
  Variable find_meta : N -> option bool.

  Notation process := (process State exec apply_updates rewards sanity root_of_state root_of_receipts root_of_txs has_tx find_meta).
  Notation rule_holds := (rule_holds State exec apply_updates rewards sanity root_of_state root_of_receipts root_of_txs has_tx find_meta).
  Notation all_rules := (all_rules State exec apply_updates rewards sanity root_of_state root_of_receipts root_of_txs has_tx find_meta).
  Notation import := (import State exec apply_updates rewards sanity root_of_state root_of_receipts root_of_txs has_tx find_meta).

  (* 2. a block is accepted iff every rule of the catalogue holds *)
  Theorem accept_iff_rules cfg pv parent st0 b now : wf_gas parent b ->
    (exists st rcs, process cfg pv parent st0 b now = Accepted State st rcs) <-> all_rules cfg pv parent st0 b now.
  Proof. exact (accept_iff_rules_lemma State exec apply_updates rewards sanity root_of_state root_of_receipts root_of_txs has_tx find_meta cfg pv parent st0 b now). Qed.

  (* 3. exactly one rule broken (all crypto-report rules included among "the others", i.e. the block is correctly
        re-signed) => rejected with a consensus-critical error; the three rules whose breach the code reports with a
        different class (3: future block, 41: a transaction does not execute, 46: reward hook fails) are excluded *)
  Theorem single_mutation_rejected cfg pv parent st0 b now i :
    wf_gas parent b -> parent_sane cfg parent ->
    ~ rule_holds cfg pv parent st0 b now i ->
    (forall j, j <> i -> rule_holds cfg pv parent st0 b now j) ->
    non_critical_rule i = false ->
    exists r, process cfg pv parent st0 b now = Rejected State (Critical r).
  Proof. exact (single_mutation_rejected_lemma State exec apply_updates rewards sanity root_of_state root_of_receipts root_of_txs has_tx find_meta cfg pv parent st0 b now i). Qed.

  (* 4. every rejection is critical, or names the non-critical rule that failed; validation of a child of a sane
        parent never panics *)
  Theorem reject_class cfg pv parent st0 b now v : parent_sane cfg parent ->
    process cfg pv parent st0 b now = Rejected State v ->
    match v with
    | Critical _ => True
    | Future => ~ rule_holds cfg pv parent st0 b now 3
    | Other _ => ~ rule_holds cfg pv parent st0 b now 41 \/ ~ rule_holds cfg pv parent st0 b now 46
    | Accept | Panics => False
    end.
  Proof. exact (process_reject_class State exec apply_updates rewards sanity root_of_state root_of_receipts root_of_txs has_tx find_meta cfg pv parent st0 b now v). Qed.

  (* 5. a rejected import leaves the repository exactly as it was; an accepted one adds exactly that block *)
  Theorem rejected_leaves_no_trace cfg pv parent st0 rp b now conflicts best rp' v :
    import cfg pv parent st0 rp b now conflicts best = (rp', Rejected State v) -> rp' = rp.
  Proof. exact (rejected_leaves_no_trace_lemma State exec apply_updates rewards sanity root_of_state root_of_receipts root_of_txs has_tx find_meta cfg pv parent st0 rp b now conflicts best rp' v). Qed.
End C02.

(* ---- non-vacuity: a concrete PoA-v2 block that satisfies every rule, and single mutations of it *)
Definition ex_cfg := mkCfg 0 0 0 0 1000 10 39.
Definition ex_parent := mkH 5 1000 10000000 0 0 50 0 1 777 0 (0, 0) false None 146 (Some 11) (Some (0, 0)).
Definition ex_cands := [ mkC (mkP 11 true 0) 2 111 None; mkC (mkP 22 true 0) 1 222 None ].
Definition ex_pv := mkPV false ex_cands 0 (fun _ => 0).
Definition ex_tx := mkTx 9001 true false true false 39 4 32 0 0 false 21000 true None.
Definition ex_exec (_ : bctx) (st : N) (t : txn) : option (N * receipt) := Some (st + t_id t, mkRc 21000 false 5).
Definition ex_header := mkH 6 1010 10000000 222 21000 52 1 1 9008 1 (32, 777) true None 146 (Some 22) (Some (32, 4242)).
Definition ex_block := mkB ex_header [ex_tx] None.
Definition ex_process b now :=
  process N ex_exec (fun _ _ st _ => st) (fun _ st => Some st) (fun _ => true) (fun st => st)
          (fun rs => N.of_nat (length rs)) (fun ts => N.of_nat (length ts)) (fun _ _ => false) (fun _ => None)
          ex_cfg ex_pv ex_parent 7 b now.

Example ex_accepted : ex_process ex_block 1005 = Accepted N 9008 [mkRc 21000 false 5]
  /\ wf_gas ex_parent ex_block /\ parent_sane ex_cfg ex_parent.
Proof. split; [vm_compute; reflexivity|]. split; [split; vm_compute; reflexivity|]. split; [vm_compute; reflexivity | vm_compute; discriminate]. Qed.

(* timestamp one interval later (not the signer's slot), gas limit one beyond the bound, an expired transaction *)
Example ex_mutants :
  ex_process (mkB (mkH 6 1020 10000000 222 21000 52 1 1 9008 1 (32, 777) true None 146 (Some 22) (Some (32, 4242))) [ex_tx] None) 1015
    = Rejected N (Critical 22) /\
  ex_process (mkB (mkH 6 1010 10009766 222 21000 52 1 1 9008 1 (32, 777) true None 146 (Some 22) (Some (32, 4242))) [ex_tx] None) 1005
    = Rejected N (Critical 6) /\
  ex_process (mkB ex_header [mkTx 9001 true false true false 39 1 4 0 0 false 21000 true None] None) 1005
    = Rejected N (Critical 37) /\
  ex_process ex_block 999 = Rejected N Future /\
  (* a wrong receipts root is accepted exactly when the correction table lists the recomputed root for this block *)
  ex_process (mkB (mkH 6 1010 10000000 222 21000 52 1 1 9008 77 (32, 777) true None 146 (Some 22) (Some (32, 4242))) [ex_tx] (Some 1)) 1005
    = Accepted N 9008 [mkRc 21000 false 5] /\
  ex_process (mkB (mkH 6 1010 10000000 222 21000 52 1 1 9008 77 (32, 777) true None 146 (Some 22) (Some (32, 4242))) [ex_tx] None) 1005
    = Rejected N (Critical 56).
Proof. repeat split; vm_compute; reflexivity. Qed.

Print Assumptions gas_limit_rule.
Print Assumptions header_accept_iff.
Print Assumptions accept_iff_rules.
Print Assumptions single_mutation_rejected.
Print Assumptions reject_class.
Print Assumptions rejected_leaves_no_trace.
