(* Properties/C03.v — statements only.  "Finality is safe; on a single node finalized only moves forward along its own
   ancestry; with all validators honest and timely delivery finality keeps advancing."  Model: Bft/Model.v. *)
From Coq Require Import List NArith Bool Lia.
From Verif Require Import Common.Util Bft.Tree Bft.Model Bft.Quorum Bft.ProofsTally Bft.ProofsChain Bft.ProofsNode
  Bft.Safety Bft.ProofsWitness Bft.ProofsFinal Bft.ProofsMonotone Bft.ProofsCommit
  Bft.ProofsFind Bft.ProofsLive Bft.ProofsLive2 Bft.ProofsVote Bft.ProofsSuffix Bft.ProofsSafety.
Import ListNotations.
Open Scope N_scope.

(* 1. quorum intersection for exactly the thresholds of Summarize.  Vote-count mode: among at most n candidate
      signers, two signer sets of more than n*2/3 (integer division) share more than (n-1)/3 members, hence a member
      outside any Byzantine set of fewer than n/3. *)
Theorem quorum_intersection_count (n : N) (u a b : list N) :
  NoDup a -> NoDup b -> incl a u -> incl b u -> N.of_nat (length u) <= n ->
  n * 2 / 3 < N.of_nat (length a) -> n * 2 / 3 < N.of_nat (length b) ->
  (n - 1) / 3 < N.of_nat (length (inter a b)).
Proof. exact (quorum_intersection_count_lemma n u a b). Qed.

Theorem quorum_honest_count (n : N) (u a b byz : list N) :
  NoDup a -> NoDup b -> NoDup byz -> incl a u -> incl b u -> N.of_nat (length u) <= n ->
  3 * N.of_nat (length byz) < n ->
  n * 2 / 3 < N.of_nat (length a) -> n * 2 / 3 < N.of_nat (length b) ->
  exists x, In x a /\ In x b /\ ~ In x byz.
Proof. exact (quorum_honest_member_count n u a b byz). Qed.

(* Weight mode: two sets each weighing more than total*2/3 share more than a third of the total weight, hence a member
   outside any Byzantine set weighing less than a third. *)
Theorem quorum_intersection_weight (w : N -> N) (total : N) (u a b : list N) :
  NoDup u -> NoDup a -> NoDup b -> incl a u -> incl b u -> sumw w u <= total ->
  total * 2 / 3 < sumw w a -> total * 2 / 3 < sumw w b ->
  total < 3 * sumw w (inter a b).
Proof. exact (quorum_intersection_weight_lemma w total u a b). Qed.

Theorem quorum_honest_weight (w : N -> N) (total : N) (u a b byz : list N) :
  NoDup u -> NoDup a -> NoDup b -> NoDup byz -> incl a u -> incl b u -> incl byz u -> sumw w u <= total ->
  3 * sumw w byz < total ->
  total * 2 / 3 < sumw w a -> total * 2 / 3 < sumw w b ->
  exists x, In x a /\ In x b /\ ~ In x byz.
Proof. exact (quorum_honest_member_weight w total u a b byz). Qed.

Example quorum_example : (* n = 4: threshold 2, two sets of three share two members *)
  NoDup [1;2;3] /\ 4 * 2 / 3 < N.of_nat (length [1;2;3]) /\ inter [1;2;3] [2;3;4] = [2;3].
Proof. split; [repeat constructor; cbn; intuition discriminate | split; vm_compute; reflexivity]. Qed.

(* 2. protocol facts used by every safety argument: a committed epoch is justified; quality never decreases along a
      chain and grows by at most one per block; justification is monotone in the set of votes *)
Theorem committed_implies_justified c pq seg :
  s_comm (summarize (tally c pq seg)) = true -> s_just (summarize (tally c pq seg)) = true.
Proof. exact (committed_implies_justified_lemma c pq seg). Qed.

Theorem quality_monotone c b t : 0 < c_L c -> grounded (b :: t) ->
  quality_pure c t <= quality_pure c (b :: t) <= quality_pure c t + 1.
Proof. intros HL. exact (quality_step c HL b t). Qed.

Theorem justified_monotone c pq seg1 seg2 :
  incl (map (vote_of c) seg1) (map (vote_of c) seg2) ->
  s_just (summarize (tally c pq seg1)) = true -> s_just (summarize (tally c pq seg2)) = true.
Proof. exact (justified_monotone_lemma c pq seg1 seg2). Qed.

(* 3. single node: along any import history the node's records equal the definitions and its fork choice is the
      maximum of the total order (so what it votes on is a function of what it stores) *)
Theorem import_history_invariants c guard g master bs : 0 < c_L c -> b_num g = 0 ->
  (forall nd b, inv c nd -> In b bs -> valid_child (n_repo nd) b) ->
  inv c (import_all c guard (init_node g master) bs).
Proof. intros HL Hg Hv. apply import_all_inv; [exact HL | apply init_inv; exact Hg | exact Hv]. Qed.

(* 3b. the single-node clause.  One import step (any block, any guard variant): the new finalized checkpoint has the old
       one on its chain (descendant-or-equal), finalized stays a stored block, and a block that gets stored by this
       step has the finalized checkpoint of that moment on its chain (anything else is refused by Accepts). *)
Theorem finalized_monotone_step c guard nd b : 0 < c_L c -> inv c nd -> fin_ok nd -> valid_child (n_repo nd) b ->
  let nd' := fst (import guard c nd b) in
  has_block (n_repo nd') (e_fin (n_eng nd')) (e_fin (n_eng nd)) = true /\ fin_ok nd' /\
  (known (n_repo nd) (b_id b) = false -> known (n_repo nd') (b_id b) = true ->
   has_block (n_repo nd') (b_id b) (e_fin (n_eng nd)) = true).
Proof. intros HL. exact (import_monotone c HL guard nd b). Qed.

(* along any import history from genesis: every finalized value has its predecessor on its chain *)
Theorem finalized_monotone c guard g master bs : 0 < c_L c -> b_num g = 0 ->
  (forall nd b, inv c nd -> In b bs -> valid_child (n_repo nd) b) ->
  monotone_from (b_id g) (fin_trace c guard (init_node g master) bs).
Proof.
  intros HL Hg Hv.
  exact (finalized_monotone_lemma c HL guard bs (init_node g master) (init_inv c g master Hg) (init_fin_ok g master) Hv).
Qed.

(* ... and no such import fails in CommitBlock (C04's commit_block_total seen from C03: a block descending from
   finalized is importable) *)
Theorem accepted_block_imports_without_error : commit_block_total_statement true.
Proof. exact commit_block_total_lemma. Qed.

Theorem finalized_moves_forward guard c r e b packing :
  let e' := fst (commit_block guard c r e b packing) in
  e_fin e' = e_fin e \/
  exists x, In x (chain_of r (b_id b)) /\ e_fin e' = b_id x /\ idnum (e_fin e) <= b_num x.
Proof. exact (commit_block_finalized guard c r e b packing). Qed.

(* 3c. liveness (third sentence).
   (i)  On a node that has seen only one chain (every stored block lies on the chain of every later one), whatever it
        voted before and whether its votes record is live or rebuilt after a restart, ShouldVote answers COM exactly
        when the new block is past the first round and the parent's quality is positive.
   (ii) honest_chain = every block carries that bit.  On such a chain an epoch in which more than two thirds (count or
        weight, as Summarize selects) signed is justified, and if the chain already held a justified epoch when it
        began, all its votes are COM and it is committed.
   (iii) CommitBlock of its last block then moves finalized to the checkpoint of the previous epoch (when that epoch was
        itself the first to reach its quality: it was justified, or it is finalized's own epoch). *)
Theorem honest_vote_on_one_chain c r e p a : 0 < c_L c ->
  grounded r -> wf_repo r -> qs_ok c r (e_qs e) -> In p r ->
  match e_casts e with Some ca => casts_stored r ca | None => True end ->
  idnum (e_fin e) = a * c_L c ->
  (s_just (state_pure c (chain_of r (b_id p))) = false -> c_L c <= b_num p -> a * c_L c + c_L c <= checkpoint (c_L c) (b_num p)) ->
  snd (should_vote c r e (b_id p)) =
  Ok (negb ((b_num p + 1) / c_L c =? 0) && (0 <? quality_pure c (chain_of r (b_id p)))).
Proof. intros HL. exact (should_vote_linear c HL r e p a). Qed.

Theorem quorum_is_justified c pq seg :
  (if thr_weight c =? 0 then thr_votes c <? N.of_nat (length (signers seg))
   else thr_weight c <? sumw (weight_of c) (signers seg)) = true <->
  s_just (summarize (tally c pq seg)) = true.
Proof. split; [exact (quorum_justifies c pq seg) | exact (justified_needs_quorum c pq seg)]. Qed.

Theorem linear_liveness c ch b t kb : 0 < c_L c ->
  grounded ch -> ch = b :: t -> honest_chain c ch -> b_num b = kb * c_L c + c_L c - 1 -> 1 <= kb ->
  (if thr_weight c =? 0 then thr_votes c <? N.of_nat (length (signers (snd (epoch_info c ch))))
   else thr_weight c <? sumw (weight_of c) (signers (snd (epoch_info c ch)))) = true ->
  1 <= quality_pure c (suffix_at (kb * c_L c - 1) ch) ->
  s_just (state_pure c ch) = true /\ s_comm (state_pure c ch) = true /\
  quality_pure c ch = quality_pure c (suffix_at (kb * c_L c - 1) ch) + 1.
Proof. intros HL. exact (epoch_committed c HL ch b t kb). Qed.

Theorem finalized_advances_at_store_point c r e b a kb : 0 < c_L c ->
  wf_repo r -> find_blk r (b_id b) = Some b ->
  qs_ok c r ((b_id b, s_q (compute_state c r (e_qs e) b)) :: e_qs e) ->
  compute_state c r (e_qs e) b = state_pure c (chain_of r (b_id b)) ->
  idnum (e_fin e) = a * c_L c -> b_num b = kb * c_L c + c_L c - 1 -> a < kb ->
  s_comm (state_pure c (chain_of r (b_id b))) = true -> 1 < quality_pure c (chain_of r (b_id b)) ->
  (kb - 1 = a \/ (2 <= kb /\ q_epoch c r (b_id b) (kb - 2) < q_epoch c r (b_id b) (kb - 1))) ->
  exists y, block_at r (b_id b) ((kb - 1) * c_L c) = Some y /\ b_num y = (kb - 1) * c_L c /\
            e_fin (fst (commit_block true c r e b false)) = b_id y.
Proof. intros HL. exact (commit_finalizes c HL r e b a kb). Qed.

(* non-vacuity: n = 4, L = 4, blocks 1..3 non-COM (first round), 4..7 COM, four distinct signers per epoch *)
Definition live_chain : list blk :=
  rev (gen :: map (fun k => mkB (mkid k 1) (mkid (k - 1) 1) (k mod 4 + 1) (3 <? k) k) [1;2;3;4;5;6;7]).
Example linear_liveness_example :
  grounded live_chain /\ honest_chain cfg4 live_chain /\
  s_comm (state_pure cfg4 live_chain) = true /\ quality_pure cfg4 live_chain = 2.
Proof.
  split; [vm_compute; intuition reflexivity|]. split; [|vm_compute; split; reflexivity].
  unfold live_chain. cbn [rev map app honest_chain]. repeat split; intros _; vm_compute; reflexivity.
Qed.

(* 4. general safety.  The statement over all valid runs (every honest block proposed by its signer on its own best
      block with the engine's COM bit, score increments within 1..n being *data* of the run, fewer than a third
      Byzantine) is REFUTED in the model: the `quality >= headQuality-1` window of ShouldVote forgets an own
      conflicting vote once the head quality has moved two ahead (DESIGN §5-F4; n = 4, one Byzantine).  The witness
      needs two honest validators to move, at equal quality, to a head that does not extend their last vote
      (f4_needs_tie_switch); whether real block production (scheduler scores) permits that is not settled, so the
      safety statement under the explicit fork-choice premise stays a Prop (bft_safety_under_premise): _partial. *)
(* proved parts of the safety argument (DESIGN §4): the node invariants hold along any event history; Lemma A; Lemma B;
   the intersection half of same_quality_commit_exclusive.  What stays open: same_quality_commit_exclusive itself (the
   run-level link "the later of an honest validator's two COM votes still sees the earlier one in its votes record",
   across Mark overwrites, restarts and the finalized filter) and bft_safety_under_premise. *)
Theorem node_invariants_along_events c guard nd : 0 < c_L c -> inv c nd ->
  (forall b, valid_child (n_repo nd) b -> inv c (fst (import guard c nd b))) /\
  (forall b, valid_child (n_repo nd) b -> known (n_repo nd) (b_id b) = false -> known (n_repo nd) (b_parent b) = true ->
             inv c (fst (fst (propose guard c nd b)))) /\
  inv c (restart nd).
Proof.
  intros HL Hi. split; [intros b Hv; exact (import_inv c HL guard nd b Hi Hv)|].
  split; [intros b Hv Hf Hp; exact (propose_inv c HL guard nd b Hi Hv Hf Hp) | exact (restart_inv c nd Hi)].
Qed.

Theorem lemma_A_head_quality_monotone c nd x : 0 < c_L c -> inv c nd -> In x (n_repo nd) ->
  qual c (n_repo nd) x <= qual c (n_repo nd) (best_blk nd).
Proof. intros HL. exact (head_quality_monotone c HL nd x). Qed.

Theorem lemma_B_com_lock c r e parent e' :
  should_vote c r e parent = (e', Ok true) ->
  exists p recent ca,
    find_blk r parent = Some p /\ e_casts e' = Some ca /\
    0 < s_q (compute_state c r (e_qs e) p) /\ (idnum parent + 1) / c_L c <> 0 /\
    (forall cp q, In (cp, q) ca -> idnum (e_fin e) <= idnum cp -> s_q (compute_state c r (e_qs e) p) - 1 <= q ->
       has_block r cp recent = true \/ has_block r recent cp = true).
Proof. exact (should_vote_com_inv c r e parent e'). Qed.

Theorem same_quality_commit_exclusive_partial c pq1 pq2 seg1 seg2 (u byz : list N) :
  thr_weight c = 0 -> incl (signers seg1) u -> incl (signers seg2) u -> N.of_nat (length u) <= c_mbp c -> c_pos c = false ->
  NoDup byz -> 3 * N.of_nat (length byz) < c_mbp c ->
  s_comm (summarize (tally c pq1 seg1)) = true -> s_comm (summarize (tally c pq2 seg2)) = true ->
  exists h, ~ In h byz /\
    (exists x, In x seg1 /\ b_signer x = h) /\ (forall x, In x seg1 -> b_signer x = h -> b_com x = true) /\
    (exists x, In x seg2 /\ b_signer x = h) /\ (forall x, In x seg2 -> b_signer x = h -> b_com x = true).
Proof. intros Hp. exact (double_commit_honest_voter c Hp pq1 pq2 seg1 seg2 u byz). Qed.

Definition same_quality_commit_exclusive := same_quality_commit_exclusive_statement true.

Definition bft_safety_without_premise := bft_safety_statement true.
Definition bft_safety_under_premise := bft_safety_under_premise_statement true.

Theorem bft_safety_without_premise_refuted : ~ bft_safety_statement true.
Proof. exact (bft_safety_refuted_lemma true). Qed.

Theorem f4_needs_tie_switch : valid_run_b true cfg4 [4] f4_world [gen] f4_run = true /\ no_tie_switch_b true cfg4 f4_world f4_run = false.
Proof. split; [exact (f4_valid true) | exact (f4_breaks_premise true)]. Qed.

Example f4_end_state : In (b_id x4) (all_fins true cfg4 f4_world f4_run) /\ In (b_id y12) (all_fins true cfg4 f4_world f4_run) /\
                       conflict (seen_after [gen] f4_run) (b_id x4) (b_id y12) = true.
Proof. destruct (f4_fins true) as [A B]. split; [exact A | split; [exact B | exact f4_conflict]]. Qed.

Print Assumptions quorum_intersection_count.
Print Assumptions quorum_honest_count.
Print Assumptions quorum_intersection_weight.
Print Assumptions quorum_honest_weight.
Print Assumptions committed_implies_justified.
Print Assumptions quality_monotone.
Print Assumptions justified_monotone.
Print Assumptions import_history_invariants.
Print Assumptions finalized_monotone_step.
Print Assumptions finalized_monotone.
Print Assumptions accepted_block_imports_without_error.
Print Assumptions finalized_moves_forward.
Print Assumptions honest_vote_on_one_chain.
Print Assumptions quorum_is_justified.
Print Assumptions linear_liveness.
Print Assumptions finalized_advances_at_store_point.
Print Assumptions node_invariants_along_events.
Print Assumptions lemma_A_head_quality_monotone.
Print Assumptions lemma_B_com_lock.
Print Assumptions same_quality_commit_exclusive_partial.
Print Assumptions bft_safety_without_premise_refuted.
Print Assumptions f4_needs_tie_switch.
