(* Properties/C03.v — statements only.  "Finality is safe; on a single node finalized only moves forward along its own
   ancestry; with all validators honest and timely delivery finality keeps advancing."  Model: Bft/Model.v. *)
From Coq Require Import List NArith Bool Lia.
From Verif Require Import Common.Util Bft.Tree Bft.Model Bft.Quorum Bft.ProofsTally.
Import ListNotations.
Open Scope N_scope.

(* 1. quorum intersection for exactly the thresholds of Summarize.  Vote-count mode: among at most n candidate
      signers, two signer sets of more than n*2/3 (integer division) share more than (n-1)/3 members, hence a member
      outside any Byzantine set of fewer than n/3. *)
Theorem quorum_intersection_count (n : N) (u a b : list N) :
  NoDup a -> NoDup b -> incl a u -> incl b u -> N.of_nat (length u) <= n ->
  n * 2 / 3 < N.of_nat (length a) -> n * 2 / 3 < N.of_nat (length b) ->
  (n - 1) / 3 < N.of_nat (length (inter a b)).
Proof. exact (quorum_intersection_count_lemma n u a b). Qed.

Theorem quorum_honest_count (n : N) (u a b byz : list N) :
  NoDup a -> NoDup b -> NoDup byz -> incl a u -> incl b u -> N.of_nat (length u) <= n ->
  3 * N.of_nat (length byz) < n ->
  n * 2 / 3 < N.of_nat (length a) -> n * 2 / 3 < N.of_nat (length b) ->
  exists x, In x a /\ In x b /\ ~ In x byz.
Proof. exact (quorum_honest_member_count n u a b byz). Qed.

(* Weight mode: two sets each weighing more than total*2/3 share more than a third of the total weight, hence a member
   outside any Byzantine set weighing less than a third. *)
Theorem quorum_intersection_weight (w : N -> N) (total : N) (u a b : list N) :
  NoDup u -> NoDup a -> NoDup b -> incl a u -> incl b u -> sumw w u <= total ->
  total * 2 / 3 < sumw w a -> total * 2 / 3 < sumw w b ->
  total < 3 * sumw w (inter a b).
Proof. exact (quorum_intersection_weight_lemma w total u a b). Qed.

Theorem quorum_honest_weight (w : N -> N) (total : N) (u a b byz : list N) :
  NoDup u -> NoDup a -> NoDup b -> NoDup byz -> incl a u -> incl b u -> incl byz u -> sumw w u <= total ->
  3 * sumw w byz < total ->
  total * 2 / 3 < sumw w a -> total * 2 / 3 < sumw w b ->
  exists x, In x a /\ In x b /\ ~ In x byz.
Proof. exact (quorum_honest_member_weight w total u a b byz). Qed.

Example quorum_example : (* n = 4: threshold 2, two sets of three share two members *)
  NoDup [1;2;3] /\ 4 * 2 / 3 < N.of_nat (length [1;2;3]) /\ inter [1;2;3] [2;3;4] = [2;3].
Proof. split; [repeat constructor; cbn; intuition discriminate | split; vm_compute; reflexivity]. Qed.

Print Assumptions quorum_intersection_count.
Print Assumptions quorum_honest_count.
Print Assumptions quorum_intersection_weight.
Print Assumptions quorum_honest_weight.
