(* Properties/C03.v — statements only.  "Finality is safe; on a single node finalized only moves forward along its own
   ancestry; with all validators honest and timely delivery finality keeps advancing."  Model: Bft/Model.v. *)
From Coq Require Import List NArith Bool Lia.
From Verif Require Import Common.Util Bft.Tree Bft.Model Bft.Quorum Bft.ProofsTally Bft.ProofsChain Bft.ProofsNode
  Bft.Safety Bft.ProofsWitness Bft.ProofsFinal Bft.ProofsMonotone Bft.ProofsCommit
  Bft.ProofsFind Bft.ProofsLive Bft.ProofsLive2 Bft.ProofsVote Bft.ProofsSuffix Bft.ProofsSafety
  Bft.ProofsOrder Bft.ProofsTree2 Bft.ProofsCasts Bft.ProofsRun Bft.ProofsLink Bft.ProofsGap Bft.ProofsWitness2 Bft.SchedScore Bft.ProofsMonotone2 Bft.ProofsSync Bft.ProofsFork Bft.ProofsJustified.
Import ListNotations.
Open Scope N_scope.

(* 1. quorum intersection for exactly the thresholds of Summarize.  Vote-count mode: among at most n candidate
      signers, two signer sets of more than n*2/3 (integer division) share more than (n-1)/3 members, hence a member
      outside any Byzantine set of fewer than n/3. *)
Theorem quorum_intersection_count (n : N) (u a b : list N) :
  NoDup a -> NoDup b -> incl a u -> incl b u -> N.of_nat (length u) <= n ->
  n * 2 / 3 < N.of_nat (length a) -> n * 2 / 3 < N.of_nat (length b) ->
  (n - 1) / 3 < N.of_nat (length (inter a b)).
Proof. exact (quorum_intersection_count_lemma n u a b). Qed.

Theorem quorum_honest_count (n : N) (u a b byz : list N) :
  NoDup a -> NoDup b -> NoDup byz -> incl a u -> incl b u -> N.of_nat (length u) <= n ->
  3 * N.of_nat (length byz) < n ->
  n * 2 / 3 < N.of_nat (length a) -> n * 2 / 3 < N.of_nat (length b) ->
  exists x, In x a /\ In x b /\ ~ In x byz.
Proof. exact (quorum_honest_member_count n u a b byz). Qed.

(* Weight mode: two sets each weighing more than total*2/3 share more than a third of the total weight, hence a member
   outside any Byzantine set weighing less than a third. *)
Theorem quorum_intersection_weight (w : N -> N) (total : N) (u a b : list N) :
  NoDup u -> NoDup a -> NoDup b -> incl a u -> incl b u -> sumw w u <= total ->
  total * 2 / 3 < sumw w a -> total * 2 / 3 < sumw w b ->
  total < 3 * sumw w (inter a b).
Proof. exact (quorum_intersection_weight_lemma w total u a b). Qed.

Theorem quorum_honest_weight (w : N -> N) (total : N) (u a b byz : list N) :
  NoDup u -> NoDup a -> NoDup b -> NoDup byz -> incl a u -> incl b u -> incl byz u -> sumw w u <= total ->
  3 * sumw w byz < total ->
  total * 2 / 3 < sumw w a -> total * 2 / 3 < sumw w b ->
  exists x, In x a /\ In x b /\ ~ In x byz.
Proof. exact (quorum_honest_member_weight w total u a b byz). Qed.

Example quorum_example : (* n = 4: threshold 2, two sets of three share two members *)
  NoDup [1;2;3] /\ 4 * 2 / 3 < N.of_nat (length [1;2;3]) /\ inter [1;2;3] [2;3;4] = [2;3].
Proof. split; [repeat constructor; cbn; intuition discriminate | split; vm_compute; reflexivity]. Qed.

(* 2. protocol facts used by every safety argument: a committed epoch is justified; quality never decreases along a
      chain and grows by at most one per block; justification is monotone in the set of votes *)
Theorem committed_implies_justified c pq seg :
  s_comm (summarize (tally c pq seg)) = true -> s_just (summarize (tally c pq seg)) = true.
Proof. exact (committed_implies_justified_lemma c pq seg). Qed.

Theorem quality_monotone c b t : 0 < c_L c -> grounded (b :: t) ->
  quality_pure c t <= quality_pure c (b :: t) <= quality_pure c t + 1.
Proof. intros HL. exact (quality_step c HL b t). Qed.

Theorem justified_monotone c pq seg1 seg2 :
  incl (map (vote_of c) seg1) (map (vote_of c) seg2) ->
  s_just (summarize (tally c pq seg1)) = true -> s_just (summarize (tally c pq seg2)) = true.
Proof. exact (justified_monotone_lemma c pq seg1 seg2). Qed.

(* 3. single node: along any import history the node's records equal the definitions and its fork choice is the
      maximum of the total order (so what it votes on is a function of what it stores) *)
Theorem import_history_invariants c guard g master bs : 0 < c_L c -> b_num g = 0 ->
  (forall nd b, inv c nd -> In b bs -> valid_child (n_repo nd) b) ->
  inv c (import_all c guard (init_node g master) bs).
Proof. intros HL Hg Hv. apply import_all_inv; [exact HL | apply init_inv; exact Hg | exact Hv]. Qed.

(* 3b. the single-node clause.  One import step (any block, any guard variant): the new finalized checkpoint has the old
       one on its chain (descendant-or-equal), finalized stays a stored block, and a block that gets stored by this
       step has the finalized checkpoint of that moment on its chain (anything else is refused by Accepts). *)
Theorem finalized_monotone_step c guard nd b : 0 < c_L c -> inv c nd -> fin_ok nd -> valid_child (n_repo nd) b ->
  let nd' := fst (import guard c nd b) in
  has_block (n_repo nd') (e_fin (n_eng nd')) (e_fin (n_eng nd)) = true /\ fin_ok nd' /\
  (known (n_repo nd) (b_id b) = false -> known (n_repo nd') (b_id b) = true ->
   has_block (n_repo nd') (b_id b) (e_fin (n_eng nd)) = true).
Proof. intros HL. exact (import_monotone c HL guard nd b). Qed.

(* along any import history from genesis: every finalized value has its predecessor on its chain *)
Theorem finalized_monotone c guard g master bs : 0 < c_L c -> b_num g = 0 ->
  (forall nd b, inv c nd -> In b bs -> valid_child (n_repo nd) b) ->
  monotone_from (b_id g) (fin_trace c guard (init_node g master) bs).
Proof.
  intros HL Hg Hv.
  exact (finalized_monotone_lemma c HL guard bs (init_node g master) (init_inv c g master Hg) (init_fin_ok g master) Hv).
Qed.

(* ... and no such import fails in CommitBlock (C04's commit_block_total seen from C03: a block descending from
   finalized is importable) *)
Theorem accepted_block_imports_without_error : commit_block_total_statement true.
Proof. exact commit_block_total_lemma. Qed.

Theorem finalized_moves_forward guard c r e b packing :
  let e' := fst (commit_block guard c r e b packing) in
  e_fin e' = e_fin e \/
  exists x, In x (chain_of r (b_id b)) /\ e_fin e' = b_id x /\ idnum (e_fin e) <= b_num x.
Proof. exact (commit_block_finalized guard c r e b packing). Qed.

(* 3b'. own proposals (proposeAndCommit has no Accepts test).  A proposal on a best block that descends from finalized keeps
        finalized on its own ancestry and the new block descends from it (finalized_monotone_own_proposal).  Without that
        premise it does not, and the premise is NOT an invariant of an honest node: single_node_monotonicity_refuted is a valid
        run with ONE Byzantine validator of four (the F4 history until 18Y, then node 0 imports 10X, 11X - the import finalizes 4X
        while its best block stays 18Y - and packs the store point 19Y itself, which finalizes 12Y) in which one honest node's
        finalized checkpoint moves genesis -> 4X -> 12Y, 12Y conflicting with 4X.  Replayed on the real packer / scheduler /
        consensus / engine (bftsim F4RealOwnProposal): known finding F17, a consequence of the F4 root cause (it needs two
        conflicting committed branches).  own_proposal_off_finalized_branch_not_monotone is an older, smaller witness of the same
        step with three Byzantine validators.  The NUMBER of finalized never decreases in any case (finalized_moves_forward).
        So the single-node clause is proved for all histories of imports and restarts, proved for own proposals under the premise
        "best descends from finalized", and REFUTED for own proposals without it, inside the property's quantifier (f < n/3). *)
Theorem finalized_monotone_own_proposal c nd b : 0 < c_L c -> inv c nd -> fin_ok nd -> honest_ok c nd b = true ->
  known (n_repo nd) (b_id b) = false -> has_block (n_repo nd) (n_best nd) (e_fin (n_eng nd)) = true ->
  let nd' := fst (fst (propose true c nd b)) in
  has_block (n_repo nd') (e_fin (n_eng nd')) (e_fin (n_eng nd)) = true /\
  has_block (n_repo nd') (b_id b) (e_fin (n_eng nd)) = true /\ fin_ok nd'.
Proof. intros HL. exact (propose_monotone c HL nd b). Qed.

Theorem own_proposal_off_finalized_branch_not_monotone :
  honest_ok cfg4 pm_node w15 = true /\ e_fin (n_eng pm_node) = b_id (sb 4 2 false) /\
  let nd' := fst (fst (propose true cfg4 pm_node w15)) in
  e_fin (n_eng nd') = b_id (wb 8 2 false) /\ has_block (n_repo nd') (e_fin (n_eng nd')) (e_fin (n_eng pm_node)) = false /\
  has_block (n_repo pm_node) (n_best pm_node) (e_fin (n_eng pm_node)) = false.
Proof. exact propose_not_monotone_witness. Qed.

Theorem single_node_monotonicity_refuted :
  valid_run_b true cfg4 [4] f4_world [gen] f17_run = true /\
  (exists nd, nth_error (world_after cfg4 f4_world f17_prefix) 0 = Some nd /\
              e_fin (n_eng nd) = b_id x4 /\ n_best nd = b_id y18 /\
              has_block (n_repo nd) (n_best nd) (e_fin (n_eng nd)) = false /\ honest_ok cfg4 nd y19own = true) /\
  (exists nd', nth_error (world_after cfg4 f4_world f17_run) 0 = Some nd' /\ e_fin (n_eng nd') = b_id y12 /\
               has_block (n_repo nd') (e_fin (n_eng nd')) (b_id x4) = false) /\
  conflict (seen_after [gen] f17_run) (b_id x4) (b_id y12) = true.
Proof. exact f17_witness. Qed.

Example finalized_monotone_example : (* the F1 tree: finalized moves genesis -> a4 along the import history *)
  monotone_from (b_id gen) (fin_trace cfg4 true (init_node gen 1) f1_blocks) /\
  In (b_id (a 4)) (map snd (fin_trace cfg4 true (init_node gen 1) f1_blocks)).
Proof. split; [vm_compute; repeat split; reflexivity | apply mem_In; vm_compute; reflexivity]. Qed.

(* 3c. liveness (third sentence).
   (i)  On a node that has seen only one chain (every stored block lies on the chain of every later one), whatever it
        voted before and whether its votes record is live or rebuilt after a restart, ShouldVote answers COM exactly
        when the new block is past the first round and the parent's quality is positive.
   (ii) honest_chain = every block carries that bit.  On such a chain an epoch in which more than two thirds (count or
        weight, as Summarize selects) signed is justified, and if the chain already held a justified epoch when it
        began, all its votes are COM and it is committed.
   (iii) CommitBlock of its last block then moves finalized to the checkpoint of the previous epoch (when that epoch was
        itself the first to reach its quality: it was justified, or it is finalized's own epoch). *)
Theorem honest_vote_on_one_chain c r e p a : 0 < c_L c ->
  grounded r -> wf_repo r -> qs_ok c r (e_qs e) -> In p r ->
  match e_casts e with Some ca => casts_stored r ca | None => True end ->
  idnum (e_fin e) = a * c_L c ->
  (s_just (state_pure c (chain_of r (b_id p))) = false -> c_L c <= b_num p -> a * c_L c + c_L c <= checkpoint (c_L c) (b_num p)) ->
  snd (should_vote c r e (b_id p)) =
  Ok (negb ((b_num p + 1) / c_L c =? 0) && (0 <? quality_pure c (chain_of r (b_id p)))).
Proof. intros HL. exact (should_vote_linear c HL r e p a). Qed.

Theorem quorum_is_justified c pq seg :
  (if thr_weight c =? 0 then thr_votes c <? N.of_nat (length (signers seg))
   else thr_weight c <? sumw (weight_of c) (signers seg)) = true <->
  s_just (summarize (tally c pq seg)) = true.
Proof. split; [exact (quorum_justifies c pq seg) | exact (justified_needs_quorum c pq seg)]. Qed.

Theorem linear_liveness c ch b t kb : 0 < c_L c ->
  grounded ch -> ch = b :: t -> honest_chain c ch -> b_num b = kb * c_L c + c_L c - 1 -> 1 <= kb ->
  (if thr_weight c =? 0 then thr_votes c <? N.of_nat (length (signers (snd (epoch_info c ch))))
   else thr_weight c <? sumw (weight_of c) (signers (snd (epoch_info c ch)))) = true ->
  1 <= quality_pure c (suffix_at (kb * c_L c - 1) ch) ->
  s_just (state_pure c ch) = true /\ s_comm (state_pure c ch) = true /\
  quality_pure c ch = quality_pure c (suffix_at (kb * c_L c - 1) ch) + 1.
Proof. intros HL. exact (epoch_committed c HL ch b t kb). Qed.

Theorem finalized_advances_at_store_point c r e b a kb : 0 < c_L c ->
  wf_repo r -> find_blk r (b_id b) = Some b ->
  qs_ok c r ((b_id b, s_q (compute_state c r (e_qs e) b)) :: e_qs e) ->
  compute_state c r (e_qs e) b = state_pure c (chain_of r (b_id b)) ->
  idnum (e_fin e) = a * c_L c -> b_num b = kb * c_L c + c_L c - 1 -> a < kb ->
  s_comm (state_pure c (chain_of r (b_id b))) = true -> 1 < quality_pure c (chain_of r (b_id b)) ->
  (kb - 1 = a \/ (2 <= kb /\ q_epoch c r (b_id b) (kb - 2) < q_epoch c r (b_id b) (kb - 1))) ->
  exists y, block_at r (b_id b) ((kb - 1) * c_L c) = Some y /\ b_num y = (kb - 1) * c_L c /\
            e_fin (fst (commit_block true c r e b false)) = b_id y.
Proof. intros HL. exact (commit_finalizes c HL r e b a kb). Qed.

(* 3d. the liveness sentence over multi-node runs.  sync_run n ps = rounds "node i proposes b (on its own best block, with
       its own ShouldVote bit), then b is delivered to every node"; all validators honest (Byzantine set empty).
       (i)   at the end every node stores exactly the one global chain, its best block is the head, and every block carries
             the COM bit of the com rule (honest_chain) - so the hypotheses of linear_liveness hold by construction;
       (ii)  every closed epoch kb >= 1 of that chain with a quorum of signers is justified, and committed once the chain
             held a justified epoch;
       (iii) when the block closing epoch kb >= 2 has been delivered after two such epochs, EVERY node's finalized
             checkpoint is the first block of epoch kb - 1: finality keeps advancing. *)
Theorem timely_honest_run_single_chain c g masters ps : 0 < c_L c -> b_num g = 0 -> NoDup masters ->
  let evs := sync_run (length masters) ps in
  let tree := seen_after [g] evs in
  valid_run_b true c [] (map (init_node g) masters) [g] evs = true -> known tree (b_parent g) = false ->
  grounded tree /\ honest_chain c tree /\
  forall i nd, nth_error (world_after c (map (init_node g) masters) evs) i = Some nd ->
    n_repo nd = tree /\ exists p t, tree = p :: t /\ n_best nd = b_id p.
Proof. intros HL Hg Hn. exact (sync_run_one_chain c HL g Hg masters Hn ps). Qed.

Theorem timely_honest_run_epochs_commit c g masters ps l1 b t kb : 0 < c_L c -> b_num g = 0 -> NoDup masters ->
  let evs := sync_run (length masters) ps in
  let tree := seen_after [g] evs in
  valid_run_b true c [] (map (init_node g) masters) [g] evs = true -> known tree (b_parent g) = false ->
  tree = l1 ++ b :: t -> b_num b = kb * c_L c + c_L c - 1 -> 1 <= kb ->
  (if thr_weight c =? 0 then thr_votes c <? N.of_nat (length (signers (snd (epoch_info c (b :: t)))))
   else thr_weight c <? sumw (weight_of c) (signers (snd (epoch_info c (b :: t))))) = true ->
  1 <= quality_pure c (suffix_at (kb * c_L c - 1) (b :: t)) ->
  s_just (state_pure c (b :: t)) = true /\ s_comm (state_pure c (b :: t)) = true /\
  quality_pure c (b :: t) = quality_pure c (suffix_at (kb * c_L c - 1) (b :: t)) + 1.
Proof. intros HL Hg Hn. exact (sync_run_epochs_commit c HL g Hg masters Hn ps l1 b t kb). Qed.

Theorem timely_honest_run_finality_advances c g masters ps i b kb : 0 < c_L c -> b_num g = 0 -> NoDup masters ->
  let evs := sync_run (length masters) (ps ++ [(i, b)]) in
  let tree := seen_after [g] evs in
  valid_run_b true c [] (map (init_node g) masters) [g] evs = true -> known tree (b_parent g) = false ->
  b_num b = kb * c_L c + c_L c - 1 -> 2 <= kb ->
  (if thr_weight c =? 0 then thr_votes c <? N.of_nat (length (signers (snd (epoch_info c tree))))
   else thr_weight c <? sumw (weight_of c) (signers (snd (epoch_info c tree)))) = true ->
  (if thr_weight c =? 0 then thr_votes c <? N.of_nat (length (signers (snd (epoch_info c (suffix_at (kb * c_L c - 1) tree)))))
   else thr_weight c <? sumw (weight_of c) (signers (snd (epoch_info c (suffix_at (kb * c_L c - 1) tree))))) = true ->
  1 <= quality_pure c (suffix_at ((kb - 1) * c_L c - 1) tree) ->
  exists y, block_at tree (b_id b) ((kb - 1) * c_L c) = Some y /\ b_num y = (kb - 1) * c_L c /\
    forall j nd, nth_error (world_after c (map (init_node g) masters) evs) j = Some nd -> e_fin (n_eng nd) = b_id y.
Proof. intros HL Hg Hn. exact (sync_run_finality_advances c HL g Hg masters Hn ps i b kb). Qed.

(* non-vacuity: four validators, L = 4, eleven rounds (signers rotate, scores 1..11, blocks 1..3 non-COM, 4..11 COM): the run
   is valid, every hypothesis of (iii) holds with kb = 2, and all four nodes finalize block 4 *)
Definition lb (k : N) : blk := mkB (mkid k 1) (mkid (k - 1) 1) (k mod 4 + 1) (3 <? k) k.
Definition live_ps : list (nat * blk) := map (fun k => (N.to_nat (k mod 4), lb k)) [1;2;3;4;5;6;7;8;9;10].
Definition live_run : list event := sync_run 4 (live_ps ++ [(3%nat, lb 11)]).
Example timely_run_example :
  let tree := seen_after [gen] live_run in
  valid_run_b true cfg4 [] (map (init_node gen) [1;2;3;4]) [gen] live_run = true /\ known tree (b_parent gen) = false /\
  b_num (lb 11) = 2 * 4 + 4 - 1 /\
  (thr_votes cfg4 <? N.of_nat (length (signers (snd (epoch_info cfg4 tree))))) = true /\
  (thr_votes cfg4 <? N.of_nat (length (signers (snd (epoch_info cfg4 (suffix_at (2 * 4 - 1) tree)))))) = true /\
  1 <= quality_pure cfg4 (suffix_at ((2 - 1) * 4 - 1) tree) /\
  map (fun nd => e_fin (n_eng nd)) (world_after cfg4 (map (init_node gen) [1;2;3;4]) live_run) = [b_id (lb 4); b_id (lb 4); b_id (lb 4); b_id (lb 4)].
Proof. cbv zeta. vm_compute. repeat split; try reflexivity; discriminate. Qed.

(* 4. general safety (first sentence).  The statement over all valid runs (every honest block proposed by its signer on its
      own best block with the engine's COM bit, fewer than a third Byzantine) is REFUTED: in the model (4e), with
      scheduler-conformant scores (4e), and on the real code at node level (known finding F4, harness/internal/bftsim/f4real.go).
      The `quality >= headQuality-1` window of ShouldVote forgets an own conflicting COM vote once the head quality is two
      ahead.  What is proved instead: the node/world invariants along every valid run (4b), the run-level lock fact (4c), and
      the exact shape every conflicting pair of finalized checkpoints must have (4d) - equal qualities are safe, a later vote
      in the lower epoch is safe, the one open shape is the F4 shape.  Lemma A and "Lemma B" below are single-state facts
      (B merely restates ShouldVote's own test; the lock fact proper is 4b/4c).  bft_safety_under_premise stays a Prop. *)
Theorem node_invariants_along_events c guard nd : 0 < c_L c -> inv c nd ->
  (forall b, valid_child (n_repo nd) b -> inv c (fst (import guard c nd b))) /\
  (forall b, valid_child (n_repo nd) b -> known (n_repo nd) (b_id b) = false -> known (n_repo nd) (b_parent b) = true ->
             inv c (fst (fst (propose guard c nd b)))) /\
  inv c (restart nd).
Proof.
  intros HL Hi. split; [intros b Hv; exact (import_inv c HL guard nd b Hi Hv)|].
  split; [intros b Hv Hf Hp; exact (propose_inv c HL guard nd b Hi Hv Hf Hp) | exact (restart_inv c nd Hi)].
Qed.

Theorem lemma_A_head_quality_monotone c nd x : 0 < c_L c -> inv c nd -> In x (n_repo nd) ->
  qual c (n_repo nd) x <= qual c (n_repo nd) (best_blk nd).
Proof. intros HL. exact (head_quality_monotone c HL nd x). Qed.

Theorem lemma_B_com_lock c r e parent e' :
  should_vote c r e parent = (e', Ok true) ->
  exists p recent ca,
    find_blk r parent = Some p /\ e_casts e' = Some ca /\
    0 < s_q (compute_state c r (e_qs e) p) /\ (idnum parent + 1) / c_L c <> 0 /\
    (forall cp q, In (cp, q) ca -> idnum (e_fin e) <= idnum cp -> s_q (compute_state c r (e_qs e) p) - 1 <= q ->
       has_block r cp recent = true \/ has_block r recent cp = true).
Proof. exact (should_vote_com_inv c r e parent e'). Qed.

Theorem same_quality_commit_exclusive_partial c pq1 pq2 seg1 seg2 (u byz : list N) :
  thr_weight c = 0 -> incl (signers seg1) u -> incl (signers seg2) u -> N.of_nat (length u) <= c_mbp c -> c_pos c = false ->
  NoDup byz -> 3 * N.of_nat (length byz) < c_mbp c ->
  s_comm (summarize (tally c pq1 seg1)) = true -> s_comm (summarize (tally c pq2 seg2)) = true ->
  exists h, ~ In h byz /\
    (exists x, In x seg1 /\ b_signer x = h) /\ (forall x, In x seg1 -> b_signer x = h -> b_com x = true) /\
    (exists x, In x seg2 /\ b_signer x = h) /\ (forall x, In x seg2 -> b_signer x = h -> b_com x = true).
Proof. intros Hp. exact (double_commit_honest_voter c Hp pq1 pq2 seg1 seg2 u byz). Qed.

(* 4a. same_quality_commit_exclusive as first planned ("two committed epochs of equal quality have non-conflicting
       checkpoints") is FALSE of the vote rule as coded: sibling epochs under one justified checkpoint may both be voted COM
       by the same honest validators (each checkpoint descends from the most recent justified one) and both commit.  What is
       safe is what they FINALIZE (4d). *)
Theorem same_quality_commit_exclusive_refuted : ~ same_quality_commit_exclusive_statement true.
Proof. exact same_quality_commit_exclusive_refuted_lemma. Qed.

Example sibling_epochs_both_committed :
  valid_run_b true cfg4 [4] f4_world [gen] sib_run = true /\
  state_pure cfg4 (chain_of (seen_after [gen] sib_run) (b_id sx7)) = mkS 2 true true /\
  state_pure cfg4 (chain_of (seen_after [gen] sib_run) (b_id sy7)) = mkS 2 true true /\
  conflict (seen_after [gen] sib_run) (b_id sx4) (b_id sy4) = true.
Proof. destruct sib_committed as [_ [_ [A [B [_ [_ C]]]]]]. split; [exact sib_valid | tauto]. Qed.

(* 4b. invariants of every node at every moment of every valid run (any prefix `pre` of the run): the node invariants,
       finalized is a stored checkpoint, the votes record (live, Mark-overwritten, or rebuilt by newCasts after a restart)
       has distinct keys, no quality above the best block's and COVERS every own block at or above the finalized number
       (casts_ok); the repository is part of the global tree; every block signed by the node's master is stored there. *)
Theorem run_node_invariants c g byz masters pre post i nd : 0 < c_L c -> b_num g = 0 ->
  (forall m, In m masters -> ~ In m byz) -> NoDup masters ->
  valid_run_b true c byz (map (init_node g) masters) [g] (pre ++ post) = true ->
  known (seen_after [g] (pre ++ post)) (b_parent g) = false ->
  nth_error (world_after c (map (init_node g) masters) pre) i = Some nd ->
  node_good c nd /\ incl (n_repo nd) (seen_after [g] pre) /\
  (forall x, In x (seen_after [g] pre) -> b_signer x = e_master (n_eng nd) -> In x (n_repo nd)).
Proof.
  intros HL Hg Hd Hn Hv Hr Hnth.
  destruct (world_prefix c HL g Hg byz masters Hd Hn pre post Hv Hr) as [Hw _].
  destruct (wg_nodes c g byz masters _ _ Hw i nd Hnth) as [A [B [_ C]]]. tauto.
Qed.

(* 4c. the run-level link behind Lemma B (the fact the earlier report named as missing): when an honest validator
       proposes a COM block b on p, every earlier own block x at or above its finalized number whose quality is inside the
       window (quality p - 1 <= quality x) has its checkpoint on one chain with p's most recent justified checkpoint rb. *)
Theorem later_com_vote_sees_earlier_votes c g byz masters pre i b post nd : 0 < c_L c -> b_num g = 0 ->
  (forall m, In m masters -> ~ In m byz) -> NoDup masters ->
  let evs := pre ++ EPropose i b :: post in
  let tree := seen_after [g] evs in
  valid_run_b true c byz (map (init_node g) masters) [g] evs = true -> known tree (b_parent g) = false ->
  b_com b = true -> nth_error (world_after c (map (init_node g) masters) pre) i = Some nd ->
  wf_repo tree /\ b_signer b = e_master (n_eng nd) /\
  exists p rb, In p tree /\ b_id p = b_parent b /\ In b tree /\ recent_spec c tree p rb /\
    forall x, In x (seen_after [g] pre) -> b_signer x = b_signer b -> idnum (e_fin (n_eng nd)) <= b_num x ->
      qual c tree p - 1 <= qual c tree x ->
      exists cpx, cp_of c tree x = Some cpx /\ comparable tree cpx rb.
Proof. intros HL Hg Hd Hn. exact (com_vote_link_run c HL g Hg byz masters Hd Hn pre i b post nd). Qed.

(* 4d. TREE-LEVEL statements (about pairs (B, y) of the global tree, not about a node's e_fin: a node's finalized is such a y
       whenever CommitBlock moved it during an IMPORT - commit_block_fin_spec, single step - but no run-level lemma ties every
       element of all_fins to one, and after an own proposal off the finalized branch (F17) it need not be one).
       Two committed epochs in one valid run, fewer than a third Byzantine (vote-count mode), under the explicit premise
       votes_visible_b (at every honest proposal, no own vote inside the quality window lies below the proposer's finalized
       number: the finalized filter of ShouldVote hides nothing the window would show).  B finalizing = committed store
       point of quality > 1; y = the checkpoint CommitBlock finalizes from B (first epoch of B's chain whose store point
       carries quality Q_B - 1).
       (i)   if y1 and y2 conflict, an honest validator voted COM in both epochs and its later COM vote was cast on a head
             whose quality exceeds the earlier vote's by at least two (the earlier vote had left the window);
       (ii)  equal qualities: never conflicting (gap 0);
       (iii) any gap: the forgotten vote is the one in the lower epoch and was cast first (a later vote in the lower epoch
             is a closed case); gap exactly one: it was cast before its epoch was justified and the later vote was cast
             after the other epoch was justified - the one remaining shape. *)
Theorem conflicting_commits_need_forgotten_vote c g byz masters evs B1 B2 j1 j2 y1 y2 : 0 < c_L c -> b_num g = 0 ->
  (forall m, In m masters -> ~ In m byz) -> NoDup masters -> c_pos c = false -> NoDup byz ->
  3 * N.of_nat (length byz) < c_mbp c -> N.of_nat (length masters + length byz) <= c_mbp c ->
  let tree := seen_after [g] evs in
  valid_run_b true c byz (map (init_node g) masters) [g] evs = true -> known tree (b_parent g) = false ->
  votes_visible_b c (map (init_node g) masters) evs = true ->
  finalizing c tree B1 -> finalizing c tree B2 ->
  first_epoch c tree B1 j1 -> block_at tree (b_id B1) (j1 * c_L c) = Some y1 ->
  first_epoch c tree B2 j2 -> block_at tree (b_id B2) (j2 * c_L c) = Some y2 ->
  conflict tree (b_id y1) (b_id y2) = true ->
  exists x1 x2, In x1 (seg c tree B1) /\ In x2 (seg c tree B2) /\ b_signer x1 = b_signer x2 /\ ~ In (b_signer x1) byz /\
    b_com x1 = true /\ b_com x2 = true /\
    ((before g evs x1 x2 /\ forgotten c tree x1 x2) \/ (before g evs x2 x1 /\ forgotten c tree x2 x1)).
Proof.
  intros HL Hg Hd Hn Hp Hb H3 Hs. cbv zeta. intros Hv Hr Hvis.
  exact (conflicting_commits_forgotten_vote c HL g Hg byz masters Hd Hn evs Hp Hb H3 Hs Hv Hr Hvis B1 B2 j1 j2 y1 y2).
Qed.

Theorem same_quality_commits_finalize_one_chain c g byz masters evs B1 B2 j1 j2 y1 y2 : 0 < c_L c -> b_num g = 0 ->
  (forall m, In m masters -> ~ In m byz) -> NoDup masters -> c_pos c = false -> NoDup byz ->
  3 * N.of_nat (length byz) < c_mbp c -> N.of_nat (length masters + length byz) <= c_mbp c ->
  let tree := seen_after [g] evs in
  valid_run_b true c byz (map (init_node g) masters) [g] evs = true -> known tree (b_parent g) = false ->
  votes_visible_b c (map (init_node g) masters) evs = true ->
  finalizing c tree B1 -> finalizing c tree B2 ->
  first_epoch c tree B1 j1 -> block_at tree (b_id B1) (j1 * c_L c) = Some y1 ->
  first_epoch c tree B2 j2 -> block_at tree (b_id B2) (j2 * c_L c) = Some y2 ->
  Qof c tree B1 = Qof c tree B2 -> conflict tree (b_id y1) (b_id y2) = false.
Proof.
  intros HL Hg Hd Hn Hp Hb H3 Hs. cbv zeta. intros Hv Hr Hvis.
  exact (same_quality_commits_safe c HL g Hg byz masters Hd Hn evs Hp Hb H3 Hs Hv Hr Hvis B1 B2 j1 j2 y1 y2).
Qed.

Theorem conflicting_commits_shape c g byz masters evs B1 B2 j1 j2 y1 y2 : 0 < c_L c -> b_num g = 0 ->
  (forall m, In m masters -> ~ In m byz) -> NoDup masters -> c_pos c = false -> NoDup byz ->
  3 * N.of_nat (length byz) < c_mbp c -> N.of_nat (length masters + length byz) <= c_mbp c ->
  let tree := seen_after [g] evs in
  valid_run_b true c byz (map (init_node g) masters) [g] evs = true -> known tree (b_parent g) = false ->
  votes_visible_b c (map (init_node g) masters) evs = true ->
  finalizing c tree B1 -> finalizing c tree B2 ->
  first_epoch c tree B1 j1 -> block_at tree (b_id B1) (j1 * c_L c) = Some y1 ->
  first_epoch c tree B2 j2 -> block_at tree (b_id B2) (j2 * c_L c) = Some y2 ->
  conflict tree (b_id y1) (b_id y2) = true -> Qof c tree B1 <= Qof c tree B2 ->
  exists x1 x2 p2, In x1 (seg c tree B1) /\ In x2 (seg c tree B2) /\ b_signer x1 = b_signer x2 /\ ~ In (b_signer x1) byz /\
    b_com x1 = true /\ b_com x2 = true /\ before g evs x1 x2 /\
    In p2 tree /\ b_id p2 = b_parent x2 /\ qual c tree x1 + 2 <= qual c tree p2 /\
    (Qof c tree B2 = Qof c tree B1 + 1 -> qual c tree x1 = Qof c tree B1 - 1 /\ qual c tree p2 = Qof c tree B2).
Proof.
  intros HL Hg Hd Hn Hp Hb H3 Hs. cbv zeta. intros Hv Hr Hvis.
  exact (Verif.Bft.ProofsGap.conflicting_commits_shape c HL g Hg byz masters Hd Hn evs Hp Hb H3 Hs Hv Hr Hvis B1 B2 j1 j2 y1 y2).
Qed.

(* non-vacuity: the sibling run satisfies every hypothesis of (ii) (two committed epochs of quality 2, both finalize
   genesis); the F4 run satisfies every hypothesis of (i)/(iii) including the conflict (4X from 11X of quality 3, 12Y from
   19Y of quality 5: gap two) *)
Example same_quality_instance :
  let t := seen_after [gen] sib_run in
  valid_run_b true cfg4 [4] f4_world [gen] sib_run = true /\ known t (b_parent gen) = false /\
  votes_visible_b cfg4 f4_world sib_run = true /\
  finalizing cfg4 t sx7 /\ finalizing cfg4 t sy7 /\ Qof cfg4 t sx7 = Qof cfg4 t sy7 /\
  first_epoch cfg4 t sx7 0 /\ block_at t (b_id sx7) (0 * 4) = Some gen /\
  first_epoch cfg4 t sy7 0 /\ block_at t (b_id sy7) (0 * 4) = Some gen.
Proof. cbv zeta. split; [exact sib_valid|]. split; [exact sib_root|]. split; [exact sib_visible | exact sib_gap0_instance]. Qed.

Example f4_is_the_open_shape :
  let t := seen_after [gen] f4_run in
  valid_run_b true cfg4 [4] f4_world [gen] f4_run = true /\ known t (b_parent gen) = false /\
  votes_visible_b cfg4 f4_world f4_run = true /\
  finalizing cfg4 t x11 /\ finalizing cfg4 t y19 /\ Qof cfg4 t x11 = 3 /\ Qof cfg4 t y19 = 5 /\
  first_epoch cfg4 t x11 1 /\ block_at t (b_id x11) (1 * 4) = Some x4 /\
  first_epoch cfg4 t y19 3 /\ block_at t (b_id y19) (3 * 4) = Some y12 /\
  conflict t (b_id x4) (b_id y12) = true.
Proof.
  cbv zeta. split; [exact (f4_valid true)|]. split; [exact f4_root|]. split; [exact f4_visible|].
  destruct f4_gap_instance as [A [B [C [D [E [F [G H]]]]]]]. repeat (split; [assumption|]). exact f4_conflict.
Qed.

(* 4e. general safety.  Without a fork-choice premise the statement over all valid runs is REFUTED in the model (F4) - also
       when every block's total score obeys the PoA scheduler's score rule (scheduler/poa_v2.go: candidates = active
       validators + signer sorted by a hash that is data of the run; increment = n - pos, or 1 after a full round;
       f4s_run).  The F4 runs lie outside the premise "no equal-quality move off the last own vote"; safety under that
       premise stays a Prop (bft_safety_under_premise): what is left is the shape (iii) above plus discharging
       votes_visible_b. *)
Definition bft_safety_without_premise := bft_safety_statement true.
Definition bft_safety_under_premise := bft_safety_under_premise_statement true.

Theorem bft_safety_without_premise_refuted : ~ bft_safety_statement true.
Proof. exact (bft_safety_refuted_lemma true). Qed.

Theorem f4_run_outside_premise : valid_run_b true cfg4 [4] f4_world [gen] f4_run = true /\ no_tie_switch_b true cfg4 f4_world f4_run = false.
Proof. split; [exact (f4_valid true) | exact (f4_breaks_premise true)]. Qed.

Example f4_end_state : In (b_id x4) (all_fins true cfg4 f4_world f4_run) /\ In (b_id y12) (all_fins true cfg4 f4_world f4_run) /\
                       conflict (seen_after [gen] f4_run) (b_id x4) (b_id y12) = true.
Proof. destruct (f4_fins true) as [A B]. split; [exact A | split; [exact B | exact f4_conflict]]. Qed.

(* the same history with scheduler-conformant scores: valid, every score obeys the rule, honest validators still make the
   two equal-quality moves (Select prefers the higher total score), two honest nodes finalize conflicting checkpoints *)
Theorem safety_fails_with_scheduler_scores :
  valid_run_b true cfg4 [4] f4_world [gen] f4s_run = true /\
  scores_ok f4_rank [1;2;3;4] (seen_after [gen] f4s_run) = true /\
  no_tie_switch_b true cfg4 f4_world f4s_run = false /\
  In (b_id x4) (all_fins true cfg4 f4_world f4s_run) /\ In (b_id sy12') (all_fins true cfg4 f4_world f4s_run) /\
  conflict (seen_after [gen] f4s_run) (b_id x4) (b_id sy12') = true.
Proof.
  split; [exact f4s_valid|]. split; [exact f4s_scores|]. split; [exact f4s_breaks_premise|].
  destruct f4s_fins as [A B]. split; [exact A|]. split; [exact B | exact f4s_conflict].
Qed.

(* how the oracle's observed runs relate to the plain transition system of the theorems: `step` (what `run` / `run_f 0` iterate) is
   the plain step followed by the two observation calls Justified() and ShouldVote(best) on the node that moved; these leave
   repository, best block, finalized, quality records and master untouched (they may fill the one-entry cache and create the
   votes record, which is why the observed and the plain run are not literally equal). *)
Theorem observed_step_is_plain_step_on_core_state guard c w ev :
  map core (fst (Verif.Bft.Model.step guard c w ev)) = map core (step_plain guard c w ev).
Proof. exact (step_is_plain_step_then_observation guard c w ev). Qed.

(* The FINALITY fork height.  The oracle runs `run_f F` (Bft/Model.v, second half): the engine and the node with
   forkConfig.FINALITY = F as the code uses it (zero state below F, no walk below F, first round counted from F / L, the
   checkpoint search starts at getCheckPoint(F), the node consults Select / CommitBlock / ShouldVote only at or after F);
   the correspondence run draws F = 0, aligned and unaligned values.  Every theorem of this file is about FINALITY = 0,
   which is exactly the F = 0 instance of what the oracle runs: *)
Theorem oracle_run_at_finality_0_is_the_verified_model guard c w evs : run_f 0 guard c w evs = run guard c w evs.
Proof. exact (run_f0 guard c evs w). Qed.

Print Assumptions quorum_intersection_count.
Print Assumptions quorum_honest_count.
Print Assumptions quorum_intersection_weight.
Print Assumptions quorum_honest_weight.
Print Assumptions committed_implies_justified.
Print Assumptions quality_monotone.
Print Assumptions justified_monotone.
Print Assumptions import_history_invariants.
Print Assumptions finalized_monotone_step.
Print Assumptions finalized_monotone.
Print Assumptions accepted_block_imports_without_error.
Print Assumptions finalized_moves_forward.
Print Assumptions honest_vote_on_one_chain.
Print Assumptions quorum_is_justified.
Print Assumptions linear_liveness.
Print Assumptions finalized_advances_at_store_point.
Print Assumptions finalized_monotone_own_proposal.
Print Assumptions own_proposal_off_finalized_branch_not_monotone.
Print Assumptions single_node_monotonicity_refuted.
Print Assumptions timely_honest_run_single_chain.
Print Assumptions timely_honest_run_epochs_commit.
Print Assumptions timely_honest_run_finality_advances.
Print Assumptions node_invariants_along_events.
Print Assumptions lemma_A_head_quality_monotone.
Print Assumptions lemma_B_com_lock.
Print Assumptions same_quality_commit_exclusive_partial.
Print Assumptions same_quality_commit_exclusive_refuted.
Print Assumptions run_node_invariants.
Print Assumptions later_com_vote_sees_earlier_votes.
Print Assumptions conflicting_commits_need_forgotten_vote.
Print Assumptions same_quality_commits_finalize_one_chain.
Print Assumptions conflicting_commits_shape.
Print Assumptions bft_safety_without_premise_refuted.
Print Assumptions f4_run_outside_premise.
Print Assumptions safety_fails_with_scheduler_scores.
Print Assumptions oracle_run_at_finality_0_is_the_verified_model.
Print Assumptions observed_step_is_plain_step_on_core_state.
