(* Properties/C17.v — statements only.  "The validator set evolves only at epoch boundaries and stays well-formed".
   Model: Staker/Model.v (transcription of builtin/staker). *)
From Coq Require Import List NArith Bool Lia.
From Verif Require Import Common.Util Staker.Model Staker.Base Staker.ProofsStep.
Import ListNotations.
Open Scope N_scope.

(* a block that is not an epoch boundary changes nothing but the block number *)
Theorem block_off_epoch_is_noop c s :
  (blk s + 1) mod c_epoch c <> 0 -> step c s OBlock = w_blk (blk s + 1) s.
Proof. exact (block_off_epoch c s). Qed.

(* proof-of-stake is not activated while fewer than 2/3 of max-block-proposers are queued *)
Theorem transition_needs_two_thirds c b s :
  l_size (act s) = 0 -> l_size (que s) * 3 < get_mbp s * 2 -> sync_pos c b s = Ok (s, false, false).
Proof. exact (sync_pos_needs_two_thirds c b s). Qed.

Print Assumptions block_off_epoch_is_noop.
Print Assumptions transition_needs_two_thirds.
