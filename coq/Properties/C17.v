(* Properties/C17.v — statements only.  "The validator set evolves only at epoch boundaries and stays well-formed".
   Model: Staker/Model.v (transcription of builtin/staker).  WF s la lq (Staker/Inv.v): following Next from the active
   (queued) head visits exactly the records la (lq), each once, Prev is the inverse of Next, tail and size are the stored
   ones, membership in la / lq is exactly status Active / Queued, every other record is unlinked. *)
From Coq Require Import List NArith Bool Lia.
From Verif Require Import Common.Util Staker.Model Staker.Base Staker.Lists Staker.Inv Staker.RList Staker.Inv2 Staker.ProofsStep
  Staker.ProofsUser Staker.ProofsUser2 Staker.ProofsHist Staker.ProofsEpoch Staker.ProofsAll.
Import ListNotations.
Open Scope N_scope.

(* ---- well-formedness ---- *)

(* along EVERY history (user operations by any actors, blocks with the PoA->PoS transition and housekeeping: renewals, the
   scheduled exit, evictions, activations) the active and queued lists are well formed *)
Theorem lists_wellformed c d m ops : exists la lq, WF (run c (init d m) ops) la lq.
Proof. destruct (history_FullInv c d m ops) as [la [lq H]]. exists la, lq. exact (f_wf _ _ _ H). Qed.

(* the total weight used for scheduling scores and finality thresholds is the sum of the stored weights, every record that is
   not active has weight 0, and an active record's weight is its own weighted stake plus its delegations' locked weight *)
Theorem total_weight_is_sum_of_active_weights c d m ops :
  let s := run c (init d m) ops in
  g_lw s = sumf v_weight (vals s) /\
  (forall a v, getv s a = Some v -> v_status v <> StatusActive -> v_weight v = 0) /\
  (forall a v, getv s a = Some v -> v_status v = StatusActive ->
     v_weight v = calc_weight (v_locked v) (v_multiplier v) + a_lw (get_agg s a)).
Proof.
  destruct (history_FullInv c d m ops) as [la [lq H]]. pose proof (f_2 _ _ _ H) as J. cbv zeta.
  split; [apply (j_lw _ J)|split; [apply (j_w0 _ J)|]]. intros a v Hv Hs. apply (j_w1 _ J a v Hv Hs).
Qed.

(* the list operations themselves, for all lists and positions (head / middle / tail / only element):
   removing a member of a well-formed list yields the well-formed list without it ... *)
Theorem remove_keeps_wellformed w a e s s1 e1 l v0 :
  ll_remove w a e s = Ok (s1, e1) -> wf_list s (get_ls w s) l -> In a l ->
  getv s a = Some v0 -> v_prev e = v_prev v0 -> v_next e = v_next v0 ->
  exists l1 l2, l = l1 ++ a :: l2 /\ wf_list s1 (get_ls w s1) (l1 ++ l2) /\
    getv s1 a = Some (set_next None (set_prev None e)) /\ get_ls (negb w) s1 = get_ls (negb w) s.
Proof.
  intros H1 H2 H3 H4 H5 H6.
  destruct (ll_remove_wf w a e s s1 e1 l v0 H1 H2 H3 H4 H5 H6) as [l1 [l2 [A [B [C [D [E _]]]]]]].
  exists l1, l2. subst e1. auto.
Qed.

(* ... and appending a new member yields the well-formed list with it at the end *)
Theorem add_keeps_wellformed w a e s s1 l :
  ll_add w a e s = Ok s1 -> wf_list s (get_ls w s) l -> ~ In a l -> v_next e = None ->
  wf_list s1 (get_ls w s1) (l ++ [a]) /\ get_ls (negb w) s1 = get_ls (negb w) s.
Proof.
  intros H1 H2 H3 H4. destruct (ll_add_wf w a e s s1 l H1 H2 H3 H4) as [A [_ [B _]]]. auto.
Qed.

(* every active validator is reachable exactly once: the leader group the staker reports is the abstract active list
   (no duplicates), paired with the stored records *)
Theorem leader_group_enumerates_active_once s la lq : WF s la lq ->
  NoDup la /\ exists r, iterate true s = Ok r /\ map fst r = la /\ forall a v, In (a, v) r -> getv s a = Some v.
Proof.
  intros H. split; [apply (wl_nodup _ _ _ (wf_a _ _ _ H))|apply (leader_group_is_active_list s la lq H)].
Qed.

Theorem active_and_queued_disjoint s la lq a : WF s la lq -> In a la -> In a lq -> False.
Proof.
  intros H Ha Hq. destruct (seg_in_get _ _ _ _ _ _ (wl_seg _ _ _ (wf_a _ _ _ H)) Ha) as [v Hv].
  destruct (wf_st _ _ _ H a v Hv) as [[S1 _] [[S2 _] _]]. rewrite (S1 Ha) in S2. specialize (S2 Hq). discriminate.
Qed.

(* ---- evolution only at epoch boundaries ---- *)

(* every user operation (successful or not) and every block that is not an epoch boundary leaves the leader group
   (members, order, weights) and the total weight unchanged *)
Theorem set_changes_only_at_epoch c o s la lq :
  WF s la lq -> Inv1 s -> InvA s ->
  (is_block o = true -> (blk s + 1) mod c_epoch c <> 0) ->
  leader_weights (step c s o) = leader_weights s /\ g_lw (step c s o) = g_lw s /\
  exists lq', WF (step c s o) la lq'.
Proof.
  intros H1 H2 H3 Hb.
  assert (U : user_ok s (step c s o) la lq).
  { destruct (is_block o) eqn:E; [destruct o; try discriminate; apply off_epoch_block_ok; auto|apply user_step_ok; auto]. }
  destruct U as [lq' [A [B [C D]]]].
  destruct (leader_weights_kept s (step c s o) la lq lq' H1 A C) as [K1 K2]. split; [auto|split; [auto|exists lq'; auto]].
Qed.

Theorem set_unchanged_between_epochs c s ops la lq :
  WF s la lq -> Inv1 s -> InvA s -> no_epoch_block c s ops ->
  leader_weights (run c s ops) = leader_weights s /\ g_lw (run c s ops) = g_lw s.
Proof.
  intros H1 H2 H3 H4. destruct (run_InvAll_no_epoch c s ops la lq H1 H2 H3 H4) as [lq' [_ [_ [_ [A B]]]]]. auto.
Qed.

Theorem block_off_epoch_is_noop c s :
  (blk s + 1) mod c_epoch c <> 0 -> step c s OBlock = w_blk (blk s + 1) s.
Proof. exact (block_off_epoch c s). Qed.

(* proof-of-stake is not activated while fewer than 2/3 of max-block-proposers are queued *)
Theorem transition_needs_two_thirds c b s :
  l_size (act s) = 0 -> l_size (que s) * 3 < get_mbp s * 2 -> sync_pos c b s = Ok (s, false, false).
Proof. exact (sync_pos_needs_two_thirds c b s). Qed.

(* the number of activations of one epoch is at most the queue length, and (when positive) does not lift the group
   above max-block-proposers *)
Theorem activation_bounded ex s :
  let n := compute_activation_count ex s in
  let ls := if ex then sub64 (l_size (act s)) 1 else l_size (act s) in
  n <= l_size (que s) /\ (n = 0 \/ ls + n <= get_mbp s).
Proof. exact (activation_count_bounded ex s). Qed.

(* offline validators are evicted only after the threshold, only at eviction-interval blocks *)
Theorem eviction_only_after_threshold c b s t a :
  compute_epoch_transition c b s = Ok t -> In a (tr_evictions t) ->
  b <> 0 /\ b mod c_evict_int c = 0 /\
  exists v off, getv s a = Some v /\ v_offline v = Some off /\ off + c_evict_thr c < b /\ v_exit v = None.
Proof. exact (evictions_only_after_threshold c b s t a). Qed.

(* at most one validator is scheduled to exit per epoch block: the exit of a block is the single entry of the exit map *)
Theorem one_exit_candidate_per_block c b s t :
  compute_epoch_transition c b s = Ok t -> tr_exit t = get_exit s b.
Proof.
  unfold compute_epoch_transition. intros H.
  apply bind_ok in H as [ev [_ H]]. apply bind_ok in H as [ren [_ H]]. inversion H; reflexivity.
Qed.
(* at most one validator leaves the leader group per block, namely the one scheduled in the exit map for that block
   (la, la' are THE active lists before and after: WF determines them) — for every state reached by a history *)
Theorem at_most_one_exit_per_epoch c d m ops la lq la' lq' :
  let s := run c (init d m) ops in
  WF s la lq -> WF (step c s OBlock) la' lq' ->
  forall a b, In a la -> In b la -> ~ In a la' -> ~ In b la' -> a = b /\ a = get_exit s (blk s + 1).
Proof.
  cbv zeta. intros W W' a b Ha Hb Na Nb. destruct (history_FullInv c d m ops) as [la0 [lq0 HF]].
  rewrite (WF_active_unique _ _ _ _ _ W (f_wf _ _ _ HF)) in Ha, Hb.
  pose proof (one_exit_per_block c _ la0 lq0 la' lq' HF W' a Ha Na). pose proof (one_exit_per_block c _ la0 lq0 la' lq' HF W' b Hb Nb).
  split; congruence.
Qed.

(* along histories, user operations and non-epoch blocks leave the leader group, its weights and the total weight unchanged *)
Theorem set_changes_only_at_epoch_along_histories c d m ops o :
  let s := run c (init d m) ops in
  (is_block o = true -> (blk s + 1) mod c_epoch c <> 0) ->
  leader_weights (step c s o) = leader_weights s /\ g_lw (step c s o) = g_lw s.
Proof.
  cbv zeta. intros Hb. destruct (history_FullInv c d m ops) as [la [lq [W I A J]]].
  destruct (set_changes_only_at_epoch c o _ la lq W I A Hb) as [E1 [E2 _]]. auto.
Qed.

(* ---- non-vacuity: the hypotheses of set_changes_only_at_epoch hold in the initial state ---- *)
Example ex_hyps : exists la lq, WF (init 0 5) la lq /\ Inv1 (init 0 5) /\ InvA (init 0 5).
Proof. exact (InvAll_init 0 5). Qed.
Example ex_two_thirds : l_size (act (init 0 5)) = 0 /\ l_size (que (init 0 5)) * 3 < get_mbp (init 0 5) * 2.
Proof. vm_compute. split; reflexivity. Qed.

Print Assumptions lists_wellformed.
Print Assumptions total_weight_is_sum_of_active_weights.
Print Assumptions at_most_one_exit_per_epoch.
Print Assumptions set_changes_only_at_epoch_along_histories.
Print Assumptions remove_keeps_wellformed.
Print Assumptions add_keeps_wellformed.
Print Assumptions leader_group_enumerates_active_once.
Print Assumptions active_and_queued_disjoint.
Print Assumptions set_changes_only_at_epoch.
Print Assumptions set_unchanged_between_epochs.
Print Assumptions block_off_epoch_is_noop.
Print Assumptions transition_needs_two_thirds.
Print Assumptions activation_bounded.
Print Assumptions eviction_only_after_threshold.
Print Assumptions one_exit_candidate_per_block.
