(* Properties/C17.v — statements only.  "The validator set evolves only at epoch boundaries and stays well-formed".
   Model: Staker/Model.v (transcription of builtin/staker).  WF s la lq (Staker/Inv.v): following Next from the active
   (queued) head visits exactly the records la (lq), each once, Prev is the inverse of Next, tail and size are the stored
   ones, membership in la / lq is exactly status Active / Queued, every other record is unlinked. *)
From Coq Require Import List NArith Bool Lia.
From Verif Require Import Common.Util Staker.Model Staker.Base Staker.Lists Staker.Inv Staker.RList Staker.Inv2 Staker.ProofsStep
  Staker.ProofsUser Staker.ProofsUser2 Staker.ProofsHist Staker.Held Staker.ProofsEpoch Staker.ProofsAll Staker.ProofsCustody Staker.ProofsKeys Staker.Witness.
Import ListNotations.
Open Scope N_scope.

(* ---- well-formedness ---- *)

(* along EVERY history (user operations by any actors, blocks with the PoA->PoS transition and housekeeping: renewals, the
   scheduled exit, evictions, activations) the active and queued lists are well formed *)
Theorem lists_wellformed c d m ops : exists la lq, WF (run c (init d m) ops) la lq.
Proof. destruct (history_FullInv c d m ops) as [la [lq H]]. exists la, lq. exact (f_wf _ _ _ H). Qed.

(* the total weight used for scheduling scores and finality thresholds is the sum of the stored weights, every record that is
   not active has weight 0, and an active record's weight is its own weighted stake plus its delegations' locked weight *)
Theorem total_weight_is_sum_of_active_weights c d m ops :
  let s := run c (init d m) ops in
  g_lw s = sumf v_weight (vals s) /\
  (forall a v, getv s a = Some v -> v_status v <> StatusActive -> v_weight v = 0) /\
  (forall a v, getv s a = Some v -> v_status v = StatusActive ->
     v_weight v = calc_weight (v_locked v) (v_multiplier v) + a_lw (get_agg s a)).
Proof.
  destruct (history_FullInv c d m ops) as [la [lq H]]. pose proof (f_2 _ _ _ H) as J. cbv zeta.
  split; [apply (j_lw _ J)|split; [apply (j_w0 _ J)|]]. intros a v Hv Hs. apply (j_w1 _ J a v Hv Hs).
Qed.

(* the list operations themselves, for all lists and positions (head / middle / tail / only element):
   removing a member of a well-formed list yields the well-formed list without it ... *)
Theorem remove_keeps_wellformed w a e s s1 e1 l v0 :
  ll_remove w a e s = Ok (s1, e1) -> wf_list s (get_ls w s) l -> In a l ->
  getv s a = Some v0 -> v_prev e = v_prev v0 -> v_next e = v_next v0 ->
  exists l1 l2, l = l1 ++ a :: l2 /\ wf_list s1 (get_ls w s1) (l1 ++ l2) /\
    getv s1 a = Some (set_next None (set_prev None e)) /\ get_ls (negb w) s1 = get_ls (negb w) s.
Proof.
  intros H1 H2 H3 H4 H5 H6.
  destruct (ll_remove_wf w a e s s1 e1 l v0 H1 H2 H3 H4 H5 H6) as [l1 [l2 [A [B [C [D [E _]]]]]]].
  exists l1, l2. subst e1. auto.
Qed.

(* ... and appending a new member yields the well-formed list with it at the end *)
Theorem add_keeps_wellformed w a e s s1 l :
  ll_add w a e s = Ok s1 -> wf_list s (get_ls w s) l -> ~ In a l -> v_next e = None ->
  wf_list s1 (get_ls w s1) (l ++ [a]) /\ get_ls (negb w) s1 = get_ls (negb w) s.
Proof.
  intros H1 H2 H3 H4. destruct (ll_add_wf w a e s s1 l H1 H2 H3 H4) as [A [_ [B _]]]. auto.
Qed.

(* every active validator is reachable exactly once: the leader group the staker reports is the abstract active list
   (no duplicates), paired with the stored records *)
Theorem leader_group_enumerates_active_once s la lq : WF s la lq ->
  NoDup la /\ exists r, iterate true s = Ok r /\ map fst r = la /\ forall a v, In (a, v) r -> getv s a = Some v.
Proof.
  intros H. split; [apply (wl_nodup _ _ _ (wf_a _ _ _ H))|apply (leader_group_is_active_list s la lq H)].
Qed.

Theorem active_and_queued_disjoint s la lq a : WF s la lq -> In a la -> In a lq -> False.
Proof.
  intros H Ha Hq. destruct (seg_in_get _ _ _ _ _ _ (wl_seg _ _ _ (wf_a _ _ _ H)) Ha) as [v Hv].
  destruct (wf_st _ _ _ H a v Hv) as [[S1 _] [[S2 _] _]]. rewrite (S1 Ha) in S2. specialize (S2 Hq). discriminate.
Qed.

(* ---- evolution only at epoch boundaries ---- *)

(* every user operation (successful or not) and every block that is not an epoch boundary leaves the leader group
   (members, order, weights) and the total weight unchanged *)
Theorem set_changes_only_at_epoch c o s la lq :
  WF s la lq -> Inv1 s -> InvA s ->
  (is_block o = true -> (blk s + 1) mod c_epoch c <> 0) ->
  leader_weights (step c s o) = leader_weights s /\ g_lw (step c s o) = g_lw s /\
  exists lq', WF (step c s o) la lq'.
Proof.
  intros H1 H2 H3 Hb.
  assert (U : user_ok s (step c s o) la lq).
  { destruct (is_block o) eqn:E; [destruct o; try discriminate; apply off_epoch_block_ok; auto|apply user_step_ok; auto]. }
  destruct U as [lq' [A [B [C D]]]].
  destruct (leader_weights_kept s (step c s o) la lq lq' H1 A C) as [K1 K2]. split; [auto|split; [auto|exists lq'; auto]].
Qed.

Theorem set_unchanged_between_epochs c s ops la lq :
  WF s la lq -> Inv1 s -> InvA s -> no_epoch_block c s ops ->
  leader_weights (run c s ops) = leader_weights s /\ g_lw (run c s ops) = g_lw s.
Proof.
  intros H1 H2 H3 H4. destruct (run_InvAll_no_epoch c s ops la lq H1 H2 H3 H4) as [lq' [_ [_ [_ [A B]]]]]. auto.
Qed.

Theorem block_off_epoch_is_noop c s :
  (blk s + 1) mod c_epoch c <> 0 -> step c s OBlock = w_blk (blk s + 1) s.
Proof. exact (block_off_epoch c s). Qed.

(* proof-of-stake is not activated while fewer than 2/3 of max-block-proposers are queued *)
Theorem transition_needs_two_thirds c b s :
  l_size (act s) = 0 -> l_size (que s) * 3 < get_mbp s * 2 -> sync_pos c b s = Ok (s, false, false).
Proof. exact (sync_pos_needs_two_thirds c b s). Qed.

(* the number of activations of one epoch is at most the queue length, and (when positive) does not lift the group
   above max-block-proposers *)
Theorem activation_bounded ex s :
  let n := compute_activation_count ex s in
  let ls := if ex then sub64 (l_size (act s)) 1 else l_size (act s) in
  n <= l_size (que s) /\ (n = 0 \/ ls + n <= get_mbp s).
Proof. exact (activation_count_bounded ex s). Qed.

(* offline validators are evicted only after the threshold, only at eviction-interval blocks *)
Theorem eviction_only_after_threshold c b s t a :
  compute_epoch_transition c b s = Ok t -> In a (tr_evictions t) ->
  b <> 0 /\ b mod c_evict_int c = 0 /\
  exists v off, getv s a = Some v /\ v_offline v = Some off /\ off + c_evict_thr c < b /\ v_exit v = None.
Proof. exact (evictions_only_after_threshold c b s t a). Qed.

(* at most one validator is scheduled to exit per epoch block: the exit of a block is the single entry of the exit map *)
Theorem one_exit_candidate_per_block c b s t :
  compute_epoch_transition c b s = Ok t -> tr_exit t = get_exit s b.
Proof.
  unfold compute_epoch_transition. intros H.
  apply bind_ok in H as [ev [_ H]]. apply bind_ok in H as [ren [_ H]]. inversion H; reflexivity.
Qed.
(* at most one validator leaves the leader group per block, namely the one scheduled in the exit map for that block
   (la, la' are THE active lists before and after: WF determines them) — for every state reached by a history *)
Theorem at_most_one_exit_per_epoch c d m ops la lq la' lq' :
  let s := run c (init d m) ops in
  WF s la lq -> WF (step c s OBlock) la' lq' ->
  forall a b, In a la -> In b la -> ~ In a la' -> ~ In b la' -> a = b /\ a = get_exit s (blk s + 1).
Proof.
  cbv zeta. intros W W' a b Ha Hb Na Nb. destruct (history_FullInv c d m ops) as [la0 [lq0 HF]].
  rewrite (WF_active_unique _ _ _ _ _ W (f_wf _ _ _ HF)) in Ha, Hb.
  pose proof (one_exit_per_block c _ la0 lq0 la' lq' HF W' a Ha Na). pose proof (one_exit_per_block c _ la0 lq0 la' lq' HF W' b Hb Nb).
  split; congruence.
Qed.

(* along histories, user operations and non-epoch blocks leave the leader group, its weights and the total weight unchanged *)
Theorem set_changes_only_at_epoch_along_histories c d m ops o :
  let s := run c (init d m) ops in
  (is_block o = true -> (blk s + 1) mod c_epoch c <> 0) ->
  leader_weights (step c s o) = leader_weights s /\ g_lw (step c s o) = g_lw s.
Proof.
  cbv zeta. intros Hb. destruct (history_FullInv c d m ops) as [la [lq [W I A J]]].
  destruct (set_changes_only_at_epoch c o _ la lq W I A Hb) as [E1 [E2 _]]. auto.
Qed.

(* the total weight is the sum of the weights of the leader group as the staker reports it (this needs that the validation map
   never holds two entries for one address, proved along histories in Staker/ProofsKeys.v) *)
Theorem total_weight_is_sum_over_leader_group c d m ops ws :
  leader_weights (run c (init d m) ops) = Ok ws -> g_lw (run c (init d m) ops) = sumN (map snd ws).
Proof. exact (total_weight_is_leader_sum_hist c d m ops ws). Qed.

(* ---- errors of the epoch step ---- *)

(* a block always advances the block number; if SyncPOS returns an error (any non-revert error inside the transition or
   housekeeping: arithmetic guard, missing record, exit-slot search exhausted) the staker state is exactly the state before the
   block with the new number: packer and validator revert to their checkpoint and go on, that epoch's housekeeping is skipped *)
Theorem block_number_always_advances c d m ops :
  blk (step c (run c (init d m) ops) OBlock) = blk (run c (init d m) ops) + 1.
Proof. exact (block_number_advances c _ (history_FullInv c d m ops)). Qed.

Theorem failed_sync_skips_the_epoch c s :
  (forall r, sync_pos c (blk s + 1) (w_blk (blk s + 1) s) <> Ok r) -> step c s OBlock = w_blk (blk s + 1) s.
Proof. exact (block_error_skips_housekeeping c s). Qed.

(* NOT proved: that SyncPOS never errs on reachable states.  It does, in the model and (replayed, corpus/C17/evictions-over-101.json)
   in builtin/staker: with max-block-proposers raised above 101, 102 active validators offline past the threshold make the
   eviction loop's exit-slot search (101 tries) fail at the eviction block; the whole housekeeping of that block is dropped *)
Definition sync_never_errs_statement : Prop :=
  forall c d m ops, exists r, let s := run c (init d m) ops in sync_pos c (blk s + 1) (w_blk (blk s + 1) s) = Ok r.

(* witness history (Staker/Witness.v, computed once): big_cfg, big_ops, big_sync_errs, big_block_is_skipped *)
Theorem sync_never_errs_refuted : ~ sync_never_errs_statement.
Proof.
  intros H. destruct (H big_cfg 0 102 big_ops) as [r Hr]. cbv zeta in Hr. rewrite big_sync_errs in Hr. discriminate.
Qed.
Example eviction_overflow_block_is_skipped :
  let s := run big_cfg (init 0 102) big_ops in
  (blk s, l_size (act s), answer big_cfg s OBlock, blk (step big_cfg s OBlock), l_size (act (step big_cfg s OBlock))) = (15, 102, (0, 6), 16, 102).
Proof. exact big_block_is_skipped. Qed.

(* ---- "never empty the set" ---- *)

(* activations only add members (every member of the leader group is still a member after any number of activations) *)
Theorem activations_only_add n b mx s la lq s' :
  Full s la lq -> activate_n n b mx s = Ok s' ->
  exists la' lq', Full s' la' lq' /\ forall x, In x la -> In x la'.
Proof.
  intros HF H. destruct (activate_n_ok b mx n s la lq s' HF H) as [la' [lq' [F' [_ [_ [Sub _]]]]]]. exists la', lq'. auto.
Qed.

(* the strong reading "the leader group never becomes empty once PoS is active" is FALSE for the model — and for builtin/staker
   (replayed: corpus/C17/leader-group-empties.json): the scheduled exit of the last active validator with an empty queue empties it *)
Definition leader_group_never_empties_statement : Prop :=
  forall c d m ops o, 0 < l_size (act (run c (init d m) ops)) -> 0 < l_size (act (step c (run c (init d m) ops) o)).
Definition one_cfg : cfg := mkC 4 8 12 16 4 8 8 0 0.
Definition one_ops : list op := [OAddValidation 161 57505 8 25000000] ++ repeat OBlock 5 ++ [OSignalExit 161 57505] ++ repeat OBlock 6.
Theorem leader_group_never_empties_refuted : ~ leader_group_never_empties_statement.
Proof.
  intros H. specialize (H one_cfg 0 1 one_ops OBlock). vm_compute in H. specialize (H eq_refl). discriminate.
Qed.

(* ---- non-vacuity on non-trivial states ---- *)

Definition ex_cfg17 : cfg := mkC 4 8 12 16 4 8 8 0 0.
(* three validators active (PoS from block 4), three more queued, one delegation, one exit signalled *)
Definition ex_ops17 : list op :=
  [OAddValidation 161 57505 8 25000000; OAddValidation 162 57506 8 26000000; OAddValidation 163 57507 12 27000000] ++ repeat OBlock 4 ++
  [OAddValidation 164 57508 8 25000000; OAddValidation 165 57509 8 25000000; OAddValidation 166 57510 8 25000000;
   OAddDeleg 161 1000 200; OSignalExit 162 57506; OBlock].
Example ex_state17 :
  let s := run ex_cfg17 (init 0 3) ex_ops17 in
  (iterate true s, iterate false s) = (iterate true s, iterate false s) /\
  exists la lq, WF s la lq /\ la = [161; 162; 163] /\ lq = [164; 165; 166] /\ Inv1 s /\ InvA s.
Proof.
  cbv zeta. split; [reflexivity|]. destruct (history_FullInv ex_cfg17 0 3 ex_ops17) as [la [lq [W I A J]]].
  exists la, lq. split; auto.
  destruct (leader_group_is_active_list _ la lq W) as [r [Hr [Hm _]]]. destruct (queued_group_is_queued_list _ la lq W) as [r' [Hr' [Hm' _]]].
  vm_compute in Hr. inversion Hr; subst r. vm_compute in Hr'. inversion Hr'; subst r'. cbn in Hm, Hm'. auto.
Qed.
(* removal from the middle of that queued list satisfies the hypotheses of remove_keeps_wellformed and yields [164; 166] *)
Example ex_remove_middle :
  let s := run ex_cfg17 (init 0 3) ex_ops17 in
  exists v s1 e1, getv s 165 = Some v /\ wf_list s (que s) [164; 165; 166] /\ ll_remove false 165 v s = Ok (s1, e1) /\ wf_list s1 (que s1) [164; 166].
Proof.
  cbv zeta. destruct ex_state17 as [_ [la [lq [W [-> [-> _]]]]]].
  destruct (getv (run ex_cfg17 (init 0 3) ex_ops17) 165) as [v|] eqn:Ev; [|vm_compute in Ev; discriminate].
  destruct (ll_remove false 165 v (run ex_cfg17 (init 0 3) ex_ops17)) as [[s1 e1]| |] eqn:Er;
    [|vm_compute in Ev; inversion Ev; subst v; vm_compute in Er; discriminate|vm_compute in Ev; inversion Ev; subst v; vm_compute in Er; discriminate].
  exists v, s1, e1. split; auto. split; [apply (wf_q _ _ _ W)|]. split; auto.
  destruct (remove_keeps_wellformed false 165 v _ s1 e1 [164; 165; 166] v Er (wf_q _ _ _ W)) as [l1 [l2 [El [Hw _]]]]; auto; [cbn; auto|].
  destruct l1 as [|x1 [|x2 [|x3 t]]]; cbn in El; inversion El; subst; try (destruct t; discriminate). exact Hw.
Qed.
(* the hypotheses of set_changes_only_at_epoch on that state, for a user operation and for the non-epoch block 6 *)
Example ex_set_changes_hyps :
  let s := run ex_cfg17 (init 0 3) ex_ops17 in
  (blk s + 1) mod c_epoch ex_cfg17 <> 0 /\ leader_weights s = Ok [(161, 25000000); (162, 26000000); (163, 27000000)] /\ g_lw s = 78000000.
Proof. vm_compute. repeat split; discriminate || reflexivity. Qed.

Print Assumptions lists_wellformed.
Print Assumptions total_weight_is_sum_over_leader_group.
Print Assumptions block_number_always_advances.
Print Assumptions failed_sync_skips_the_epoch.
Print Assumptions sync_never_errs_refuted.
Print Assumptions activations_only_add.
Print Assumptions leader_group_never_empties_refuted.
Print Assumptions total_weight_is_sum_of_active_weights.
Print Assumptions at_most_one_exit_per_epoch.
Print Assumptions set_changes_only_at_epoch_along_histories.
Print Assumptions remove_keeps_wellformed.
Print Assumptions add_keeps_wellformed.
Print Assumptions leader_group_enumerates_active_once.
Print Assumptions active_and_queued_disjoint.
Print Assumptions set_changes_only_at_epoch.
Print Assumptions set_unchanged_between_epochs.
Print Assumptions block_off_epoch_is_noop.
Print Assumptions transition_needs_two_thirds.
Print Assumptions activation_bounded.
Print Assumptions eviction_only_after_threshold.
Print Assumptions one_exit_candidate_per_block.

(* ---- translation tie (T): the period arithmetic that decides renewals and exits IS the code ----
   coq/Gen/StakerTime.v is regenerated by tools/go2v on every run from builtin/staker/validation/validation.go; on in-range inputs
   the model's current_iteration (exit scheduling, SignalExit) and is_period_end (the renewal / exit scan of Housekeep) are equal to
   the translated Validation.CurrentIteration / Validation.IsPeriodEnd applied to the record's fields (GenProofs/StakerTimeProofs.v). *)
From Coq Require Import ZArith.
From Verif Require Import GenProofs.StakerTimeProofs.
Open Scope N_scope.

Theorem period_arithmetic_is_translated_code v b :
  val_in_range v -> (b < 4294967295)%N ->
  gen_current_iteration v b = res_Z (current_iteration v b) /\ gen_is_period_end v b = is_period_end v b.
Proof.
  intros Hv Hb. destruct (staker_time_translation_tie (mkC 0 0 0 0 0 0 0 0 0) (mkD 0 0 0 None 0) v b Hv Hb) as [H1 [H2 _]].
  exact (conj H1 H2).
Qed.

Print Assumptions period_arithmetic_is_translated_code.
