(* Properties/C08.v — statements only.  "VET is conserved; VTHO changes only by fees burned and rewards issued; the base fee
   moves by at most 1/8 per block, never below its floor, and is a function of the parent header alone."
   Totals are over any duplicate-free address list `dom` that contains the addresses an operation touches (every other
   account is left untouched: ledger_untouched). *)
From Coq Require Import ZArith List Bool Lia.
From Verif Require Import Ledger.Model Ledger.Proofs TxExec.Model TxExec.Proofs TxExec.ProofsEffects TxExec.ProofsBlock TxExec.ProofsAdopt BaseFee.Model BaseFee.Proofs.
Import ListNotations.
Open Scope Z_scope.

(* ---------------------------------------------------------------- ledger primitives *)
(* 0. EXACT totals along any list of ledger primitives (transfers, energy add / sub / move, self-destructs, reward distribution):
      total VET falls by exactly what self-destructs to self destroy (`burned`), total VTHO at block time changes by adds - subs +
      issued rewards minus what they destroy.  This is the full statement; 1-3 are its corollaries. *)
Theorem ledger_totals_exact T S os l dom : NoDup dom -> (forall o, In o os -> covers dom o) ->
  sum_bal dom (l_acc (apply_ops T S l os)) = sum_bal dom (l_acc l) - fst (burned T S l os) /\
  sum_eng T S dom (l_acc (apply_ops T S l os)) = sum_eng T S dom (l_acc l) + energy_delta_ops T S l os - snd (burned T S l os).
Proof. exact (ops_totals_exact T S os l dom). Qed.

(* 1. (partial form of the property's first sentence: the restriction is exactly F5) every ledger primitive other than a
      self-destruct whose beneficiary is the contract itself preserves the total VET *)
Theorem vet_conserved_partial T S os l dom : NoDup dom ->
  (forall o, In o os -> covers dom o /\ self_destruct_to_self o = false) ->
  sum_bal dom (l_acc (apply_ops T S l os)) = sum_bal dom (l_acc l).
Proof. exact (vet_conserved_ops T S os l dom). Qed.

(* 2. SELFDESTRUCT with beneficiary = self burns exactly the contract's VET and VTHO (F5) *)
Theorem suicide_self_burns T S l c dom : NoDup dom -> In c dom ->
  sum_bal dom (l_acc (apply_op T S l (OSuicide c c))) = sum_bal dom (l_acc l) - a_bal (l_acc l c) /\
  sum_eng T S dom (l_acc (apply_op T S l (OSuicide c c))) = sum_eng T S dom (l_acc l) - energy_at T S (l_acc l c).
Proof. exact (suicide_self_burns_lemma T S l c dom). Qed.

(* the unrestricted statement of the property, and its refutation by the faithful model *)
Definition vet_conserved_statement : Prop :=
  forall T S os l dom, NoDup dom -> (forall o, In o os -> covers dom o) ->
  sum_bal dom (l_acc (apply_ops T S l os)) = sum_bal dom (l_acc l).
Theorem vet_conserved_refuted : ~ vet_conserved_statement.
Proof.
  intros H.
  specialize (H 100 1000 [OSuicide 7 7] (mkL (fun a => if a =? 7 then mkAcc 1000 777 50 else empty_acc) 0 0 0) [7]
                ltac:(repeat constructor; intros []) ltac:(intros o [<-|[]] a [<-|[<-|[]]]; left; reflexivity)).
  vm_compute in H. discriminate.
Qed.

Theorem ledger_untouched T S l o a : ~ In a (touches o) -> l_acc (apply_op T S l o) a = l_acc l a.
Proof. exact (untouched_op T S l o a). Qed.

(* 3. without self-destructs to self: total energy at block time changes by exactly adds - successful subs + issued rewards *)
Theorem vtho_delta T S os l dom : NoDup dom ->
  (forall o, In o os -> covers dom o /\ self_destruct_to_self o = false) ->
  sum_eng T S dom (l_acc (apply_ops T S l os)) = sum_eng T S dom (l_acc l) + energy_delta_ops T S l os.
Proof. exact (vtho_delta_ops T S os l dom). Qed.

(* ---------------------------------------------------------------- transactions and blocks *)
Section C08.
  Variables W O : Type.
  Variable clause_result : env -> txn -> nat -> Z -> state W -> cres W O.
  Variable write_credit : Z -> Z -> Z -> W -> W.

  (* The EVM is an oracle.  That a clause moves funds ONLY through ledger primitives is part of the oracle's TYPE: a clause result
     carries cr_ops : list op and its effect on the ledger is apply_ops of that list (TxExec.Model.cres_state) — this is assumed
     by typing, not proved about an EVM, and it is what the harness checks on real code (every leaf's change is explained by the
     receipt's transfers and energy events).  What the primitives conserve is then proved, not assumed.
     The premises are PER EXECUTION: tx_ops_ok dom e t ci st0 speaks about the clauses this transaction actually executes on this
     state (tx_effects): the primitives of its non-failing clauses are transfers / energy moves / self-destructs (clause_kind: not
     the wrapper's fee operations) and touch only addresses of dom.  dom may depend on the transaction and the state; for a block
     it is the union of the per-transaction sets (effs_ok_mono), and flow_ops_ok asks tx_ops_ok of exactly the adopted
     transactions on the states they are adopted on. *)

  (* 4. one transaction, EXACT: total VTHO after = before + reward - paid - VTHO burned by self-destructs to self; total VET
        after = before - VET burned.  tx_burned is (0,0) when the transaction reverts (state restored). *)
  Theorem tx_totals_exact e t ci st0 st rc dom :
    let T := e_time e in let S := e_stop e in
    tx_ops_ok W O clause_result dom e t ci st0 -> NoDup dom -> In (r_payer O rc) dom -> In (e_benef e) dom ->
    exec_tx W O clause_result write_credit e t ci st0 = Done W O st rc ->
    sum_eng T S dom (l_acc (fst st)) =
      sum_eng T S dom (l_acc (fst st0)) + r_reward O rc - r_paid O rc - snd (tx_burned W O clause_result e t ci st0) /\
    sum_bal dom (l_acc (fst st)) = sum_bal dom (l_acc (fst st0)) - fst (tx_burned W O clause_result e t ci st0).
  Proof. exact (tx_totals_exact_lemma W O clause_result write_credit e t ci st0 st rc dom). Qed.

  (* a per-transaction address set may be enlarged (to the block's union) *)
  Theorem tx_ops_ok_mono dom dom' e t ci st0 :
    incl dom dom' -> tx_ops_ok W O clause_result dom e t ci st0 -> tx_ops_ok W O clause_result dom' e t ci st0.
  Proof. intros I. exact (effs_ok_mono W O dom dom' _ I). Qed.

  (* 5. a whole block (adopted txs, rejected ones reverted, staking reward when PoS is active), EXACT, F5 blocks included:
        total VTHO after = before + sum of rewards - sum of paid + staking reward - burned; total VET after = before - burned,
        burned = sum over the adopted transactions of what their self-destructs to self destroyed (flow_burned) *)
  Theorem block_totals_exact e dom txs st staking deleg used st' rcs :
    let T := e_time e in let S := e_stop e in
    flow_ops_ok W O clause_result write_credit dom e 0 txs st -> NoDup dom -> In (e_benef e) dom ->
    (match staking with Some _ => In deleg dom | None => True end) ->
    block_flow W O clause_result write_credit e txs st staking deleg = (used, st', rcs) ->
    Forall (fun rc => In (r_payer O rc) dom) rcs ->
    sum_eng T S dom (l_acc (fst st')) =
      sum_eng T S dom (l_acc (fst st)) + sum_reward O rcs - sum_paid O rcs
      + (match staking with Some (reward, _, _, _) => reward | None => 0 end)
      - snd (flow_burned W O clause_result write_credit e 0 txs st) /\
    sum_bal dom (l_acc (fst st')) = sum_bal dom (l_acc (fst st)) - fst (flow_burned W O clause_result write_credit e 0 txs st).
  Proof. exact (block_totals_exact_lemma W O clause_result write_credit e dom txs st staking deleg used st' rcs). Qed.

  (* 5a. the same for the packer's Adopt in full (all pre-checks, known-tx and dependency bookkeeping) *)
  Theorem flow_full_totals_exact e fe dom txs fs st fs' st' rcs :
    let T := e_time e in let S := e_stop e in
    flow_full_ops_ok W O clause_result write_credit dom e fe fs txs st -> NoDup dom -> In (e_benef e) dom ->
    adopt_all_full W O clause_result write_credit e fe fs txs st [] = (fs', st', rcs) ->
    Forall (fun rc => In (r_payer O rc) dom) rcs ->
    sum_eng T S dom (l_acc (fst st')) = sum_eng T S dom (l_acc (fst st)) + sum_reward O rcs - sum_paid O rcs
                                        - snd (flow_full_burned W O clause_result write_credit e fe fs txs st) /\
    sum_bal dom (l_acc (fst st')) = sum_bal dom (l_acc (fst st)) - fst (flow_full_burned W O clause_result write_credit e fe fs txs st).
  Proof.
    intros T S N ND HB H HP.
    destruct (adopt_all_full_totals W O clause_result write_credit e fe dom ND HB txs fs st [] fs' st' rcs N H HP) as [new [E [A B]]].
    cbn in E. subst new. split; assumption.
  Qed.

  (* 5c. the property's sentences as stated, for every block in which no executed clause of an adopted transaction self-destructs
         to itself: VET conserved, VTHO changes by rewards - paid + staking reward *)
  Theorem vtho_delta_block e dom txs st staking deleg used st' rcs :
    let T := e_time e in let S := e_stop e in
    flow_ops_ok W O clause_result write_credit dom e 0 txs st -> flow_no_self W O clause_result write_credit e 0 txs st ->
    NoDup dom -> In (e_benef e) dom -> (match staking with Some _ => In deleg dom | None => True end) ->
    block_flow W O clause_result write_credit e txs st staking deleg = (used, st', rcs) ->
    Forall (fun rc => In (r_payer O rc) dom) rcs ->
    sum_eng T S dom (l_acc (fst st')) =
      sum_eng T S dom (l_acc (fst st)) + sum_reward O rcs - sum_paid O rcs
      + (match staking with Some (reward, _, _, _) => reward | None => 0 end) /\
    sum_bal dom (l_acc (fst st')) = sum_bal dom (l_acc (fst st)).
  Proof.
    intros T S N NS ND HB HD H HP.
    destruct (block_totals_exact_lemma W O clause_result write_credit e dom txs st staking deleg used st' rcs N ND HB HD H HP) as [A B].
    rewrite (flow_burned_none W O clause_result write_credit e txs 0 st NS) in A, B. cbn [fst snd] in A, B. fold T S in A. split; lia.
  Qed.

  Theorem vtho_delta_tx e t ci st0 st rc dom :
    let T := e_time e in let S := e_stop e in
    tx_ops_ok W O clause_result dom e t ci st0 -> tx_no_self W O clause_result e t ci st0 ->
    NoDup dom -> In (r_payer O rc) dom -> In (e_benef e) dom ->
    exec_tx W O clause_result write_credit e t ci st0 = Done W O st rc ->
    sum_eng T S dom (l_acc (fst st)) = sum_eng T S dom (l_acc (fst st0)) + r_reward O rc - r_paid O rc /\
    sum_bal dom (l_acc (fst st)) = sum_bal dom (l_acc (fst st0)).
  Proof.
    intros T S N NS ND HP HB H.
    destruct (tx_totals_exact_lemma W O clause_result write_credit e t ci st0 st rc dom N ND HP HB H) as [A B].
    rewrite (tx_burned_none W O clause_result e t ci st0 NS) in A, B. cbn [fst snd] in A, B. fold T S in A. split; lia.
  Qed.

  (* 5b. per account (dom = [a]) and over any address set for which the executed clauses are energy-quiet (every primitive is a
         VET transfer or touches no address of the set — so also a payer that sends or receives VET in its clauses): exactly the
         payer is charged gasUsed x price (= r_paid, C07 gas_bounds), exactly the beneficiary receives the reward, nobody else's
         VTHO moves; VET of the set unchanged when no primitive touches it *)
  Theorem energy_delta_any_set e t ci st0 st rc dom :
    let T := e_time e in let S := e_stop e in
    tx_ops_quiet W O clause_result dom e t ci st0 -> NoDup dom ->
    exec_tx W O clause_result write_credit e t ci st0 = Done W O st rc ->
    sum_eng T S dom (l_acc (fst st)) = sum_eng T S dom (l_acc (fst st0))
        + (if member (e_benef e) dom then r_reward O rc else 0) - (if member (r_payer O rc) dom then r_paid O rc else 0) /\
    (tx_ops_avoid W O clause_result dom e t ci st0 -> sum_bal dom (l_acc (fst st)) = sum_bal dom (l_acc (fst st0))).
  Proof. exact (energy_delta_any_set_lemma W O clause_result write_credit e t ci st0 st rc dom). Qed.

  (* 6. the price is the effective price of the transaction (legacy: base price scaled by the coefficient; dynamic: min(maxFee,
        maxPriority + baseFee)), never below the block base fee; the payer is the delegator if there is one, else the origin or —
        with enough user credit on the common To — the To contract or its selected, still sponsoring sponsor *)
  Theorem payer_and_price e t ci st0 st rc :
    exec_tx W O clause_result write_credit e t ci st0 = Done W O st rc ->
    r_price O rc = effective_price e t (match e_base_fee e with Some bf => bf | None => 0 end) /\
    (match t_delegator t with
     | Some d => r_payer O rc = d
     | None => r_payer O rc = t_origin t \/
               (exists to, common_to (t_clauses t) = Some to /\ t_gas t * r_price O rc <= k_credit ci /\
                           (r_payer O rc = to \/ (k_is_sponsor ci = true /\ r_payer O rc = k_sponsor ci)))
     end).
  Proof. exact (payer_and_price_lemma W O clause_result write_credit e t ci st0 st rc). Qed.

  Theorem price_ge_basefee e t ci st0 st rc bf :
    exec_tx W O clause_result write_credit e t ci st0 = Done W O st rc -> e_base_fee e = Some bf -> bf <= r_price O rc.
  Proof. exact (price_ge_basefee_lemma W O clause_result write_credit e t ci st0 st rc bf). Qed.
End C08.

(* ---------------------------------------------------------------- base fee *)
(* 7. for MinGasLimit <= gasLimit <= (2^64-1)/75 (no uint64 wrap of gasLimit*75), gasUsed <= gasLimit, parent base fee >= floor:
      the next base fee is >= the floor and differs from the parent's by at most 1/8 *)
Theorem basefee_bounds galactica pnum gl gu pb :
  0 <= galactica -> galactica < pnum + 1 < two32 ->
  min_gas_limit <= gl <= max_nowrap_gas_limit -> 0 <= gu <= gl -> initial_base_fee <= pb ->
  exists next, calc_base_fee galactica pnum gl gu pb = BfFee next /\
    initial_base_fee <= next /\ Z.abs (next - pb) <= pb / 8.
Proof. exact (basefee_bounds_lemma galactica pnum gl gu pb). Qed.

(* 7b. direction: a parent exactly at its gas target floor(75% of its gas limit) leaves the base fee unchanged; below the target
       it never rises; above it strictly rises *)
Theorem basefee_direction galactica pnum gl gu pb :
  0 <= galactica -> galactica < pnum + 1 < two32 ->
  min_gas_limit <= gl <= max_nowrap_gas_limit -> 0 <= gu <= gl -> initial_base_fee <= pb ->
  exists next, calc_base_fee galactica pnum gl gu pb = BfFee next /\
    (gu = gl * 75 / 100 -> next = pb) /\ (gu < gl * 75 / 100 -> next <= pb) /\ (gu > gl * 75 / 100 -> pb < next).
Proof. exact (basefee_direction_lemma galactica pnum gl gu pb). Qed.

Theorem basefee_first_galactica_block galactica pnum gl gu pb :
  pnum + 1 < two32 -> 0 <= pnum -> pnum + 1 = galactica -> calc_base_fee galactica pnum gl gu pb = BfFee initial_base_fee.
Proof. exact (basefee_first_block galactica pnum gl gu pb). Qed.

Theorem basefee_none_before_fork galactica pnum gl gu pb :
  pnum + 1 < two32 -> 0 <= pnum -> pnum + 1 < galactica -> calc_base_fee galactica pnum gl gu pb = BfNone.
Proof. exact (basefee_before_fork galactica pnum gl gu pb). Qed.

(* 7c. the floor precondition of 7 / 7b is an invariant of the chain: along any run of post-fork headers whose base fees are
       produced by the recurrence (the fork block carries initial_base_fee), every base fee is >= the floor *)
Theorem basefee_chain_ge_floor galactica hs pnum pb :
  0 <= galactica -> galactica < pnum + 1 -> pnum + Z.of_nat (length hs) < two32 ->
  Forall (fun h => min_gas_limit <= fst h <= max_nowrap_gas_limit /\ 0 <= snd h <= fst h) hs ->
  initial_base_fee <= pb ->
  exists fs, chain_fees galactica pnum pb hs = Some fs /\ length fs = length hs /\ Forall (fun f => initial_base_fee <= f) fs.
Proof. exact (basefee_chain_lemma galactica hs pnum pb). Qed.

(* stated precondition, not a finding: above the no-wrap bound the 1/8 bound fails *)
Theorem basefee_wrap_example :
  exists gl gu pb next, max_nowrap_gas_limit < gl < two64 /\ 0 <= gu <= gl /\ initial_base_fee <= pb /\
    calc_base_fee 1 5 gl gu pb = BfFee next /\ pb / 8 < Z.abs (next - pb).
Proof. exact basefee_wrap_example_lemma. Qed.

(* non-vacuity *)
Example ex_basefee : calc_base_fee 1 5 40000000 40000000 10000000000000 = BfFee 10416666666666
                     /\ min_gas_limit <= 40000000 <= max_nowrap_gas_limit
                     /\ chain_fees 1 5 10000000000000 [(40000000, 40000000); (40000000, 0); (40000003, 30000002)]
                        = Some [10416666666666; 10000000000000; 10000000000000].
Proof. vm_compute. repeat split; try discriminate; reflexivity. Qed.
Example ex_ledger_ops :
  let l := mkL (fun a => if a =? 1 then mkAcc 1000 500 50 else if a =? 2 then mkAcc 7 0 0 else empty_acc) 0 0 0 in
  let os := [OTransfer 1 2 300; OEnergyMove 1 3 100; OSuicide 2 3; OEnergySub 1 50; OEnergyAdd 9 5; OSuicide 3 3] in
  let dom := [1; 2; 3; 9] in
  NoDup dom /\ (forall o, In o os -> covers dom o) /\
  sum_bal dom (l_acc l) = 1007 /\ sum_bal dom (l_acc (apply_ops 100 1000 l os)) = 700 /\
  sum_eng 100 1000 dom (l_acc l) = 500 /\ sum_eng 100 1000 dom (l_acc (apply_ops 100 1000 l os)) = 355 /\
  energy_delta_ops 100 1000 l os = -45 /\ burned 100 1000 l os = (307, 100).
Proof.
  cbv zeta. split; [repeat constructor; cbn; intuition discriminate|]. split.
  - intros o Ho a Ha. cbn in Ho. repeat (destruct Ho as [<-|Ho]; [cbn in Ha; cbn; intuition (subst; auto)|]). contradiction.
  - vm_compute. repeat split; reflexivity.
Qed.

(* a block with a transaction that reverts (tx_b: its 2nd clause fails), one that cannot start (tx_c: max fee below the base fee),
   one whose 2nd clause self-destructs contract 7 to itself (tx_a: F5, 986 wei and 170 VTHO-wei destroyed), and a PoS staking
   reward of 3000 split with the delegator contract 88: the oracle satisfies clause_ops_ok, and both sides of block_totals_exact
   are evaluated *)
Definition ex8_oracle (_ : env) (t : txn) (i : nat) (g : Z) (st : state Z) : cres Z Z :=
  mkCres Z Z (g / 2) 0 (Nat.eqb i 1 && (t_gas t =? 99999))
         (if Nat.eqb i 0 then [OTransfer 1 2 5; OEnergyMove 1 2 1000] else [OSuicide 7 7]) (snd st) 0.
Definition ex8_wc (_ _ c w : Z) : Z := w.
Definition ex8_env := mkEnv 100 1000 5 3 10000000 (Some 10000000000000) 1000000000000000 300000000000000000 77 10.
Definition ex8_led : ledger :=
  mkL (fun a => if a =? 1 then mkAcc 1000 90000000000000000000 50 else if a =? 7 then mkAcc 986 170 50 else empty_acc) 0 0 0.
Definition ex8_ci := mkCI 0 0 false false.
Definition tx_a := mkTx true 200000 [mkClause (Some 2) 0 0 5; mkClause (Some 7) 0 0 0] 0 20000000000000 500 1 true None true 0 0 0 false.
Definition tx_b := mkTx true 99999 [mkClause (Some 2) 0 0 5; mkClause (Some 7) 0 0 0] 0 20000000000000 500 1 true None true 0 0 0 false.
Definition tx_c := mkTx true 200000 [mkClause (Some 2) 0 0 5] 0 5 0 1 true None true 0 0 0 false.
Definition dom8 := [1; 2; 7; 77; 88].

Example ex8_clause_ops_ok : clause_ops_ok Z Z ex8_oracle dom8 /\ NoDup dom8 /\
  (forall e t ci st0, tx_ops_ok Z Z ex8_oracle dom8 e t ci st0).
Proof.
  assert (G : clause_ops_ok Z Z ex8_oracle dom8); [|split; [exact G|split; [repeat constructor; cbn; intuition discriminate|apply clause_ops_ok_tx; exact G]]].
  intros e t i g st _ o Ho. cbn in Ho. destruct (Nat.eqb i 0).
  - destruct Ho as [<-|[<-|[]]]; (split; [reflexivity|intros a Ha; cbn in Ha; cbn; intuition (subst; auto)]).
  - destruct Ho as [<-|[]]. split; [reflexivity|intros a Ha; cbn in Ha; cbn; intuition (subst; auto)].
Qed.

Example ex8_block : exists st rcs,
  let txs := [(tx_b, ex8_ci); (tx_c, ex8_ci); (tx_a, ex8_ci)] in
  block_flow Z Z ex8_oracle ex8_wc ex8_env txs (ex8_led, 0) (Some (3000, 0, 0, true)) 88 = (243500, st, rcs) /\
  map (fun rc => (r_gas_used Z rc, r_reverted Z rc, r_payer Z rc)) rcs = [(84250, true, 1); (159250, false, 1)] /\
  flow_burned Z Z ex8_oracle ex8_wc ex8_env 0 txs (ex8_led, 0) = (986, 170) /\
  sum_bal dom8 (l_acc ex8_led) = 1986 /\ sum_bal dom8 (l_acc (fst st)) = 1000 /\
  sum_eng 100 1000 dom8 (l_acc ex8_led) = 90000000000000000170 /\
  sum_eng 100 1000 dom8 (l_acc (fst st)) = 87565000000000003000 /\
  sum_reward Z rcs = 121750000 /\ sum_paid Z rcs = 2435000000121750000 /\
  view 100 1000 (fst st) 88 = (0, 2100) /\ view 100 1000 (fst st) 7 = (0, 0).
Proof. eexists _, _. cbv zeta. split; [vm_compute; reflexivity|]. vm_compute. repeat split; reflexivity. Qed.

(* an oracle whose touched addresses DEPEND ON THE TRANSACTION: every clause transfers its value from the transaction's origin to
   the clause's target.  No single finite set serves all transactions; the per-execution premise is discharged by a theorem for
   EVERY transaction with dom = origin :: targets (ex9_tx_ops_ok), two transactions with disjoint address sets {1,2} and {3,4}
   are packed into one block, and vtho_delta_block is APPLIED (not just evaluated) with the union. *)
Definition ex9_oracle (_ : env) (t : txn) (i : nat) (g : Z) (st : state Z) : cres Z Z :=
  mkCres Z Z (g / 2) 0 false
         (match nth_error (t_clauses t) i with
          | Some c => match c_to c with Some to => [OTransfer (t_origin t) to (c_value c)] | None => [] end
          | None => [] end) (snd st) 0.
Definition targets (t : txn) : list Z := flat_map (fun c => match c_to c with Some a => [a] | None => [] end) (t_clauses t).

Lemma ex9_tx_ops_ok e t ci st0 : tx_ops_ok Z Z ex9_oracle (t_origin t :: targets t) e t ci st0 /\ tx_no_self Z Z ex9_oracle e t ci st0.
Proof.
  assert (K : forall p o, In p (tx_effects Z Z ex9_oracle e t ci st0) -> In o (cr_ops Z Z (snd p)) ->
              exists c to, In c (t_clauses t) /\ c_to c = Some to /\ o = OTransfer (t_origin t) to (c_value c)).
  { intros p o Hp Ho. destruct (tx_effects_in Z Z ex9_oracle _ _ _ _ _ Hp) as [j [g [s E]]]. rewrite E in Ho. cbn in Ho.
    destruct (nth_error (t_clauses t) j) as [c|] eqn:N; [|contradiction]. destruct (c_to c) as [to|] eqn:T; [|contradiction].
    destruct Ho as [<-|[]]. exists c, to. split; [eapply nth_error_In; exact N|split; [exact T|reflexivity]]. }
  split.
  - intros p Hp _ o Ho. destruct (K p o Hp Ho) as [c [to [Hc [Ht ->]]]]. split; [reflexivity|].
    intros a [<-|[<-|[]]]; [left; reflexivity|right]. unfold targets. apply in_flat_map. exists c. split; [exact Hc|rewrite Ht; left; reflexivity].
  - intros p o Hp Ho. destruct (K p o Hp Ho) as [c [to [_ [_ ->]]]]. reflexivity.
Qed.

Definition ex9_env := mkEnv 100 1000 5 3 10000000 (Some 10000000000000) 1000000000000000 300000000000000000 77 10.
Definition ex9_led : ledger :=
  mkL (fun a => if a =? 1 then mkAcc 1000 90000000000000000000 50 else if a =? 3 then mkAcc 500 80000000000000000000 60 else empty_acc) 0 0 0.
Definition tx9a := mkTx true 100000 [mkClause (Some 2) 0 0 7] 0 20000000000000 500 1 true None true 0 0 0 false.
Definition tx9b := mkTx true 100000 [mkClause (Some 4) 0 0 9] 0 20000000000000 500 3 true None true 0 0 0 false.
Definition dom9 := [1; 2; 3; 4; 77].

Example ex9_block_conserves : forall used st' rcs,
  block_flow Z Z ex9_oracle ex8_wc ex9_env [(tx9a, ex8_ci); (tx9b, ex8_ci)] (ex9_led, 0) None 0 = (used, st', rcs) ->
  sum_bal dom9 (l_acc (fst st')) = 1500 /\
  sum_eng 100 1000 dom9 (l_acc (fst st')) = 170000000000000000000 + sum_reward Z rcs - sum_paid Z rcs /\
  map (r_payer Z) rcs = [1; 3] /\ view 100 1000 (fst st') 2 = (7, 0) /\ view 100 1000 (fst st') 4 = (9, 0).
Proof.
  intros used st' rcs H.
  assert (OK : flow_ops_ok Z Z ex9_oracle ex8_wc dom9 ex9_env 0 [(tx9a, ex8_ci); (tx9b, ex8_ci)] (ex9_led, 0)).
  { cbn [flow_ops_ok flow_forall]. unfold flow_ops_ok. cbn [flow_forall].
    destruct (adopt _ _ _ _ _ _ _ _ _) as [s1|s1 r1].
    - destruct (adopt _ _ _ _ _ _ _ _ _); [exact I|split; [|exact I]].
      eapply tx_ops_ok_mono; [|apply (ex9_tx_ops_ok ex9_env tx9b)]. intros a [<-|[<-|[]]]; cbn; tauto.
    - split; [eapply tx_ops_ok_mono; [|apply (ex9_tx_ops_ok ex9_env tx9a)]; intros a [<-|[<-|[]]]; cbn; tauto|].
      destruct (adopt _ _ _ _ _ _ _ _ _); [exact I|split; [|exact I]].
      eapply tx_ops_ok_mono; [|apply (ex9_tx_ops_ok ex9_env tx9b)]. intros a [<-|[<-|[]]]; cbn; tauto. }
  assert (NS : flow_no_self Z Z ex9_oracle ex8_wc ex9_env 0 [(tx9a, ex8_ci); (tx9b, ex8_ci)] (ex9_led, 0)).
  { apply flow_forall_global. intros t ci st. apply ex9_tx_ops_ok. }
  assert (ND : NoDup dom9) by (repeat constructor; cbn; intuition discriminate).
  assert (P : map (r_payer Z) rcs = [1; 3] /\ view 100 1000 (fst st') 2 = (7, 0) /\ view 100 1000 (fst st') 4 = (9, 0)).
  { vm_compute in H. inversion H; subst. vm_compute. repeat split; reflexivity. }
  assert (HP : Forall (fun rc => In (r_payer Z rc) dom9) rcs).
  { destruct P as [P _]. clear - P. destruct rcs as [|a [|b [|c r]]]; try discriminate. cbn in P. inversion P as [[Pa Pb]].
    repeat constructor; [rewrite Pa|rewrite Pb]; cbn; tauto. }
  destruct (vtho_delta_block Z Z ex9_oracle ex8_wc ex9_env dom9 _ _ None 0 used st' rcs OK NS ND ltac:(cbn; tauto) I H HP) as [A B].
  split; [rewrite B; vm_compute; reflexivity|]. split; [|exact P].
  change (e_time ex9_env) with 100 in A. change (e_stop ex9_env) with 1000 in A. rewrite A.
  replace (sum_eng 100 1000 dom9 (l_acc (fst (ex9_led, 0)))) with 170000000000000000000 by (vm_compute; reflexivity). lia.
Qed.

Print Assumptions ledger_totals_exact.
Print Assumptions vet_conserved_partial.
Print Assumptions suicide_self_burns.
Print Assumptions vet_conserved_refuted.
Print Assumptions ledger_untouched.
Print Assumptions vtho_delta.
Print Assumptions tx_totals_exact.
Print Assumptions tx_ops_ok_mono.
Print Assumptions block_totals_exact.
Print Assumptions flow_full_totals_exact.
Print Assumptions vtho_delta_block.
Print Assumptions vtho_delta_tx.
Print Assumptions energy_delta_any_set.
Print Assumptions payer_and_price.
Print Assumptions price_ge_basefee.
Print Assumptions basefee_bounds.
Print Assumptions basefee_direction.
Print Assumptions basefee_first_galactica_block.
Print Assumptions basefee_none_before_fork.
Print Assumptions basefee_chain_ge_floor.
Print Assumptions basefee_wrap_example.
