(* Properties/C08.v — statements only.  "VET is conserved; VTHO changes only by fees burned and rewards issued; the base fee
   moves by at most 1/8 per block, never below its floor, and is a function of the parent header alone."
   Totals are over any duplicate-free address list `dom` that contains the addresses an operation touches (every other
   account is left untouched: ledger_untouched). *)
From Coq Require Import ZArith List Bool Lia.
From Verif Require Import Ledger.Model Ledger.Proofs TxExec.Model TxExec.Proofs TxExec.ProofsBlock TxExec.ProofsAdopt BaseFee.Model BaseFee.Proofs.
Import ListNotations.
Open Scope Z_scope.

(* ---------------------------------------------------------------- VET *)
(* 1. every ledger primitive other than a self-destruct whose beneficiary is the contract itself preserves the total VET *)
Theorem vet_conserved T S os l dom : NoDup dom ->
  (forall o, In o os -> covers dom o /\ self_destruct_to_self o = false) ->
  sum_bal dom (l_acc (apply_ops T S l os)) = sum_bal dom (l_acc l).
Proof. exact (vet_conserved_ops T S os l dom). Qed.

(* 2. SELFDESTRUCT with beneficiary = self burns exactly the contract's VET and VTHO (F5) *)
Theorem suicide_self_burns T S l c dom : NoDup dom -> In c dom ->
  sum_bal dom (l_acc (apply_op T S l (OSuicide c c))) = sum_bal dom (l_acc l) - a_bal (l_acc l c) /\
  sum_eng T S dom (l_acc (apply_op T S l (OSuicide c c))) = sum_eng T S dom (l_acc l) - energy_at T S (l_acc l c).
Proof. exact (suicide_self_burns_lemma T S l c dom). Qed.

(* the unrestricted statement of the property, and its refutation by the faithful model *)
Definition vet_conserved_statement : Prop :=
  forall T S os l dom, NoDup dom -> (forall o, In o os -> covers dom o) ->
  sum_bal dom (l_acc (apply_ops T S l os)) = sum_bal dom (l_acc l).
Theorem vet_conserved_refuted : ~ vet_conserved_statement.
Proof.
  intros H.
  specialize (H 100 1000 [OSuicide 7 7] (mkL (fun a => if a =? 7 then mkAcc 1000 777 50 else empty_acc) 0 0 0) [7]
                ltac:(repeat constructor; intros []) ltac:(intros o [<-|[]] a [<-|[<-|[]]]; left; reflexivity)).
  vm_compute in H. discriminate.
Qed.

Theorem ledger_untouched T S l o a : ~ In a (touches o) -> l_acc (apply_op T S l o) a = l_acc l a.
Proof. exact (untouched_op T S l o a). Qed.

(* ---------------------------------------------------------------- VTHO *)
(* 3. total energy evaluated at the block time changes by exactly the adds minus the successful subs plus issued rewards *)
Theorem vtho_delta T S os l dom : NoDup dom ->
  (forall o, In o os -> covers dom o /\ self_destruct_to_self o = false) ->
  sum_eng T S dom (l_acc (apply_ops T S l os)) = sum_eng T S dom (l_acc l) + energy_delta_ops T S l os.
Proof. exact (vtho_delta_ops T S os l dom). Qed.

Section C08.
  Variables W O : Type.
  Variable clause_result : nat -> Z -> state W -> cres W O.
  Variable write_credit : Z -> Z -> Z -> W -> W.

  (* 4. one transaction: total VTHO after = before + reward - paid, total VET unchanged, when its clauses move funds only
        through neutral primitives (clauses_neutral: discharged for transfers / energy moves / self-destructs to another
        account by theorems 1 and 3) *)
  Theorem vtho_delta_tx e t ci st0 st rc dom :
    let T := e_time e in let S := e_stop e in
    clauses_neutral W O clause_result T S dom -> NoDup dom -> In (r_payer O rc) dom -> In (e_benef e) dom ->
    exec_tx W O clause_result write_credit e t ci st0 = Done W O st rc ->
    sum_eng T S dom (l_acc (fst st)) = sum_eng T S dom (l_acc (fst st0)) + r_reward O rc - r_paid O rc /\
    sum_bal dom (l_acc (fst st)) = sum_bal dom (l_acc (fst st0)).
  Proof. exact (vtho_delta_tx_lemma W O clause_result write_credit e t ci st0 st rc dom). Qed.

  (* 5. a whole block (adopted txs, rejected ones reverted, staking reward when PoS is active):
        total VTHO after = before + sum of rewards - sum of paid + staking reward; total VET unchanged *)
  Theorem vtho_delta_block e dom txs st staking deleg used st' rcs :
    let T := e_time e in let S := e_stop e in
    clauses_neutral W O clause_result T S dom -> NoDup dom -> In (e_benef e) dom -> In deleg dom ->
    block_flow W O clause_result write_credit e txs st staking deleg = (used, st', rcs) ->
    Forall (fun rc => In (r_payer O rc) dom) rcs ->
    sum_eng T S dom (l_acc (fst st')) =
      sum_eng T S dom (l_acc (fst st)) + sum_reward O rcs - sum_paid O rcs
      + (match staking with Some (reward, _, _, _) => reward | None => 0 end) /\
    sum_bal dom (l_acc (fst st')) = sum_bal dom (l_acc (fst st)).
  Proof. exact (vtho_delta_block_lemma W O clause_result write_credit e dom txs st staking deleg used st' rcs). Qed.

  (* 5a. the same for the packer's Adopt in full (all pre-checks, known-tx and dependency bookkeeping) *)
  Theorem vtho_delta_flow_full e fe dom txs fs st fs' st' rcs :
    let T := e_time e in let S := e_stop e in
    clauses_neutral W O clause_result T S dom -> NoDup dom -> In (e_benef e) dom ->
    adopt_all_full W O clause_result write_credit e fe fs txs st [] = (fs', st', rcs) ->
    Forall (fun rc => In (r_payer O rc) dom) rcs ->
    sum_eng T S dom (l_acc (fst st')) = sum_eng T S dom (l_acc (fst st)) + sum_reward O rcs - sum_paid O rcs /\
    sum_bal dom (l_acc (fst st')) = sum_bal dom (l_acc (fst st)).
  Proof.
    intros T S N ND HB H HP.
    destruct (adopt_all_full_totals W O clause_result write_credit e fe dom N ND HB txs fs st [] fs' st' rcs H HP) as [new [E [A B]]].
    cbn in E. subst new. split; assumption.
  Qed.

  (* 5b. per account (dom = [a]) and over any address set: exactly the payer is charged gasUsed x price (= r_paid, C07 gas_bounds),
         exactly the beneficiary receives the reward, nobody else's VTHO moves unless a clause moves it *)
  Theorem energy_delta_any_set e t ci st0 st rc dom :
    let T := e_time e in let S := e_stop e in
    clauses_neutral W O clause_result T S dom -> NoDup dom ->
    exec_tx W O clause_result write_credit e t ci st0 = Done W O st rc ->
    sum_eng T S dom (l_acc (fst st)) = sum_eng T S dom (l_acc (fst st0))
        + (if member (e_benef e) dom then r_reward O rc else 0) - (if member (r_payer O rc) dom then r_paid O rc else 0) /\
    sum_bal dom (l_acc (fst st)) = sum_bal dom (l_acc (fst st0)).
  Proof. exact (energy_delta_any_set_lemma W O clause_result write_credit e t ci st0 st rc dom). Qed.

  (* 6. the payer is charged gasUsed x price (C07 gas_bounds) and the price is never below the block base fee *)
  Theorem price_ge_basefee e t ci st0 st rc bf :
    exec_tx W O clause_result write_credit e t ci st0 = Done W O st rc -> e_base_fee e = Some bf -> bf <= r_price O rc.
  Proof. exact (price_ge_basefee_lemma W O clause_result write_credit e t ci st0 st rc bf). Qed.
End C08.

(* ---------------------------------------------------------------- base fee *)
(* 7. for MinGasLimit <= gasLimit <= (2^64-1)/75 (no uint64 wrap of gasLimit*75), gasUsed <= gasLimit, parent base fee >= floor:
      the next base fee is >= the floor and differs from the parent's by at most 1/8 *)
Theorem basefee_bounds galactica pnum gl gu pb :
  0 <= galactica -> galactica < pnum + 1 < two32 ->
  min_gas_limit <= gl <= max_nowrap_gas_limit -> 0 <= gu <= gl -> initial_base_fee <= pb ->
  exists next, calc_base_fee galactica pnum gl gu pb = BfFee next /\
    initial_base_fee <= next /\ Z.abs (next - pb) <= pb / 8.
Proof. exact (basefee_bounds_lemma galactica pnum gl gu pb). Qed.

(* 7b. direction: a parent exactly at its gas target floor(75% of its gas limit) leaves the base fee unchanged; below the target
       it never rises; above it strictly rises *)
Theorem basefee_direction galactica pnum gl gu pb :
  0 <= galactica -> galactica < pnum + 1 < two32 ->
  min_gas_limit <= gl <= max_nowrap_gas_limit -> 0 <= gu <= gl -> initial_base_fee <= pb ->
  exists next, calc_base_fee galactica pnum gl gu pb = BfFee next /\
    (gu = gl * 75 / 100 -> next = pb) /\ (gu < gl * 75 / 100 -> next <= pb) /\ (gu > gl * 75 / 100 -> pb < next).
Proof. exact (basefee_direction_lemma galactica pnum gl gu pb). Qed.

Theorem basefee_first_galactica_block galactica pnum gl gu pb :
  pnum + 1 < two32 -> 0 <= pnum -> pnum + 1 = galactica -> calc_base_fee galactica pnum gl gu pb = BfFee initial_base_fee.
Proof. exact (basefee_first_block galactica pnum gl gu pb). Qed.

Theorem basefee_none_before_fork galactica pnum gl gu pb :
  pnum + 1 < two32 -> 0 <= pnum -> pnum + 1 < galactica -> calc_base_fee galactica pnum gl gu pb = BfNone.
Proof. exact (basefee_before_fork galactica pnum gl gu pb). Qed.

(* stated precondition, not a finding: above the no-wrap bound the 1/8 bound fails *)
Theorem basefee_wrap_example :
  exists gl gu pb next, max_nowrap_gas_limit < gl < two64 /\ 0 <= gu <= gl /\ initial_base_fee <= pb /\
    calc_base_fee 1 5 gl gu pb = BfFee next /\ pb / 8 < Z.abs (next - pb).
Proof. exact basefee_wrap_example_lemma. Qed.

(* non-vacuity *)
Example ex_basefee : calc_base_fee 1 5 40000000 40000000 10000000000000 = BfFee 10416666666666
                     /\ min_gas_limit <= 40000000 <= max_nowrap_gas_limit.
Proof. vm_compute. repeat split; discriminate. Qed.
Example ex_ledger_ops :
  let l := mkL (fun a => if a =? 1 then mkAcc 1000 500 50 else if a =? 2 then mkAcc 7 0 0 else empty_acc) 0 0 0 in
  let os := [OTransfer 1 2 300; OEnergyMove 1 3 100; OSuicide 2 3; OEnergySub 1 50; OEnergyAdd 9 5] in
  sum_bal [1;2;3;9] (l_acc (apply_ops 100 1000 l os)) = 1007 /\
  sum_eng 100 1000 [1;2;3;9] (l_acc (apply_ops 100 1000 l os)) = 455 /\
  energy_delta_ops 100 1000 l os = -45.
Proof. vm_compute. repeat split; reflexivity. Qed.

Print Assumptions vet_conserved.
Print Assumptions suicide_self_burns.
Print Assumptions vet_conserved_refuted.
Print Assumptions ledger_untouched.
Print Assumptions vtho_delta.
Print Assumptions vtho_delta_tx.
Print Assumptions vtho_delta_block.
Print Assumptions vtho_delta_flow_full.
Print Assumptions energy_delta_any_set.
Print Assumptions price_ge_basefee.
Print Assumptions basefee_direction.
Print Assumptions basefee_bounds.
Print Assumptions basefee_first_galactica_block.
Print Assumptions basefee_none_before_fork.
Print Assumptions basefee_wrap_example.
