(* State/ProofsJournal.v — the journal of the stacked map (what Stage replays): it is consistent with the per-level
   maps the getters read, its storage entries carry the barrier that was current when they were written, and the
   replay of Stage computes, per address, the last account record and the storage written since the last barrier. *)
From Coq Require Import List NArith Bool Arith Lia.
From Verif Require Import Trie.Model State.StackedMap State.ProofsSM State.Model State.ProofsState.
Import ListNotations.
Open Scope N_scope.

Definition entry := (skey * sval)%type.

(* last value written under k *)
Fixpoint jlast (k : skey) (J : list entry) : option sval :=
  match J with
  | [] => None
  | (k', v) :: t =>
    match jlast k t with
    | Some x => Some x
    | None => if skey_eqb k k' then Some v else None
    end
  end.

Lemma jlast_app k J1 : forall J2, jlast k (J1 ++ J2) = match jlast k J2 with Some x => Some x | None => jlast k J1 end.
Proof.
  induction J1 as [|[k' v] J1 IH]; cbn; intros J2.
  - destruct (jlast k J2); auto.
  - rewrite IH. destruct (jlast k J2); auto.
Qed.

Lemma jlast_snoc k J k' v : jlast k (J ++ [(k', v)]) = if skey_eqb k k' then Some v else jlast k J.
Proof. rewrite jlast_app. cbn. destruct (skey_eqb k k'); auto. Qed.

Definition wt (e : entry) : Prop :=
  match e with
  | (KAcc _, VAcc _) | (KCode _, VCode _ _) | (KStor _ _ _, VRaw _) | (KBar _, VBar _) => True
  | _ => False
  end.

Definition jbar (J : list entry) (a : N) : N := match jlast (KBar a) J with Some (VBar b) => b | _ => 0 end.

(* what may be appended to a journal J: well typed, storage at the current barrier, a barrier bump by one *)
Definition ok_entry (J : list entry) (k : skey) (v : sval) : Prop :=
  wt (k, v) /\
  match k, v with
  | KStor a b _, _ => b = jbar J a
  | KBar a, VBar b => b = jbar J a + 1
  | _, _ => True
  end.

Inductive JO : list entry -> Prop :=
| JO_nil : JO []
| JO_snoc J k v : JO J -> ok_entry J k v -> JO (J ++ [(k, v)]).

Lemma JO_prefix J1 : forall J2, JO (J1 ++ J2) -> JO J1.
Proof.
  intros J2; induction J2 as [|e J2 IH] using rev_ind; intros H.
  - rewrite app_nil_r in H; auto.
  - rewrite app_assoc in H. inversion H as [Q|J k v HJ Hok Q].
    + symmetry in Q. apply app_eq_nil in Q. destruct Q as [_ Q]. discriminate.
    + apply app_inj_tail in Q. destruct Q as [Q _]. subst J. auto.
Qed.

Lemma jbar_snoc J k v a : ok_entry J k v ->
  jbar (J ++ [(k, v)]) a = match k with KBar a' => if a' =? a then jbar J a + 1 else jbar J a | _ => jbar J a end.
Proof.
  intros [W O]. unfold jbar. rewrite jlast_snoc.
  destruct k; cbn [skey_eqb]; auto.
  rewrite (N.eqb_sym a a0). destruct (a0 =? a) eqn:E; auto.
  apply N.eqb_eq in E; subst. destruct v; cbn in W; try contradiction. cbn in O. subst. reflexivity.
Qed.

Lemma jbar_mono_snoc J k v a : ok_entry J k v -> jbar J a <= jbar (J ++ [(k, v)]) a.
Proof. intros H. rewrite jbar_snoc by auto. destruct k; try lia. destruct (a0 =? a); lia. Qed.

(* no storage entry above the current barrier *)
Lemma JO_no_future J : JO J -> forall a b k, jbar J a < b -> jlast (KStor a b k) J = None.
Proof.
  induction 1 as [|J k0 v0 HJ IH Hok]; intros a b k Hb; [reflexivity|].
  pose proof (jbar_mono_snoc J k0 v0 a Hok) as M.
  pose proof (jbar_snoc J k0 v0 a Hok) as Eb.
  rewrite jlast_snoc. destruct (skey_eqb (KStor a b k) k0) eqn:E; [|apply IH; lia].
  apply skey_eqb_spec in E; subst k0. destruct Hok as [_ O]. cbn in O, Eb. lia.
Qed.

(* ---- per-level consistency of map and journal ---- *)
Definition JI (l : level skey sval) : Prop := forall k, assoc skey skey_eqb k (kvs l) = jlast k (journal l).

Lemma JI_new : JI (new_level skey sval).
Proof. intros k; reflexivity. Qed.

Lemma JI_putf l k v : JI l -> JI (putf k v l).
Proof.
  intros H k'. cbn [putf kvs journal]. rewrite jlast_snoc.
  destruct (skey_eqb k' k) eqn:E.
  - apply skey_eqb_spec in E; subst. apply (assoc_set_same skey skey_eqb skey_eqb_spec).
  - rewrite (assoc_set_other skey skey_eqb skey_eqb_spec); auto.
    intros ->. rewrite skey_eqb_refl in E; discriminate.
Qed.

Definition jof (L : list (level skey sval)) : list entry := flat_map journal L.

Lemma jof_app L1 L2 : jof (L1 ++ L2) = jof L1 ++ jof L2.
Proof. unfold jof. apply flat_map_app. Qed.

Lemma jlast_jof L : Forall JI L -> forall k, jlast k (jof L) = afind skey sval skey_eqb k (rev L).
Proof.
  induction L as [|l L IH] using rev_ind; intros H k; [reflexivity|].
  apply Forall_app in H. destruct H as [HL Hl]. inversion Hl; subst.
  rewrite jof_app, rev_unit. cbn [jof flat_map ProofsSM.afind]. rewrite app_nil_r.
  rewrite jlast_app. rewrite <- (H1 k). rewrite IH by auto.
  destruct (assoc skey skey_eqb k (kvs l)); auto.
Qed.

Lemma jof_upd_last L k v : L <> [] ->
  jof (upd_last skey sval (putf k v) L) = jof L ++ [(k, v)].
Proof.
  intros N. rewrite upd_last_split by auto.
  set (rest := removelast L). set (top := last L (new_level skey sval)).
  assert (E : L = rest ++ [top]) by (apply stack_split; auto).
  replace (jof L) with (jof (rest ++ [top])) by (rewrite <- E; reflexivity).
  rewrite !jof_app. cbn [jof flat_map putf journal]. rewrite !app_nil_r, app_assoc. reflexivity.
Qed.

Lemma Forall_JI_upd_last L k v : L <> [] -> Forall JI L -> Forall JI (upd_last skey sval (putf k v) L).
Proof.
  intros N H. rewrite upd_last_split by auto.
  rewrite (stack_split skey sval L N) in H. apply Forall_app in H. destruct H as [H1 H2]. inversion H2; subst.
  apply Forall_app; split; auto. constructor; auto. apply JI_putf; auto.
Qed.

Lemma Forall_firstn' {A} (P : A -> Prop) (l : list A) : forall n, Forall P l -> Forall P (firstn n l).
Proof. induction l; intros n H; destruct n; cbn; auto. inversion H; subst. constructor; auto. Qed.

Lemma jof_firstn_prefix L n : exists J2, jof L = jof (firstn n L) ++ J2.
Proof. exists (jof (skipn n L)). rewrite <- jof_app, firstn_skipn. reflexivity. Qed.

(* ---------------------------------------------------------------- the journal invariant of a state *)
Section PJ.
  Variable hk hs : N -> list nat.
  Variable trimkey : N -> bytes.

  Notation src := (src hk hs).
  Notation SI := (SI hk hs).
  Notation sstep := (sstep hk hs).

  Definition SJ (s : state) : Prop := Forall JI (stack (st_sm s)) /\ JO (jof (stack (st_sm s))).

  Lemma SJ_open base codes : SJ (open base codes).
  Proof. split; cbn; [repeat constructor; apply JI_new|constructor]. Qed.

  Lemma jbar_vbar s : Forall JI (stack (st_sm s)) -> forall a, jbar (jof (stack (st_sm s))) a = vbar (src s) (stack (st_sm s)) a.
  Proof.
    intros H a. unfold jbar, vbar, ProofsSM.aget. rewrite jlast_jof by auto.
    destruct (ProofsSM.afind skey sval skey_eqb (KBar a) (rev (stack (st_sm s)))); reflexivity.
  Qed.

  Lemma SJ_sput s k v : inv skey sval skey_eqb (st_sm s) -> SJ s -> ok_entry (jof (stack (st_sm s))) k v -> SJ (sput s k v).
  Proof.
    intros I [H1 H2] Ok. pose proof (stack_nonempty s I) as N0.
    split; cbn [sput st_sm sm_put stack].
    - apply Forall_JI_upd_last; auto.
    - change (JO (jof (upd_last skey sval (putf k v) (stack (st_sm s))))).
      rewrite jof_upd_last by auto. constructor; auto.
  Qed.

  Lemma SJ_sstep s o : SI s -> SJ s -> state_op o -> SJ (sstep s o).
  Proof.
    intros Hs Hj Ho.
    assert (acc_ok : forall s' a x, ok_entry (jof (stack (st_sm s'))) (KAcc a) (VAcc x)) by (intros; split; cbn; auto).
    assert (code_ok : forall s' a c h, ok_entry (jof (stack (st_sm s'))) (KCode a) (VCode c h)) by (intros; split; cbn; auto).
    assert (raw_case : forall raw a k, SJ (set_raw_storage hk hs s a k raw)).
    { intros raw a k. unfold set_raw_storage. apply SJ_sput; auto; [apply Hs|].
      split; [exact I|].
      change (get_barrier hk hs s a = jbar (jof (stack (st_sm s))) a).
      rewrite jbar_vbar by apply Hj.
      destruct (getters_view hk hs s (proj1 Hs) a) as [_ [_ [G _]]]. exact G. }
    destruct o; cbn [state_op] in Ho; try contradiction; cbn [ProofsState.sstep].
    - apply SJ_sput; auto. apply Hs.
    - apply SJ_sput; auto. apply Hs.
    - apply SJ_sput; auto. apply Hs.
    - rewrite set_code_eq. cbv zeta.
      destruct (SI_sput hk hs s (KCode a) (VCode code (match code with [] => [] | _ => hash end)) Hs I) as [Hs1 _].
      apply SJ_sput; auto; [apply Hs1|]. apply SJ_sput; auto. apply Hs.
    - unfold set_storage. destruct trimmed; apply raw_case.
    - apply raw_case.
    - unfold delete_account.
      set (s1 := sput s (KCode a) (VCode [] [])).
      destruct (SI_sput hk hs s (KCode a) (VCode [] []) Hs I) as [Hs1 _]. fold s1 in Hs1.
      assert (Hj1 : SJ s1) by (apply SJ_sput; auto; apply Hs).
      set (s2 := sput s1 (KAcc a) (VAcc empty_account)).
      destruct (SI_sput hk hs s1 (KAcc a) (VAcc empty_account) Hs1 I) as [Hs2 _]. fold s2 in Hs2.
      assert (Hj2 : SJ s2) by (apply SJ_sput; auto; apply Hs1).
      apply SJ_sput; auto; [apply Hs2|].
      split; [exact I|].
      change (get_barrier hk hs s2 a + 1 = jbar (jof (stack (st_sm s2))) a + 1).
      rewrite jbar_vbar by apply Hj2.
      destruct (getters_view hk hs s2 (proj1 Hs2) a) as [_ [_ [G _]]]. rewrite G. reflexivity.
    - (* checkpoint *)
      destruct Hj as [H1 H2]. split; cbn.
      + apply Forall_app; split; auto. repeat constructor; apply JI_new.
      + rewrite jof_app. cbn. rewrite app_nil_r. auto.
    - (* revert *)
      destruct Hj as [H1 H2]. destruct Hs as [Hi _].
      destruct (inv_pop_to skey sval skey_eqb skey_eqb_spec (src s) n (st_sm s) Hi Ho) as [_ E].
      split; cbn; rewrite E.
      + apply Forall_firstn'; auto.
      + destruct (jof_firstn_prefix (stack (st_sm s)) n) as [J2 EJ]. rewrite EJ in H2. eapply JO_prefix; eauto.
  Qed.
End PJ.

(* ---------------------------------------------------------------- the storage-root invariant (at operation boundaries) *)
Section SR.
  Variable hk hs : N -> list nat.
  Variable trimkey : N -> bytes.

  Notation src := (src hk hs).
  Notation SI := (SI hk hs).
  Notation sstep := (sstep hk hs).
  Notation level := (level skey sval).

  (* the account record of an address carries the base storage root until the address is deleted, none afterwards *)
  Definition SRp (s : state) (L : list level) : Prop :=
    forall a, a_sroot (vacc (src s) L a) =
              if vbar (src s) L a =? 0 then a_sroot (fst (load_account hk (st_base s) a)) else None.
  Definition SRall (s : state) : Prop := forall n, (1 <= n)%nat -> SRp s (firstn n (stack (st_sm s))).

  Lemma SRall_open base codes : SRall (open base codes).
  Proof.
    intros n Hn a. destruct n; [lia|]. cbn [open st_sm sm_new stack firstn].
    replace (firstn n []) with (@nil level) by (destruct n; reflexivity). reflexivity.
  Qed.

  Lemma vbar_sput s k v a' : stack (st_sm s) <> [] ->
    vbar (src s) (stack (st_sm (sput s k v))) a' =
    match k, v with
    | KBar a, VBar b => if a =? a' then b else vbar (src s) (stack (st_sm s)) a'
    | KBar a, _ => if a =? a' then 0 else vbar (src s) (stack (st_sm s)) a'
    | _, _ => vbar (src s) (stack (st_sm s)) a'
    end.
  Proof. intros N. change (stack (st_sm (sput s k v))) with (upd_last skey sval (putf k v) (stack (st_sm s))). apply vbar_put; auto. Qed.

  Lemma vbar_setter s o a' : SI s -> is_setter o ->
    vbar (src s) (stack (st_sm (sstep s o))) a' =
    match o with
    | ODel a => if a =? a' then vbar (src s) (stack (st_sm s)) a' + 1 else vbar (src s) (stack (st_sm s)) a'
    | _ => vbar (src s) (stack (st_sm s)) a'
    end.
  Proof.
    intros Hs Ho. pose proof (stack_nonempty s (proj1 Hs)) as N0.
    destruct o; cbn [is_setter] in Ho; try contradiction; cbn [ProofsState.sstep].
    - apply (vbar_sput s (KAcc a) _ a' N0).
    - apply (vbar_sput s (KAcc a) _ a' N0).
    - apply (vbar_sput s (KAcc a) _ a' N0).
    - rewrite set_code_eq. cbv zeta.
      set (s1 := sput s (KCode a) _).
      destruct (SI_sput hk hs s (KCode a) (VCode code (match code with [] => [] | _ => hash end)) Hs I) as [Hs1 _]. fold s1 in Hs1.
      pose proof (stack_nonempty s1 (proj1 Hs1)) as N1.
      transitivity (vbar (src s) (stack (st_sm s1)) a').
      + exact (vbar_sput s1 (KAcc a) _ a' N1).
      + exact (vbar_sput s (KCode a) _ a' N0).
    - unfold set_storage. destruct trimmed; apply (vbar_sput s (KStor a _ k) _ a' N0).
    - apply (vbar_sput s (KStor a _ k) _ a' N0).
    - unfold delete_account.
      set (s1 := sput s (KCode a) (VCode [] [])).
      destruct (SI_sput hk hs s (KCode a) (VCode [] []) Hs I) as [Hs1 _]. fold s1 in Hs1.
      pose proof (stack_nonempty s1 (proj1 Hs1)) as N1.
      set (s2 := sput s1 (KAcc a) (VAcc empty_account)).
      destruct (SI_sput hk hs s1 (KAcc a) (VAcc empty_account) Hs1 I) as [Hs2 _]. fold s2 in Hs2.
      pose proof (stack_nonempty s2 (proj1 Hs2)) as N2.
      rewrite (vbar_sput s2 (KBar a) _ a' N2).
      destruct (getters_view hk hs s2 (proj1 Hs2) a) as [_ [_ [G _]]]. rewrite G.
      change (src s2) with (src s).
      assert (E2 : forall x, vbar (src s) (stack (st_sm s2)) x = vbar (src s) (stack (st_sm s)) x).
      { intros x. transitivity (vbar (src s) (stack (st_sm s1)) x).
        - exact (vbar_sput s1 (KAcc a) (VAcc empty_account) x N1).
        - exact (vbar_sput s (KCode a) (VCode [] []) x N0). }
      rewrite !E2. destruct (a =? a') eqn:E; auto. apply N.eqb_eq in E; subst; auto.
  Qed.

  Lemma SRall_sstep s o : SI s -> SRall s -> state_op o -> SRall (sstep s o).
  Proof.
    intros Hs Hr Ho.
    pose proof (stack_nonempty s (proj1 Hs)) as N0.
    assert (Eb : st_base (sstep s o) = st_base s) by (apply base_sstep).
    assert (Es : src (sstep s o) = src s) by (apply src_sstep).
    set (L := stack (st_sm s)) in *.
    assert (setter_case : is_setter o -> SRall (sstep s o)).
    { intros Hset n Hn a'. unfold SRp. rewrite Es, Eb.
      destruct (setter_sim hk hs s o Hs Hset) as [_ [[KL KB] HV]]. fold L in KL, KB, HV.
      destruct (Nat.lt_ge_cases n (length L)) as [Lt|Ge].
      - rewrite KB by auto. apply Hr; auto.
      - rewrite firstn_all2 by lia.
        pose proof (Hr (length L) ltac:(destruct L; [congruence|cbn; lia])) as R0. rewrite firstn_all in R0.
        destruct (HV a') as [A1 _]. cbn [view x_acc] in A1. rewrite A1.
        rewrite (vbar_setter s o a' Hs Hset). fold L.
        pose proof (R0 a') as Ra'. fold L in Ra'.
        destruct o; cbn [is_setter] in Hset; try contradiction; cbn [a_op x_acc]; unfold updf;
          try (destruct (a' =? a) eqn:E; [apply N.eqb_eq in E; subst a'; cbn [with_bal with_eng with_master with_codehash a_sroot]; exact (R0 a)|exact Ra']);
          try exact Ra'.
        (* Delete *)
        rewrite (N.eqb_sym a a'). destruct (a' =? a) eqn:E.
        + cbn. destruct (vbar (src s) L a' + 1 =? 0) eqn:Z; auto. apply N.eqb_eq in Z. lia.
        + exact Ra'. }
    destruct o; cbn [state_op] in Ho; try contradiction; try (apply setter_case; exact I).
    - (* checkpoint *)
      intros n Hn a. unfold SRp. rewrite Es, Eb. cbn [ProofsState.sstep new_checkpoint sm_push fst st_sm stack].
      fold L. destruct (Nat.le_gt_cases n (length L)) as [Le|Gt].
      + rewrite firstn_app. replace (n - length L)%nat with 0%nat by lia. cbn. rewrite app_nil_r. apply Hr; auto.
      + rewrite firstn_all2 by (rewrite app_length; cbn; lia).
        pose proof (Hr (length L) ltac:(destruct L; [congruence|cbn; lia])) as R0. rewrite firstn_all in R0.
        unfold vacc, vbar. rewrite !aget_push. apply R0.
    - (* revert *)
      intros m Hm a. unfold SRp. rewrite Es, Eb.
      destruct (inv_pop_to skey sval skey_eqb skey_eqb_spec (src s) n (st_sm s) (proj1 Hs) Ho) as [_ E].
      cbn [ProofsState.sstep revert_to st_sm]. rewrite E. fold L. rewrite firstn_firstn.
      destruct (Nat.min m n) eqn:Q; [lia|]. apply Hr. lia.
  Qed.
End SR.
