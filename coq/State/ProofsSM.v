(* State/ProofsSM.v — the stacked map (with its per-key revision stacks) refines a plain stack of maps:
   Get = topmost level that holds the key, else the source; PopTo restores the earlier contents. *)
From Coq Require Import List Arith Bool Lia.
From Verif Require Import State.StackedMap.
Import ListNotations.

Section SMP.
  Variables K Vv : Type.
  Variable keqb : K -> K -> bool.
  Hypothesis keqb_spec : forall a b, keqb a b = true <-> a = b.
  Variable src : K -> Vv.

  Notation level := (level K Vv).
  Notation smap := (smap K Vv).
  Notation assoc := (assoc K keqb).
  Notation assoc_set := (assoc_set K keqb).
  Notation assoc_del := (assoc_del K keqb).
  Notation new_level := (new_level K Vv).
  Notation sm_get := (sm_get K Vv keqb src).
  Notation sm_put := (sm_put K Vv keqb).
  Notation sm_pop := (sm_pop K Vv keqb).
  Notation sm_pop_n := (sm_pop_n K Vv keqb).
  Notation sm_pop_to := (sm_pop_to K Vv keqb).
  Notation sm_push := (sm_push K Vv).
  Notation pop_rev := (pop_rev K keqb).

  Lemma keqb_refl a : keqb a a = true.
  Proof. apply keqb_spec; auto. Qed.
  Lemma keqb_neq a b : a <> b -> keqb a b = false.
  Proof. intros N. destruct (keqb a b) eqn:E; auto. apply keqb_spec in E. congruence. Qed.

  (* ---- association lists ---- *)
  Lemma assoc_set_same {A} k (v : A) l : assoc k (assoc_set k v l) = Some v.
  Proof. induction l as [|[k' v'] l IH]; cbn; [rewrite keqb_refl; auto|]. destruct (keqb k k') eqn:E; cbn; rewrite ?keqb_refl, ?E; auto. Qed.
  Lemma assoc_set_other {A} k k' (v : A) l : k <> k' -> assoc k' (assoc_set k v l) = assoc k' l.
  Proof.
    intros N. induction l as [|[k2 v2] l IH]; cbn.
    - rewrite keqb_neq; auto.
    - destruct (keqb k k2) eqn:E; cbn.
      + apply keqb_spec in E; subst. rewrite !keqb_neq by auto. auto.
      + destruct (keqb k' k2); auto.
  Qed.
  Lemma assoc_del_same {A} k (l : list (K * A)) : assoc k (assoc_del k l) = None.
  Proof. induction l as [|[k' v'] l IH]; cbn; auto. destruct (keqb k k') eqn:E; cbn; rewrite ?E; auto. Qed.
  Lemma assoc_del_other {A} k k' (l : list (K * A)) : k <> k' -> assoc k' (assoc_del k l) = assoc k' l.
  Proof.
    intros N. induction l as [|[k2 v2] l IH]; cbn; auto.
    destruct (keqb k k2) eqn:E; cbn.
    - apply keqb_spec in E; subst. rewrite keqb_neq by auto. auto.
    - destruct (keqb k' k2); auto.
  Qed.

  (* keys of an association list built by assoc_set stay distinct *)
  Lemma assoc_set_keys_in {A} k (v : A) l x : In x (map fst (assoc_set k v l)) -> x = k \/ In x (map fst l).
  Proof.
    induction l as [|[k' v'] l IH]; cbn; intros H.
    - destruct H; auto.
    - destruct (keqb k k') eqn:E; cbn in H.
      + destruct H as [H|H]; auto.
      + destruct H as [H|H]; auto. destruct (IH H); auto.
  Qed.
  Lemma assoc_set_nodup {A} k (v : A) l : NoDup (map fst l) -> NoDup (map fst (assoc_set k v l)).
  Proof.
    induction l as [|[k' v'] l IH]; cbn; intros H.
    - repeat constructor; auto.
    - inversion H; subst. destruct (keqb k k') eqn:E; cbn.
      + apply keqb_spec in E; subst. constructor; auto.
      + constructor; auto. intros I. apply assoc_set_keys_in in I. destruct I as [->|I]; auto.
        rewrite keqb_refl in E; discriminate.
  Qed.
  Lemma assoc_in_keys {A} k (l : list (K * A)) : (exists v, assoc k l = Some v) <-> In k (map fst l).
  Proof.
    induction l as [|[k' v'] l IH]; cbn.
    - split; [intros [v H]; discriminate|tauto].
    - destruct (keqb k k') eqn:E.
      + apply keqb_spec in E; subst. split; eauto.
      + rewrite IH. split; auto. intros [->|H]; auto. rewrite keqb_refl in E; discriminate.
  Qed.

  (* ---- the abstract reading: topmost level holding the key ---- *)
  Definition has (k : K) (l : level) : bool := match assoc k (kvs l) with Some _ => true | None => false end.

  Fixpoint idxs (k : K) (st : list level) (i : nat) : list nat :=
    match st with
    | [] => []
    | l :: t => if has k l then i :: idxs k t (S i) else idxs k t (S i)
    end.

  Fixpoint afind (k : K) (top_first : list level) : option Vv :=
    match top_first with
    | [] => None
    | l :: t => match assoc k (kvs l) with Some v => Some v | None => afind k t end
    end.

  (* Get on a plain stack of maps *)
  Definition aget (st : list level) (k : K) : Vv :=
    match afind k (rev st) with Some v => v | None => src k end.

  Lemma idxs_app k a : forall b i, idxs k (a ++ b) i = idxs k a i ++ idxs k b (i + length a).
  Proof.
    induction a; cbn; intros; [rewrite Nat.add_0_r; auto|].
    rewrite IHa. replace (S i + length a0) with (i + S (length a0)) by lia.
    destruct (has k a); auto.
  Qed.
  Lemma idxs_bound k st : forall i x, In x (idxs k st i) -> i <= x < i + length st.
  Proof.
    induction st; cbn; intros i x H; [tauto|].
    destruct (has k a); [destruct H as [<-|H]; [lia|]|]; apply IHst in H; lia.
  Qed.

  Definition conc (st : list level) (k : K) : option Vv :=
    match idxs k st 0 with
    | [] => None
    | l => assoc k (kvs (nth (last l 0) st new_level))
    end.

  Lemma last_app_single {A} (l : list A) x d : last (l ++ [x]) d = x.
  Proof. induction l; cbn; auto. destruct (l ++ [x]) eqn:E; auto. destruct l; discriminate. Qed.

  Lemma conc_afind k : forall st, conc st k = afind k (rev st).
  Proof.
    induction st using rev_ind; [reflexivity|].
    rewrite rev_app_distr. cbn [rev app afind].
    unfold conc in *. rewrite idxs_app. cbn [idxs]. unfold has.
    destruct (assoc k (kvs x)) eqn:E.
    - destruct (idxs k st 0 ++ [0 + length st]) eqn:Q; [destruct (idxs k st 0); discriminate|].
      rewrite <- Q, last_app_single. cbn [Nat.add].
      rewrite app_nth2 by lia. rewrite Nat.sub_diag. cbn. auto.
    - rewrite app_nil_r. rewrite <- IHst.
      destruct (idxs k st 0) eqn:Q; auto.
      assert (B : last (n :: l) 0 < length st).
      { assert (I : In (last (n :: l) 0) (idxs k st 0)).
        { rewrite Q. clear. revert n. induction l; cbn; auto. intros n. right. apply (IHl a). }
        apply idxs_bound in I. lia. }
      rewrite app_nth1 by auto. reflexivity.
  Qed.

  (* ---- the representation invariant ---- *)
  Definition inv (sm : smap) : Prop :=
    stack sm <> [] /\
    Forall (fun l => NoDup (map fst (kvs l))) (stack sm) /\
    forall k, assoc k (revs sm) = match idxs k (stack sm) 0 with [] => None | l => Some l end.

  Theorem get_refines sm k : inv sm -> sm_get sm k = aget (stack sm) k.
  Proof.
    intros [_ [_ H]]. unfold sm_get, StackedMap.sm_get, aget. rewrite <- conc_afind. unfold conc.
    rewrite H. destruct (idxs k (stack sm) 0); auto.
  Qed.

  Lemma inv_new : inv (sm_new K Vv).
  Proof. split; [discriminate|]. split; [repeat constructor|]. intros k. reflexivity. Qed.

  Lemma inv_push sm : inv sm -> inv (fst (sm_push sm)).
  Proof.
    intros [N [D H]]. split; [|split].
    - cbn. destruct (stack sm); discriminate.
    - cbn. apply Forall_app; split; auto. repeat constructor.
    - intros k. cbn. rewrite idxs_app. cbn. rewrite app_nil_r. auto.
  Qed.

  Lemma stack_split (st : list level) : st <> [] -> st = removelast st ++ [last st new_level].
  Proof. intros. apply app_removelast_last; auto. Qed.

  Lemma length_removelast' (l : list level) : l <> [] -> S (length (removelast l)) = length l.
  Proof.
    intros H. rewrite (stack_split l H) at 2. rewrite app_length. cbn. lia.
  Qed.

  Lemma inv_put sm k v : inv sm -> inv (sm_put sm k v).
  Proof.
    intros [N [D H]].
    set (st := stack sm) in *.
    pose proof (stack_split st N) as Es. pose proof (length_removelast' st N) as Ls.
    set (top := last st new_level) in *. set (rest := removelast st) in *.
    set (top' := mkLevel (assoc_set k v (kvs top)) (journal top ++ [(k, v)])).
    assert (Est' : stack (sm_put sm k v) = rest ++ [top']).
    { unfold sm_put, StackedMap.sm_put, upd_last. cbn. fold st. destruct st; [congruence|]. reflexivity. }
    assert (Dr : Forall (fun l => NoDup (map fst (kvs l))) rest /\ NoDup (map fst (kvs top))).
    { rewrite Es in D. apply Forall_app in D. destruct D as [D1 D2]. inversion D2; auto. }
    split; [|split].
    - rewrite Est'. destruct rest; discriminate.
    - rewrite Est'. apply Forall_app; split; [tauto|]. constructor; [|constructor]. cbn. apply assoc_set_nodup; tauto.
    - intros k'. rewrite Est'. rewrite idxs_app. cbn [idxs]. rewrite Nat.add_0_l.
      assert (Old : idxs k' st 0 = idxs k' rest 0 ++ (if has k' top then [length rest] else [])).
      { rewrite Es at 1. rewrite idxs_app. cbn. destruct (has k' top); auto. }
      unfold sm_put, StackedMap.sm_put. cbn [revs]. fold st.
      replace (length st - 1) with (length rest) by lia.
      destruct (keqb k k') eqn:Ek; [apply keqb_spec in Ek; subst k'|assert (Nk : k <> k') by (intros ->; rewrite keqb_refl in Ek; discriminate)].
      + (* the key being put *)
        assert (Hk : has k top' = true) by (unfold has, top'; cbn; rewrite assoc_set_same; auto).
        rewrite Hk.
        pose proof (H k) as Hk0. rewrite Old in Hk0.
        destruct (idxs k rest 0 ++ [length rest]) eqn:Q; [destruct (idxs k rest 0); discriminate|]. rewrite <- Q.
        destruct (has k top) eqn:Ht.
        * rewrite Q in Hk0. rewrite Hk0. rewrite <- Q, last_app_single, Nat.eqb_refl. rewrite Hk0, Q. reflexivity.
        * rewrite app_nil_r in Hk0. destruct (idxs k rest 0) eqn:Q2.
          -- rewrite Hk0. rewrite assoc_set_same. reflexivity.
          -- assert (B : last (n0 :: l0) 0 < length rest).
             { assert (I : In (last (n0 :: l0) 0) (idxs k rest 0)).
               { rewrite Q2. clear. revert n0. induction l0; cbn; auto. intros n0. right. apply (IHl0 a). }
               apply idxs_bound in I. lia. }
             rewrite Hk0.
             replace (last (n0 :: l0) 0 =? length rest) with false by (symmetry; apply Nat.eqb_neq; lia).
             rewrite assoc_set_same. reflexivity.
      + (* another key *)
        assert (Hk : has k' top' = has k' top) by (unfold has, top'; cbn; rewrite assoc_set_other; auto).
        rewrite Hk, <- Old.
        destruct (assoc k (revs sm)) as [l|].
        * destruct (last l 0 =? length rest); [apply H|]. rewrite assoc_set_other by auto. apply H.
        * rewrite assoc_set_other by auto. apply H.
  Qed.

  (* ---- Pop ---- *)
  Definition pop1 (o : option (list nat)) : option (list nat) :=
    match o with
    | Some l => match removelast l with [] => None | l' => Some l' end
    | None => None
    end.

  Lemma pop_rev_same rv k : assoc k (pop_rev rv k) = pop1 (assoc k rv).
  Proof.
    unfold pop_rev, StackedMap.pop_rev, pop1. destruct (assoc k rv) eqn:E; auto.
    destruct (removelast l) eqn:R; [apply assoc_del_same|apply assoc_set_same].
  Qed.
  Lemma pop_rev_other rv k k' : k <> k' -> assoc k' (pop_rev rv k) = assoc k' rv.
  Proof.
    intros N. unfold pop_rev, StackedMap.pop_rev. destruct (assoc k rv) eqn:E; auto.
    destruct (removelast l) eqn:R; [apply assoc_del_other|apply assoc_set_other]; auto.
  Qed.

  Lemma fold_pop_rev_out ks : forall rv k, ~ In k ks -> assoc k (fold_left pop_rev ks rv) = assoc k rv.
  Proof.
    induction ks as [|k0 ks IH]; cbn; intros rv k H; auto.
    rewrite IH by tauto. apply pop_rev_other. intros ->; tauto.
  Qed.
  Lemma fold_pop_rev_in ks : NoDup ks -> forall rv k, In k ks -> assoc k (fold_left pop_rev ks rv) = pop1 (assoc k rv).
  Proof.
    induction 1 as [|k0 ks Hn Hd IH]; cbn; intros rv k H; [tauto|].
    destruct H as [<-|H].
    - rewrite fold_pop_rev_out by auto. apply pop_rev_same.
    - rewrite IH by auto. f_equal. apply pop_rev_other. intros ->; tauto.
  Qed.

  Lemma removelast_app_single {A} (l : list A) x : removelast (l ++ [x]) = l.
  Proof. rewrite removelast_app by discriminate. cbn. apply app_nil_r. Qed.

  Lemma inv_pop sm : inv sm -> 2 <= length (stack sm) -> inv (sm_pop sm) /\ stack (sm_pop sm) = removelast (stack sm).
  Proof.
    intros [N [D H]] L. split; [|reflexivity].
    set (st := stack sm) in *.
    pose proof (stack_split st N) as Es. pose proof (length_removelast' st N) as Ls.
    set (top := last st new_level) in *. set (rest := removelast st) in *.
    assert (Dr : Forall (fun l => NoDup (map fst (kvs l))) rest /\ NoDup (map fst (kvs top))).
    { rewrite Es in D. apply Forall_app in D. destruct D as [D1 D2]. inversion D2; auto. }
    unfold sm_pop, StackedMap.sm_pop. fold st. fold top. fold rest.
    split; [|split]; cbn [stack revs].
    - intros E. rewrite E in Ls. cbn in Ls. lia.
    - tauto.
    - intros k.
      assert (Old : idxs k st 0 = idxs k rest 0 ++ (if has k top then [length rest] else [])).
      { rewrite Es at 1. rewrite idxs_app. cbn. destruct (has k top); auto. }
      pose proof (H k) as Hk0. rewrite Old in Hk0.
      destruct (has k top) eqn:Ht.
      + assert (I : In k (map fst (kvs top))).
        { apply assoc_in_keys. unfold has in Ht. destruct (assoc k (kvs top)); eauto; discriminate. }
        rewrite fold_pop_rev_in by tauto. rewrite Hk0.
        destruct (idxs k rest 0 ++ [length rest]) eqn:Q; [destruct (idxs k rest 0); discriminate|].
        rewrite <- Q. unfold pop1. rewrite removelast_app_single. reflexivity.
      + assert (I : ~ In k (map fst (kvs top))).
        { intros I. apply assoc_in_keys in I. destruct I as [v I]. unfold has in Ht. rewrite I in Ht. discriminate. }
        rewrite fold_pop_rev_out by auto. rewrite Hk0, app_nil_r. reflexivity.
  Qed.

  Lemma inv_pop_n n : forall sm, inv sm -> n + 1 <= length (stack sm) ->
    inv (sm_pop_n n sm) /\ stack (sm_pop_n n sm) = firstn (length (stack sm) - n) (stack sm).
  Proof.
    induction n; intros sm I L; cbn.
    - split; auto. rewrite Nat.sub_0_r, firstn_all. reflexivity.
    - destruct (inv_pop sm I ltac:(lia)) as [I' E'].
      pose proof (length_removelast' (stack sm) (proj1 I)) as Lr.
      destruct (IHn (sm_pop sm) I' ltac:(rewrite E'; lia)) as [I2 E2].
      split; auto. rewrite E2, E'.
      set (rest := removelast (stack sm)) in *.
      replace (length (stack sm) - S n) with (length rest - n) by lia.
      pattern (stack sm) at 1. rewrite (stack_split (stack sm) (proj1 I)). fold rest.
      rewrite firstn_app. replace (length rest - n - length rest) with 0 by lia. cbn. rewrite app_nil_r. reflexivity.
  Qed.

  Lemma inv_pop_to d sm : inv sm -> 1 <= d ->
    inv (sm_pop_to d sm) /\ stack (sm_pop_to d sm) = firstn d (stack sm).
  Proof.
    intros I Ld. unfold sm_pop_to, StackedMap.sm_pop_to, depth.
    destruct (Nat.le_gt_cases (length (stack sm)) d) as [Le|Gt].
    - replace (length (stack sm) - d) with 0 by lia. cbn. split; auto. rewrite firstn_all2; auto.
    - destruct (inv_pop_n (length (stack sm) - d) sm I ltac:(lia)) as [I' E]. split; auto.
      rewrite E. f_equal. lia.
  Qed.

  (* ---- histories ---- *)
  Inductive smop := SPut (k : K) (v : Vv) | SPush | SPopTo (d : nat).

  Definition sm_step (sm : smap) (o : smop) : smap :=
    match o with
    | SPut k v => sm_put sm k v
    | SPush => fst (sm_push sm)
    | SPopTo d => sm_pop_to d sm
    end.
  Definition sm_run (ops : list smop) (sm : smap) : smap := fold_left sm_step ops sm.

  (* the same history on a plain stack of maps *)
  Definition a_step (st : list level) (o : smop) : list level :=
    match o with
    | SPut k v => upd_last K Vv (fun top => mkLevel (assoc_set k v (kvs top)) (journal top ++ [(k, v)])) st
    | SPush => st ++ [new_level]
    | SPopTo d => firstn d st
    end.
  Definition a_run (ops : list smop) (st : list level) : list level := fold_left a_step ops st.

  Definition pops_ok (ops : list smop) : Prop := Forall (fun o => match o with SPopTo d => 1 <= d | _ => True end) ops.

  Lemma run_refines ops : forall sm, inv sm -> pops_ok ops ->
    inv (sm_run ops sm) /\ stack (sm_run ops sm) = a_run ops (stack sm).
  Proof.
    induction ops as [|o ops IH]; cbn; intros sm I P; auto.
    inversion P; subst.
    assert (S1 : inv (sm_step sm o) /\ stack (sm_step sm o) = a_step (stack sm) o).
    { destruct o; cbn.
      - split; [apply inv_put; auto|reflexivity].
      - split; [apply inv_push; auto|reflexivity].
      - apply inv_pop_to; auto. }
    destruct S1 as [I1 E1]. destruct (IH _ I1 H2) as [I2 E2]. split; auto.
    unfold sm_run, a_run in *. rewrite E2, E1. reflexivity.
  Qed.

  (* Get after any Push / Put / PopTo history is lookup in the plain stack of maps the history denotes *)
  Theorem stackedmap_refines_lemma ops k : pops_ok ops ->
    sm_get (sm_run ops (sm_new K Vv)) k = aget (a_run ops [new_level]) k.
  Proof.
    intros P. destruct (run_refines ops (sm_new K Vv) inv_new P) as [I E].
    rewrite get_refines by auto. rewrite E. reflexivity.
  Qed.

  (* ---- revert restores ---- *)
  Definition above (d : nat) (ops : list smop) : Prop :=
    Forall (fun o => match o with SPopTo n => d + 1 <= n | _ => True end) ops.

  Lemma a_step_keeps_prefix d st o : d + 1 <= length st ->
    match o with SPopTo n => d + 1 <= n | _ => True end ->
    d + 1 <= length (a_step st o) /\ firstn d (a_step st o) = firstn d st.
  Proof.
    intros L Ho. destruct o; cbn.
    - unfold upd_last. destruct st eqn:Q; [cbn in L; lia|]. rewrite <- Q in *.
      assert (N : st <> []) by (rewrite Q; discriminate).
      pose proof (length_removelast' st N) as Lr.
      rewrite app_length. cbn. split; [lia|].
      rewrite firstn_app. replace (d - length (removelast st)) with 0 by lia. cbn. rewrite app_nil_r.
      rewrite (stack_split st N) at 2. rewrite firstn_app. replace (d - length (removelast st)) with 0 by lia.
      cbn. rewrite app_nil_r. reflexivity.
    - rewrite app_length. cbn. split; [lia|]. rewrite firstn_app. replace (d - length st) with 0 by lia. cbn. apply app_nil_r.
    - rewrite firstn_length. split; [lia|]. rewrite firstn_firstn. f_equal. lia.
  Qed.

  Lemma a_run_keeps_prefix d ops : forall st, d + 1 <= length st -> above d ops ->
    d + 1 <= length (a_run ops st) /\ firstn d (a_run ops st) = firstn d st.
  Proof.
    induction ops as [|o ops IH]; cbn; intros st L A; auto.
    inversion A; subst. destruct (a_step_keeps_prefix d st o L H1) as [L1 E1].
    destruct (IH _ L1 H2) as [L2 E2]. split; auto. unfold a_run in *. rewrite E2. exact E1.
  Qed.

  (* RevertTo(NewCheckpoint()) after any operations (whose own reverts stay above the checkpoint) reads as before *)
  Theorem revert_restores_lemma sm ops k : inv sm -> above (length (stack sm)) ops ->
    let d := snd (sm_push sm) in
    sm_get (sm_pop_to d (sm_run ops (fst (sm_push sm)))) k = sm_get sm k.
  Proof.
    intros I A d. cbn in d.
    assert (P : pops_ok ops).
    { unfold above in A. unfold pops_ok. eapply Forall_impl; [|exact A]. intros o; destruct o; auto. lia. }
    pose proof (inv_push sm I) as Ip.
    destruct (run_refines ops _ Ip P) as [I2 E2].
    assert (Ld : 1 <= d) by (unfold d; destruct I as [N _]; destruct (stack sm); [congruence|cbn; lia]).
    destruct (inv_pop_to d _ I2 Ld) as [I3 E3].
    rewrite !get_refines by auto. rewrite E3, E2. cbn [fst sm_push StackedMap.sm_push stack].
    destruct (a_run_keeps_prefix d ops (stack sm ++ [new_level])) as [_ E]; auto.
    { rewrite app_length; cbn; unfold d; lia. }
    rewrite E. rewrite firstn_app. unfold d. rewrite Nat.sub_diag. cbn. rewrite app_nil_r, firstn_all. reflexivity.
  Qed.
End SMP.
