(* State/StackedMap.v — executable model of /repo/stackedmap/stackedmap.go (definitions only).
   mapStack is a list of levels, bottom first (index = depth - 1 as in Go); each level has its kvs map
   (association list, one entry per key) and its journal; keyRevisionMap gives, per key, the stack of level
   indices that hold the key.  src is the MapGetter of the lowest level. *)
From Coq Require Import List Arith Bool.
Import ListNotations.

Section SM.
  Variables K Vv : Type.
  Variable keqb : K -> K -> bool.

  Record level := mkLevel { kvs : list (K * Vv); journal : list (K * Vv) }.
  Record smap := mkSM { stack : list level; revs : list (K * list nat) }.

  Definition new_level : level := mkLevel [] [].
  Definition sm_new : smap := mkSM [new_level] [].

  Fixpoint assoc {A} (k : K) (l : list (K * A)) : option A :=
    match l with
    | [] => None
    | (k', v) :: t => if keqb k k' then Some v else assoc k t
    end.
  Fixpoint assoc_set {A} (k : K) (v : A) (l : list (K * A)) : list (K * A) :=
    match l with
    | [] => [(k, v)]
    | (k', v') :: t => if keqb k k' then (k, v) :: t else (k', v') :: assoc_set k v t
    end.
  (* Go: delete(map, key) *)
  Fixpoint assoc_del {A} (k : K) (l : list (K * A)) : list (K * A) :=
    match l with
    | [] => []
    | (k', v') :: t => if keqb k k' then assoc_del k t else (k', v') :: assoc_del k t
    end.

  Definition depth (sm : smap) : nat := length (stack sm).

  (* Push: returns depth before push *)
  Definition sm_push (sm : smap) : smap * nat :=
    (mkSM (stack sm ++ [new_level]) (revs sm), length (stack sm)).

  (* Pop: for every key of the top level pop its revision stack, dropping emptied stacks *)
  Definition pop_rev (rv : list (K * list nat)) (k : K) : list (K * list nat) :=
    match assoc k rv with
    | Some l => let l' := removelast l in
                match l' with [] => assoc_del k rv | _ => assoc_set k l' rv end
    | None => rv                                   (* Go: nil pointer dereference; unreachable *)
    end.
  Definition sm_pop (sm : smap) : smap :=
    match last (stack sm) new_level with
    | top => mkSM (removelast (stack sm)) (fold_left pop_rev (map fst (kvs top)) (revs sm))
    end.
  Fixpoint sm_pop_n (n : nat) (sm : smap) : smap :=
    match n with O => sm | S m => sm_pop_n m (sm_pop sm) end.
  (* PopTo(depth): pop while len(mapStack) > depth *)
  Definition sm_pop_to (d : nat) (sm : smap) : smap := sm_pop_n (depth sm - d) sm.

  Definition sm_get (src : K -> Vv) (sm : smap) (k : K) : Vv :=
    match assoc k (revs sm) with
    | Some l =>
      match assoc k (kvs (nth (last l 0) (stack sm) new_level)) with
      | Some v => v
      | None => src k
      end
    | None => src k
    end.

  Definition upd_last (f : level -> level) (st : list level) : list level :=
    match st with
    | [] => []                                     (* Go: Put on an empty stack panics *)
    | _ => removelast st ++ [f (last st new_level)]
    end.

  Definition sm_put (sm : smap) (k : K) (v : Vv) : smap :=
    let rev := length (stack sm) - 1 in
    mkSM (upd_last (fun top => mkLevel (assoc_set k v (kvs top)) (journal top ++ [(k, v)])) (stack sm))
         (match assoc k (revs sm) with
          | Some l => if last l 0 =? rev then revs sm else assoc_set k (l ++ [rev]) (revs sm)
          | None => assoc_set k [rev] (revs sm)
          end).

  (* Journal: all Put entries of the live levels, bottom to top, in order *)
  Definition sm_journal (sm : smap) : list (K * Vv) := flat_map journal (stack sm).
End SM.

Arguments mkLevel {K Vv}.
Arguments kvs {K Vv}.
Arguments journal {K Vv}.
Arguments stack {K Vv}.
Arguments revs {K Vv}.
