(* State/ProofsCommit.v — the staged accounts trie holds normalise (abs s), and a state re-opened on the
   committed root reads it back: reopen_reads_back (full) and the content form of stage_root_canonical. *)
From Coq Require Import List NArith Bool Arith Lia.
From Verif Require Import Trie.Model Trie.Keys Trie.ProofsWf Trie.Theorems Trie.ProofsProj.
From Verif Require Import State.StackedMap State.ProofsSM State.Model State.ProofsState State.ProofsJournal State.ProofsReplay State.ProofsStage.
Import ListNotations.
Open Scope N_scope.

Lemma JO_wt J : JO J -> forall k v, jlast k J = Some v -> wt (k, v).
Proof.
  induction 1 as [|J k0 v0 HJ IH Hok]; intros k v H; [discriminate|].
  rewrite jlast_snoc in H. destruct (skey_eqb k k0) eqn:E; auto.
  apply skey_eqb_spec in E; subst. inversion H; subst. apply Hok.
Qed.

Section CM.
  Variable hk hs : N -> list nat.
  Variable trimkey : N -> bytes.
  Hypothesis hk_valid : forall a, vkey (hk a).
  Hypothesis hk_inj : forall a b, hk a = hk b -> a = b.
  Hypothesis hs_valid : forall k, vkey (hs k).
  Hypothesis hs_inj : forall a b, hs a = hs b -> a = b.

  Notation src := (src hk hs).

  (* ---- the leaf Stage writes for a changed record (State.Stage's loop body + saveAccount) ---- *)
  Definition staged_data (major minor : N) (c : changed) : account * ameta :=
    if negb (is_empty (c_data c)) then
      match c_storage c with
      | Some ((_ :: _) as m) =>
        let st := save_storage hs trimkey (base_strie c) m in
        let d := c_data c in
        (mkAcc (a_bal d) (a_eng d) (a_bt d) (a_master d) (a_codehash d) (Some st),
         mkMeta (m_sid (c_meta c)) major minor)
      | _ => (c_data c, c_meta c)
      end
    else (c_data c, c_meta c).

  Definition staged_leaf (major minor : N) (c : changed) : option aleaf :=
    let '(data, meta) := staged_data major minor c in
    if is_empty data then None
    else Some (data, match a_sroot data with Some _ => Some meta | None => None end).

  Lemma stage_account_eq major minor t c :
    stage_account hk hs trimkey major minor t c =
    trie_update aleaf never t (hk (c_addr c)) (staged_leaf major minor c).
  Proof.
    unfold stage_account, staged_leaf, staged_data.
    destruct (negb (is_empty (c_data c))); [destruct (c_storage c) as [[|p m]|]|];
      cbn; destruct (is_empty _); reflexivity.
  Qed.

  Lemma never_sound' {A} (a b : A) : never a b = true -> a = b.
  Proof. discriminate. Qed.

  Lemma ch_find_none a l : ~ In a (map c_addr l) -> ch_find a l = None.
  Proof.
    induction l as [|c l IH]; cbn; auto. intros H.
    destruct (c_addr c =? a) eqn:E; [apply N.eqb_eq in E; tauto|apply IH; tauto].
  Qed.

  Lemma fold_stage_get major minor chs : forall t a,
    wfc aleaf t -> NoDup (map c_addr chs) ->
    trie_get aleaf (fold_left (stage_account hk hs trimkey major minor) chs t) (hk a) =
    match ch_find a chs with
    | Some c => staged_leaf major minor c
    | None => trie_get aleaf t (hk a)
    end.
  Proof.
    induction chs as [|c chs IH]; cbn [fold_left ch_find map]; intros t a Ht Hn; auto.
    inversion Hn; subst.
    rewrite IH by (auto; apply stage_account_wf; auto).
    rewrite stage_account_eq.
    rewrite (get_update aleaf never never_sound') by auto.
    destruct (c_addr c =? a) eqn:E.
    - apply N.eqb_eq in E; subst a. rewrite ch_find_none by auto.
      destruct (vkey_eq_dec (hk (c_addr c)) (hk (c_addr c))); congruence.
    - destruct (ch_find a chs); auto.
      destruct (vkey_eq_dec (hk (c_addr c)) (hk a)) as [Q|]; auto.
      apply hk_inj in Q. subst. rewrite N.eqb_refl in E. discriminate.
  Qed.

  (* ---- the records keep distinct addresses and distinct storage keys ---- *)
  Definition stor_nodup (c : changed) : Prop :=
    match c_storage c with Some m => NoDup (map fst m) | None => True end.

  Lemma ch_set_addrs c l x : In x (map c_addr (ch_set c l)) -> x = c_addr c \/ In x (map c_addr l).
  Proof.
    induction l as [|c' l IH]; cbn; intros H.
    - destruct H; auto.
    - destruct (c_addr c' =? c_addr c) eqn:E; cbn in H.
      + destruct H as [H|H]; auto.
      + destruct H as [H|H]; auto. destruct (IH H); auto.
  Qed.

  Lemma ch_set_nodup c l : NoDup (map c_addr l) -> NoDup (map c_addr (ch_set c l)).
  Proof.
    induction l as [|c' l IH]; cbn; intros H.
    - repeat constructor; auto.
    - inversion H; subst. destruct (c_addr c' =? c_addr c) eqn:E; cbn.
      + apply N.eqb_eq in E. constructor; auto. rewrite <- E; auto.
      + constructor; auto. intros I. apply ch_set_addrs in I. destruct I as [I|I]; auto.
        rewrite I, N.eqb_refl in E. discriminate.
  Qed.

  Lemma ch_set_forall (Q : changed -> Prop) c l : Forall Q l -> Q c -> Forall Q (ch_set c l).
  Proof.
    induction l as [|c' l IH]; cbn; intros H Hc; [repeat constructor; auto|].
    inversion H; subst. destruct (c_addr c' =? c_addr c); constructor; auto.
  Qed.

  Lemma kv_set_keys k v l x : In x (map fst (kv_set k v l)) -> x = k \/ In x (map fst l).
  Proof.
    induction l as [|[k' v'] l IH]; cbn; intros H.
    - destruct H; auto.
    - destruct (k =? k') eqn:E; cbn in H.
      + destruct H as [H|H]; auto.
      + destruct H as [H|H]; auto. destruct (IH H); auto.
  Qed.

  Lemma kv_set_nodup k v l : NoDup (map fst l) -> NoDup (map fst (kv_set k v l)).
  Proof.
    induction l as [|[k' v'] l IH]; cbn; intros H.
    - repeat constructor; auto.
    - inversion H; subst. destruct (k =? k') eqn:E; cbn.
      + apply N.eqb_eq in E; subst. constructor; auto.
      + constructor; auto. intros I. apply kv_set_keys in I. destruct I as [I|I]; auto.
        subst. rewrite N.eqb_refl in E. discriminate.
  Qed.

  Lemma get_changed_nodup s a chs : Forall stor_nodup chs -> stor_nodup (get_changed hk s a chs).
  Proof.
    intros H. unfold get_changed. destruct (ch_find a chs) as [c|] eqn:F.
    - revert F. induction H as [|c' l Hc Hl IH]; cbn; [discriminate|].
      destruct (c_addr c' =? a); auto. intros Q; inversion Q; subst; auto.
    - destruct (load_account hk (st_base s) a). cbn. exact I.
  Qed.

  Lemma rp_shape s major minor J :
    NoDup (map c_addr (rp_chs hk s major minor J)) /\ Forall stor_nodup (rp_chs hk s major minor J).
  Proof.
    induction J as [|e J IH] using rev_ind; [split; constructor|].
    unfold rp_chs in *. rewrite rp_snoc. destruct (rp hk s major minor J) as [[chs codes] cnt]. cbn [fst] in IH.
    destruct IH as [N F]. destruct e as [k v].
    destruct k as [a|a|a b k|a]; destruct v as [x|code h|raw|b']; cbn [replay1 fst]; try solve [split; auto].
    - split; [apply ch_set_nodup; auto|apply ch_set_forall; auto]. apply (get_changed_nodup s a chs F).
    - pose proof (get_changed_nodup s a chs F) as G. unfold stor_nodup in G.
      assert (S : NoDup (map fst (match c_storage (get_changed hk s a chs) with Some m => kv_set k raw m | None => [(k, raw)] end))).
      { destruct (c_storage (get_changed hk s a chs)); [apply kv_set_nodup; auto|repeat constructor; auto]. }
      destruct (m_sid (c_meta (get_changed hk s a chs))); cbn [fst];
        (split; [apply ch_set_nodup; auto|apply ch_set_forall; auto]).
    - split; [apply ch_set_nodup; auto|apply ch_set_forall; auto]. exact I.
    - split; [apply ch_set_nodup; auto|apply ch_set_forall; auto]. exact I.
    - split; [apply ch_set_nodup; auto|apply ch_set_forall; auto]. exact I.
    - split; [apply ch_set_nodup; auto|apply ch_set_forall; auto]. exact I.
  Qed.

  (* ---- saveStorage over the pending map ---- *)
  Definition raw_of (o : option sleaf) : bytes := match o with Some (v, _) => v | None => [] end.

  Lemma save_storage_wf m : forall t, wfc sleaf t -> wfc sleaf (save_storage hs trimkey t m).
  Proof.
    induction m as [|[k v] m IH]; cbn; intros; auto. apply IH. apply update_wf_root; auto.
  Qed.

  Lemma save_storage_get m : forall t k, wfc sleaf t -> NoDup (map fst m) ->
    raw_of (trie_get sleaf (save_storage hs trimkey t m) (hs k)) =
    match kv_find k (Some m) with Some r => r | None => raw_of (trie_get sleaf t (hs k)) end.
  Proof.
    induction m as [|[k0 v0] m IH]; intros t k Ht Hn; [reflexivity|].
    inversion Hn; subst. cbn [save_storage].
    rewrite IH by (auto; apply update_wf_root; auto).
    cbn [kv_find]. destruct (k =? k0) eqn:E.
    - apply N.eqb_eq in E; subst k0.
      assert (Q : kv_find k (Some m) = None).
      { clear -H1. induction m as [|[k' v'] m IH]; cbn; auto. cbn in H1.
        destruct (k =? k') eqn:E; [apply N.eqb_eq in E; subst; tauto|apply IH; tauto]. }
      cbn in Q. rewrite Q.
      rewrite (get_update sleaf never never_sound') by auto.
      destruct (vkey_eq_dec (hs k) (hs k)); try congruence. destruct v0; reflexivity.
    - destruct ((fix f (l : list (N * bytes)) : option bytes :=
                  match l with [] => None | (k', v) :: t0 => if k =? k' then Some v else f t0 end) m); auto.
      rewrite (get_update sleaf never never_sound') by auto.
      destruct (vkey_eq_dec (hs k0) (hs k)) as [Q|]; auto.
      apply hs_inj in Q. subst. rewrite N.eqb_refl in E. discriminate.
  Qed.

  (* ---- tries hold secure keys only, storage tries no empty value ---- *)
  Definition stor_keys_ok (t : strie) : Prop :=
    forall k v m, vkey k -> trie_get sleaf t k = Some (v, m) -> (exists j, k = hs j) /\ v <> [].
  Definition secure_base (base : atrie) : Prop :=
    (forall k l, vkey k -> trie_get aleaf base k = Some l -> exists a, k = hk a) /\
    (forall a acc m t, trie_get aleaf base (hk a) = Some (acc, m) -> a_sroot acc = Some t -> stor_keys_ok t).

  Lemma stor_keys_ok_nil : stor_keys_ok Nil.
  Proof. intros k v m _ H. destruct k; cbn in H; discriminate. Qed.

  Lemma trie_get_nil {A} k : trie_get A Nil k = None.
  Proof. reflexivity. Qed.

  Lemma secure_base_nil : secure_base Nil.
  Proof. split; intros; rewrite trie_get_nil in *; discriminate. Qed.

  Lemma save_storage_keys_ok m : forall t, wfc sleaf t -> stor_keys_ok t -> stor_keys_ok (save_storage hs trimkey t m).
  Proof.
    induction m as [|[k0 v0] m IH]; cbn [save_storage]; intros t Ht Hok; auto.
    apply IH; [apply update_wf_root; auto|].
    intros k v mm Hk H.
    rewrite (get_update sleaf never never_sound') in H by auto.
    destruct (vkey_eq_dec (hs k0) k) as [E|E].
    - destruct v0; [discriminate|]. inversion H; subst. split; [eexists; reflexivity|discriminate].
    - eapply Hok; eauto.
  Qed.

  Lemma fold_stage_get_other major minor chs : forall t k,
    wfc aleaf t -> vkey k -> (forall c, In c chs -> hk (c_addr c) <> k) ->
    trie_get aleaf (fold_left (stage_account hk hs trimkey major minor) chs t) k = trie_get aleaf t k.
  Proof.
    induction chs as [|c chs IH]; cbn [fold_left]; intros t k Ht Hk Hne; auto.
    rewrite IH; auto.
    - rewrite stage_account_eq. rewrite (get_update aleaf never never_sound') by auto.
      destruct (vkey_eq_dec (hk (c_addr c)) k) as [E|E]; auto. exfalso. apply (Hne c); auto. left; auto.
    - apply stage_account_wf; auto.
    - intros c' I. apply Hne. right; auto.
  Qed.

  (* ---- the base a state is opened on ---- *)
  Definition base_ok (base : atrie) : Prop :=
    wfc aleaf base /\
    (forall a acc m t, trie_get aleaf base (hk a) = Some (acc, m) -> a_sroot acc = Some t -> wfc sleaf t) /\
    (forall a acc m, trie_get aleaf base (hk a) = Some (acc, m) -> is_empty acc = false).

  Lemma base_ok_nil : base_ok Nil.
  Proof. split; [left; reflexivity|]. split; intros; discriminate. Qed.

  Definition same_fields (y x : account) : Prop :=
    a_bal y = a_bal x /\ a_eng y = a_eng x /\ a_bt y = a_bt x /\ a_master y = a_master x /\ a_codehash y = a_codehash x.

  Section Final.
    Variable s : state.
    Variable major minor : N.
    Hypothesis Hsi : SI hk hs s.
    Hypothesis Hsj : SJ s.
    Hypothesis Hsr : SRall hk hs s.
    Hypothesis Hbase : base_ok (st_base s).

    Let L := stack (st_sm s).
    Let g := src s.
    Let J := jof L.
    Let chs := rp_chs hk s major minor J.

    Lemma stage_is_fold : stage hk hs trimkey s major minor =
      fold_left (stage_account hk hs trimkey major minor) chs (st_base s).
    Proof.
      unfold stage, stage_changes, chs, rp_chs, rp, J, jof, L, sm_journal.
      destruct (fold_left (replay1 hk s major minor) (flat_map journal (stack (st_sm s))) ([], [], 0)) as [[c cs] n].
      reflexivity.
    Qed.

    Lemma JOJ : JO J. Proof. apply Hsj. Qed.
    Lemma JIL : Forall JI L. Proof. apply Hsj. Qed.

    Lemma c_acc a : jacc hk s J a = vacc g L a.
    Proof.
      unfold jacc, vacc, ProofsSM.aget, J. rewrite jlast_jof by apply JIL. fold L.
      destruct (ProofsSM.afind skey sval skey_eqb (KAcc a) (rev L)) as [v|] eqn:F.
      - assert (W : wt (KAcc a, v)). { apply (JO_wt J JOJ). unfold J. rewrite jlast_jof by apply JIL. exact F. }
        destruct v; cbn in W; try contradiction. reflexivity.
      - reflexivity.
    Qed.

    Lemma c_bar a : jbar J a = vbar g L a.
    Proof. apply (jbar_vbar hk hs s JIL). Qed.

    Lemma c_stor a k : vstor g L a k =
      match jraw J a k with
      | Some r => r
      | None => if vbar g L a =? 0 then base_storage hs (base_acc hk s a) k else []
      end.
    Proof.
      unfold vstor, jraw, ProofsSM.aget. rewrite c_bar. unfold J. rewrite jlast_jof by apply JIL. fold L.
      destruct (ProofsSM.afind skey sval skey_eqb (KStor a (vbar g L a) k) (rev L)) as [v|] eqn:F.
      - assert (W : wt (KStor a (vbar g L a) k, v)). { apply (JO_wt J JOJ). unfold J. rewrite jlast_jof by apply JIL. exact F. }
        destruct v; cbn in W; try contradiction. reflexivity.
      - unfold g. cbn. destruct (vbar (src s) L a =? 0); reflexivity.
    Qed.

    Lemma sr_top a : a_sroot (vacc g L a) = if vbar g L a =? 0 then a_sroot (base_acc hk s a) else None.
    Proof.
      pose proof (stack_nonempty s (proj1 Hsi)) as N0.
      assert (Hl : (1 <= length (stack (st_sm s)))%nat) by (destruct (stack (st_sm s)); [congruence|cbn; lia]).
      pose proof (Hsr _ Hl) as R0. rewrite firstn_all in R0. apply R0.
    Qed.

    Lemma is_empty_sroot d t : is_empty (mkAcc (a_bal d) (a_eng d) (a_bt d) (a_master d) (a_codehash d) t) = is_empty d.
    Proof. reflexivity. Qed.

    Lemma base_storage_sroot x y k : a_sroot x = a_sroot y -> base_storage hs x k = base_storage hs y k.
    Proof. unfold base_storage. intros ->. reflexivity. Qed.

    Lemma base_strie_wf c a : c_data c = vacc g L a -> wfc sleaf (base_strie c).
    Proof.
      intros E. unfold base_strie. rewrite E, sr_top.
      destruct (vbar g L a =? 0); [|left; reflexivity].
      unfold base_acc, load_account.
      destruct (trie_get aleaf (st_base s) (hk a)) as [[acc [m|]]|] eqn:Q; cbn [fst].
      - destruct (a_sroot acc) eqn:R; [|left; reflexivity]. destruct Hbase as [_ [W _]]. eapply W; eauto.
      - destruct (a_sroot acc) eqn:R; [|left; reflexivity]. destruct Hbase as [_ [W _]]. eapply W; eauto.
      - left; reflexivity.
    Qed.

    (* reads of the freshly re-opened state *)
    Let s' := commit_reopen hk hs trimkey s major minor.

    Lemma reopen_raw a k : get_raw_storage hk hs s' a k = base_storage hs (get_account hk hs s' a) k.
    Proof.
      unfold get_raw_storage, get_barrier, get_account, sget, s', commit_reopen, open, sm_get, sm_new.
      cbn -[trie_get stage]. reflexivity.
    Qed.

    Theorem reopen_reads_back_lemma a :
      let x := get_account hk hs s a in
      let y := get_account hk hs s' a in
      (is_empty x = true -> y = empty_account /\ forall k, get_raw_storage hk hs s' a k = []) /\
      (is_empty x = false -> same_fields y x /\ forall k, get_raw_storage hk hs s' a k = get_raw_storage hk hs s a k).
    Proof.
      intros x y.
      destruct (getters_view hk hs s (proj1 Hsi) a) as [Gx [_ [_ Gs]]]. fold g L in Gx, Gs.
      assert (Ey : y = match trie_get aleaf (stage hk hs trimkey s major minor) (hk a) with
                       | Some (acc, _) => acc | None => empty_account end) by apply reopen_reads.
      assert (Eraw : forall k, get_raw_storage hk hs s' a k = base_storage hs y k) by (intros; apply reopen_raw).
      clearbody y.
      destruct (rp_shape s major minor J) as [ND SN]. fold chs in ND, SN.
      rewrite stage_is_fold in Ey. rewrite fold_stage_get in Ey by (auto; apply Hbase).
      pose proof (replay_spec hk s major minor J JOJ a) as RS. fold chs in RS.
      destruct (ch_find a chs) as [c|] eqn:F.
      - (* the address has a changed record *)
        destruct RS as [Cd Cs]. rewrite c_acc in Cd. rewrite <- Gx in Cd. fold x in Cd.
        assert (Sn : stor_nodup c).
        { clear -F SN. induction SN as [|c' l Hc Hl IH]; cbn in F; [discriminate|].
          destruct (c_addr c' =? a); auto. inversion F; subst; auto. }
        unfold staged_leaf, staged_data in Ey. rewrite Cd in Ey.
        split; intros Hx; rewrite Hx in Ey; cbn [negb] in Ey.
        + rewrite Hx in Ey. subst y. split; [reflexivity|intros k; rewrite Eraw; reflexivity].
        + destruct (c_storage c) as [[|p m]|] eqn:Sc.
          * (* empty pending map: as none *)
            rewrite Hx in Ey. subst y. split; [repeat split; auto|].
            intros k. rewrite Eraw, Gs, c_stor. rewrite <- (Cs k). cbn [kv_find].
            rewrite (base_storage_sroot x (if vbar g L a =? 0 then base_acc hk s a else empty_account) k).
            { destruct (vbar g L a =? 0); reflexivity. }
            unfold x. rewrite Gx, sr_top. destruct (vbar g L a =? 0); reflexivity.
          * (* storage was written: the new storage trie *)
            rewrite is_empty_sroot, Hx in Ey. subst y. split; [repeat split; auto|].
            intros k. rewrite Eraw. unfold base_storage at 1. cbn [a_sroot].
            change (match trie_get sleaf (save_storage hs trimkey (base_strie c) (p :: m)) (hs k) with
                    | Some (v, _) => v | None => [] end)
              with (raw_of (trie_get sleaf (save_storage hs trimkey (base_strie c) (p :: m)) (hs k))).
            assert (Wb : wfc sleaf (base_strie c)) by (apply (base_strie_wf c a); rewrite Cd; unfold x; auto).
            unfold stor_nodup in Sn. rewrite Sc in Sn.
            rewrite save_storage_get by auto.
            rewrite Gs, c_stor. rewrite <- (Cs k).
            destruct (kv_find k (Some (p :: m))); auto.
            unfold base_strie. rewrite Cd. unfold x. rewrite Gx, sr_top.
            destruct (vbar g L a =? 0); [|reflexivity].
            unfold base_storage, raw_of. destruct (a_sroot (base_acc hk s a)); reflexivity.
          * rewrite Hx in Ey. subst y. split; [repeat split; auto|].
            intros k. rewrite Eraw, Gs, c_stor. rewrite <- (Cs k). cbn [kv_find].
            rewrite (base_storage_sroot x (if vbar g L a =? 0 then base_acc hk s a else empty_account) k).
            { destruct (vbar g L a =? 0); reflexivity. }
            unfold x. rewrite Gx, sr_top. destruct (vbar g L a =? 0); reflexivity.
      - (* untouched address: the base leaf *)
        destruct RS as [A [B C]].
        assert (Xb : x = base_acc hk s a).
        { unfold x. rewrite Gx, <- c_acc. unfold jacc. rewrite A. reflexivity. }
        assert (Vb : vbar g L a = 0) by (rewrite <- c_bar; unfold jbar; rewrite B; reflexivity).
        assert (Yb : y = base_acc hk s a).
        { rewrite Ey. unfold base_acc, load_account. destruct (trie_get aleaf (st_base s) (hk a)) as [[acc [m|]]|]; reflexivity. }
        split; intros Hx.
        + assert (Q : trie_get aleaf (st_base s) (hk a) = None).
          { destruct (trie_get aleaf (st_base s) (hk a)) as [[acc m]|] eqn:Q; auto.
            destruct Hbase as [_ [_ Ne]]. pose proof (Ne a acc m Q) as E.
            rewrite Xb in Hx. unfold base_acc, load_account in Hx. rewrite Q in Hx. destruct m; cbn in Hx; congruence. }
          assert (Ye : y = empty_account) by (rewrite Yb; unfold base_acc, load_account; rewrite Q; reflexivity).
          split; auto. intros k. rewrite Eraw, Ye. reflexivity.
        + split; [rewrite Yb, Xb; repeat split; auto|].
          intros k. rewrite Eraw, Gs, c_stor. unfold jraw. rewrite C, Vb. cbn. rewrite Yb. reflexivity.
    Qed.

    (* the staged trie is again a legal base: the invariant is inductive over Stage/Commit/re-open chains *)
    Theorem stage_base_ok : base_ok (stage hk hs trimkey s major minor).
    Proof.
      assert (W : wfc aleaf (stage hk hs trimkey s major minor)) by (apply stage_wf; auto; apply Hbase).
      assert (K : forall a acc m, trie_get aleaf (stage hk hs trimkey s major minor) (hk a) = Some (acc, m) ->
                  is_empty acc = false /\ forall t, a_sroot acc = Some t -> wfc sleaf t).
      { intros a acc m Q.
        destruct (rp_shape s major minor J) as [ND SN]. fold chs in ND, SN.
        rewrite stage_is_fold in Q. rewrite fold_stage_get in Q by (auto; apply Hbase).
        pose proof (replay_spec hk s major minor J JOJ a) as RS. fold chs in RS.
        destruct (ch_find a chs) as [c|] eqn:F.
        - destruct RS as [Cd Cs]. rewrite c_acc in Cd.
          unfold staged_leaf in Q. destruct (staged_data major minor c) as [data meta] eqn:SD.
          destruct (is_empty data) eqn:Ed; [discriminate|]. inversion Q; subst acc m. split; auto.
          intros t Ht. unfold staged_data in SD.
          assert (Old : forall t0, a_sroot (c_data c) = Some t0 -> wfc sleaf t0).
          { intros t0 H0. pose proof (base_strie_wf c a Cd) as Wb. unfold base_strie in Wb. rewrite H0 in Wb. exact Wb. }
          destruct (negb (is_empty (c_data c))).
          + cbv zeta in SD. destruct (c_storage c) as [[|p m']|].
            * inversion SD; subst data; auto.
            * remember (save_storage hs trimkey (base_strie c) (p :: m')) as st eqn:Est.
              inversion SD; subst data. cbn [a_sroot] in Ht. inversion Ht; subst t. rewrite Est.
              apply save_storage_wf; auto. apply (base_strie_wf c a Cd).
            * inversion SD; subst data; auto.
          + inversion SD; subst data; auto.
        - destruct Hbase as [_ [B1 B2]]. split; [eapply B2; eauto|intros t Ht; eapply B1; eauto]. }
      split; auto. split.
      - intros a acc m t Q Ht. destruct (K a acc m Q) as [_ K2]. auto.
      - intros a acc m Q. destruct (K a acc m Q) as [K1 _]. auto.
    Qed.

    (* the explicit storage root (state.go Stage: `if len(c.storage) > 0 { … c.data.StorageRoot = sTrie.Hash() }`):
       for an account that is not empty at Stage, the committed leaf names a storage trie
       - whenever a storage slot of the account was written in this block under its current barrier (even if every
         written value is empty, in which case the named trie may be the empty one), and
       - otherwise exactly when the account record named one already (the root is carried over unchanged);
       and a named storage trie is well formed and holds exactly the account's storage as the state reads it. *)
    Definition stor_written (a : N) : Prop := exists k r, jraw J a k = Some r.

    Theorem staged_sroot_lemma a :
      let x := get_account hk hs s a in
      let y := get_account hk hs s' a in
      is_empty x = false ->
      (stor_written a -> exists st, a_sroot y = Some st) /\
      (~ stor_written a -> a_sroot y = a_sroot x) /\
      (forall st, a_sroot y = Some st ->
         wfc sleaf st /\ forall k, raw_of (trie_get sleaf st (hs k)) = get_raw_storage hk hs s a k).
    Proof.
      intros x y Hx.
      destruct (getters_view hk hs s (proj1 Hsi) a) as [Gx [_ [_ Gs]]]. fold g L in Gx, Gs.
      assert (Ey : y = match trie_get aleaf (stage hk hs trimkey s major minor) (hk a) with
                       | Some (acc, _) => acc | None => empty_account end) by apply reopen_reads.
      destruct (reopen_reads_back_lemma a) as [_ RB]. fold x y in RB. destruct (RB Hx) as [SF RS']. clear RB.
      assert (Hy : get_account hk hs s' a = y) by reflexivity.
      clearbody y.
      split; [|split].
      - (* written: a storage trie is named *)
        intros [k [r Hw]].
        destruct (rp_shape s major minor J) as [ND SN]. fold chs in ND, SN.
        rewrite stage_is_fold in Ey. rewrite fold_stage_get in Ey by (auto; apply Hbase).
        pose proof (replay_spec hk s major minor J JOJ a) as RS. fold chs in RS.
        destruct (ch_find a chs) as [c|] eqn:F.
        + destruct RS as [Cd Cs]. rewrite c_acc in Cd. rewrite <- Gx in Cd. fold x in Cd.
          unfold staged_leaf, staged_data in Ey. rewrite Cd, Hx in Ey. cbn [negb] in Ey.
          specialize (Cs k). rewrite Hw in Cs.
          destruct (c_storage c) as [[|p m]|]; cbn in Cs; try discriminate.
          rewrite is_empty_sroot, Hx in Ey. subst y. eexists. reflexivity.
        + destruct RS as [_ [_ C]]. unfold jraw in Hw. rewrite C in Hw. discriminate.
      - (* not written: carried over *)
        intros Hn.
        destruct (rp_shape s major minor J) as [ND SN]. fold chs in ND, SN.
        rewrite stage_is_fold in Ey. rewrite fold_stage_get in Ey by (auto; apply Hbase).
        pose proof (replay_spec hk s major minor J JOJ a) as RS. fold chs in RS.
        destruct (ch_find a chs) as [c|] eqn:F.
        + destruct RS as [Cd Cs]. rewrite c_acc in Cd. rewrite <- Gx in Cd. fold x in Cd.
          unfold staged_leaf, staged_data in Ey. rewrite Cd, Hx in Ey. cbn [negb] in Ey.
          destruct (c_storage c) as [[|[k0 v0] m]|] eqn:Sc.
          * rewrite Hx in Ey. subst y. reflexivity.
          * exfalso. apply Hn. exists k0, v0. rewrite <- (Cs k0). cbn. rewrite N.eqb_refl. reflexivity.
          * rewrite Hx in Ey. subst y. reflexivity.
        + destruct RS as [A _].
          assert (Xb : x = base_acc hk s a).
          { unfold x. rewrite Gx, <- c_acc. unfold jacc. rewrite A. reflexivity. }
          rewrite Ey, Xb. unfold base_acc, load_account.
          destruct (trie_get aleaf (st_base s) (hk a)) as [[acc [m|]]|]; reflexivity.
      - (* a named trie holds the storage *)
        intros st Hst. split.
        + destruct (trie_get aleaf (stage hk hs trimkey s major minor) (hk a)) as [[acc m]|] eqn:Q.
          * subst y. destruct stage_base_ok as [_ [W _]]. eapply W; eauto.
          * subst y. discriminate.
        + intros k. rewrite <- RS'. rewrite reopen_raw, Hy. unfold base_storage. rewrite Hst. reflexivity.
    Qed.

    (* Stage keeps the key hygiene: the staged trie holds secure keys only, its storage tries hold secure keys and no
       empty value — so the premise `secure_base` is inductive over chains of blocks, like base_ok *)
    Hypothesis Hsec : secure_base (st_base s).

    Lemma base_strie_keys_ok c a : c_data c = vacc g L a -> stor_keys_ok (base_strie c).
    Proof.
      intros E. unfold base_strie. rewrite E, sr_top.
      destruct (vbar g L a =? 0); [|apply stor_keys_ok_nil].
      unfold base_acc, load_account.
      destruct (trie_get aleaf (st_base s) (hk a)) as [[acc [m|]]|] eqn:Q; cbn [fst].
      - destruct (a_sroot acc) eqn:R; [|apply stor_keys_ok_nil]. destruct Hsec as [_ W]. eapply W; eauto.
      - destruct (a_sroot acc) eqn:R; [|apply stor_keys_ok_nil]. destruct Hsec as [_ W]. eapply W; eauto.
      - apply stor_keys_ok_nil.
    Qed.

    Theorem stage_secure : secure_base (stage hk hs trimkey s major minor).
    Proof.
      destruct (rp_shape s major minor J) as [ND SN]. fold chs in ND, SN.
      split.
      - intros k l Hk Q. rewrite stage_is_fold in Q. fold chs in Q.
        destruct (in_dec (list_eq_dec Nat.eq_dec) k (map (fun c => hk (c_addr c)) chs)) as [I|I].
        + apply in_map_iff in I. destruct I as [c [E _]]. eexists. symmetry. exact E.
        + rewrite fold_stage_get_other in Q; auto; [|apply Hbase|].
          * destruct Hsec as [S1 _]. eapply S1; eauto.
          * intros c Ic E. apply I. apply in_map_iff. exists c. auto.
      - intros a acc m t Q Ht.
        rewrite stage_is_fold in Q. fold chs in Q. rewrite fold_stage_get in Q by (auto; apply Hbase).
        pose proof (replay_spec hk s major minor J JOJ a) as RS. fold chs in RS.
        destruct (ch_find a chs) as [c|] eqn:F.
        + destruct RS as [Cd Cs]. rewrite c_acc in Cd.
          unfold staged_leaf in Q. destruct (staged_data major minor c) as [data meta] eqn:SD.
          destruct (is_empty data) eqn:Ed; [discriminate|]. inversion Q; subst acc m.
          unfold staged_data in SD.
          assert (Old : forall t0, a_sroot (c_data c) = Some t0 -> stor_keys_ok t0).
          { intros t0 H0. pose proof (base_strie_keys_ok c a Cd) as Wb. unfold base_strie in Wb. rewrite H0 in Wb. exact Wb. }
          destruct (negb (is_empty (c_data c))).
          * cbv zeta in SD. destruct (c_storage c) as [[|p m']|].
            -- inversion SD; subst data; auto.
            -- remember (save_storage hs trimkey (base_strie c) (p :: m')) as st eqn:Est.
               inversion SD; subst data. cbn [a_sroot] in Ht. inversion Ht; subst t. rewrite Est.
               apply save_storage_keys_ok; [apply (base_strie_wf c a Cd)|apply (base_strie_keys_ok c a Cd)].
            -- inversion SD; subst data; auto.
          * inversion SD; subst data; auto.
        + destruct Hsec as [_ S2]. eapply S2; eauto.
    Qed.
  End Final.

  (* every state reached from a legal base by state operations satisfies the invariants used above *)
  Lemma reachable_SI base codes ops : Forall state_op ops -> SI hk hs (run_state hk hs ops (open base codes)).
  Proof.
    intros H.
    assert (R0 : R (src (open base codes)) (stack (st_sm (open base codes))) [abs0 hk hs base codes]).
    { split; [reflexivity|]. intros i Hi. cbn in Hi. assert (i = 0)%nat by lia. subst. cbn. apply aeq_refl. }
    destruct (run_sim hk hs ops _ _ (SI_open hk hs base codes) R0 H) as [Hs _]. exact Hs.
  Qed.

  Lemma reachable_invs base codes ops : Forall state_op ops ->
    let s := run_state hk hs ops (open base codes) in
    SI hk hs s /\ SJ s /\ SRall hk hs s /\ st_base s = base.
  Proof.
    intros H. cbv zeta. split; [apply reachable_SI; auto|].
    induction ops as [|o ops IH] using rev_ind.
    - cbn. split; [apply SJ_open|split; [apply SRall_open|reflexivity]].
    - apply Forall_app in H. destruct H as [H1 H2]. inversion H2; subst.
      specialize (IH H1). pose proof (reachable_SI base codes ops H1) as A.
      unfold run_state in *. rewrite fold_left_app. cbn [fold_left].
      set (s := fold_left (sstep hk hs) ops (open base codes)) in *.
      destruct IH as [B [C D]].
      split; [apply SJ_sstep; auto|split; [apply SRall_sstep; auto|]].
      destruct (base_sstep hk hs s o) as [E _]. rewrite E. auto.
  Qed.

  Lemma same_fields_empty y x : same_fields y x -> is_empty y = is_empty x.
  Proof. intros [A [B [_ [C D]]]]. unfold is_empty. rewrite A, B, C, D. reflexivity. Qed.

  (* state_root_depends_only_on_content: two histories of state operations on the same legal, secure base (the parent
     block's state) that end with the same logical content — for every address the same account fields and the same
     value in every storage slot — and whose committed leaves name a storage trie for the same addresses (by
     staged_sroot_lemma: storage written in the block, or a root carried over) commit to the same consensus view of the
     accounts trie, hence to the same state root: whatever the order of the operations, whatever was overwritten,
     reverted or deleted and re-created on the way, and whatever the versions.  (The StorageIDs and versions, which do
     depend on the order and on the version, are metadata.) *)
  Theorem state_root_content_lemma base codes ops1 ops2 ma1 mi1 ma2 mi2 :
    base_ok base -> secure_base base -> Forall state_op ops1 -> Forall state_op ops2 ->
    let s1 := run_state hk hs ops1 (open base codes) in
    let s2 := run_state hk hs ops2 (open base codes) in
    (forall a, same_fields (get_account hk hs s1 a) (get_account hk hs s2 a) /\
               (forall k, get_raw_storage hk hs s1 a k = get_raw_storage hk hs s2 a k) /\
               (a_sroot (get_account hk hs (commit_reopen hk hs trimkey s1 ma1 mi1) a) = None <->
                a_sroot (get_account hk hs (commit_reopen hk hs trimkey s2 ma2 mi2) a) = None)) ->
    cview (stage hk hs trimkey s1 ma1 mi1) = cview (stage hk hs trimkey s2 ma2 mi2).
  Proof.
    intros Hb Hsec H1 H2 s1 s2 Hc.
    destruct (reachable_invs base codes ops1 H1) as [A1 [B1 [C1 D1]]]. fold s1 in A1, B1, C1, D1.
    destruct (reachable_invs base codes ops2 H2) as [A2 [B2 [C2 D2]]]. fold s2 in A2, B2, C2, D2.
    assert (Hb1 : base_ok (st_base s1)) by (rewrite D1; auto).
    assert (Hb2 : base_ok (st_base s2)) by (rewrite D2; auto).
    assert (Hs1 : secure_base (st_base s1)) by (rewrite D1; auto).
    assert (Hs2 : secure_base (st_base s2)) by (rewrite D2; auto).
    set (T1 := stage hk hs trimkey s1 ma1 mi1). set (T2 := stage hk hs trimkey s2 ma2 mi2).
    pose proof (stage_base_ok s1 ma1 mi1 A1 B1 C1 Hb1) as [W1 [SW1 NE1]]. fold T1 in W1, SW1, NE1.
    pose proof (stage_base_ok s2 ma2 mi2 A2 B2 C2 Hb2) as [W2 [SW2 NE2]]. fold T2 in W2, SW2, NE2.
    pose proof (stage_secure s1 ma1 mi1 A1 B1 C1 Hb1 Hs1) as [K1 SK1]. fold T1 in K1, SK1.
    pose proof (stage_secure s2 ma2 mi2 A2 B2 C2 Hb2 Hs2) as [K2 SK2]. fold T2 in K2, SK2.
    (* what the re-opened states read at an address, in terms of the staged leaves *)
    assert (Y1 : forall a, get_account hk hs (commit_reopen hk hs trimkey s1 ma1 mi1) a =
                           match trie_get aleaf T1 (hk a) with Some (acc, _) => acc | None => empty_account end) by (intros; apply reopen_reads).
    assert (Y2 : forall a, get_account hk hs (commit_reopen hk hs trimkey s2 ma2 mi2) a =
                           match trie_get aleaf T2 (hk a) with Some (acc, _) => acc | None => empty_account end) by (intros; apply reopen_reads).
    (* a stored leaf is a non-empty account with the fields of the state *)
    assert (F1 : forall a acc m, trie_get aleaf T1 (hk a) = Some (acc, m) ->
                 is_empty (get_account hk hs s1 a) = false /\ same_fields acc (get_account hk hs s1 a) /\
                 forall k, base_storage hs acc k = get_raw_storage hk hs s1 a k).
    { intros a acc m Q. pose proof (reopen_reads_back_lemma s1 ma1 mi1 A1 B1 C1 Hb1 a) as [RE RN]. cbv zeta in RE, RN.
      rewrite (Y1 a), Q in RE, RN. pose proof (NE1 a acc m Q) as Ne.
      destruct (is_empty (get_account hk hs s1 a)) eqn:E.
      - destruct (RE eq_refl) as [X _]. subst acc. discriminate.
      - destruct (RN eq_refl) as [SF RS]. split; auto. split; auto.
        intros k. rewrite <- RS. rewrite reopen_raw, (Y1 a), Q. reflexivity. }
    assert (F2 : forall a acc m, trie_get aleaf T2 (hk a) = Some (acc, m) ->
                 is_empty (get_account hk hs s2 a) = false /\ same_fields acc (get_account hk hs s2 a) /\
                 forall k, base_storage hs acc k = get_raw_storage hk hs s2 a k).
    { intros a acc m Q. pose proof (reopen_reads_back_lemma s2 ma2 mi2 A2 B2 C2 Hb2 a) as [RE RN]. cbv zeta in RE, RN.
      rewrite (Y2 a), Q in RE, RN. pose proof (NE2 a acc m Q) as Ne.
      destruct (is_empty (get_account hk hs s2 a)) eqn:E.
      - destruct (RE eq_refl) as [X _]. subst acc. discriminate.
      - destruct (RN eq_refl) as [SF RS]. split; auto. split; auto.
        intros k. rewrite <- RS. rewrite reopen_raw, (Y2 a), Q. reflexivity. }
    (* an absent leaf is an empty account *)
    assert (G1 : forall a, trie_get aleaf T1 (hk a) = None -> is_empty (get_account hk hs s1 a) = true).
    { intros a Q. pose proof (reopen_reads_back_lemma s1 ma1 mi1 A1 B1 C1 Hb1 a) as [_ RN]. cbv zeta in RN.
      rewrite (Y1 a), Q in RN. destruct (is_empty (get_account hk hs s1 a)) eqn:E; auto.
      destruct (RN eq_refl) as [SF _]. apply same_fields_empty in SF. rewrite E in SF. discriminate. }
    assert (G2 : forall a, trie_get aleaf T2 (hk a) = None -> is_empty (get_account hk hs s2 a) = true).
    { intros a Q. pose proof (reopen_reads_back_lemma s2 ma2 mi2 A2 B2 C2 Hb2 a) as [_ RN]. cbv zeta in RN.
      rewrite (Y2 a), Q in RN. destruct (is_empty (get_account hk hs s2 a)) eqn:E; auto.
      destruct (RN eq_refl) as [SF _]. apply same_fields_empty in SF. rewrite E in SF. discriminate. }
    unfold cview. apply (Trie.ProofsProj.canonical_projection aleaf caccount cview_leaf T1 T2 W1 W2).
    intros k Hk.
    destruct (trie_get aleaf T1 k) as [[acc1 m1]|] eqn:Q1; destruct (trie_get aleaf T2 k) as [[acc2 m2]|] eqn:Q2; cbn [option_map]; auto.
    - (* both stored: same fields, same storage view *)
      destruct (K1 k _ Hk Q1) as [a Ea]. subst k.
      destruct (F1 a acc1 m1 Q1) as [_ [SF1 RS1]]. destruct (F2 a acc2 m2 Q2) as [_ [SF2 RS2]].
      destruct (Hc a) as [SF [RS NS]]. rewrite (Y1 a), Q1, (Y2 a), Q2 in NS.
      destruct SF1 as [a1 [a2 [a3 [a4 a5]]]]. destruct SF2 as [b1 [b2 [b3 [b4 b5]]]]. destruct SF as [c1 [c2 [c3 [c4 c5]]]].
      f_equal. unfold cview_leaf. cbn [fst].
      rewrite a1, a2, a3, a4, a5, b1, b2, b3, b4, b5, c1, c2, c3, c4, c5. f_equal.
      destruct (a_sroot acc1) as [st1|] eqn:R1; destruct (a_sroot acc2) as [st2|] eqn:R2; cbn [option_map]; auto.
      + f_equal. unfold cview_storage.
        apply (Trie.ProofsProj.canonical_projection sleaf bytes (fun l : sleaf => fst l) st1 st2); [eapply SW1; eauto|eapply SW2; eauto|].
        intros k' Hk'.
        pose proof (SK1 a acc1 m1 st1 Q1 R1) as O1. pose proof (SK2 a acc2 m2 st2 Q2 R2) as O2.
        destruct (trie_get sleaf st1 k') as [[v1 n1]|] eqn:E1; destruct (trie_get sleaf st2 k') as [[v2 n2]|] eqn:E2; cbn [option_map fst]; auto.
        * destruct (O1 k' v1 n1 Hk' E1) as [[j Ej] _]. subst k'.
          f_equal. pose proof (RS1 j) as X1. pose proof (RS2 j) as X2. unfold base_storage in X1, X2.
          rewrite R1, E1 in X1. rewrite R2, E2 in X2. rewrite X1, X2. apply RS.
        * exfalso. destruct (O1 k' v1 n1 Hk' E1) as [[j Ej] Nv]. subst k'.
          pose proof (RS1 j) as X1. pose proof (RS2 j) as X2. unfold base_storage in X1, X2.
          rewrite R1, E1 in X1. rewrite R2, E2 in X2. apply Nv. rewrite X1, (RS j), <- X2. reflexivity.
        * exfalso. destruct (O2 k' v2 n2 Hk' E2) as [[j Ej] Nv]. subst k'.
          pose proof (RS1 j) as X1. pose proof (RS2 j) as X2. unfold base_storage in X1, X2.
          rewrite R1, E1 in X1. rewrite R2, E2 in X2. apply Nv. rewrite X2, <- (RS j), <- X1. reflexivity.
      + exfalso. destruct NS as [_ NS]. specialize (NS eq_refl). discriminate.
      + exfalso. destruct NS as [NS _]. specialize (NS eq_refl). discriminate.
    - (* stored on one side only: the emptiness of the account differs *)
      exfalso. destruct (K1 k _ Hk Q1) as [a Ea]. subst k.
      destruct (F1 a acc1 m1 Q1) as [E1 _]. pose proof (G2 a Q2) as E2.
      destruct (Hc a) as [SF _]. apply same_fields_empty in SF. congruence.
    - exfalso. destruct (K2 k _ Hk Q2) as [a Ea]. subst k.
      destruct (F2 a acc2 m2 Q2) as [E2 _]. pose proof (G1 a Q1) as E1.
      destruct (Hc a) as [SF _]. apply same_fields_empty in SF. congruence.
  Qed.

  (* the flag of state_root_content_lemma on the states BEFORE Stage: the committed leaf of an address names a storage trie
     iff the account is not empty and either a slot was written in this block under the current barrier or the record
     names a storage trie already *)
  Definition named_storage (s : state) (a : N) : Prop :=
    is_empty (get_account hk hs s a) = false /\
    (stor_written s a \/ a_sroot (get_account hk hs s a) <> None).

  Lemma named_storage_spec s major minor :
    SI hk hs s -> SJ s -> SRall hk hs s -> base_ok (st_base s) ->
    forall a, a_sroot (get_account hk hs (commit_reopen hk hs trimkey s major minor) a) = None <-> ~ named_storage s a.
  Proof.
    intros A B C Hb a.
    destruct (is_empty (get_account hk hs s a)) eqn:E.
    - destruct (reopen_reads_back_lemma s major minor A B C Hb a) as [RE _]. cbv zeta in RE. destruct (RE E) as [Y _].
      rewrite Y. split; [intros _ [X _]; rewrite E in X; discriminate|reflexivity].
    - destruct (staged_sroot_lemma s major minor A B C Hb a E) as [S1 [S2 _]].
      split.
      + intros Hn [_ [W|R]].
        * destruct (S1 W) as [st Hst]. rewrite Hst in Hn. discriminate.
        * assert (NW : ~ stor_written s a) by (intros W; destruct (S1 W) as [st Hst]; rewrite Hst in Hn; discriminate).
          rewrite (S2 NW) in Hn. contradiction.
      + intros Hn.
        assert (NW : ~ stor_written s a) by (intros W; apply Hn; split; auto).
        rewrite (S2 NW). destruct (a_sroot (get_account hk hs s a)) eqn:R; auto.
        exfalso. apply Hn. split; auto. right. rewrite R. discriminate.
  Qed.

  Theorem state_root_content_pre_lemma base codes ops1 ops2 ma1 mi1 ma2 mi2 :
    base_ok base -> secure_base base -> Forall state_op ops1 -> Forall state_op ops2 ->
    let s1 := run_state hk hs ops1 (open base codes) in
    let s2 := run_state hk hs ops2 (open base codes) in
    (forall a, same_fields (get_account hk hs s1 a) (get_account hk hs s2 a) /\
               (forall k, get_raw_storage hk hs s1 a k = get_raw_storage hk hs s2 a k) /\
               (named_storage s1 a <-> named_storage s2 a)) ->
    cview (stage hk hs trimkey s1 ma1 mi1) = cview (stage hk hs trimkey s2 ma2 mi2).
  Proof.
    intros Hb Hsec H1 H2 s1 s2 Hc.
    apply state_root_content_lemma; auto. fold s1 s2. intros a.
    destruct (Hc a) as [F [S N]]. split; auto. split; auto.
    destruct (reachable_invs base codes ops1 H1) as [A1 [B1 [C1 D1]]]. fold s1 in A1, B1, C1, D1.
    destruct (reachable_invs base codes ops2 H2) as [A2 [B2 [C2 D2]]]. fold s2 in A2, B2, C2, D2.
    rewrite (named_storage_spec s1 ma1 mi1 A1 B1 C1 ltac:(rewrite D1; auto) a).
    rewrite (named_storage_spec s2 ma2 mi2 A2 B2 C2 ltac:(rewrite D2; auto) a).
    tauto.
  Qed.
End CM.
