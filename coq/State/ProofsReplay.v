(* State/ProofsReplay.v — what Stage's journal replay computes: per address the last account record and the
   storage written since the last barrier (State.Stage: the `changed` records). *)
From Coq Require Import List NArith Bool Arith Lia.
From Verif Require Import Trie.Model State.StackedMap State.ProofsSM State.Model State.ProofsState State.ProofsJournal.
Import ListNotations.
Open Scope N_scope.

Definition kv_find (k : N) (m : option (list (N * bytes))) : option bytes :=
  match m with
  | None => None
  | Some l => (fix f (l : list (N * bytes)) := match l with [] => None | (k', v) :: t => if k =? k' then Some v else f t end) l
  end.

Section RP.
  Variable hk hs : N -> list nat.
  Variable trimkey : N -> bytes.

  Notation kv_set := (kv_set).
  Notation ch_find := (ch_find).
  Notation ch_set := (ch_set).

  Lemma kv_find_set k v l k' :
    kv_find k' (Some (Model.kv_set k v l)) = if k' =? k then Some v else kv_find k' (Some l).
  Proof.
    induction l as [|[k2 v2] l IH]; cbn.
    - destruct (k' =? k); auto.
    - destruct (k =? k2) eqn:E; cbn.
      + apply N.eqb_eq in E; subst. destruct (k' =? k2); auto.
      + destruct (k' =? k2) eqn:E2.
        * apply N.eqb_eq in E2; subst. rewrite (N.eqb_sym k2 k), E. reflexivity.
        * cbn in IH. exact IH.
  Qed.

  Lemma ch_find_set c l a :
    Model.ch_find a (Model.ch_set c l) = if c_addr c =? a then Some c else Model.ch_find a l.
  Proof.
    induction l as [|c' l IH]; cbn.
    - destruct (c_addr c =? a); auto.
    - destruct (c_addr c' =? c_addr c) eqn:E; cbn.
      + apply N.eqb_eq in E. rewrite E. destruct (c_addr c =? a); auto.
      + destruct (c_addr c' =? a) eqn:E2.
        * apply N.eqb_eq in E2; subst. rewrite (N.eqb_sym (c_addr c) (c_addr c')), E. reflexivity.
        * exact IH.
  Qed.

  Lemma ch_find_addr a l c : Model.ch_find a l = Some c -> c_addr c = a.
  Proof.
    induction l as [|c' l IH]; cbn; [discriminate|].
    destruct (c_addr c' =? a) eqn:E; auto. intros Q; inversion Q; subst. apply N.eqb_eq; auto.
  Qed.

  Section WithState.
    Variable s : state.
    Variable major minor : N.

    Definition base_acc (a : N) : account := fst (load_account hk (st_base s) a).
    Definition jacc (J : list entry) (a : N) : account :=
      match jlast (KAcc a) J with Some (VAcc x) => x | _ => base_acc a end.
    Definition jraw (J : list entry) (a k : N) : option bytes :=
      match jlast (KStor a (jbar J a) k) J with Some (VRaw r) => Some r | _ => None end.

    Definition rp (J : list entry) := fold_left (replay1 hk s major minor) J ([], [], 0).
    Definition rp_chs (J : list entry) : list changed := fst (fst (rp J)).

    Lemma rp_snoc J e : rp (J ++ [e]) = replay1 hk s major minor (rp J) e.
    Proof. unfold rp. rewrite fold_left_app. reflexivity. Qed.

    Definition P (J : list entry) (chs : list changed) : Prop :=
      forall a,
        match Model.ch_find a chs with
        | None => jlast (KAcc a) J = None /\ jlast (KBar a) J = None /\ forall b k, jlast (KStor a b k) J = None
        | Some c => c_data c = jacc J a /\ forall k, kv_find k (c_storage c) = jraw J a k
        end.

    Lemma get_changed_spec a chs J : P J chs ->
      let c := get_changed hk s a chs in
      c_addr c = a /\ c_data c = jacc J a /\ forall k, kv_find k (c_storage c) = jraw J a k.
    Proof.
      intros HP. unfold get_changed. specialize (HP a).
      destruct (Model.ch_find a chs) as [c|] eqn:F.
      - split; [eapply ch_find_addr; eauto|exact HP].
      - destruct HP as [A [B C]]. destruct (load_account hk (st_base s) a) as [acc m] eqn:Q. cbn.
        split; auto. split.
        + unfold jacc, base_acc. rewrite A, Q. reflexivity.
        + intros k. unfold jraw. rewrite C. reflexivity.
    Qed.

    Theorem replay_spec J : JO J -> P J (rp_chs J).
    Proof.
      induction 1 as [|J k v HJ IH Hok].
      - intros a. cbn. repeat split; auto.
      - unfold rp_chs in *. rewrite rp_snoc.
        destruct (rp J) as [[chs codes] cnt] eqn:Q. cbn [fst] in IH.
        pose proof Hok as [W O].
        destruct k as [a0|a0|a0 b0 k0|a0]; destruct v; cbn in W; try contradiction; cbn [replay1].
        + (* account *)
          destruct (get_changed_spec a0 chs J IH) as [Ca [Cd Cs]].
          set (c := get_changed hk s a0 chs) in *.
          cbn [fst]. intros a. rewrite ch_find_set. cbn [c_addr].
          destruct (a0 =? a) eqn:E.
          * apply N.eqb_eq in E; subst a. cbn [c_data c_storage]. split.
            -- unfold jacc. rewrite jlast_snoc, skey_eqb_refl. reflexivity.
            -- intros k. rewrite Cs. unfold jraw. rewrite (jbar_snoc J _ _ a0 Hok). rewrite jlast_snoc. reflexivity.
          * assert (N : a0 <> a) by (intros ->; rewrite N.eqb_refl in E; discriminate).
            specialize (IH a). destruct (Model.ch_find a chs) as [c'|].
            -- destruct IH as [D S]. split.
               ++ rewrite D. unfold jacc. rewrite jlast_snoc. cbn [skey_eqb]. rewrite (N.eqb_sym a a0), E. reflexivity.
               ++ intros k. rewrite S. unfold jraw. rewrite (jbar_snoc J _ _ a Hok). rewrite jlast_snoc. reflexivity.
            -- destruct IH as [A [B C]]. rewrite !jlast_snoc. cbn [skey_eqb]. rewrite (N.eqb_sym a a0), E.
               repeat split; auto. intros b k. rewrite jlast_snoc. cbn. auto.
        + (* code: no record touched *)
          cbn [fst]. intros a. specialize (IH a).
          assert (Eq : forall k', match k' with KCode _ => True | _ => jlast k' (J ++ [(KCode a0, VCode code hash)]) = jlast k' J end).
          { intros k'. destruct k'; auto; rewrite jlast_snoc; reflexivity. }
          assert (Eb : forall x, jbar (J ++ [(KCode a0, VCode code hash)]) x = jbar J x) by (intros; apply (jbar_snoc J _ _ x Hok)).
          destruct code; cbn [fst]; destruct (Model.ch_find a chs) as [c'|].
          all: try (destruct IH as [D S]; split; [rewrite D; unfold jacc; rewrite (Eq (KAcc a)); reflexivity|
                     intros k; rewrite S; unfold jraw; rewrite Eb; rewrite (Eq (KStor a _ k)); reflexivity]).
          all: destruct IH as [A [B C]]; rewrite (Eq (KAcc a)), (Eq (KBar a)); repeat split; auto; intros b k; rewrite (Eq (KStor a b k)); auto.
        + (* storage at the current barrier *)
          cbn in O. subst b0.
          destruct (get_changed_spec a0 chs J IH) as [Ca [Cd Cs]].
          set (c := get_changed hk s a0 chs) in *.
          set (st := match c_storage c with Some m => Model.kv_set k0 raw m | None => [(k0, raw)] end).
          assert (St : forall k, kv_find k (Some st) = if k =? k0 then Some raw else kv_find k (c_storage c)).
          { intros k. unfold st. destruct (c_storage c) as [m|]; [apply kv_find_set|]. cbn. destruct (k =? k0); auto. }
          assert (Goal' : forall meta',
                   P (J ++ [(KStor a0 (jbar J a0) k0, VRaw raw)]) (Model.ch_set (mkCh a0 (c_data c) meta' (Some st)) chs)).
          { intros meta' a. rewrite ch_find_set. cbn [c_addr].
            destruct (a0 =? a) eqn:E.
            - apply N.eqb_eq in E; subst a. cbn [c_data c_storage]. split.
              + rewrite Cd. unfold jacc. rewrite jlast_snoc. reflexivity.
              + intros k. rewrite St. unfold jraw. rewrite (jbar_snoc J _ _ a0 Hok). rewrite jlast_snoc. cbn [skey_eqb].
                rewrite !N.eqb_refl. cbn [andb]. destruct (k =? k0); auto. apply Cs.
            - assert (N : a0 <> a) by (intros ->; rewrite N.eqb_refl in E; discriminate).
              specialize (IH a). destruct (Model.ch_find a chs) as [c'|].
              + destruct IH as [D S]. split.
                * rewrite D. unfold jacc. rewrite jlast_snoc. reflexivity.
                * intros k. rewrite S. unfold jraw. rewrite (jbar_snoc J _ _ a Hok). rewrite jlast_snoc. cbn [skey_eqb].
                  rewrite (N.eqb_sym a a0), E. reflexivity.
              + destruct IH as [A [B C]]. rewrite !jlast_snoc. cbn [skey_eqb].
                repeat split; auto. intros b k. rewrite jlast_snoc. cbn [skey_eqb]. rewrite (N.eqb_sym a a0), E. cbn. auto. }
          fold c. fold st. destruct (m_sid (c_meta c)); cbn [fst]; apply Goal'.
        + (* barrier *)
          cbn in O. subst b.
          destruct (get_changed_spec a0 chs J IH) as [Ca [Cd Cs]].
          set (c := get_changed hk s a0 chs) in *.
          cbn [fst]. intros a. rewrite ch_find_set. cbn [c_addr].
          destruct (a0 =? a) eqn:E.
          * apply N.eqb_eq in E; subst a. cbn [c_data c_storage]. split.
            -- rewrite Cd. unfold jacc. rewrite jlast_snoc. reflexivity.
            -- intros k. cbn [kv_find]. unfold jraw. rewrite (jbar_snoc J _ _ a0 Hok), N.eqb_refl.
               rewrite jlast_snoc. cbn [skey_eqb]. rewrite (JO_no_future J HJ a0 (jbar J a0 + 1) k) by lia. reflexivity.
          * assert (N : a0 <> a) by (intros ->; rewrite N.eqb_refl in E; discriminate).
            specialize (IH a). destruct (Model.ch_find a chs) as [c'|].
            -- destruct IH as [D S]. split.
               ++ rewrite D. unfold jacc. rewrite jlast_snoc. reflexivity.
               ++ intros k. rewrite S. unfold jraw. rewrite (jbar_snoc J _ _ a Hok), E. rewrite jlast_snoc. reflexivity.
            -- destruct IH as [A [B C]]. rewrite !jlast_snoc. cbn [skey_eqb]. rewrite (N.eqb_sym a a0), E.
               repeat split; auto. intros b k. rewrite jlast_snoc. cbn. auto.
    Qed.
  End WithState.
End RP.
