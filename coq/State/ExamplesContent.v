(* State/ExamplesContent.v — a concrete instance of the premises of state_root_depends_only_on_content: the same two accounts
   and storage slots written in two different orders on the empty state, with unary secure keys. *)
From Coq Require Import List Arith Bool Lia NArith.
From Verif Require Import Trie.Model Trie.Keys Trie.ProofsWf Trie.Theorems State.StackedMap State.Model State.ProofsState State.ProofsStage State.ProofsJournal State.ProofsReplay State.ProofsCommit.
Import ListNotations.

Definition xhk (a : N) : list nat := terminate (repeat 1%nat (N.to_nat a)).
Definition xhs (k : N) : list nat := terminate (repeat 2%nat (N.to_nat k)).
Definition xtrim (k : N) : bytes := [k].
Definition xops1 := [OBal 1%N 5%N; OBal 3%N 7%N; ORaw 1%N 2%N [5%N]; ORaw 3%N 4%N [6%N]].
Definition xops2 := [OBal 3%N 7%N; ORaw 3%N 4%N [6%N]; OBal 1%N 5%N; ORaw 1%N 2%N [5%N]].
Definition xst1 := run_state xhk xhs xops1 (open Nil []).
Definition xst2 := run_state xhk xhs xops2 (open Nil []).

Lemma xhk_valid : forall a, vkey (xhk a).
Proof. intros a. apply vkey_terminate. unfold nibs. induction (N.to_nat a); cbn; constructor; auto; lia. Qed.
Lemma xhk_inj : forall a b, xhk a = xhk b -> a = b.
Proof. intros a b E. unfold xhk, terminate in E. apply app_inv_tail in E.
  apply (f_equal (@length nat)) in E. rewrite !repeat_length in E. apply N2Nat.inj; auto. Qed.
Lemma xhs_valid : forall a, vkey (xhs a).
Proof. intros a. apply vkey_terminate. unfold nibs. induction (N.to_nat a); cbn; constructor; auto; lia. Qed.
Lemma xhs_inj : forall a b, xhs a = xhs b -> a = b.
Proof. intros a b E. unfold xhs, terminate in E. apply app_inv_tail in E.
  apply (f_equal (@length nat)) in E. rewrite !repeat_length in E. apply N2Nat.inj; auto. Qed.


Ltac casepos p n :=
  match n with
  | O => idtac
  | S ?m => let q := fresh "q" in destruct p as [q|q|]; [casepos q m|casepos q m|]
  end.
Ltac case3 k := let q := fresh "q" in destruct k as [|q]; [|casepos q 3%nat].

Example state_content_premise : forall a,
  same_fields (get_account xhk xhs xst1 a) (get_account xhk xhs xst2 a) /\
  (forall k, get_raw_storage xhk xhs xst1 a k = get_raw_storage xhk xhs xst2 a k) /\
  (a_sroot (get_account xhk xhs (commit_reopen xhk xhs xtrim xst1 1%N 0%N) a) = None <->
   a_sroot (get_account xhk xhs (commit_reopen xhk xhs xtrim xst2 1%N 0%N) a) = None).
Proof.
  assert (O1 : Forall state_op xops1) by (repeat constructor).
  assert (O2 : Forall state_op xops2) by (repeat constructor).
  intros a.
  assert (Other : (a <> 1 -> a <> 3 ->
            a_sroot (get_account xhk xhs (commit_reopen xhk xhs xtrim xst1 1%N 0%N) a) = None /\
            a_sroot (get_account xhk xhs (commit_reopen xhk xhs xtrim xst2 1%N 0%N) a) = None)%N).
  { intros H1 H3.
    assert (E1 : is_empty (get_account xhk xhs xst1 a) = true) by (case3 a; try (vm_compute; reflexivity); congruence).
    assert (E2 : is_empty (get_account xhk xhs xst2 a) = true) by (case3 a; try (vm_compute; reflexivity); congruence).
    destruct (reachable_invs xhk xhs Nil [] xops1 O1) as [A1 [B1 [C1 D1]]].
    destruct (reopen_reads_back_lemma xhk xhs xtrim xhk_valid xhk_inj xhs_valid xhs_inj _ 1%N 0%N A1 B1 C1 ltac:(rewrite D1; apply base_ok_nil) a) as [R1 _].
    destruct (reachable_invs xhk xhs Nil [] xops2 O2) as [A2 [B2 [C2 D2]]].
    destruct (reopen_reads_back_lemma xhk xhs xtrim xhk_valid xhk_inj xhs_valid xhs_inj _ 1%N 0%N A2 B2 C2 ltac:(rewrite D2; apply base_ok_nil) a) as [R2 _].
    destruct (R1 E1) as [Y1 _]. destruct (R2 E2) as [Y2 _].
    unfold xst1, xst2, xops1, xops2 in *. rewrite Y1, Y2. split; reflexivity. }
  split; [|split].
  - case3 a; vm_compute; repeat split; reflexivity.
  - intros k. case3 a; case3 k; vm_compute; reflexivity.
  - destruct (N.eq_dec a 1) as [->|N1]; [vm_compute; split; discriminate|].
    destruct (N.eq_dec a 3) as [->|N3]; [vm_compute; split; discriminate|].
    destruct (Other N1 N3) as [X1 X2]. rewrite X1, X2. tauto.
Qed.
