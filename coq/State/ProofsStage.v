(* State/ProofsStage.v — the staged accounts trie is well formed, hence the canonical trie of its content;
   a state re-opened on it reads the staged leaves. *)
From Coq Require Import List NArith Bool Arith Lia.
From Verif Require Import Trie.Model Trie.Keys Trie.ProofsWf Trie.Theorems State.StackedMap State.Model.
Import ListNotations.

Section STG.
  Variable hk hs : N -> list nat.
  Variable trimkey : N -> bytes.
  Hypothesis hk_valid : forall a, vkey (hk a).

  Lemma never_sound {A} (a b : A) : never a b = true -> a = b.
  Proof. discriminate. Qed.

  Lemma stage_account_wf major minor t c : wfc aleaf t -> wfc aleaf (stage_account hk hs trimkey major minor t c).
  Proof.
    intros H. unfold stage_account.
    destruct (if negb (is_empty (c_data c)) then _ else _) as [data meta].
    destruct (is_empty data); apply update_wf_root; auto.
  Qed.

  Lemma fold_stage_wf major minor chs : forall t, wfc aleaf t ->
    wfc aleaf (fold_left (stage_account hk hs trimkey major minor) chs t).
  Proof. induction chs; cbn; intros; auto. apply IHchs. apply stage_account_wf; auto. Qed.

  Theorem stage_wf s major minor : wfc aleaf (st_base s) -> wfc aleaf (stage hk hs trimkey s major minor).
  Proof. intros H. unfold stage. apply fold_stage_wf; auto. Qed.

  Theorem stage_canonical s major minor t :
    wfc aleaf (st_base s) -> wfc aleaf t ->
    (forall k, vkey k -> trie_get aleaf t k = trie_get aleaf (stage hk hs trimkey s major minor) k) ->
    t = stage hk hs trimkey s major minor.
  Proof. intros Hb Ht Heq. apply canonical_get; auto. apply stage_wf; auto. Qed.

  Theorem reopen_reads s major minor a :
    get_account hk hs (commit_reopen hk hs trimkey s major minor) a =
    match trie_get aleaf (stage hk hs trimkey s major minor) (hk a) with
    | Some (acc, _) => acc
    | None => empty_account
    end.
  Proof.
    unfold get_account, sget, commit_reopen, open, sm_get, sm_new. cbn -[trie_get stage].
    unfold load_account. destruct (trie_get aleaf _ (hk a)) as [[acc [m|]]|]; reflexivity.
  Qed.
End STG.
