(* State/ProofsState.v — state_refines_map: every getter of state.State after any history of setters, Delete
   (with its storage barrier), checkpoints and reverts equals the plain record map with the same operations. *)
From Coq Require Import List NArith Bool Arith Lia.
From Verif Require Import Trie.Model State.StackedMap State.ProofsSM State.Model.
Import ListNotations.
Open Scope N_scope.

Lemma skey_eqb_spec a b : skey_eqb a b = true <-> a = b.
Proof.
  destruct a, b; cbn; try (split; intros E; discriminate).
  - rewrite N.eqb_eq. split; intros E; [subst|inversion E]; auto.
  - rewrite N.eqb_eq. split; intros E; [subst|inversion E]; auto.
  - rewrite !andb_true_iff, !N.eqb_eq. split; [intros [[-> ->] ->]; auto|intros E; inversion E; auto].
  - rewrite N.eqb_eq. split; intros E; [subst|inversion E]; auto.
Qed.

Lemma skey_eqb_refl k : skey_eqb k k = true.
Proof. apply skey_eqb_spec; auto. Qed.
Lemma skey_eqb_neq a b : a <> b -> skey_eqb a b = false.
Proof. intros N. destruct (skey_eqb a b) eqn:E; auto. apply skey_eqb_spec in E. congruence. Qed.

(* ---------------------------------------------------------------- the abstract record map *)
Record astate := mkA { x_acc : N -> account; x_code : N -> bytes; x_stor : N -> N -> bytes }.

Definition aeq (x y : astate) : Prop :=
  forall a, x_acc x a = x_acc y a /\ x_code x a = x_code y a /\ forall k, x_stor x a k = x_stor y a k.

Lemma aeq_refl x : aeq x x.
Proof. intros a; auto. Qed.
Lemma aeq_trans x y z : aeq x y -> aeq y z -> aeq x z.
Proof. intros H1 H2 a. destruct (H1 a) as [A [B C]], (H2 a) as [A' [B' C']]. split; [congruence|split; [congruence|intros k; rewrite C; auto]]. Qed.
Lemma aeq_sym x y : aeq x y -> aeq y x.
Proof. intros H a. destruct (H a) as [A [B C]]. repeat split; auto. Qed.

Definition updf {A} (f : N -> A) (a : N) (v : A) : N -> A := fun a' => if a' =? a then v else f a'.

Definition with_bal (x : account) v := mkAcc v (a_eng x) (a_bt x) (a_master x) (a_codehash x) (a_sroot x).
Definition with_eng (x : account) v bt := mkAcc (a_bal x) v bt (a_master x) (a_codehash x) (a_sroot x).
Definition with_master (x : account) m := mkAcc (a_bal x) (a_eng x) (a_bt x) m (a_codehash x) (a_sroot x).
Definition with_codehash (x : account) h := mkAcc (a_bal x) (a_eng x) (a_bt x) (a_master x) h (a_sroot x).

(* the plain-map meaning of every operation of state.State *)
Definition a_op (o : op) (x : astate) : astate :=
  match o with
  | OBal a v => mkA (updf (x_acc x) a (with_bal (x_acc x a) v)) (x_code x) (x_stor x)
  | OEng a v bt => mkA (updf (x_acc x) a (with_eng (x_acc x a) v bt)) (x_code x) (x_stor x)
  | OMas a m => mkA (updf (x_acc x) a (with_master (x_acc x a) m)) (x_code x) (x_stor x)
  | OCode a c h =>
    let h' := match c with [] => [] | _ => h end in
    mkA (updf (x_acc x) a (with_codehash (x_acc x a) h')) (updf (x_code x) a c) (x_stor x)
  | OSto a k t =>
    let raw := match t with [] => [] | _ => rlp_word t end in
    mkA (x_acc x) (x_code x) (updf (x_stor x) a (updf (x_stor x a) k raw))
  | ORaw a k r => mkA (x_acc x) (x_code x) (updf (x_stor x) a (updf (x_stor x a) k r))
  | ODel a => mkA (updf (x_acc x) a empty_account) (updf (x_code x) a []) (updf (x_stor x) a (fun _ => []))
  | _ => x
  end.

Definition dflt : astate := mkA (fun _ => empty_account) (fun _ => []) (fun _ _ => []).

Definition upd_last_a (f : astate -> astate) (l : list astate) : list astate :=
  match l with [] => [] | _ => removelast l ++ [f (last l dflt)] end.

(* a world of snapshots, bottom first: setters act on the top, NewCheckpoint copies it, RevertTo(n) keeps the first n *)
Definition a_step (l : list astate) (o : op) : list astate :=
  match o with
  | OCp => l ++ [last l dflt]
  | ORev n => firstn n l
  | OCommit _ _ _ | OOpen _ => l
  | _ => upd_last_a (a_op o) l
  end.

Definition state_op (o : op) : Prop :=
  match o with OCommit _ _ _ | OOpen _ => False | ORev n => (1 <= n)%nat | _ => True end.

Lemma nth_firstn_lt {A} (l : list A) d : forall n i, (i < n)%nat -> nth i (firstn n l) d = nth i l d.
Proof.
  induction l; intros n i H; [destruct n; destruct i; reflexivity|].
  destruct n; [lia|]. destruct i; cbn; auto. apply IHl. lia.
Qed.

Section PS.
  Variable hk hs : N -> list nat.
  Variable trimkey : N -> bytes.

  Notation level := (level skey sval).
  Notation new_level := (new_level skey sval).
  Notation aget := (aget skey sval skey_eqb).
  Notation afind := (afind skey sval skey_eqb).
  Notation inv := (inv skey sval skey_eqb).
  Notation src := (src hk hs).
  Notation sget := (sget hk hs).

  Definition putf (k : skey) (v : sval) (top : level) : level :=
    mkLevel (assoc_set skey skey_eqb k v (kvs top)) (journal top ++ [(k, v)]).

  (* ---- one Put on a plain stack ---- *)
  Lemma upd_last_split (f : level -> level) (L : list level) : L <> [] ->
    upd_last skey sval f L = removelast L ++ [f (last L new_level)].
  Proof. destruct L; [congruence|reflexivity]. Qed.

  Lemma afind_put L k v k' : L <> [] ->
    afind k' (rev (upd_last skey sval (putf k v) L)) =
    if skey_eqb k k' then Some v else afind k' (rev L).
  Proof.
    intros N. rewrite upd_last_split by auto.
    rewrite (stack_split skey sval L N) at 3.
    rewrite !rev_unit. cbn [ProofsSM.afind putf kvs].
    destruct (skey_eqb k k') eqn:E.
    - apply skey_eqb_spec in E; subst. rewrite (assoc_set_same skey skey_eqb skey_eqb_spec). reflexivity.
    - rewrite (assoc_set_other skey skey_eqb skey_eqb_spec); auto.
      intros ->. rewrite skey_eqb_refl in E; discriminate.
  Qed.

  Lemma aget_put g L k v k' : L <> [] ->
    aget g (upd_last skey sval (putf k v) L) k' = if skey_eqb k k' then v else aget g L k'.
  Proof.
    intros N. unfold aget, ProofsSM.aget. rewrite afind_put by auto. destruct (skey_eqb k k'); auto.
  Qed.

  Lemma aget_push g L k : aget g (L ++ [new_level]) k = aget g L k.
  Proof. unfold aget, ProofsSM.aget. rewrite rev_unit. reflexivity. Qed.

  Lemma afind_push L k : afind k (rev (L ++ [new_level])) = afind k (rev L).
  Proof. rewrite rev_unit. reflexivity. Qed.

  (* ---- views of a plain stack ---- *)
  Definition vacc g (L : list level) a := match aget g L (KAcc a) with VAcc x => x | _ => empty_account end.
  Definition vbar g (L : list level) a := match aget g L (KBar a) with VBar b => b | _ => 0 end.
  Definition vcode g (L : list level) a : bytes := match aget g L (KCode a) with VCode c _ => c | _ => [] end.
  Definition vstor g (L : list level) a k : bytes :=
    match aget g L (KStor a (vbar g L a) k) with VRaw r => r | _ => [] end.
  Definition view g L : astate := mkA (vacc g L) (vcode g L) (vstor g L).

  (* the getters are the view of the stack *)
  Lemma getters_view s : inv (st_sm s) ->
    forall a, get_account hk hs s a = vacc (src s) (stack (st_sm s)) a /\
              get_code hk hs s a = vcode (src s) (stack (st_sm s)) a /\
              get_barrier hk hs s a = vbar (src s) (stack (st_sm s)) a /\
              forall k, get_raw_storage hk hs s a k = vstor (src s) (stack (st_sm s)) a k.
  Proof.
    intros I a.
    assert (G : forall k, Model.sget hk hs s k = aget (src s) (stack (st_sm s)) k).
    { intros k. unfold Model.sget. apply (get_refines skey sval skey_eqb (src s) (st_sm s) k I). }
    unfold get_account, get_code, get_barrier, get_raw_storage, vacc, vcode, vbar, vstor.
    split; [rewrite G; auto|]. split; [rewrite G; auto|]. split; [rewrite G; auto|]. intros k. rewrite !G. unfold get_barrier. rewrite G. reflexivity.
  Qed.

  (* ---- the barrier invariant: no storage entry above the current barrier, in every prefix of the stack ---- *)
  Definition BI g (L : list level) : Prop :=
    forall a b k, vbar g L a < b -> afind (KStor a b k) (rev L) = None.
  Definition BIall g (L : list level) : Prop := forall n, (1 <= n)%nat -> BI g (firstn n L).

  Lemma firstn_upd_last_lt (f : level -> level) L n : (n < length L)%nat ->
    firstn n (upd_last skey sval f L) = firstn n L.
  Proof.
    intros H. assert (N : L <> []) by (destruct L; [cbn in H; lia|discriminate]).
    rewrite upd_last_split by auto.
    pose proof (length_removelast' skey sval L N) as Lr.
    rewrite firstn_app. replace (n - length (removelast L))%nat with 0%nat by lia. cbn. rewrite app_nil_r.
    rewrite (stack_split skey sval L N) at 2. rewrite firstn_app.
    replace (n - length (removelast L))%nat with 0%nat by lia. cbn. rewrite app_nil_r. reflexivity.
  Qed.

  Lemma length_upd_last (f : level -> level) L : length (upd_last skey sval f L) = length L.
  Proof.
    destruct L as [|x L]; auto. rewrite upd_last_split by discriminate.
    rewrite app_length. cbn [length]. pose proof (length_removelast' skey sval (x :: L) ltac:(discriminate)). cbn [length] in *. lia.
  Qed.

  Definition put_ok g L (k : skey) (v : sval) : Prop :=
    match k, v with
    | KStor a b _, _ => b = vbar g L a
    | KBar a, VBar b => b = vbar g L a + 1
    | KBar _, _ => False
    | _, _ => True
    end.

  Lemma vbar_put g L k v a : L <> [] ->
    vbar g (upd_last skey sval (putf k v) L) a =
    match k, v with
    | KBar a', VBar b => if a' =? a then b else vbar g L a
    | KBar a', _ => if a' =? a then 0 else vbar g L a
    | _, _ => vbar g L a
    end.
  Proof.
    intros N. unfold vbar. rewrite aget_put by auto.
    destruct k; cbn [skey_eqb]; auto.
    destruct (a0 =? a); auto. destruct v; auto.
  Qed.

  Lemma BIall_put g L k v : L <> [] -> BIall g L -> put_ok g L k v ->
    BIall g (upd_last skey sval (putf k v) L).
  Proof.
    intros N H Ok n Hn.
    destruct (Nat.lt_ge_cases n (length L)) as [Lt|Ge].
    - rewrite firstn_upd_last_lt by auto. apply H; auto.
    - rewrite firstn_all2 by (rewrite length_upd_last; auto).
      pose proof (H n Hn) as B. rewrite firstn_all2 in B by auto.
      intros a b k0 Hb. rewrite afind_put by auto. rewrite vbar_put in Hb by auto.
      destruct k as [a1|a1|a1 b1 k1|a1]; cbn [skey_eqb]; cbn beta iota in Hb.
      + apply B; exact Hb.
      + apply B; exact Hb.
      + (* storage write at the current barrier *)
        cbn in Ok. subst b1.
        destruct ((a1 =? a) && (vbar g L a1 =? b) && (k1 =? k0)) eqn:E; [|apply B; auto].
        apply andb_true_iff in E. destruct E as [E _]. apply andb_true_iff in E. destruct E as [E1 E2].
        apply N.eqb_eq in E1, E2. subst. lia.
      + (* barrier bump *)
        destruct v; cbn in Ok; try contradiction. subst b0.
        apply B. destruct (a1 =? a) eqn:E; [apply N.eqb_eq in E; subst; lia|auto].
  Qed.

  Lemma BIall_push g L : L <> [] -> BIall g L -> BIall g (L ++ [new_level]).
  Proof.
    intros N H n Hn.
    destruct (Nat.le_gt_cases n (length L)) as [Le|Gt].
    - rewrite firstn_app. replace (n - length L)%nat with 0%nat by lia. cbn. rewrite app_nil_r. apply H; auto.
    - rewrite firstn_all2 by (rewrite app_length; cbn; lia).
      pose proof (H (length L) ltac:(destruct L; [congruence|cbn; lia])) as B. rewrite firstn_all in B.
      intros a b k Hb. rewrite afind_push. apply B. unfold vbar in *. rewrite aget_push in Hb. auto.
  Qed.

  Lemma BIall_firstn g L d : BIall g L -> BIall g (firstn d L).
  Proof.
    intros H n Hn. rewrite firstn_firstn. destruct (Nat.min n d) eqn:E.
    - intros a b k _. reflexivity.
    - apply H. lia.
  Qed.

  Lemma BIall_new g : BIall g [new_level].
  Proof. intros n Hn a b k _. destruct n; [lia|]. cbn. destruct n; reflexivity. Qed.

  (* ---- the state invariant ---- *)
  Definition SI (s : state) : Prop := inv (st_sm s) /\ BIall (src s) (stack (st_sm s)).

  Lemma SI_open base codes : SI (open base codes).
  Proof. split; [apply inv_new|apply BIall_new]. Qed.

  Lemma stack_nonempty s : inv (st_sm s) -> stack (st_sm s) <> [].
  Proof. intros [N _]; auto. Qed.

  Lemma SI_sput s k v : SI s -> put_ok (src s) (stack (st_sm s)) k v ->
    SI (sput s k v) /\ stack (st_sm (sput s k v)) = upd_last skey sval (putf k v) (stack (st_sm s)).
  Proof.
    intros [I B] Ok. split; [split|]; cbn.
    - apply inv_put; auto. apply skey_eqb_spec.
    - apply BIall_put; auto. apply stack_nonempty; auto.
    - reflexivity.
  Qed.

  (* the concrete step on a state (the world's step on its current state) *)
  Definition sstep (s : state) (o : op) : state :=
    match o with
    | OBal a v => set_balance hk hs s a v
    | OEng a v bt => set_energy hk hs s a v bt
    | OMas a m => set_master hk hs s a m
    | OCode a c h => set_code hk hs s a c h
    | OSto a k t => set_storage hk hs s a k t
    | ORaw a k r => set_raw_storage hk hs s a k r
    | ODel a => delete_account hk hs s a
    | OCp => fst (new_checkpoint s)
    | ORev n => revert_to s n
    | _ => s
    end.

  Lemma step_is_sstep w o : state_op o -> w_cur (step hk hs trimkey w o) = sstep (w_cur w) o.
  Proof. destruct o; cbn; intros H; try contradiction; reflexivity. Qed.

  (* ---- one setter: invariant kept, lower prefixes untouched, top view updated as the plain map says ---- *)
  Definition is_setter (o : op) : Prop :=
    match o with OCp | ORev _ | OCommit _ _ _ | OOpen _ => False | _ => True end.

  Lemma view_acc_put g L a x : L <> [] ->
    aeq (view g (upd_last skey sval (putf (KAcc a) (VAcc x)) L))
        (mkA (updf (vacc g L) a x) (vcode g L) (vstor g L)).
  Proof.
    intros N a'. cbn [x_acc x_code x_stor view]. unfold vacc, vcode, vstor, updf.
    rewrite vbar_put by auto. rewrite !aget_put by auto. cbn [skey_eqb].
    split; [|split; [|intros k']]; rewrite ?aget_put by auto; cbn [skey_eqb]; try reflexivity.
    rewrite (N.eqb_sym a' a). destruct (a =? a'); auto.
  Qed.

  Lemma view_code_put g L a c h : L <> [] ->
    aeq (view g (upd_last skey sval (putf (KCode a) (VCode c h)) L))
        (mkA (vacc g L) (updf (vcode g L) a c) (vstor g L)).
  Proof.
    intros N a'. cbn [x_acc x_code x_stor view]. unfold vacc, vcode, vstor, updf.
    rewrite vbar_put by auto. rewrite !aget_put by auto. cbn [skey_eqb].
    split; [|split; [|intros k']]; rewrite ?aget_put by auto; cbn [skey_eqb]; try reflexivity.
    rewrite (N.eqb_sym a' a). destruct (a =? a'); auto.
  Qed.

  Lemma view_stor_put g L a k r : L <> [] ->
    aeq (view g (upd_last skey sval (putf (KStor a (vbar g L a) k) (VRaw r)) L))
        (mkA (vacc g L) (vcode g L) (updf (vstor g L) a (updf (vstor g L a) k r))).
  Proof.
    intros N a'. cbn [x_acc x_code x_stor view]. unfold vacc, vcode, vstor, updf.
    rewrite vbar_put by auto. rewrite !aget_put by auto. cbn [skey_eqb].
    split; [|split; [|intros k']]; rewrite ?aget_put by auto; cbn [skey_eqb]; try reflexivity.
    rewrite (N.eqb_sym a' a).
    destruct (a =? a') eqn:Ea; cbn [andb]; auto.
    apply N.eqb_eq in Ea; subst a'. rewrite N.eqb_refl. cbn [andb].
    rewrite (N.eqb_sym k' k). destruct (k =? k'); auto.
  Qed.

  Lemma view_bar_put g L a : L <> [] -> BI g L ->
    (forall a b k, b <> 0 -> g (KStor a b k) = VRaw []) ->
    aeq (view g (upd_last skey sval (putf (KBar a) (VBar (vbar g L a + 1))) L))
        (mkA (vacc g L) (vcode g L) (updf (vstor g L) a (fun _ => []))).
  Proof.
    intros N B Hg a'. cbn [x_acc x_code x_stor view]. unfold vacc, vcode, vstor, updf.
    rewrite vbar_put by auto. rewrite !aget_put by auto. cbn [skey_eqb].
    split; [|split; [|intros k']]; rewrite ?aget_put by auto; cbn [skey_eqb]; try reflexivity.
    rewrite (N.eqb_sym a' a). destruct (a =? a') eqn:Ea; auto.
    apply N.eqb_eq in Ea; subst a'.
    (* the fresh barrier: nothing stored under it, and the source answers the empty value for a non-zero barrier *)
    unfold aget, ProofsSM.aget. rewrite B by (unfold vbar; lia).
    rewrite Hg by lia. reflexivity.
  Qed.

  Definition src_ok (g : skey -> sval) : Prop := forall a b k, b <> 0 -> g (KStor a b k) = VRaw [].
  Lemma src_is_ok s : src_ok (src s).
  Proof. intros a b k H. cbn. destruct (b =? 0) eqn:E; [apply N.eqb_eq in E; congruence|reflexivity]. Qed.

  (* what one operation does to the plain stack: lower prefixes untouched, same depth *)
  Definition keeps_below (L L' : list level) : Prop :=
    length L' = length L /\ forall n, (n < length L)%nat -> firstn n L' = firstn n L.

  Lemma keeps_below_put L k v : keeps_below L (upd_last skey sval (putf k v) L).
  Proof. split; [apply length_upd_last|intros; apply firstn_upd_last_lt; auto]. Qed.

  Lemma keeps_below_trans L1 L2 L3 : keeps_below L1 L2 -> keeps_below L2 L3 -> keeps_below L1 L3.
  Proof. intros [A B] [C D]. split; [congruence|]. intros n H. rewrite D by lia. apply B; auto. Qed.

  (* a setter that is a single Put *)
  Lemma single_put_sim s k v (f : astate -> astate) :
    SI s -> put_ok (src s) (stack (st_sm s)) k v ->
    aeq (view (src s) (upd_last skey sval (putf k v) (stack (st_sm s)))) (f (view (src s) (stack (st_sm s)))) ->
    SI (sput s k v) /\ keeps_below (stack (st_sm s)) (stack (st_sm (sput s k v))) /\
    aeq (view (src s) (stack (st_sm (sput s k v)))) (f (view (src s) (stack (st_sm s)))).
  Proof.
    intros Hs Ok Hv. destruct (SI_sput s k v Hs Ok) as [Hs' E].
    split; auto. rewrite E. split; auto. apply keeps_below_put.
  Qed.

  Lemma set_code_eq s a code hash :
    set_code hk hs s a code hash =
    let h' := match code with [] => [] | _ => hash end in
    let s1 := sput s (KCode a) (VCode code h') in
    sput s1 (KAcc a) (VAcc (with_codehash (get_account hk hs s1 a) h')).
  Proof. reflexivity. Qed.

  Lemma setter_sim s o : SI s -> is_setter o ->
    SI (sstep s o) /\ keeps_below (stack (st_sm s)) (stack (st_sm (sstep s o))) /\
    aeq (view (src s) (stack (st_sm (sstep s o)))) (a_op o (view (src s) (stack (st_sm s)))).
  Proof.
    intros Hs Ho.
    pose proof (stack_nonempty s (proj1 Hs)) as N0.
    pose proof (getters_view s (proj1 Hs)) as G.
    set (g := src s) in *. set (L := stack (st_sm s)) in *.
    destruct o; cbn [is_setter] in Ho; try contradiction; cbn [sstep a_op].
    - (* SetBalance *)
      unfold set_balance, upd_account. destruct (G a) as [Ga _]. rewrite Ga.
      apply (single_put_sim s (KAcc a) _ (fun x => mkA (updf (x_acc x) a (with_bal (x_acc x a) v)) (x_code x) (x_stor x))); cbn; auto.
      apply view_acc_put; auto.
    - (* SetEnergy *)
      unfold set_energy, upd_account. destruct (G a) as [Ga _]. rewrite Ga.
      apply (single_put_sim s (KAcc a) _ (fun x => mkA (updf (x_acc x) a (with_eng (x_acc x a) v bt)) (x_code x) (x_stor x))); cbn; auto.
      apply view_acc_put; auto.
    - (* SetMaster *)
      unfold set_master, upd_account. destruct (G a) as [Ga _]. rewrite Ga.
      apply (single_put_sim s (KAcc a) _ (fun x => mkA (updf (x_acc x) a (with_master (x_acc x a) m)) (x_code x) (x_stor x))); cbn; auto.
      apply view_acc_put; auto.
    - (* SetCode: code key, then the account *)
      rewrite set_code_eq. cbv zeta.
      set (h' := match code with [] => [] | _ => hash end).
      set (s1 := sput s (KCode a) (VCode code h')).
      destruct (SI_sput s (KCode a) (VCode code h') Hs I) as [Hs1 E1]. fold s1 in Hs1, E1.
      pose proof (getters_view s1 (proj1 Hs1)) as G1. destruct (G1 a) as [Ga1 _]. rewrite Ga1.
      destruct (SI_sput s1 (KAcc a) (VAcc (with_codehash (vacc (src s1) (stack (st_sm s1)) a) h')) Hs1 I) as [Hs2 E2].
      split; [exact Hs2|]. rewrite E2, E1. fold L.
      set (L1 := upd_last skey sval (putf (KCode a) (VCode code h')) L) in *.
      assert (N1 : L1 <> []) by (intros Q; apply (f_equal (@length level)) in Q; unfold L1 in Q; rewrite length_upd_last in Q; destruct L; [congruence|discriminate]).
      split; [eapply keeps_below_trans; [apply keeps_below_put|apply keeps_below_put]|].
      change (src s1) with g.
      intros a'. destruct (view_acc_put g L1 a (with_codehash (vacc g L1 a) h') N1 a') as [A1 [A2 A3]].
      destruct (view_code_put g L a code h' N0 a') as [B1 [B2 B3]].
      destruct (view_code_put g L a code h' N0 a) as [C1 _].
      cbn [x_acc x_code x_stor view] in *. fold L1 in B1, B2, B3, C1.
      split; [|split; [|intros k]].
      + rewrite A1. unfold updf. rewrite C1. destruct (a' =? a); auto.
      + rewrite A2, B2. reflexivity.
      + rewrite A3, B3. reflexivity.
    - (* SetStorage *)
      unfold set_storage.
      assert (Q : forall raw, let s' := set_raw_storage hk hs s a k raw in
                SI s' /\ keeps_below L (stack (st_sm s')) /\
                aeq (view g (stack (st_sm s'))) (mkA (vacc g L) (vcode g L) (updf (vstor g L) a (updf (vstor g L a) k raw)))).
      { intros raw. unfold set_raw_storage. destruct (G a) as [_ [_ [Gb _]]]. rewrite Gb.
        apply (single_put_sim s (KStor a (vbar g L a) k) (VRaw raw)
                 (fun x => mkA (x_acc x) (x_code x) (updf (x_stor x) a (updf (x_stor x a) k raw)))); cbn; auto.
        apply view_stor_put; auto. }
      destruct trimmed; apply Q.
    - (* SetRawStorage *)
      unfold set_raw_storage. destruct (G a) as [_ [_ [Gb _]]]. rewrite Gb.
      apply (single_put_sim s (KStor a (vbar g L a) k) (VRaw raw)
               (fun x => mkA (x_acc x) (x_code x) (updf (x_stor x) a (updf (x_stor x a) k raw)))); cbn; auto.
      apply view_stor_put; auto.
    - (* Delete: code nil, empty account, barrier + 1 *)
      unfold delete_account.
      set (s1 := sput s (KCode a) (VCode [] [])).
      destruct (SI_sput s (KCode a) (VCode [] []) Hs I) as [Hs1 E1]. fold s1 in Hs1, E1.
      set (s2 := sput s1 (KAcc a) (VAcc empty_account)).
      destruct (SI_sput s1 (KAcc a) (VAcc empty_account) Hs1 I) as [Hs2 E2]. fold s2 in Hs2, E2.
      pose proof (getters_view s2 (proj1 Hs2)) as G2. destruct (G2 a) as [_ [_ [Gb2 _]]]. rewrite Gb2.
      change (src s2) with g in *. change (src s1) with g in *.
      set (L1 := upd_last skey sval (putf (KCode a) (VCode [] [])) L) in *.
      set (L2 := upd_last skey sval (putf (KAcc a) (VAcc empty_account)) L1) in *.
      rewrite E1 in E2. fold L in E2. fold L1 in E2. fold L2 in E2.
      assert (N1 : L1 <> []) by (intros Q; apply (f_equal (@length level)) in Q; unfold L1 in Q; rewrite length_upd_last in Q; destruct L; [congruence|discriminate]).
      assert (N2 : L2 <> []) by (intros Q; apply (f_equal (@length level)) in Q; unfold L2 in Q; rewrite length_upd_last in Q; destruct L1; [congruence|discriminate]).
      assert (Eb : vbar g (stack (st_sm s2)) a = vbar g L2 a) by (f_equal; exact E2). rewrite Eb. clear Eb.
      assert (Ok3 : put_ok (src s2) (stack (st_sm s2)) (KBar a) (VBar (vbar g L2 a + 1))) by (unfold put_ok; f_equal; f_equal; exact E2).
      destruct (SI_sput s2 (KBar a) (VBar (vbar g L2 a + 1)) Hs2 Ok3) as [Hs3 E3].
      split; [exact Hs3|]. rewrite E3, E2.
      split; [eapply keeps_below_trans; [apply keeps_below_put|eapply keeps_below_trans; apply keeps_below_put]|].
      assert (B2 : BI g L2).
      { destruct Hs2 as [_ B]. rewrite E2 in B. pose proof (B (length L2) ltac:(destruct L2; [congruence|cbn; lia])) as B'.
        rewrite firstn_all in B'. exact B'. }
      intros a'.
      destruct (view_bar_put g L2 a N2 B2 (src_is_ok s) a') as [A1 [A2 A3]].
      destruct (view_acc_put g L1 a empty_account N1 a') as [B1 [B2' B3]].
      destruct (view_code_put g L a [] [] N0 a') as [C1 [C2 C3]].
      cbn [x_acc x_code x_stor view] in *. fold L1 in C1, C2, C3. fold L2 in B1, B2', B3.
      split; [|split; [|intros k]].
      + rewrite A1, B1. unfold updf. rewrite C1. reflexivity.
      + rewrite A2, B2', C2. reflexivity.
      + rewrite A3. unfold updf. destruct (a' =? a); auto. rewrite B3, C3. reflexivity.
  Qed.

  (* ---- the whole history ---- *)
  Lemma base_sstep s o : st_base (sstep s o) = st_base s /\ st_codes (sstep s o) = st_codes s.
  Proof. destruct o; cbn; auto. destruct trimmed; cbn; auto. Qed.

  Lemma src_sstep s o : src (sstep s o) = src s.
  Proof. destruct (base_sstep s o) as [E1 E2]. unfold Model.src. rewrite E1, E2. reflexivity. Qed.

  Lemma a_op_congr o x y : aeq x y -> aeq (a_op o x) (a_op o y).
  Proof.
    intros H. destruct o; cbn [a_op]; auto; intros a'; destruct (H a') as [A [B C]]; cbn [x_acc x_code x_stor]; unfold updf.
    - destruct (H a) as [A0 _]. rewrite A0. split; [destruct (a' =? a); auto|auto].
    - destruct (H a) as [A0 _]. rewrite A0. split; [destruct (a' =? a); auto|auto].
    - destruct (H a) as [A0 _]. rewrite A0. split; [destruct (a' =? a); auto|auto].
    - destruct (H a) as [A0 _]. rewrite A0. split; [destruct (a' =? a); auto|split; [destruct (a' =? a); auto|auto]].
    - split; auto. split; auto. intros k'. destruct (H a) as [_ [_ C0]].
      destruct (a' =? a); auto. destruct (k' =? k); auto.
    - split; auto. split; auto. intros k'. destruct (H a) as [_ [_ C0]].
      destruct (a' =? a); auto. destruct (k' =? k); auto.
    - split; [destruct (a' =? a); auto|split; [destruct (a' =? a); auto|intros k'; destruct (a' =? a); auto]].
  Qed.

  Definition R g (L : list level) (A : list astate) : Prop :=
    length A = length L /\ forall i, (i < length L)%nat -> aeq (nth i A dflt) (view g (firstn (S i) L)).

  Lemma last_nth (A : list astate) : A <> [] -> last A dflt = nth (length A - 1) A dflt.
  Proof.
    induction A as [|x A IH]; [congruence|]. intros _. destruct A as [|y A]; [reflexivity|].
    change (last (x :: y :: A) dflt) with (last (y :: A) dflt). rewrite IH by discriminate.
    cbn [length]. replace (S (S (length A)) - 1)%nat with (S (length A)) by lia.
    replace (S (length A) - 1)%nat with (length A) by lia. reflexivity.
  Qed.

  Lemma removelast_length (A : list astate) : A <> [] -> S (length (removelast A)) = length A.
  Proof. intros H. rewrite (app_removelast_last dflt H) at 2. rewrite app_length. cbn. lia. Qed.

  Lemma nth_upd_last_a f (A : list astate) i : A <> [] ->
    nth i (upd_last_a f A) dflt =
    if (i =? length A - 1)%nat then f (nth i A dflt) else nth i A dflt.
  Proof.
    intros H. unfold upd_last_a. destruct A as [|x A'] eqn:Q; [congruence|]. rewrite <- Q in *.
    pose proof (removelast_length A H) as Lr.
    destruct (i =? length A - 1)%nat eqn:E.
    - apply Nat.eqb_eq in E. rewrite app_nth2 by lia. replace (i - length (removelast A))%nat with 0%nat by lia.
      cbn [nth]. rewrite last_nth by auto. subst i. reflexivity.
    - apply Nat.eqb_neq in E. destruct (Nat.lt_ge_cases i (length (removelast A))) as [Lt|Ge].
      + rewrite app_nth1 by auto. rewrite (app_removelast_last dflt H) at 2. rewrite app_nth1 by auto. reflexivity.
      + rewrite !nth_overflow; auto; try lia. rewrite app_length; cbn; lia.
  Qed.

  Lemma length_upd_last_a f (A : list astate) : length (upd_last_a f A) = length A.
  Proof.
    destruct A as [|x A'] eqn:Q; auto. rewrite <- Q. assert (H : A <> []) by (rewrite Q; discriminate).
    unfold upd_last_a. rewrite Q, <- Q. rewrite app_length. cbn. pose proof (removelast_length A H). lia.
  Qed.

  Lemma view_push g L : aeq (view g (L ++ [new_level])) (view g L).
  Proof.
    intros a. cbn [view x_acc x_code x_stor]. unfold vacc, vcode, vstor, vbar. rewrite !aget_push.
    repeat split; auto. intros k. rewrite aget_push. reflexivity.
  Qed.

  Lemma sim_step s A o : SI s -> R (src s) (stack (st_sm s)) A -> state_op o ->
    SI (sstep s o) /\ R (src s) (stack (st_sm (sstep s o))) (a_step A o).
  Proof.
    intros Hs [Len HR] Ho.
    pose proof (stack_nonempty s (proj1 Hs)) as N0.
    set (g := src s) in *. set (L := stack (st_sm s)) in *.
    assert (NA : A <> []) by (destruct A; [destruct L; [congruence|discriminate]|discriminate]).
    assert (setter_case : is_setter o ->
            SI (sstep s o) /\ R g (stack (st_sm (sstep s o))) (upd_last_a (a_op o) A)).
    { intros Hset. destruct (setter_sim s o Hs Hset) as [Hs' [[KL KB] HV]]. fold g L in KL, KB, HV.
      split; auto. split; [rewrite length_upd_last_a; congruence|].
      intros i Hi. rewrite KL in Hi. rewrite nth_upd_last_a by auto.
      destruct (i =? length A - 1)%nat eqn:E.
      - apply Nat.eqb_eq in E. rewrite firstn_all2 by lia.
        eapply aeq_trans; [apply a_op_congr; apply (HR i Hi)|].
        rewrite (firstn_all2 L) by lia. apply aeq_sym; auto.
      - apply Nat.eqb_neq in E. rewrite KB by lia. apply HR; auto. }
    destruct o; cbn [state_op] in Ho; try contradiction; try (apply setter_case; exact I).
    - (* NewCheckpoint *)
      cbn [sstep a_step]. destruct Hs as [Hi Hb]. split.
      + split; cbn.
        * apply (inv_push skey sval skey_eqb); auto.
        * apply BIall_push; auto.
      + cbn. fold L. split; [rewrite !app_length; cbn; lia|].
        intros i Hi'. rewrite app_length in Hi'. cbn in Hi'.
        destruct (Nat.lt_ge_cases i (length L)) as [Lt|Ge].
        * rewrite app_nth1 by lia. rewrite firstn_app. replace (S i - length L)%nat with 0%nat by lia.
          cbn. rewrite app_nil_r. apply HR; auto.
        * assert (i = length L) by lia. subst i.
          rewrite app_nth2 by lia. replace (length L - length A)%nat with 0%nat by lia. cbn [nth].
          rewrite firstn_all2 by (rewrite app_length; cbn; lia).
          eapply aeq_trans; [|apply aeq_sym; apply view_push].
          rewrite last_nth by auto.
          pose proof (HR (length A - 1)%nat ltac:(destruct L; [congruence|cbn in *; lia])) as Q.
          rewrite firstn_all2 in Q by lia. exact Q.
    - (* RevertTo *)
      cbn [sstep a_step]. destruct Hs as [Hi Hb].
      destruct (inv_pop_to skey sval skey_eqb skey_eqb_spec g n (st_sm s) Hi Ho) as [Hi2 E].
      split.
      + split; cbn; auto. rewrite E. apply BIall_firstn; auto.
      + cbn. rewrite E. fold L. split; [rewrite !firstn_length; lia|].
        intros i Hi3. rewrite firstn_length in Hi3.
        rewrite nth_firstn_lt by lia. rewrite firstn_firstn. replace (Nat.min (S i) n) with (S i) by lia.
        apply HR. lia.
  Qed.

  Definition run_state (ops : list op) (s : state) : state := fold_left sstep ops s.
  Definition run_abs (ops : list op) (A : list astate) : list astate := fold_left a_step ops A.

  (* the record map a freshly opened state denotes: what the base trie and the code store hold *)
  Definition abs0 (base : atrie) (codes : list (bytes * bytes)) : astate :=
    view (src (open base codes)) [new_level].

  Lemma run_sim ops : forall s A, SI s -> R (src s) (stack (st_sm s)) A -> Forall state_op ops ->
    SI (run_state ops s) /\ R (src s) (stack (st_sm (run_state ops s))) (run_abs ops A).
  Proof.
    induction ops as [|o ops IH]; cbn; intros s A Hs HR Hops; auto.
    inversion Hops; subst.
    destruct (sim_step s A o Hs HR H1) as [Hs' HR'].
    rewrite <- (src_sstep s o) in HR'.
    destruct (IH _ _ Hs' HR' H2) as [Hs2 HR2]. rewrite (src_sstep s o) in HR2. auto.
  Qed.

  Theorem state_refines_map_lemma base codes ops : Forall state_op ops ->
    let s := run_state ops (open base codes) in
    let x := last (run_abs ops [abs0 base codes]) dflt in
    forall a,
      get_account hk hs s a = x_acc x a /\
      get_code hk hs s a = x_code x a /\
      forall k, get_raw_storage hk hs s a k = x_stor x a k.
  Proof.
    intros Hops s x a.
    assert (R0 : R (src (open base codes)) (stack (st_sm (open base codes))) [abs0 base codes]).
    { split; [reflexivity|]. intros i Hi. cbn in Hi. assert (i = 0)%nat by lia. subst. cbn. apply aeq_refl. }
    destruct (run_sim ops _ _ (SI_open base codes) R0 Hops) as [Hs [Len HR]]. fold s in Hs, Len, HR.
    assert (NL : stack (st_sm s) <> []) by (apply stack_nonempty; apply Hs).
    set (A := run_abs ops [abs0 base codes]) in *.
    assert (NA : A <> []) by (destruct A; [destruct (stack (st_sm s)); [congruence|discriminate]|discriminate]).
    pose proof (HR (length A - 1)%nat ltac:(destruct (stack (st_sm s)); [congruence|cbn in *; lia])) as Q.
    rewrite firstn_all2 in Q by lia. rewrite <- last_nth in Q by auto. fold x in Q.
    destruct (getters_view s (proj1 Hs) a) as [G1 [G2 [_ G4]]].
    assert (Es : src s = src (open base codes)).
    { unfold s, run_state. clear. induction ops as [|o ops IH] using rev_ind; auto.
      rewrite fold_left_app. cbn. rewrite src_sstep. auto. }
    rewrite Es in G1, G2, G4.
    destruct (Q a) as [Q1 [Q2 Q3]]. cbn [view x_acc x_code x_stor] in *.
    split; [congruence|split; [congruence|]]. intros k. rewrite G4, Q3. reflexivity.
  Qed.

  (* the same on the world driver of the correspondence run *)
  Lemma world_run_cur ops : forall w, Forall state_op ops ->
    w_cur (fold_left (step hk hs trimkey) ops w) = run_state ops (w_cur w).
  Proof.
    induction ops as [|o ops IH]; cbn; intros w H; auto.
    inversion H; subst. rewrite IH by auto. rewrite step_is_sstep by auto. reflexivity.
  Qed.
End PS.
