(* State/Model.v — executable model of /repo/state (state.go, account.go, cached_object.go, stage.go)
   over the stacked map and the trie model.  Definitions only.

   What is data, not model: secure keys (Blake2b of an address / storage key) enter through hk / hs, the
   code hash (Keccak) is carried by the SetCode operation; the Merkle root of a storage trie is identified
   with the trie itself (an account leaf holds `Some t` where the Go account holds Blake2b(encode t)),
   so "the root" is the trie shape and any hash function of it.  The caches of cachedObject are pure
   memoisation of reads of the immutable base trie and are not modelled.  The dirty flag of trie.insert has
   no influence on the resulting tree; the instance used here never reports "clean". *)
From Coq Require Import List NArith Bool Arith.
From Verif Require Import Trie.Model State.StackedMap.
Import ListNotations.
Open Scope N_scope.

Definition bytes := list N.

Fixpoint bytes_eqb (a b : bytes) : bool :=
  match a, b with
  | [], [] => true
  | x :: a', y :: b' => (x =? y) && bytes_eqb a' b'
  | _, _ => false
  end.

(* ---- accounts ---- *)
Definition sleaf := (bytes * bytes)%type.            (* raw storage value, metadata = key preimage *)
Definition strie := node sleaf.

(* AccountMetadata: StorageID (major, minor, creation count), StorageMajorVer, StorageMinorVer *)
Record ameta := mkMeta { m_sid : list N; m_major : N; m_minor : N }.
Definition empty_meta : ameta := mkMeta [] 0 0.

Record account := mkAcc {
  a_bal : N; a_eng : N; a_bt : N;
  a_master : bytes;                                  (* nil or 20 bytes *)
  a_codehash : bytes;                                (* nil or Keccak(code), data of SetCode *)
  a_sroot : option strie                             (* nil, or the storage trie the root commits to *)
}.
Definition empty_account : account := mkAcc 0 0 0 [] [] None.

(* account.go IsEmpty *)
Definition is_empty (a : account) : bool :=
  (a_bal a =? 0) && (a_eng a =? 0) &&
  match a_master a with [] => true | _ => false end &&
  match a_codehash a with [] => true | _ => false end.

(* account.go CalcEnergy; rate = thor.EnergyGrowthRate *)
Definition calc_energy (rate : N) (a : account) (block_time stop_time : N) : N :=
  if a_bt a =? 0 then a_eng a
  else if a_bal a =? 0 then a_eng a
  else if block_time <=? a_bt a then a_eng a
  else
    let growth :=
      if a_bt a <? stop_time then
        let diff := if block_time <=? stop_time then block_time - a_bt a else stop_time - a_bt a in
        diff * a_bal a * rate / 1000000000000000000
      else 0 in
    a_eng a + growth.

Definition aleaf := (account * option ameta)%type.   (* value, metadata (only with a storage root) *)
Definition atrie := node aleaf.

Definition never {A} (_ _ : A) : bool := false.

(* ---- keys and values of the stacked map (state.go: thor.Address, codeKey, storageKey, storageBarrierKey) ---- *)
Inductive skey := KAcc (a : N) | KCode (a : N) | KStor (a : N) (barrier : N) (k : N) | KBar (a : N).
Inductive sval := VAcc (x : account) | VCode (code hash : bytes) | VRaw (raw : bytes) | VBar (b : N).

Definition skey_eqb (x y : skey) : bool :=
  match x, y with
  | KAcc a, KAcc b => a =? b
  | KCode a, KCode b => a =? b
  | KStor a b k, KStor a' b' k' => (a =? a') && (b =? b') && (k =? k')
  | KBar a, KBar b => a =? b
  | _, _ => false
  end.

Notation smap := (smap skey sval).

Section State.
  Variable hk : N -> list nat.                       (* address -> hex secure key (terminated) *)
  Variable hs : N -> list nat.                       (* storage key -> hex secure key (terminated) *)
  Variable trimkey : N -> bytes.                     (* bytes.TrimLeft(key[:], 0): metadata of a storage leaf *)

  Record state := mkState {
    st_base : atrie;                                 (* the accounts trie the state was opened on *)
    st_codes : list (bytes * bytes);                 (* the code store: hash -> code *)
    st_sm : smap
  }.

  Definition open (base : atrie) (codes : list (bytes * bytes)) : state :=
    mkState base codes (sm_new skey sval).

  (* account.go loadAccount *)
  Definition load_account (base : atrie) (a : N) : account * ameta :=
    match trie_get aleaf base (hk a) with
    | Some (acc, Some m) => (acc, m)
    | Some (acc, None) => (acc, empty_meta)
    | None => (empty_account, empty_meta)
    end.

  Fixpoint find_code (h : bytes) (l : list (bytes * bytes)) : bytes :=
    match l with
    | [] => []                                       (* Go: store.Get error *)
    | (h', c) :: t => if bytes_eqb h h' then c else find_code h t
    end.

  (* cached_object.go GetStorage on the base account *)
  Definition base_storage (acc : account) (k : N) : bytes :=
    match a_sroot acc with
    | None => []
    | Some t => match trie_get sleaf t (hs k) with Some (v, _) => v | None => [] end
    end.

  (* state.go cacheGetter *)
  Definition src (s : state) (k : skey) : sval :=
    match k with
    | KAcc a => VAcc (fst (load_account (st_base s) a))
    | KCode a =>
      let h := a_codehash (fst (load_account (st_base s) a)) in
      match h with [] => VCode [] [] | _ => VCode (find_code h (st_codes s)) h end
    | KStor a b k => if negb (b =? 0) then VRaw [] else VRaw (base_storage (fst (load_account (st_base s) a)) k)
    | KBar _ => VBar 0
    end.

  Definition sget (s : state) (k : skey) : sval := sm_get skey sval skey_eqb (src s) (st_sm s) k.
  Definition sput (s : state) (k : skey) (v : sval) : state :=
    mkState (st_base s) (st_codes s) (sm_put skey sval skey_eqb (st_sm s) k v).

  Definition get_account (s : state) (a : N) : account :=
    match sget s (KAcc a) with VAcc x => x | _ => empty_account end.
  Definition get_barrier (s : state) (a : N) : N :=
    match sget s (KBar a) with VBar b => b | _ => 0 end.

  (* getters *)
  Definition get_balance s a := a_bal (get_account s a).
  Definition get_energy rate s a bt stop := calc_energy rate (get_account s a) bt stop.
  Definition get_master s a := a_master (get_account s a).
  Definition get_codehash s a := a_codehash (get_account s a).
  Definition get_code s a : bytes := match sget s (KCode a) with VCode c _ => c | _ => [] end.
  Definition get_raw_storage s a k : bytes :=
    match sget s (KStor a (get_barrier s a) k) with VRaw r => r | _ => [] end.
  Definition exists_ s a := negb (is_empty (get_account s a)).

  (* setters *)
  Definition upd_account (s : state) (a : N) (f : account -> account) : state :=
    sput s (KAcc a) (VAcc (f (get_account s a))).
  Definition set_balance s a v :=
    upd_account s a (fun x => mkAcc v (a_eng x) (a_bt x) (a_master x) (a_codehash x) (a_sroot x)).
  Definition set_energy s a v bt :=
    upd_account s a (fun x => mkAcc (a_bal x) v bt (a_master x) (a_codehash x) (a_sroot x)).
  (* master: the zero address is stored as nil; the caller passes [] for it *)
  Definition set_master s a (m : bytes) :=
    upd_account s a (fun x => mkAcc (a_bal x) (a_eng x) (a_bt x) m (a_codehash x) (a_sroot x)).
  (* SetCode: hash = Keccak(code) is supplied; empty code clears the hash *)
  Definition set_code s a (code hash : bytes) :=
    let h := match code with [] => [] | _ => hash end in
    let s1 := sput s (KCode a) (VCode code h) in
    upd_account s1 a (fun x => mkAcc (a_bal x) (a_eng x) (a_bt x) (a_master x) h (a_sroot x)).
  Definition set_raw_storage s a k (raw : bytes) := sput s (KStor a (get_barrier s a) k) (VRaw raw).

  (* rlp.EncodeToBytes(bytes.TrimLeft(value, 0)) for a non-zero 32-byte word given as trimmed bytes *)
  Definition rlp_word (trimmed : bytes) : bytes :=
    match trimmed with
    | [b] => if b <? 128 then [b] else [129; b]
    | _ => (128 + N.of_nat (length trimmed)) :: trimmed
    end.
  Definition set_storage s a k (trimmed : bytes) :=
    match trimmed with [] => set_raw_storage s a k [] | _ => set_raw_storage s a k (rlp_word trimmed) end.

  (* Delete: code nil, empty account, barrier + 1 *)
  Definition delete_account s a :=
    let s1 := sput s (KCode a) (VCode [] []) in
    let s2 := sput s1 (KAcc a) (VAcc empty_account) in
    sput s2 (KBar a) (VBar (get_barrier s2 a + 1)).

  Definition new_checkpoint (s : state) : state * nat :=
    let '(sm', d) := sm_push skey sval (st_sm s) in (mkState (st_base s) (st_codes s) sm', d).
  Definition revert_to (s : state) (rev : nat) : state :=
    mkState (st_base s) (st_codes s) (sm_pop_to skey sval skey_eqb rev (st_sm s)).

  (* ---- Stage: journal replay into `changed` records ---- *)
  Record changed := mkCh {
    c_addr : N;
    c_data : account;
    c_meta : ameta;
    c_storage : option (list (N * bytes))              (* nil map / map, last write per key *)
  }.

  Fixpoint ch_find (a : N) (l : list changed) : option changed :=
    match l with [] => None | c :: t => if c_addr c =? a then Some c else ch_find a t end.
  Fixpoint ch_set (c : changed) (l : list changed) : list changed :=
    match l with
    | [] => [c]
    | c' :: t => if c_addr c' =? c_addr c then c :: t else c' :: ch_set c t
    end.

  Definition get_changed (s : state) (a : N) (l : list changed) : changed :=
    match ch_find a l with
    | Some c => c
    | None => let '(acc, m) := load_account (st_base s) a in mkCh a acc m None
    end.

  Fixpoint kv_set (k : N) (v : bytes) (l : list (N * bytes)) : list (N * bytes) :=
    match l with
    | [] => [(k, v)]
    | (k', v') :: t => if k =? k' then (k, v) :: t else (k', v') :: kv_set k v t
    end.

  (* one journal entry; cnt = storageTrieCreationCount; codes collects non-empty code *)
  Definition replay1 (s : state) (major minor : N)
             (acc : list changed * list (bytes * bytes) * N) (e : skey * sval)
    : list changed * list (bytes * bytes) * N :=
    let '(chs, codes, cnt) := acc in
    match e with
    | (KAcc a, VAcc x) =>
      let c := get_changed s a chs in
      (ch_set (mkCh a x (c_meta c) (c_storage c)) chs, codes, cnt)
    | (KCode a, VCode code h) =>
      (chs, match code with [] => codes | _ => (h, code) :: codes end, cnt)
    | (KStor a b k, VRaw v) =>
      let c := get_changed s a chs in
      let st := match c_storage c with Some m => kv_set k v m | None => [(k, v)] end in
      match m_sid (c_meta c) with
      | [] => (ch_set (mkCh a (c_data c) (mkMeta [major; minor; cnt] (m_major (c_meta c)) (m_minor (c_meta c))) (Some st)) chs,
               codes, cnt + 1)
      | _ => (ch_set (mkCh a (c_data c) (c_meta c) (Some st)) chs, codes, cnt)
      end
    | (KBar a, _) =>
      let c := get_changed s a chs in
      (ch_set (mkCh a (c_data c) empty_meta None) chs, codes, cnt)
    | _ => acc                                         (* ill-typed entry: cannot be produced by the setters *)
    end.

  (* saveStorage over the pending map *)
  Fixpoint save_storage (t : strie) (m : list (N * bytes)) : strie :=
    match m with
    | [] => t
    | (k, v) :: r =>
      save_storage (trie_update sleaf never t (hs k) (match v with [] => None | _ => Some (v, trimkey k) end)) r
    end.

  (* the storage trie Stage starts from: NewTrie(name(meta.StorageID), Root{data.StorageRoot, meta versions}) *)
  Definition base_strie (c : changed) : strie := match a_sroot (c_data c) with Some t => t | None => Nil end.

  Definition stage_account (major minor : N) (t : atrie) (c : changed) : atrie :=
    let '(data, meta) :=
      if negb (is_empty (c_data c)) then
        match c_storage c with
        | Some ((_ :: _) as m) =>
          let st := save_storage (base_strie c) m in
          let d := c_data c in
          (mkAcc (a_bal d) (a_eng d) (a_bt d) (a_master d) (a_codehash d) (Some st),
           mkMeta (m_sid (c_meta c)) major minor)
        | _ => (c_data c, c_meta c)
        end
      else (c_data c, c_meta c) in
    (* saveAccount *)
    if is_empty data then trie_update aleaf never t (hk (c_addr c)) None
    else trie_update aleaf never t (hk (c_addr c))
                     (Some (data, match a_sroot data with Some _ => Some meta | None => None end)).

  Definition stage_changes (s : state) (major minor : N) : list changed * list (bytes * bytes) :=
    let '(chs, codes, _) :=
      fold_left (replay1 s major minor) (sm_journal skey sval (st_sm s)) ([], [], 0) in
    (chs, codes).

  (* Stage(newVer).Hash(): the new accounts trie *)
  Definition stage (s : state) (major minor : N) : atrie :=
    fold_left (stage_account major minor) (fst (stage_changes s major minor)) (st_base s).

  (* Stage.Commit(): codes go to the code store; the state re-opened on the new root *)
  Definition commit_reopen (s : state) (major minor : N) : state :=
    open (stage s major minor) (snd (stage_changes s major minor) ++ st_codes s).

  (* ---- a database with several committed roots; the driver of the correspondence run ---- *)
  Record world := mkWorld {
    w_roots : list atrie;                            (* committed account tries, oldest first; index 0 = empty *)
    w_codes : list (bytes * bytes);
    w_cur : state
  }.
  Definition world0 : world := mkWorld [Nil] [] (open Nil []).

  Inductive op :=
  | OBal (a v : N) | OEng (a v bt : N) | OMas (a : N) (m : bytes) | OCode (a : N) (code hash : bytes)
  | OSto (a k : N) (trimmed : bytes) | ORaw (a k : N) (raw : bytes) | ODel (a : N)
  | OCp | ORev (n : nat)
  | OCommit (major minor : N) (reopen : bool)        (* Stage + Commit; then NewState(new root) or keep the object *)
  | OOpen (i : nat).                                 (* NewState(i-th committed root) *)

  Definition on_cur (w : world) (f : state -> state) : world := mkWorld (w_roots w) (w_codes w) (f (w_cur w)).

  Definition step (w : world) (o : op) : world :=
    match o with
    | OBal a v => on_cur w (fun s => set_balance s a v)
    | OEng a v bt => on_cur w (fun s => set_energy s a v bt)
    | OMas a m => on_cur w (fun s => set_master s a m)
    | OCode a c h => on_cur w (fun s => set_code s a c h)
    | OSto a k t => on_cur w (fun s => set_storage s a k t)
    | ORaw a k r => on_cur w (fun s => set_raw_storage s a k r)
    | ODel a => on_cur w (fun s => delete_account s a)
    | OCp => on_cur w (fun s => fst (new_checkpoint s))
    | ORev n => on_cur w (fun s => revert_to s n)
    | OCommit major minor reopen =>
      let s := w_cur w in
      let t := stage s major minor in
      let codes := snd (stage_changes s major minor) ++ w_codes w in
      mkWorld (w_roots w ++ [t]) codes
              (if reopen then open t codes else mkState (st_base s) codes (st_sm s))
    | OOpen i => mkWorld (w_roots w) (w_codes w) (open (nth i (w_roots w) Nil) (w_codes w))
    end.
End State.

(* ---- the consensus view: what the Merkle root is computed from ----
   node.go: valueNode.encodeConsensus appends n.val only — the metadata of a leaf (the storage-key preimage in a storage
   trie; StorageID / StorageMajorVer / StorageMinorVer in the accounts trie) is not hashed; versions live in references and
   node flags, not in the consensus encoding.  The value of an account leaf is the RLP of (balance, energy, block time,
   master, code hash, storage root), the storage root being the Merkle root of the storage trie, i.e. a function of that
   trie's own consensus view.  So the state root is a function of `cview`. *)
Record caccount := mkCAcc {
  c_bal : N; c_eng : N; c_bt : N; c_master : bytes; c_codehash : bytes;
  c_sroot : option (node bytes)                       (* nil, or the consensus view of the storage trie *)
}.
Definition cview_storage (t : strie) : node bytes := map_node (fun l : sleaf => fst l) t.
Definition cview_leaf (l : aleaf) : caccount :=
  let a := fst l in
  mkCAcc (a_bal a) (a_eng a) (a_bt a) (a_master a) (a_codehash a) (option_map cview_storage (a_sroot a)).
Definition cview (t : atrie) : node caccount := map_node cview_leaf t.
