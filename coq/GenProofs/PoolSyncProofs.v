(* GenProofs/PoolSyncProofs.v — lemma over the GENERATED translation of txpool.isChainSynced (coq/Gen/PoolSync.v,
   regenerated from /repo/txpool/tx_pool.go on every run): for uint64 inputs and 6*BlockInterval < 2^64 the pool
   considers the chain synced iff the head's timestamp is within 6 block intervals of the wall clock, either way. *)
From Coq Require Import ZArith Bool Lia.
From Verif Require Import Common.GoInt Gen.PoolSync.
Open Scope Z_scope.

Section S.
Variable T : Z.                       (* thor.BlockInterval() *)
Hypothesis HT : 0 <= T * 6 < 18446744073709551616.

Theorem is_chain_synced_iff now blk :
  0 <= now < 18446744073709551616 -> 0 <= blk < 18446744073709551616 ->
  (isChainSynced T now blk = true <-> Z.abs (now - blk) < 6 * T).
Proof.
  intros Hn Hb. unfold isChainSynced, wrapU. change (2 ^ 64) with 18446744073709551616.
  rewrite (Z.mod_small (T * 6)) by lia.
  destruct (now <? blk) eqn:E.
  - apply Z.ltb_lt in E. rewrite (Z.mod_small (blk - now)) by lia. rewrite Z.ltb_lt. lia.
  - apply Z.ltb_ge in E. rewrite (Z.mod_small (now - blk)) by lia. rewrite Z.ltb_lt. lia.
Qed.

(* no wrap artefact: a head far in the future is not "synced" either *)
Corollary far_future_not_synced now blk :
  0 <= now < 18446744073709551616 -> 0 <= blk < 18446744073709551616 -> now + 6 * T <= blk ->
  isChainSynced T now blk = false.
Proof.
  intros Hn Hb H. destruct (isChainSynced T now blk) eqn:E; auto.
  apply (is_chain_synced_iff now blk Hn Hb) in E. lia.
Qed.
End S.
