(* GenProofs/StakerTimeProofs.v — lemmas over the GENERATED translation (coq/Gen/StakerTime.v, tools/go2v) of the staker's
   time / period logic:  builtin/staker/validation/validation.go  IsOnline, IsPeriodEnd, NextPeriodTVL, CurrentIteration,
   CompletedIterations, CooldownEnded, CalculateWithdrawableVET, multiplier  and  builtin/staker/delegation/delegation.go
   Started, Ended, IsLocked.
   (a) their specifications in plain (unbounded) arithmetic, with the exact conditions under which no uint32 / uint64 wrap happens;
   (b) agreement with the hand-written model functions of C16/C17 (Staker/Model.v) on in-range inputs — the translation tie
       of that part of the model — together with the inputs on which the unbounded model and the fixed-width code differ.
   A struct parameter of the Go function is a group of arguments, one per field read (go2v); a `*uint32` field is an option. *)
From Coq Require Import ZArith NArith Bool Lia.
From Coq Require Import ZifyN ZifyBool.
From Verif Require Import Common.GoInt Gen.StakerTime Staker.Model.
Open Scope Z_scope.

(* linear arithmetic, with / and mod turned into their defining equations when needed (no global zify hook: it interferes with
   the boolean reasoning of ZifyBool) *)
Ltac dlia := first [ lia | Z.div_mod_to_equations; lia ].

Definition u8 (x : Z) : Prop := 0 <= x < 256.
Definition u32 (x : Z) : Prop := 0 <= x < 4294967296.
Definition u64 (x : Z) : Prop := 0 <= x < 18446744073709551616.

Ltac unwrap := unfold wrapU in *; change (2 ^ 32) with 4294967296 in *; change (2 ^ 64) with 18446744073709551616 in *.

Lemma wrap32_small x : u32 x -> wrapU 32 x = x.
Proof. unfold u32. intros. unwrap. apply Z.mod_small. lia. Qed.
Lemma wrap64_small x : u64 x -> wrapU 64 x = x.
Proof. unfold u64. intros. unwrap. apply Z.mod_small. lia. Qed.

Lemma div_le_self a b : 0 <= a -> 0 < b -> 0 <= a / b <= a.
Proof.
  intros Ha Hb. split; [apply Z.div_pos; lia|].
  apply Z.div_le_upper_bound; [lia|]. nia.
Qed.

(* ================================================================== (0) characterisations
   The ONLY lemmas that look inside the generated definitions.  Each states the complete behaviour of one translated function
   in plain arithmetic (a wrap is an explicit `mod 2^32` / `mod 2^64`) and is proved by one generic tactic — case analysis on
   every `if` / `match` of the generated term, removal of the wraps that provably do not wrap, linear arithmetic — so that a
   behaviour-preserving rewrite of the Go function inside the fragment keeps the proof, and a behaviour change breaks it.
   Everything below (specifications, agreement with the model) is derived from these statements only. *)

Ltac case_step :=
  match goal with
  | H : Some _ = Some _ |- _ => injection H as H
  | H : Some _ = None |- _ => discriminate H
  | H : None = Some _ |- _ => discriminate H
  | |- context [match ?x with _ => _ end] => destruct x eqn:?
  | H : context [match ?x with _ => _ end] |- _ => destruct x eqn:?
  end.

Ltac pose_div_bounds :=
  repeat match goal with
  | |- context [?a / ?b] =>
    lazymatch b with Zpos _ => fail | _ => idtac end;
    lazymatch goal with H : 0 <= a / b <= a |- _ => fail | _ => idtac end;
    pose proof (div_le_self a b ltac:(unwrap; dlia) ltac:(unwrap; dlia))
  end.

Ltac drop_wraps :=
  repeat match goal with
  | |- context [wrapU 32 ?x] => rewrite (wrap32_small x) by (unfold u32; unwrap; dlia)
  | |- context [wrapU 64 ?x] => rewrite (wrap64_small x) by (unfold u64; unwrap; dlia)
  end.

Ltac fin := first [ reflexivity | discriminate | solve [exfalso; unwrap; dlia] | solve [f_equal; unwrap; dlia] | solve [unwrap; dlia] ].

Ltac gen_crush :=
  cbv zeta; repeat case_step; cbv zeta; pose_div_bounds; drop_wraps; pose_div_bounds; drop_wraps; unwrap; fin.

Theorem current_iteration_char P CP St S c : u32 S -> u32 c ->
  Validation_CurrentIteration P CP St S c =
  if (St =? 0) || (St =? 1) then Some 0
  else if (St =? 3) || (0 <? CP) then Some CP
  else if (c <? S) || (P =? 0) then None
  else Some (((c - S) / P + 1) mod 4294967296).
Proof. unfold u32. intros HS Hc. unfold Validation_CurrentIteration. gen_crush. Qed.

Theorem completed_iterations_char P CP St S c :
  Validation_CompletedIterations P CP St S c =
  if (St =? 0) || (St =? 1) then Some 0
  else if St =? 3 then Some CP
  else match Validation_CurrentIteration P CP St S c with None => None | Some it => Some ((it - 1) mod 4294967296) end.
Proof. unfold Validation_CompletedIterations. gen_crush. Qed.

Theorem is_period_end_char P S c :
  Validation_IsPeriodEnd P S c = (((c - S) mod 4294967296) mod P =? 0).
Proof. unfold Validation_IsPeriodEnd. gen_crush. Qed.

Theorem cooldown_ended_char cd X c :
  Validation_CooldownEnded cd X c = match X with None => false | Some E => (E + cd) mod 4294967296 <=? c end.
Proof. unfold Validation_CooldownEnded. gen_crush. Qed.

Theorem withdrawable_char cd X Q CD W c : u64 W -> u64 CD -> u64 Q ->
  Validation_CalculateWithdrawableVET cd X Q CD W c =
  (W + (match X with None => 0 | Some E => if (E + cd) mod 4294967296 <=? c then CD else 0 end) + Q) mod 18446744073709551616.
Proof. unfold u64. intros HW HCD HQ. unfold Validation_CalculateWithdrawableVET, Validation_CooldownEnded. gen_crush. Qed.

Theorem is_online_spec X : Validation_IsOnline X = match X with None => true | Some _ => false end.
Proof. unfold Validation_IsOnline. gen_crush. Qed.

Theorem multiplier_spec L W : Validation_multiplier L W = if W =? L then 100 else 200.
Proof. unfold Validation_multiplier. gen_crush. Qed.

Theorem next_period_tvl_char L PU Q : u64 L -> u64 Q -> u64 PU ->
  Validation_NextPeriodTVL L PU Q =
  if (L + Q) mod 18446744073709551616 <? PU then None else Some ((L + Q) mod 18446744073709551616 - PU).
Proof. unfold u64. intros HL HQ HPU. unfold Validation_NextPeriodTVL. gen_crush. Qed.

Theorem started_spec F P CP St S c :
  Delegation_Started F P CP St S c =
  if (St =? 1) || (St =? 0) then Some false
  else match Validation_CurrentIteration P CP St S c with None => None | Some it => Some (F <=? it) end.
Proof. unfold Delegation_Started. gen_crush. Qed.

Theorem ended_char L F P CP St S c :
  Delegation_Ended L F P CP St S c =
  if St =? 1 then Some false
  else match Validation_CurrentIteration P CP St S c with
       | None => None
       | Some it => Some (((St =? 3) && negb (St =? 0) && (F <=? it)) || match L with None => false | Some l => l <? it end)
       end.
Proof. unfold Delegation_Ended, Delegation_Started. gen_crush. Qed.

Theorem is_locked_spec Stk L F P CP St S c :
  Delegation_IsLocked Stk L F P CP St S c =
  if Stk =? 0 then Some false
  else match Delegation_Started F P CP St S c, Delegation_Ended L F P CP St S c with
       | Some s, Some e => Some (s && negb e)
       | _, _ => None
       end.
Proof. unfold Delegation_IsLocked. gen_crush. Qed.

(* ================================================================== (a) specifications *)

(* ---- Validation.CurrentIteration *)

(* Unknown / Queued: 0;  Exit: the stored count;  Active after signal-exit (CompletedPeriods > 0): the stored count *)
Theorem current_iteration_not_running P CP St S c : u32 S -> u32 c ->
  (St = 0 \/ St = 1 -> Validation_CurrentIteration P CP St S c = Some 0) /\
  (St = 3 -> Validation_CurrentIteration P CP St S c = Some CP) /\
  (St <> 0 -> St <> 1 -> 0 < CP -> Validation_CurrentIteration P CP St S c = Some CP).
Proof.
  intros HS Hc. rewrite current_iteration_char by assumption. repeat split.
  - intros [-> | ->]; reflexivity.
  - intros ->. reflexivity.
  - intros H0 H1 H. destruct (St =? 0) eqn:E0; [lia|]. destruct (St =? 1) eqn:E1; [lia|]. cbn [orb].
    destruct (St =? 3); [reflexivity|]. destruct (0 <? CP) eqn:E; [reflexivity|lia].
Qed.

(* Active, no exit signalled: the errors … *)
Theorem current_iteration_active_errors P St S c : u32 S -> u32 c ->
  St <> 0 -> St <> 1 -> St <> 3 -> (c < S \/ P = 0) -> Validation_CurrentIteration P 0 St S c = None.
Proof.
  intros HS Hc H0 H1 H3 H. rewrite current_iteration_char by assumption.
  destruct (St =? 0) eqn:E0; [lia|]. destruct (St =? 1) eqn:E1; [lia|]. destruct (St =? 3) eqn:E3; [lia|]. cbn [orb].
  change (0 <? 0) with false. cbv iota.
  destruct (c <? S) eqn:E; [reflexivity|]. destruct (P =? 0) eqn:EP; [reflexivity|lia].
Qed.

(* … and the value: (currentBlock - StartBlock) / Period + 1, exactly (no uint32 wrap) whenever that number fits 32 bits *)
Theorem current_iteration_active_spec P St S c :
  St <> 0 -> St <> 1 -> St <> 3 -> u32 P -> u32 S -> u32 c -> 0 < P -> S <= c -> (c - S) / P + 1 < 4294967296 ->
  Validation_CurrentIteration P 0 St S c = Some ((c - S) / P + 1).
Proof.
  intros H0 H1 H3 HP HS Hc HP0 HSc Hfit. rewrite current_iteration_char by assumption. unfold u32 in *.
  destruct (St =? 0) eqn:E0; [lia|]. destruct (St =? 1) eqn:E1; [lia|]. destruct (St =? 3) eqn:E3; [lia|]. cbn [orb].
  change (0 <? 0) with false. cbv iota.
  destruct (c <? S) eqn:E; [lia|]. destruct (P =? 0) eqn:EP; [lia|]. cbn [orb]. cbv iota.
  pose proof (div_le_self (c - S) P ltac:(lia) HP0).
  rewrite Z.mod_small by lia. reflexivity.
Qed.

(* the hypothesis "fits" holds for every block number below 2^32 - 1 — the only wrapping input is
   currentBlock = 2^32 - 1, StartBlock = 0, Period = 1 (see [current_iteration_wraps_at_max_block]) *)
Corollary current_iteration_active_spec' P St S c :
  St <> 0 -> St <> 1 -> St <> 3 -> u32 P -> u32 S -> 0 < P -> S <= c -> 0 <= c < 4294967295 ->
  Validation_CurrentIteration P 0 St S c = Some ((c - S) / P + 1).
Proof.
  unfold u32. intros. pose proof (div_le_self (c - S) P ltac:(lia) ltac:(lia)).
  apply current_iteration_active_spec; unfold u32; lia.
Qed.

Example current_iteration_wraps_at_max_block : Validation_CurrentIteration 1 0 2 0 4294967295 = Some 0.
Proof. vm_compute. reflexivity. Qed.

(* the iteration never decreases with the block number, and once defined it stays defined *)
Theorem current_iteration_monotone P CP St S c c' a :
  u32 P -> u32 S -> 0 <= c -> c <= c' -> c' < 4294967295 ->
  Validation_CurrentIteration P CP St S c = Some a ->
  exists b, Validation_CurrentIteration P CP St S c' = Some b /\ a <= b.
Proof.
  intros HP HS Hc Hcc Hc'. rewrite !current_iteration_char by (unfold u32 in *; lia). unfold u32 in *.
  destruct ((St =? 0) || (St =? 1)); [intros [= <-]; exists 0; split; [reflexivity|lia]|].
  destruct ((St =? 3) || (0 <? CP)); [intros [= <-]; exists CP; split; [reflexivity|lia]|].
  destruct (c <? S) eqn:E; [discriminate|]. destruct (c' <? S) eqn:E'; [lia|].
  destruct (P =? 0) eqn:EP; [discriminate|]. cbn [orb]. cbv iota.
  pose proof (div_le_self (c - S) P ltac:(lia) ltac:(lia)).
  pose proof (div_le_self (c' - S) P ltac:(lia) ltac:(lia)).
  rewrite !Z.mod_small by lia. intros [= <-].
  eexists; split; [reflexivity|].
  pose proof (Z.div_le_mono (c - S) (c' - S) P ltac:(lia) ltac:(lia)). lia.
Qed.

(* ---- Validation.CompletedIterations *)

Theorem completed_iterations_spec P CP St S c : u32 S -> u32 c ->
  (St = 0 \/ St = 1 -> Validation_CompletedIterations P CP St S c = Some 0) /\
  (St = 3 -> Validation_CompletedIterations P CP St S c = Some CP) /\
  (St <> 0 -> St <> 1 -> St <> 3 -> u32 CP -> 0 < CP -> Validation_CompletedIterations P CP St S c = Some (CP - 1)) /\
  (St <> 0 -> St <> 1 -> St <> 3 -> CP = 0 -> u32 P -> 0 < P -> S <= c ->
     Validation_CompletedIterations P CP St S c = Some ((c - S) / P)).
Proof.
  intros HS Hc. rewrite completed_iterations_char, current_iteration_char by assumption. unfold u32 in *. repeat split.
  - intros [-> | ->]; reflexivity.
  - intros ->. reflexivity.
  - intros H0 H1 H3 HCP H.
    destruct (St =? 0) eqn:E0; [lia|]. destruct (St =? 1) eqn:E1; [lia|]. destruct (St =? 3) eqn:E3; [lia|]. cbn [orb].
    destruct (0 <? CP) eqn:E; [|lia]. rewrite Z.mod_small by lia. reflexivity.
  - intros H0 H1 H3 -> HP HP0 HSc.
    destruct (St =? 0) eqn:E0; [lia|]. destruct (St =? 1) eqn:E1; [lia|]. destruct (St =? 3) eqn:E3; [lia|]. cbn [orb].
    change (0 <? 0) with false. cbv iota.
    destruct (c <? S) eqn:E; [lia|]. destruct (P =? 0) eqn:EP; [lia|]. cbn [orb]. cbv iota.
    pose proof (div_le_self (c - S) P ltac:(lia) HP0) as Hd.
    (* even on the wrapping input the +1 / -1 cancel modulo 2^32 *)
    f_equal.
    destruct (Z.eq_dec ((c - S) / P) 4294967295) as [Eq|Ne].
    + rewrite Eq. reflexivity.
    + rewrite (Z.mod_small ((c - S) / P + 1)) by lia. rewrite Z.mod_small by lia. lia.
Qed.

(* ---- Validation.IsPeriodEnd   (Go panics for Period = 0: the divisor obligation of the translation) *)

Theorem is_period_end_spec P S c : u32 S -> u32 c -> S <= c -> 0 < P ->
  (Validation_IsPeriodEnd P S c = true <-> (c - S) mod P = 0).
Proof.
  unfold u32. intros HS Hc HSc HP. rewrite is_period_end_char.
  rewrite (Z.mod_small (c - S)) by lia. apply Z.eqb_eq.
Qed.

(* a period ends exactly at the blocks where the iteration number advances *)
Theorem period_end_iff_iteration_advances P S c : 0 < P -> S < c ->
  ((c - S) mod P = 0 <-> (c - S) / P = (c - 1 - S) / P + 1).
Proof.
  intros HP HSc.
  pose proof (Z.div_mod (c - S) P ltac:(lia)) as E1. pose proof (Z.mod_pos_bound (c - S) P HP) as B1.
  pose proof (Z.div_mod (c - 1 - S) P ltac:(lia)) as E2. pose proof (Z.mod_pos_bound (c - 1 - S) P HP) as B2.
  split; intros H; nia.
Qed.

(* before StartBlock the subtraction wraps: the code then tests (2^32 + current - StartBlock) mod Period *)
Theorem is_period_end_before_start P S c : u32 S -> u32 c -> c < S ->
  Validation_IsPeriodEnd P S c = ((4294967296 + c - S) mod P =? 0).
Proof.
  unfold u32. intros HS Hc HcS. rewrite is_period_end_char. f_equal. f_equal.
  replace (c - S) with ((4294967296 + c - S) + (-1) * 4294967296) by lia.
  rewrite Z.mod_add by lia. apply Z.mod_small. lia.
Qed.

(* ---- Validation.CooldownEnded / CalculateWithdrawableVET   (cd = thor.CooldownPeriod()) *)

Theorem cooldown_ended_spec cd E c :
  Validation_CooldownEnded cd None c = false /\
  (u32 (E + cd) -> Validation_CooldownEnded cd (Some E) c = (E + cd <=? c)).
Proof.
  rewrite !cooldown_ended_char. split; [reflexivity|]. unfold u32. intros H. rewrite Z.mod_small by lia. reflexivity.
Qed.

(* no range hypothesis: the (possibly wrapped) deadline does not depend on the block *)
Theorem cooldown_ended_monotone cd X c c' : c <= c' ->
  Validation_CooldownEnded cd X c = true -> Validation_CooldownEnded cd X c' = true.
Proof.
  intros Hcc. rewrite !cooldown_ended_char. destruct X as [E|]; [|discriminate].
  rewrite !Z.leb_le. lia.
Qed.

Theorem withdrawable_spec cd X Q CD W c : 0 <= W -> 0 <= CD -> 0 <= Q -> W + CD + Q < 18446744073709551616 ->
  Validation_CalculateWithdrawableVET cd X Q CD W c = W + (if Validation_CooldownEnded cd X c then CD else 0) + Q.
Proof.
  intros HW HCD HQ Hfit. rewrite withdrawable_char, cooldown_ended_char by (unfold u64; lia).
  destruct X as [E|]; [destruct ((E + cd) mod 4294967296 <=? c)|]; apply Z.mod_small; lia.
Qed.

Theorem withdrawable_monotone cd X Q CD W c c' : 0 <= W -> 0 <= CD -> 0 <= Q -> W + CD + Q < 18446744073709551616 -> c <= c' ->
  Validation_CalculateWithdrawableVET cd X Q CD W c <= Validation_CalculateWithdrawableVET cd X Q CD W c'.
Proof.
  intros HW HCD HQ Hfit Hcc. rewrite !withdrawable_spec by assumption.
  destruct (Validation_CooldownEnded cd X c) eqn:E.
  - rewrite (cooldown_ended_monotone cd X c c' Hcc E). lia.
  - destruct (Validation_CooldownEnded cd X c'); lia.
Qed.

(* ---- Validation.NextPeriodTVL *)

Theorem next_period_tvl_spec L PU Q : 0 <= L -> 0 <= Q -> 0 <= PU -> L + Q < 18446744073709551616 -> PU < 18446744073709551616 ->
  Validation_NextPeriodTVL L PU Q = if L + Q <? PU then None else Some (L + Q - PU).
Proof.
  intros HL HQ HPU Hfit HPU'. rewrite next_period_tvl_char by (unfold u64; lia). rewrite Z.mod_small by lia. reflexivity.
Qed.

(* ---- Delegation.Started / Ended / IsLocked *)

Theorem ended_spec L F P CP St S c :
  Delegation_Ended L F P CP St S c =
  if St =? 1 then Some false
  else match Validation_CurrentIteration P CP St S c with
       | None => None
       | Some it => Some (((St =? 3) && (F <=? it)) || match L with None => false | Some l => l <? it end)
       end.
Proof.
  rewrite ended_char. destruct (St =? 1); [reflexivity|].
  destruct (Validation_CurrentIteration P CP St S c) as [it|]; [|reflexivity].
  destruct (St =? 3) eqn:E3; [|reflexivity]. destruct (St =? 0) eqn:E0; [lia|reflexivity].
Qed.

(* Ended implies Started — for a delegation whose LastIteration, if set, is not before its FirstIteration (signalling the exit
   stores the current iteration of a started delegation, so every stored delegation satisfies this) *)
Theorem ended_implies_started L F P CP St S c : u32 S -> u32 c ->
  0 <= F -> (forall l, L = Some l -> F <= l) ->
  Delegation_Ended L F P CP St S c = Some true -> Delegation_Started F P CP St S c = Some true.
Proof.
  intros HS Hc HF HL. rewrite ended_spec, started_spec.
  destruct (St =? 1); [discriminate|]. cbn [orb].
  destruct (St =? 0) eqn:E0.
  - assert (St = 0) as -> by lia. rewrite current_iteration_char by assumption. cbn.
    destruct L as [l|]; [|discriminate]. specialize (HL l eq_refl). intros [= H]. lia.
  - destruct (Validation_CurrentIteration P CP St S c) as [it|]; [|discriminate].
    intros [= H]. f_equal. destruct (F <=? it) eqn:E; [reflexivity|].
    rewrite andb_false_r in H. cbn [orb] in H. destruct L as [l|]; [|discriminate].
    specialize (HL l eq_refl). lia.
Qed.

(* without that premise it fails: FirstIteration 5, LastIteration 2, current iteration 3 *)
Example ended_without_started_if_last_before_first :
  Delegation_Ended (Some 2) 5 10 0 2 0 25 = Some true /\ Delegation_Started 5 10 0 2 0 25 = Some false.
Proof. vm_compute. split; reflexivity. Qed.

Theorem is_locked_iff Stk L F P CP St S c :
  Delegation_IsLocked Stk L F P CP St S c = Some true <->
  Stk <> 0 /\ Delegation_Started F P CP St S c = Some true /\ Delegation_Ended L F P CP St S c = Some false.
Proof.
  rewrite is_locked_spec. destruct (Stk =? 0) eqn:E.
  - split; [discriminate|]. intros [H _]. lia.
  - destruct (Delegation_Started F P CP St S c) as [[|]|]; destruct (Delegation_Ended L F P CP St S c) as [[|]|]; cbn;
      split; try discriminate; try (intros [_ [H1 H2]]; discriminate); intros _; repeat split; lia.
Qed.

(* monotone in the block number: a started delegation stays started, an ended one stays ended *)
Theorem started_monotone F P CP St S c c' :
  u32 P -> u32 S -> 0 <= c -> c <= c' -> c' < 4294967295 ->
  Delegation_Started F P CP St S c = Some true -> Delegation_Started F P CP St S c' = Some true.
Proof.
  intros HP HS Hc Hcc Hc'. rewrite !started_spec. destruct ((St =? 1) || (St =? 0)); [discriminate|].
  destruct (Validation_CurrentIteration P CP St S c) as [a|] eqn:E; [|discriminate].
  destruct (current_iteration_monotone P CP St S c c' a HP HS Hc Hcc Hc' E) as [b [-> Hab]].
  intros [= H]. f_equal. lia.
Qed.

Theorem ended_monotone L F P CP St S c c' :
  u32 P -> u32 S -> 0 <= c -> c <= c' -> c' < 4294967295 ->
  Delegation_Ended L F P CP St S c = Some true -> Delegation_Ended L F P CP St S c' = Some true.
Proof.
  intros HP HS Hc Hcc Hc'. rewrite !ended_spec. destruct (St =? 1); [discriminate|].
  destruct (Validation_CurrentIteration P CP St S c) as [a|] eqn:E; [|discriminate].
  destruct (current_iteration_monotone P CP St S c c' a HP HS Hc Hcc Hc' E) as [b [-> Hab]].
  intros [= H]. f_equal. destruct (St =? 3); cbn [andb orb] in *; destruct L as [l|]; lia.
Qed.

(* ================================================================== (b) agreement with Staker/Model.v *)

(* the generated functions applied to the fields of a model record *)
Definition zo (o : option N) : option Z := match o with Some x => Some (Z.of_N x) | None => None end.
Definition res_Z (r : res N) : option Z := match r with Ok a => Some (Z.of_N a) | _ => None end.
Definition res_bool (r : res bool) : option bool := match r with Ok a => Some a | _ => None end.

Definition gen_current_iteration (v : validation) (b : N) : option Z :=
  Validation_CurrentIteration (Z.of_N (v_period v)) (Z.of_N (v_completed v)) (Z.of_N (v_status v)) (Z.of_N (v_start v)) (Z.of_N b).
Definition gen_is_period_end (v : validation) (b : N) : bool :=
  Validation_IsPeriodEnd (Z.of_N (v_period v)) (Z.of_N (v_start v)) (Z.of_N b).
Definition gen_cooldown_ended (c : cfg) (v : validation) (b : N) : bool :=
  Validation_CooldownEnded (Z.of_N (c_cooldown c)) (zo (v_exit v)) (Z.of_N b).
Definition gen_calc_withdrawable (c : cfg) (v : validation) (b : N) : Z :=
  Validation_CalculateWithdrawableVET (Z.of_N (c_cooldown c)) (zo (v_exit v)) (Z.of_N (v_queued v)) (Z.of_N (v_cooldown v))
    (Z.of_N (v_withdrawable v)) (Z.of_N b).
Definition gen_multiplier (v : validation) : Z := Validation_multiplier (Z.of_N (v_locked v)) (Z.of_N (v_weight v)).
Definition gen_next_period_tvl (v : validation) : option Z :=
  Validation_NextPeriodTVL (Z.of_N (v_locked v)) (Z.of_N (v_punlock v)) (Z.of_N (v_queued v)).
Definition gen_is_online (v : validation) : bool := Validation_IsOnline (zo (v_offline v)).
Definition gen_started (d : delegation) (v : validation) (b : N) : option bool :=
  Delegation_Started (Z.of_N (d_first d)) (Z.of_N (v_period v)) (Z.of_N (v_completed v)) (Z.of_N (v_status v)) (Z.of_N (v_start v)) (Z.of_N b).
Definition gen_ended (d : delegation) (v : validation) (b : N) : option bool :=
  Delegation_Ended (zo (d_last d)) (Z.of_N (d_first d)) (Z.of_N (v_period v)) (Z.of_N (v_completed v)) (Z.of_N (v_status v))
    (Z.of_N (v_start v)) (Z.of_N b).
Definition gen_is_locked (d : delegation) (v : validation) (b : N) : option bool :=
  Delegation_IsLocked (Z.of_N (d_stake d)) (zo (d_last d)) (Z.of_N (d_first d)) (Z.of_N (v_period v)) (Z.of_N (v_completed v))
    (Z.of_N (v_status v)) (Z.of_N (v_start v)) (Z.of_N b).

(* in-range: what the Go types guarantee for the stored fields and the block number *)
Definition n32 (x : N) : Prop := (x < 4294967296)%N.
Definition n64 (x : N) : Prop := (x < 18446744073709551616)%N.
Definition val_in_range (v : validation) : Prop := n32 (v_period v) /\ n32 (v_completed v) /\ n32 (v_start v).

Lemma status_consts : StatusUnknown = 0%N /\ StatusQueued = 1%N /\ StatusActive = 2%N /\ StatusExit = 3%N.
Proof. repeat split. Qed.

(* CurrentIteration: generated = model, for every block number below 2^32 - 1 *)
Theorem current_iteration_agrees v b : val_in_range v -> (b < 4294967295)%N ->
  gen_current_iteration v b = res_Z (current_iteration v b).
Proof.
  unfold val_in_range, n32. intros [HP [HC HS]] Hb.
  unfold gen_current_iteration. rewrite current_iteration_char by (unfold u32; lia).
  unfold current_iteration, StatusUnknown, StatusQueued, StatusExit.
  destruct (N.eqb_spec (v_status v) 0) as [E0|E0]; [rewrite E0; reflexivity|].
  destruct (Z.eqb_spec (Z.of_N (v_status v)) 0) as [F0|_]; [lia|].
  destruct (N.eqb_spec (v_status v) 1) as [E1|E1]; [rewrite E1; reflexivity|].
  destruct (Z.eqb_spec (Z.of_N (v_status v)) 1) as [F1|_]; [lia|]. cbn [orb].
  destruct (N.eqb_spec (v_status v) 3) as [E3|E3]; [rewrite E3; reflexivity|].
  destruct (Z.eqb_spec (Z.of_N (v_status v)) 3) as [F3|_]; [lia|]. cbn [orb].
  destruct (N.ltb_spec 0 (v_completed v)) as [Ec|Ec]; destruct (Z.ltb_spec 0 (Z.of_N (v_completed v))) as [Fc|Fc]; try lia; [reflexivity|].
  destruct (N.ltb_spec b (v_start v)) as [Es|Es]; destruct (Z.ltb_spec (Z.of_N b) (Z.of_N (v_start v))) as [Fs|Fs]; try lia; [reflexivity|].
  cbn [orb].
  destruct (N.eqb_spec (v_period v) 0) as [Ep|Ep]; destruct (Z.eqb_spec (Z.of_N (v_period v)) 0) as [Fp|Fp]; try lia; [reflexivity|].
  cbn [res_Z]. f_equal.
  pose proof (div_le_self (Z.of_N b - Z.of_N (v_start v)) (Z.of_N (v_period v)) ltac:(lia) ltac:(lia)).
  rewrite Z.mod_small by lia.
  rewrite N2Z.inj_add, N2Z.inj_div, N2Z.inj_sub by lia. reflexivity.
Qed.

(* … and on the one remaining block number they differ exactly when the uint32 addition wraps: the model is unbounded there
   (documented in the header of Staker/Model.v: "wrap needs … block numbers >= 2^32"; a chain reaches that block after
   ~1360 years of 10 s blocks) *)
Example current_iteration_differs_at_max_block :
  let v := mkV 0 None 1 0 2 0 None None 0 0 0 0 0 0 None None in
  gen_current_iteration v 4294967295 = Some 0 /\ current_iteration v 4294967295 = Ok 4294967296%N.
Proof. vm_compute. split; reflexivity. Qed.

Theorem current_iteration_never_reverts v b : current_iteration v b <> Rev.
Proof.
  unfold current_iteration.
  repeat match goal with |- context [if ?c then _ else _] => destruct c end; discriminate.
Qed.

(* IsPeriodEnd: generated = model on all in-range inputs (both use the wrapping subtraction; both leave Period = 0, where Go panics,
   to the caller: a stored validation has Period > 0) *)
Theorem is_period_end_agrees v b : val_in_range v -> n32 b -> gen_is_period_end v b = is_period_end v b.
Proof.
  unfold val_in_range, n32. intros [HP [HC HS]] Hb.
  unfold gen_is_period_end. rewrite is_period_end_char. unfold is_period_end, sub32.
  assert (E : (Z.of_N b - Z.of_N (v_start v)) mod 4294967296 = Z.of_N ((b + 4294967296 - v_start v) mod 4294967296)%N).
  { rewrite N2Z.inj_mod, N2Z.inj_sub, N2Z.inj_add by lia. change (Z.of_N 4294967296) with 4294967296.
    replace (Z.of_N b + 4294967296 - Z.of_N (v_start v)) with (Z.of_N b - Z.of_N (v_start v) + 1 * 4294967296) by lia.
    rewrite Z.mod_add by lia. reflexivity. }
  rewrite E. rewrite <- N2Z.inj_mod.
  destruct (N.eqb_spec ((b + 4294967296 - v_start v) mod 4294967296 mod v_period v) 0) as [H|H].
  - rewrite H. reflexivity.
  - apply Z.eqb_neq. lia.
Qed.

(* CooldownEnded: generated = model whenever ExitBlock + CooldownPeriod fits 32 bits *)
Definition cooldown_fits (c : cfg) (v : validation) : Prop :=
  match v_exit v with Some e => (e + c_cooldown c < 4294967296)%N | None => True end.

Theorem cooldown_ended_agrees c v b : cooldown_fits c v -> gen_cooldown_ended c v b = cooldown_ended c v b.
Proof.
  unfold cooldown_fits, gen_cooldown_ended, cooldown_ended. rewrite cooldown_ended_char. destruct (v_exit v) as [e|]; [|reflexivity].
  intros H. cbn [zo]. rewrite Z.mod_small by lia.
  destruct (N.leb_spec (e + c_cooldown c) b); [apply Z.leb_le|apply Z.leb_gt]; lia.
Qed.

(* the wrapping input: ExitBlock = 2^32 - 1, CooldownPeriod = 1: the code's deadline is block 0, the model's is block 2^32 *)
Example cooldown_ended_differs_when_deadline_wraps :
  let c := mkC 180 0 0 0 1 0 0 0 0 in
  let v := mkV 0 None 1 0 3 0 (Some 4294967295%N) None 0 0 0 0 0 0 None None in
  gen_cooldown_ended c v 5 = true /\ cooldown_ended c v 5 = false.
Proof. vm_compute. split; reflexivity. Qed.

(* CalculateWithdrawableVET: generated = model whenever the deadline fits 32 bits and the three amounts add up below 2^64
   (C16 proves that every amount is bounded by the VET supply along all histories) *)
Theorem calc_withdrawable_agrees c v b : cooldown_fits c v -> n64 (v_withdrawable v + v_cooldown v + v_queued v) ->
  gen_calc_withdrawable c v b = Z.of_N (calc_withdrawable c v b).
Proof.
  unfold n64. intros Hc Hfit. unfold gen_calc_withdrawable, calc_withdrawable.
  rewrite withdrawable_spec by lia.
  change (Validation_CooldownEnded (Z.of_N (c_cooldown c)) (zo (v_exit v)) (Z.of_N b)) with (gen_cooldown_ended c v b).
  rewrite cooldown_ended_agrees by exact Hc. destruct (cooldown_ended c v b); lia.
Qed.

Theorem multiplier_agrees v : gen_multiplier v = Z.of_N (v_multiplier v).
Proof.
  unfold gen_multiplier. rewrite multiplier_spec. unfold v_multiplier, Multiplier, MultiplierWithDelegations.
  destruct (N.eqb_spec (v_weight v) (v_locked v)) as [E|E].
  - rewrite E, Z.eqb_refl. reflexivity.
  - destruct (Z.eqb_spec (Z.of_N (v_weight v)) (Z.of_N (v_locked v))); [lia|reflexivity].
Qed.

Theorem next_period_tvl_agrees v : n64 (v_locked v + v_queued v) -> n64 (v_punlock v) ->
  gen_next_period_tvl v = res_Z (v_next_period_tvl v).
Proof.
  unfold n64. intros H1 H2. unfold gen_next_period_tvl, v_next_period_tvl. rewrite next_period_tvl_spec by lia. cbv zeta.
  destruct (N.ltb_spec (v_locked v + v_queued v) (v_punlock v)); destruct (Z.ltb_spec (Z.of_N (v_locked v) + Z.of_N (v_queued v)) (Z.of_N (v_punlock v)));
    try lia; cbn [res_Z]; [reflexivity|]. f_equal. lia.
Qed.

Theorem is_online_agrees v : gen_is_online v = negb (is_some (v_offline v)).
Proof. unfold gen_is_online. destruct (v_offline v); reflexivity. Qed.

(* Delegation.Started / Ended: generated = model *)
Theorem started_agrees d v b : val_in_range v -> (b < 4294967295)%N -> gen_started d v b = res_bool (d_started d v b).
Proof.
  intros Hv Hb. unfold gen_started, d_started. rewrite started_spec.
  fold (gen_current_iteration v b). rewrite (current_iteration_agrees v b Hv Hb).
  unfold StatusQueued, StatusUnknown.
  destruct (N.eqb_spec (v_status v) 1) as [E1|E1]; [rewrite E1; reflexivity|].
  destruct (Z.eqb_spec (Z.of_N (v_status v)) 1); [lia|].
  destruct (N.eqb_spec (v_status v) 0) as [E0|E0]; [rewrite E0; reflexivity|].
  destruct (Z.eqb_spec (Z.of_N (v_status v)) 0); [lia|]. cbn [orb].
  pose proof (current_iteration_never_reverts v b).
  destruct (current_iteration v b) as [it| |]; cbn; try reflexivity; try congruence.
  f_equal. destruct (N.leb_spec (d_first d) it); [apply Z.leb_le|apply Z.leb_gt]; lia.
Qed.

Theorem ended_agrees d v b : val_in_range v -> (b < 4294967295)%N -> gen_ended d v b = res_bool (d_ended d v b).
Proof.
  intros Hv Hb. unfold gen_ended. rewrite ended_spec.
  fold (gen_current_iteration v b). rewrite (current_iteration_agrees v b Hv Hb).
  unfold d_ended, d_started, StatusQueued, StatusUnknown, StatusExit.
  destruct (N.eqb_spec (v_status v) 1) as [E1|E1]; [rewrite E1; reflexivity|].
  destruct (Z.eqb_spec (Z.of_N (v_status v)) 1); [lia|]. cbn [orb].
  assert (E3 : (Z.of_N (v_status v) =? 3) = (v_status v =? 3)%N).
  { destruct (N.eqb_spec (v_status v) 3) as [E|E]; [rewrite E; reflexivity|apply Z.eqb_neq; lia]. }
  rewrite E3.
  pose proof (current_iteration_never_reverts v b) as NR.
  destruct (N.eqb_spec (v_status v) 0) as [E0|E0].
  - assert (C0 : current_iteration v b = Ok 0%N) by (unfold current_iteration, StatusUnknown; rewrite E0; reflexivity).
    rewrite C0, E0. cbn -[Z.of_N]. destruct (d_last d) as [l|]; cbn -[Z.of_N]; [|reflexivity].
    f_equal. destruct (N.ltb_spec l 0); [lia|apply Z.ltb_ge; lia].
  - destruct (current_iteration v b) as [it| |]; cbn -[Z.of_N]; try reflexivity; try congruence.
    assert (EF : (Z.of_N (d_first d) <=? Z.of_N it) = (d_first d <=? it)%N).
    { destruct (N.leb_spec (d_first d) it); [apply Z.leb_le|apply Z.leb_gt]; lia. }
    rewrite EF.
    destruct ((v_status v =? 3)%N && (d_first d <=? it)%N); cbn -[Z.of_N]; [reflexivity|].
    destruct (d_last d) as [l|]; cbn -[Z.of_N]; [|reflexivity].
    f_equal. destruct (N.ltb_spec l it); [apply Z.ltb_lt|apply Z.ltb_ge]; lia.
Qed.

(* Delegation.IsLocked has no counterpart of its own in the model: where the model needs it (withdraw_delegation) it
   computes started && negb ended from d_started / d_ended; the generated IsLocked is that, plus the Stake = 0 shortcut *)
Theorem is_locked_agrees d v b : val_in_range v -> (b < 4294967295)%N ->
  gen_is_locked d v b =
  if (d_stake d =? 0)%N then Some false
  else res_bool (bind (d_started d v b) (fun s => bind (d_ended d v b) (fun e => Ok (s && negb e)))).
Proof.
  intros Hv Hb. unfold gen_is_locked. rewrite is_locked_spec.
  fold (gen_started d v b). fold (gen_ended d v b). rewrite started_agrees, ended_agrees by assumption.
  destruct (N.eqb_spec (d_stake d) 0) as [E|E]; [rewrite E; reflexivity|].
  destruct (Z.eqb_spec (Z.of_N (d_stake d)) 0); [lia|].
  destruct (d_started d v b); cbn; try reflexivity. destruct (d_ended d v b); reflexivity.
Qed.

(* ---- the tie in one statement (cited by Properties/C16.v and C17.v) *)
Theorem staker_time_translation_tie c d v b :
  val_in_range v -> (b < 4294967295)%N ->
  gen_current_iteration v b = res_Z (current_iteration v b) /\
  gen_is_period_end v b = is_period_end v b /\
  gen_started d v b = res_bool (d_started d v b) /\
  gen_ended d v b = res_bool (d_ended d v b) /\
  gen_multiplier v = Z.of_N (v_multiplier v) /\
  (cooldown_fits c v -> gen_cooldown_ended c v b = cooldown_ended c v b) /\
  (cooldown_fits c v -> n64 (v_withdrawable v + v_cooldown v + v_queued v) ->
     gen_calc_withdrawable c v b = Z.of_N (calc_withdrawable c v b)) /\
  (n64 (v_locked v + v_queued v) -> n64 (v_punlock v) -> gen_next_period_tvl v = res_Z (v_next_period_tvl v)).
Proof.
  intros Hv Hb. assert (Hb' : n32 b) by (unfold n32; lia).
  repeat split.
  - exact (current_iteration_agrees v b Hv Hb).
  - exact (is_period_end_agrees v b Hv Hb').
  - exact (started_agrees d v b Hv Hb).
  - exact (ended_agrees d v b Hv Hb).
  - exact (multiplier_agrees v).
  - exact (cooldown_ended_agrees c v b).
  - exact (calc_withdrawable_agrees c v b).
  - exact (next_period_tvl_agrees v).
Qed.

(* non-vacuity of the hypotheses *)
Example tie_hyps_hold :
  let v := mkV 7 None 180 0 2 360 (Some 900%N) None 25000000 0 5 0 0 25000000 None None in
  val_in_range v /\ cooldown_fits (mkC 180 0 0 0 8640 0 0 0 0) v /\ n64 (v_withdrawable v + v_cooldown v + v_queued v) /\
  gen_current_iteration v 1000 = Some 4 /\ current_iteration v 1000 = Ok 4%N.
Proof. unfold val_in_range, cooldown_fits, n32, n64. cbn. repeat split; lia || reflexivity. Qed.
