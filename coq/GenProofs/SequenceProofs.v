(* GenProofs/SequenceProofs.v — lemmas over the GENERATED translation of logdb/sequence.go (coq/Gen/Sequence.v). *)
From Coq Require Import ZArith Bool Lia.
From Verif Require Import Common.GoInt Gen.Sequence.
Open Scope Z_scope.
Ltac Zify.zify_post_hook ::= Z.div_mod_to_equations.

Definition seq_ok (b t l : Z) : Prop := 0 <= b <= 268435455 /\ 0 <= t <= 32767 /\ 0 <= l <= 1048575.
Definition pack (b t l : Z) : Z := b * 34359738368 + t * 1048576 + l.   (* b*2^35 + t*2^20 + l *)

Lemma land_shiftl_small hi lo k : 0 <= k -> 0 <= lo < 2 ^ k -> Z.land (Z.shiftl hi k) lo = 0.
Proof.
  intros Hk [Hlo0 Hlo1]. apply Z.bits_inj'. intros n Hn. rewrite Z.land_spec, Z.bits_0.
  destruct (Z.ltb_spec n k) as [H|H].
  - rewrite Z.shiftl_spec_low by assumption. reflexivity.
  - destruct (Z.eq_dec lo 0) as [->|Hne]; [rewrite Z.bits_0; apply andb_false_r|].
    assert (Hpos : 0 < lo) by (clear Hlo1; lia).
    assert (Hlog : Z.log2 lo < k) by (apply Z.log2_lt_pow2; assumption).
    rewrite (Z.bits_above_log2 lo n); [apply andb_false_r|assumption|clear Hlo1; lia].
Qed.

Lemma lor_shiftl_add hi lo k : 0 <= k -> 0 <= lo < 2 ^ k -> Z.lor (Z.shiftl hi k) lo = hi * 2 ^ k + lo.
Proof.
  intros Hk Hlo. rewrite <- Z.lxor_lor by (apply land_shiftl_small; auto).
  rewrite <- Z.add_nocarry_lxor by (apply land_shiftl_small; auto).
  rewrite Z.shiftl_mul_pow2 by lia. reflexivity.
Qed.

Ltac unwrap :=
  unfold wrapU, wrapS in *;
  change (2 ^ 64) with 18446744073709551616 in *;
  change (2 ^ (64 - 1)) with 9223372036854775808 in *;
  change (2 ^ 32) with 4294967296 in *.

Lemma wrapS64_small x : - 9223372036854775808 <= x < 9223372036854775808 -> wrapS 64 x = x.
Proof. intros. unwrap. rewrite Z.mod_small; lia. Qed.

(* the packed value is the arithmetic combination: no bit of one field overlaps another, nothing is truncated *)
Theorem new_sequence_value b t l : seq_ok b t l -> newSequence b t l = Some (pack b t l).
Proof.
  unfold seq_ok, newSequence, pack. intros [Hb [Ht Hl]].
  destruct (Z.ltb_spec 268435455 b); [lia|].
  destruct (Z.ltb_spec 32767 t); [lia|].
  destruct (Z.ltb_spec 1048575 l); [lia|].
  f_equal.
  rewrite (wrapS64_small b) by lia. rewrite (wrapS64_small t) by lia. rewrite (wrapS64_small l) by lia.
  rewrite (Z.shiftl_mul_pow2 b 35) by lia. rewrite (Z.shiftl_mul_pow2 t 20) by lia.
  change (2 ^ 35) with 34359738368. change (2 ^ 20) with 1048576.
  rewrite (wrapS64_small (b * 34359738368)) by lia. rewrite (wrapS64_small (t * 1048576)) by lia.
  (* inner lor: b*2^35 | t*2^20, with t*2^20 < 2^35 *)
  replace (b * 34359738368) with (Z.shiftl b 35) by (rewrite Z.shiftl_mul_pow2 by lia; reflexivity).
  rewrite (lor_shiftl_add b (t * 1048576) 35) by (change (2 ^ 35) with 34359738368; lia).
  change (2 ^ 35) with 34359738368.
  replace (b * 34359738368 + t * 1048576) with (Z.shiftl (b * 32768 + t) 20)
    by (rewrite Z.shiftl_mul_pow2 by lia; change (2 ^ 20) with 1048576; lia).
  rewrite (lor_shiftl_add (b * 32768 + t) l 20) by (change (2 ^ 20) with 1048576; lia).
  change (2 ^ 20) with 1048576. rewrite Z.shiftl_mul_pow2 by lia. change (2 ^ 35) with 34359738368. lia.
Qed.

Theorem new_sequence_rejects b t l : 0 <= b -> 0 <= t -> 0 <= l -> ~ seq_ok b t l -> newSequence b t l = None.
Proof.
  unfold seq_ok, newSequence. intros Hb Ht Hl Hn.
  destruct (Z.ltb_spec 268435455 b); [reflexivity|].
  destruct (Z.ltb_spec 32767 t); [reflexivity|].
  destruct (Z.ltb_spec 1048575 l); [reflexivity|]. lia.
Qed.

(* the accessors invert the packing *)
Theorem accessors_invert b t l : seq_ok b t l ->
  sequence_BlockNumber (pack b t l) = b /\ sequence_TxIndex (pack b t l) = t /\ sequence_LogIndex (pack b t l) = l.
Proof.
  unfold seq_ok, pack, sequence_BlockNumber, sequence_TxIndex, sequence_LogIndex. intros [Hb [Ht Hl]].
  change 268435455 with (Z.ones 28). change 32767 with (Z.ones 15). change 1048575 with (Z.ones 20).
  rewrite !Z.land_ones by lia. rewrite !Z.shiftr_div_pow2 by lia. unwrap.
  change (2 ^ 35) with 34359738368. change (2 ^ 20) with 1048576. change (2 ^ 28) with 268435456. change (2 ^ 15) with 32768.
  change (Z.ones 28) with 268435455 in *. change (Z.ones 15) with 32767 in *. change (Z.ones 20) with 1048575 in *.
  repeat split; lia.
Qed.

(* packing is injective and order-isomorphic to the lexicographic order on (block, tx, log) *)
Theorem pack_lex_lt b1 t1 l1 b2 t2 l2 : seq_ok b1 t1 l1 -> seq_ok b2 t2 l2 ->
  (pack b1 t1 l1 < pack b2 t2 l2 <-> b1 < b2 \/ (b1 = b2 /\ (t1 < t2 \/ (t1 = t2 /\ l1 < l2)))).
Proof. unfold seq_ok, pack. lia. Qed.

Theorem pack_injective b1 t1 l1 b2 t2 l2 : seq_ok b1 t1 l1 -> seq_ok b2 t2 l2 ->
  pack b1 t1 l1 = pack b2 t2 l2 -> b1 = b2 /\ t1 = t2 /\ l1 = l2.
Proof. unfold seq_ok, pack. lia. Qed.

Theorem pack_nonneg_int64 b t l : seq_ok b t l -> 0 <= pack b t l < 9223372036854775808.
Proof. unfold seq_ok, pack. lia. Qed.
