(* GenProofs/GasLimitProofs.v — lemmas over the GENERATED translation of block/gas_limit.go (coq/Gen/GasLimit.v).
   They are re-checked against the regenerated definitions on every run. *)
From Coq Require Import ZArith Bool Lia.
From Verif Require Import Common.GoInt Gen.GasLimit.
Open Scope Z_scope.
Ltac Zify.zify_post_hook ::= Z.div_mod_to_equations.

Definition u64 (x : Z) : Prop := 0 <= x < 18446744073709551616.
Definition min_gas_limit : Z := 1000000.
Definition bound_divisor : Z := 1024.

Ltac unwrap :=
  unfold wrapU, wrapS in *;
  change (2 ^ 64) with 18446744073709551616 in *;
  change (2 ^ (64 - 1)) with 9223372036854775808 in *.

(* the validator-side rule: exactly "at least the floor and within parent/1024 of the parent" *)
Theorem is_valid_spec gl parent : u64 gl -> u64 parent ->
  GasLimit_IsValid gl parent = true <->
  min_gas_limit <= gl /\ Z.abs (gl - parent) <= parent / bound_divisor.
Proof.
  unfold u64, min_gas_limit, bound_divisor, GasLimit_IsValid. intros Hg Hp. unwrap.
  rewrite (Z.mod_small gl) by lia.
  destruct (Z.ltb_spec gl 1000000) as [H1|H1]; [split; [discriminate|lia]|].
  destruct (Z.ltb_spec parent gl) as [H2|H2].
  - rewrite Z.mod_small by lia. rewrite Z.leb_le. lia.
  - rewrite Z.mod_small by lia. rewrite Z.leb_le. lia.
Qed.

Lemma min64_spec a b : min64 a b = Z.min a b.
Proof. unfold min64. destruct (Z.ltb_spec b a); lia. Qed.

Ltac solve_mods :=
  repeat match goal with
  | |- context [?a mod 18446744073709551616] => rewrite (Z.mod_small a 18446744073709551616) by lia
  end.

Ltac split_ltb :=
  repeat match goal with |- context [?a <? ?b] => destruct (Z.ltb_spec a b) end.

Lemma adjust_up parent d : u64 parent -> 0 < d <= parent / 1024 ->
  GasLimit_Adjust parent d = if 18446744073709551615 - d <? parent then 18446744073709551615 else parent + d.
Proof.
  unfold u64. intros Hp Hd. unfold GasLimit_Adjust. rewrite !min64_spec. unwrap.
  destruct (Z.ltb_spec 0 d) as [_|]; [|lia]. solve_mods.
  rewrite Z.min_l by lia. solve_mods. split_ltb; solve_mods; lia.
Qed.

Lemma adjust_down parent d : u64 parent -> 0 <= d <= parent / 1024 ->
  GasLimit_Adjust parent (- d) = if parent <? 1000000 + d then 1000000 else parent - d.
Proof.
  unfold u64. intros Hp Hd. unfold GasLimit_Adjust. rewrite !min64_spec. unwrap.
  destruct (Z.ltb_spec 0 (- d)) as [|_]; [lia|]. replace (- - d) with d by lia. solve_mods.
  rewrite Z.min_l by lia. solve_mods. split_ltb; solve_mods; lia.
Qed.

Lemma qualify_cases target parent : u64 target -> u64 parent -> min_gas_limit <= parent ->
  GasLimit_Qualify target parent =
    if parent <? target
    then (let d := Z.min (target - parent) (parent / 1024) in
          if 18446744073709551615 - d <? parent then 18446744073709551615 else parent + d)
    else (let d := Z.min (parent - target) (parent / 1024) in
          if parent <? 1000000 + d then 1000000 else parent - d).
Proof.
  unfold u64, min_gas_limit. intros Ht Hp Hmin. unfold GasLimit_Qualify. rewrite !min64_spec. unwrap.
  assert (Hd : 0 <= parent / 1024 < 18014398509481984) by lia.
  solve_mods.
  destruct (Z.ltb_spec parent target) as [H1|H1]; cbv zeta.
  - solve_mods.
    replace (Z.min (target - parent) (parent / 1024) + 9223372036854775808 - 9223372036854775808)
      with (Z.min (target - parent) (parent / 1024)) by lia.
    apply adjust_up; unfold u64; lia.
  - solve_mods.
    replace (Z.min (parent - target) (parent / 1024) + 9223372036854775808 - 9223372036854775808)
      with (Z.min (parent - target) (parent / 1024)) by lia.
    solve_mods.
    replace (- Z.min (parent - target) (parent / 1024) + 9223372036854775808 - 9223372036854775808)
      with (- Z.min (parent - target) (parent / 1024)) by lia.
    apply adjust_down; unfold u64; lia.
Qed.

(* the packer-side computation always lands inside the validator-side rule *)
Theorem qualify_is_valid target parent : u64 target -> u64 parent -> min_gas_limit <= parent ->
  GasLimit_IsValid (GasLimit_Qualify target parent) parent = true.
Proof.
  intros Ht Hp Hmin. pose proof (qualify_cases target parent Ht Hp Hmin) as E.
  unfold u64, min_gas_limit in *.
  assert (Hd : 0 <= parent / 1024 < 18014398509481984) by lia.
  assert (Hres : u64 (GasLimit_Qualify target parent) /\
                 1000000 <= GasLimit_Qualify target parent /\
                 Z.abs (GasLimit_Qualify target parent - parent) <= parent / 1024).
  { rewrite E. unfold u64. cbv zeta.
    destruct (Z.ltb_spec parent target) as [H1|H1].
    - destruct (Z.ltb_spec (18446744073709551615 - Z.min (target - parent) (parent / 1024)) parent); lia.
    - destruct (Z.ltb_spec parent (1000000 + Z.min (parent - target) (parent / 1024))); lia. }
  destruct Hres as [Hu [Hm Ha]].
  apply (proj2 (is_valid_spec _ parent Hu Hp)). unfold min_gas_limit, bound_divisor. split; assumption.
Qed.

(* Qualify moves towards the target and never past it *)
Theorem qualify_towards_target target parent : u64 target -> u64 parent -> min_gas_limit <= parent -> min_gas_limit <= target ->
  Z.min target parent <= GasLimit_Qualify target parent <= Z.max target parent.
Proof.
  intros Ht Hp Hmin Hmt. rewrite (qualify_cases target parent Ht Hp Hmin).
  unfold u64, min_gas_limit in *. cbv zeta.
  assert (Hd : 0 <= parent / 1024 < 18014398509481984) by lia.
  destruct (Z.ltb_spec parent target) as [H1|H1].
  - destruct (Z.ltb_spec (18446744073709551615 - Z.min (target - parent) (parent / 1024)) parent); lia.
  - destruct (Z.ltb_spec parent (1000000 + Z.min (parent - target) (parent / 1024))); lia.
Qed.
