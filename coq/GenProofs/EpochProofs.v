(* GenProofs/EpochProofs.v — lemmas over the GENERATED translation of bft's epoch arithmetic (coq/Gen/Epoch.v). *)
From Coq Require Import ZArith Bool Lia.
From Verif Require Import Common.GoInt Gen.Epoch.
Open Scope Z_scope.

Section E.
Variable L : Z.                       (* thor.EpochLength() *)
Hypothesis HL : 0 < L < 4294967296.

Ltac unwrap := unfold wrapU in *; change (2 ^ 32) with 4294967296 in *.

Lemma floor_mul n : n / L * L = n - n mod L.
Proof. pose proof (Z.div_mod n L ltac:(lia)) as H. rewrite (Z.mul_comm (n / L) L). lia. Qed.

Theorem checkpoint_spec n : 0 <= n < 4294967296 ->
  getCheckPoint L n = n - n mod L /\ getCheckPoint L n <= n < getCheckPoint L n + L /\ (getCheckPoint L n) mod L = 0.
Proof.
  intros Hn. unfold getCheckPoint. unwrap.
  pose proof (Z.mod_pos_bound n L ltac:(lia)) as Hm.
  pose proof (Z.mod_le n L ltac:(lia) ltac:(lia)) as Hle.
  rewrite floor_mul. rewrite (Z.mod_small (n - n mod L)) by lia. repeat split; try lia.
  rewrite <- floor_mul. apply Z.mod_mul. lia.
Qed.

Theorem is_checkpoint_iff n : 0 <= n < 4294967296 -> (isCheckPoint L n = true <-> n mod L = 0).
Proof.
  intros Hn. unfold isCheckPoint. destruct (checkpoint_spec n Hn) as [E _]. rewrite E, Z.eqb_eq. lia.
Qed.

(* the store point is the last block of the epoch, as long as the epoch does not straddle 2^32 *)
Theorem storepoint_spec n : 0 <= n < 4294967296 -> getCheckPoint L n + L <= 4294967296 ->
  getStorePoint L n = getCheckPoint L n + L - 1 /\ n <= getStorePoint L n /\
  getCheckPoint L (getStorePoint L n) = getCheckPoint L n.
Proof.
  intros Hn Hb.
  destruct (checkpoint_spec n Hn) as [E [Hr Hm]].
  unfold getStorePoint. unwrap. set (c := getCheckPoint L n) in *.
  assert (Hc : 0 <= c) by (pose proof (Z.mod_le n L ltac:(lia) ltac:(lia)); lia).
  assert (Esp : ((c + L) mod 4294967296 - 1) mod 4294967296 = c + L - 1).
  { destruct (Z.eq_dec (c + L) 4294967296) as [Eq|Ne].
    - rewrite Eq. reflexivity.
    - rewrite (Z.mod_small (c + L)) by lia. apply Z.mod_small. lia. }
  rewrite Esp.
  repeat split; try lia.
  assert (Hsp : 0 <= c + L - 1 < 4294967296) by lia.
  destruct (checkpoint_spec (c + L - 1) Hsp) as [E2 _]. rewrite E2.
  assert (Hmod : (c + L - 1) mod L = L - 1).
  { replace (c + L - 1) with ((L - 1) + (c / L) * L).
    - rewrite Z.mod_add by lia. apply Z.mod_small. lia.
    - rewrite floor_mul. lia. }
  lia.
Qed.

(* consecutive epochs: the block after a store point is the next checkpoint *)
Theorem next_checkpoint n : 0 <= n < 4294967296 -> getCheckPoint L n + L < 4294967296 ->
  isCheckPoint L (getStorePoint L n + 1) = true.
Proof.
  intros Hn Hb. destruct (storepoint_spec n Hn ltac:(lia)) as [E _].
  destruct (checkpoint_spec n Hn) as [_ [Hr Hm]].
  assert (Hc : 0 <= getCheckPoint L n) by (destruct (checkpoint_spec n Hn) as [E0 _]; pose proof (Z.mod_le n L ltac:(lia) ltac:(lia)); lia).
  apply is_checkpoint_iff; [lia|]. rewrite E.
  replace (getCheckPoint L n + L - 1 + 1) with (getCheckPoint L n + 1 * L) by lia.
  rewrite Z.mod_add by lia. exact Hm.
Qed.

End E.
