(* Sync/Model.v — executable model of comm/sync.go (definitions only).

   findCommonAncestor  : fastSeek (doubling back-off from the head) followed by the bisection `find` that
                         carries the last overlapping height seen; uint32 arithmetic is written with explicit
                         wrap (wrap32 / sub32) exactly where the Go code computes on uint32.
   download            : fetchRawBlockBatches + decodeAndWarmupBatches: fetch from ancestor+1 in batches,
                         per block "decode header / number = start+i / decode body", forward to import.
   import / select     : abstract node state used by sync_converges (processBlock: known -> ignored,
                         parent missing / invalid -> error, otherwise stored and best := select).

   One unit of fuel = one isOverlapped probe (one GetBlockIDByNumber round trip). *)
From Coq Require Import List NArith Bool Lia.
From Verif Require Import Common.Util.
Import ListNotations.
Open Scope N_scope.

Definition sub32 (a b : N) : N := (a + 4294967296 - b) mod 4294967296.

Inductive outcome : Type :=
| Anc (n : N)          (* the common ancestor returned *)
| Fail (at_ : N)       (* isOverlapped returned an error at this height (RPC error / local lookup error) *)
| NoFuel.

Inductive seek_outcome : Type :=
| Seek (n : N) (rest : nat)
| SeekFail (at_ : N)
| SeekNoFuel.

Section Ancestor.
  (* ov n = Some b : the probe at height n succeeded and the two ids were equal (b=true) / different;
     None : the probe failed (peer error, time-out, local chain lookup error). *)
  Variable ov : N -> option bool.

  (* fastSeek: `for { if backward >= headNum {return 0}; probe headNum-backward; backward = 1 | backward<<1 }` *)
  Fixpoint fast_seek (head backward : N) (fuel : nat) : seek_outcome :=
    if head <=? backward then Seek 0 fuel
    else match fuel with
         | O => SeekNoFuel
         | S f =>
           let at_ := sub32 head backward in
           match ov at_ with
           | None => SeekFail at_
           | Some true => Seek at_ f
           | Some false => fast_seek head (if backward =? 0 then 1 else wrap32 (backward * 2)) f
           end
         end.

  (* find(start, end, ancestor) *)
  Fixpoint find_anc (start end_ anc : N) (fuel : nat) : outcome :=
    match fuel with
    | O => NoFuel
    | S f =>
      if start =? end_ then
        match ov start with
        | None => Fail start
        | Some true => Anc start
        | Some false => Anc anc
        end
      else
        let mid := wrap32 (start + end_) / 2 in
        match ov mid with
        | None => Fail mid
        | Some true => find_anc (wrap32 (mid + 1)) end_ mid f
        | Some false => if start <? mid then find_anc start (sub32 mid 1) anc f else Anc anc
        end
    end.

  Definition find_common_ancestor (head : N) (fuel : nat) : outcome :=
    if head =? 0 then Anc head
    else match fast_seek head 0 fuel with
         | SeekNoFuel => NoFuel
         | SeekFail a => Fail a
         | Seek s rest => if s =? head then Anc head else find_anc s head 0 rest
         end.
End Ancestor.

(* probe budget of the theorem: 2*log2 head + 4 *)
Definition ancestor_fuel (head : N) : nat := N.to_nat (2 * N.log2 head + 4).

(* ------------------------------------------------------------------ download *)

Inductive dl_status : Type :=
| DlDone                 (* peer answered an empty batch: end of its chain *)
| DlPeerError            (* RPC error, or a batch of more than max_batch blocks *)
| DlBadStructure         (* block.DecodeRawBlock failed *)
| DlBrokenSequence       (* header number <> startNum + i *)
| DlBadBody              (* RawBlock.Decode failed *)
| DlImportError          (* the block handler returned an error *)
| DlNoFuel.

Definition max_batch : nat := 1024.

Section Download.
  Variables Raw Blk : Type.
  Variable header_number : Raw -> option N.   (* block.DecodeRawBlock + Header().Number(); None = invalid structure *)
  Variable decode_body : Raw -> option Blk.   (* RawBlock.Decode; None = invalid body *)
  (* peer from = Some raws : answer to GetBlocksFromNumber(from); None = call failed *)
  Variable peer : N -> option (list Raw).

  (* decodeAndWarmupBatches on one batch: the blocks forwarded to the handler, in order, and why it stopped *)
  Fixpoint decode_batch (start : N) (i : N) (raws : list Raw) : list Blk * dl_status :=
    match raws with
    | [] => ([], DlDone)
    | r :: t =>
      match header_number r with
      | None => ([], DlBadStructure)
      | Some n =>
        if n =? wrap32 (start + i) then
          match decode_body r with
          | None => ([], DlBadBody)
          | Some b => let (l, st) := decode_batch start (i + 1) t in (b :: l, st)
          end
        else ([], DlBrokenSequence)
      end
    end.

  (* fetchRawBlockBatches composed with the decoder: the whole stream handed to the handler *)
  Fixpoint download_stream (from : N) (fuel : nat) : list Blk * dl_status :=
    match fuel with
    | O => ([], DlNoFuel)
    | S f =>
      match peer from with
      | None => ([], DlPeerError)
      | Some raws =>
        if Nat.ltb max_batch (length raws) then ([], DlPeerError)
        else match raws with
             | [] => ([], DlDone)
             | _ =>
               let (l, st) := decode_batch from 0 raws in
               match st with
               | DlDone =>
                 let (l', st') := download_stream (wrap32 (from + N.of_nat (length raws))) f in
                 (l ++ l', st')
               | _ => (l, st)
               end
             end
      end
    end.
End Download.

(* ------------------------------------------------------------------ abstract node: import / select *)

Section Node.
  Variable Blk : Type.
  Variable bid : Blk -> N.            (* block id *)
  Variable parent : Blk -> N.         (* parent id *)
  Variable valid : Blk -> bool.       (* consensus.Process + bft.Accepts verdict, given the parent is stored *)
  Variable better : Blk -> Blk -> bool.  (* the node's own select: does the new block become best? *)

  Record node := mkNode { store : list Blk; best : Blk }.

  Definition known (st : node) (i : N) : bool := existsb (fun b => bid b =? i) (store st).

  (* processBlock: errKnownBlock is swallowed; errParentMissing / consensus errors abort the stream *)
  Definition import (st : node) (b : Blk) : option node :=
    if known st (bid b) then Some st
    else if known st (parent b) && valid b
         then Some (mkNode (b :: store st) (if better b (best st) then b else best st))
         else None.

  (* handleBlockStream over a stream: stops at the first error *)
  Fixpoint import_all (st : node) (l : list Blk) : node * bool :=
    match l with
    | [] => (st, true)
    | b :: t => match import st b with
                | None => (st, false)
                | Some st' => import_all st' t
                end
    end.
End Node.

(* ------------------------------------------------------------------ concrete instance used by the oracle *)

(* overlapped predicate from two id lists indexed by height (local best chain, remote best chain);
   a height missing on either side is a failed probe, as in the code (GetBlockID error / zero id from the peer
   compares unequal: the remote answers the zero id for a height it does not have). *)
Definition ov_of_chains (local remote : list N) (n : N) : option bool :=
  match nth_error local (N.to_nat n) with
  | None => None
  | Some l => match nth_error remote (N.to_nat n) with
              | None => Some (l =? 0)
              | Some r => Some (l =? r)
              end
  end.

(* synthetic overlap: the chains agree exactly up to height l, except that the peer's answers are inverted at the
   heights in `flips` (an inconsistent peer) and the probe fails at the heights in `fails` (peer error). Used to tie
   the search to the code for heads far beyond what a real chain in the harness can have. *)
Definition ov_synth (l : N) (flips fails : list N) (n : N) : option bool :=
  if existsb (N.eqb n) fails then None
  else Some (xorb (n <=? l) (existsb (N.eqb n) flips)).

Definition ancestor_of_chains (local remote : list N) (head : N) (fuel : nat) : outcome :=
  find_common_ancestor (ov_of_chains local remote) head fuel.

(* download over a scripted peer: the answers are given per request in order (the driver supplies them from what
   the real peer stub answered), raw blocks are (structure_ok?number, body_ok) pairs *)
Definition raw_desc := (option N * bool)%type.
Definition script_peer (answers : list (N * option (list raw_desc))) (from : N) : option (list raw_desc) :=
  match List.find (fun a => fst a =? from) answers with
  | Some a => snd a
  | None => None
  end.
Definition download_script (answers : list (N * option (list raw_desc))) (from : N) (fuel : nat) : list N * dl_status :=
  download_stream raw_desc N (fun r => fst r)
                  (fun r => if snd r then match fst r with Some n => Some n | None => None end else None)
                  (script_peer answers) from fuel.
