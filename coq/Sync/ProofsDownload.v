(* Sync/ProofsDownload.v — the batch decoder forwards exactly the longest well-formed in-sequence prefix; the
   stream handed to import is consecutively numbered for EVERY peer; an honest peer's chain is delivered whole
   for every choice of batch boundaries; importing it makes the peer's head the best block. *)
From Coq Require Import List NArith ZArith Bool Lia ZifyN ZifyNat ZifyBool.
From Verif Require Import Common.Util Sync.Model Sync.Proofs.
Import ListNotations.
Open Scope N_scope.
Ltac Zify.zify_post_hook ::= Z.div_mod_to_equations.

Ltac split_and := repeat match goal with |- _ /\ _ => split end.

Section Batch.
  Variables Raw Blk : Type.
  Variable header_number : Raw -> option N.
  Variable decode_body : Raw -> option Blk.

  Definition good (start k : N) (r : Raw) : Prop :=
    header_number r = Some (wrap32 (start + k)) /\ decode_body r <> None.

  Definition offending (start k : N) (r : Raw) (st : dl_status) : Prop :=
    match st with
    | DlBadStructure => header_number r = None
    | DlBrokenSequence => exists n, header_number r = Some n /\ n <> wrap32 (start + k)
    | DlBadBody => header_number r = Some (wrap32 (start + k)) /\ decode_body r = None
    | _ => False
    end.

  (* bad_batch_rejected: what is forwarded is the decoded longest prefix of good blocks; the first offending
     block and everything behind it is not forwarded, and the status names the offence. *)
  Lemma decode_batch_spec : forall raws start i l st,
      decode_batch Raw Blk header_number decode_body start i raws = (l, st) ->
      exists pre post,
        raws = pre ++ post /\ length pre = length l /\
        (forall k r, nth_error pre k = Some r ->
                     good start (i + N.of_nat k) r /\ decode_body r = nth_error l k) /\
        match st with
        | DlDone => post = []
        | _ => exists r t, post = r :: t /\ offending start (i + N.of_nat (length pre)) r st
        end.
  Proof.
    induction raws as [|r t IH]; intros start i l st H; cbn [decode_batch] in H.
    - inversion H; subst. exists [], []. split_and; auto. intros k r Hk. destruct k; discriminate.
    - destruct (header_number r) as [n|] eqn:Eh.
      2:{ inversion H; subst. exists [], (r :: t). split_and; auto.
          - intros k r0 Hk; destruct k; discriminate.
          - exists r, t. split; auto. }
      destruct (n =? wrap32 (start + i)) eqn:En.
      2:{ inversion H; subst. exists [], (r :: t). split_and; auto.
          - intros k r0 Hk; destruct k; discriminate.
          - exists r, t. split; auto. cbn. exists n. split; auto.
            apply N.eqb_neq in En. rewrite N.add_0_r. auto. }
      apply N.eqb_eq in En. subst n.
      destruct (decode_body r) as [b|] eqn:Eb.
      2:{ inversion H; subst. exists [], (r :: t). split_and; auto.
          - intros k r0 Hk; destruct k; discriminate.
          - exists r, t. split; auto. cbn. rewrite N.add_0_r. auto. }
      destruct (decode_batch Raw Blk header_number decode_body start (i + 1) t) as [l' st'] eqn:Er.
      inversion H; subst; clear H.
      destruct (IH _ _ _ _ Er) as [pre [post [H1 [H2 [H3 H4]]]]].
      exists (r :: pre), post. split_and.
      + cbn. f_equal. auto.
      + cbn. f_equal. auto.
      + intros k r0 Hk. destruct k as [|k]; cbn in Hk.
        * inversion Hk; subst r0. rewrite N.add_0_r. cbn. unfold good. split; [split|]; auto. congruence.
        * destruct (H3 _ _ Hk) as [[G1 G2] G3].
          replace (i + N.of_nat (S k)) with (i + 1 + N.of_nat k) by lia.
          cbn. unfold good. auto.
      + replace (i + N.of_nat (length (r :: pre))) with (i + 1 + N.of_nat (length pre)) by (cbn [length]; lia).
        destruct st; auto.
  Qed.
End Batch.

Lemma wrap32_add_l a b : wrap32 (wrap32 a + b) = wrap32 (a + b).
Proof. unfold wrap32. lia. Qed.

(* ---------------- the stream handed to import is consecutively numbered, whatever the peer does *)
Section Stream.
  Variables Raw Blk : Type.
  Variable header_number : Raw -> option N.
  Variable decode_body : Raw -> option Blk.
  Variable num : Blk -> N.
  (* RawBlock.Decode decodes the very header whose number was checked *)
  Hypothesis body_header : forall r b n, decode_body r = Some b -> header_number r = Some n -> num b = n.
  Variable peer : N -> option (list Raw).

  Lemma decode_batch_numbers : forall raws start i l st,
      decode_batch Raw Blk header_number decode_body start i raws = (l, st) ->
      forall k b, nth_error l k = Some b -> num b = wrap32 (start + i + N.of_nat k).
  Proof.
    intros raws start i l st H k b Hk.
    destruct (decode_batch_spec _ _ _ _ _ _ _ _ _ H) as [pre [post [H1 [H2 [H3 H4]]]]].
    assert (Hlt : (k < length pre)%nat).
    { rewrite H2. apply nth_error_Some. congruence. }
    destruct (nth_error pre k) as [r|] eqn:Er; [|apply nth_error_None in Er; lia].
    destruct (H3 _ _ Er) as [[G1 G2] G3].
    rewrite Hk in G3. rewrite (body_header _ _ _ G3 G1). f_equal. lia.
  Qed.

  Lemma decode_batch_done_length : forall raws start i l,
      decode_batch Raw Blk header_number decode_body start i raws = (l, DlDone) -> length l = length raws.
  Proof.
    intros raws start i l H.
    destruct (decode_batch_spec _ _ _ _ _ _ _ _ _ H) as [pre [post [H1 [H2 [H3 H4]]]]].
    subst post. rewrite app_nil_r in H1. subst. auto.
  Qed.

  Theorem stream_in_sequence : forall fuel from l st,
      download_stream Raw Blk header_number decode_body peer from fuel = (l, st) ->
      forall k b, nth_error l k = Some b -> num b = wrap32 (from + N.of_nat k).
  Proof.
    induction fuel as [|f IH]; intros from l st H k b Hk; cbn [download_stream] in H.
    - inversion H; subst. destruct k; discriminate.
    - destruct (peer from) as [raws|]; [|inversion H; subst; destruct k; discriminate].
      destruct (Nat.ltb max_batch (length raws)); [inversion H; subst; destruct k; discriminate|].
      destruct raws as [|r0 t0]; [inversion H; subst; destruct k; discriminate|].
      remember (r0 :: t0) as raws.
      destruct (decode_batch Raw Blk header_number decode_body from 0 raws) as [l1 st1] eqn:Ed.
      assert (Hb := decode_batch_numbers _ _ _ _ _ Ed).
      destruct st1;
        try (inversion H; subst; rewrite (Hb _ _ Hk); f_equal; lia).
      destruct (download_stream Raw Blk header_number decode_body peer
                                (wrap32 (from + N.of_nat (length raws))) f) as [l2 st2] eqn:Er.
      inversion H; subst l st; clear H.
      destruct (Nat.lt_ge_cases k (length l1)) as [Hlt|Hge].
      + rewrite nth_error_app1 in Hk by auto. rewrite (Hb _ _ Hk). f_equal. lia.
      + rewrite nth_error_app2 in Hk by auto.
        rewrite (IH _ _ _ Er _ _ Hk). rewrite wrap32_add_l.
        rewrite <- (decode_batch_done_length _ _ _ _ Ed). f_equal. lia.
  Qed.
End Stream.

Lemma nth_error_firstn' {A} : forall n (l : list A) k, (k < n)%nat -> nth_error (firstn n l) k = nth_error l k.
Proof.
  induction n as [|n IH]; intros l k Hk; [lia|].
  destruct l as [|a t]; cbn; [destruct k; auto|]. destruct k as [|k]; cbn; auto. apply IH. lia.
Qed.

Lemma nth_error_skipn' {A} : forall n (l : list A) k, nth_error (skipn n l) k = nth_error l (n + k).
Proof.
  induction n as [|n IH]; intros l k; cbn; auto.
  destruct l as [|a t]; cbn; [destruct k; auto|]. apply IH.
Qed.

Lemma skipn_add' {A} : forall b a (l : list A), skipn (b + a) l = skipn a (skipn b l).
Proof.
  induction b as [|b IH]; intros a l; cbn; auto.
  destruct l as [|x t]; [destruct a; auto|]. apply IH.
Qed.

(* ---------------- an honest peer: the remote chain is delivered whole for every batch cut *)
Section Honest.
  Variable Blk : Type.
  Variable num : Blk -> N.
  Variable rc : list Blk.                       (* the peer's best chain by height *)
  Hypothesis rc_numbers : forall n b, nth_error rc n = Some b -> num b = N.of_nat n.
  Hypothesis rc_short : N.of_nat (length rc) < 4294967296.
  Variable cut : N -> nat.                      (* how many blocks the peer puts into the answer to a request *)
  Hypothesis cut_pos : forall n, (1 <= cut n <= max_batch)%nat.

  Definition honest_peer (from : N) : option (list Blk) :=
    Some (firstn (cut from) (skipn (N.to_nat from) rc)).

  Let hdr := fun b : Blk => Some (num b).
  Let body := fun b : Blk => Some b.

  Lemma decode_honest : forall l start i,
      (forall k b, nth_error l k = Some b -> num b = wrap32 (start + i + N.of_nat k)) ->
      decode_batch Blk Blk hdr body start i l = (l, DlDone).
  Proof.
    induction l as [|b t IH]; intros start i H; cbn [decode_batch]; auto.
    unfold hdr at 1. rewrite (H 0%nat b eq_refl).
    replace (start + i + N.of_nat 0) with (start + i) by lia. rewrite N.eqb_refl.
    unfold body at 1. rewrite IH; auto.
    intros k b' Hk. rewrite (H (S k) b' Hk). f_equal. lia.
  Qed.

  Theorem download_honest : forall fuel from,
      (length rc - N.to_nat from < fuel)%nat -> from < 4294967296 ->
      download_stream Blk Blk hdr body honest_peer from fuel = (skipn (N.to_nat from) rc, DlDone).
  Proof.
    induction fuel as [|f IH]; intros from Hf Hfrom; [lia|].
    cbn [download_stream]. unfold honest_peer at 1.
    set (rest := skipn (N.to_nat from) rc).
    set (raws := firstn (cut from) rest).
    assert (Hlen : (length raws <= max_batch)%nat).
    { unfold raws. rewrite firstn_length. pose proof (cut_pos from). lia. }
    destruct (Nat.ltb max_batch (length raws)) eqn:El; [apply Nat.ltb_lt in El; lia|].
    assert (Hrest : length rest = (length rc - N.to_nat from)%nat) by (unfold rest; apply skipn_length).
    destruct raws as [|r0 t0] eqn:Eraws.
    - (* empty answer: the chain is exhausted *)
      assert (length raws = 0%nat) by (rewrite Eraws; auto).
      unfold raws in H. rewrite firstn_length in H. pose proof (cut_pos from).
      assert (length rest = 0%nat) by lia. destruct rest; [auto|discriminate].
    - rewrite <- Eraws.
      assert (Hnum : forall k b, nth_error raws k = Some b -> num b = wrap32 (from + 0 + N.of_nat k)).
      { intros k b Hk.
        assert (Hk' : nth_error rc (N.to_nat from + k) = Some b).
        { assert (Hlt : (k < length raws)%nat) by (apply nth_error_Some; congruence).
          unfold raws in Hk, Hlt. rewrite firstn_length in Hlt.
          rewrite nth_error_firstn' in Hk by lia. unfold rest in Hk.
          rewrite nth_error_skipn' in Hk. auto. }
        rewrite (rc_numbers _ _ Hk').
        assert (Hlt : (N.to_nat from + k < length rc)%nat) by (apply nth_error_Some; congruence).
        rewrite wrap32_small by lia. lia. }
      rewrite (decode_honest raws from 0 Hnum).
      assert (Hpos : (1 <= length raws)%nat) by (rewrite Eraws; cbn; lia).
      assert (Hle : (length raws <= length rest)%nat) by (unfold raws; rewrite firstn_length; lia).
      rewrite wrap32_small by lia.
      rewrite IH by lia.
      f_equal.
      replace (N.to_nat (from + N.of_nat (length raws))) with (N.to_nat from + length raws)%nat by lia.
      rewrite skipn_add'. fold rest.
      replace (length raws) with (Nat.min (cut from) (length rest)) by (unfold raws; rewrite firstn_length; auto).
      unfold raws.
      destruct (Nat.le_ge_cases (cut from) (length rest)) as [Hc|Hc].
      + rewrite Nat.min_l by auto. apply firstn_skipn.
      + rewrite Nat.min_r by auto. rewrite firstn_all2 by auto. rewrite skipn_all. apply app_nil_r.
  Qed.
End Honest.

(* ---------------- import of a linked valid chain makes its head best *)
Section Import.
  Variable Blk : Type.
  Variable bid parent : Blk -> N.
  Variable valid : Blk -> bool.
  Variable better : Blk -> Blk -> bool.
  (* the node's own select is a strict weak order *)
  Hypothesis better_asym : forall x y, better x y = true -> better y x = false.
  Hypothesis better_cotrans : forall x y z, better x z = true -> better x y = true \/ better y z = true.

  Notation node := (node Blk).
  Notation import := (import Blk bid parent valid better).
  Notation import_all := (import_all Blk bid parent valid better).
  Notation known := (known Blk bid).

  (* best is maximal in the store *)
  Definition best_max (st : node) : Prop := forall x, In x (store Blk st) -> better x (best Blk st) = false.

  Lemma better_irrefl x : better x x = false.
  Proof. destruct (better x x) eqn:E; auto. rewrite (better_asym _ _ E) in E. discriminate. Qed.

  Lemma known_in st i : known st i = true <-> exists b, In b (store Blk st) /\ bid b = i.
  Proof.
    unfold Model.known. rewrite existsb_exists.
    split; intros [b [H1 H2]]; exists b; split; auto; apply N.eqb_eq; auto.
  Qed.

  Lemma import_inv st b st' : best_max st -> import st b = Some st' ->
      best_max st' /\ known st' (bid b) = true /\
      (forall i, known st i = true -> known st' i = true) /\
      (best Blk st' = best Blk st \/ best Blk st' = b).
  Proof.
    intros Hmax H. unfold Model.import in H.
    destruct (known st (bid b)) eqn:Ek.
    { inversion H; subst. auto. }
    destruct (known st (parent b) && valid b); [|discriminate].
    inversion H; subst; clear H. cbn [store best].
    split; [|split; [|split]].
    - intros x [->|Hx].
      + destruct (better x (best Blk st)) eqn:E; cbn [best]; auto. apply better_irrefl.
      + destruct (better b (best Blk st)) eqn:E; cbn [best]; auto.
        destruct (better x b) eqn:Exb; auto.
        destruct (better_cotrans x (best Blk st) b Exb) as [C|C].
        * rewrite (Hmax _ Hx) in C. discriminate.
        * rewrite (better_asym _ _ E) in C. discriminate.
    - apply known_in. exists b. cbn [store]. split; [left; auto|auto].
    - intros i Hi. apply known_in in Hi. destruct Hi as [x [Hx1 Hx2]].
      apply known_in. exists x. cbn [store]. split; [right; auto|auto].
    - destruct (better b (best Blk st)); auto.
  Qed.

  (* a stream is linked to the store: the first block's parent is known, each next block's parent is the previous *)
  Fixpoint linked (st_known : N -> bool) (l : list Blk) : Prop :=
    match l with
    | [] => True
    | b :: t => st_known (parent b) = true /\ valid b = true /\
                linked (fun i => (i =? bid b) || st_known i) t
    end.

  Lemma linked_weaken : forall l (k1 k2 : N -> bool),
      (forall i, k1 i = true -> k2 i = true) -> linked k1 l -> linked k2 l.
  Proof.
    induction l as [|b t IH]; intros k1 k2 Hk H; cbn in *; auto.
    destruct H as [H1 [H2 H3]]. repeat split; auto.
    eapply IH; [|exact H3]. intros i Hi. apply orb_true_iff in Hi. apply orb_true_iff.
    destruct Hi; auto.
  Qed.

  Lemma import_all_ok : forall l st, best_max st -> linked (known st) l ->
      exists st', import_all st l = (st', true) /\ best_max st' /\
                  (forall b, In b l -> known st' (bid b) = true) /\
                  (forall i, known st i = true -> known st' i = true) /\
                  (best Blk st' = best Blk st \/ In (best Blk st') l).
  Proof.
    induction l as [|b t IH]; intros st Hmax Hl.
    - exists st. cbn. split_and; auto.
    - cbn in Hl. destruct Hl as [Hp [Hv Hrest]].
      cbn [Model.import_all].
      assert (Himp : exists st1, import st b = Some st1).
      { unfold Model.import. destruct (known st (bid b)); eauto. rewrite Hp, Hv. cbn. eauto. }
      destruct Himp as [st1 Himp]. rewrite Himp.
      destruct (import_inv _ _ _ Hmax Himp) as [M1 [M2 [M3 M4]]].
      destruct (IH st1 M1) as [st' [I1 [I2 [I3 [I4 I5]]]]].
      { eapply linked_weaken; [|exact Hrest]. intros i Hi. apply orb_true_iff in Hi.
        destruct Hi as [Hi|Hi]; auto. apply N.eqb_eq in Hi. subst. auto. }
      exists st'. split_and; auto.
      + intros x [->|Hx]; auto.
      + destruct I5 as [I5|I5]; [|right; right; auto].
        destruct M4 as [M4|M4]; [left; congruence|]. right. left. congruence.
  Qed.

  (* ids identify blocks (hash collision freeness; the hash itself is not modelled) *)
  Hypothesis bid_inj : forall x y, bid x = bid y -> x = y.

  (* sync_converges (import part): the stream is the peer's chain above the common ancestor; its head h is
     preferred by the node's own select over the current best and over the other blocks of the stream. *)
  Theorem import_reaches_head : forall l st h,
      best_max st -> linked (known st) l -> In h l ->
      better h (best Blk st) = true ->
      (forall b, In b l -> b <> h -> better h b = true) ->
      exists st', import_all st l = (st', true) /\ best Blk st' = h /\
                  (forall b, In b l -> known st' (bid b) = true) /\
                  (forall i, known st i = true -> known st' i = true).
  Proof.
    intros l st h Hmax Hl Hh Hb Hothers.
    destruct (import_all_ok l st Hmax Hl) as [st' [I1 [I2 [I3 [I4 I5]]]]].
    exists st'. split_and; auto.
    assert (Hk := I3 _ Hh). apply known_in in Hk. destruct Hk as [h' [Hh'1 Hh'2]].
    apply bid_inj in Hh'2. subst h'.
    assert (Hnb := I2 _ Hh'1).
    destruct I5 as [I5|I5].
    - rewrite I5 in Hnb. congruence.
    - destruct (N.eq_dec (bid (best Blk st')) (bid h)) as [E|E]; [apply bid_inj; auto|].
      exfalso. assert (Hne : best Blk st' <> h) by (intro X; apply E; congruence).
      rewrite (Hothers _ I5 Hne) in Hnb. discriminate.
  Qed.
End Import.
