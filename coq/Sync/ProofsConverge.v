(* Sync/ProofsConverge.v — sync_converges: ancestor search + download from an honest peer (any batch cuts) +
   import through the node's own select ends with the peer's head as best block. *)
From Coq Require Import List NArith ZArith Bool Lia ZifyN ZifyNat ZifyBool.
From Verif Require Import Common.Util Sync.Model Sync.Proofs Sync.ProofsDownload.
Import ListNotations.
Open Scope N_scope.

Section Converge.
  Variable Blk : Type.
  Variable bid parent num : Blk -> N.
  Variable valid : Blk -> bool.
  Variable better : Blk -> Blk -> bool.
  Hypothesis better_asym : forall x y, better x y = true -> better y x = false.
  Hypothesis better_cotrans : forall x y z, better x z = true -> better x y = true \/ better y z = true.
  Hypothesis bid_inj : forall x y, bid x = bid y -> x = y.

  (* a chain by height: element n+1 names element n as its parent *)
  Definition chain_linked (c : list Blk) : Prop :=
    forall n x y, nth_error c n = Some y -> nth_error c (S n) = Some x -> parent x = bid y.

  Variables lc rc : list Blk.      (* local best chain, remote best chain, index = height *)
  Hypothesis lc_linked : chain_linked lc.
  Hypothesis rc_linked : chain_linked rc.

  Definition same_at (n : N) : bool :=
    match nth_error lc (N.to_nat n), nth_error rc (N.to_nat n) with
    | Some x, Some y => bid x =? bid y
    | _, _ => false
    end.

  Lemma same_at_pred n : same_at (N.succ n) = true -> same_at n = true.
  Proof.
    unfold same_at. rewrite N2Nat.inj_succ.
    destruct (nth_error lc (S (N.to_nat n))) as [x|] eqn:E1; [|discriminate].
    destruct (nth_error rc (S (N.to_nat n))) as [y|] eqn:E2; [|discriminate].
    intro H. apply N.eqb_eq in H. apply bid_inj in H. subst y.
    destruct (nth_error lc (N.to_nat n)) as [x'|] eqn:E3.
    2:{ apply nth_error_None in E3. assert (S (N.to_nat n) < length lc)%nat by (apply nth_error_Some; congruence). lia. }
    destruct (nth_error rc (N.to_nat n)) as [y'|] eqn:E4.
    2:{ apply nth_error_None in E4. assert (S (N.to_nat n) < length rc)%nat by (apply nth_error_Some; congruence). lia. }
    apply N.eqb_eq. rewrite <- (lc_linked _ _ _ E3 E1). rewrite <- (rc_linked _ _ _ E4 E2). auto.
  Qed.

  Lemma same_at_monotone : monotone same_at.
  Proof.
    intros n m Hle. replace n with (m + (n - m)) by lia. generalize (n - m). clear Hle n.
    intro d. induction d as [|d IH] using N.peano_ind.
    - rewrite N.add_0_r. auto.
    - intro H. apply IH. apply same_at_pred. replace (N.succ (m + d)) with (m + N.succ d) by lia. auto.
  Qed.

  Variable st : node Blk.
  Hypothesis st_max : best_max Blk better st.
  Hypothesis lc_known : forall b, In b lc -> In b (store Blk st).
  Hypothesis same_genesis : same_at 0 = true.
  Hypothesis lc_nonempty : lc <> [].
  Let head := N.of_nat (length lc - 1).
  Hypothesis head_small : head < 2147483648.

  Hypothesis rc_numbers : forall n b, nth_error rc n = Some b -> num b = N.of_nat n.
  Hypothesis rc_short : N.of_nat (length rc) < 4294967296.
  Hypothesis rc_valid : forall b, In b rc -> valid b = true.
  Variable cut : N -> nat.
  Hypothesis cut_pos : forall n, (1 <= cut n <= max_batch)%nat.

  Variable h : Blk.                (* the peer's head *)
  Hypothesis h_last : nth_error rc (length rc - 1) = Some h.
  Hypothesis h_preferred : better h (best Blk st) = true.
  Hypothesis h_top : forall b, In b rc -> b <> h -> better h b = true.

  Lemma linked_chain : forall l prev (k : N -> bool),
      k (bid prev) = true ->
      (forall b, In b l -> valid b = true) ->
      (forall n x y, nth_error (prev :: l) n = Some y -> nth_error (prev :: l) (S n) = Some x -> parent x = bid y) ->
      linked Blk bid parent valid k l.
  Proof.
    induction l as [|b t IH]; intros prev k Hk Hv Hl; cbn [linked]; auto.
    split; [|split].
    - rewrite (Hl 0%nat b prev eq_refl eq_refl). auto.
    - apply Hv. left; auto.
    - apply (IH b).
      + rewrite N.eqb_refl. auto.
      + intros x Hx. apply Hv. right; auto.
      + intros n x y H1 H2. apply (Hl (S n) x y); auto.
  Qed.

  Theorem sync_converges_thm : forall fuel fuel2,
      (ancestor_fuel head <= fuel)%nat -> (length rc < fuel2)%nat ->
      exists a l st',
        find_common_ancestor (fun n => Some (same_at n)) head fuel = Anc a /\
        is_last same_at head a /\
        download_stream Blk Blk (fun b => Some (num b)) (fun b => Some b) (honest_peer Blk rc cut) (a + 1) fuel2
          = (l, DlDone) /\
        import_all Blk bid parent valid better st l = (st', true) /\
        best Blk st' = h.
  Proof.
    intros fuel fuel2 Hf Hf2.
    destruct (ancestor_correct_all same_at head fuel same_at_monotone same_genesis head_small Hf) as [a [Ha1 Ha2]].
    assert (Hdl := download_honest Blk num rc rc_numbers rc_short cut cut_pos fuel2 (a + 1)).
    assert (Ha2' := Ha2).
    destruct Ha2 as [A1 [A2 A3]].
    assert (Hfrom : a + 1 < 4294967296) by lia.
    (* rc[a] exists and is in the local store *)
    unfold same_at in A2.
    destruct (nth_error lc (N.to_nat a)) as [x|] eqn:Ex; [|discriminate].
    destruct (nth_error rc (N.to_nat a)) as [y|] eqn:Ey; [|discriminate].
    apply N.eqb_eq in A2. apply bid_inj in A2. subst y.
    assert (Hxs : In x (store Blk st)) by (apply lc_known; eapply nth_error_In; eauto).
    set (l := skipn (N.to_nat (a + 1)) rc).
    assert (Hsplit : rc = firstn (N.to_nat a) rc ++ x :: l).
    { unfold l. replace (N.to_nat (a + 1)) with (S (N.to_nat a)) by lia.
      rewrite <- (firstn_skipn (N.to_nat a) rc) at 1. f_equal.
      clear - Ey. revert Ey. generalize (N.to_nat a). intro n. revert rc.
      induction n as [|n IH]; intros [|r t] E; cbn in *; try discriminate.
      - inversion E; auto.
      - apply IH; auto. }
    (* every block of the remote chain up to height a is the local one, hence stored *)
    assert (Hlow : forall b, In b (firstn (N.to_nat a) rc) -> In b (store Blk st)).
    { intros b Hb. apply In_nth_error in Hb. destruct Hb as [n Hn].
      assert (Hlt : (n < N.to_nat a)%nat).
      { assert (n < length (firstn (N.to_nat a) rc))%nat by (apply nth_error_Some; congruence).
        rewrite firstn_length in H. lia. }
      rewrite nth_error_firstn' in Hn by auto.
      assert (Hs : same_at (N.of_nat n) = true).
      { apply (same_at_monotone a); [lia|]. unfold same_at. rewrite Ex, Ey. apply N.eqb_refl. }
      unfold same_at in Hs. rewrite Nat2N.id, Hn in Hs.
      destruct (nth_error lc n) as [z|] eqn:Ez; [|discriminate].
      apply N.eqb_eq in Hs. apply bid_inj in Hs. subst z. apply lc_known. eapply nth_error_In; eauto. }
    assert (Hl : linked Blk bid parent valid (known Blk bid st) l).
    { apply (linked_chain l x).
      - apply known_in. exists x. auto.
      - intros b Hb. apply rc_valid. rewrite Hsplit. apply in_or_app. right. right. auto.
      - intros n x0 y0 H1 H2.
        apply (rc_linked (N.to_nat a + n)%nat x0 y0).
        + rewrite Hsplit. rewrite nth_error_app2; rewrite firstn_length.
          * replace (N.to_nat a + n - Nat.min (N.to_nat a) (length rc))%nat with n; auto.
            assert (N.to_nat a < length rc)%nat by (apply nth_error_Some; congruence). lia.
          * lia.
        + rewrite Hsplit. rewrite nth_error_app2; rewrite firstn_length.
          * replace (S (N.to_nat a + n) - Nat.min (N.to_nat a) (length rc))%nat with (S n); auto.
            assert (N.to_nat a < length rc)%nat by (apply nth_error_Some; congruence). lia.
          * lia. }
    (* the head is in the stream (otherwise it would be stored, contradicting maximality of best) *)
    assert (Hh : In h l).
    { assert (Hin : In h rc) by (eapply nth_error_In; eauto).
      rewrite Hsplit in Hin. apply in_app_or in Hin. destruct Hin as [Hin|[Hin|Hin]]; auto.
      - apply Hlow in Hin. rewrite (st_max _ Hin) in h_preferred. discriminate.
      - subst x. rewrite (st_max _ Hxs) in h_preferred. discriminate. }
    destruct (import_reaches_head Blk bid parent valid better better_asym better_cotrans bid_inj l st h
                                  st_max Hl Hh h_preferred) as [st' [I1 [I2 _]]].
    { intros b Hb Hne. apply h_top; auto. rewrite Hsplit. apply in_or_app. right. right. auto. }
    exists a, l, st'. split_and; auto.
    apply Hdl; lia.
  Qed.
End Converge.
