(* Sync/Proofs.v — correctness of the common-ancestor search (fastSeek + bisection), for every head < 2^31,
   every monotone overlap predicate, with the probe budget 2*log2 head + 4 and no uint32 wrap. *)
From Coq Require Import List NArith ZArith Bool Lia ZifyN ZifyNat ZifyBool.
From Verif Require Import Common.Util Sync.Model.
Import ListNotations.
Open Scope N_scope.
Ltac Zify.zify_post_hook ::= Z.div_mod_to_equations.

Definition monotone (P : N -> bool) : Prop := forall n m, m <= n -> P n = true -> P m = true.

(* L is the last height <= head at which the two chains hold the same block *)
Definition is_last (P : N -> bool) (head L : N) : Prop :=
  L <= head /\ P L = true /\ forall m, L < m -> m <= head -> P m = false.

Lemma is_last_exists P head : P 0 = true -> exists L, is_last P head L.
Proof.
  intros H0. induction head as [|h IH] using N.peano_ind.
  - exists 0. unfold is_last. split; [lia|]. split; [auto|]. intros; lia.
  - destruct IH as [L [HL1 [HL2 HL3]]].
    destruct (P (N.succ h)) eqn:E.
    + exists (N.succ h). unfold is_last. split; [lia|]. split; [auto|]. intros; lia.
    + exists L. unfold is_last. split; [lia|]. split; [auto|].
      intros m Hm1 Hm2. destruct (N.eq_dec m (N.succ h)) as [->|Hne]; auto. apply HL3; lia.
Qed.

Lemma is_last_unique P head L L' : is_last P head L -> is_last P head L' -> L = L'.
Proof.
  intros [A1 [A2 A3]] [B1 [B2 B3]].
  destruct (N.lt_trichotomy L L') as [H|[H|H]]; auto.
  - rewrite (A3 L') in B2; auto; discriminate.
  - rewrite (B3 L) in A2; auto; discriminate.
Qed.

Lemma last_true_iff P head L : monotone P -> is_last P head L ->
  forall m, m <= head -> (P m = true <-> m <= L).
Proof.
  intros Hm [A1 [A2 A3]] m Hle. split; intro H.
  - destruct (N.le_gt_cases m L); auto. rewrite A3 in H; auto; discriminate.
  - eapply Hm; eauto.
Qed.

Lemma wrap32_small x : x < 4294967296 -> wrap32 x = x.
Proof. intros. unfold wrap32. apply N.mod_small; auto. Qed.

Lemma sub32_small a b : b <= a -> a < 4294967296 -> sub32 a b = a - b.
Proof. intros. unfold sub32. lia. Qed.

Section WithP.
  Variable P : N -> bool.
  Variable head : N.
  Hypothesis Hmono : monotone P.
  Hypothesis Hhead : head < 2147483648.
  Variable L : N.
  Hypothesis HL : is_last P head L.

  Let ov := fun n : N => Some (P n).

  (* ---------------- bisection *)
  Lemma find_correct : forall fuel s e anc,
      s <= e -> e <= head -> L <= e -> (s <= L \/ L = anc) ->
      e - s + 1 < 2 ^ N.of_nat fuel ->
      find_anc ov s e anc fuel = Anc L.
  Proof.
    induction fuel as [|f IH]; intros s e anc Hse Heh HLe Hinv Hsz.
    - cbn in Hsz. lia.
    - assert (Hpow : 2 ^ N.of_nat (S f) = 2 * 2 ^ N.of_nat f).
      { rewrite Nat2N.inj_succ, N.pow_succ_r'; auto. }
      rewrite Hpow in Hsz.
      cbn [find_anc]. unfold ov at 1 2.
      destruct (s =? e) eqn:Ese.
      + apply N.eqb_eq in Ese. subst e.
        destruct (P s) eqn:Ps.
        * f_equal. apply (last_true_iff P head L Hmono HL) in Ps; lia.
        * f_equal. destruct Hinv as [Hinv|Hinv]; auto.
          assert (P s = true) by (apply (last_true_iff P head L Hmono HL); lia). congruence.
      + apply N.eqb_neq in Ese.
        rewrite (wrap32_small (s + e)) by lia.
        set (mid := (s + e) / 2).
        assert (Hmid : s <= mid /\ mid < e) by (unfold mid; lia).
        destruct (P mid) eqn:Pm.
        * apply (last_true_iff P head L Hmono HL) in Pm; [|lia].
          rewrite (wrap32_small (mid + 1)) by lia.
          apply IH; unfold mid in *; lia.
        * assert (HLm : L < mid).
          { destruct (N.lt_ge_cases L mid); auto.
            assert (P mid = true) by (apply (last_true_iff P head L Hmono HL); lia). congruence. }
          destruct (s <? mid) eqn:Esm.
          -- apply N.ltb_lt in Esm. rewrite sub32_small by lia.
             apply IH; unfold mid in *; lia.
          -- apply N.ltb_ge in Esm. f_equal. lia.
  Qed.

  (* ---------------- fastSeek: result is an overlapping height (or 0), and at most c probes are spent
        when backward * 2^c >= head *)
  Lemma fast_seek_correct : forall c fuel b,
      1 <= b -> b < 4294967296 -> head <= b * 2 ^ N.of_nat c -> (c <= fuel)%nat ->
      exists s rest, fast_seek ov head b fuel = Seek s rest /\ (fuel - c <= rest)%nat /\
                     s <= head /\ (s = 0 \/ P s = true).
  Proof.
    induction c as [|c IH]; intros fuel b Hb1 Hb2 Hcov Hfuel.
    - cbn in Hcov. destruct fuel; cbn [fast_seek];
        (destruct (head <=? b) eqn:E; [|apply N.leb_gt in E; lia]);
        eexists _, _; repeat split; eauto; try lia.
    - destruct (head <=? b) eqn:E.
      + destruct fuel; cbn [fast_seek]; rewrite E; eexists _, _; repeat split; eauto; try lia.
      + apply N.leb_gt in E.
        destruct fuel as [|f]; [lia|].
        cbn [fast_seek]. apply N.leb_gt in E. rewrite E. apply N.leb_gt in E.
        unfold ov at 1. rewrite sub32_small by lia.
        destruct (P (head - b)) eqn:Pb.
        * eexists _, _; repeat split; eauto; try lia.
        * assert (Hb0 : (b =? 0) = false) by (apply N.eqb_neq; lia). rewrite Hb0.
          rewrite wrap32_small by lia.
          destruct (IH f (b * 2)) as [s [rest [H1 [H2 [H3 H4]]]]]; try lia.
          { rewrite Nat2N.inj_succ, N.pow_succ_r' in Hcov. lia. }
          exists s, rest. repeat split; auto; try lia.
  Qed.

  Lemma head_le_pow : head <= 1 * 2 ^ N.of_nat (N.to_nat (N.log2 head + 1)).
  Proof.
    rewrite N2Nat.id, N.mul_1_l.
    destruct (N.eq_dec head 0) as [->|Hne]; [cbn; lia|].
    assert (H := N.log2_spec head ltac:(lia)). rewrite N.add_1_r. lia.
  Qed.

  Lemma head_lt_pow : head + 1 < 2 ^ N.of_nat (N.to_nat (N.log2 head + 2)).
  Proof.
    rewrite N2Nat.id.
    destruct (N.eq_dec head 0) as [->|Hne]; [cbn; lia|].
    assert (H := N.log2_spec head ltac:(lia)).
    replace (N.log2 head + 2) with (N.succ (N.succ (N.log2 head))) by lia.
    rewrite N.pow_succ_r'. lia.
  Qed.

  Hypothesis HP0 : P 0 = true.

  Theorem fca_correct : forall fuel, (ancestor_fuel head <= fuel)%nat ->
      find_common_ancestor ov head fuel = Anc L.
  Proof.
    intros fuel Hfuel. unfold ancestor_fuel in Hfuel.
    unfold find_common_ancestor.
    destruct (head =? 0) eqn:Eh.
    { apply N.eqb_eq in Eh. destruct HL as [A _]. f_equal. lia. }
    apply N.eqb_neq in Eh.
    (* first probe at the head itself *)
    destruct fuel as [|f]; [lia|].
    cbn [fast_seek].
    assert (E0 : (head <=? 0) = false) by (apply N.leb_gt; lia). rewrite E0.
    unfold ov at 1. rewrite sub32_small by lia. rewrite N.sub_0_r.
    destruct (P head) eqn:Ph.
    - rewrite N.eqb_refl. f_equal.
      apply (last_true_iff P head L Hmono HL) in Ph; [|lia]. destruct HL as [A _]. lia.
    - cbn [N.eqb].
      set (c := N.to_nat (N.log2 head + 1)).
      destruct (fast_seek_correct c f 1) as [s [rest [H1 [H2 [H3 H4]]]]]; try lia.
      { apply head_le_pow. }
      rewrite H1.
      assert (Ps : P s = true) by (destruct H4 as [->|]; auto).
      destruct (s =? head) eqn:Es.
      { apply N.eqb_eq in Es. congruence. }
      apply N.eqb_neq in Es.
      assert (HsL : s <= L) by (apply (last_true_iff P head L Hmono HL); auto).
      destruct HL as [A1 _].
      apply find_correct; try lia.
      apply N.lt_le_trans with (2 ^ N.of_nat (N.to_nat (N.log2 head + 2))).
      { pose proof head_lt_pow. lia. }
      apply N.pow_le_mono_r; [lia|]. unfold c in H2. lia.
  Qed.
End WithP.

(* the statement of the property file *)
Theorem ancestor_correct_all : forall (P : N -> bool) head fuel,
    monotone P -> P 0 = true -> head < 2147483648 -> (ancestor_fuel head <= fuel)%nat ->
    exists L, find_common_ancestor (fun n => Some (P n)) head fuel = Anc L /\ is_last P head L.
Proof.
  intros P head fuel Hm H0 Hh Hf.
  destruct (is_last_exists P head H0) as [L HL].
  exists L. split; auto. apply fca_correct; auto.
Qed.

(* ---------------- errors: a failed probe is never turned into an ancestor *)
Section Errors.
  Variable ov : N -> option bool.

  Lemma find_fail_sound : forall fuel s e anc a, find_anc ov s e anc fuel = Fail a -> ov a = None.
  Proof.
    induction fuel as [|f IH]; intros s e anc a H; cbn [find_anc] in H; [discriminate|].
    destruct (s =? e).
    - destruct (ov s) as [[|]|] eqn:E; try discriminate. inversion H; subst; auto.
    - destruct (ov (wrap32 (s + e) / 2)) as [[|]|] eqn:E.
      + eapply IH; eauto.
      + destruct (s <? wrap32 (s + e) / 2); [eapply IH; eauto|discriminate].
      + inversion H; subst; auto.
  Qed.

  Lemma seek_fail_sound : forall fuel head b a, fast_seek ov head b fuel = SeekFail a -> ov a = None.
  Proof.
    induction fuel as [|f IH]; intros head b a H; cbn [fast_seek] in H.
    - destruct (head <=? b); discriminate.
    - destruct (head <=? b); [discriminate|].
      destruct (ov (sub32 head b)) as [[|]|] eqn:E; try discriminate.
      + eapply IH; eauto.
      + inversion H; subst; auto.
  Qed.

  Theorem fca_fail_sound : forall head fuel a, find_common_ancestor ov head fuel = Fail a -> ov a = None.
  Proof.
    intros head fuel a H. unfold find_common_ancestor in H.
    destruct (head =? 0); [discriminate|].
    destruct (fast_seek ov head 0 fuel) eqn:E; try discriminate.
    - destruct (n =? head); [discriminate|]. eapply find_fail_sound; eauto.
    - inversion H; subst. eapply seek_fail_sound; eauto.
  Qed.

  (* every ancestor returned was actually probed equal, or is the genesis height 0 *)
  Lemma find_anc_sound : forall fuel s e anc r, find_anc ov s e anc fuel = Anc r ->
      r = anc \/ ov r = Some true.
  Proof.
    induction fuel as [|f IH]; intros s e anc r H; cbn [find_anc] in H; [discriminate|].
    destruct (s =? e).
    - destruct (ov s) as [[|]|] eqn:E; try discriminate; inversion H; subst; auto.
    - destruct (ov (wrap32 (s + e) / 2)) as [[|]|] eqn:E; try discriminate.
      + apply IH in H. destruct H as [->|]; auto.
      + destruct (s <? wrap32 (s + e) / 2); [eapply IH; eauto|]. inversion H; auto.
  Qed.

  Lemma seek_sound : forall fuel head b s rest, fast_seek ov head b fuel = Seek s rest ->
      s = 0 \/ ov s = Some true.
  Proof.
    induction fuel as [|f IH]; intros head b s rest H; cbn [fast_seek] in H.
    - destruct (head <=? b); [inversion H; auto|discriminate].
    - destruct (head <=? b); [inversion H; auto|].
      destruct (ov (sub32 head b)) as [[|]|] eqn:E; try discriminate.
      + inversion H; subst; auto.
      + eapply IH; eauto.
  Qed.

  Theorem fca_result_probed : forall head fuel r, find_common_ancestor ov head fuel = Anc r ->
      r = 0 \/ ov r = Some true.
  Proof.
    intros head fuel r H. unfold find_common_ancestor in H.
    destruct (head =? 0) eqn:E0.
    { inversion H; subst. apply N.eqb_eq in E0. auto. }
    destruct (fast_seek ov head 0 fuel) eqn:E; try discriminate.
    destruct (n =? head) eqn:En.
    - inversion H; subst. apply N.eqb_eq in En. subst. eapply seek_sound; eauto.
    - apply find_anc_sound in H. auto.
  Qed.
End Errors.

(* ---------------- termination within the probe budget for EVERY overlap function (inconsistent or failing peers
   included): the search never runs out of fuel, it ends with an ancestor or with the failed probe *)
Section Terminates.
  Variable ov : N -> option bool.
  Variable head : N.
  Hypothesis Hhead : head < 2147483648.

  Lemma find_terminates : forall fuel s e anc,
      s <= e -> e <= head -> e - s + 1 < 2 ^ N.of_nat fuel -> find_anc ov s e anc fuel <> NoFuel.
  Proof.
    induction fuel as [|f IH]; intros s e anc Hse Heh Hsz.
    - cbn in Hsz. lia.
    - assert (Hpow : 2 ^ N.of_nat (S f) = 2 * 2 ^ N.of_nat f).
      { rewrite Nat2N.inj_succ, N.pow_succ_r'; auto. }
      rewrite Hpow in Hsz. cbn [find_anc].
      destruct (s =? e) eqn:Ese.
      + destruct (ov s) as [[|]|]; discriminate.
      + apply N.eqb_neq in Ese. rewrite (wrap32_small (s + e)) by lia.
        set (mid := (s + e) / 2). assert (Hmid : s <= mid /\ mid < e) by (unfold mid; lia).
        destruct (ov mid) as [[|]|]; [| |discriminate].
        * rewrite (wrap32_small (mid + 1)) by lia. apply IH; unfold mid in *; lia.
        * destruct (s <? mid) eqn:Esm; [|discriminate].
          apply N.ltb_lt in Esm. rewrite sub32_small by lia. apply IH; unfold mid in *; lia.
  Qed.

  Lemma fast_seek_terminates : forall c fuel b,
      1 <= b -> b < 4294967296 -> head <= b * 2 ^ N.of_nat c -> (c <= fuel)%nat ->
      fast_seek ov head b fuel <> SeekNoFuel /\
      forall s rest, fast_seek ov head b fuel = Seek s rest -> (fuel - c <= rest)%nat /\ s <= head.
  Proof.
    induction c as [|c IH]; intros fuel b Hb1 Hb2 Hcov Hfuel.
    - cbn in Hcov. assert (E : (head <=? b) = true) by (apply N.leb_le; lia).
      destruct fuel; cbn [fast_seek]; rewrite E; (split; [discriminate|]); intros s rest H; inversion H; subst; split; lia.
    - destruct (head <=? b) eqn:E.
      + destruct fuel; cbn [fast_seek]; rewrite E; (split; [discriminate|]); intros s rest H; inversion H; subst; split; lia.
      + destruct fuel as [|f]; [lia|]. cbn [fast_seek]. rewrite E. apply N.leb_gt in E.
        rewrite sub32_small by lia.
        destruct (ov (head - b)) as [[|]|].
        * split; [discriminate|]. intros s rest H; inversion H; subst. split; lia.
        * assert (Hb0 : (b =? 0) = false) by (apply N.eqb_neq; lia). rewrite Hb0.
          rewrite wrap32_small by lia.
          destruct (IH f (b * 2)) as [T1 T2]; try lia.
          { rewrite Nat2N.inj_succ, N.pow_succ_r' in Hcov. lia. }
          split; [exact T1|]. intros s rest H. destruct (T2 s rest H). split; lia.
        * split; discriminate.
  Qed.

  Theorem fca_terminates : forall fuel, (ancestor_fuel head <= fuel)%nat ->
      find_common_ancestor ov head fuel <> NoFuel.
  Proof.
    intros fuel Hfuel. unfold ancestor_fuel in Hfuel. unfold find_common_ancestor.
    destruct (head =? 0) eqn:Eh; [discriminate|]. apply N.eqb_neq in Eh.
    destruct fuel as [|f]; [lia|]. cbn [fast_seek].
    assert (E0 : (head <=? 0) = false) by (apply N.leb_gt; lia). rewrite E0.
    rewrite sub32_small by lia. rewrite N.sub_0_r.
    destruct (ov head) as [[|]|]; [rewrite N.eqb_refl; discriminate| |discriminate].
    cbn [N.eqb].
    set (c := N.to_nat (N.log2 head + 1)).
    destruct (fast_seek_terminates c f 1) as [T1 T2]; try lia.
    { unfold c. rewrite N2Nat.id, N.mul_1_l.
      assert (H := N.log2_spec head ltac:(lia)). rewrite N.add_1_r. lia. }
    destruct (fast_seek ov head 1 f) as [s rest| |] eqn:Es; [|discriminate|congruence].
    destruct (T2 s rest eq_refl) as [R1 R2].
    destruct (s =? head); [discriminate|].
    apply find_terminates; try lia.
    apply N.lt_le_trans with (2 ^ N.of_nat (N.to_nat (N.log2 head + 2))).
    - rewrite N2Nat.id. assert (H := N.log2_spec head ltac:(lia)).
      replace (N.log2 head + 2) with (N.succ (N.succ (N.log2 head))) by lia. rewrite N.pow_succ_r'. lia.
    - apply N.pow_le_mono_r; [lia|]. unfold c in R1. lia.
  Qed.
End Terminates.
