(* Sync/ModelRPC.v — the accept/reject skeleton of p2psrv/rpc.Serve + comm.handleRPC (definitions only): which
   checks a peer message passes before anything of it reaches the node (block feed -> import, announcement fetch,
   tx pool), and the checks on the answer to the node's own GetBlockByID after an announcement (fetchBlockByID).
   Decoding itself is not modelled: whether the envelope / the typed argument decodes is an input (computed by the
   real rlp library in the harness). *)
From Coq Require Import List NArith Bool Lia.
From Verif Require Import Common.Util.
Import ListNotations.
Open Scope N_scope.

Inductive mcode :=
| CGetStatus | CNewBlockID | CNewBlock | CNewTx | CGetBlockByID | CGetBlockIDByNumber | CGetBlocksFromNumber | CGetTxs
| CUnknown.

Record pmsg := mkMsg {
  m_code : mcode;
  m_size : N;                         (* frame size *)
  m_env : option (N * bool);          (* (callID, isResult) if the envelope [callID, isResult, ...] decodes *)
  m_arg_ok : bool                     (* the typed argument (or, for a result, the typed result) decodes *)
}.

Inductive routcome :=
| RDrop              (* Serve returns an error: the peer is disconnected *)
| RIgnore            (* a result nobody is waiting for *)
| RDeliver           (* a result handed to the waiting call *)
| RReply             (* a read-only request answered from the repository / pool snapshot *)
| RFeedBlock         (* MsgNewBlock: the block goes to the node's block feed (full validation in the node) *)
| RAnnounce          (* MsgNewBlockID: the id goes to the announcement loop *)
| RPoolAdd.          (* MsgNewTx: the tx goes to txPool.Add *)

Definition max_msg_size : N := 10485760.          (* proto.MaxMsgSize = 10 MiB *)
Definition max_tx_msg_size : N := 66560.          (* txpool.MaxTxSize (64 KiB) + 1024 *)

(* rpc.Serve (envelope, result dispatch) followed by comm.handleRPC (per message code);
   pending callID = the message code of the node's own outstanding call with that id, if any *)
Definition serve (pending : N -> option mcode) (mcode_eqb : mcode -> mcode -> bool) (m : pmsg) : routcome :=
  if max_msg_size <? m_size m then RDrop
  else match m_env m with
       | None => RDrop
       | Some (id, true) =>
         match pending id with
         | None => RIgnore
         | Some c => if mcode_eqb c (m_code m) then (if m_arg_ok m then RDeliver else RDrop) else RDrop
         end
       | Some (_, false) =>
         match m_code m with
         | CUnknown => RDrop
         | CNewTx => if max_tx_msg_size <? m_size m then RDrop else if m_arg_ok m then RPoolAdd else RDrop
         | CNewBlock => if m_arg_ok m then RFeedBlock else RDrop
         | CNewBlockID => if m_arg_ok m then RAnnounce else RDrop
         | _ => if m_arg_ok m then RReply else RDrop
         end
       end.

Definition mcode_eqb (a b : mcode) : bool :=
  match a, b with
  | CGetStatus, CGetStatus | CNewBlockID, CNewBlockID | CNewBlock, CNewBlock | CNewTx, CNewTx
  | CGetBlockByID, CGetBlockByID | CGetBlockIDByNumber, CGetBlockIDByNumber
  | CGetBlocksFromNumber, CGetBlocksFromNumber | CGetTxs, CGetTxs | CUnknown, CUnknown => true
  | _, _ => false
  end.

(* fetchBlockByID(peer, announced): the answer is a list of raw blocks, each described by
   (Some id if block.DecodeRawBlock succeeds, body decodes?) *)
Inductive fetch_outcome := FNone | FRejected | FFeed (id : N).

Definition fetch_accept (announced : N) (answer : list (option N * bool)) : fetch_outcome :=
  match answer with
  | [] => FNone                                      (* "get nil block by id" *)
  | [(Some id, body_ok)] =>
    if id =? announced then (if body_ok then FFeed id else FRejected) else FRejected
  | [(None, _)] => FRejected                         (* invalid block structure *)
  | _ :: _ :: _ => FRejected                         (* proto.GetBlockByID: result size exceeds limit *)
  end.
