(* Sync/ProofsRPC.v — nothing of a peer message reaches the node unless it passed the size limit of its class and
   decoded as the type of its message code; only three message codes have an effect beyond a read-only answer; a
   block fetched after an announcement is fed only if it is the single, well-formed block with the announced id;
   and whatever stream of blocks reaches import, only valid blocks with a stored parent enter the store. *)
From Coq Require Import List NArith Bool Lia.
From Verif Require Import Common.Util Sync.Model Sync.ModelRPC.
Import ListNotations.
Open Scope N_scope.

Definition touches_node (r : routcome) : bool :=
  match r with RFeedBlock | RAnnounce | RPoolAdd => true | _ => false end.

Theorem oversize_dropped pending m : max_msg_size < m_size m -> serve pending mcode_eqb m = RDrop.
Proof. intro H. unfold serve. apply N.ltb_lt in H. rewrite H. reflexivity. Qed.

Theorem undecodable_dropped pending m :
  m_env m = None \/ (exists id, m_env m = Some (id, false) /\ m_arg_ok m = false) -> serve pending mcode_eqb m = RDrop.
Proof.
  unfold serve. intros [H|[id [H1 H2]]]; destruct (max_msg_size <? m_size m); auto; rewrite ?H, ?H1, ?H2; auto.
  destruct (m_code m); auto. destruct (max_tx_msg_size <? m_size m); auto.
Qed.

Theorem unknown_code_dropped pending m id :
  m_env m = Some (id, false) -> m_code m = CUnknown -> serve pending mcode_eqb m = RDrop.
Proof. intros H1 H2. unfold serve. destruct (max_msg_size <? m_size m); auto. rewrite H1, H2. auto. Qed.

(* the guard in front of every effect on the node *)
Theorem effect_guarded pending m :
  touches_node (serve pending mcode_eqb m) = true ->
  m_size m <= max_msg_size /\ m_arg_ok m = true /\ (exists id, m_env m = Some (id, false)) /\
  match serve pending mcode_eqb m with
  | RFeedBlock => m_code m = CNewBlock
  | RAnnounce => m_code m = CNewBlockID
  | RPoolAdd => m_code m = CNewTx /\ m_size m <= max_tx_msg_size
  | _ => False
  end.
Proof.
  unfold serve. destruct (max_msg_size <? m_size m) eqn:E; [intro T; cbn in T; discriminate T|]. apply N.ltb_ge in E.
  destruct (m_env m) as [[id [|]]|]; try (intro T; cbn in T; discriminate T).
  - destruct (pending id) as [c|]; [|intro T; cbn in T; discriminate T].
    destruct (mcode_eqb c (m_code m)); [destruct (m_arg_ok m)|]; intro T; cbn in T; discriminate T.
  - destruct (m_code m) eqn:C.
    all: try solve [destruct (m_arg_ok m) eqn:A; intro T; cbn in T; try discriminate T; cbn; repeat split; eauto].
    + destruct (max_tx_msg_size <? m_size m) eqn:X; [intro T; cbn in T; discriminate T|]. apply N.ltb_ge in X.
      destruct (m_arg_ok m) eqn:A; intro T; cbn in T; try discriminate T. cbn. repeat split; eauto.
Qed.

(* every other accepted request is answered without any effect on the node *)
Theorem other_codes_read_only pending m :
  match m_code m with CNewBlock | CNewBlockID | CNewTx => False | _ => True end ->
  touches_node (serve pending mcode_eqb m) = false.
Proof.
  intro H. unfold serve. destruct (max_msg_size <? m_size m); auto.
  destruct (m_env m) as [[id [|]]|]; auto.
  - destruct (pending id) as [c|]; auto. destruct (mcode_eqb c (m_code m)); [destruct (m_arg_ok m)|]; auto.
  - destruct (m_code m); try contradiction; auto; destruct (m_arg_ok m); auto.
Qed.

(* a result is delivered only to a call that is waiting for exactly this code, and only if it decodes *)
Theorem result_guarded pending m :
  serve pending mcode_eqb m = RDeliver ->
  exists id, m_env m = Some (id, true) /\ pending id = Some (m_code m) /\ m_arg_ok m = true.
Proof.
  unfold serve. destruct (max_msg_size <? m_size m); [discriminate|].
  destruct (m_env m) as [[id [|]]|]; try discriminate.
  - destruct (pending id) as [c|] eqn:P; [|discriminate].
    destruct (mcode_eqb c (m_code m)) eqn:E; [|discriminate]. destruct (m_arg_ok m) eqn:A; [|discriminate].
    intros _. exists id. repeat split; auto. rewrite P. f_equal. destruct c, (m_code m); cbn in E; try discriminate; reflexivity.
  - destruct (m_code m); try discriminate; try (destruct (m_arg_ok m); discriminate).
    destruct (max_tx_msg_size <? m_size m); [discriminate|destruct (m_arg_ok m); discriminate].
Qed.

(* announcement fetch: inconsistent answers never reach the block feed *)
Theorem fetch_guarded announced answer id :
  fetch_accept announced answer = FFeed id -> id = announced /\ answer = [(Some announced, true)].
Proof.
  unfold fetch_accept. destruct answer as [|[[i|] b] [|x t]]; try discriminate.
  destruct (i =? announced) eqn:E; [|discriminate]. destruct b; [|discriminate].
  apply N.eqb_eq in E. intro H. inversion H. subst. auto.
Qed.

(* ---------------- whatever reaches import: only valid blocks with a stored parent are stored, for ANY stream *)
Section ImportSound.
  Variable Blk : Type.
  Variable bid parent : Blk -> N.
  Variable valid : Blk -> bool.
  Variable better : Blk -> Blk -> bool.

  Lemma import_sound st b st' :
    import Blk bid parent valid better st b = Some st' ->
    (forall x, In x (store Blk st') -> In x (store Blk st) \/ (x = b /\ valid b = true /\ known Blk bid st (parent b) = true)) /\
    (best Blk st' = best Blk st \/ (best Blk st' = b /\ valid b = true)).
  Proof.
    unfold import. destruct (known Blk bid st (bid b)); [intro H; inversion H; subst; auto|].
    destruct (known Blk bid st (parent b)) eqn:K; [|discriminate]. destruct (valid b) eqn:V; [|discriminate].
    cbn [andb]. intro H. inversion H; subst; clear H. cbn [store best]. split.
    - intros x [<-|Hx]; auto.
    - destruct (better b (best Blk st)); auto.
  Qed.

  Lemma import_known_mono st b st' i :
    import Blk bid parent valid better st b = Some st' -> known Blk bid st i = true -> known Blk bid st' i = true.
  Proof.
    unfold import. destruct (known Blk bid st (bid b)); [intro H; inversion H; subst; auto|].
    destruct (known Blk bid st (parent b) && valid b); [|discriminate].
    intro H. inversion H; subst. unfold known. cbn [store existsb]. intro K. rewrite K. apply orb_true_r.
  Qed.

  Lemma import_all_known_mono : forall l st st' ok i,
      import_all Blk bid parent valid better st l = (st', ok) -> known Blk bid st i = true -> known Blk bid st' i = true.
  Proof.
    induction l as [|b t IH]; intros st st' ok i H K; cbn [import_all] in H.
    - inversion H; subst. auto.
    - destruct (import Blk bid parent valid better st b) as [st1|] eqn:E.
      + eapply IH; eauto. eapply import_known_mono; eauto.
      + inversion H; subst. auto.
  Qed.

  (* every block that enters the store passed validation AND its parent is stored (in the final store) *)
  Theorem import_all_sound : forall l st st' ok,
      import_all Blk bid parent valid better st l = (st', ok) ->
      (forall x, In x (store Blk st') -> In x (store Blk st) \/
                 (In x l /\ valid x = true /\ known Blk bid st' (parent x) = true)) /\
      (best Blk st' = best Blk st \/ (In (best Blk st') l /\ valid (best Blk st') = true)).
  Proof.
    induction l as [|b t IH]; intros st st' ok H; cbn [import_all] in H.
    - inversion H; subst. auto.
    - destruct (import Blk bid parent valid better st b) as [st1|] eqn:E.
      + destruct (import_sound _ _ _ E) as [S1 S2]. destruct (IH _ _ _ H) as [I1 I2]. split.
        * intros x Hx. destruct (I1 x Hx) as [A|[A [B C]]].
          -- destruct (S1 x A) as [C|[-> [C D]]]; auto. right. split; [left; auto|]. split; auto.
             eapply import_all_known_mono; eauto. eapply import_known_mono; eauto.
          -- right. split; [right; auto|auto].
        * destruct I2 as [I2|[A B]].
          -- rewrite I2. destruct S2 as [S2|[-> V]]; auto. right. split; auto. left; auto.
          -- right. split; auto. right; auto.
      + inversion H; subst. auto.
  Qed.
End ImportSound.
