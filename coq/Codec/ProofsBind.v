(* Codec/ProofsBind.v — id / hash / root binding stated on the byte strings the Go code feeds to Blake2b
   (go_signing_tx, go_marshal_tx, header_signing_bytes_any, the DeriveRoot pairs), with the collision-freeness of the
   hash as the NAMED hypothesis H_inj. *)
From Coq Require Import List NArith ZArith Bool Lia.
From Coq Require Import ZifyN ZifyNat ZifyBool.
From Verif Require Import Codec.Model Codec.ProofsRLP Codec.ProofsComb Codec.ProofsObjects Codec.ProofsTop
  Codec.ProofsSign Codec.ProofsNorm Codec.ProofsAcc.
Import ListNotations.
Open Scope N_scope.

(* ------------------------------------------------------------------ what is signed: every field of the Go object but the signature *)
Definition strip_sig (t : tx) : tx :=
  mkTx (t_dyn t) (t_chain_tag t) (t_block_ref t) (t_expiration t) (t_clauses t) (t_gpc t) (t_max_prio t) (t_max_fee t)
       (t_gas t) (t_depends t) (t_nonce t) (t_reserved t) [].
Definition signed_part (t : tx) : tx := strip_sig (norm_tx t).       (* norm_tx t is the Go object *)

Definition of_legacy_sign (p : N * (N * (N * (list clause * (N * (N * (nilable * (N * reserved)))))))) : tx :=
  let '(ct, (br, (ex, (cl, (gpc, (gas, (dep, (nonce, res)))))))) := p in mkTx false ct br ex cl gpc 0 0 gas dep nonce res [].
Definition of_dyn_sign (p : N * (N * (N * (list clause * (N * (N * (N * (nilable * (N * reserved))))))))) : tx :=
  let '(ct, (br, (ex, (cl, (prio, (fee, (gas, (dep, (nonce, res))))))))) := p in mkTx true ct br ex cl 0 prio fee gas dep nonce res [].
Lemma legacy_strip t : wfp c_legacy t -> strip_sig t = of_legacy_sign (legacy_sign_tuple t).
Proof.
  intros [_ H]. destruct t as [dy ct br ex cl gpc pr fe gas dep no res sg]. cbn in H. inversion H; subst. reflexivity.
Qed.
Lemma dyn_strip t : wfp c_dyn t -> strip_sig t = of_dyn_sign (dyn_sign_tuple t).
Proof.
  intros [_ H]. destruct t as [dy ct br ex cl gpc pr fe gas dep no res sg]. cbn in H. inversion H; subst. reflexivity.
Qed.

Lemma wf_bin_of_tx t : wfp c_tx t -> wf_bin t.
Proof. unfold wf_bin. cbn [wfp c_tx]. destruct (t_dyn t); [intros [W _]; exact W|trivial]. Qed.

(* equal SigningHash() preimages => equal signed fields (for the Go objects of any two decodable transactions) *)
Theorem go_signing_injective_l t1 t2 : wfp c_tx t1 -> wfp c_tx t2 ->
  go_signing_tx t1 = go_signing_tx t2 -> signed_part t1 = signed_part t2.
Proof.
  intros W1 W2 E. unfold go_signing_tx in E. unfold signed_part.
  pose proof (proj1 (lp_tx t1 W1)) as N1. pose proof (proj1 (lp_tx t2 W2)) as N2.
  set (n1 := norm_tx t1) in *. set (n2 := norm_tx t2) in *.
  pose proof (tx_signing_injective_l n1 n2 (tx_sign_wf n1 N1) (tx_sign_wf n2 N2) E) as [Ed Et].
  pose proof (wf_bin_of_tx n1 N1) as B1. pose proof (wf_bin_of_tx n2 N2) as B2. unfold wf_bin in *.
  rewrite <- Ed in B2. destruct (t_dyn n1).
  - rewrite (dyn_strip n1 B1), (dyn_strip n2 B2), Et. reflexivity.
  - rewrite (legacy_strip n1 B1), (legacy_strip n2 B2), Et. reflexivity.
Qed.
(* equal Hash() preimages (MarshalBinary) => equal Go objects, signature included *)
Theorem go_marshal_injective_l t1 t2 : wfp c_tx t1 -> wfp c_tx t2 ->
  go_marshal_tx t1 = go_marshal_tx t2 -> norm_tx t1 = norm_tx t2.
Proof.
  intros W1 W2 E. unfold go_marshal_tx in E.
  apply tx_marshal_inj; [apply wf_bin_of_tx, lp_tx, W1|apply wf_bin_of_tx, lp_tx, W2|exact E].
Qed.

(* ------------------------------------------------------------------ headers: the preimage of SigningHash() for every header *)
Definition with_ext (h : header) (e : ext) : header :=
  mkHeader (h_parent h) (h_timestamp h) (h_gas_limit h) (h_beneficiary h) (h_gas_used h) (h_total_score h) (h_trf h)
           (h_state_root h) (h_receipts_root h) (h_sig h) e.
(* what a header signs: all fields but the signature; the extension only when it carries a base fee *)
Definition header_signed_view (h : header) :=
  match x_basefee (h_ext h) with Some _ => header_sign_tuple h | None => header_sign_tuple (with_ext h ext_default) end.

Lemma header_any_is_view h : header_signing_bytes_any h = enc (cwrap header_sign_fields) (header_signed_view h).
Proof.
  unfold header_signing_bytes_any, header_signed_view, header_signing_bytes. destruct (x_basefee (h_ext h)); [reflexivity|].
  unfold header_sign9_fields, header_sign_fields, header_sign_tuple, with_ext.
  cbn [enc cpair cwrap fst snd h_parent h_timestamp h_gas_limit h_beneficiary h_gas_used h_total_score h_trf h_state_root h_receipts_root h_ext].
  change (enc c_ext ext_default) with (@nil N). rewrite app_nil_r. reflexivity.
Qed.
Lemma header_view_wf h : wfp c_header h -> wfp (cwrap header_sign_fields) (header_signed_view h).
Proof.
  intros W. unfold header_signed_view. destruct (x_basefee (h_ext h)); [apply header_sign_wf; exact W|].
  destruct W as [[W Hl] _]. unfold c_header, c_header_gen in *.
  cbn [wfp enc cpair cwrap header_fields header_sign_fields header_sign_tuple with_ext fst snd
       h_parent h_timestamp h_gas_limit h_beneficiary h_gas_used h_total_score h_trf h_state_root h_receipts_root h_ext] in *.
  change (enc c_ext ext_default) with (@nil N). change (wfp c_ext ext_default) with (ext_default = ext_default).
  rewrite !lenN_app in *. rewrite lenN_nil. split; [tauto|lia].
Qed.
Theorem header_signing_any_injective_l h1 h2 : wfp c_header h1 -> wfp c_header h2 ->
  header_signing_bytes_any h1 = header_signing_bytes_any h2 -> header_signed_view h1 = header_signed_view h2.
Proof.
  intros W1 W2 E. rewrite !header_any_is_view in E.
  exact (codec_inj _ _ _ header_sign_ok (header_view_wf h1 W1) (header_view_wf h2 W2) E).
Qed.
(* with a base fee the view is the full ten-field tuple; a header with a base fee never has the view of one without *)
Lemma view_basefee h : wfp c_header h -> x_basefee (h_ext h) <> None -> header_signed_view h = header_sign_tuple h.
Proof. unfold header_signed_view. destruct (x_basefee (h_ext h)); [reflexivity|congruence]. Qed.

(* ------------------------------------------------------------------ the hash as an opaque function with a named collision-freeness hypothesis *)
Lemma app_inj_len {A} (a b c d : list A) : length c = length d -> a ++ c = b ++ d -> a = b /\ c = d.
Proof.
  intros Hl E. assert (Hab : length a = length b).
  { apply (f_equal (@length A)) in E. rewrite !app_length in E. lia. }
  revert b Hab E. induction a as [|x a IH]; intros [|y b] Hab E; try discriminate.
  - split; [reflexivity|exact E].
  - cbn in E. inversion E; subst. destruct (IH b) as [-> ->]; [cbn in Hab; lia|assumption|]. tauto.
Qed.

Section Hash.
  Variable H : bytes -> bytes.                                   (* Blake2b-256 *)
  Hypothesis H_inj : forall a b, H a = H b -> a = b.             (* collision-freeness on the preimages below *)

  Definition go_tx_signing_hash (t : tx) : bytes := H (go_signing_tx t).              (* Transaction.SigningHash() *)
  Definition go_tx_hash (t : tx) : bytes := H (go_marshal_tx t).                      (* Transaction.Hash() *)
  (* Transaction.ID(): Blake2b(signingHash, origin); the zero id when the signature does not recover (origin = None) *)
  Definition go_tx_id (t : tx) (origin : option bytes) : bytes :=
    match origin with Some o => H (go_tx_signing_hash t ++ o) | None => repeat 0 32 end.
  Definition go_header_signing_hash (h : header) : bytes := H (header_signing_bytes_any h).
  (* Header.ID() before its first four bytes are overwritten with the block number *)
  Definition go_header_id_hash (h : header) (signer : bytes) : bytes := H (go_header_signing_hash h ++ signer).

  Theorem tx_signing_hash_binds_l t1 t2 : wfp c_tx t1 -> wfp c_tx t2 ->
    signed_part t1 <> signed_part t2 -> go_tx_signing_hash t1 <> go_tx_signing_hash t2.
  Proof. intros W1 W2 Hd E. apply Hd. apply go_signing_injective_l; [assumption|assumption|]. apply H_inj, E. Qed.
  Theorem tx_id_binds_l t1 t2 o1 o2 : wfp c_tx t1 -> wfp c_tx t2 -> length o1 = length o2 ->
    signed_part t1 <> signed_part t2 -> go_tx_id t1 (Some o1) <> go_tx_id t2 (Some o2).
  Proof.
    intros W1 W2 Hl Hd E. cbn [go_tx_id] in E. apply H_inj in E. apply app_inj_len in E; [|exact Hl]. destruct E as [E _].
    exact (tx_signing_hash_binds_l t1 t2 W1 W2 Hd E).
  Qed.
  Theorem tx_hash_binds_l t1 t2 : wfp c_tx t1 -> wfp c_tx t2 -> norm_tx t1 <> norm_tx t2 -> go_tx_hash t1 <> go_tx_hash t2.
  Proof. intros W1 W2 Hd E. apply Hd. apply go_marshal_injective_l; [assumption|assumption|]. apply H_inj, E. Qed.
  Theorem header_signing_hash_binds_l h1 h2 : wfp c_header h1 -> wfp c_header h2 ->
    header_signed_view h1 <> header_signed_view h2 -> go_header_signing_hash h1 <> go_header_signing_hash h2.
  Proof. intros W1 W2 Hd E. apply Hd. apply header_signing_any_injective_l; [assumption|assumption|]. apply H_inj, E. Qed.
  Theorem header_id_binds_l h1 h2 s1 s2 : wfp c_header h1 -> wfp c_header h2 -> length s1 = length s2 ->
    header_signed_view h1 <> header_signed_view h2 -> go_header_id_hash h1 s1 <> go_header_id_hash h2 s2.
  Proof.
    intros W1 W2 Hl Hd E. unfold go_header_id_hash in E. apply H_inj in E. apply app_inj_len in E; [|exact Hl]. destruct E as [E _].
    exact (header_signing_hash_binds_l h1 h2 W1 W2 Hd E).
  Qed.
End Hash.

(* ------------------------------------------------------------------ receipts: binary form *)
Lemma receipt_unmarshal_sound_l b r : receipt_unmarshal b = Some r ->
  b = receipt_marshal r /\ wfp (c_receipt_body (rc_dyn r)) r.
Proof.
  unfold receipt_unmarshal, receipt_marshal. destruct b as [|x b']; [discriminate|]. destruct (127 <? x) eqn:E.
  - intros H. apply (dec_exact_sound _ _ _ (proj1 (c_receipt_body_ok false))) in H. destruct H as [Hb W].
    rewrite (c_receipt_body_flag _ _ W). tauto.
  - destruct b' as [|y b'']; [discriminate|]. intros H. apply dec_typed_receipt_sound in H. destruct H as [Hb W].
    rewrite (c_receipt_body_flag _ _ W). tauto.
Qed.
Lemma receipt_unmarshal_complete_l r : wfp (c_receipt_body (rc_dyn r)) r -> receipt_unmarshal (receipt_marshal r) = Some r.
Proof.
  unfold receipt_unmarshal, receipt_marshal. destruct (rc_dyn r) eqn:Ed; intros W.
  - cbn [N.ltb N.compare]. pose proof (c_receipt_body_nonempty true r W) as Hne.
    destruct (enc (c_receipt_body true) r) as [|e0 et] eqn:Ee; [congruence|]. cbn [dec_typed_receipt N.eqb Pos.eqb].
    rewrite <- Ee. apply dec_exact_complete; [apply c_receipt_body_ok|exact W].
  - destruct (cwrap_first (cpair (c_uint 8) (cpair (c_fixed 20) (cpair c_big (cpair c_big (cpair c_bool (cslice c_output))))))
                (rc_gas_used r, (rc_payer r, (rc_paid r, (rc_reward r, (rc_reverted r, rc_outputs r)))))) as [x [rest [E Hx]]].
    change (enc (c_receipt_body false) r) with
      (enc (cwrap (cpair (c_uint 8) (cpair (c_fixed 20) (cpair c_big (cpair c_big (cpair c_bool (cslice c_output)))))))
           (rc_gas_used r, (rc_payer r, (rc_paid r, (rc_reward r, (rc_reverted r, rc_outputs r)))))) at 1.
    rewrite E. cbv beta iota. destruct (127 <? x) eqn:E2; [|exfalso; lia].
    apply (dec_exact_complete (c_receipt_body false)); [apply c_receipt_body_ok|exact W].
Qed.
Definition wf_rbin (r : receipt) : Prop := wfp (c_receipt_body (rc_dyn r)) r.
Theorem receipts_values_determine_l l1 l2 : Forall wf_rbin l1 -> Forall wf_rbin l2 ->
  map go_marshal_receipt l1 = map go_marshal_receipt l2 -> l1 = l2.
Proof.
  revert l2. induction l1 as [|a l1 IH]; intros [|b l2] W1 W2 E; try reflexivity; try discriminate.
  inversion W1; inversion W2; subst. cbn [map] in E. inversion E as [[E1 E2]]. f_equal; [|apply IH; assumption].
  unfold go_marshal_receipt in E1. pose proof (receipt_unmarshal_complete_l a ltac:(assumption)) as Ha.
  pose proof (receipt_unmarshal_complete_l b ltac:(assumption)) as Hb. rewrite E1 in Ha. congruence.
Qed.

(* ------------------------------------------------------------------ F2 witnesses, one per nil position, and a block-level one *)
Definition f2_depends_witness : bytes := [202; 128; 128; 128; 192; 128; 128; 192; 128; 192; 128].
Definition f2_clause_witness : bytes := [206; 128; 128; 128; 196; 195; 192; 128; 128; 128; 128; 128; 128; 192; 128].
Lemma tx_depends_nil_refuted_l : exists t, go_decode_tx f2_depends_witness = Some t /\ is_nil_list (t_depends t) = true /\
  existsb (fun c => is_nil_list (c_to c)) (t_clauses t) = false /\ go_reencode_tx t <> f2_depends_witness.
Proof. eexists. split; [vm_compute; reflexivity|]. split; [reflexivity|]. split; [reflexivity|]. vm_compute. discriminate. Qed.
Lemma tx_clause_nil_refuted_l : exists t, go_decode_tx f2_clause_witness = Some t /\ is_nil_list (t_depends t) = false /\
  existsb (fun c => is_nil_list (c_to c)) (t_clauses t) = true /\ go_reencode_tx t <> f2_clause_witness.
Proof. eexists. split; [vm_compute; reflexivity|]. split; [reflexivity|]. split; [reflexivity|]. vm_compute. discriminate. Qed.
Lemma tx_decode_canonical_statement_refuted_l : ~ (forall b t, go_decode_tx b = Some t -> go_reencode_tx t = b).
Proof. intros S. destruct tx_depends_nil_refuted_l as [t [Hd [_ [_ Hn]]]]. exact (Hn (S _ _ Hd)). Qed.

(* ------------------------------------------------------------------ re-encoding and decoding again gives the same Go object, hence the same hash / id preimages *)
Lemma norm_nil_idem v : norm_nil (norm_nil v) = norm_nil v.
Proof. destruct v; reflexivity. Qed.
Lemma norm_tx_idem t : norm_tx (norm_tx t) = norm_tx t.
Proof.
  destruct t as [dy ct br ex cl gpc pr fe gas dep no res sg]. unfold norm_tx.
  cbn [t_depends t_clauses t_dyn t_chain_tag t_block_ref t_expiration t_gpc t_max_prio t_max_fee t_gas t_nonce t_reserved t_sig].
  rewrite norm_nil_idem. f_equal. rewrite map_map. apply map_ext. intros [to v d]. unfold norm_clause. cbn [c_to c_value c_data].
  rewrite norm_nil_idem. reflexivity.
Qed.
Theorem tx_reencode_same_object_l b t : go_decode_tx b = Some t ->
  go_decode_tx (go_reencode_tx t) = Some (norm_tx t) /\
  go_signing_tx (norm_tx t) = go_signing_tx t /\ go_marshal_tx (norm_tx t) = go_marshal_tx t.
Proof.
  intros H. apply tx_decode_sound_l in H. destruct H as [_ W]. split.
  - unfold go_reencode_tx. apply tx_roundtrip_l. exact (proj1 (lp_tx t W)).
  - unfold go_signing_tx, go_marshal_tx. rewrite norm_tx_idem. split; reflexivity.
Qed.

(* ------------------------------------------------------------------ collision-extraction forms (no hypothesis on H):
   equal hashes / ids give equal signed fields OR an explicit collision of H *)
Definition collision (H : bytes -> bytes) : Prop := exists a b, a <> b /\ H a = H b.
Lemma bytes_eq_dec (a b : bytes) : {a = b} + {a <> b}.
Proof. apply list_eq_dec, N.eq_dec. Qed.
Lemma hash_eq_cases (H : bytes -> bytes) a b : H a = H b -> a = b \/ collision H.
Proof. intros E. destruct (bytes_eq_dec a b) as [e|n]; [left; exact e|right; exists a, b; split; assumption]. Qed.

Section Extract.
  Variable H : bytes -> bytes.
  Theorem tx_signing_hash_extract_l t1 t2 : wfp c_tx t1 -> wfp c_tx t2 ->
    go_tx_signing_hash H t1 = go_tx_signing_hash H t2 -> signed_part t1 = signed_part t2 \/ collision H.
  Proof.
    intros W1 W2 E. destruct (hash_eq_cases H _ _ E) as [e|c]; [left|right; exact c]. exact (go_signing_injective_l t1 t2 W1 W2 e).
  Qed.
  Theorem tx_id_extract_l t1 t2 o1 o2 : wfp c_tx t1 -> wfp c_tx t2 -> length o1 = length o2 ->
    go_tx_id H t1 (Some o1) = go_tx_id H t2 (Some o2) -> signed_part t1 = signed_part t2 \/ collision H.
  Proof.
    intros W1 W2 Hl E. cbn [go_tx_id] in E. destruct (hash_eq_cases H _ _ E) as [e|c]; [|right; exact c].
    apply app_inj_len in e; [|exact Hl]. destruct e as [e _]. exact (tx_signing_hash_extract_l t1 t2 W1 W2 e).
  Qed.
  Theorem tx_hash_extract_l t1 t2 : wfp c_tx t1 -> wfp c_tx t2 ->
    go_tx_hash H t1 = go_tx_hash H t2 -> norm_tx t1 = norm_tx t2 \/ collision H.
  Proof.
    intros W1 W2 E. destruct (hash_eq_cases H _ _ E) as [e|c]; [left|right; exact c]. exact (go_marshal_injective_l t1 t2 W1 W2 e).
  Qed.
  Theorem header_signing_hash_extract_l h1 h2 : wfp c_header h1 -> wfp c_header h2 ->
    go_header_signing_hash H h1 = go_header_signing_hash H h2 -> header_signed_view h1 = header_signed_view h2 \/ collision H.
  Proof.
    intros W1 W2 E. destruct (hash_eq_cases H _ _ E) as [e|c]; [left|right; exact c]. exact (header_signing_any_injective_l h1 h2 W1 W2 e).
  Qed.
  Theorem header_id_extract_l h1 h2 s1 s2 : wfp c_header h1 -> wfp c_header h2 -> length s1 = length s2 ->
    go_header_id_hash H h1 s1 = go_header_id_hash H h2 s2 -> header_signed_view h1 = header_signed_view h2 \/ collision H.
  Proof.
    intros W1 W2 Hl E. unfold go_header_id_hash in E. destruct (hash_eq_cases H _ _ E) as [e|c]; [|right; exact c].
    apply app_inj_len in e; [|exact Hl]. destruct e as [e _]. exact (header_signing_hash_extract_l h1 h2 W1 W2 e).
  Qed.
  (* the two F2 wire forms of one Go object have the same signing hash, id and hash, whatever H is *)
  Theorem f2_pair_same_id_l b t o : go_decode_tx b = Some t ->
    exists t', go_decode_tx (go_reencode_tx t) = Some t' /\ go_tx_id H t' o = go_tx_id H t o /\ go_tx_hash H t' = go_tx_hash H t.
  Proof.
    intros Hd. destruct (tx_reencode_same_object_l b t Hd) as [H1 [H2 H3]]. exists (norm_tx t). split; [exact H1|].
    unfold go_tx_id, go_tx_signing_hash, go_tx_hash. rewrite H2, H3. split; reflexivity.
  Qed.
End Extract.
