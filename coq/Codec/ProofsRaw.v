(* Codec/ProofsRaw.v — the two-phase block decode (block.DecodeRawBlock + RawBlock.Decode) accepts exactly what the
   one-phase decode (rlp.DecodeBytes into block.Block) accepts and yields the same block. *)
From Coq Require Import List NArith ZArith Bool Lia.
From Coq Require Import ZifyN ZifyNat ZifyBool.
From Verif Require Import Codec.Model Codec.ProofsRLP Codec.ProofsComb Codec.ProofsObjects.
Import ListNotations.
Open Scope N_scope.

Lemma c_tx_rsized : rsized c_tx.
Proof.
  intros x rest. cbn [wfp c_tx enc]. destruct (t_dyn x).
  - intros [W Hl]. apply rsize_str. rewrite lenN_cons.
    assert (Hne : enc c_dyn x <> []) by (apply c_dyn_nonempty; exact W).
    destruct (enc c_dyn x) as [|e0 et]; [congruence|]. rewrite lenN_cons in *. unfold two64. lia.
  - intros [[_ Hl] _]. cbn [enc c_legacy cmap cpmap cwrap]. apply rsize_list. exact Hl.
Qed.

Definition txs_two_phase (p1 : bytes) : option (list tx) :=
  match dec c_raw p1 with
  | Some (raw, []) =>
    match shead raw with
    | Some (KList, content, _) =>
      match rcount (length content) None content 0 with
      | Some _ => dec_exact (cslice c_tx) raw
      | None => None end
    | _ => None end
  | _ => None end.

Lemma txs_two_phase_agrees p1 : txs_two_phase p1 = dec_exact (cslice c_tx) p1.
Proof.
  destruct cslice_tx_ok as [S C]. unfold txs_two_phase.
  destruct (dec_exact (cslice c_tx) p1) as [txs|] eqn:E.
  - pose proof E as E0. apply (dec_exact_sound _ _ _ S) in E. destruct E as [-> [Wl Hlen]].
    cbn [enc cslice dec c_raw]. rewrite enc_list_head.
    pose proof (shead_complete KList (concat (map (enc c_tx) txs)) [] Hlen) as Hs. rewrite app_nil_r in Hs.
    rewrite Hs. rewrite Hs.
    rewrite (rcount_spec c_tx None c_tx_rsized c_tx_nonempty txs Wl); [|lia|exact I].
    cbn [enc cslice] in E0. rewrite enc_list_head in E0. exact E0.
  - destruct (dec c_raw p1) as [[raw [|? ?]]|] eqn:Er; try reflexivity.
    apply (proj1 c_raw_ok) in Er. destruct Er as [Er _]. cbn [enc c_raw] in Er. rewrite app_nil_r in Er. subst raw.
    destruct (shead p1) as [[[k content] r]|]; [|reflexivity]. destruct k; try reflexivity.
    destruct (rcount (length content) None content 0); [exact E|reflexivity].
Qed.

Theorem two_phase_agrees_l b : go_decode_block_raw b = go_decode_block b.
Proof.
  unfold go_decode_block_raw, dec_block_two_phase, dec_rawblock, go_decode_block, rawblock_decode.
  unfold dec_exact at 2. cbn [dec c_block cmap cpmap cwrap cpair].
  destruct (shead b) as [[[k p] r]|] eqn:E; [|reflexivity]. destruct k; try reflexivity.
  destruct (dec c_header p) as [[h p1]|] eqn:Eh.
  - pose proof (txs_two_phase_agrees p1) as Ht. unfold txs_two_phase in Ht.
    destruct r as [|r0 rt].
    + destruct (dec c_raw p1) as [[raw [|? ?]]|] eqn:Er.
      * destruct (shead raw) as [[[k content] r]|] eqn:Es.
        -- destruct k.
           ++ unfold dec_exact in Ht. destruct (dec (cslice c_tx) p1) as [[txs [|? ?]]|]; try reflexivity. discriminate.
           ++ unfold dec_exact in Ht. destruct (dec (cslice c_tx) p1) as [[txs [|? ?]]|]; try reflexivity. discriminate.
           ++ destruct (rcount (length content) None content 0) as [n|] eqn:Ec.
              ** cbn [rb_raw_txs rb_header]. rewrite Ht. unfold dec_exact.
                 destruct (dec (cslice c_tx) p1) as [[txs [|? ?]]|]; reflexivity.
              ** unfold dec_exact in Ht. destruct (dec (cslice c_tx) p1) as [[txs [|? ?]]|]; try reflexivity. discriminate.
        -- unfold dec_exact in Ht. destruct (dec (cslice c_tx) p1) as [[txs [|? ?]]|]; try reflexivity. discriminate.
      * unfold dec_exact in Ht. destruct (dec (cslice c_tx) p1) as [[txs [|? ?]]|]; try reflexivity. discriminate.
      * unfold dec_exact in Ht. destruct (dec (cslice c_tx) p1) as [[txs [|? ?]]|]; try reflexivity. discriminate.
    + destruct (dec (cslice c_tx) p1) as [[txs [|? ?]]|]; reflexivity.
  - destruct r; reflexivity.
Qed.
