(* Codec/ProofsNorm.v — normalisation (0xc0 -> 0x80 in rlp:"nil" positions) preserves well-formedness and encoded
   length; hence the re-encoding of a decoded object equals the input IFF no nil position held 0xc0. *)
From Coq Require Import List NArith ZArith Bool Lia.
From Coq Require Import ZifyN ZifyNat ZifyBool.
From Verif Require Import Codec.Model Codec.ProofsRLP Codec.ProofsComb Codec.ProofsObjects Codec.ProofsTop.
Import ListNotations.
Open Scope N_scope.

(* n is a length-preserving normaliser of codec c *)
Definition lp {A} (c : codec A) (n : A -> A) : Prop :=
  forall x, wfp c x -> wfp c (n x) /\ lenN (enc c (n x)) = lenN (enc c x).

Definition nid {A} (x : A) : A := x.
Definition npair {A B} (na : A -> A) (nb : B -> B) (p : A * B) : A * B := (na (fst p), nb (snd p)).
Lemma lp_ext {A} (c : codec A) n n' : lp c n -> (forall x, n' x = n x) -> lp c n'.
Proof. intros H E x W. rewrite E. apply H, W. Qed.
Lemma lp_id {A} (c : codec A) : lp c nid.
Proof. intros x W. split; [exact W|reflexivity]. Qed.
Lemma lp_pair {A B} (ca : codec A) (cb : codec B) na nb :
  lp ca na -> lp cb nb -> lp (cpair ca cb) (npair na nb).
Proof.
  intros Ha Hb [x y] [Wx Wy]. unfold npair. cbn [wfp enc cpair fst snd] in *. destruct (Ha x Wx) as [W1 L1]. destruct (Hb y Wy) as [W2 L2].
  split; [tauto|]. rewrite !lenN_app. lia.
Qed.
Lemma lp_wrap {A} (c : codec A) n : lp c n -> lp (cwrap c) n.
Proof.
  intros H x [W Hl]. cbn [wfp enc cwrap] in *. destruct (H x W) as [W1 L1]. split.
  - split; [exact W1|]. rewrite L1. exact Hl.
  - unfold enc_list. rewrite !lenN_app, L1. reflexivity.
Qed.
Lemma lp_concat {A} (c : codec A) n l : lp c n -> Forall (wfp c) l ->
  Forall (wfp c) (map n l) /\ lenN (concat (map (enc c) (map n l))) = lenN (concat (map (enc c) l)).
Proof.
  intros H. induction l as [|x l IH]; intros W; [split; [constructor|reflexivity]|].
  inversion W as [|? ? Wx Wl]; subst. destruct (IH Wl) as [W1 L1]. destruct (H x Wx) as [W2 L2]. cbn [map concat]. split.
  - constructor; assumption.
  - rewrite !lenN_app. lia.
Qed.
Lemma lp_slice {A} (c : codec A) n : lp c n -> lp (cslice c) (map n).
Proof.
  intros H l [W Hl]. cbn [wfp enc cslice] in *. destruct (lp_concat c n l H W) as [W1 L1]. split.
  - split; [exact W1|]. rewrite L1. exact Hl.
  - unfold enc_list. rewrite !lenN_app, L1. reflexivity.
Qed.
Lemma lp_pmap {A B} (f : A -> option B) (g : B -> A) (c : codec A) n n' :
  lp c n -> (forall y, wfp (cpmap f g c) y -> g (n' y) = n (g y) /\ f (n (g y)) = Some (n' y)) -> lp (cpmap f g c) n'.
Proof.
  intros H Hc y W. destruct (Hc y W) as [E1 E2]. destruct W as [W F]. cbn [wfp enc cpmap] in *. destruct (H _ W) as [W1 L1].
  rewrite E1. split; [split; [exact W1|exact E2]|exact L1].
Qed.

(* ------------------------------------------------------------------ objects *)
Lemma lp_nil n : lp (c_nilable n) norm_nil.
Proof. intros [| |a] W; cbn in *; split; try exact I; try reflexivity; exact W. Qed.

Lemma lp_clause : lp c_clause norm_clause.
Proof.
  unfold c_clause, cmap.
  apply (lp_pmap _ _ _ (npair norm_nil (npair nid nid))).
  - apply lp_wrap. apply lp_pair; [apply lp_nil|]. apply lp_pair; apply lp_id.
  - intros y _. split; reflexivity.
Qed.
Lemma lp_clauses : lp c_clauses (map norm_clause).
Proof.
  intros l [W Hl]. destruct (lp_slice c_clause norm_clause lp_clause l W) as [W1 L1]. cbn [wfp enc c_clauses] in *.
  split; [split; [exact W1|]|exact L1]. unfold lenN in *. rewrite map_length. exact Hl.
Qed.

Definition norm_legacy_tuple (p : N * (N * (N * (list clause * (N * (N * (nilable * (N * (reserved * bytes))))))))) :=
  let '(ct, (br, (ex, (cl, (gpc, (gas, (dep, (nonce, (res, sig))))))))) := p in
  (ct, (br, (ex, (map norm_clause cl, (gpc, (gas, (norm_nil dep, (nonce, (res, sig))))))))).
Definition norm_dyn_tuple (p : N * (N * (N * (list clause * (N * (N * (N * (nilable * (N * (reserved * bytes)))))))))) :=
  let '(ct, (br, (ex, (cl, (prio, (fee, (gas, (dep, (nonce, (res, sig)))))))))) := p in
  (ct, (br, (ex, (map norm_clause cl, (prio, (fee, (gas, (norm_nil dep, (nonce, (res, sig)))))))))).

Lemma lp_legacy_fields : lp legacy_fields norm_legacy_tuple.
Proof.
  unfold legacy_fields.
  apply (lp_ext _ (npair nid (npair nid (npair nid (npair (map norm_clause) (npair nid (npair nid (npair norm_nil (npair nid (npair nid nid)))))))))).
  - apply lp_pair; [apply lp_id|]. apply lp_pair; [apply lp_id|]. apply lp_pair; [apply lp_id|].
    apply lp_pair; [apply lp_clauses|]. apply lp_pair; [apply lp_id|]. apply lp_pair; [apply lp_id|].
    apply lp_pair; [apply lp_nil|]. apply lp_pair; [apply lp_id|]. apply lp_pair; apply lp_id.
  - intros [a [b [c [d [e [f [g [h [i j]]]]]]]]]. reflexivity.
Qed.
Lemma lp_dyn_fields : lp dyn_fields norm_dyn_tuple.
Proof.
  unfold dyn_fields.
  apply (lp_ext _ (npair nid (npair nid (npair nid (npair (map norm_clause) (npair nid (npair nid (npair nid (npair norm_nil (npair nid (npair nid nid))))))))))).
  - apply lp_pair; [apply lp_id|]. apply lp_pair; [apply lp_id|]. apply lp_pair; [apply lp_id|].
    apply lp_pair; [apply lp_clauses|]. apply lp_pair; [apply lp_id|]. apply lp_pair; [apply lp_id|]. apply lp_pair; [apply lp_id|].
    apply lp_pair; [apply lp_nil|]. apply lp_pair; [apply lp_id|]. apply lp_pair; apply lp_id.
  - intros [a [b [c [d [e [f [g [h [i [j k]]]]]]]]]]. reflexivity.
Qed.

Lemma lp_legacy : lp c_legacy norm_tx.
Proof.
  unfold c_legacy, cmap. apply (lp_pmap _ _ _ norm_legacy_tuple).
  - apply lp_wrap, lp_legacy_fields.
  - intros t [_ H]. destruct t as [dy ct br ex cl gpc pr fe gas dep no res sg]. cbn in H. inversion H; subst.
    split; reflexivity.
Qed.
Lemma lp_dyn : lp c_dyn norm_tx.
Proof.
  unfold c_dyn, cmap. apply (lp_pmap _ _ _ norm_dyn_tuple).
  - apply lp_wrap, lp_dyn_fields.
  - intros t [_ H]. destruct t as [dy ct br ex cl gpc pr fe gas dep no res sg]. cbn in H. inversion H; subst.
    split; reflexivity.
Qed.

Lemma norm_tx_dyn t : t_dyn (norm_tx t) = t_dyn t.
Proof. reflexivity. Qed.

Lemma enc_str_len_cons (a b : bytes) x : lenN a = lenN b -> a <> [] -> b <> [] -> lenN (enc_str (x :: a)) = lenN (enc_str (x :: b)).
Proof.
  intros H Ha Hb. destruct a as [|a0 a']; [congruence|]. destruct b as [|b0 b']; [congruence|].
  change (enc_str (x :: a0 :: a')) with (enc_len 128 (lenN (x :: a0 :: a')) ++ x :: a0 :: a').
  change (enc_str (x :: b0 :: b')) with (enc_len 128 (lenN (x :: b0 :: b')) ++ x :: b0 :: b').
  rewrite !lenN_app, !(lenN_cons x), H. reflexivity.
Qed.

Lemma lp_tx : lp c_tx norm_tx.
Proof.
  intros t. cbn [wfp enc c_tx]. rewrite norm_tx_dyn. destruct (t_dyn t).
  - intros [W Hl]. destruct (lp_dyn t W) as [W1 L1]. split; [split; [exact W1|rewrite L1; exact Hl]|].
    apply enc_str_len_cons; [exact L1|apply c_dyn_nonempty; exact W1|apply c_dyn_nonempty; exact W].
  - intros W. exact (lp_legacy t W).
Qed.
Lemma lp_block : lp c_block norm_block.
Proof.
  unfold c_block, cmap. apply (lp_pmap _ _ _ (npair nid (map norm_tx))).
  - apply lp_wrap. apply lp_pair; [apply lp_id|apply lp_slice, lp_tx].
  - intros [h txs] _. split; reflexivity.
Qed.

(* ------------------------------------------------------------------ norm x = x  <->  no 0xc0 in a nil position *)
Lemma norm_clauses_fix l : map norm_clause l = l -> existsb (fun c => is_nil_list (c_to c)) l = false.
Proof.
  induction l as [|c l IH]; [reflexivity|]. cbn [map existsb]. intros H. inversion H as [[H1 H2]]. rewrite H2. rewrite IH by exact H2.
  destruct c as [to v d]. unfold norm_clause in H1. cbn [c_to c_value c_data] in *. inversion H1 as [H3].
  destruct to; [reflexivity|discriminate|reflexivity].
Qed.
Lemma norm_tx_fix t : norm_tx t = t -> tx_has_nil_list t = false.
Proof.
  destruct t as [dy ct br ex cl gpc pr fe gas dep no res sg]. unfold norm_tx, tx_has_nil_list.
  cbn [t_depends t_clauses t_dyn t_chain_tag t_block_ref t_expiration t_gpc t_max_prio t_max_fee t_gas t_nonce t_reserved t_sig].
  intros H. inversion H as [[H1 H2]]. rewrite H1. rewrite (norm_clauses_fix cl H1).
  destruct dep; [reflexivity|discriminate|reflexivity].
Qed.
Lemma norm_txs_fix l : map norm_tx l = l -> existsb tx_has_nil_list l = false.
Proof.
  induction l as [|t l IH]; [reflexivity|]. cbn [map existsb]. intros H. inversion H as [[H2 H3]].
  rewrite !H2, !H3. rewrite (norm_tx_fix t H2), (IH H3). reflexivity.
Qed.
Lemma norm_block_fix b : norm_block b = b -> block_has_nil_list b = false.
Proof.
  destruct b as [h txs]. unfold norm_block, block_has_nil_list. cbn [b_header b_txs]. intros H. inversion H as [H1].
  rewrite !H1. exact (norm_txs_fix txs H1).
Qed.

(* ------------------------------------------------------------------ exact characterisations *)
Theorem tx_decode_canonical_iff_l b t : go_decode_tx b = Some t -> (go_reencode_tx t = b <-> tx_has_nil_list t = false).
Proof.
  intros H. split.
  - intros E. apply tx_decode_sound_l in H. destruct H as [-> W]. unfold go_reencode_tx in E.
    apply norm_tx_fix. apply (codec_inj c_tx _ _ c_tx_ok); [apply lp_tx; exact W|exact W|exact E].
  - intros Hq. exact (proj1 (tx_decode_canonical_except_l b t H Hq)).
Qed.
Theorem block_decode_canonical_iff_l bs b : go_decode_block bs = Some b -> (go_reencode_block b = bs <-> block_has_nil_list b = false).
Proof.
  intros H. split.
  - intros E. apply (dec_exact_sound _ _ _ (proj1 c_block_ok)) in H. destruct H as [-> W]. unfold go_reencode_block in E.
    apply norm_block_fix. apply (codec_inj c_block _ _ c_block_ok); [apply lp_block; exact W|exact W|exact E].
  - intros Hq. exact (proj1 (block_decode_canonical_except_l bs b H Hq)).
Qed.
Theorem tx_unmarshal_canonical_iff_l b t : tx_unmarshal b = Some t -> (go_marshal_tx t = b <-> tx_has_nil_list t = false).
Proof.
  intros H. apply tx_unmarshal_sound_l in H. destruct H as [-> W]. unfold go_marshal_tx, tx_marshal. rewrite norm_tx_dyn. split.
  - intros E. apply norm_tx_fix. destruct (t_dyn t).
    + inversion E as [E1]. apply (codec_inj c_dyn _ _ c_dyn_ok); [apply lp_dyn; exact W|exact W|exact E1].
    + apply (codec_inj c_legacy _ _ c_legacy_ok); [apply lp_legacy; exact W|exact W|exact E].
  - intros Hq. rewrite (norm_tx_id t Hq). reflexivity.
Qed.
(* the length never changes: Size() computed from the input equals the length of the canonical encoding, F2 or not *)
Theorem tx_reencode_length_l b t : go_decode_tx b = Some t -> lenN (go_reencode_tx t) = lenN b /\ lenN (go_marshal_tx t) = lenN (tx_marshal t).
Proof.
  intros H. apply tx_decode_sound_l in H. destruct H as [-> W]. split; [exact (proj2 (lp_tx t W))|].
  unfold go_marshal_tx, tx_marshal. rewrite norm_tx_dyn. cbn [wfp c_tx] in W. destruct (t_dyn t).
  - destruct W as [W _]. rewrite !lenN_cons, (proj2 (lp_dyn t W)). reflexivity.
  - exact (proj2 (lp_legacy t W)).
Qed.
Theorem block_reencode_length_l bs b : go_decode_block bs = Some b -> lenN (go_reencode_block b) = lenN bs.
Proof. intros H. apply (dec_exact_sound _ _ _ (proj1 c_block_ok)) in H. destruct H as [-> W]. exact (proj2 (lp_block b W)). Qed.
