(* Codec/ProofsComb.v — correctness of the codec combinators and primitive codecs:
   sound    : dec b = Some (x, r) -> b = enc x ++ r /\ wfp x      (what is accepted is exactly the encoding of what it yields)
   complete : wfp x -> dec (enc x ++ r) = Some (x, r)            (every well-formed value round-trips, whatever follows) *)
From Coq Require Import List NArith ZArith Bool Lia.
From Coq Require Import ZifyN ZifyNat ZifyBool.
From Verif Require Import Codec.Model Codec.ProofsRLP.
Import ListNotations.
Open Scope N_scope.
Ltac Zify.zify_post_hook ::= Z.div_mod_to_equations.

Definition sound {A} (c : codec A) : Prop := forall b x r, dec c b = Some (x, r) -> b = enc c x ++ r /\ wfp c x.
Definition complete {A} (c : codec A) : Prop := forall x r, wfp c x -> dec c (enc c x ++ r) = Some (x, r).
Definition codec_ok {A} (c : codec A) : Prop := sound c /\ complete c.
Definition nonempty {A} (c : codec A) : Prop := forall x, wfp c x -> enc c x <> [].

Lemma codec_inj {A} (c : codec A) x y : codec_ok c -> wfp c x -> wfp c y -> enc c x = enc c y -> x = y.
Proof.
  intros [_ Hc] Hx Hy E. pose proof (Hc x [] Hx) as H1. pose proof (Hc y [] Hy) as H2. rewrite E in H1. congruence.
Qed.
Lemma codec_inj_app {A} (c : codec A) x y r r' : codec_ok c -> wfp c x -> wfp c y -> enc c x ++ r = enc c y ++ r' -> x = y /\ r = r'.
Proof.
  intros [_ Hc] Hx Hy E. pose proof (Hc x r Hx) as H1. pose proof (Hc y r' Hy) as H2. rewrite E in H1.
  rewrite H1 in H2. inversion H2. tauto.
Qed.

Lemma dec_exact_sound {A} (c : codec A) b x : sound c -> dec_exact c b = Some x -> b = enc c x /\ wfp c x.
Proof.
  intros Hs. unfold dec_exact. destruct (dec c b) as [[y [|? ?]]|] eqn:E; try discriminate.
  intros H. inversion H; subst. apply Hs in E. rewrite app_nil_r in E. exact E.
Qed.
Lemma dec_exact_complete {A} (c : codec A) x : complete c -> wfp c x -> dec_exact c (enc c x) = Some x.
Proof. intros Hc Hx. unfold dec_exact. specialize (Hc x [] Hx). rewrite app_nil_r in Hc. rewrite Hc. reflexivity. Qed.

(* ------------------------------------------------------------------ combinators *)
Lemma cpair_ok {A B} (ca : codec A) (cb : codec B) : codec_ok ca -> codec_ok cb -> codec_ok (cpair ca cb).
Proof.
  intros [Sa Ca] [Sb Cb]. split.
  - intros b [x y] r. cbn [dec cpair enc wfp fst snd].
    destruct (dec ca b) as [[x' r1]|] eqn:E1; [|discriminate].
    destruct (dec cb r1) as [[y' r2]|] eqn:E2; [|discriminate].
    intros H. inversion H; subst. apply Sa in E1. apply Sb in E2. destruct E1 as [-> Wx]. destruct E2 as [-> Wy].
    rewrite app_assoc. tauto.
  - intros [x y] r [Wx Wy]. cbn [dec cpair enc wfp fst snd] in *. rewrite <- app_assoc, (Ca x _ Wx), (Cb y _ Wy). reflexivity.
Qed.
Lemma cpair_nonempty_l {A B} (ca : codec A) (cb : codec B) : nonempty ca -> nonempty (cpair ca cb).
Proof. intros H [x y] [Wx _] E. cbn in E. apply app_eq_nil in E. destruct E as [E _]. exact (H x Wx E). Qed.

Lemma cpmap_ok {A B} (f : A -> option B) (g : B -> A) (c : codec A) :
  (forall a y, wfp c a -> f a = Some y -> g y = a) -> codec_ok c -> codec_ok (cpmap f g c).
Proof.
  intros Hfg [S C]. split.
  - intros b y r. cbn [dec cpmap enc wfp].
    destruct (dec c b) as [[a r1]|] eqn:E1; [|discriminate]. destruct (f a) as [y'|] eqn:E2; [|discriminate].
    intros H. inversion H; subst. apply S in E1. destruct E1 as [-> Wa]. rewrite (Hfg a y Wa E2). tauto.
  - intros y r [Wy Fy]. cbn [dec cpmap enc wfp] in *. rewrite (C _ _ Wy), Fy. reflexivity.
Qed.
Lemma cpmap_nonempty {A B} (f : A -> option B) (g : B -> A) (c : codec A) : nonempty c -> nonempty (cpmap f g c).
Proof. intros H y [Wy _]. cbn. apply H. exact Wy. Qed.
Lemma cmap_ok {A B} (f : A -> B) (g : B -> A) (c : codec A) : (forall a, g (f a) = a) -> codec_ok c -> codec_ok (cmap f g c).
Proof. intros H. apply cpmap_ok. intros a y _ E. inversion E; subst. apply H. Qed.

Lemma enc_list_head p : enc_list p = enc_head KList p ++ p.
Proof. reflexivity. Qed.
Lemma enc_list_nonempty p : enc_list p <> [].
Proof. unfold enc_list, enc_len. destruct (lenN p <? 56); discriminate. Qed.

Lemma cwrap_ok {A} (c : codec A) : codec_ok c -> codec_ok (cwrap c).
Proof.
  intros [S C]. split.
  - intros b x r. cbn [dec cwrap enc wfp].
    destruct (shead b) as [[[k p] r1]|] eqn:E; [|discriminate]. destruct k; try discriminate.
    destruct (dec c p) as [[x' [|? ?]]|] eqn:E2; try discriminate.
    intros H. inversion H; subst. apply shead_sound in E. destruct E as [-> Hk]. apply S in E2. destruct E2 as [E2 Wx].
    rewrite app_nil_r in E2. subst p. rewrite enc_list_head, <- app_assoc. cbn [hok] in Hk. unfold two64 in Hk. tauto.
  - intros x r [Wx Hl]. cbn [dec cwrap enc wfp] in *. rewrite enc_list_head, <- app_assoc.
    rewrite shead_complete by exact Hl. specialize (C x [] Wx). rewrite app_nil_r in C. rewrite C. reflexivity.
Qed.
Lemma cwrap_nonempty {A} (c : codec A) : nonempty (cwrap c).
Proof. intros x _. apply enc_list_nonempty. Qed.

Lemma dec_elems_step {A} (d : parser A) g p : p <> [] ->
  dec_elems d (S g) p = match d p with
                        | Some (x, p') => match dec_elems d g p' with Some l => Some (x :: l) | None => None end
                        | None => None end.
Proof. destruct p; [congruence|reflexivity]. Qed.

Lemma dec_elems_sound {A} (c : codec A) : sound c ->
  forall g p l, dec_elems (dec c) g p = Some l -> p = concat (map (enc c) l) /\ Forall (wfp c) l.
Proof.
  intros S. induction g as [|g IH]; intros p l H.
  - destruct p; [|discriminate]. inversion H; subst. split; [reflexivity|constructor].
  - destruct p as [|b0 p0]; [inversion H; subst; split; [reflexivity|constructor]|].
    rewrite dec_elems_step in H by discriminate.
    destruct (dec c (b0 :: p0)) as [[x p']|] eqn:E; [|discriminate].
    destruct (dec_elems (dec c) g p') as [l'|] eqn:E2; [|discriminate].
    inversion H; subst. apply S in E. destruct E as [E Wx]. apply IH in E2. destruct E2 as [-> Wl].
    cbn [map concat]. split; [exact E|constructor; assumption].
Qed.
Lemma dec_elems_complete {A} (c : codec A) : complete c -> nonempty c ->
  forall l, Forall (wfp c) l -> forall g, (length (concat (map (enc c) l)) <= g)%nat ->
  dec_elems (dec c) g (concat (map (enc c) l)) = Some l.
Proof.
  intros C NE. induction l as [|x l IH]; intros W g Hg.
  - destruct g; reflexivity.
  - inversion W as [|? ? Wx Wl]; subst. cbn [map concat] in *.
    assert (Hne : enc c x <> []) by (apply NE; exact Wx).
    rewrite app_length in Hg. destruct (enc c x) as [|e0 ex] eqn:Ex; [congruence|].
    destruct g as [|g]; [cbn in Hg; lia|].
    rewrite dec_elems_step by discriminate. rewrite <- Ex, (C x _ Wx), IH; [reflexivity|exact Wl|].
    cbn [length] in Hg. lia.
Qed.

Lemma cslice_ok {A} (c : codec A) : codec_ok c -> nonempty c -> codec_ok (cslice c).
Proof.
  intros [S C] NE. split.
  - intros b l r. cbn [dec cslice enc wfp].
    destruct (shead b) as [[[k p] r1]|] eqn:E; [|discriminate]. destruct k; try discriminate.
    destruct (dec_elems (dec c) (length p) p) as [l'|] eqn:E2; [|discriminate].
    intros H. inversion H; subst. apply shead_sound in E. destruct E as [-> Hk].
    apply (dec_elems_sound c S) in E2. destruct E2 as [E2 Wl]. cbn [hok] in Hk. subst p. unfold two64 in Hk.
    rewrite enc_list_head, <- app_assoc. tauto.
  - intros l r [Wl Hl]. cbn [dec cslice enc wfp] in *. rewrite enc_list_head, <- app_assoc.
    rewrite shead_complete by exact Hl. rewrite (dec_elems_complete c C NE l Wl); [reflexivity|lia].
Qed.
Lemma cslice_nonempty {A} (c : codec A) : nonempty (cslice c).
Proof. intros x _. apply enc_list_nonempty. Qed.

(* ------------------------------------------------------------------ primitive codecs *)
Lemma single_low_true c : single_low c = true -> exists x, c = [x] /\ x < 128.
Proof. destruct c as [|x [|? ?]]; try discriminate. cbn. intros H. exists x. split; [reflexivity|lia]. Qed.
Lemma enc_str_high c : single_low c = false -> enc_str c = enc_head KStr c ++ c.
Proof.
  destruct c as [|x [|y t]]; try reflexivity. cbn [single_low enc_str]. intros H. rewrite H. reflexivity.
Qed.
Lemma enc_str_low x : x < 128 -> enc_str [x] = [x].
Proof. intros H. cbn. destruct (x <? 128) eqn:E; [reflexivity|lia]. Qed.

Lemma c_bytes_ok : codec_ok c_bytes.
Proof.
  split.
  - intros b x r. cbn [dec c_bytes enc wfp].
    destruct (shead b) as [[[k c] r1]|] eqn:E; [|discriminate]. apply shead_sound in E. destruct E as [-> Hk].
    destruct k; try discriminate.
    + intros H. inversion H; subst. destruct Hk as [y [-> Hy]]. rewrite enc_str_low by exact Hy.
      split; [reflexivity|]. cbn. unfold two64. lia.
    + destruct (single_low c) eqn:Es; [discriminate|]. intros H. inversion H; subst.
      rewrite enc_str_high by exact Es. rewrite <- app_assoc. split; [reflexivity|exact Hk].
  - intros x r Hx. cbn [dec c_bytes enc wfp] in *. destruct (single_low x) eqn:Es.
    + apply single_low_true in Es. destruct Es as [y [-> Hy]]. rewrite enc_str_low by exact Hy.
      cbn [app shead]. destruct (y <? 128) eqn:E; [reflexivity|lia].
    + rewrite enc_str_high by exact Es. rewrite <- app_assoc. rewrite (shead_complete KStr x r Hx). rewrite Es. reflexivity.
Qed.
Lemma c_bytes_nonempty : nonempty c_bytes.
Proof.
  intros x _ E. cbn [enc c_bytes] in E. destruct x as [|y [|z t]].
  - cbn in E. discriminate.
  - cbn [enc_str] in E. destruct (y <? 128); discriminate.
  - cbn [enc_str] in E. apply app_eq_nil in E. destruct E as [E _]. unfold enc_len in E.
    destruct (lenN (y :: z :: t) <? 56); discriminate.
Qed.

Lemma c_uint_ok n : codec_ok (c_uint n).
Proof.
  apply cpmap_ok; [|apply c_bytes_ok]. intros a y _. destruct (canon_int a) eqn:E; [|discriminate].
  destruct (lenN a <=? n); [|discriminate]. cbn. intros H. inversion H. apply be_bytes_be_val. exact E.
Qed.
Lemma c_big_ok : codec_ok c_big.
Proof.
  apply cpmap_ok; [|apply c_bytes_ok]. intros a y _. destruct (canon_int a) eqn:E; [|discriminate].
  intros H. inversion H. apply be_bytes_be_val. exact E.
Qed.
Lemma c_bool_ok : codec_ok c_bool.
Proof.
  apply cpmap_ok; [|apply c_uint_ok]. intros a y _. destruct (a =? 0) eqn:E0.
  - intros H. inversion H. lia.
  - destruct (a =? 1) eqn:E1; [|discriminate]. intros H. inversion H. lia.
Qed.

(* readable sufficient conditions for the integer codecs *)
Lemma c_uint_wf k n : k <= 8 -> n < 256 ^ k -> wfp (c_uint k) n.
Proof.
  intros Hk Hn. cbn [wfp c_uint cpmap c_bytes]. pose proof (be_bytes_len n k Hn) as Hl. split.
  - unfold two64 in *. lia.
  - rewrite be_bytes_canon, be_val_be_bytes. destruct (lenN (be_bytes n) <=? k) eqn:E; [reflexivity|lia].
Qed.
Lemma c_uint_wf_inv k n : wfp (c_uint k) n -> n < 256 ^ k.
Proof.
  cbn [wfp c_uint cpmap c_bytes]. intros [_ H]. destruct (canon_int (be_bytes n)) eqn:Ec; [|discriminate].
  destruct (lenN (be_bytes n) <=? k) eqn:E; [|discriminate]. cbn in H.
  unfold canon_int in Ec. apply andb_prop in Ec. destruct Ec as [Hok _].
  pose proof (be_val_bound _ Hok) as Hb. rewrite be_val_be_bytes in Hb.
  assert (256 ^ lenN (be_bytes n) <= 256 ^ k) by (apply N.pow_le_mono_r; lia). lia.
Qed.
Lemma c_big_wf n : n < 2 ^ 256 -> wfp c_big n.
Proof.
  intros Hn. cbn [wfp c_big cpmap c_bytes]. assert (Hl : lenN (be_bytes n) <= 32) by (apply be_bytes_len; exact Hn). split.
  - unfold two64. lia.
  - rewrite be_bytes_canon, be_val_be_bytes. reflexivity.
Qed.
Lemma c_bool_wf b : wfp c_bool b.
Proof.
  cbn [wfp c_bool cpmap]. split; [apply c_uint_wf; destruct b; cbn; lia|]. destruct b; reflexivity.
Qed.

Lemma c_fixed_ok n : 2 <= n < 56 -> codec_ok (c_fixed n).
Proof.
  intros Hn. split.
  - intros b x r. cbn [dec c_fixed enc wfp].
    destruct (shead b) as [[[k c] r1]|] eqn:E; [|discriminate]. apply shead_sound in E. destruct E as [-> Hk].
    destruct k; try discriminate. destruct (lenN c =? n) eqn:El; [|discriminate].
    intros H. inversion H; subst. cbn [enc_head]. unfold enc_len. destruct (lenN x <? 56) eqn:E56; [|lia].
    cbn [app]. split; [f_equal; f_equal; lia|lia].
  - intros x r Hx. cbn [dec c_fixed enc wfp] in *.
    assert (E : (128 + n) :: x ++ r = enc_head KStr x ++ x ++ r).
    { cbn [enc_head]. unfold enc_len. destruct (lenN x <? 56) eqn:E56; [|lia]. cbn [app]. f_equal. lia. }
    cbn [app]. rewrite E, shead_complete by (cbn [hok]; unfold two64; lia).
    destruct (lenN x =? n) eqn:El; [reflexivity|lia].
Qed.
Lemma c_fixed_nonempty n : nonempty (c_fixed n).
Proof. intros x _ E. cbn [enc c_fixed] in E. discriminate. Qed.

Lemma c_raw_ok : codec_ok c_raw.
Proof.
  split.
  - intros b x r. cbn [dec c_raw enc wfp].
    destruct (shead b) as [[[k c] r1]|] eqn:E; [|discriminate]. intros H. inversion H; subst.
    apply shead_sound in E. destruct E as [-> Hk]. split; [rewrite <- app_assoc; reflexivity|].
    exists k, c. pose proof (shead_complete k c [] Hk) as Hc. rewrite app_nil_r in Hc. exact Hc.
  - intros x r [k [c Hx]]. cbn [dec c_raw enc wfp]. rewrite (shead_app _ _ _ _ r Hx). cbn [app].
    apply shead_sound in Hx. destruct Hx as [Hx _]. rewrite app_nil_r in Hx. rewrite <- Hx. reflexivity.
Qed.
Lemma c_raw_nonempty : nonempty c_raw.
Proof. intros x [k [c H]] E. cbn [enc c_raw] in E. subst. cbn in H. discriminate. Qed.

Lemma c_nilable_ok n : 2 <= n < 56 -> codec_ok (c_nilable n).
Proof.
  intros Hn. destruct (c_fixed_ok n Hn) as [Sf Cf]. split.
  - intros b x r. cbn [dec c_nilable enc wfp].
    destruct (shead b) as [[[k c] r1]|] eqn:E.
    + destruct k.
      * destruct (dec (c_fixed n) b) as [[a r2]|] eqn:E2; [|discriminate]. intros H. inversion H; subst.
        apply Sf in E2. exact E2.
      * destruct c as [|c0 ct].
        { intros H. inversion H; subst. apply shead_sound in E. destruct E as [-> _]. split; [reflexivity|exact I]. }
        destruct (dec (c_fixed n) b) as [[a r2]|] eqn:E2; [|discriminate]. intros H. inversion H; subst.
        apply Sf in E2. exact E2.
      * destruct c as [|c0 ct].
        { intros H. inversion H; subst. apply shead_sound in E. destruct E as [-> _]. split; [reflexivity|exact I]. }
        destruct (dec (c_fixed n) b) as [[a r2]|] eqn:E2; [|discriminate]. intros H. inversion H; subst.
        apply Sf in E2. exact E2.
    + destruct (dec (c_fixed n) b) as [[a r2]|] eqn:E2; [|discriminate]. intros H. inversion H; subst.
      apply Sf in E2. exact E2.
  - intros x r Hx. cbn [dec c_nilable enc wfp] in *. destruct x as [| |a].
    + change ([128] ++ r) with (enc_head KStr [] ++ [] ++ r). rewrite shead_complete by (cbn; unfold two64; lia). reflexivity.
    + change ([192] ++ r) with (enc_head KList [] ++ [] ++ r). rewrite shead_complete by (cbn; unfold two64; lia). reflexivity.
    + pose proof (Cf a r Hx) as Hd. cbn [enc c_fixed] in *. cbn [app] in *.
      assert (Hs : shead ((128 + n) :: a ++ r) = Some (KStr, a, r)).
      { replace ((128 + n) :: a ++ r) with (enc_head KStr a ++ a ++ r).
        - apply shead_complete. cbn [hok]. unfold two64. lia.
        - cbn [enc_head]. unfold enc_len. destruct (lenN a <? 56) eqn:E56; [|lia]. cbn [app]. f_equal. lia. }
      rewrite Hs. destruct a as [|a0 at']; [cbn in Hx; lia|]. rewrite Hd. reflexivity.
Qed.
