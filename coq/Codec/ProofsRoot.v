(* Codec/ProofsRoot.v — "the transactions and receipts roots commit to the ordered contents": the tree trie.DeriveRoot
   builds (keys rlp(i), values MarshalBinary(item_i)) determines the ordered list.  Trie half: Trie/DeriveRoot.v
   (derive_root_injective_bytes, from the canonical-trie theorem of C06); codec half: the keys are byte strings, injective. *)
From Coq Require Import List NArith ZArith Bool Lia.
From Coq Require Import ZifyN ZifyNat ZifyBool.
From Verif Require Import Codec.Model Codec.ProofsRLP Codec.ProofsComb Codec.ProofsObjects Codec.ProofsTop
  Codec.ProofsNorm Codec.ProofsAcc Codec.ProofsBind.
From Verif Require Import Trie.Model Trie.DeriveRoot.
Import ListNotations.
Open Scope N_scope.

Fixpoint bytes_eqb (a b : bytes) : bool :=
  match a, b with [], [] => true | x :: a', y :: b' => (x =? y) && bytes_eqb a' b' | _, _ => false end.
Lemma bytes_eqb_sound a : forall b, bytes_eqb a b = true -> a = b.
Proof.
  induction a as [|x a IH]; intros [|y b] H; try discriminate; [reflexivity|].
  cbn in H. apply andb_prop in H. destruct H as [H1 H2]. f_equal; [lia|apply IH; exact H2].
Qed.

Definition root_key (i : nat) : bytes := enc (c_uint 8) (N.of_nat i).                     (* drlp.AppendUint(key[:0], uint64(i)) *)
(* the tree DeriveRoot builds from the values EncodeIndex(0..n-1); the root is the hash of this tree *)
Definition go_derive_tree (vals : list bytes) : node bytes :=
  derive_root bytes bytes_eqb (fun i => key_of_bytes (root_key i)) vals.

(* a total injective extension of root_key (indices >= 2^64 are never used for a Go slice) *)
Definition root_key' (i : nat) : bytes := if N.of_nat i <? u64max1 then root_key i else 0 :: 0 :: repeat 1 i.

Lemma is_bytes_okb c : bytes_okb c = true -> is_bytes c.
Proof.
  unfold is_bytes, bytes_okb. induction c as [|x c IH]; intros H; [constructor|]. cbn in H. apply andb_prop in H.
  destruct H as [H1 H2]. constructor; [lia|apply IH; exact H2].
Qed.
Lemma root_key_bytes i : N.of_nat i < u64max1 -> is_bytes (root_key i).
Proof.
  intros Hi. unfold root_key. cbn [enc c_uint cpmap c_bytes].
  assert (Hok : bytes_okb (be_bytes (N.of_nat i)) = true).
  { pose proof (be_bytes_canon (N.of_nat i)) as Hc. unfold canon_int in Hc. apply andb_prop in Hc. tauto. }
  assert (Hl : lenN (be_bytes (N.of_nat i)) <= 8) by (apply be_bytes_len; change (256 ^ 8) with u64max1; exact Hi).
  generalize dependent (be_bytes (N.of_nat i)). intros c Hok Hl.
  pose proof (is_bytes_okb c Hok) as Hb. destruct c as [|x [|y t]].
  - cbn. constructor; [lia|constructor].
  - cbn [enc_str]. inversion Hb as [|? ? Hx Hr]; subst. destruct (x <? 128).
    + constructor; [exact Hx|constructor].
    + constructor; [lia|]. constructor; [exact Hx|constructor].
  - change (enc_str (x :: y :: t)) with (enc_len 128 (lenN (x :: y :: t)) ++ x :: y :: t). unfold enc_len.
    destruct (lenN (x :: y :: t) <? 56) eqn:E; [|lia]. cbn [app]. constructor; [lia|exact Hb].
Qed.
Lemma cons_head0 (a : N) l r : a :: l = 0 :: r -> a = 0.
Proof. intros H. inversion H. reflexivity. Qed.
Lemma enc_str_not_00 c r : enc_str c = 0 :: 0 :: r -> False.
Proof.
  destruct c as [|x [|y t]].
  - cbn. discriminate.
  - cbn [enc_str]. destruct (x <? 128) eqn:E; intros H; inversion H.
  - change (enc_str (x :: y :: t)) with (enc_len 128 (lenN (x :: y :: t)) ++ x :: y :: t).
    generalize (lenN (x :: y :: t)). intros n. unfold enc_len.
    destruct (n <? 56); cbn [app]; intros H; apply cons_head0 in H; revert H; generalize (lenN (be_bytes n)); intros; lia.
Qed.
Lemma root_key'_bytes i : is_bytes (root_key' i).
Proof.
  unfold root_key'. destruct (N.of_nat i <? u64max1) eqn:E; [apply root_key_bytes; lia|].
  constructor; [lia|]. constructor; [lia|]. unfold is_bytes. apply Forall_forall. intros x Hx. apply repeat_spec in Hx. lia.
Qed.
Lemma root_key'_inj i j : root_key' i = root_key' j -> i = j.
Proof.
  unfold root_key'. destruct (N.of_nat i <? u64max1) eqn:Ei; destruct (N.of_nat j <? u64max1) eqn:Ej; intros E.
  - unfold root_key in E. apply (codec_inj (c_uint 8) _ _ (c_uint_ok 8)) in E; [lia|apply uint8_wf; lia|apply uint8_wf; lia].
  - exfalso. unfold root_key in E. cbn [enc c_uint cpmap c_bytes] in E. exact (enc_str_not_00 _ _ E).
  - exfalso. unfold root_key in E. cbn [enc c_uint cpmap c_bytes] in E. symmetry in E. exact (enc_str_not_00 _ _ E).
  - apply (f_equal (@length N)) in E. cbn [length] in E. rewrite !repeat_length in E. lia.
Qed.

Lemma derive_from_ext (k1 k2 : nat -> list nat) items : forall i t,
  (forall j, (i <= j < i + length items)%nat -> k1 j = k2 j) ->
  derive_from bytes bytes_eqb k1 i items t = derive_from bytes bytes_eqb k2 i items t.
Proof.
  induction items as [|x r IH]; intros i t Hk; [reflexivity|]. cbn [derive_from]. rewrite (Hk i) by (cbn [length]; lia).
  apply IH. intros j Hj. apply Hk. cbn [length]. lia.
Qed.

Theorem derive_tree_injective_l vals1 vals2 : lenN vals1 < u64max1 -> lenN vals2 < u64max1 ->
  go_derive_tree vals1 = go_derive_tree vals2 -> vals1 = vals2.
Proof.
  intros H1 H2 E. unfold go_derive_tree, derive_root in E.
  assert (X : forall vals, lenN vals < u64max1 ->
            derive_from bytes bytes_eqb (fun i => key_of_bytes (root_key i)) 0 vals (@Nil bytes) =
            derive_from bytes bytes_eqb (fun i => key_of_bytes (root_key' i)) 0 vals (@Nil bytes)).
  { intros vals Hv. apply derive_from_ext. intros j Hj. unfold root_key'. unfold lenN in Hv.
    destruct (N.of_nat j <? u64max1) eqn:Ej; [reflexivity|lia]. }
  rewrite (X vals1 H1), (X vals2 H2) in E.
  exact (derive_root_injective_bytes bytes bytes_eqb bytes_eqb_sound root_key' root_key'_bytes root_key'_inj vals1 vals2 E).
Qed.

(* equal txs-root trees => equal ordered Go transactions; equal receipts-root trees => equal ordered receipts *)
Theorem txs_root_tree_binds_l l1 l2 : Forall (wfp c_tx) l1 -> Forall (wfp c_tx) l2 -> lenN l1 < u64max1 -> lenN l2 < u64max1 ->
  go_derive_tree (map go_marshal_tx l1) = go_derive_tree (map go_marshal_tx l2) -> map norm_tx l1 = map norm_tx l2.
Proof.
  intros W1 W2 H1 H2 E. apply derive_tree_injective_l in E; try (unfold lenN in *; rewrite map_length; assumption).
  revert l2 W2 H2 E. clear H1. induction l1 as [|a l1 IH]; intros [|b l2] W2 H2 E; try reflexivity; try discriminate.
  inversion W1; inversion W2; subst. cbn [map] in *. inversion E as [[E1 E2]]. f_equal.
  - apply go_marshal_injective_l; assumption.
  - apply IH; try assumption. rewrite lenN_cons in H2. lia.
Qed.
Theorem receipts_root_tree_binds_l l1 l2 : Forall wf_rbin l1 -> Forall wf_rbin l2 -> lenN l1 < u64max1 -> lenN l2 < u64max1 ->
  go_derive_tree (map go_marshal_receipt l1) = go_derive_tree (map go_marshal_receipt l2) -> l1 = l2.
Proof.
  intros W1 W2 H1 H2 E. apply derive_tree_injective_l in E; try (unfold lenN in *; rewrite map_length; assumption).
  exact (receipts_values_determine_l l1 l2 W1 W2 E).
Qed.
