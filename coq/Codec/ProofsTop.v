(* Codec/ProofsTop.v — the property-level lemmas of C11 about the Go entry points. *)
From Coq Require Import List NArith ZArith Bool Lia.
From Coq Require Import ZifyN ZifyNat ZifyBool.
From Verif Require Import Codec.Model Codec.ProofsRLP Codec.ProofsComb Codec.ProofsObjects.
Import ListNotations.
Open Scope N_scope.

(* ------------------------------------------------------------------ normalisation = identity unless a nil position held 0xc0 *)
Lemma norm_nil_id v : is_nil_list v = false -> norm_nil v = v.
Proof. destruct v; [reflexivity|discriminate|reflexivity]. Qed.
Lemma norm_clauses_id l : existsb (fun c => is_nil_list (c_to c)) l = false -> map norm_clause l = l.
Proof.
  induction l as [|c l IH]; [reflexivity|]. cbn [existsb map]. intros H. apply orb_false_elim in H. destruct H as [H1 H2].
  rewrite IH by exact H2. f_equal. destruct c as [to v d]. unfold norm_clause. cbn [c_to c_value c_data] in *.
  rewrite norm_nil_id by exact H1. reflexivity.
Qed.
Lemma norm_tx_id t : tx_has_nil_list t = false -> norm_tx t = t.
Proof.
  unfold tx_has_nil_list. intros H. apply orb_false_elim in H. destruct H as [H1 H2].
  destruct t as [dy ct br ex cl gpc pr fe gas dep no res sg]. unfold norm_tx.
  cbn [t_depends t_clauses t_dyn t_chain_tag t_block_ref t_expiration t_gpc t_max_prio t_max_fee t_gas t_nonce t_reserved t_sig] in *.
  rewrite norm_nil_id by exact H1. rewrite norm_clauses_id by exact H2. reflexivity.
Qed.
Lemma norm_block_id b : block_has_nil_list b = false -> norm_block b = b.
Proof.
  unfold block_has_nil_list, norm_block. destruct b as [h txs]. cbn [b_txs b_header]. intros H. f_equal.
  induction txs as [|t l IH]; [reflexivity|]. cbn [existsb map] in *. apply orb_false_elim in H. destruct H as [H1 H2].
  rewrite IH by exact H2. rewrite norm_tx_id by exact H1. reflexivity.
Qed.

(* ------------------------------------------------------------------ transactions *)
Lemma tx_roundtrip_l t : wfp c_tx t -> go_decode_tx (enc c_tx t) = Some t.
Proof. apply dec_exact_complete, c_tx_ok. Qed.
Lemma tx_decode_sound_l b t : go_decode_tx b = Some t -> b = enc c_tx t /\ wfp c_tx t.
Proof. apply dec_exact_sound, c_tx_ok. Qed.
Lemma tx_decode_canonical_except_l b t :
  go_decode_tx b = Some t -> tx_has_nil_list t = false ->
  go_reencode_tx t = b /\ lenN (tx_marshal t) = lenN (go_marshal_tx t).
Proof.
  intros H Hq. apply tx_decode_sound_l in H. destruct H as [-> _]. unfold go_reencode_tx, go_marshal_tx.
  rewrite norm_tx_id by exact Hq. split; reflexivity.
Qed.
Lemma tx_nil_ptr_refuted_l : exists b t, go_decode_tx b = Some t /\ go_reencode_tx t <> b.
Proof.
  exists [202; 128; 128; 128; 192; 128; 128; 192; 128; 192; 128].
  eexists. split; [vm_compute; reflexivity|]. vm_compute. discriminate.
Qed.
Lemma tx_clause_nil_ptr_refuted_l : exists b t, go_decode_tx b = Some t /\ go_reencode_tx t <> b.
Proof.
  exists [206; 128; 128; 128; 196; 195; 192; 128; 128; 128; 128; 128; 128; 192; 128].
  eexists. split; [vm_compute; reflexivity|]. vm_compute. discriminate.
Qed.

Lemma legacy_first_byte t r : exists x rest, enc c_legacy t ++ r = x :: rest /\ 192 <= x.
Proof.
  cbn [enc c_legacy cmap cpmap cwrap]. unfold enc_list, enc_len. destruct (lenN _ <? 56); cbn [app]; eexists; eexists; split; try reflexivity; lia.
Qed.
Lemma tx_unmarshal_sound_l b t : tx_unmarshal b = Some t ->
  b = tx_marshal t /\ (if t_dyn t then wfp c_dyn t else wfp c_legacy t).
Proof.
  unfold tx_unmarshal, tx_marshal. destruct b as [|x b']; [discriminate|]. destruct (127 <? x) eqn:E.
  - intros H. apply (dec_exact_sound _ _ _ (proj1 c_legacy_ok)) in H. destruct H as [Hb W].
    pose proof (c_legacy_dyn_flag _ W) as Hf. rewrite Hf. tauto.
  - intros H. apply (dec_typed_sound _ _ _ (proj1 c_dyn_ok)) in H. destruct H as [Hb W].
    pose proof (c_dyn_dyn_flag _ W) as Hf. rewrite Hf. tauto.
Qed.
Lemma tx_unmarshal_complete_l t : (if t_dyn t then wfp c_dyn t else wfp c_legacy t) -> tx_unmarshal (tx_marshal t) = Some t.
Proof.
  unfold tx_unmarshal, tx_marshal. destruct (t_dyn t) eqn:Ed; intros W.
  - cbn [N.ltb N.compare]. apply dec_typed_complete; [apply c_dyn_ok|apply c_dyn_nonempty|exact W].
  - destruct (legacy_first_byte t []) as [x [rest [E Hx]]]. rewrite app_nil_r in E. rewrite E. cbv beta iota.
    destruct (127 <? x) eqn:E2; [|exfalso; lia]. rewrite <- E. apply dec_exact_complete; [apply c_legacy_ok|exact W].
Qed.

(* ------------------------------------------------------------------ signing-hash preimages are injective *)
Lemma cwrap_first {A} (c : codec A) x : exists y rest, enc (cwrap c) x = y :: rest /\ 192 <= y.
Proof.
  change (enc (cwrap c) x) with (enc_list (enc c x)). unfold enc_list, enc_len.
  destruct (lenN (enc c x) <? 56); cbn [app]; eexists; eexists; split; try reflexivity; lia.
Qed.
Lemma tx_signing_injective_l t1 t2 :
  (if t_dyn t1 then wfp (cwrap dyn_sign_fields) (dyn_sign_tuple t1) else wfp (cwrap legacy_sign_fields) (legacy_sign_tuple t1)) ->
  (if t_dyn t2 then wfp (cwrap dyn_sign_fields) (dyn_sign_tuple t2) else wfp (cwrap legacy_sign_fields) (legacy_sign_tuple t2)) ->
  tx_signing_bytes t1 = tx_signing_bytes t2 ->
  t_dyn t1 = t_dyn t2 /\
  (if t_dyn t1 then dyn_sign_tuple t1 = dyn_sign_tuple t2 else legacy_sign_tuple t1 = legacy_sign_tuple t2).
Proof.
  unfold tx_signing_bytes. destruct (t_dyn t1) eqn:E1, (t_dyn t2) eqn:E2; intros W1 W2 H.
  - inversion H as [H1]. split; [reflexivity|]. exact (codec_inj _ _ _ dyn_sign_ok W1 W2 H1).
  - exfalso. destruct (cwrap_first legacy_sign_fields (legacy_sign_tuple t2)) as [y [rest [E Hy]]]. rewrite E in H. inversion H. lia.
  - exfalso. destruct (cwrap_first legacy_sign_fields (legacy_sign_tuple t1)) as [y [rest [E Hy]]]. rewrite E in H. inversion H. lia.
  - split; [reflexivity|]. exact (codec_inj _ _ _ legacy_sign_ok W1 W2 H).
Qed.

(* ------------------------------------------------------------------ headers *)
Lemma header_roundtrip_l h : wfp c_header h -> go_decode_header (enc c_header h) = Some h.
Proof. apply dec_exact_complete, c_header_ok. Qed.
Lemma header_decode_canonical_l b h : go_decode_header b = Some h -> go_reencode_header h = b /\ wfp c_header h.
Proof. intros H. apply (dec_exact_sound _ _ _ (proj1 c_header_ok)) in H. destruct H as [-> W]. split; [reflexivity|exact W]. Qed.
Lemma header_signing_injective_l h1 h2 :
  wfp (cwrap header_sign_fields) (header_sign_tuple h1) -> wfp (cwrap header_sign_fields) (header_sign_tuple h2) ->
  header_signing_bytes h1 = header_signing_bytes h2 -> header_sign_tuple h1 = header_sign_tuple h2.
Proof. intros W1 W2 H. exact (codec_inj _ _ _ header_sign_ok W1 W2 H). Qed.
(* the decoder of the tree before the fix (strict = false) accepted [root, 0x80]: recorded refutation F3 *)
Definition f3_witness : bytes :=
  [248; 160; 160] ++ repeat 1 32 ++ [128; 128; 148] ++ repeat 2 20 ++ [128; 128; 226; 160] ++ repeat 3 32 ++ [128; 160] ++ repeat 4 32
  ++ [160] ++ repeat 5 32 ++ [128].
Lemma header_features_refuted_before_fix_l :
  exists h, dec_exact (c_header_gen (c_trf_gen false)) f3_witness = Some h /\ enc (c_header_gen (c_trf_gen false)) h <> f3_witness.
Proof. eexists. split; [vm_compute; reflexivity|]. vm_compute. discriminate. Qed.
Lemma header_features_fixed_l : go_decode_header f3_witness = None.
Proof. vm_compute. reflexivity. Qed.

(* ------------------------------------------------------------------ receipts *)
Lemma receipt_roundtrip_l r : wfp c_receipt r -> go_decode_receipt (enc c_receipt r) = Some r.
Proof. apply dec_exact_complete, c_receipt_ok. Qed.
Lemma receipt_decode_canonical_l b r : go_decode_receipt b = Some r -> go_reencode_receipt r = b /\ wfp c_receipt r.
Proof. intros H. apply (dec_exact_sound _ _ _ (proj1 c_receipt_ok)) in H. destruct H as [-> W]. split; [reflexivity|exact W]. Qed.

(* ------------------------------------------------------------------ blocks *)
Lemma block_roundtrip_l b : wfp c_block b -> go_decode_block (enc c_block b) = Some b.
Proof. apply dec_exact_complete, c_block_ok. Qed.
Lemma block_decode_canonical_except_l bs b :
  go_decode_block bs = Some b -> block_has_nil_list b = false -> go_reencode_block b = bs /\ wfp c_block b.
Proof.
  intros H Hq. apply (dec_exact_sound _ _ _ (proj1 c_block_ok)) in H. destruct H as [-> W]. unfold go_reencode_block.
  rewrite norm_block_id by exact Hq. split; [reflexivity|exact W].
Qed.
