(* Codec/ProofsItem.v — the generic strict RLP decoder/encoder over items (decodeInterface / encoding of
   nested []interface{}): decode (encode i ++ r) = Some (i, r) and decode b = Some (i, r) -> b = encode i ++ r. *)
From Coq Require Import List NArith ZArith Bool Lia.
From Coq Require Import ZifyN ZifyNat ZifyBool.
From Verif Require Import Codec.Model Codec.ProofsRLP Codec.ProofsComb.
Import ListNotations.
Open Scope N_scope.

Fixpoint wf_item (i : item) : Prop :=
  match i with
  | Str s => lenN s < two64
  | Lst l => (fix all (l : list item) : Prop := match l with [] => True | x :: t => wf_item x /\ all t end) l
             /\ lenN (concat (map encode l)) < two64
  end.
Fixpoint depth (i : item) : nat :=
  match i with
  | Str _ => O
  | Lst l => S ((fix mx (l : list item) : nat := match l with [] => O | x :: t => Nat.max (depth x) (mx t) end) l)
  end.
Definition all_wf (l : list item) : Prop := (fix all (l : list item) : Prop := match l with [] => True | x :: t => wf_item x /\ all t end) l.
Definition max_depth (l : list item) : nat := (fix mx (l : list item) : nat := match l with [] => O | x :: t => Nat.max (depth x) (mx t) end) l.

Lemma all_wf_Forall l : all_wf l <-> Forall wf_item l.
Proof.
  induction l as [|x l IH]; cbn.
  - split; [constructor|trivial].
  - split.
    + intros [H1 H2]. constructor; [exact H1|apply IH; exact H2].
    + intros H. inversion H; subst. split; [assumption|apply IH; assumption].
Qed.

Section ItemInd.
  Variable P : item -> Prop.
  Hypothesis Hs : forall s, P (Str s).
  Hypothesis Hl : forall l, Forall P l -> P (Lst l).
  Fixpoint item_ind2 (i : item) : P i :=
    match i with
    | Str s => Hs s
    | Lst l => Hl l ((fix go (l : list item) : Forall P l :=
                        match l with [] => Forall_nil P | x :: t => Forall_cons x (item_ind2 x) (go t) end) l)
    end.
End ItemInd.

Definition item_codec (f : nat) (l : list item) : codec item :=
  mkCodec encode (decode_f f) (fun i => In i l /\ wf_item i /\ (depth i < f)%nat).

Lemma decode_f_sound : forall f b i r, decode_f f b = Some (i, r) -> b = encode i ++ r.
Proof.
  induction f as [|f IH]; intros b i r H; [discriminate|]. cbn [decode_f] in H.
  destruct (shead b) as [[[k c] r1]|] eqn:E; [|discriminate]. apply shead_sound in E. destruct E as [-> Hk].
  destruct k.
  - inversion H; subst. destruct Hk as [x [-> Hx]]. cbn [encode enc_head app]. rewrite enc_str_low by exact Hx. reflexivity.
  - destruct (single_low c) eqn:Es; [discriminate|]. inversion H; subst. cbn [encode].
    rewrite enc_str_high by exact Es. rewrite <- app_assoc. reflexivity.
  - destruct (dec_elems (decode_f f) (length c) c) as [l|] eqn:E2; [|discriminate]. inversion H; subst.
    assert (S : sound (mkCodec encode (decode_f f) (fun _ : item => True))).
    { intros b x r0 Hd. cbn [dec enc wfp] in *. split; [apply IH; exact Hd|exact I]. }
    apply (dec_elems_sound _ S) in E2. destruct E2 as [E2 _]. cbn [enc] in E2. subst c.
    cbn [encode]. rewrite enc_list_head, <- app_assoc. reflexivity.
Qed.

Lemma enc_str_nonempty s : enc_str s <> [].
Proof.
  intro E. destruct s as [|y [|z t]].
  - cbn in E. discriminate.
  - cbn [enc_str] in E. destruct (y <? 128); discriminate.
  - cbn [enc_str] in E. apply app_eq_nil in E. destruct E as [E _]. unfold enc_len in E.
    destruct (lenN (y :: z :: t) <? 56); discriminate.
Qed.
Lemma encode_nonempty i : encode i <> [].
Proof. destruct i as [s|l]; cbn [encode]; [apply enc_str_nonempty|apply enc_list_nonempty]. Qed.

Lemma max_depth_in l x : In x l -> (depth x <= max_depth l)%nat.
Proof.
  induction l as [|y l IH]; [contradiction|]. intros [->|H]; cbn [max_depth].
  - fold (max_depth l). lia.
  - fold (max_depth l). specialize (IH H). lia.
Qed.

Lemma decode_f_complete : forall i, wf_item i -> forall f r, (depth i < f)%nat -> decode_f f (encode i ++ r) = Some (i, r).
Proof.
  induction i as [s|l IH] using item_ind2; intros W f r Hf.
  - destruct f as [|f]; [lia|]. cbn [decode_f encode]. cbn [wf_item] in W.
    destruct (single_low s) eqn:Es.
    + apply single_low_true in Es. destruct Es as [y [-> Hy]]. rewrite enc_str_low by exact Hy.
      cbn [app shead]. destruct (y <? 128) eqn:E; [reflexivity|lia].
    + rewrite enc_str_high by exact Es. rewrite <- app_assoc, (shead_complete KStr s r W), Es. reflexivity.
  - destruct f as [|f]; [lia|]. cbn [decode_f encode]. destruct W as [Wl Hlen]. fold (all_wf l) in Wl.
    rewrite enc_list_head, <- app_assoc, (shead_complete KList _ r Hlen).
    assert (C : complete (item_codec f l)).
    { intros x r0 [Hin [Wx Hd]]. cbn [dec enc item_codec]. rewrite Forall_forall in IH. apply IH; assumption. }
    assert (NE : nonempty (item_codec f l)) by (intros x _; apply encode_nonempty).
    assert (Wall : Forall (wfp (item_codec f l)) l).
    { apply all_wf_Forall in Wl. rewrite Forall_forall in *. intros x Hin. cbn [wfp item_codec].
      split; [exact Hin|]. split; [apply Wl; exact Hin|]. pose proof (max_depth_in l x Hin) as Hm.
      cbn [depth] in Hf. fold (max_depth l) in Hf. lia. }
    pose proof (dec_elems_complete (item_codec f l) C NE l Wall (length (concat (map encode l))) (le_n _)) as Hd.
    cbn [enc dec item_codec] in Hd. rewrite Hd. reflexivity.
Qed.

Lemma depth_le_length i : (depth i <= length (encode i))%nat.
Proof.
  induction i as [s|l IH] using item_ind2; [cbn; lia|].
  cbn [depth encode]. fold (max_depth l). unfold enc_list. rewrite app_length.
  assert (H1 : (1 <= length (enc_len 192 (lenN (concat (map encode l)))))%nat).
  { unfold enc_len. destruct (_ <? 56); cbn; lia. }
  assert (H2 : (max_depth l <= length (concat (map encode l)))%nat).
  { clear H1. induction l as [|x l IHl]; [cbn; lia|]. inversion IH; subst. cbn [max_depth map concat]. fold (max_depth l).
    rewrite app_length. specialize (IHl H2). lia. }
  lia.
Qed.

Theorem rlp_decode_encode_l i r : wf_item i -> decode (encode i ++ r) = Some (i, r).
Proof.
  intros W. unfold decode. apply decode_f_complete; [exact W|]. pose proof (depth_le_length i). rewrite app_length. lia.
Qed.
Theorem rlp_canonical_l b i r : decode b = Some (i, r) -> b = encode i ++ r.
Proof. apply decode_f_sound. Qed.
