(* Codec/Model.v — definitions only (no proofs): byte-level RLP as implemented by the vendored
   go-ethereum `rlp` package (Stream.Kind / Bytes / uint / Raw / List / ListEnd, raw.go readKind), codec
   combinators, and the decoders/encoders of thor's tx.Transaction, tx.Receipt, block.Header, block.Block
   and block.RawBlock written on top of them *as the Go code behaves* (DESIGN §4 C11).

   Bytes are `N` (< 256 for every byte the driver supplies).  The two places where bytes are interpreted as
   numbers (length-of-length prefixes, integers) test `x < 256` themselves, so that every theorem holds for
   all `list N` without a side condition; on real byte strings the test is always true.

   A decoder does not return the Go object but its *parse tree*: identical to the Go object except that an
   `rlp:"nil"` pointer position remembers which of the two accepted empty forms (0x80 / 0xc0) was read.  The Go
   object is `norm_*` of the parse tree, Go's re-encoding is `enc (norm x)`.  *)
From Coq Require Import List NArith Bool.
Import ListNotations.
Open Scope N_scope.

Definition bytes := list N.
Definition lenN {A} (l : list A) : N := N.of_nat (length l).

(* ------------------------------------------------------------------ big-endian integers *)
Fixpoint le_val (l : bytes) : N := match l with [] => 0 | x :: t => x + 256 * le_val t end.
Definition be_val (l : bytes) : N := le_val (rev l).
Fixpoint le_fuel (f : nat) (n : N) : bytes :=
  match f with O => [] | S f' => if n =? 0 then [] else (n mod 256) :: le_fuel f' (n / 256) end.
Definition le_bytes (n : N) : bytes := le_fuel (N.to_nat (N.size n)) n.
Definition be_bytes (n : N) : bytes := rev (le_bytes n).      (* minimal big-endian bytes, [] for 0 (big.Int.Bytes / putint) *)

Definition bytes_okb (l : bytes) : bool := forallb (fun x => x <? 256) l.
Definition head0 (l : bytes) : bool := match l with x :: _ => x =? 0 | [] => false end.
(* no leading zero byte, every byte < 256 *)
Definition canon_int (l : bytes) : bool := bytes_okb l && negb (head0 l).

(* ------------------------------------------------------------------ Stream.Kind (decode.go readKind + size checks) *)
Inductive kind := KByte | KStr | KList.

(* the value must fit what is left of the enclosing list / the input (ErrElemTooLarge / ErrValueTooLarge) *)
Definition carve (k : kind) (n : N) (t : bytes) : option (kind * bytes * bytes) :=
  if n <=? lenN t then Some (k, firstn (N.to_nat n) t, skipn (N.to_nat n) t) else None.

(* readUint(b-0xB7) for the size: ll in 1..8 bytes, no leading zero, size >= 56 (ErrCanonSize otherwise) *)
Definition long_size (ll : N) (t : bytes) : option (N * bytes) :=
  if ll <=? lenN t then
    let lb := firstn (N.to_nat ll) t in
    if canon_int lb && (56 <=? be_val lb) then Some (be_val lb, skipn (N.to_nat ll) t) else None
  else None.

(* kind, content, rest.  For KByte the content is the byte itself. *)
Definition shead (b : bytes) : option (kind * bytes * bytes) :=
  match b with
  | [] => None
  | x :: t =>
    if x <? 128 then Some (KByte, [x], t)
    else if x <? 184 then carve KStr (x - 128) t
    else if x <? 192 then match long_size (x - 183) t with Some (n, t') => carve KStr n t' | None => None end
    else if x <? 248 then carve KList (x - 192) t
    else if x <? 256 then match long_size (x - 247) t with Some (n, t') => carve KList n t' | None => None end
    else None
  end.

(* ------------------------------------------------------------------ encode.go *)
Definition enc_len (base n : N) : bytes :=
  if n <? 56 then [base + n] else let lb := be_bytes n in (base + 55 + lenN lb) :: lb.
Definition enc_head (k : kind) (c : bytes) : bytes :=
  match k with KByte => [] | KStr => enc_len 128 (lenN c) | KList => enc_len 192 (lenN c) end.
Definition enc_str (c : bytes) : bytes :=
  match c with
  | [x] => if x <? 128 then [x] else 129 :: c
  | _ => enc_len 128 (lenN c) ++ c
  end.
Definition enc_list (payload : bytes) : bytes := enc_len 192 (lenN payload) ++ payload.

(* ------------------------------------------------------------------ generic items (decodeInterface / encode of []interface{}) *)
Inductive item := Str (s : bytes) | Lst (l : list item).

Fixpoint encode (i : item) : bytes :=
  match i with
  | Str s => enc_str s
  | Lst l => enc_list (concat (map encode l))
  end.

(* decodeListSlice's element loop: decode elements until the payload is exhausted (fuel = payload length) *)
Fixpoint dec_elems {A} (d : bytes -> option (A * bytes)) (g : nat) (p : bytes) : option (list A) :=
  match p with
  | [] => Some []
  | _ => match g with
         | O => None
         | S g' => match d p with
                   | Some (x, p') => match dec_elems d g' p' with Some l => Some (x :: l) | None => None end
                   | None => None end
         end
  end.
(* a one-byte string below 0x80 must be encoded bare (ErrCanonSize in Stream.Bytes / uint) *)
Definition single_low (c : bytes) : bool := match c with [x] => x <? 128 | _ => false end.

(* strict canonical decoder; fuel = 1 + length of the input is always enough *)
Fixpoint decode_f (f : nat) (b : bytes) : option (item * bytes) :=
  match f with
  | O => None
  | S f' =>
    match shead b with
    | Some (KByte, c, r) => Some (Str c, r)
    | Some (KStr, c, r) => if single_low c then None else Some (Str c, r)
    | Some (KList, c, r) =>
      match dec_elems (decode_f f') (length c) c with Some l => Some (Lst l, r) | None => None end
    | None => None
    end
  end.
Definition decode (b : bytes) : option (item * bytes) := decode_f (S (length b)) b.

(* ------------------------------------------------------------------ codecs *)
Definition parser (A : Type) := bytes -> option (A * bytes).
Record codec (A : Type) := mkCodec { enc : A -> bytes; dec : parser A; wfp : A -> Prop }.
Arguments enc {A} _ _. Arguments dec {A} _ _. Arguments wfp {A} _ _. Arguments mkCodec {A} _ _ _.

(* rlp.DecodeBytes: exactly one value, no trailing data *)
Definition dec_exact {A} (c : codec A) (b : bytes) : option A :=
  match dec c b with Some (x, []) => Some x | _ => None end.

Definition cpair {A B} (ca : codec A) (cb : codec B) : codec (A * B) :=
  mkCodec (fun p => enc ca (fst p) ++ enc cb (snd p))
          (fun b => match dec ca b with
                    | Some (x, r) => match dec cb r with Some (y, r') => Some ((x, y), r') | None => None end
                    | None => None end)
          (fun p => wfp ca (fst p) /\ wfp cb (snd p)).

(* partial isomorphism on top of a codec: f interprets/validates, g rebuilds the wire form *)
Definition cpmap {A B} (f : A -> option B) (g : B -> A) (c : codec A) : codec B :=
  mkCodec (fun y => enc c (g y))
          (fun b => match dec c b with
                    | Some (x, r) => match f x with Some y => Some (y, r) | None => None end
                    | None => None end)
          (fun y => wfp c (g y) /\ f (g y) = Some y).
Definition cmap {A B} (f : A -> B) (g : B -> A) (c : codec A) : codec B := cpmap (fun x => Some (f x)) g c.

(* Stream.List ... ListEnd around an inner decoder that must consume the whole payload (struct / fixed layouts) *)
Definition cwrap {A} (c : codec A) : codec A :=
  mkCodec (fun x => enc_list (enc c x))
          (fun b => match shead b with
                    | Some (KList, p, r) => match dec c p with Some (x, []) => Some (x, r) | _ => None end
                    | _ => None end)
          (fun x => wfp c x /\ lenN (enc c x) < 18446744073709551616).

(* decodeListSlice: a list whose elements are decoded until the payload is exhausted *)
Definition cslice {A} (c : codec A) : codec (list A) :=
  mkCodec (fun l => enc_list (concat (map (enc c) l)))
          (fun b => match shead b with
                    | Some (KList, p, r) => match dec_elems (dec c) (length p) p with Some l => Some (l, r) | None => None end
                    | _ => None end)
          (fun l => Forall (wfp c) l /\ lenN (concat (map (enc c) l)) < 18446744073709551616).

(* ------------------------------------------------------------------ primitive codecs *)
(* Stream.Bytes / decodeByteSlice: a string; a single byte < 0x80 must be bare *)
Definition c_bytes : codec bytes :=
  mkCodec enc_str
          (fun b => match shead b with
                    | Some (KByte, c, r) => Some (c, r)
                    | Some (KStr, c, r) => if single_low c then None else Some (c, r)
                    | _ => None end)
          (fun c => lenN c < 18446744073709551616).

(* Stream.uint(bits) / decodeBigInt: the same accept set as "Bytes(), no leading zero, at most bits/8 bytes":
   Byte 0x00 -> ErrCanonInt; String of size 1 below 0x80 -> ErrCanonSize; leading zero -> ErrCanonInt;
   longer than the type -> errUintOverflow; 0x80 -> 0 *)
Definition c_uint (nbytes : N) : codec N :=
  cpmap (fun c => if canon_int c && (lenN c <=? nbytes) then Some (be_val c) else None) be_bytes c_bytes.
Definition c_big : codec N :=
  cpmap (fun c => if canon_int c then Some (be_val c) else None) be_bytes c_bytes.
(* Stream.Bool: uint(8) restricted to 0/1; writeBool: 0x01 / 0x80 *)
Definition c_bool : codec bool :=
  cpmap (fun n => if n =? 0 then Some false else if n =? 1 then Some true else None) (fun b : bool => if b then 1 else 0) (c_uint 1).

(* decodeByteArray for [n]byte, 2 <= n < 56 (thor.Address, thor.Bytes32): a String of exactly n bytes *)
Definition c_fixed (n : N) : codec bytes :=
  mkCodec (fun a => (128 + n) :: a)
          (fun b => match shead b with
                    | Some (KStr, c, r) => if lenN c =? n then Some (c, r) else None
                    | _ => None end)
          (fun a => lenN a = n).

(* Stream.Raw: header + content, content not inspected (nor the single-byte rule) *)
Definition c_raw : codec bytes :=
  mkCodec (fun v => v)
          (fun b => match shead b with Some (k, c, r) => Some (enc_head k c ++ c, r) | None => None end)
          (fun v => exists k c, shead v = Some (k, c, [])).

(* makeOptionalPtrDecoder over a fixed-size byte array: `size == 0 && kind != Byte` => nil, i.e. 0x80 AND 0xc0 *)
Inductive nilable := NilStr | NilList | Ptr (a : bytes).
Definition c_nilable (n : N) : codec nilable :=
  mkCodec (fun v => match v with NilStr => [128] | NilList => [192] | Ptr a => enc (c_fixed n) a end)
          (fun b => match shead b with
                    | Some (KStr, [], r) => Some (NilStr, r)
                    | Some (KList, [], r) => Some (NilList, r)
                    | _ => match dec (c_fixed n) b with Some (a, r) => Some (Ptr a, r) | None => None end
                    end)
          (fun v => match v with Ptr a => lenN a = n | _ => True end).
Definition norm_nil (v : nilable) : nilable := match v with NilList => NilStr | _ => v end.

(* ------------------------------------------------------------------ tx/clause.go *)
Record clause := mkClause { c_to : nilable; c_value : N; c_data : bytes }.
Definition c_clause : codec clause :=
  cmap (fun p => mkClause (fst p) (fst (snd p)) (snd (snd p)))
       (fun c => (c_to c, (c_value c, c_data c)))
       (cwrap (cpair (c_nilable 20) (cpair c_big c_bytes))).

(* raw.go readKind, as used by rlp.Split / CountValues: returns (tagsize + contentsize) of the first value *)
Definition rsize (b : bytes) : option N :=
  match b with
  | [] => None
  | x :: t =>
    let fits (tag n : N) := if n <=? lenN b - tag then Some (tag + n) else None in
    let long (ll : N) :=
      if ll <=? lenN t then
        let lb := firstn (N.to_nat ll) t in
        if (56 <=? be_val lb) && negb (head0 lb) then fits (ll + 1) (be_val lb) else None
      else None in
    if x <? 128 then fits 0 1
    else if x <? 184 then
      (if (x - 128 =? 1) && (match t with y :: _ => y <? 128 | [] => false end) then None else fits 1 (x - 128))
    else if x <? 192 then long (x - 183)
    else if x <? 248 then fits 1 (x - 192)
    else long (x - 247)
  end.
(* the counting loops of Clauses.DecodeRLP (limit = Some 2500) and rlp.CountValues (limit = None) *)
Fixpoint rcount (g : nat) (limit : option N) (b : bytes) (acc : N) : option N :=
  match b with
  | [] => Some acc
  | _ => match g with
         | O => None
         | S g' => match rsize b with
                   | Some n => let acc' := acc + 1 in
                               if (match limit with Some m => m <? acc' | None => false end) then None
                               else rcount g' limit (skipn (N.to_nat n) b) acc'
                   | None => None end
         end
  end.

(* Clauses.DecodeRLP: s.Raw(); SplitList; count values (<= 2500) with rlp.Split; rlp.DecodeBytes(raw, &[]*Clause) *)
Definition max_clauses : N := 2500.
Definition c_clauses : codec (list clause) :=
  mkCodec (enc (cslice c_clause))
          (fun b => match shead b with
                    | Some (KList, p, r) =>
                      match rcount (length p) (Some max_clauses) p 0 with
                      | Some _ => dec (cslice c_clause) b
                      | None => None end
                    | _ => None end)
          (fun l => wfp (cslice c_clause) l /\ lenN l <= max_clauses).

(* ------------------------------------------------------------------ tx/reserved.go *)
Record reserved := mkRes { r_features : N; r_unused : list bytes }.
Definition is_empty_raw (v : bytes) : bool :=
  match v with [] => true | [x] => (x =? 192) || (x =? 128) | _ => false end.
Fixpoint trim_raws (l : list bytes) : list bytes :=
  match l with
  | [] => []
  | v :: t => match trim_raws t with
              | [] => if is_empty_raw v then [] else [v]
              | t' => v :: t' end
  end.
Definition res_of_raws (raws : list bytes) : option reserved :=
  if 3 <? lenN raws then None
  else match raws with
       | [] => Some (mkRes 0 [])
       | r0 :: rest =>
         if is_empty_raw (last raws []) then None
         else match dec_exact (c_uint 4) r0 with
              | Some f => Some (mkRes f rest)
              | None => None end
       end.
Definition raws_of_res (r : reserved) : list bytes := trim_raws (enc (c_uint 4) (r_features r) :: r_unused r).
Definition c_reserved : codec reserved := cpmap res_of_raws raws_of_res (cslice c_raw).

(* ------------------------------------------------------------------ tx/tx_legacy.go, tx_dynamic_fee.go, transaction.go *)
Record tx := mkTx {
  t_dyn : bool;                 (* false: legacy (type 0), true: dynamic fee (type 0x51) *)
  t_chain_tag : N; t_block_ref : N; t_expiration : N;
  t_clauses : list clause;
  t_gpc : N;                    (* legacy only, 0 otherwise *)
  t_max_prio : N; t_max_fee : N;(* dynamic fee only, 0 otherwise *)
  t_gas : N; t_depends : nilable; t_nonce : N;
  t_reserved : reserved; t_sig : bytes }.

Definition legacy_fields :=
  cpair (c_uint 1) (cpair (c_uint 8) (cpair (c_uint 4) (cpair c_clauses (cpair (c_uint 1) (cpair (c_uint 8)
  (cpair (c_nilable 32) (cpair (c_uint 8) (cpair c_reserved c_bytes)))))))).
Definition c_legacy : codec tx :=
  cmap (fun p => let '(ct, (br, (ex, (cl, (gpc, (gas, (dep, (nonce, (res, sig))))))))) := p in
                 mkTx false ct br ex cl gpc 0 0 gas dep nonce res sig)
       (fun t => (t_chain_tag t, (t_block_ref t, (t_expiration t, (t_clauses t, (t_gpc t, (t_gas t,
                 (t_depends t, (t_nonce t, (t_reserved t, t_sig t))))))))))
       (cwrap legacy_fields).
Definition dyn_fields :=
  cpair (c_uint 1) (cpair (c_uint 8) (cpair (c_uint 4) (cpair c_clauses (cpair c_big (cpair c_big (cpair (c_uint 8)
  (cpair (c_nilable 32) (cpair (c_uint 8) (cpair c_reserved c_bytes))))))))).
Definition c_dyn : codec tx :=
  cmap (fun p => let '(ct, (br, (ex, (cl, (prio, (fee, (gas, (dep, (nonce, (res, sig)))))))))) := p in
                 mkTx true ct br ex cl 0 prio fee gas dep nonce res sig)
       (fun t => (t_chain_tag t, (t_block_ref t, (t_expiration t, (t_clauses t, (t_max_prio t, (t_max_fee t, (t_gas t,
                 (t_depends t, (t_nonce t, (t_reserved t, t_sig t)))))))))))
       (cwrap dyn_fields).

(* decodeTyped: at least 2 bytes, type byte 0x51, body = rlp.DecodeBytes(b[1:]) *)
Definition dec_typed {A} (c : codec A) (b : bytes) : option A :=
  match b with
  | ty :: (_ :: _) as body => if ty =? 81 then dec_exact c body else None
  | _ => None
  end.
(* Transaction.DecodeRLP / EncodeRLP (inside an RLP stream: typed txs are wrapped in a string) *)
Definition c_tx : codec tx :=
  mkCodec (fun t => if t_dyn t then enc_str (81 :: enc c_dyn t) else enc c_legacy t)
          (fun b => match shead b with
                    | Some (KList, _, _) => dec c_legacy b
                    | Some (KStr, _, _) =>
                      match dec c_bytes b with
                      | Some (s, r) => match dec_typed c_dyn s with Some t => Some (t, r) | None => None end
                      | None => None end
                    | _ => None end)
          (fun t => if t_dyn t then wfp c_dyn t /\ lenN (enc c_dyn t) + 1 < 18446744073709551616 else wfp c_legacy t).
(* Transaction.UnmarshalBinary / MarshalBinary (the form whose length is Size() and that the txs root commits to) *)
Definition tx_marshal (t : tx) : bytes := if t_dyn t then 81 :: enc c_dyn t else enc c_legacy t.
Definition tx_unmarshal (b : bytes) : option tx :=
  match b with
  | x :: _ => if 127 <? x then dec_exact c_legacy b else dec_typed c_dyn b
  | [] => None
  end.

Definition norm_clause (c : clause) : clause := mkClause (norm_nil (c_to c)) (c_value c) (c_data c).
Definition norm_tx (t : tx) : tx :=
  mkTx (t_dyn t) (t_chain_tag t) (t_block_ref t) (t_expiration t) (map norm_clause (t_clauses t)) (t_gpc t)
       (t_max_prio t) (t_max_fee t) (t_gas t) (norm_nil (t_depends t)) (t_nonce t) (t_reserved t) (t_sig t).

(* the preimage of SigningHash(): rlp of signingFields(), prefixed by the type byte for typed txs *)
Definition legacy_sign_fields :=
  cpair (c_uint 1) (cpair (c_uint 8) (cpair (c_uint 4) (cpair c_clauses (cpair (c_uint 1) (cpair (c_uint 8)
  (cpair (c_nilable 32) (cpair (c_uint 8) c_reserved))))))).
Definition dyn_sign_fields :=
  cpair (c_uint 1) (cpair (c_uint 8) (cpair (c_uint 4) (cpair c_clauses (cpair c_big (cpair c_big (cpair (c_uint 8)
  (cpair (c_nilable 32) (cpair (c_uint 8) c_reserved)))))))).
Definition legacy_sign_tuple (t : tx) :=
  (t_chain_tag t, (t_block_ref t, (t_expiration t, (t_clauses t, (t_gpc t, (t_gas t, (t_depends t, (t_nonce t, t_reserved t)))))))).
Definition dyn_sign_tuple (t : tx) :=
  (t_chain_tag t, (t_block_ref t, (t_expiration t, (t_clauses t, (t_max_prio t, (t_max_fee t, (t_gas t,
  (t_depends t, (t_nonce t, t_reserved t))))))))).
Definition tx_signing_bytes (t : tx) : bytes :=
  if t_dyn t then 81 :: enc (cwrap dyn_sign_fields) (dyn_sign_tuple t)
  else enc (cwrap legacy_sign_fields) (legacy_sign_tuple t).

(* ------------------------------------------------------------------ tx/receipt.go *)
Record event := mkEvent { e_addr : bytes; e_topics : list bytes; e_data : bytes }.
Record transfer := mkTransfer { tr_sender : bytes; tr_recipient : bytes; tr_amount : N }.
Record output := mkOutput { o_events : list event; o_transfers : list transfer }.
Record receipt := mkReceipt { rc_dyn : bool; rc_gas_used : N; rc_payer : bytes; rc_paid : N; rc_reward : N;
                              rc_reverted : bool; rc_outputs : list output }.
Definition c_event : codec event :=
  cmap (fun p => mkEvent (fst p) (fst (snd p)) (snd (snd p))) (fun e => (e_addr e, (e_topics e, e_data e)))
       (cwrap (cpair (c_fixed 20) (cpair (cslice (c_fixed 32)) c_bytes))).
Definition c_transfer : codec transfer :=
  cmap (fun p => mkTransfer (fst p) (fst (snd p)) (snd (snd p))) (fun t => (tr_sender t, (tr_recipient t, tr_amount t)))
       (cwrap (cpair (c_fixed 20) (cpair (c_fixed 20) c_big))).
Definition c_output : codec output :=
  cmap (fun p => mkOutput (fst p) (snd p)) (fun o => (o_events o, o_transfers o))
       (cwrap (cpair (cslice c_event) (cslice c_transfer))).
Definition c_receipt_body (dyn : bool) : codec receipt :=
  cpmap (fun p => let '(gu, (payer, (paid, (reward, (rev, outs))))) := p in Some (mkReceipt dyn gu payer paid reward rev outs))
        (fun r => (rc_gas_used r, (rc_payer r, (rc_paid r, (rc_reward r, (rc_reverted r, rc_outputs r))))))
        (cwrap (cpair (c_uint 8) (cpair (c_fixed 20) (cpair c_big (cpair c_big (cpair c_bool (cslice c_output))))))).
(* Receipt.DecodeRLP: typed receipts need only one byte before the type switch (`len(b) < 1`) *)
Definition dec_typed_receipt (b : bytes) : option receipt :=
  match b with
  | ty :: body => if ty =? 81 then dec_exact (c_receipt_body true) body else None
  | [] => None
  end.
Definition c_receipt : codec receipt :=
  mkCodec (fun r => if rc_dyn r then enc_str (81 :: enc (c_receipt_body true) r) else enc (c_receipt_body false) r)
          (fun b => match shead b with
                    | Some (KList, _, _) => dec (c_receipt_body false) b
                    | Some (KStr, _, _) =>
                      match dec c_bytes b with
                      | Some (s, r) => match dec_typed_receipt s with Some x => Some (x, r) | None => None end
                      | None => None end
                    | _ => None end)
          (fun r => if rc_dyn r then wfp (c_receipt_body true) r /\ lenN (enc (c_receipt_body true) r) + 1 < 18446744073709551616
                    else wfp (c_receipt_body false) r).
Definition receipt_marshal (r : receipt) : bytes :=
  if rc_dyn r then 81 :: enc (c_receipt_body true) r else enc (c_receipt_body false) r.
(* Receipt.UnmarshalBinary -> decodeTyped requires len > 1 *)
Definition receipt_unmarshal (b : bytes) : option receipt :=
  match b with
  | x :: _ => if 127 <? x then dec_exact (c_receipt_body false) b
              else match b with _ :: _ :: _ => dec_typed_receipt b | _ => None end
  | [] => None
  end.

(* ------------------------------------------------------------------ block/txs_root_features.go *)
Record trf := mkTrf { trf_root : bytes; trf_features : N }.
(* `strict` = the list form with zero features is rejected (block/txs_root_features.go after the C11 fix);
   strict = false is the decoder before the fix (kept for the recorded refutation F3) *)
Definition c_trf_gen (strict : bool) : codec trf :=
  mkCodec (fun v => if trf_features v =? 0 then enc (c_fixed 32) (trf_root v)
                    else enc (cwrap (cpair (c_fixed 32) (c_uint 4))) (trf_root v, trf_features v))
          (fun b => match shead b with
                    | Some (KList, _, _) =>
                      match dec (cwrap (cpair (c_fixed 32) (c_uint 4))) b with
                      | Some ((root, f), r) => if strict && (f =? 0) then None else Some (mkTrf root f, r)
                      | None => None end
                    | _ => match dec (c_fixed 32) b with Some (root, r) => Some (mkTrf root 0, r) | None => None end
                    end)
          (fun v => lenN (trf_root v) = 32 /\ trf_features v < 4294967296).
Definition c_trf := c_trf_gen true.

(* ------------------------------------------------------------------ block/extension.go *)
Record ext := mkExt { x_alpha : bytes; x_com : bool; x_basefee : option N }.
Definition ext_default := mkExt [] false None.
Definition ext_of_raws (raws : list bytes) : option ext :=
  match raws with
  | [a] => match dec_exact c_bytes a with
           | Some alpha => if lenN alpha =? 0 then None else Some (mkExt alpha false None)
           | None => None end
  | [a; c] => match dec_exact c_bytes a, dec_exact c_bool c with
              | Some alpha, Some com => if com then Some (mkExt alpha true None) else None
              | _, _ => None end
  | [a; c; f] => match dec_exact c_bytes a, dec_exact c_bool c, dec_exact c_big f with
                 | Some alpha, Some com, Some fee => Some (mkExt alpha com (Some fee))
                 | _, _, _ => None end
  | _ => None
  end.
Definition raws_of_ext (e : ext) : list bytes :=
  match x_basefee e with
  | Some fee => [enc c_bytes (x_alpha e); enc c_bool (x_com e); enc c_big fee]
  | None => if x_com e then [enc c_bytes (x_alpha e); enc c_bool true] else [enc c_bytes (x_alpha e)]
  end.
Definition is_default_ext (e : ext) : bool :=
  match x_basefee e with Some _ => false | None => negb (x_com e) && (lenN (x_alpha e) =? 0) end.
(* extension.DecodeRLP is the last field of headerBody: at the end of the header list (EOL) it yields the
   default value; otherwise a list of 1..3 raw values, each decoded with rlp.DecodeBytes, tail-trimmed.
   (A non-EOL error of s.Decode(&raws) is ignored by the code, but it leaves raws empty or ending in an empty
   RawValue whose DecodeBytes fails, so every such input is rejected as here.) *)
Definition c_ext_inner : codec ext := cpmap ext_of_raws raws_of_ext (cslice c_raw).
Definition c_ext : codec ext :=
  mkCodec (fun e => if is_default_ext e then [] else enc c_ext_inner e)
          (fun b => match b with [] => Some (ext_default, []) | _ => dec c_ext_inner b end)
          (fun e => if is_default_ext e then e = ext_default else wfp c_ext_inner e).

(* ------------------------------------------------------------------ block/header.go *)
Record header := mkHeader {
  h_parent : bytes; h_timestamp : N; h_gas_limit : N; h_beneficiary : bytes; h_gas_used : N; h_total_score : N;
  h_trf : trf; h_state_root : bytes; h_receipts_root : bytes; h_sig : bytes; h_ext : ext }.
Definition header_fields (ctrf : codec trf) :=
  cpair (c_fixed 32) (cpair (c_uint 8) (cpair (c_uint 8) (cpair (c_fixed 20) (cpair (c_uint 8) (cpair (c_uint 8)
  (cpair ctrf (cpair (c_fixed 32) (cpair (c_fixed 32) (cpair c_bytes c_ext))))))))).
Definition c_header_gen (ctrf : codec trf) : codec header :=
  cmap (fun p => let '(pa, (ts, (gl, (be, (gu, (sc, (tf, (sr, (rr, (sg, ex)))))))))) := p in
                 mkHeader pa ts gl be gu sc tf sr rr sg ex)
       (fun h => (h_parent h, (h_timestamp h, (h_gas_limit h, (h_beneficiary h, (h_gas_used h, (h_total_score h,
                 (h_trf h, (h_state_root h, (h_receipts_root h, (h_sig h, h_ext h)))))))))))
       (cwrap (header_fields ctrf)).
Definition c_header := c_header_gen c_trf.

(* preimage of Header.SigningHash() for a header that carries a base fee (extension is signed) *)
Definition header_sign_fields :=
  cpair (c_fixed 32) (cpair (c_uint 8) (cpair (c_uint 8) (cpair (c_fixed 20) (cpair (c_uint 8) (cpair (c_uint 8)
  (cpair c_trf (cpair (c_fixed 32) (cpair (c_fixed 32) c_ext)))))))).
Definition header_sign_tuple (h : header) :=
  (h_parent h, (h_timestamp h, (h_gas_limit h, (h_beneficiary h, (h_gas_used h, (h_total_score h,
  (h_trf h, (h_state_root h, (h_receipts_root h, h_ext h))))))))).
Definition header_signing_bytes (h : header) : bytes := enc (cwrap header_sign_fields) (header_sign_tuple h).

(* ------------------------------------------------------------------ block/block.go, raw_block.go *)
Record block := mkBlock { b_header : header; b_txs : list tx }.
Definition c_block : codec block :=
  cmap (fun p => mkBlock (fst p) (snd p)) (fun b => (b_header b, b_txs b)) (cwrap (cpair c_header (cslice c_tx))).
Definition norm_block (b : block) : block := mkBlock (b_header b) (map norm_tx (b_txs b)).

(* RawBlock.DecodeRLP (phase 1): List; header; Raw txs; ListEnd; SplitList(rawTxs); CountValues *)
Record rawblock := mkRaw { rb_header : header; rb_raw_txs : bytes; rb_count : N }.
Definition dec_rawblock (b : bytes) : option rawblock :=
  match shead b with
  | Some (KList, p, []) =>
    match dec c_header p with
    | Some (h, p1) =>
      match dec c_raw p1 with
      | Some (raw, []) =>
        match shead raw with
        | Some (KList, content, _) =>
          match rcount (length content) None content 0 with
          | Some n => Some (mkRaw h raw n)
          | None => None end
        | _ => None end
      | _ => None end
    | None => None end
  | _ => None
  end.
(* RawBlock.Decode (phase 2) *)
Definition rawblock_decode (rb : rawblock) : option block :=
  match dec_exact (cslice c_tx) (rb_raw_txs rb) with
  | Some txs => Some (mkBlock (rb_header rb) txs)
  | None => None end.
Definition dec_block_two_phase (b : bytes) : option block :=
  match dec_rawblock b with Some rb => rawblock_decode rb | None => None end.

(* pre-GALACTICA headers (no base fee) do not sign the extension: nine fields *)
Definition header_sign9_fields :=
  cpair (c_fixed 32) (cpair (c_uint 8) (cpair (c_uint 8) (cpair (c_fixed 20) (cpair (c_uint 8) (cpair (c_uint 8)
  (cpair c_trf (cpair (c_fixed 32) (c_fixed 32)))))))).
Definition header_signing_bytes_any (h : header) : bytes :=
  match x_basefee (h_ext h) with
  | Some _ => header_signing_bytes h
  | None => enc (cwrap header_sign9_fields)
              (h_parent h, (h_timestamp h, (h_gas_limit h, (h_beneficiary h, (h_gas_used h, (h_total_score h,
              (h_trf h, (h_state_root h, h_receipts_root h))))))))
  end.

(* ------------------------------------------------------------------ Go entry points (what the harness calls) *)
Definition go_decode_tx (b : bytes) : option tx := dec_exact c_tx b.            (* rlp.DecodeBytes(b, &tx.Transaction{}) *)
Definition go_reencode_tx (t : tx) : bytes := enc c_tx (norm_tx t).             (* rlp.EncodeToBytes(tx) *)
Definition go_unmarshal_tx (b : bytes) : option tx := tx_unmarshal b.           (* Transaction.UnmarshalBinary *)
Definition go_marshal_tx (t : tx) : bytes := tx_marshal (norm_tx t).            (* MarshalBinary; Size() = its length *)
Definition go_signing_tx (t : tx) : bytes := tx_signing_bytes (norm_tx t).      (* preimage of SigningHash() *)
Definition go_decode_header (b : bytes) : option header := dec_exact c_header b.
Definition go_reencode_header (h : header) : bytes := enc c_header h.
Definition go_decode_receipt (b : bytes) : option receipt := dec_exact c_receipt b.
Definition go_reencode_receipt (r : receipt) : bytes := enc c_receipt r.
Definition go_unmarshal_receipt (b : bytes) : option receipt := receipt_unmarshal b.
Definition go_marshal_receipt (r : receipt) : bytes := receipt_marshal r.
Definition go_decode_block (b : bytes) : option block := dec_exact c_block b.   (* rlp.DecodeBytes(b, &block.Block{}) *)
Definition go_decode_block_raw (b : bytes) : option block := dec_block_two_phase b. (* DecodeRawBlock + Decode *)
Definition go_reencode_block (b : block) : bytes := enc c_block (norm_block b).
(* the non-canonical acceptance of the unchanged decoder: an empty list in an rlp:"nil" position *)
Definition is_nil_list (v : nilable) : bool := match v with NilList => true | _ => false end.
Definition tx_has_nil_list (t : tx) : bool :=
  is_nil_list (t_depends t) || existsb (fun c => is_nil_list (c_to c)) (t_clauses t).
Definition block_has_nil_list (b : block) : bool := existsb tx_has_nil_list (b_txs b).

(* ------------------------------------------------------------------ Size() caching paths *)
Definition list_size (n : N) : N := lenN (enc_len 192 n) + n.                       (* rlp.ListSize(contentSize) *)
(* Transaction.DecodeRLP: cache.size = ListSize(size) for a legacy list, len(payload) for a typed envelope *)
Definition go_tx_size_cached (b : bytes) : N :=
  match shead b with Some (KList, p, _) => list_size (lenN p) | Some (KStr, s, _) => lenN s | _ => 0 end.
(* Block.DecodeRLP / RawBlock.DecodeRLP: `_, size, _ := s.Kind()`; cache.size = ListSize(size) *)
Definition go_block_size_cached (b : bytes) : N :=
  match shead b with Some (_, p, _) => list_size (lenN p) | None => 0 end.
(* Size() with an empty cache: the length of what rlp.Encode writes (+ the type byte for typed txs) *)
Definition go_tx_size_fresh (t : tx) : N := lenN (go_marshal_tx t).
Definition go_block_size_fresh (b : block) : N := lenN (go_reencode_block b).

(* ------------------------------------------------------------------ tx.IntrinsicGas (transaction.go), uint64 with overflow checks *)
Definition u64max1 : N := 18446744073709551616.
Definition safe_add (a b : N) : option N := if a + b <? u64max1 then Some (a + b) else None.   (* math.SafeAdd *)
Definition safe_mul (a b : N) : option N := if a * b <? u64max1 then Some (a * b) else None.   (* math.SafeMul *)
Definition count_zero (d : bytes) : N := lenN (filter (fun x => x =? 0) d).
Definition data_gas (d : bytes) : option N :=
  match d with
  | [] => Some 0
  | _ => let z := count_zero d in let nz := lenN d - z in
         match safe_mul 4 z, safe_mul 68 nz with
         | Some a, Some b => safe_add a b
         | _, _ => None end
  end.
Definition is_nil (v : nilable) : bool := match v with Ptr _ => false | _ => true end.
Definition clause_gas (c : clause) : N := if is_nil (c_to c) then 48000 else 16000.  (* contract creation / call *)
Fixpoint intrinsic_loop (cl : list clause) (total : N) : option N :=
  match cl with
  | [] => Some total
  | c :: t => match data_gas (c_data c) with
              | None => None
              | Some g => match safe_add total g with
                          | None => None
                          | Some t1 => match safe_add t1 (clause_gas c) with
                                       | None => None
                                       | Some t2 => intrinsic_loop t t2 end end end
  end.
Definition intrinsic_gas (cl : list clause) : option N :=
  match cl with [] => Some 21000 | _ => intrinsic_loop cl 5000 end.
(* the same quantity over unbounded integers *)
Definition data_gas_math (d : bytes) : N := 4 * count_zero d + 68 * (lenN d - count_zero d).
Fixpoint clauses_gas_math (cl : list clause) : N :=
  match cl with [] => 0 | c :: t => data_gas_math (c_data c) + clause_gas c + clauses_gas_math t end.
Definition intrinsic_gas_math (cl : list clause) : N :=
  match cl with [] => 21000 | _ => 5000 + clauses_gas_math cl end.

(* ------------------------------------------------------------------ trie.DeriveRoot: key/value pairs handed to the trie *)
(* key_i = drlp.AppendUint(i) = rlp(uint64 i), value_i = EncodeIndex(i) = MarshalBinary of the i-th element *)
Fixpoint root_pairs_from (i : N) (vals : list bytes) : list (bytes * bytes) :=
  match vals with [] => [] | v :: t => (enc (c_uint 8) i, v) :: root_pairs_from (i + 1) t end.
Definition root_pairs (vals : list bytes) : list (bytes * bytes) := root_pairs_from 0 vals.
Definition txs_root_pairs (txs : list tx) : list (bytes * bytes) := root_pairs (map go_marshal_tx txs).
Definition receipts_root_pairs (rs : list receipt) : list (bytes * bytes) := root_pairs (map go_marshal_receipt rs).
