(* Codec/ProofsAcc.v — accessors: the cached Size() paths agree with a fresh Size(); IntrinsicGas never wraps
   (it is the exact sum or the overflow error); the key/value pairs DeriveRoot hands to the trie determine the
   ordered list, and the keys are prefix-free. *)
From Coq Require Import List NArith ZArith Bool Lia.
From Coq Require Import ZifyN ZifyNat ZifyBool.
From Verif Require Import Codec.Model Codec.ProofsRLP Codec.ProofsComb Codec.ProofsObjects Codec.ProofsTop Codec.ProofsNorm.
Import ListNotations.
Open Scope N_scope.

(* ------------------------------------------------------------------ Size() *)
Lemma list_size_enc_list p : list_size (lenN p) = lenN (enc_list p).
Proof. unfold list_size, enc_list. rewrite lenN_app. reflexivity. Qed.

Theorem tx_size_cached_l b t : go_decode_tx b = Some t -> go_tx_size_cached b = go_tx_size_fresh t.
Proof.
  intros H. pose proof (tx_reencode_length_l b t H) as [_ Hm]. apply tx_decode_sound_l in H. destruct H as [-> W].
  unfold go_tx_size_fresh. rewrite Hm. unfold go_tx_size_cached, tx_marshal. cbn [enc c_tx wfp] in *. destruct (t_dyn t).
  - destruct W as [W Hl]. assert (Hne : enc c_dyn t <> []) by (apply c_dyn_nonempty; exact W).
    rewrite enc_str_high by (apply typed_str_shape; exact Hne).
    assert (Hs : hok KStr (81 :: enc c_dyn t)) by (cbn [hok]; rewrite lenN_cons; unfold two64; lia).
    pose proof (shead_complete KStr _ [] Hs) as Hc. rewrite app_nil_r in Hc. rewrite Hc. reflexivity.
  - destruct W as [[_ Hl] _]. cbn [enc c_legacy cmap cpmap cwrap]. rewrite enc_list_head.
    pose proof (shead_complete KList _ [] Hl) as Hc. rewrite app_nil_r in Hc. rewrite Hc. rewrite list_size_enc_list, enc_list_head. reflexivity.
Qed.
Theorem block_size_cached_l bs b : go_decode_block bs = Some b -> go_block_size_cached bs = go_block_size_fresh b /\ go_block_size_cached bs = lenN bs.
Proof.
  intros H. pose proof (block_reencode_length_l bs b H) as Hm. unfold go_block_size_fresh. rewrite Hm.
  apply (dec_exact_sound _ _ _ (proj1 c_block_ok)) in H. destruct H as [-> [[_ Hl] _]].
  unfold go_block_size_cached. cbn [enc c_block cmap cpmap cwrap] in *. rewrite enc_list_head.
  pose proof (shead_complete KList _ [] Hl) as Hc. rewrite app_nil_r in Hc. rewrite Hc, list_size_enc_list, enc_list_head. tauto.
Qed.

(* ------------------------------------------------------------------ IntrinsicGas *)
Lemma count_zero_le d : count_zero d <= lenN d.
Proof.
  unfold count_zero, lenN. induction d as [|x d IH]; [cbn; lia|]. cbn [filter length]. destruct (x =? 0); cbn [length]; lia.
Qed.

Lemma data_gas_spec d : data_gas d = if data_gas_math d <? u64max1 then Some (data_gas_math d) else None.
Proof.
  unfold data_gas, data_gas_math. destruct d as [|x d'].
  - reflexivity.
  - set (d := x :: d'). pose proof (count_zero_le d) as Hz. set (z := count_zero d) in *. set (n := lenN d) in *.
    unfold safe_mul, safe_add, u64max1.
    destruct (4 * z <? 18446744073709551616) eqn:E1; destruct (68 * (n - z) <? 18446744073709551616) eqn:E2;
      destruct (4 * z + 68 * (n - z) <? 18446744073709551616) eqn:E3; try reflexivity; lia.
Qed.

Lemma intrinsic_loop_spec cl : forall total, total < u64max1 ->
  intrinsic_loop cl total = if total + clauses_gas_math cl <? u64max1 then Some (total + clauses_gas_math cl) else None.
Proof.
  induction cl as [|c cl IH]; intros total Ht; cbn [intrinsic_loop clauses_gas_math].
  - rewrite N.add_0_r. destruct (total <? u64max1) eqn:E; [reflexivity|lia].
  - rewrite data_gas_spec. set (g := data_gas_math (c_data c)). set (k := clause_gas c). set (r := clauses_gas_math cl).
    destruct (g <? u64max1) eqn:E1.
    + unfold safe_add. destruct (total + g <? u64max1) eqn:E2.
      * destruct (total + g + k <? u64max1) eqn:E3.
        -- rewrite IH by lia. fold r. replace (total + g + k + r) with (total + (g + k + r)) by lia. reflexivity.
        -- destruct (total + (g + k + r) <? u64max1) eqn:E4; [lia|reflexivity].
      * destruct (total + (g + k + r) <? u64max1) eqn:E4; [lia|reflexivity].
    + destruct (total + (g + k + r) <? u64max1) eqn:E4; [lia|reflexivity].
Qed.

(* IntrinsicGas is the exact (unbounded) sum when that fits 64 bits and the overflow error otherwise: never a wrapped value *)
Theorem intrinsic_gas_exact_l cl :
  intrinsic_gas cl = if intrinsic_gas_math cl <? u64max1 then Some (intrinsic_gas_math cl) else None.
Proof.
  unfold intrinsic_gas, intrinsic_gas_math. destruct cl as [|c cl]; [reflexivity|].
  apply intrinsic_loop_spec. unfold u64max1. lia.
Qed.
(* it cannot fail for any transaction whose clause data is below 2^56 bytes in total and that respects the clause bound *)
Lemma data_gas_math_bound d : data_gas_math d <= 68 * lenN d.
Proof. unfold data_gas_math. pose proof (count_zero_le d). lia. Qed.
Lemma clauses_gas_math_bound cl : clauses_gas_math cl <= 68 * lenN (concat (map c_data cl)) + 48000 * lenN cl.
Proof.
  induction cl as [|c cl IH]; [cbn; lia|]. cbn [clauses_gas_math map concat]. rewrite lenN_app, lenN_cons.
  pose proof (data_gas_math_bound (c_data c)). unfold clause_gas. destruct (is_nil (c_to c)); lia.
Qed.
Theorem intrinsic_gas_total_l cl : lenN cl <= max_clauses -> lenN (concat (map c_data cl)) < 2 ^ 56 ->
  exists g, intrinsic_gas cl = Some g /\ g = intrinsic_gas_math cl.
Proof.
  intros Hc Hd. rewrite intrinsic_gas_exact_l. pose proof (clauses_gas_math_bound cl) as Hb.
  assert (H : intrinsic_gas_math cl < u64max1).
  { unfold intrinsic_gas_math, u64max1, max_clauses in *. change (2 ^ 56) with 72057594037927936 in Hd. destruct cl; lia. }
  destruct (intrinsic_gas_math cl <? u64max1) eqn:E; [|lia]. eexists. split; reflexivity.
Qed.

(* ------------------------------------------------------------------ DeriveRoot key/value pairs *)
Lemma uint8_wf i : i < u64max1 -> wfp (c_uint 8) i.
Proof. intros H. apply c_uint_wf; [apply N.le_refl|]. change (256 ^ 8) with u64max1. exact H. Qed.
Lemma root_key_prefix_free i j r : i < u64max1 -> j < u64max1 -> enc (c_uint 8) j = enc (c_uint 8) i ++ r -> i = j /\ r = [].
Proof.
  intros Hi Hj E. assert (Wi : wfp (c_uint 8) i) by (apply uint8_wf; exact Hi).
  assert (Wj : wfp (c_uint 8) j) by (apply uint8_wf; exact Hj).
  rewrite <- (app_nil_r (enc (c_uint 8) j)) in E. symmetry in E.
  destruct (codec_inj_app (c_uint 8) i j r [] (c_uint_ok 8) Wi Wj E) as [-> ->]. tauto.
Qed.

Lemma root_pairs_from_in i vals k v : In (k, v) (root_pairs_from i vals) ->
  exists n, (n < length vals)%nat /\ k = enc (c_uint 8) (i + N.of_nat n) /\ nth_error vals n = Some v.
Proof.
  revert i. induction vals as [|v0 t IH]; intros i H; [contradiction|]. cbn [root_pairs_from] in H. destruct H as [H|H].
  - inversion H; subst. exists O. cbn [length nth_error]. split; [lia|]. split; [|reflexivity].
    replace (i + N.of_nat 0) with i by lia. reflexivity.
  - destruct (IH _ H) as [n [Hn [Hk Hv]]]. exists (S n). cbn [length nth_error]. split; [lia|]. split; [|exact Hv].
    rewrite Hk. replace (i + 1 + N.of_nat n) with (i + N.of_nat (S n)) by lia. reflexivity.
Qed.
Lemma root_pairs_from_nth i vals n v : nth_error vals n = Some v -> In (enc (c_uint 8) (i + N.of_nat n), v) (root_pairs_from i vals).
Proof.
  revert i n. induction vals as [|v0 t IH]; intros i n H; [destruct n; discriminate|]. destruct n as [|n]; cbn [nth_error] in H.
  - inversion H; subst. left. replace (i + N.of_nat 0) with i by lia. reflexivity.
  - right. specialize (IH (i + 1) n H). replace (i + N.of_nat (S n)) with (i + 1 + N.of_nat n) by lia. exact IH.
Qed.

Lemma nth_error_ext' {A} (l1 l2 : list A) : (forall n, nth_error l1 n = nth_error l2 n) -> l1 = l2.
Proof.
  revert l2. induction l1 as [|x l1 IH]; intros [|y l2] H; try reflexivity.
  - specialize (H O). discriminate.
  - specialize (H O). discriminate.
  - pose proof (H O) as H0. cbn in H0. inversion H0; subst. f_equal. apply IH. intros n. exact (H (S n)).
Qed.

(* the SET of pairs (what a key-value map such as the trie can see) determines the ORDERED list *)
Theorem root_pairs_determine_list_l l1 l2 :
  lenN l1 < u64max1 -> lenN l2 < u64max1 ->
  (forall k v, In (k, v) (root_pairs l1) <-> In (k, v) (root_pairs l2)) -> l1 = l2.
Proof.
  intros H1 H2 Hset.
  assert (key_inj : forall a b, a < u64max1 -> b < u64max1 -> enc (c_uint 8) a = enc (c_uint 8) b -> a = b).
  { intros a b Ha Hb E. apply (codec_inj (c_uint 8) a b (c_uint_ok 8)); [apply uint8_wf; exact Ha|apply uint8_wf; exact Hb|exact E]. }
  assert (sub : forall la lb, lenN la < u64max1 -> lenN lb < u64max1 ->
            (forall k v, In (k, v) (root_pairs la) -> In (k, v) (root_pairs lb)) ->
            forall n v, nth_error la n = Some v -> nth_error lb n = Some v).
  { intros la lb Ha Hb Hin n v Hn. pose proof (root_pairs_from_nth 0 la n v Hn) as Hp. apply Hin in Hp.
    apply root_pairs_from_in in Hp. destruct Hp as [m [Hm [Hk Hv]]].
    assert (Hnl : (n < length la)%nat) by (apply nth_error_Some; congruence).
    apply key_inj in Hk; unfold lenN in *; try lia. assert (m = n) by lia. subst m. exact Hv. }
  apply nth_error_ext'. intros n.
  destruct (nth_error l1 n) as [v|] eqn:E1.
  - symmetry. apply (sub l1 l2 H1 H2 (fun k v => proj1 (Hset k v)) n v E1).
  - destruct (nth_error l2 n) as [w|] eqn:E2; [|reflexivity].
    pose proof (sub l2 l1 H2 H1 (fun k v => proj2 (Hset k v)) n w E2). congruence.
Qed.

(* the values (MarshalBinary forms) determine the transactions *)
Definition wf_bin (t : tx) : Prop := if t_dyn t then wfp c_dyn t else wfp c_legacy t.
Lemma tx_marshal_inj a b : wf_bin a -> wf_bin b -> tx_marshal a = tx_marshal b -> a = b.
Proof.
  intros Wa Wb E. pose proof (tx_unmarshal_complete_l a Wa) as Ha. pose proof (tx_unmarshal_complete_l b Wb) as Hb.
  rewrite E in Ha. congruence.
Qed.
Theorem txs_values_determine_l l1 l2 : Forall wf_bin l1 -> Forall wf_bin l2 -> map tx_marshal l1 = map tx_marshal l2 -> l1 = l2.
Proof.
  revert l2. induction l1 as [|a l1 IH]; intros [|b l2] W1 W2 E; try reflexivity; try discriminate.
  inversion W1; inversion W2; subst. cbn [map] in E. inversion E. f_equal; [apply tx_marshal_inj; assumption|apply IH; assumption].
Qed.
