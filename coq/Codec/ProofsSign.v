(* Codec/ProofsSign.v — every decodable object has a well-formed signing tuple (so the injectivity theorems apply
   to everything the decoders can return). *)
From Coq Require Import List NArith ZArith Bool Lia.
From Coq Require Import ZifyN ZifyNat ZifyBool.
From Verif Require Import Codec.Model Codec.ProofsRLP Codec.ProofsComb Codec.ProofsObjects.
Import ListNotations.
Open Scope N_scope.

Lemma legacy_sign_wf t : wfp c_legacy t -> wfp (cwrap legacy_sign_fields) (legacy_sign_tuple t).
Proof.
  intros [[W Hl] _].
  cbn [wfp enc cpair cwrap legacy_fields legacy_sign_fields legacy_sign_tuple fst snd] in *.
  rewrite !lenN_app in *. split; [tauto|lia].
Qed.
Lemma dyn_sign_wf t : wfp c_dyn t -> wfp (cwrap dyn_sign_fields) (dyn_sign_tuple t).
Proof.
  intros [[W Hl] _].
  cbn [wfp enc cpair cwrap dyn_fields dyn_sign_fields dyn_sign_tuple fst snd] in *.
  rewrite !lenN_app in *. split; [tauto|lia].
Qed.
Lemma header_sign_wf h : wfp c_header h -> wfp (cwrap header_sign_fields) (header_sign_tuple h).
Proof.
  intros [[W Hl] _]. unfold c_header, c_header_gen in *.
  cbn [wfp enc cpair cwrap header_fields header_sign_fields header_sign_tuple fst snd] in *.
  rewrite !lenN_app in *. split; [tauto|lia].
Qed.
Lemma tx_sign_wf t : wfp c_tx t ->
  if t_dyn t then wfp (cwrap dyn_sign_fields) (dyn_sign_tuple t) else wfp (cwrap legacy_sign_fields) (legacy_sign_tuple t).
Proof.
  cbn [wfp c_tx]. destruct (t_dyn t); [intros [W _]; apply dyn_sign_wf; exact W|apply legacy_sign_wf].
Qed.
