(* Codec/ProofsRLP.v — big-endian integers and the Stream.Kind header parser: exact characterisation
   (shead b = Some (k,c,r)  <->  b = enc_head k c ++ c ++ r  and the header is admissible). *)
From Coq Require Import List NArith ZArith Bool Lia.
From Coq Require Import ZifyN ZifyNat ZifyBool.
From Verif Require Import Codec.Model.
Import ListNotations.
Open Scope N_scope.
Ltac Zify.zify_post_hook ::= Z.div_mod_to_equations.

(* ------------------------------------------------------------------ lists *)
Lemma lenN_app {A} (a b : list A) : lenN (a ++ b) = lenN a + lenN b.
Proof. unfold lenN. rewrite app_length. lia. Qed.
Lemma lenN_cons {A} (x : A) l : lenN (x :: l) = 1 + lenN l.
Proof. unfold lenN. cbn [length]. lia. Qed.
Lemma lenN_nil {A} : lenN (@nil A) = 0.
Proof. reflexivity. Qed.
Lemma lenN_zero {A} (l : list A) : lenN l = 0 -> l = [].
Proof. destruct l; [reflexivity|]. rewrite lenN_cons. lia. Qed.

Lemma firstn_lenN_app {A} (a b : list A) : firstn (N.to_nat (lenN a)) (a ++ b) = a.
Proof. unfold lenN. rewrite Nat2N.id. rewrite firstn_app, Nat.sub_diag, firstn_all. cbn. apply app_nil_r. Qed.
Lemma skipn_lenN_app {A} (a b : list A) : skipn (N.to_nat (lenN a)) (a ++ b) = b.
Proof. unfold lenN. rewrite Nat2N.id. rewrite skipn_app, Nat.sub_diag, skipn_all. reflexivity. Qed.
Lemma firstn_lenN {A} (n : N) (t : list A) : n <= lenN t -> lenN (firstn (N.to_nat n) t) = n.
Proof. unfold lenN. intros H. rewrite firstn_length. lia. Qed.

(* ------------------------------------------------------------------ little-endian core *)
Fixpoint last0 (l : bytes) : bool := match l with [] => false | x :: t => match t with [] => x =? 0 | _ => last0 t end end.

Lemma last0_cons x l : l <> [] -> last0 (x :: l) = last0 l.
Proof. destruct l; [congruence|reflexivity]. Qed.
Lemma last0_app_single l x : last0 (l ++ [x]) = (x =? 0).
Proof.
  induction l as [|y l IH]; [reflexivity|]. cbn [app]. rewrite last0_cons; [exact IH|]. destruct l; discriminate.
Qed.
Lemma head0_rev l : head0 (rev l) = last0 l.
Proof.
  destruct l as [|x l] using rev_ind; [reflexivity|]. rewrite rev_app_distr, last0_app_single. reflexivity.
Qed.

Lemma le_fuel_val f : forall n, n < 2 ^ N.of_nat f -> le_val (le_fuel f n) = n.
Proof.
  induction f as [|f IH]; intros n H.
  - cbn in H. cbn. lia.
  - cbn [le_fuel]. destruct (n =? 0) eqn:E.
    + cbn. lia.
    + cbn [le_val]. rewrite IH.
      * lia.
      * rewrite Nat2N.inj_succ, N.pow_succ_r' in H.
        assert (n / 256 <= n / 2) by (apply N.div_le_compat_l; lia).
        assert (n / 2 < 2 ^ N.of_nat f) by (apply N.div_lt_upper_bound; lia).
        lia.
Qed.

Lemma le_val_le_bytes n : le_val (le_bytes n) = n.
Proof. unfold le_bytes. apply le_fuel_val. rewrite N2Nat.id. apply N.size_gt. Qed.

Lemma le_fuel_ok f : forall n, bytes_okb (le_fuel f n) = true.
Proof.
  induction f as [|f IH]; intros n; cbn [le_fuel]; [reflexivity|].
  destruct (n =? 0); [reflexivity|]. cbn [bytes_okb forallb]. fold (bytes_okb (le_fuel f (n / 256))). rewrite IH.
  assert (n mod 256 < 256) by (apply N.mod_lt; lia). destruct (n mod 256 <? 256) eqn:E; [reflexivity|lia].
Qed.

Lemma le_fuel_zero f : le_fuel f 0 = [].
Proof. destruct f; reflexivity. Qed.

Lemma le_fuel_last0 f : forall n, n < 2 ^ N.of_nat f -> last0 (le_fuel f n) = false.
Proof.
  induction f as [|f IH]; intros n H; cbn [le_fuel]; [reflexivity|].
  destruct (n =? 0) eqn:E; [reflexivity|].
  assert (Hd : n / 256 < 2 ^ N.of_nat f).
  { rewrite Nat2N.inj_succ, N.pow_succ_r' in H.
    assert (n / 256 <= n / 2) by (apply N.div_le_compat_l; lia).
    assert (n / 2 < 2 ^ N.of_nat f) by (apply N.div_lt_upper_bound; lia). lia. }
  destruct (n / 256 =? 0) eqn:E2.
  - replace (n / 256) with 0 by lia. rewrite le_fuel_zero. cbn. lia.
  - rewrite last0_cons; [apply IH; exact Hd|].
    destruct f; [cbn in Hd; lia|]. cbn [le_fuel]. rewrite E2. discriminate.
Qed.

Lemma all_zero_last0 l : l <> [] -> bytes_okb l = true -> le_val l = 0 -> last0 l = true.
Proof.
  induction l as [|x l IH]; intros Hne Hok Hv; [congruence|].
  cbn [le_val] in Hv. cbn [bytes_okb forallb] in Hok. apply andb_prop in Hok. destruct Hok as [_ Hok].
  destruct l as [|y l'].
  - cbn in *. lia.
  - rewrite last0_cons by discriminate. apply IH; [discriminate|exact Hok|lia].
Qed.

(* uniqueness: a valid little-endian digit string whose last digit is non-zero is what le_fuel produces *)
Lemma le_fuel_unique f : forall l, bytes_okb l = true -> last0 l = false -> le_val l < 2 ^ N.of_nat f ->
  le_fuel f (le_val l) = l.
Proof.
  induction f as [|f IH]; intros l Hok Hl Hlt.
  - cbn in Hlt. destruct l as [|x l]; [reflexivity|]. exfalso.
    rewrite all_zero_last0 in Hl; [discriminate|discriminate|exact Hok|lia].
  - destruct l as [|x l]; [reflexivity|].
    pose proof Hok as Hok0.
    cbn [bytes_okb forallb] in Hok. apply andb_prop in Hok. destruct Hok as [Hx Hok]. fold (bytes_okb l) in Hok.
    assert (Hx' : x < 256) by lia.
    cbn [le_val]. cbn [le_fuel].
    assert (Hnz : x + 256 * le_val l <> 0).
    { intro Hz. rewrite all_zero_last0 in Hl; [discriminate|discriminate|exact Hok0|exact Hz]. }
    destruct (x + 256 * le_val l =? 0) eqn:E; [lia|].
    replace ((x + 256 * le_val l) mod 256) with x by lia.
    replace ((x + 256 * le_val l) / 256) with (le_val l) by lia.
    f_equal. destruct l as [|y l'].
    + cbn. apply le_fuel_zero.
    + apply IH; [exact Hok| |].
      * rewrite last0_cons in Hl by discriminate. exact Hl.
      * cbn [le_val] in Hlt. rewrite Nat2N.inj_succ, N.pow_succ_r' in Hlt. cbn [le_val]. lia.
Qed.

(* ------------------------------------------------------------------ big-endian *)
Lemma bytes_okb_app a b : bytes_okb (a ++ b) = bytes_okb a && bytes_okb b.
Proof. apply forallb_app. Qed.
Lemma bytes_okb_rev l : bytes_okb (rev l) = bytes_okb l.
Proof.
  induction l as [|x l IH]; [reflexivity|]. cbn [rev]. rewrite bytes_okb_app, IH. cbn. rewrite andb_true_r. apply andb_comm.
Qed.

Lemma be_val_be_bytes n : be_val (be_bytes n) = n.
Proof. unfold be_val, be_bytes. rewrite rev_involutive. apply le_val_le_bytes. Qed.

Lemma be_bytes_canon n : canon_int (be_bytes n) = true.
Proof.
  unfold canon_int, be_bytes, le_bytes. rewrite bytes_okb_rev, le_fuel_ok, head0_rev, le_fuel_last0; [reflexivity|].
  rewrite N2Nat.id. apply N.size_gt.
Qed.

Lemma canon_int_rev l : canon_int l = true -> bytes_okb (rev l) = true /\ last0 (rev l) = false.
Proof.
  unfold canon_int. intros H. apply andb_prop in H. destruct H as [H1 H2].
  rewrite bytes_okb_rev. split; [exact H1|]. rewrite <- head0_rev, rev_involutive. destruct (head0 l); [discriminate|reflexivity].
Qed.

Lemma be_bytes_be_val l : canon_int l = true -> be_bytes (be_val l) = l.
Proof.
  intros H. apply canon_int_rev in H. destruct H as [H1 H2].
  unfold be_bytes, be_val, le_bytes. rewrite le_fuel_unique; [apply rev_involutive|exact H1|exact H2|].
  rewrite N2Nat.id. apply N.size_gt.
Qed.

(* lengths: at most k bytes <-> below 256^k *)
Lemma le_val_bound l : bytes_okb l = true -> le_val l < 256 ^ lenN l.
Proof.
  induction l as [|x l IH]; intros Hok; [cbn; lia|].
  cbn [bytes_okb forallb] in Hok. apply andb_prop in Hok. destruct Hok as [Hx Hok].
  rewrite lenN_cons. replace (1 + lenN l) with (N.succ (lenN l)) by lia. rewrite N.pow_succ_r'. cbn [le_val].
  specialize (IH Hok). lia.
Qed.
Lemma rev_lenN {A} (l : list A) : lenN (rev l) = lenN l.
Proof. unfold lenN. rewrite rev_length. reflexivity. Qed.
Lemma be_val_bound l : bytes_okb l = true -> be_val l < 256 ^ lenN l.
Proof. intros H. unfold be_val. rewrite <- (rev_lenN l). apply le_val_bound. rewrite bytes_okb_rev. exact H. Qed.

Lemma le_val_lower l : l <> [] -> bytes_okb l = true -> last0 l = false -> 256 ^ (lenN l - 1) <= le_val l.
Proof.
  induction l as [|x l IH]; intros Hne Hok Hl; [congruence|].
  cbn [bytes_okb forallb] in Hok. apply andb_prop in Hok. destruct Hok as [Hx Hok].
  destruct l as [|y l'].
  - cbn in *. lia.
  - rewrite last0_cons in Hl by discriminate. specialize (IH ltac:(discriminate) Hok Hl).
    rewrite lenN_cons. replace (1 + lenN (y :: l') - 1) with (N.succ (lenN (y :: l') - 1)) by (rewrite lenN_cons; lia).
    rewrite N.pow_succ_r'. cbn [le_val] in *. lia.
Qed.
Lemma be_bytes_len n k : n < 256 ^ k -> lenN (be_bytes n) <= k.
Proof.
  intros H. pose proof (be_bytes_canon n) as Hc. apply canon_int_rev in Hc. destruct Hc as [H1 H2].
  destruct (be_bytes n) as [|x t] eqn:E; [rewrite lenN_nil; lia|].
  assert (Hne : rev (x :: t) <> []) by (intro Hr; apply (f_equal (@rev N)) in Hr; rewrite rev_involutive in Hr; discriminate).
  pose proof (le_val_lower _ Hne H1 H2) as Hlow.
  assert (Hv : le_val (rev (x :: t)) = n) by (rewrite <- E; apply be_val_be_bytes).
  rewrite Hv, rev_lenN in Hlow.
  destruct (N.le_gt_cases (lenN (x :: t)) k) as [|Hgt]; [assumption|exfalso].
  assert (256 ^ k <= 256 ^ (lenN (x :: t) - 1)) by (apply N.pow_le_mono_r; lia). lia.
Qed.
Lemma be_bytes_nonempty n : 0 < n -> be_bytes n <> [].
Proof. intros H E. pose proof (be_val_be_bytes n) as Hv. rewrite E in Hv. cbn in Hv. lia. Qed.

(* ------------------------------------------------------------------ Stream.Kind *)
Definition two64 : N := 18446744073709551616.
Definition hok (k : kind) (c : bytes) : Prop :=
  match k with KByte => exists x, c = [x] /\ x < 128 | _ => lenN c < two64 end.

Lemma carve_some k n t k' c r : carve k n t = Some (k', c, r) -> k' = k /\ t = c ++ r /\ lenN c = n.
Proof.
  unfold carve. destruct (n <=? lenN t) eqn:E; [|discriminate]. intros H. inversion H; subst. clear H.
  split; [reflexivity|]. split; [symmetry; apply firstn_skipn|]. apply firstn_lenN. lia.
Qed.
Lemma carve_app k (c r : bytes) : carve k (lenN c) (c ++ r) = Some (k, c, r).
Proof.
  unfold carve. rewrite lenN_app. destruct (lenN c <=? lenN c + lenN r) eqn:E; [|lia].
  rewrite firstn_lenN_app, skipn_lenN_app. reflexivity.
Qed.

Lemma long_size_some ll t n t' : long_size ll t = Some (n, t') ->
  exists lb, t = lb ++ t' /\ lenN lb = ll /\ canon_int lb = true /\ 56 <= n /\ n = be_val lb.
Proof.
  unfold long_size. destruct (ll <=? lenN t) eqn:E; [|discriminate].
  destruct (canon_int (firstn (N.to_nat ll) t) && (56 <=? be_val (firstn (N.to_nat ll) t))) eqn:E2; [|discriminate].
  intros H. inversion H; subst. clear H. apply andb_prop in E2. destruct E2 as [Hc H56].
  exists (firstn (N.to_nat ll) t). repeat split; try assumption; try lia.
  - symmetry. apply firstn_skipn.
  - apply firstn_lenN. lia.
Qed.
Lemma long_size_app lb t' : canon_int lb = true -> 56 <= be_val lb ->
  long_size (lenN lb) (lb ++ t') = Some (be_val lb, t').
Proof.
  intros Hc H56. unfold long_size. rewrite lenN_app. destruct (lenN lb <=? lenN lb + lenN t') eqn:E; [|lia].
  rewrite firstn_lenN_app, skipn_lenN_app, Hc. destruct (56 <=? be_val lb) eqn:E2; [reflexivity|lia].
Qed.

Lemma pow256_8 : 256 ^ 8 = two64. Proof. reflexivity. Qed.

Lemma enc_len_long base lb : canon_int lb = true -> 56 <= be_val lb -> enc_len base (be_val lb) = (base + 55 + lenN lb) :: lb.
Proof.
  intros Hc H. unfold enc_len. destruct (be_val lb <? 56) eqn:E; [lia|]. cbv zeta. rewrite be_bytes_be_val by exact Hc. reflexivity.
Qed.

Lemma canon_bound lb : canon_int lb = true -> lenN lb <= 8 -> be_val lb < two64.
Proof.
  intros Hc Hl. unfold canon_int in Hc. apply andb_prop in Hc. destruct Hc as [Hok _].
  pose proof (be_val_bound lb Hok). rewrite <- pow256_8.
  assert (256 ^ lenN lb <= 256 ^ 8) by (apply N.pow_le_mono_r; lia). lia.
Qed.

Theorem shead_sound b k c r : shead b = Some (k, c, r) -> b = enc_head k c ++ c ++ r /\ hok k c.
Proof.
  destruct b as [|x t]; [discriminate|]. cbn [shead].
  destruct (x <? 128) eqn:E1.
  { intros H. inversion H; subst. split; [reflexivity|]. exists x. split; [reflexivity|lia]. }
  destruct (x <? 184) eqn:E2.
  { intros H. apply carve_some in H. destruct H as [-> [-> Hl]]. cbn [enc_head hok]. unfold enc_len.
    destruct (lenN c <? 56) eqn:E; [|lia]. split; [|unfold two64; lia]. cbn [app]. f_equal. lia. }
  destruct (x <? 192) eqn:E3.
  { destruct (long_size (x - 183) t) as [[n t']|] eqn:L; [|discriminate].
    intros H. apply carve_some in H. destruct H as [-> [-> Hl]].
    apply long_size_some in L. destruct L as [lb [-> [Hll [Hc [H56 Hn]]]]]. cbn [enc_head hok].
    rewrite Hl, Hn, enc_len_long by (try assumption; lia). split.
    - cbn [app]. f_equal. lia.
    - apply canon_bound; [exact Hc|lia]. }
  destruct (x <? 248) eqn:E4.
  { intros H. apply carve_some in H. destruct H as [-> [-> Hl]]. cbn [enc_head hok]. unfold enc_len.
    destruct (lenN c <? 56) eqn:E; [|lia]. split; [|unfold two64; lia]. cbn [app]. f_equal. lia. }
  destruct (x <? 256) eqn:E5; [|discriminate].
  { destruct (long_size (x - 247) t) as [[n t']|] eqn:L; [|discriminate].
    intros H. apply carve_some in H. destruct H as [-> [-> Hl]].
    apply long_size_some in L. destruct L as [lb [-> [Hll [Hc [H56 Hn]]]]]. cbn [enc_head hok].
    rewrite Hl, Hn, enc_len_long by (try assumption; lia). split.
    - cbn [app]. f_equal. lia.
    - apply canon_bound; [exact Hc|lia]. }
Qed.

Lemma shead_enc_len (k : kind) base (c r : bytes) :
  (k = KStr /\ base = 128 \/ k = KList /\ base = 192) -> lenN c < two64 ->
  shead (enc_len base (lenN c) ++ c ++ r) = Some (k, c, r).
Proof.
  intros Hk Hlt. unfold enc_len. destruct (lenN c <? 56) eqn:E.
  - cbn [app shead]. destruct Hk as [[-> ->]|[-> ->]].
    + destruct (128 + lenN c <? 128) eqn:E1; [lia|]. destruct (128 + lenN c <? 184) eqn:E2; [|lia].
      replace (128 + lenN c - 128) with (lenN c) by lia. apply carve_app.
    + destruct (192 + lenN c <? 128) eqn:E1; [lia|]. destruct (192 + lenN c <? 184) eqn:E2; [lia|].
      destruct (192 + lenN c <? 192) eqn:E3; [lia|]. destruct (192 + lenN c <? 248) eqn:E4; [|lia].
      replace (192 + lenN c - 192) with (lenN c) by lia. apply carve_app.
  - cbv zeta. set (lb := be_bytes (lenN c)).
    assert (Hc : canon_int lb = true) by apply be_bytes_canon.
    assert (Hv : be_val lb = lenN c) by apply be_val_be_bytes.
    assert (Hl8 : lenN lb <= 8) by (apply be_bytes_len; rewrite pow256_8; exact Hlt).
    assert (Hl1 : 1 <= lenN lb).
    { destruct lb eqn:El; [|rewrite lenN_cons; lia]. exfalso. apply (be_bytes_nonempty (lenN c)); [lia|exact El]. }
    cbn [app shead]. destruct Hk as [[-> ->]|[-> ->]].
    + destruct (128 + 55 + lenN lb <? 128) eqn:E1; [lia|]. destruct (128 + 55 + lenN lb <? 184) eqn:E2; [lia|].
      destruct (128 + 55 + lenN lb <? 192) eqn:E3; [|lia].
      replace (128 + 55 + lenN lb - 183) with (lenN lb) by lia.
      rewrite long_size_app by (try assumption; lia). rewrite Hv. apply carve_app.
    + destruct (192 + 55 + lenN lb <? 128) eqn:E1; [lia|]. destruct (192 + 55 + lenN lb <? 184) eqn:E2; [lia|].
      destruct (192 + 55 + lenN lb <? 192) eqn:E3; [lia|]. destruct (192 + 55 + lenN lb <? 248) eqn:E4; [lia|].
      destruct (192 + 55 + lenN lb <? 256) eqn:E5; [|lia].
      replace (192 + 55 + lenN lb - 247) with (lenN lb) by lia.
      rewrite long_size_app by (try assumption; lia). rewrite Hv. apply carve_app.
Qed.

Theorem shead_complete k c r : hok k c -> shead (enc_head k c ++ c ++ r) = Some (k, c, r).
Proof.
  destruct k; cbn [hok enc_head].
  - intros [x [-> Hx]]. cbn [app shead]. destruct (x <? 128) eqn:E; [reflexivity|lia].
  - intros H. apply shead_enc_len; [left; tauto|exact H].
  - intros H. apply shead_enc_len; [right; tauto|exact H].
Qed.

(* extending the input after a parsed value does not change the parse *)
Lemma shead_app b k c r r' : shead b = Some (k, c, r) -> shead (b ++ r') = Some (k, c, r ++ r').
Proof.
  intros H. apply shead_sound in H. destruct H as [-> Hk]. rewrite <- !app_assoc. apply shead_complete. exact Hk.
Qed.

Lemma enc_head_nonempty k c : k <> KByte -> enc_head k c <> [].
Proof. destruct k; [congruence| |]; intros _; cbn [enc_head]; unfold enc_len; destruct (lenN c <? 56); discriminate. Qed.
Lemma shead_consumes b k c r : shead b = Some (k, c, r) -> (length r < length b)%nat.
Proof.
  intros H. apply shead_sound in H. destruct H as [-> Hk]. rewrite !app_length.
  destruct k.
  - destruct Hk as [x [-> _]]. cbn. lia.
  - pose proof (enc_head_nonempty KStr c ltac:(discriminate)). destruct (enc_head KStr c); [congruence|]. cbn. lia.
  - pose proof (enc_head_nonempty KList c ltac:(discriminate)). destruct (enc_head KList c); [congruence|]. cbn. lia.
Qed.
