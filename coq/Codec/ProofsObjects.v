(* Codec/ProofsObjects.v — the object codecs of thor (clause, reserved, tx, receipt, txsRootFeatures, extension,
   header, block) are sound and complete; the counting loops of Clauses.DecodeRLP / RawBlock never reject what
   the full decoder accepts. *)
From Coq Require Import List NArith ZArith Bool Lia.
From Coq Require Import ZifyN ZifyNat ZifyBool.
From Verif Require Import Codec.Model Codec.ProofsRLP Codec.ProofsComb.
Import ListNotations.
Open Scope N_scope.
Ltac Zify.zify_post_hook ::= Z.div_mod_to_equations.

(* a codec that may encode to nothing (the header extension) is complete only at the end of its list *)
Definition complete_end {A} (c : codec A) : Prop := forall x, wfp c x -> dec c (enc c x) = Some (x, []).
Definition codec_ok_end {A} (c : codec A) : Prop := sound c /\ complete_end c.
Lemma ok_end {A} (c : codec A) : codec_ok c -> codec_ok_end c.
Proof. intros [S C]. split; [exact S|]. intros x W. specialize (C x [] W). rewrite app_nil_r in C. exact C. Qed.
Lemma cpair_ok_end {A B} (ca : codec A) (cb : codec B) : codec_ok ca -> codec_ok_end cb -> codec_ok_end (cpair ca cb).
Proof.
  intros [Sa Ca] [Sb Cb]. split.
  - intros b [x y] r. cbn [dec cpair enc wfp fst snd].
    destruct (dec ca b) as [[x' r1]|] eqn:E1; [|discriminate].
    destruct (dec cb r1) as [[y' r2]|] eqn:E2; [|discriminate].
    intros H. inversion H; subst. apply Sa in E1. apply Sb in E2. destruct E1 as [-> Wx]. destruct E2 as [-> Wy].
    rewrite app_assoc. tauto.
  - intros [x y] [Wx Wy]. cbn [dec cpair enc wfp fst snd] in *. rewrite (Ca x _ Wx), (Cb y Wy). reflexivity.
Qed.
Lemma cwrap_ok_end {A} (c : codec A) : codec_ok_end c -> codec_ok (cwrap c).
Proof.
  intros [S C]. split.
  - intros b x r. cbn [dec cwrap enc wfp].
    destruct (shead b) as [[[k p] r1]|] eqn:E; [|discriminate]. destruct k; try discriminate.
    destruct (dec c p) as [[x' [|? ?]]|] eqn:E2; try discriminate.
    intros H. inversion H; subst. apply shead_sound in E. destruct E as [-> Hk]. apply S in E2. destruct E2 as [E2 Wx].
    rewrite app_nil_r in E2. subst p. rewrite enc_list_head, <- app_assoc. cbn [hok] in Hk. unfold two64 in Hk. tauto.
  - intros x r [Wx Hl]. cbn [dec cwrap enc wfp] in *. rewrite enc_list_head, <- app_assoc.
    rewrite shead_complete by exact Hl. rewrite (C x Wx). reflexivity.
Qed.

(* ------------------------------------------------------------------ clause *)
Lemma c_clause_ok : codec_ok c_clause.
Proof.
  apply cmap_ok; [intros [a [b c]]; reflexivity|]. apply cwrap_ok.
  repeat apply cpair_ok; [apply c_nilable_ok; lia|apply c_big_ok|apply c_bytes_ok].
Qed.
Lemma c_clause_nonempty : nonempty c_clause.
Proof. apply cpmap_nonempty, cwrap_nonempty. Qed.

(* ------------------------------------------------------------------ raw.go readKind on list / string encodings *)
Lemma lenN_enc_len_short base n : n < 56 -> lenN (enc_len base n) = 1.
Proof. intros H. unfold enc_len. destruct (n <? 56) eqn:E; [reflexivity|lia]. Qed.

Ltac brk := repeat (match goal with |- context [if ?c then _ else _] => let E := fresh "E" in destruct c eqn:E; try lia end).

Lemma rsize_long base (k : kind) (q rest : bytes) :
  (base = 128 \/ base = 192) -> 56 <= lenN q < two64 ->
  rsize (enc_len base (lenN q) ++ q ++ rest) = Some (lenN (enc_len base (lenN q) ++ q)).
Proof.
  intros Hb Hq. unfold enc_len. destruct (lenN q <? 56) eqn:E; [lia|]. cbv zeta. set (lb := be_bytes (lenN q)).
  assert (Hc : canon_int lb = true) by apply be_bytes_canon.
  assert (Hv : be_val lb = lenN q) by apply be_val_be_bytes.
  assert (Hl8 : lenN lb <= 8) by (apply be_bytes_len; rewrite pow256_8; lia).
  assert (Hl1 : 1 <= lenN lb).
  { destruct lb eqn:El; [|rewrite lenN_cons; lia]. exfalso. apply (be_bytes_nonempty (lenN q)); [lia|exact El]. }
  assert (Hh : head0 lb = false).
  { unfold canon_int in Hc. apply andb_prop in Hc. destruct Hc as [_ Hh]. destruct (head0 lb); [discriminate|reflexivity]. }
  cbn [app]. unfold rsize. cbv beta iota zeta.
  destruct Hb as [-> | ->].
  - replace (128 + 55 + lenN lb - 183) with (lenN lb) by lia.
    rewrite firstn_lenN_app, Hv, Hh. cbn [negb]. rewrite !lenN_cons, !lenN_app. brk. f_equal. lia.
  - replace (192 + 55 + lenN lb - 247) with (lenN lb) by lia.
    rewrite firstn_lenN_app, Hv, Hh. cbn [negb]. rewrite !lenN_cons, !lenN_app. brk. f_equal. lia.
Qed.

Lemma rsize_list q rest : lenN q < two64 -> rsize (enc_list q ++ rest) = Some (lenN (enc_list q)).
Proof.
  intros Hq. unfold enc_list. rewrite <- app_assoc. destruct (lenN q <? 56) eqn:E.
  - unfold enc_len. rewrite E. cbn [app]. unfold rsize. cbv beta iota zeta. rewrite !lenN_cons, !lenN_app. brk. f_equal. lia.
  - apply (rsize_long 192 KList); [right; reflexivity|lia].
Qed.

Lemma rsize_str s rest : 2 <= lenN s < two64 -> rsize (enc_str s ++ rest) = Some (lenN (enc_str s)).
Proof.
  intros Hs. destruct s as [|s0 [|s1 st]]; [rewrite lenN_nil in Hs; lia|rewrite !lenN_cons, lenN_nil in Hs; lia|].
  set (s := s0 :: s1 :: st) in *. change (enc_str s) with (enc_len 128 (lenN s) ++ s). rewrite <- app_assoc.
  destruct (lenN s <? 56) eqn:E.
  - unfold enc_len. rewrite E. cbn [app]. unfold rsize. cbv beta iota zeta. rewrite !lenN_cons, !lenN_app. brk. f_equal. lia.
  - apply (rsize_long 128 KStr); [left; reflexivity|lia].
Qed.

(* a codec whose encodings raw.go's readKind measures exactly *)
Definition rsized {A} (c : codec A) : Prop := forall x rest, wfp c x -> rsize (enc c x ++ rest) = Some (lenN (enc c x)).

Lemma rcount_step g lim p acc : p <> [] ->
  rcount (S g) lim p acc =
  match rsize p with
  | Some n => if (match lim with Some m => m <? acc + 1 | None => false end) then None
              else rcount g lim (skipn (N.to_nat n) p) (acc + 1)
  | None => None end.
Proof. destruct p; [congruence|reflexivity]. Qed.
Lemma rcount_nil g lim acc : rcount g lim [] acc = Some acc.
Proof. destruct g; reflexivity. Qed.

Lemma rcount_spec {A} (c : codec A) (lim : option N) : rsized c -> nonempty c ->
  forall l, Forall (wfp c) l -> forall g acc, (length (concat (map (enc c) l)) <= g)%nat ->
  match lim with Some m => acc <= m | None => True end ->
  rcount g lim (concat (map (enc c) l)) acc =
  if (match lim with Some m => acc + lenN l <=? m | None => true end) then Some (acc + lenN l) else None.
Proof.
  intros RS NE. induction l as [|x l IH]; intros W g acc Hg Hacc.
  - cbn [map concat]. rewrite rcount_nil, lenN_nil, N.add_0_r.
    destruct lim as [m|]; [|reflexivity]. destruct (acc <=? m) eqn:E; [reflexivity|lia].
  - inversion W as [|? ? Wx Wl]; subst. cbn [map concat] in *.
    assert (Hne : enc c x <> []) by (apply NE; exact Wx).
    assert (Hne2 : enc c x ++ concat (map (enc c) l) <> []).
    { intro E. apply app_eq_nil in E. tauto. }
    rewrite app_length in Hg.
    assert (Hl1 : (1 <= length (enc c x))%nat) by (destruct (enc c x); [congruence|cbn; lia]).
    destruct g as [|g]; [lia|].
    rewrite rcount_step by exact Hne2. rewrite (RS x _ Wx), skipn_lenN_app, lenN_cons.
    destruct lim as [m|].
    + destruct (m <? acc + 1) eqn:E1.
      * destruct (acc + (1 + lenN l) <=? m) eqn:E2; [lia|reflexivity].
      * rewrite IH; [|exact Wl|lia|lia]. replace (acc + 1 + lenN l) with (acc + (1 + lenN l)) by lia. reflexivity.
    + rewrite IH; [|exact Wl|lia|exact I]. f_equal. lia.
Qed.

Lemma c_clause_rsized : rsized c_clause.
Proof.
  intros x rest [[_ Hl] _]. cbn [enc c_clause cmap cpmap cwrap] in *. apply rsize_list. exact Hl.
Qed.

(* ------------------------------------------------------------------ Clauses *)
Lemma cslice_clause_ok : codec_ok (cslice c_clause).
Proof. apply cslice_ok; [apply c_clause_ok|apply c_clause_nonempty]. Qed.

Lemma c_clauses_ok : codec_ok c_clauses.
Proof.
  destruct cslice_clause_ok as [S C]. split.
  - intros b l r. cbn [dec c_clauses enc wfp].
    destruct (shead b) as [[[k p] r1]|] eqn:E; [|discriminate]. destruct k; try discriminate.
    destruct (rcount (length p) (Some max_clauses) p 0) as [n|] eqn:Er; [|discriminate].
    intros H. pose proof H as H0. apply S in H. destruct H as [Hb W]. split; [exact Hb|]. split; [exact W|].
    (* the count loop succeeded, so there are at most 2500 elements *)
    cbn [dec cslice] in H0. rewrite E in H0.
    destruct (dec_elems (dec c_clause) (length p) p) as [l'|] eqn:E2; [|discriminate]. inversion H0; subst.
    apply (dec_elems_sound c_clause (proj1 c_clause_ok)) in E2. destruct E2 as [-> Wl].
    rewrite (rcount_spec c_clause (Some max_clauses) c_clause_rsized c_clause_nonempty l Wl) in Er; [|lia|unfold max_clauses; lia].
    destruct (0 + lenN l <=? max_clauses) eqn:E3; [lia|discriminate].
  - intros l r [W Hl]. cbn [dec c_clauses enc wfp] in *. pose proof (C l r W) as Hd.
    destruct W as [Wl Hlen]. cbn [enc cslice] in *. rewrite enc_list_head, <- app_assoc in *.
    rewrite shead_complete by exact Hlen.
    rewrite (rcount_spec c_clause (Some max_clauses) c_clause_rsized c_clause_nonempty l Wl); [|lia|unfold max_clauses; lia].
    destruct (0 + lenN l <=? max_clauses) eqn:E3; [|lia]. exact Hd.
Qed.

(* ------------------------------------------------------------------ reserved *)
Lemma trim_raws_id l : l <> [] -> is_empty_raw (last l []) = false -> trim_raws l = l.
Proof.
  induction l as [|v t IH]; intros Hne Hl; [congruence|]. cbn [trim_raws]. destruct t as [|w t'].
  - cbn in *. rewrite Hl. reflexivity.
  - rewrite IH; [reflexivity|discriminate|exact Hl].
Qed.
Lemma cslice_raw_ok : codec_ok (cslice c_raw).
Proof. apply cslice_ok; [apply c_raw_ok|apply c_raw_nonempty]. Qed.

Lemma c_reserved_ok : codec_ok c_reserved.
Proof.
  apply cpmap_ok; [|apply cslice_raw_ok]. intros raws r _. unfold res_of_raws, raws_of_res.
  destruct (3 <? lenN raws); [discriminate|]. destruct raws as [|r0 rest].
  - intros H. inversion H; subst. reflexivity.
  - destruct (is_empty_raw (last (r0 :: rest) [])) eqn:El; [discriminate|].
    destruct (dec_exact (c_uint 4) r0) as [f|] eqn:Ed; [|discriminate]. intros H. inversion H; subst. cbn [r_features r_unused].
    apply (dec_exact_sound _ _ _ (proj1 (c_uint_ok 4))) in Ed. destruct Ed as [<- _].
    apply trim_raws_id; [discriminate|exact El].
Qed.

(* ------------------------------------------------------------------ transactions *)
Lemma legacy_fields_ok : codec_ok legacy_fields.
Proof.
  unfold legacy_fields.
  repeat apply cpair_ok; try apply c_uint_ok; try apply c_clauses_ok; try apply c_reserved_ok; try apply c_bytes_ok.
  apply c_nilable_ok; lia.
Qed.
Lemma dyn_fields_ok : codec_ok dyn_fields.
Proof.
  unfold dyn_fields.
  repeat apply cpair_ok; try apply c_uint_ok; try apply c_big_ok; try apply c_clauses_ok; try apply c_reserved_ok; try apply c_bytes_ok.
  apply c_nilable_ok; lia.
Qed.
Lemma c_legacy_ok : codec_ok c_legacy.
Proof.
  apply cmap_ok; [|apply cwrap_ok, legacy_fields_ok].
  intros [a [b [c [d [e [f [g [h [i j]]]]]]]]]. reflexivity.
Qed.
Lemma c_dyn_ok : codec_ok c_dyn.
Proof.
  apply cmap_ok; [|apply cwrap_ok, dyn_fields_ok].
  intros [a [b [c [d [e [f [g [h [i [j k]]]]]]]]]]. reflexivity.
Qed.
Lemma c_legacy_dyn_flag t : wfp c_legacy t -> t_dyn t = false.
Proof. intros [_ H]. cbn in H. inversion H as [H1]. rewrite <- H1 at 1. reflexivity. Qed.
Lemma c_dyn_dyn_flag t : wfp c_dyn t -> t_dyn t = true.
Proof. intros [_ H]. cbn in H. inversion H as [H1]. rewrite <- H1 at 1. reflexivity. Qed.

Lemma c_legacy_nonempty : nonempty c_legacy.
Proof. apply cpmap_nonempty, cwrap_nonempty. Qed.
Lemma c_dyn_nonempty : nonempty c_dyn.
Proof. apply cpmap_nonempty, cwrap_nonempty. Qed.

(* the typed payload 0x51 || rlp(body) *)
Lemma dec_typed_sound {A} (c : codec A) s x : sound c -> dec_typed c s = Some x -> s = 81 :: enc c x /\ wfp c x.
Proof.
  intros S. destruct s as [|ty [|b0 bt]]; try discriminate. cbn [dec_typed].
  destruct (ty =? 81) eqn:E; [|discriminate]. intros H. apply (dec_exact_sound c _ _ S) in H. destruct H as [<- W].
  split; [f_equal; lia|exact W].
Qed.
Lemma dec_typed_complete {A} (c : codec A) x : complete c -> nonempty c -> wfp c x -> dec_typed c (81 :: enc c x) = Some x.
Proof.
  intros C NE W. pose proof (NE x W) as Hne. pose proof (dec_exact_complete c x C W) as Hd.
  destruct (enc c x) as [|e0 et]; [congruence|]. cbn [dec_typed]. exact Hd.
Qed.

Lemma typed_str_shape (e : bytes) : e <> [] -> single_low (81 :: e) = false.
Proof. destruct e; [congruence|reflexivity]. Qed.

Lemma c_tx_ok : codec_ok c_tx.
Proof.
  destruct c_legacy_ok as [Sl Cl]. destruct c_dyn_ok as [Sd Cd]. destruct c_bytes_ok as [Sb Cb]. split.
  - intros b x r. cbn [dec c_tx enc wfp].
    destruct (shead b) as [[[k p] r1]|] eqn:E; [|discriminate]. destruct k; try discriminate.
    + destruct (dec c_bytes b) as [[s r2]|] eqn:E2; [|discriminate].
      destruct (dec_typed c_dyn s) as [t|] eqn:E3; [|discriminate]. intros H. inversion H; subst.
      apply Sb in E2. destruct E2 as [-> Ws]. apply (dec_typed_sound c_dyn _ _ Sd) in E3. destruct E3 as [-> Wt].
      rewrite (c_dyn_dyn_flag _ Wt). split; [reflexivity|]. split; [exact Wt|].
      cbn [wfp c_bytes] in Ws. rewrite lenN_cons in Ws. lia.
    + intros H. apply Sl in H. destruct H as [-> W]. rewrite (c_legacy_dyn_flag _ W). tauto.
  - intros x r. cbn [dec c_tx enc wfp]. destruct (t_dyn x) eqn:Ed.
    + intros [W Hl].
      assert (Hne : enc c_dyn x <> []) by (apply c_dyn_nonempty; exact W).
      assert (Ws : wfp c_bytes (81 :: enc c_dyn x)) by (cbn [wfp c_bytes]; rewrite lenN_cons; lia).
      pose proof (Cb _ r Ws) as Hb. cbn [enc c_bytes] in Hb.
      rewrite enc_str_high in * by (apply typed_str_shape; exact Hne). rewrite <- app_assoc in *.
      rewrite shead_complete by exact Ws. rewrite Hb, (dec_typed_complete c_dyn x Cd c_dyn_nonempty W). reflexivity.
    + intros W. pose proof (Cl x r W) as Hd.
      assert (Hs : exists p, shead (enc c_legacy x ++ r) = Some (KList, p, r)).
      { cbn [enc c_legacy cmap cpmap cwrap]. rewrite enc_list_head, <- app_assoc. eexists. apply shead_complete.
        destruct W as [[_ Hl] _]. exact Hl. }
      destruct Hs as [p Hs]. rewrite Hs. exact Hd.
Qed.
Lemma c_tx_nonempty : nonempty c_tx.
Proof.
  intros x. cbn [wfp c_tx enc]. destruct (t_dyn x).
  - intros [_ Hl]. apply c_bytes_nonempty. cbn [wfp c_bytes]. rewrite lenN_cons. lia.
  - apply c_legacy_nonempty.
Qed.

(* ------------------------------------------------------------------ receipts *)
Lemma c_event_ok : codec_ok c_event.
Proof.
  apply cmap_ok; [intros [a [b c]]; reflexivity|]. apply cwrap_ok.
  repeat apply cpair_ok; [apply c_fixed_ok; lia| |apply c_bytes_ok].
  apply cslice_ok; [apply c_fixed_ok; lia|apply c_fixed_nonempty].
Qed.
Lemma c_transfer_ok : codec_ok c_transfer.
Proof.
  apply cmap_ok; [intros [a [b c]]; reflexivity|]. apply cwrap_ok.
  repeat apply cpair_ok; [apply c_fixed_ok; lia|apply c_fixed_ok; lia|apply c_big_ok].
Qed.
Lemma c_output_ok : codec_ok c_output.
Proof.
  apply cmap_ok; [intros [a b]; reflexivity|]. apply cwrap_ok. apply cpair_ok.
  - apply cslice_ok; [apply c_event_ok|apply cpmap_nonempty, cwrap_nonempty].
  - apply cslice_ok; [apply c_transfer_ok|apply cpmap_nonempty, cwrap_nonempty].
Qed.
Lemma c_receipt_body_ok d : codec_ok (c_receipt_body d).
Proof.
  apply cpmap_ok.
  - intros [a [b [c [e [f g]]]]] y _ H. inversion H; subst. reflexivity.
  - apply cwrap_ok. repeat apply cpair_ok; try apply c_big_ok; [apply c_uint_ok|apply c_fixed_ok; lia|apply c_bool_ok|].
    apply cslice_ok; [apply c_output_ok|apply cpmap_nonempty, cwrap_nonempty].
Qed.
Lemma c_receipt_body_flag d r : wfp (c_receipt_body d) r -> rc_dyn r = d.
Proof. intros [_ H]. cbn in H. inversion H as [H1]. rewrite <- H1 at 1. reflexivity. Qed.
Lemma c_receipt_body_nonempty d : nonempty (c_receipt_body d).
Proof. apply cpmap_nonempty, cwrap_nonempty. Qed.

Lemma dec_typed_receipt_sound s x : dec_typed_receipt s = Some x ->
  s = 81 :: enc (c_receipt_body true) x /\ wfp (c_receipt_body true) x.
Proof.
  destruct s as [|ty body]; [discriminate|]. cbn [dec_typed_receipt]. destruct (ty =? 81) eqn:E; [|discriminate].
  intros H. apply (dec_exact_sound _ _ _ (proj1 (c_receipt_body_ok true))) in H. destruct H as [<- W].
  split; [f_equal; lia|exact W].
Qed.

Lemma c_receipt_ok : codec_ok c_receipt.
Proof.
  destruct (c_receipt_body_ok false) as [Sl Cl]. destruct (c_receipt_body_ok true) as [Sd Cd]. destruct c_bytes_ok as [Sb Cb]. split.
  - intros b x r. cbn [dec c_receipt enc wfp].
    destruct (shead b) as [[[k p] r1]|] eqn:E; [|discriminate]. destruct k; try discriminate.
    + destruct (dec c_bytes b) as [[s r2]|] eqn:E2; [|discriminate].
      destruct (dec_typed_receipt s) as [t|] eqn:E3; [|discriminate]. intros H. inversion H; subst.
      apply Sb in E2. destruct E2 as [-> Ws]. apply dec_typed_receipt_sound in E3. destruct E3 as [-> Wt].
      rewrite (c_receipt_body_flag _ _ Wt). split; [reflexivity|]. split; [exact Wt|].
      cbn [wfp c_bytes] in Ws. rewrite lenN_cons in Ws. lia.
    + intros H. apply Sl in H. destruct H as [-> W]. rewrite (c_receipt_body_flag _ _ W). tauto.
  - intros x r. cbn [dec c_receipt enc wfp]. destruct (rc_dyn x) eqn:Ed.
    + intros [W Hl].
      assert (Hne : enc (c_receipt_body true) x <> []) by (apply c_receipt_body_nonempty; exact W).
      assert (Ws : wfp c_bytes (81 :: enc (c_receipt_body true) x)) by (cbn [wfp c_bytes]; rewrite lenN_cons; lia).
      pose proof (Cb _ r Ws) as Hb. cbn [enc c_bytes] in Hb.
      rewrite enc_str_high in * by (apply typed_str_shape; exact Hne). rewrite <- app_assoc in *.
      rewrite shead_complete by exact Ws. rewrite Hb. cbn [dec_typed_receipt].
      rewrite (dec_exact_complete _ x Cd W). reflexivity.
    + intros W. pose proof (Cl x r W) as Hd.
      assert (Hs : exists p, shead (enc (c_receipt_body false) x ++ r) = Some (KList, p, r)).
      { cbn [enc c_receipt_body cpmap cwrap]. rewrite enc_list_head, <- app_assoc. eexists. apply shead_complete.
        destruct W as [[_ Hl] _]. exact Hl. }
      destruct Hs as [p Hs]. rewrite Hs. exact Hd.
Qed.

(* ------------------------------------------------------------------ txsRootFeatures (after the fix: strict) *)
Lemma trf_pair_ok : codec_ok (cwrap (cpair (c_fixed 32) (c_uint 4))).
Proof. apply cwrap_ok, cpair_ok; [apply c_fixed_ok; lia|apply c_uint_ok]. Qed.

Lemma c_trf_ok : codec_ok c_trf.
Proof.
  destruct trf_pair_ok as [Sp Cp]. destruct (c_fixed_ok 32 ltac:(lia)) as [Sf Cf]. split.
  - intros b x r. unfold c_trf. cbn [dec c_trf_gen enc wfp].
    destruct (shead b) as [[[k p] r1]|] eqn:E.
    + destruct k.
      * destruct (dec (c_fixed 32) b) as [[root r2]|] eqn:E2; [|discriminate]. intros H. inversion H; subst.
        apply Sf in E2. destruct E2 as [-> W]. cbn [trf_features trf_root N.eqb]. split; [reflexivity|]. split; [exact W|lia].
      * destruct (dec (c_fixed 32) b) as [[root r2]|] eqn:E2; [|discriminate]. intros H. inversion H; subst.
        apply Sf in E2. destruct E2 as [-> W]. cbn [trf_features trf_root N.eqb]. split; [reflexivity|]. split; [exact W|lia].
      * destruct (dec (cwrap (cpair (c_fixed 32) (c_uint 4))) b) as [[[root f] r2]|] eqn:E2; [|discriminate].
        destruct (f =? 0) eqn:Ef; [discriminate|]. cbn [andb]. intros H. inversion H; subst.
        apply Sp in E2. destruct E2 as [-> W]. cbn [trf_features trf_root]. rewrite Ef. split; [reflexivity|].
        destruct W as [[W1 W2] _]. cbn [fst snd] in *. split; [exact W1|]. apply c_uint_wf_inv in W2. cbn in W2. lia.
    + destruct (dec (c_fixed 32) b) as [[root r2]|] eqn:E2; [|discriminate]. intros H. inversion H; subst.
      apply Sf in E2. destruct E2 as [-> W]. cbn [trf_features trf_root N.eqb]. split; [reflexivity|]. split; [exact W|lia].
  - intros x r [W1 W2]. unfold c_trf. cbn [dec c_trf_gen enc wfp]. destruct (trf_features x =? 0) eqn:Ef.
    + pose proof (Cf (trf_root x) r W1) as Hd. cbn [enc c_fixed] in *. cbn [app] in *.
      assert (Hs : shead ((128 + 32) :: trf_root x ++ r) = Some (KStr, trf_root x, r)).
      { replace ((128 + 32) :: trf_root x ++ r) with (enc_head KStr (trf_root x) ++ trf_root x ++ r).
        - apply shead_complete. cbn [hok]. unfold two64. lia.
        - cbn [enc_head]. unfold enc_len. cbn [wfp c_fixed] in W1. rewrite W1. reflexivity. }
      rewrite Hs, Hd. destruct x as [root f]. cbn [trf_root trf_features] in *. f_equal. f_equal. f_equal. lia.
    + assert (W : wfp (cwrap (cpair (c_fixed 32) (c_uint 4))) (trf_root x, trf_features x)).
      { split.
        - split; [exact W1|]. cbn [snd]. apply c_uint_wf; [lia|]. cbn. exact W2.
        - cbn [enc cpair fst snd c_fixed]. cbn [wfp c_fixed] in W1. rewrite lenN_app, lenN_cons, W1.
          assert (lenN (enc (c_uint 4) (trf_features x)) <= 5).
          { cbn [enc c_uint cpmap c_bytes]. pose proof (be_bytes_len (trf_features x) 4 ltac:(cbn; lia)) as Hl.
            destruct (be_bytes (trf_features x)) as [|b0 [|b1 bt]] eqn:Eb.
            - cbn. lia.
            - cbn [enc_str]. destruct (b0 <? 128); cbn; lia.
            - change (enc_str (b0 :: b1 :: bt)) with (enc_len 128 (lenN (b0 :: b1 :: bt)) ++ b0 :: b1 :: bt).
              rewrite lenN_app. unfold enc_len. destruct (lenN (b0 :: b1 :: bt) <? 56) eqn:E56; [|lia].
              change (lenN [128 + lenN (b0 :: b1 :: bt)]) with 1. lia. }
          lia. }
      pose proof (Cp _ r W) as Hd.
      assert (Hs : exists p, shead (enc (cwrap (cpair (c_fixed 32) (c_uint 4))) (trf_root x, trf_features x) ++ r) = Some (KList, p, r)).
      { cbn [enc cwrap]. rewrite enc_list_head, <- app_assoc. eexists. apply shead_complete. destruct W as [_ Hl]. exact Hl. }
      destruct Hs as [p Hs]. rewrite Hs, Hd. rewrite Ef. cbn [andb]. destruct x; reflexivity.
Qed.

(* ------------------------------------------------------------------ header extension *)
Lemma c_ext_inner_ok : codec_ok c_ext_inner.
Proof.
  apply cpmap_ok; [|apply cslice_raw_ok]. intros raws e _. unfold ext_of_raws, raws_of_ext.
  pose proof (dec_exact_sound c_bytes) as Db. pose proof (dec_exact_sound c_bool) as Dbool. pose proof (dec_exact_sound c_big) as Dbig.
  destruct raws as [|a [|c [|f [|? ?]]]]; try discriminate.
  - destruct (dec_exact c_bytes a) as [alpha|] eqn:Ea; [|discriminate]. destruct (lenN alpha =? 0); [discriminate|].
    intros H. inversion H; subst. cbn [x_basefee x_com x_alpha].
    apply Db in Ea; [|apply c_bytes_ok]. destruct Ea as [<- _]. reflexivity.
  - destruct (dec_exact c_bytes a) as [alpha|] eqn:Ea; [|discriminate].
    destruct (dec_exact c_bool c) as [com|] eqn:Ec; [|discriminate]. destruct com; [|discriminate].
    intros H. inversion H; subst. cbn [x_basefee x_com x_alpha].
    apply Db in Ea; [|apply c_bytes_ok]. apply Dbool in Ec; [|apply c_bool_ok]. destruct Ea as [<- _]. destruct Ec as [<- _]. reflexivity.
  - destruct (dec_exact c_bytes a) as [alpha|] eqn:Ea; [|discriminate].
    destruct (dec_exact c_bool c) as [com|] eqn:Ec; [|discriminate].
    destruct (dec_exact c_big f) as [fee|] eqn:Ef; [|discriminate].
    intros H. inversion H; subst. cbn [x_basefee x_com x_alpha].
    apply Db in Ea; [|apply c_bytes_ok]. apply Dbool in Ec; [|apply c_bool_ok]. apply Dbig in Ef; [|apply c_big_ok].
    destruct Ea as [<- _]. destruct Ec as [<- _]. destruct Ef as [<- _]. reflexivity.
Qed.

Lemma ext_inner_not_default e : wfp c_ext_inner e -> is_default_ext e = false.
Proof.
  intros [_ H]. unfold is_default_ext. destruct e as [alpha com fee]. cbn [x_basefee x_com x_alpha] in *.
  destruct fee; [reflexivity|]. destruct com; [reflexivity|]. cbn [negb andb].
  unfold raws_of_ext, ext_of_raws in H. cbn [x_basefee x_com x_alpha] in H.
  destruct (dec_exact c_bytes (enc c_bytes alpha)) as [a'|]; [|discriminate].
  destruct (lenN a' =? 0) eqn:E; [discriminate|]. inversion H; subst. exact E.
Qed.

Lemma c_ext_ok_end : codec_ok_end c_ext.
Proof.
  destruct c_ext_inner_ok as [S C]. split.
  - intros b e r. cbn [dec c_ext enc wfp]. destruct b as [|b0 bt].
    + intros H. inversion H; subst. cbn. split; reflexivity.
    + intros H. apply S in H. destruct H as [Hb W]. rewrite (ext_inner_not_default e W). tauto.
  - intros e. cbn [dec c_ext enc wfp]. destruct (is_default_ext e) eqn:Ed.
    + intros ->. reflexivity.
    + intros W. pose proof (C e [] W) as Hd. rewrite app_nil_r in Hd.
      destruct (enc c_ext_inner e) as [|e0 et] eqn:Ee; [|exact Hd].
      exfalso. cbn [enc c_ext_inner cpmap cslice] in Ee. exact (enc_list_nonempty _ Ee).
Qed.

(* ------------------------------------------------------------------ header, block *)
Ltac leaf :=
  first [ apply c_uint_ok | apply c_big_ok | apply c_bytes_ok | apply c_trf_ok | apply c_clauses_ok | apply c_reserved_ok
        | (apply c_fixed_ok; lia) | (apply c_nilable_ok; lia) ].

Lemma header_fields_ok_end : codec_ok_end (header_fields c_trf).
Proof. unfold header_fields. repeat (apply cpair_ok_end; [leaf|]). apply c_ext_ok_end. Qed.
Lemma c_header_ok : codec_ok c_header.
Proof.
  apply cmap_ok; [|apply cwrap_ok_end, header_fields_ok_end].
  intros [a [b [c [d [e [f [g [h [i [j k]]]]]]]]]]. reflexivity.
Qed.
Lemma c_header_nonempty : nonempty c_header.
Proof. apply cpmap_nonempty, cwrap_nonempty. Qed.

Lemma cslice_tx_ok : codec_ok (cslice c_tx).
Proof. apply cslice_ok; [apply c_tx_ok|apply c_tx_nonempty]. Qed.
Lemma c_block_ok : codec_ok c_block.
Proof.
  apply cmap_ok; [intros [a b]; reflexivity|]. apply cwrap_ok, cpair_ok; [apply c_header_ok|apply cslice_tx_ok].
Qed.

(* signing tuples *)
Lemma legacy_sign_ok : codec_ok (cwrap legacy_sign_fields).
Proof. apply cwrap_ok. unfold legacy_sign_fields. repeat (apply cpair_ok; [leaf|]). leaf. Qed.
Lemma dyn_sign_ok : codec_ok (cwrap dyn_sign_fields).
Proof. apply cwrap_ok. unfold dyn_sign_fields. repeat (apply cpair_ok; [leaf|]). leaf. Qed.
Lemma header_sign_ok : codec_ok (cwrap header_sign_fields).
Proof. apply cwrap_ok_end. unfold header_sign_fields. repeat (apply cpair_ok_end; [leaf|]). apply c_ext_ok_end. Qed.
