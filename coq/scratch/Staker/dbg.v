(* Staker/ProofsCustody.v — custody: what a validation holds (locked + queued + cooldown + withdrawable) changes only by what
   its endorser pays in (AddValidation, IncreaseStake) and is paid out (WithdrawStake); a delegation's stake only by
   AddDelegation / WithdrawDelegation.  Per-operation lemmas for the user operations. *)
From Coq Require Import List NArith Bool Lia.
From Coq Require Import ZifyN ZifyNat ZifyBool.
From Verif Require Import Common.Util Staker.Model Staker.Base Staker.Lists Staker.Inv Staker.RList Staker.Inv2
  Staker.ProofsStep Staker.ProofsUser Staker.ProofsUser2 Staker.ProofsHist.
Import ListNotations.
Open Scope N_scope.

Opaque e18 two64.

Definition held_by (s : st) (a : N) : N := match getv s a with Some v => held v | None => 0 end.
Definition stake_of (s : st) (id : N) : N := match get (dels s) id with Some d => d_stake d | None => 0 end.

Lemma held_by_vals s s' : vals s' = vals s -> forall b, held_by s' b = held_by s b.
Proof. intros E b. unfold held_by, getv. rewrite E. reflexivity. Qed.

Lemma held_by_setv a v s b : held_by (setv a v s) b = if a =? b then held v else held_by s b.
Proof.
  unfold held_by. destruct (a =? b) eqn:E.
  - apply N.eqb_eq in E. subst. rewrite getv_setv_same. reflexivity.
  - apply N.eqb_neq in E. rewrite getv_setv_other; auto.
Qed.

Lemma held_set_prev x v : held (set_prev x v) = held v. Proof. reflexivity. Qed.
Lemma held_set_next x v : held (set_next x v) = held v. Proof. reflexivity. Qed.

Lemma core_held v v' : core v = core v' -> held v = held v'.
Proof. intros H. inversion H. unfold held. congruence. Qed.

Lemma held_by_setv_same_held a v v' s : getv s a = Some v -> held v' = held v -> forall b, held_by (setv a v' s) b = held_by s b.
Proof.
  intros Hv E b. rewrite held_by_setv. destruct (a =? b) eqn:Eb; auto. apply N.eqb_eq in Eb. subst. unfold held_by. rewrite Hv. auto.
Qed.

Lemma held_by_put_ls w l s b : held_by (put_ls w l s) b = held_by s b.
Proof. destruct w; reflexivity. Qed.

Lemma held_by_ren_only s s' : ren_only s s' -> forall b, held_by s' b = held_by s b.
Proof. intros E. apply held_by_vals. rewrite E. reflexivity. Qed.

(* the list operations: other records keep what they hold; the record itself is either left as stored (remove's early
   return) or replaced by the given entry *)
Lemma ll_remove_held w a e s s1 e1 :
  ll_remove w a e s = Ok (s1, e1) ->
  (forall b, b <> a -> held_by s1 b = held_by s b) /\ (held_by s1 a = held_by s a \/ held_by s1 a = held e).
Proof.
  unfold ll_remove. intros H.
  destruct (negb (is_linked e) && (negb (oeqb (l_head (get_ls w s)) (Some a)) || negb (oeqb (l_tail (get_ls w s)) (Some a)))).
  - inversion H; subst. auto.
  - bstep H sa Ha. bstep H sb Hb. bstep H u Hu. inversion H; subst s1 e1; clear H.
    assert (A : forall b, held_by sa b = held_by s b).
    { destruct (v_prev e) as [p|].
      - bstep Ha pe Hpe. apply of_opt_ok in Hpe. inversion Ha; subst. apply held_by_setv_same_held with (v := pe); auto.
      - inversion Ha; subst. intros b. apply held_by_put_ls. }
    assert (B : forall b, held_by sb b = held_by sa b).
    { destruct (v_next e) as [n|].
      - bstep Hb ne Hne. apply of_opt_ok in Hne. inversion Hb; subst. apply held_by_setv_same_held with (v := ne); auto.
      - inversion Hb; subst. intros b. apply held_by_put_ls. }
    split.
    + intros b Hne. rewrite held_by_setv. apply N.eqb_neq in Hne. rewrite N.eqb_sym in Hne. rewrite Hne.
      rewrite held_by_put_ls, B, A. reflexivity.
    + right. rewrite held_by_setv, N.eqb_refl. reflexivity.
Qed.

Lemma ll_add_held w a e s s1 :
  ll_add w a e s = Ok s1 -> (forall b, b <> a -> held_by s1 b = held_by s b) /\ held_by s1 a = held e.
Proof.
  unfold ll_add. intros H. bstep H sb Hb. inversion H; subst s1; clear H.
  assert (B : forall b, held_by sb b = held_by s b).
  { destruct (l_tail (get_ls w s)) as [t|].
    - bstep Hb te Hte. apply of_opt_ok in Hte. inversion Hb; subst. intros b.
      rewrite (held_by_setv_same_held t te _ _ Hte (held_set_next _ _)). apply held_by_put_ls.
    - inversion Hb; subst. intros b. rewrite !held_by_put_ls. reflexivity. }
  split.
  - intros b Hne. rewrite held_by_setv. apply N.eqb_neq in Hne. rewrite N.eqb_sym in Hne. rewrite Hne. rewrite held_by_put_ls. apply B.
  - rewrite held_by_setv, N.eqb_refl. reflexivity.
Qed.

(* ------------------------------------------------------------------ what an operation pays in / out *)

Definition paid_in (c : cfg) (s : st) (o : op) (a : N) : N :=
  match o with
  | OAddValidation a' _ _ vet | OIncrease a' _ vet => if (a' =? a) && (fst (answer c s o) =? 0) then vet else 0
  | _ => 0
  end.
Definition paid_out (c : cfg) (s : st) (o : op) (a : N) : N :=
  match o with OWithdraw a' _ => if a' =? a then snd (answer c s o) else 0 | _ => 0 end.

Definition deleg_in (c : cfg) (s : st) (o : op) (id : N) : N :=
  match o with
  | OAddDeleg _ vet _ => if (fst (answer c s o) =? 0) && (snd (answer c s o) =? id) then vet else 0
  | _ => 0
  end.
Definition deleg_out (c : cfg) (s : st) (o : op) (id : N) : N :=
  match o with OWithdrawDeleg id' => if id' =? id then snd (answer c s o) else 0 | _ => 0 end.

Lemma money_only_held s s' : money_only s s' -> forall b, held_by s' b = held_by s b.
Proof. intros [q [wd [cd [e [b ->]]]]]. apply held_by_vals. reflexivity. Qed.
Lemma money_only_dels s s' : money_only s s' -> dels s' = dels s.
Proof. intros [q [wd [cd [e [b ->]]]]]. reflexivity. Qed.

(* ------------------------------------------------------------------ user operations, success case *)

Lemma add_validation_held c a e p vet s s' x :
  add_validation c a e p vet (pay_in (vet * e18) s) = Ok (s', x) ->
  forall b, held_by s' b = held_by s b + (if a =? b then vet else 0).
Proof.
  intros H b. unfold add_validation in H.
  bstep H u1 G1. bstep H u2 G2. bstep H u3 G3. bstep H u4 G4. bstep H u5 G5. bstep H s1 Hadd. bstep H u6 G6.
  inversion H; subst s' x; clear H. gfacts.
  assert (Hnone : getv s a = None).
  { change (getv (pay_in (vet * e18) s) a) with (getv s a) in G4. destruct (getv s a); [discriminate|reflexivity]. }
  destruct (ll_add_held _ _ _ _ _ Hadd) as [Ho Ha].
  change (held_by (add_queued vet s1) b) with (held_by s1 b).
  destruct (a =? b) eqn:E.
  - apply N.eqb_eq in E. subst b. rewrite Ha. unfold held_by. rewrite Hnone. unfold held. cbn. lia.
  - apply N.eqb_neq in E. rewrite Ho by auto. change (held_by (pay_in (vet * e18) s) b) with (held_by s b). lia.
Qed.

Lemma increase_stake_held a e vet s s' x :
  increase_stake a e vet (pay_in (vet * e18) s) = Ok (s', x) ->
  forall b, held_by s' b = held_by s b + (if a =? b then vet else 0).
Proof.
  intros H b. unfold increase_stake in H.
  bstep H v Hv. apply get_or_revert_ok in Hv. change (getv s a = Some v) in Hv.
  bstep H u1 G1. bstep H u2 G2. bstep H u3 G3. bstep H u4 G4. bstep H u5 G5. bstep H u6 G6.
  inversion H; subst s' x; clear H.
  change (held_by (add_queued vet (rl_add a (setv a (set_queued (v_queued v + vet) v) (pay_in (vet * e18) s)))) b)
    with (held_by (rl_add a (setv a (set_queued (v_queued v + vet) v) (pay_in (vet * e18) s))) b).
  rewrite (held_by_ren_only _ _ (rl_add_only a _)). rewrite held_by_setv.
  destruct (a =? b) eqn:E.
  - apply N.eqb_eq in E. subst b. unfold held_by. rewrite Hv. unfold held. cbn. lia.
  - change (held_by (pay_in (vet * e18) s) b) with (held_by s b). lia.
Qed.

Lemma decrease_stake_held a e vet s s' x :
  decrease_stake a e vet s = Ok (s', x) -> forall b, held_by s' b = held_by s b.
Proof.
  intros H b. unfold decrease_stake in H.
  bstep H u0 G0. bstep H v Hv. apply get_or_revert_ok in Hv.
  bstep H u1 G1. bstep H u2 G2. bstep H u3 G3. bstep H u4 G4. bstep H u5 G5. bstep H u6 G6. bstep H u7 G7.
  inversion H; subst s' x; clear H.
  rewrite (held_by_ren_only _ _ (rl_add_only a _)). apply held_by_setv_same_held with (v := v); auto.
Qed.

Lemma signal_exit_held c a e s s' x : signal_exit c a e s = Ok (s', x) -> forall b, held_by s' b = held_by s b.
Proof.
  intros H b. unfold signal_exit in H.
  bstep H v Hv. bstep H u1 G1. bstep H u2 G2. bstep H u3 G3. bstep H cur Hc. bstep H s1 Hs. inversion H; subst s' x; clear H.
  apply svc_signal_exit_shape in Hs; [|discriminate]. destruct Hs as [v2 [eb [cur2 [Hv2 ->]]]].
  rewrite (held_by_setv_same_held a v2 _ (w_exits (upd (exits s) eb a) s)); auto.
Qed.

Lemma set_online_held a on s s' x : set_online a on s = Ok (s', x) -> forall b, held_by s' b = held_by s b.
Proof.
  intros H b. unfold set_online in H. bstep H v Hv. unfold get_existing in Hv. apply of_opt_ok in Hv.
  inversion H; subst s' x; clear H. apply held_by_setv_same_held with (v := v); auto.
Qed.

Lemma set_beneficiary_held a e bb s s' x : set_beneficiary a e bb s = Ok (s', x) -> forall b, held_by s' b = held_by s b.
Proof.
  intros H b. unfold set_beneficiary in H. bstep H v Hv. apply get_or_revert_ok in Hv.
  bstep H u1 G1. bstep H u2 G2. inversion H; subst s' x; clear H. apply held_by_setv_same_held with (v := v); auto.
Qed.

Lemma withdraw_stake_held c a e s s1 x s2 la lq :
  withdraw_stake c a e s = Ok (s1, x) -> pay_out x s1 = Ok s2 -> WF s la lq ->
  forall b, held_by s2 b + (if a =? b then x else 0) = held_by s b.
Proof.
  intros H Hpay Hwf b. pose proof H as Hamt. unfold withdraw_stake in H.
  bstep H v Hv. apply get_or_revert_ok in Hv. bstep H u1 G1.
  destruct (withdraw_stake_amount c a e s s1 x v Hamt Hv) as [Ex _].
  bstep H r Hr. destruct r as [[[sa wd] q] cd].
  bstep H sb Hb. bstep H sc Hc. bstep H sd Hd. bstep H se He. bstep H t1 Ht1. bstep H tot Htot. bstep H u2 Hcb.
  inversion H; subst s1 tot; clear H.
  assert (M : money_only sb s2).
  { eapply money_only_trans; [eapply (mo_cond _ (remove_withdrawable wd)); [apply mo_remove_withdrawable|exact Hc]|].
    eapply money_only_trans; [eapply (mo_cond _ (remove_queued q)); [apply mo_remove_queued|exact Hd]|].
    eapply money_only_trans; [eapply (mo_cond _ (remove_cooldown cd)); [apply mo_remove_cooldown|exact He]|].
    eapply mo_pay_out; eauto. }
  rewrite (money_only_held _ _ M). clear M Hc Hd He Hpay Hcb Ht1 Htot.
  unfold svc_withdraw_stake in Hr. destruct (v_status v =? StatusQueued) eqn:Est.
  - apply N.eqb_eq in Est. bstep Hr r1 Hrm. destruct r1 as [s1' e1]. inversion Hr; subst sa wd q cd; clear Hr.
    set (v1 := set_status StatusExit (set_amounts (v_locked v) (v_punlock v) 0 (v_cooldown v) 0 (v_weight v) v)) in *.
    assert (Hin : In a lq) by (apply (wf_st _ _ _ Hwf a v Hv); auto).
    destruct (WF_remove false s la lq a v1 s1' e1 v Hwf Hrm Hv Hin eq_refl eq_refl eq_refl)
      as [l1 [l2 [El [Hwf1 [Hlo [Hga [Hce [Hco Hsum]]]]]]]].
    assert (M : money_only (set_agg a agg0 s1') sb).
    { unfold aggs_exit in Hb. cbn [e_qdec] in Hb. destruct (0 <? a_pv (get_agg s1' a)).
      - bstep Hb s1b Hq. eapply money_only_trans; [eapply mo_remove_queued; eauto|eapply mo_add_withdrawable; eauto].
      - inversion Hb. apply money_only_refl. }
    rewrite (money_only_held _ _ M). change (held_by (set_agg a agg0 s1') b) with (held_by s1' b).
    destruct (ll_remove_held _ _ _ _ _ _ Hrm) as [Ho _].
    destruct (a =? b) eqn:E.
    + apply N.eqb_eq in E. subst b. unfold held_by. rewrite Hga, Hv.
      assert (held e1 = held v1) by (apply core_held; auto).
      rewrite H, Ex. unfold held. cbn. Show. Abort.
