From Coq Require Import List NArith Bool.
From Verif Require Import Codec.Model.
Import ListNotations.
Open Scope N_scope.
Definition cl := mkClause NilList 5 [1;2;3].
Definition t1 := mkTx false 74 1000 32 [cl; mkClause (Ptr (repeat 7 20)) 0 []] 128 0 0 21000 NilStr 12345678 (mkRes 1 []) (repeat 9 65).
Eval vm_compute in (enc c_tx t1).
Eval vm_compute in (dec c_tx (enc c_tx t1)).
Eval vm_compute in (enc c_tx (norm_tx t1)).
Definition t2 := mkTx true 74 1000 32 [cl] 0 7 1000000000000000000000 21000 (Ptr (repeat 3 32)) 12345678 (mkRes 0 [[129;5];[193;255]]) (repeat 9 65).
Eval vm_compute in (dec c_tx (enc c_tx t2)).
Eval vm_compute in (tx_unmarshal (tx_marshal t2)).
Eval vm_compute in (decode (enc c_tx t1)).
Definition h1 := mkHeader (repeat 1 32) 1000 10000000 (repeat 2 20) 0 5 (mkTrf (repeat 3 32) 1) (repeat 4 32) (repeat 5 32) (repeat 6 65) (mkExt [1;2] true (Some 0)).
Eval vm_compute in (dec c_header (enc c_header h1)).
Eval vm_compute in (dec_block_two_phase (enc c_block (mkBlock h1 [t1;t2]))).
