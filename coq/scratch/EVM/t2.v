From Coq Require Import ZArith Lia Bool.
From Verif Require Import EVM.Word.
Require Import Verif.scratch.EVM.t1.
Open Scope Z_scope.

Lemma add_ok a b : i_add a b = m_add a b.
Proof. unfold i_add, u_add, m_add. apply wrap_mod. Qed.
Lemma mul_ok a b : i_mul a b = m_mul a b.
Proof. unfold i_mul, u_mul, m_mul. apply wrap_mod. Qed.
Lemma sub_ok a b : i_sub a b = m_sub a b.
Proof. unfold i_sub, u_sub, m_sub. apply wrap_mod. Qed.
Lemma div_ok a b : in_word a -> in_word b -> i_div a b = m_div a b.
Proof. intros [? ?] [? ?]. unfold i_div, m_div. apply u_div_spec; lia. Qed.
Lemma mod_ok a b : in_word a -> in_word b -> i_mod a b = m_mod a b.
Proof. intros [? ?] [? ?]. unfold i_mod, m_mod. apply u_mod_spec; lia. Qed.

Lemma u_div_0_r x : u_div x 0 = 0. Proof. reflexivity. Qed.
Lemma u_div_0_l y : 0 <= y -> u_div 0 y = 0.
Proof. intros. rewrite u_div_spec by lia. destruct (y =? 0); reflexivity. Qed.
Lemma u_mod_0_r x : u_mod x 0 = 0. Proof. unfold u_mod. rewrite orb_true_r. reflexivity. Qed.
Lemma u_mod_0_l y : u_mod 0 y = 0. Proof. reflexivity. Qed.

Lemma sdiv_ok a b : in_word a -> in_word b -> i_sdiv a b = m_sdiv a b.
Proof.
  intros [Ha1 Ha2] [Hb1 Hb2]. pose proof W_half as HW. pose proof HALF_pos as HP.
  unfold i_sdiv, m_sdiv, u_sdiv.
  destruct (Z.eqb_spec b 0) as [->|Hb0].
  { rewrite u_sign_0. change (0 <? 0) with false. cbv iota.
    destruct (0 <? u_sign a); rewrite ?u_neg_0, ?u_div_0_r; reflexivity. }
  assert (Hq : forall q, 0 <= q < W -> q mod W = q) by (intros; apply Z.mod_small; lia).
  destruct (Z.eq_dec a 0) as [->|Ha0].
  { rewrite u_sign_0. change (0 <? 0) with false. cbv iota. rewrite u_neg_0.
    rewrite (signed_lo 0) by lia.
    rewrite Z.quot_0_l. 2:{ unfold signed; destruct (Z.ltb_spec b HALF); lia. } rewrite Z.mod_0_l by lia.
    destruct (Z.ltb_spec b HALF).
    - rewrite (u_sign_pos b) by lia. change (1 <? 0) with false. cbv iota. rewrite u_div_0_l by lia. reflexivity.
    - rewrite (u_sign_neg b) by lia. change (-1 <? 0) with true. cbv iota. rewrite (u_neg_pos b) by lia. apply u_div_0_l; lia. }
  destruct (Z.ltb_spec a HALF) as [Hal|Hah]; destruct (Z.ltb_spec b HALF) as [Hbl|Hbh].
  - (* pos / pos *)
    rewrite (u_sign_pos a), (u_sign_pos b), !signed_lo by lia. change (0 <? 1) with true. cbv iota.
    rewrite u_div_spec by lia. destruct (Z.eqb_spec b 0); [lia|].
    rewrite Z.quot_div_nonneg by lia. pose proof (div_bound a b). rewrite Hq; lia.
  - (* pos / neg *)
    rewrite (u_sign_pos a), (u_sign_neg b), signed_lo, signed_hi by lia.
    change (0 <? 1) with true. cbv iota. change (0 <? -1) with false. cbv iota.
    rewrite (u_neg_pos b) by lia. rewrite u_div_spec by lia. destruct (Z.eqb_spec (W - b) 0); [lia|].
    replace (b - W) with (- (W - b)) by lia. rewrite Z.quot_opp_r by lia.
    rewrite Z.quot_div_nonneg by lia. apply u_neg_opp.
  - (* neg / pos *)
    rewrite (u_sign_neg a), (u_sign_pos b), signed_hi, signed_lo by lia.
    change (0 <? -1) with false. cbv iota. change (1 <? 0) with false. cbv iota.
    rewrite (u_neg_pos a) by lia. rewrite u_div_spec by lia. destruct (Z.eqb_spec b 0); [lia|].
    replace (a - W) with (- (W - a)) by lia. rewrite Z.quot_opp_l by lia.
    rewrite Z.quot_div_nonneg by lia. apply u_neg_opp.
  - (* neg / neg *)
    rewrite (u_sign_neg a), (u_sign_neg b), !signed_hi by lia.
    change (0 <? -1) with false. cbv iota. change (-1 <? 0) with true. cbv iota.
    rewrite (u_neg_pos a), (u_neg_pos b) by lia. rewrite u_div_spec by lia. destruct (Z.eqb_spec (W - b) 0); [lia|].
    replace (a - W) with (- (W - a)) by lia. replace (b - W) with (- (W - b)) by lia.
    rewrite Z.quot_opp_opp by lia. rewrite Z.quot_div_nonneg by lia.
    pose proof (div_bound (W - a) (W - b)). rewrite Hq; lia.
Qed.

Lemma smod_ok a b : in_word a -> in_word b -> i_smod a b = m_smod a b.
Proof.
  intros [Ha1 Ha2] [Hb1 Hb2]. pose proof W_half as HW. pose proof HALF_pos as HP.
  unfold i_smod, m_smod, u_smod.
  destruct (Z.eqb_spec b 0) as [->|Hb0].
  { rewrite u_sign_0. change (0 =? -1) with false. cbv iota. rewrite u_mod_0_r.
    destruct (u_sign a =? -1); rewrite ?u_neg_0; reflexivity. }
  assert (Hq : forall q, 0 <= q < W -> q mod W = q) by (intros; apply Z.mod_small; lia).
  destruct (Z.eq_dec a 0) as [->|Ha0].
  { rewrite u_sign_0. change (0 =? -1) with false. cbv iota. rewrite u_mod_0_l.
    rewrite Z.rem_0_l by (unfold signed; destruct (Z.ltb_spec b HALF); lia). rewrite Z.mod_0_l by lia. reflexivity. }
  destruct (Z.ltb_spec a HALF) as [Hal|Hah]; destruct (Z.ltb_spec b HALF) as [Hbl|Hbh].
  - rewrite (u_sign_pos a), (u_sign_pos b), !signed_lo by lia. change (1 =? -1) with false. cbv iota.
    rewrite u_mod_spec by lia. destruct (Z.eqb_spec b 0); [lia|].
    rewrite Z.rem_mod_nonneg by lia. pose proof (Z.mod_pos_bound a b). rewrite Hq; lia.
  - rewrite (u_sign_pos a), (u_sign_neg b), signed_lo, signed_hi by lia.
    change (1 =? -1) with false. cbv iota. change (-1 =? -1) with true. cbv iota.
    rewrite (u_neg_pos b) by lia. rewrite u_mod_spec by lia. destruct (Z.eqb_spec (W - b) 0); [lia|].
    replace (b - W) with (- (W - b)) by lia. rewrite Z.rem_opp_r by lia.
    rewrite Z.rem_mod_nonneg by lia. pose proof (Z.mod_pos_bound a (W - b)). rewrite Hq; lia.
  - rewrite (u_sign_neg a), (u_sign_pos b), signed_hi, signed_lo by lia.
    change (1 =? -1) with false. cbv iota. change (-1 =? -1) with true. cbv iota.
    rewrite (u_neg_pos a) by lia. rewrite u_mod_spec by lia. destruct (Z.eqb_spec b 0); [lia|].
    replace (a - W) with (- (W - a)) by lia. rewrite Z.rem_opp_l by lia.
    rewrite Z.rem_mod_nonneg by lia. apply u_neg_opp.
  - rewrite (u_sign_neg a), (u_sign_neg b), !signed_hi by lia. change (-1 =? -1) with true. cbv iota.
    rewrite (u_neg_pos a), (u_neg_pos b) by lia. rewrite u_mod_spec by lia. destruct (Z.eqb_spec (W - b) 0); [lia|].
    replace (a - W) with (- (W - a)) by lia. replace (b - W) with (- (W - b)) by lia.
    rewrite Z.rem_opp_opp by lia. rewrite Z.rem_mod_nonneg by lia. apply u_neg_opp.
Qed.

Lemma addmod_ok a b c : in_word a -> in_word b -> in_word c -> i_addmod a b c = m_addmod a b c.
Proof. intros. unfold i_addmod, m_addmod, u_addmod. reflexivity. Qed.
Lemma mulmod_ok a b c : in_word a -> in_word b -> in_word c -> i_mulmod a b c = m_mulmod a b c.
Proof.
  intros [? ?] [? ?] [? ?]. unfold i_mulmod, m_mulmod, u_mulmod.
  destruct (Z.eqb_spec c 0) as [->|]. { rewrite !orb_true_r. reflexivity. }
  destruct (Z.eqb_spec a 0) as [->|]. { cbn [orb]. rewrite Z.mul_0_l, Z.mod_0_l by lia. reflexivity. }
  destruct (Z.eqb_spec b 0) as [->|]. { cbn [orb]. rewrite Z.mul_0_r, Z.mod_0_l by lia. reflexivity. }
  reflexivity.
Qed.

Lemma cmp_ok :
  (forall a b, i_lt a b = m_lt a b) /\ (forall a b, i_gt a b = m_gt a b) /\ (forall a b, i_eq a b = m_eq a b) /\
  (forall a, i_iszero a = m_iszero a) /\ (forall a b, i_and a b = m_and a b) /\ (forall a b, i_or a b = m_or a b) /\
  (forall a b, i_xor a b = m_xor a b).
Proof. repeat split; reflexivity. Qed.

Lemma slt_ok a b : in_word a -> in_word b -> i_slt a b = m_slt a b.
Proof.
  intros [? ?] [? ?]. pose proof W_half. pose proof HALF_pos.
  unfold i_slt, m_slt, u_slt, u_sign, signed. f_equal.
  destruct (Z.ltb_spec a HALF); destruct (Z.ltb_spec b HALF); destruct (Z.eqb_spec a 0); destruct (Z.eqb_spec b 0);
    bdestruct; cbn [andb]; try reflexivity; try lia.
Qed.
Lemma sgt_ok a b : in_word a -> in_word b -> i_sgt a b = m_sgt a b.
Proof.
  intros [? ?] [? ?]. pose proof W_half. pose proof HALF_pos.
  unfold i_sgt, m_sgt, u_sgt, u_sign, signed. f_equal.
  destruct (Z.ltb_spec a HALF); destruct (Z.ltb_spec b HALF); destruct (Z.eqb_spec a 0); destruct (Z.eqb_spec b 0);
    bdestruct; cbn [andb]; try reflexivity; try lia.
Qed.
Lemma not_ok a : in_word a -> i_not a = m_not a.
Proof.
  intros [? ?]. unfold i_not, u_not, m_not. rewrite wrap_mod. unfold Z.lnot.
  symmetry. apply Zmod_unique with (-1); lia.
Qed.
