From Coq Require Import ZArith Lia Bool.
From Verif Require Import EVM.Word.
Open Scope Z_scope.

Lemma W_eq : W = 2 ^ 256. Proof. reflexivity. Qed.
Lemma HALF_eq : HALF = 2 ^ 255. Proof. reflexivity. Qed.
Lemma W64_eq : W64 = 2 ^ 64. Proof. reflexivity. Qed.
Lemma W_half : W = 2 * HALF. Proof. reflexivity. Qed.
Lemma MASK_ones : MASK = Z.ones 256. Proof. reflexivity. Qed.
Lemma HALF_pos : 0 < HALF. Proof. reflexivity. Qed.
Lemma W_pos : 0 < W. Proof. reflexivity. Qed.
Lemma wrap_mod x : wrap x = x mod W.
Proof. unfold wrap. rewrite MASK_ones, Z.land_ones by lia. rewrite W_eq. reflexivity. Qed.
Global Opaque W HALF W64 MASK.

Ltac bdestruct :=
  repeat match goal with
  | |- context [?x =? ?y] => destruct (Z.eqb_spec x y)
  | |- context [?x <? ?y] => destruct (Z.ltb_spec x y)
  | |- context [?x <=? ?y] => destruct (Z.leb_spec x y)
  end.

Lemma mod_small_W v : 0 <= v < W -> v mod W = v.
Proof. intros; apply Z.mod_small; lia. Qed.
Lemma div_bound a b : 0 <= a -> 0 < b -> 0 <= a / b <= a.
Proof.
  intros Ha Hb. split. apply Z.div_pos; lia.
  apply Z.div_le_upper_bound; nia.
Qed.
Lemma u_div_spec x y : 0 <= x -> 0 <= y -> u_div x y = if y =? 0 then 0 else x / y.
Proof.
  intros Hx Hy. unfold u_div. destruct (Z.eqb_spec y 0) as [->|Hy0]; [reflexivity|]. cbn [orb].
  destruct (Z.ltb_spec x y). { symmetry; apply Z.div_small; lia. }
  destruct (Z.eqb_spec x y) as [->|]. { symmetry; apply Z_div_same_full; lia. } reflexivity.
Qed.
Lemma u_mod_spec x y : 0 <= x -> 0 <= y -> u_mod x y = if y =? 0 then 0 else x mod y.
Proof.
  intros Hx Hy. unfold u_mod. destruct (Z.eqb_spec y 0) as [->|Hy0].
  { rewrite orb_true_r. reflexivity. }
  destruct (Z.eqb_spec x 0) as [->|Hx0]; cbn [orb]. { symmetry; apply Z.mod_0_l; lia. }
  destruct (Z.compare_spec x y) as [->|Hlt|Hgt].
  - symmetry; apply Z_mod_same_full.
  - symmetry; apply Z.mod_small; lia.
  - reflexivity.
Qed.
Lemma u_neg_0 : u_neg 0 = 0. Proof. reflexivity. Qed.
Lemma u_neg_pos x : 0 < x < W -> u_neg x = W - x.
Proof.
  intros H. unfold u_neg, u_sub. rewrite wrap_mod. symmetry. apply Zmod_unique with (-1); lia.
Qed.
Lemma u_neg_opp x : u_neg x = (- x) mod W.
Proof. unfold u_neg, u_sub. rewrite wrap_mod. f_equal. Qed.
Lemma signed_lo x : x < HALF -> signed x = x.
Proof. unfold signed. destruct (Z.ltb_spec x HALF); lia. Qed.
Lemma signed_hi x : HALF <= x -> signed x = x - W.
Proof. unfold signed. destruct (Z.ltb_spec x HALF); lia. Qed.
Lemma u_sign_0 : u_sign 0 = 0. Proof. reflexivity. Qed.
Lemma u_sign_pos x : 0 < x < HALF -> u_sign x = 1.
Proof. intros. unfold u_sign. bdestruct; lia. Qed.
Lemma u_sign_neg x : HALF <= x -> u_sign x = -1.
Proof. intros. pose proof HALF_pos. unfold u_sign. bdestruct; lia. Qed.
