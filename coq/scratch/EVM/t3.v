From Coq Require Import ZArith Lia Bool Zpow_facts.
From Verif Require Import EVM.Word.
Require Import Verif.scratch.EVM.t1.
Open Scope Z_scope.

(* ---------------- EXP *)
Lemma exp_loop_spec e : forall res mult, exp_loop res mult e = (res * mult ^ Zpos e) mod W.
Proof.
  pose proof W_pos as HW.
  induction e as [p IH|p IH|]; intros res mult; cbn [exp_loop].
  - rewrite IH. unfold u_mul. rewrite !wrap_mod.
    replace (Zpos p~1) with (2 * Zpos p + 1) by lia.
    rewrite Z.pow_add_r, Z.pow_1_r, Z.pow_mul_r by lia. replace (mult ^ 2) with (mult * mult) by (rewrite Z.pow_2_r; reflexivity).
    rewrite Z.mul_mod by lia. rewrite Z.mod_mod by lia.
    rewrite <- (Zpower_mod (mult * mult) (Zpos p) W) by lia.
    rewrite <- Z.mul_mod by lia. f_equal. ring.
  - rewrite IH. unfold u_mul. rewrite !wrap_mod.
    replace (Zpos p~0) with (2 * Zpos p) by lia.
    rewrite Z.pow_mul_r by lia. replace (mult ^ 2) with (mult * mult) by (rewrite Z.pow_2_r; reflexivity).
    rewrite (Z.mul_mod res (((mult * mult) mod W) ^ Zpos p)) by lia.
    rewrite <- (Zpower_mod (mult * mult) (Zpos p) W) by lia.
    rewrite <- Z.mul_mod by lia. reflexivity.
  - unfold u_mul. rewrite wrap_mod, Z.pow_1_r. reflexivity.
Qed.
Lemma exp_ok a b : in_word a -> in_word b -> i_exp a b = m_exp a b.
Proof.
  intros [? ?] [? ?]. unfold i_exp, u_exp, m_exp. destruct b as [|p|p]; [|rewrite exp_loop_spec; f_equal; lia|lia].
  rewrite Z.pow_0_r. symmetry. apply Z.mod_small. pose proof W_half; pose proof HALF_pos; lia.
Qed.

(* ---------------- shifts *)
Lemma pow256_le n : 256 <= n -> W <= 2 ^ n.
Proof. intros. rewrite W_eq. apply Z.pow_le_mono_r; lia. Qed.
Lemma shl_ok n x : in_word n -> in_word x -> i_shl n x = m_shl n x.
Proof.
  intros [? ?] [? ?]. unfold i_shl, m_shl, u_lsh.
  destruct (Z.ltb_spec n 256).
  - destruct (Z.leb_spec 256 n); [lia|]. rewrite wrap_mod, Z.shiftl_mul_pow2 by lia. reflexivity.
  - replace n with (256 + (n - 256)) by lia. rewrite Z.pow_add_r by lia. rewrite <- W_eq.
    rewrite Z.mul_assoc, (Z.mul_comm x W), <- Z.mul_assoc, Z.mul_comm. symmetry. apply Z.mod_mul. pose proof W_pos; lia.
Qed.
Lemma shr_ok n x : in_word n -> in_word x -> i_shr n x = m_shr n x.
Proof.
  intros [? ?] [? ?]. unfold i_shr, m_shr, u_rsh.
  destruct (Z.ltb_spec n 256).
  - destruct (Z.leb_spec 256 n); [lia|]. apply Z.shiftr_div_pow2; lia.
  - symmetry. apply Z.div_small. pose proof (pow256_le n). lia.
Qed.

Lemma testbit_255 x : in_word x -> Z.testbit x 255 = (HALF <=? x).
Proof.
  intros [? ?]. pose proof W_half. pose proof HALF_pos.
  destruct (Z.leb_spec HALF x).
  - apply Z.testbit_true; [lia|]. rewrite <- HALF_eq.
    replace (x / HALF) with 1; [reflexivity|]. apply Z.div_unique with (x - HALF); lia.
  - apply Z.testbit_false; [lia|]. rewrite <- HALF_eq. rewrite Z.div_small by lia. reflexivity.
Qed.

Lemma lor_disjoint lo h k : 0 <= k -> 0 <= lo < 2 ^ k -> Z.lor lo (h * 2 ^ k) = lo + h * 2 ^ k.
Proof.
  intros Hk Hlo.
  assert (E : Z.land lo (h * 2 ^ k) = 0).
  { apply Z.bits_inj'. intros i Hi. rewrite Z.land_spec, Z.bits_0.
    destruct (Z.lt_ge_cases i k).
    - rewrite Z.mul_pow2_bits_low by lia. apply andb_false_r.
    - rewrite <- (Z.mod_small lo (2 ^ k)) by lia. rewrite Z.mod_pow2_bits_high by lia. reflexivity. }
  rewrite <- Z.lxor_lor by exact E. symmetry. apply Z.add_nocarry_lxor. exact E.
Qed.

Lemma neg_div_m1 v m : - m <= v < 0 -> v / m = -1.
Proof. intros. symmetry. apply Z.div_unique with (v + m); lia. Qed.
Lemma mod_neg_W v : - W <= v < 0 -> v mod W = v + W.
Proof. intros. symmetry. apply Zmod_unique with (-1); lia. Qed.

Lemma sar_ok n x : in_word n -> in_word x -> i_sar n x = m_sar n x.
Proof.
  intros [Hn1 Hn2] [Hx1 Hx2]. pose proof W_half as HW. pose proof HALF_pos as HP.
  unfold i_sar, m_sar, u_srsh, u_rsh. rewrite testbit_255 by (split; lia).
  destruct (Z.leb_spec HALF x) as [Hneg|Hpos]; cbn [negb].
  - (* negative value *)
    rewrite (u_sign_neg x), signed_hi by lia. change (0 <=? -1) with false. cbv iota.
    assert (Hbig : 256 <= n -> (x - W) / 2 ^ n mod W = W - 1).
    { intros Hn. pose proof (pow256_le n Hn). rewrite neg_div_m1 by lia. rewrite mod_neg_W by lia. lia. }
    destruct (Z.ltb_spec 256 n). { symmetry. apply Hbig. lia. }
    destruct (Z.leb_spec 256 n). { symmetry. apply Hbig. lia. }
    set (k := 256 - n).
    assert (HWk : W = 2 ^ k * 2 ^ n). { rewrite <- Z.pow_add_r by lia. rewrite W_eq. f_equal. lia. }
    assert (0 < 2 ^ k) by (apply Z.pow_pos_nonneg; lia). assert (0 < 2 ^ n) by (apply Z.pow_pos_nonneg; lia).
    rewrite Z.shiftr_div_pow2, Z.shiftl_mul_pow2 by lia. rewrite Z.ones_equiv.
    rewrite lor_disjoint.
    2: lia.
    2:{ split. apply Z.div_pos; lia. apply Z.div_lt_upper_bound; lia. }
    replace (x - W) with (x + (- 2 ^ k) * 2 ^ n) by lia. rewrite Z.div_add by lia.
    assert (0 <= x / 2 ^ n < 2 ^ k). { split. apply Z.div_pos; lia. apply Z.div_lt_upper_bound; lia. }
    assert (2 ^ k <= W) by nia.
    rewrite mod_neg_W by lia. unfold Z.pred. lia.
  - (* non-negative value *)
    rewrite signed_lo by lia.
    assert (Hs : 0 <=? u_sign x = true).
    { unfold u_sign. destruct (x =? 0); [reflexivity|]. destruct (Z.ltb_spec x HALF); [reflexivity|lia]. }
    rewrite Hs.
    assert (Hbig : 256 <= n -> x / 2 ^ n mod W = 0).
    { intros Hn. pose proof (pow256_le n Hn). rewrite Z.div_small by lia. apply Z.mod_0_l. lia. }
    destruct (Z.ltb_spec 256 n). { symmetry. apply Hbig. lia. }
    destruct (Z.leb_spec 256 n). { symmetry. apply Hbig. lia. }
    rewrite Z.shiftr_div_pow2 by lia. symmetry. apply Z.mod_small.
    assert (0 < 2 ^ n) by (apply Z.pow_pos_nonneg; lia).
    split. apply Z.div_pos; lia. apply Z.div_lt_upper_bound; nia.
Qed.
