From Coq Require Import ZArith Lia Bool.
From Verif Require Import EVM.Word.
Require Import Verif.scratch.EVM.t1 Verif.scratch.EVM.t2 Verif.scratch.EVM.t3.
Open Scope Z_scope.

(* ---------------- BYTE *)
Lemma testbit_255_ones i : 0 <= i -> Z.testbit 255 i = (i <? 8).
Proof.
  intros. change 255 with (Z.ones 8). destruct (Z.ltb_spec i 8).
  - apply Z.ones_spec_low; lia.
  - apply Z.ones_spec_high; lia.
Qed.
Lemma byte_core val q r : 0 <= q <= 3 -> 0 <= r < 8 ->
  Z.shiftr (Z.land ((val / 2 ^ (64 * (3 - q))) mod 2 ^ 64) (Z.shiftr (255 * 2 ^ 56) (r * 8))) (56 - r * 8)
  = (val / 2 ^ (8 * (31 - (8 * q + r)))) mod 2 ^ 8.
Proof.
  intros Hq Hr. apply Z.bits_inj'. intros i Hi.
  rewrite Z.shiftr_spec, Z.land_spec, Z.shiftr_spec by lia.
  replace (i + (56 - r * 8) + r * 8) with (56 + i) by lia.
  rewrite Z.mul_pow2_bits_add by lia. rewrite testbit_255_ones by lia.
  destruct (Z.ltb_spec i 8).
  - rewrite andb_true_r. rewrite !Z.mod_pow2_bits_low by lia. rewrite !Z.div_pow2_bits by lia.
    f_equal. lia.
  - rewrite andb_false_r. rewrite Z.mod_pow2_bits_high by lia. reflexivity.
Qed.
Lemma byte_ok i x : in_word i -> in_word x -> i_byte i x = m_byte i x.
Proof.
  intros [Hi1 Hi2] [Hx1 Hx2]. unfold i_byte, u_byte, m_byte.
  destruct (Z.ltb_spec i 32); [|reflexivity].
  assert (E : i = 8 * (i / 8) + i mod 8) by (apply Z.div_mod; lia).
  assert (B : 0 <= i mod 8 < 8) by (apply Z.mod_pos_bound; lia).
  assert (0 <= i / 8 <= 3). { split. apply Z.div_pos; lia. enough (i / 8 < 4) by lia. apply Z.div_lt_upper_bound; lia. }
  rewrite W64_eq. change 18374686479671623680 with (255 * 2 ^ 56). change 256 with (2 ^ 8).
  rewrite byte_core by lia. do 3 f_equal. lia.
Qed.

(* ---------------- SIGNEXTEND *)
Lemma signextend_ok k x : in_word k -> in_word x -> i_signextend k x = m_signextend k x.
Proof.
  intros [Hk1 Hk2] [Hx1 Hx2]. pose proof W_half as HW. pose proof HALF_pos as HP.
  unfold i_signextend, u_extendsign, m_signextend.
  destruct (Z.ltb_spec 31 k); destruct (Z.ltb_spec k 32); try lia; try reflexivity.
  set (bit := k * 8 + 7). cbv zeta. replace (8 * (k + 1)) with (bit + 1) by (unfold bit; lia).
  assert (Hbit : 7 <= bit <= 255) by (unfold bit; lia).
  assert (Hp : 0 < 2 ^ bit) by (apply Z.pow_pos_nonneg; lia).
  assert (HWb : W = 2 ^ (256 - bit) * 2 ^ bit). { rewrite <- Z.pow_add_r by lia. rewrite W_eq. f_equal. lia. }
  assert (Hp2 : 0 < 2 ^ (256 - bit)) by (apply Z.pow_pos_nonneg; lia).
  assert (Hp3 : 2 ^ 1 <= 2 ^ (256 - bit)) by (apply Z.pow_le_mono_r; lia). rewrite Z.pow_1_r in Hp3.
  assert (Hle : 2 ^ bit < W) by nia.
  (* mask = 2^bit - 1 *)
  assert (Hmask : u_sub (u_lsh 1 bit) 1 = 2 ^ bit - 1).
  { unfold u_lsh, u_sub. destruct (Z.leb_spec 256 bit); [lia|]. rewrite !wrap_mod.
    rewrite Z.shiftl_mul_pow2, Z.mul_1_l by lia. rewrite (Z.mod_small (2 ^ bit)) by lia. apply Z.mod_small. lia. }
  rewrite Hmask.
  (* x mod 2^(bit+1) split at the sign bit *)
  assert (Hsplit : x mod 2 ^ (bit + 1) = x mod 2 ^ bit + 2 ^ bit * ((x / 2 ^ bit) mod 2)).
  { rewrite Z.pow_add_r, Z.pow_1_r by lia. apply Z.rem_mul_r; lia. }
  pose proof (Z.mod_pos_bound x (2 ^ bit) Hp) as Hlo.
  unfold signed_t. replace (bit + 1 - 1) with bit by lia. rewrite Hsplit.
  destruct (Z.testbit x bit) eqn:Hb.
  - apply Z.testbit_true in Hb; [|lia]. rewrite Hb.
    destruct (Z.ltb_spec (x mod 2 ^ bit + 2 ^ bit * 1) (2 ^ bit)); [lia|].
    rewrite Z.pow_add_r, Z.pow_1_r by lia.
    rewrite mod_neg_W by lia.
    (* interpreter side *)
    assert (Hnot : u_not (2 ^ bit - 1) = W - 2 ^ bit).
    { change (u_not (2 ^ bit - 1)) with (i_not (2 ^ bit - 1)). rewrite not_ok by (split; lia). unfold m_not. lia. }
    rewrite Hnot.
    set (h := Z.ones (256 - bit)).
    assert (Hh : W - 2 ^ bit = h * 2 ^ bit). { unfold h. rewrite Z.ones_equiv. unfold Z.pred. lia. }
    rewrite Hh.
    set (lo := x mod 2 ^ bit) in *. set (q := x / 2 ^ bit).
    assert (Hx : x = lo + q * 2 ^ bit). { unfold lo, q. pose proof (Z.div_mod x (2 ^ bit)). lia. }
    assert (Hq : 0 <= q < 2 ^ (256 - bit)).
    { unfold q. split. apply Z.div_pos; lia. apply Z.div_lt_upper_bound; lia. }
    rewrite Hx at 1. rewrite <- (lor_disjoint lo q bit) by lia.
    rewrite <- Z.lor_assoc. rewrite <- !Z.shiftl_mul_pow2 by lia. rewrite <- Z.shiftl_lor.
    assert (Hqh : Z.lor q h = h).
    { unfold h. apply Z.lor_ones_low; [lia|]. destruct (Z.eq_dec q 0) as [->|]; [change (Z.log2 0) with 0; lia|].
      apply Z.log2_lt_pow2; lia. }
    rewrite Hqh. rewrite Z.shiftl_mul_pow2 by lia. rewrite lor_disjoint by lia. lia.
  - apply Z.testbit_false in Hb; [|lia]. rewrite Hb.
    destruct (Z.ltb_spec (x mod 2 ^ bit + 2 ^ bit * 0) (2 ^ bit)); [|lia].
    rewrite Z.mul_0_r, Z.add_0_r. rewrite Z.mod_small by lia.
    change (2 ^ bit - 1) with (Z.pred (2 ^ bit)). rewrite <- Z.ones_equiv. apply Z.land_ones. lia.
Qed.
