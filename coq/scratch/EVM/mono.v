From Coq Require Import ZArith List Bool Lia.
From Verif Require Import EVM.Word EVM.Model EVM.ProofsRun.
Import ListNotations.
Open Scope Z_scope.

Lemma step_mono runf rung E cx s :
  (forall cx' s', r_out (runf cx' s') <> O_fuel -> rung cx' s' = runf cx' s') ->
  (forall res, step runf E cx s = S_halt res -> r_out res <> O_fuel) ->
  step rung E cx s = step runf E cx s.
Proof.
  intros Hsame Hnf. unfold step in *. destruct (pre cx s) as [r|i s1 cg]; [reflexivity|].
  destruct i; try reflexivity.
  unfold exec_call, do_call in *.
  destruct (1024 <? c_depth cx); [reflexivity|]. destruct (precompile _); [reflexivity|].
  destruct (code_of E _); [reflexivity|].
  match goal with |- context [rung ?c ?st] => set (cx' := c) in *; set (s' := st) in * end.
  assert (D : r_out (runf cx' s') = O_fuel \/ r_out (runf cx' s') <> O_fuel).
  { destruct (r_out (runf cx' s')); (left; reflexivity) || (right; discriminate). }
  destruct D as [Hf|Hn].
  - exfalso. rewrite Hf in Hnf. cbn in Hnf. eapply Hnf; reflexivity.
  - rewrite (Hsame _ _ Hn). reflexivity.
Qed.

Lemma run_mono f : forall E cx s, r_out (run f E cx s) <> O_fuel ->
  forall f', (f <= f')%nat -> run f' E cx s = run f E cx s.
Proof.
  induction f as [|f IH]; intros E cx s Hnf f' Hle. { cbn in Hnf. congruence. }
  destruct f' as [|g]; [lia|]. assert (Hfg : (f <= g)%nat) by lia.
  cbn [run] in *.
  assert (Hstep : step (run g E) E cx s = step (run f E) E cx s).
  { apply step_mono.
    - intros cx' s' H. apply IH; assumption.
    - intros res Hres. rewrite Hres in Hnf. exact Hnf. }
  rewrite Hstep. destruct (step (run f E) E cx s) as [s2|res]; [|reflexivity].
  apply IH; assumption.
Qed.

Theorem call_top_fuel_irrelevant f f' E static to input gas w :
  r_out (call_top f E static to input gas w) <> O_fuel -> (f <= f')%nat ->
  call_top f' E static to input gas w = call_top f E static to input gas w.
Proof.
  intros Hnf Hle. unfold call_top, do_call in *.
  destruct (1024 <? 0); [reflexivity|]. destruct (precompile to); [reflexivity|].
  destruct (code_of E to); [reflexivity|].
  match goal with |- context [run f' E ?c ?st] => set (cx' := c) in *; set (s' := st) in * end.
  assert (D : r_out (run f E cx' s') = O_fuel \/ r_out (run f E cx' s') <> O_fuel).
  { destruct (r_out (run f E cx' s')); (left; reflexivity) || (right; discriminate). }
  destruct D as [Hf|Hn].
  - exfalso. rewrite Hf in Hnf. apply Hnf. reflexivity.
  - rewrite (run_mono f E cx' s' Hn f' Hle). reflexivity.
Qed.
