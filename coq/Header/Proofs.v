(* Header/Proofs.v — the header rule chain accepts exactly the headers that satisfy the declarative header rules. *)
From Coq Require Import List NArith ZArith Bool Lia.
From Coq Require Import ZifyN ZifyNat ZifyBool.
From Verif Require Import Common.Util Common.GoInt Sched.Model Gen.GasLimit GenProofs.GasLimitProofs BaseFee.Model Header.Rules.
Import ListNotations.
Open Scope N_scope.
Ltac Zify.zify_post_hook ::= Z.div_mod_to_equations.

Definition two64 : N := 18446744073709551616.

(* ---- the gas-limit rule, through the theorem over the generated translation *)
Lemma gas_limit_valid_iff gl p : gl < two64 -> p < two64 ->
  gas_limit_valid gl p = true <->
  1000000 <= gl /\ gl <= p + p / 1024 /\ p <= gl + p / 1024.
Proof.
  intros Hg Hp. unfold gas_limit_valid, two64 in *.
  rewrite is_valid_spec by (unfold u64; lia).
  unfold GasLimitProofs.min_gas_limit, bound_divisor.
  assert (E : (Z.of_N p / 1024)%Z = Z.of_N (p / 1024)) by (rewrite N2Z.inj_div; reflexivity).
  rewrite E. generalize (p / 1024). intros q. lia.
Qed.

Definition R_sig_pre (cfg : config) (parent h : header) : Prop :=
  h_number parent + 1 < c_vip214 cfg -> fst (h_alpha h) = 0 /\ h_sig_len h = 65.
Definition R_sig_post (cfg : config) (parent h : header) : Prop :=
  c_vip214 cfg <= h_number parent + 1 ->
  h_sig_len h = 146 /\
  (exists pb, h_beta parent = Some pb /\ h_alpha h = (if fst pb =? 0 then (32, h_state_root parent) else pb)) /\
  h_beta h <> None.

Lemma bytes_eqb_eq a b : bytes_eqb a b = true <-> a = b.
Proof.
  destruct a as [a1 a2], b as [b1 b2]. unfold bytes_eqb. cbn [fst snd].
  rewrite andb_true_iff, !N.eqb_eq. split; [intros [-> ->]; reflexivity | intros E; inversion E; auto].
Qed.

Lemma sig_alpha_iff cfg parent h :
  sig_alpha_check cfg parent h = None <-> R_sig_pre cfg parent h /\ R_sig_post cfg parent h.
Proof.
  unfold sig_alpha_check, R_sig_pre, R_sig_post, expected_alpha, bytes_empty.
  destruct (N.ltb_spec (h_number parent + 1) (c_vip214 cfg)) as [Hl|Hl].
  - destruct (N.eqb_spec (fst (h_alpha h)) 0) as [Ha|Ha]; cbn [negb].
    + destruct (N.eqb_spec (h_sig_len h) 65) as [Hs|Hs]; cbn [negb].
      * split; [intros _; split; [auto | intros; lia] | auto].
      * split; [discriminate | intros [H _]; destruct (H Hl); contradiction].
    + split; [discriminate | intros [H _]; destruct (H Hl); contradiction].
  - destruct (N.eqb_spec (h_sig_len h) 146) as [Hs|Hs]; cbn [negb].
    + destruct (h_beta parent) as [pb|] eqn:Epb.
      * destruct (bytes_eqb (h_alpha h) _) eqn:Eb; cbn [negb].
        -- apply bytes_eqb_eq in Eb. destruct (h_beta h) eqn:Ebh.
           ++ split; [intros _ | reflexivity]. split; [intros; lia|].
              intros _. split; [assumption|]. split; [exists pb; split; [reflexivity | assumption] | discriminate].
           ++ split; [discriminate | intros [_ H]; destruct (H Hl) as (_ & _ & C); contradiction].
        -- split; [discriminate|]. intros [_ H]. destruct (H Hl) as (_ & (pb' & E1 & E2) & _).
           inversion E1; subst pb'. apply bytes_eqb_eq in E2. unfold bytes in *. rewrite E2 in Eb. discriminate.
      * split; [discriminate|]. intros [_ H]. destruct (H Hl) as (_ & (pb' & E1 & _) & _). discriminate.
    + split; [discriminate | intros [_ H]; destruct (H Hl) as (C & _); contradiction].
Qed.

Definition R_base_fee (cfg : config) (parent h : header) : Prop :=
  (h_number parent + 1 < c_galactica cfg -> h_base_fee h = None) /\
  (c_galactica cfg <= h_number parent + 1 ->
     exists bf, h_base_fee h = Some bf /\ base_fee_nil_deref cfg parent = false /\
                expected_base_fee cfg parent = BfFee (Z.of_N bf)).

Lemma base_fee_check_iff cfg parent h : base_fee_check cfg parent h = Accept <-> R_base_fee cfg parent h.
Proof.
  unfold base_fee_check, R_base_fee.
  destruct (N.ltb_spec (h_number parent + 1) (c_galactica cfg)) as [Hg|Hg].
  - destruct (h_base_fee h) as [bf|] eqn:Eb.
    + split; [discriminate|]. intros (C & _). specialize (C Hg). discriminate.
    + split; [intros _ | reflexivity]. split; [auto | intros; lia].
  - destruct (h_base_fee h) as [bf|] eqn:Eb.
    + destruct (base_fee_nil_deref cfg parent) eqn:En.
      { split; [discriminate|]. intros (_ & C). destruct (C Hg) as (bf' & _ & C' & _). discriminate. }
      destruct (expected_base_fee cfg parent) as [|e|] eqn:Ee.
      * split; [discriminate|]. intros (_ & C). destruct (C Hg) as (bf' & _ & _ & C'). discriminate.
      * destruct (Z.eqb_spec (Z.of_N bf) e) as [Eq|Ne].
        -- split; [intros _ | reflexivity]. split; [intros; lia|]. intros _. exists bf. subst e. auto.
        -- split; [discriminate|]. intros (_ & C). destruct (C Hg) as (bf' & E1 & _ & C').
           inversion E1; subst bf'. inversion C'. congruence.
      * split; [discriminate|]. intros (_ & C). destruct (C Hg) as (bf' & _ & _ & C'). discriminate.
    + split; [discriminate|]. intros (_ & C). destruct (C Hg) as (bf' & C' & _). discriminate.
Qed.

Definition header_rules (cfg : config) (parent h : header) (now : N) : Prop :=
  h_time parent < h_time h /\
  (h_time h - h_time parent) mod c_interval cfg = 0 /\
  h_time h <= now + c_interval cfg /\
  h_gas_used h <= h_gas_limit h /\
  h_total_score parent < h_total_score h /\
  (1000000 <= h_gas_limit h /\ h_gas_limit h <= h_gas_limit parent + h_gas_limit parent / 1024 /\
   h_gas_limit parent <= h_gas_limit h + h_gas_limit parent / 1024) /\
  R_sig_pre cfg parent h /\ R_sig_post cfg parent h /\
  (h_number parent + 1 < c_finality cfg -> h_com h = false) /\
  R_base_fee cfg parent h.

Theorem validate_header_accept_iff cfg parent h now :
  h_gas_limit h < two64 -> h_gas_limit parent < two64 ->
  validate_header cfg parent h now = Accept <-> header_rules cfg parent h now.
Proof.
  intros Wg Wp. unfold validate_header, header_rules.
  destruct (N.leb_spec (h_time h) (h_time parent)) as [H1|H1]; [split; [discriminate | intros (C & _); lia]|].
  destruct (N.eqb_spec ((h_time h - h_time parent) mod c_interval cfg) 0) as [H2|H2]; cbn [negb];
    [|split; [discriminate | intros (_ & C & _); contradiction]].
  destruct (N.ltb_spec (now + c_interval cfg) (h_time h)) as [H3|H3]; [split; [discriminate | intros (_ & _ & C & _); lia]|].
  destruct (N.ltb_spec (h_gas_limit h) (h_gas_used h)) as [H4|H4]; [split; [discriminate | intros (_ & _ & _ & C & _); lia]|].
  destruct (N.leb_spec (h_total_score h) (h_total_score parent)) as [H5|H5];
    [split; [discriminate | intros (_ & _ & _ & _ & C & _); lia]|].
  destruct (gas_limit_valid (h_gas_limit h) (h_gas_limit parent)) eqn:H6; cbn [negb].
  2:{ split; [discriminate|]. intros (_ & _ & _ & _ & _ & C & _).
      apply (gas_limit_valid_iff _ _ Wg Wp) in C. congruence. }
  apply (gas_limit_valid_iff _ _ Wg Wp) in H6.
  destruct (sig_alpha_check cfg parent h) as [r|] eqn:H7.
  { split; [discriminate|]. intros (_ & _ & _ & _ & _ & _ & C1 & C2 & _).
    assert (X : sig_alpha_check cfg parent h = None) by (apply sig_alpha_iff; auto). congruence. }
  apply sig_alpha_iff in H7. destruct H7 as [H7 H8].
  assert (Tail : base_fee_check cfg parent h = Accept <-> R_base_fee cfg parent h) by apply base_fee_check_iff.
  destruct (N.ltb_spec (h_number parent + 1) (c_finality cfg)) as [H9|H9]; cbn [andb].
  - destruct (h_com h) eqn:Hc.
    + split; [discriminate|]. intros (_ & _ & _ & _ & _ & _ & _ & _ & C & _). specialize (C H9). discriminate.
    + rewrite Tail. split; [intros R | intros (_ & _ & _ & _ & _ & _ & _ & _ & _ & R); exact R].
      split; [lia|]. split; [assumption|]. split; [lia|]. split; [lia|]. split; [lia|]. split; [exact H6|].
      split; [exact H7|]. split; [exact H8|]. split; [reflexivity | exact R].
  - rewrite Tail. split; [intros R | intros (_ & _ & _ & _ & _ & _ & _ & _ & _ & R); exact R].
    split; [lia|]. split; [assumption|]. split; [lia|]. split; [lia|]. split; [lia|]. split; [exact H6|].
    split; [exact H7|]. split; [exact H8|]. split; [intros; lia | exact R].
Qed.
