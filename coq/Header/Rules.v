(* Header/Rules.v — executable model (definitions only) of
     consensus/validator.go   validateBlockHeader            -> validate_header
     consensus/poa_validator.go / pos_validator.go           -> validate_proposer
     packer/packer.go Schedule, poa_scheduler.go, pos_scheduler.go, gasLimit -> schedule_ctx
   Numbers are N (unbounded); the two uint64 sums the code computes on header data are written with their wrap.
   What the crypto libraries report for a header (recovered signer, VRF verification result, signature length) is
   DATA carried in the header view: secp256k1 / VRF are not modelled.  The candidate list read from the state at the
   parent (authority candidates / staker leader group), the seed-derived sort keys and the PoA-v1 slot hash are data
   too (computed by the real packages in the harness).
   The gas-limit step is the go2v TRANSLATION of block/gas_limit.go (coq/Gen/GasLimit.v, regenerated every run); the
   base fee is the BaseFee area's hand model of galactica.CalcBaseFee. *)
From Coq Require Import List NArith ZArith Bool.
From Verif Require Import Common.Util Common.GoInt Sched.Model Gen.GasLimit BaseFee.Model.
Import ListNotations.
Open Scope N_scope.

(* ---------------------------------------------------------------- data *)

(* a byte string: (length, big-endian value) *)
Definition bytes := (N * N)%type.
Definition bytes_eqb (a b : bytes) : bool := (fst a =? fst b) && (snd a =? snd b).
Definition bytes_empty (a : bytes) : bool := fst a =? 0.

(* fork heights (block numbers; 2^32-1 = never), block interval, chain tag *)
Record config := mkCfg {
  c_vip191 : N; c_blocklist : N; c_vip214 : N; c_finality : N; c_galactica : N;
  c_interval : N; c_chain_tag : N }.

Record header := mkH {
  h_number : N;            (* block.Number(id) of THIS block; a child's number is parent's + 1 (derived from ParentID) *)
  h_time : N; h_gas_limit : N; h_beneficiary : N; h_gas_used : N; h_total_score : N;
  h_txs_root : N; h_features : N; h_state_root : N; h_receipts_root : N;
  h_alpha : bytes; h_com : bool; h_base_fee : option N;
  (* reported by the crypto library for this header: len(Signature()), Signer(), Beta() (None = error) *)
  h_sig_len : N; h_signer : option N; h_beta : option bytes }.

(* verdict classes: consensus.IsCritical / consensus.IsFutureBlock / any other error / Go panic.
   The number is the model's rule id (diagnostic only; the correspondence compares the class). *)
Inductive verdict := Accept | Future | Critical (r : N) | Other (r : N) | Panics.

Definition is_critical (v : verdict) : bool := match v with Critical _ => true | _ => false end.

(* ---------------------------------------------------------------- validateBlockHeader *)

Definition gas_limit_valid (gl parent : N) : bool := GasLimit_IsValid (Z.of_N gl) (Z.of_N parent).

(* alpha of the child: parent's beta, or the parent's state root (32 bytes) when the parent has no VRF output *)
Definition expected_alpha (parent : header) : option bytes :=
  match h_beta parent with
  | None => None
  | Some b => Some (if bytes_empty b then (32, h_state_root parent) else b)
  end.

Definition expected_base_fee (cfg : config) (parent : header) : bf_result :=
  calc_base_fee (Z.of_N (c_galactica cfg)) (Z.of_N (h_number parent)) (Z.of_N (h_gas_limit parent))
                (Z.of_N (h_gas_used parent))
                (match h_base_fee parent with Some b => Z.of_N b | None => 0%Z end).

(* CalcBaseFee dereferences parent.BaseFee() (nil before GALACTICA) once the child is past the fork block *)
Definition base_fee_nil_deref (cfg : config) (parent : header) : bool :=
  (c_galactica cfg <? h_number parent + 1) && match h_base_fee parent with None => true | Some _ => false end.

Definition sig_alpha_check (cfg : config) (parent h : header) : option N :=
  if h_number parent + 1 <? c_vip214 cfg then
    if negb (bytes_empty (h_alpha h)) then Some 7
    else if negb (h_sig_len h =? 65) then Some 8 else None
  else
    if negb (h_sig_len h =? 146) then Some 8
    else match expected_alpha parent with
         | None => Some 9
         | Some a => if negb (bytes_eqb (h_alpha h) a) then Some 10
                     else match h_beta h with None => Some 11 | Some _ => None end
         end.

Definition base_fee_check (cfg : config) (parent h : header) : verdict :=
  if h_number parent + 1 <? c_galactica cfg then
    match h_base_fee h with Some _ => Critical 13 | None => Accept end
  else match h_base_fee h with
    | None => Critical 14
    | Some bf =>
      if base_fee_nil_deref cfg parent then Panics
      else match expected_base_fee cfg parent with
      | BfPanics => Panics
      | BfNone => Critical 15
      | BfFee e => if (Z.of_N bf =? e)%Z then Accept else Critical 15
      end
    end.

Definition validate_header (cfg : config) (parent h : header) (now : N) : verdict :=
  let num := h_number parent + 1 in
  if h_time h <=? h_time parent then Critical 1
  else if negb ((h_time h - h_time parent) mod c_interval cfg =? 0) then Critical 2
  else if now + c_interval cfg <? h_time h then Future
  else if h_gas_limit h <? h_gas_used h then Critical 4
  else if h_total_score h <=? h_total_score parent then Critical 5
  else if negb (gas_limit_valid (h_gas_limit h) (h_gas_limit parent)) then Critical 6
  else match sig_alpha_check cfg parent h with
  | Some r => Critical r
  | None =>
    if (num <? c_finality cfg) && h_com h then Critical 12
    else base_fee_check cfg parent h
  end.

(* ---------------------------------------------------------------- the proposer view and the three schedulers *)

Inductive skind := KV1 | KV2 | KPOS.

(* a candidate as both sides read it from the state at the parent: authority candidate (endorsor; weight unused)
   or staker leader (endorser, optional contract-level beneficiary, weight); key = seed-derived sort key *)
Record cand := mkC { cd_p : proposer; cd_key : N; cd_endorsor : N; cd_benef : option N }.

Record pview := mkPV {
  pv_pos : bool;               (* dPosStatus.Active of staker.SyncPOS at this height *)
  pv_cands : list cand;
  pv_total : N;                (* staker.LockedStake() total weight (PoS) *)
  pv_hash : N -> N }.          (* PoA v1: dprp(parentNumber, t) *)

Definition kind_of (cfg : config) (pv : pview) (num : N) : skind :=
  if pv_pos pv then KPOS else if num <? c_vip214 cfg then KV1 else KV2.

Definition pks (cs : list cand) : list (proposer * N) := map (fun c => (cd_p c, cd_key c)) cs.
Definition props (cs : list cand) : list proposer := map cd_p cs.

Definition sched_is_the_time (k : skind) (hsh : N -> N) (pt T : N) (cs : list cand) (me t : N) : bool :=
  match k with
  | KV1 => is_the_time_v1 hsh pt T (actives_v1 me (props cs)) me t
  | _ => is_scheduled pt T (addrs (seq_of me (pks cs))) t me
  end.

Definition sched_updates (k : skind) (hsh : N -> N) (pt T : N) (cs : list cand) (mep : proposer) (total t : N)
  : list (N * bool) * N :=
  match k with
  | KV1 => updates_v1 hsh pt T (actives_v1 (p_addr mep) (props cs)) mep t
  | KV2 => updates_v2 pt T (seq_of (p_addr mep) (pks cs)) mep t
  | KPOS => updates_pos pt T (seq_of (p_addr mep) (pks cs)) mep total t
  end.

(* None: the V1 loop ran out of fuel / the V2,PoS Go code would panic (unreachable for a listed proposer) *)
Definition sched_schedule (k : skind) (hsh : N -> N) (pt T : N) (cs : list cand) (me now : N) (fuel : nat) : option N :=
  match k with
  | KV1 => schedule_v1 hsh pt T (actives_v1 me (props cs)) me now fuel
  | _ => schedule pt T (addrs (seq_of me (pks cs))) me now
  end.

(* who owns the slot of time t (C05: the eligible sequence / the v1 hash), independently of whether t is a legal time *)
Definition slot_owner (k : skind) (hsh : N -> N) (pt T : N) (cs : list cand) (me t : N) : option N :=
  match k with
  | KV1 => option_map p_addr (whose_turn hsh (actives_v1 me (props cs)) t)
  | _ => let seq := addrs (seq_of me (pks cs)) in
         nth_error seq (N.to_nat (slot_index pt T (N.of_nat (length seq)) t))
  end.

(* the Go loops over the list keep the LAST match *)
Definition find_last {A} (f : A -> bool) (l : list A) : option A := find f (rev l).

(* pos_validator.go: last leader with Address = signer AND a contract-level beneficiary *)
Definition leader_beneficiary (s : N) (cs : list cand) : option N :=
  match find_last (fun c => (p_addr (cd_p c) =? s) && match cd_benef c with Some _ => true | None => false end) cs with
  | Some c => cd_benef c
  | None => None
  end.

Inductive presult := POk (ups : list (N * bool)) | PBad (v : verdict).

Definition validate_proposer (cfg : config) (pv : pview) (parent h : header) : presult :=
  match h_signer h with
  | None => PBad (Critical 20)
  | Some s =>
    let k := kind_of cfg pv (h_number parent + 1) in
    match find_me s (props (pv_cands pv)) with
    | None => PBad (Critical 21)
    | Some mep =>
      if negb (sched_is_the_time k (pv_hash pv) (h_time parent) (c_interval cfg) (pv_cands pv) s (h_time h))
      then PBad (Critical 22)
      else
        let us := sched_updates k (pv_hash pv) (h_time parent) (c_interval cfg) (pv_cands pv) mep (pv_total pv) (h_time h) in
        if negb (wrap64 (h_total_score parent + snd us) =? h_total_score h) then PBad (Critical 23)
        else if pv_pos pv then
          match leader_beneficiary s (pv_cands pv) with
          | Some b => if b =? h_beneficiary h then POk (fst us) else PBad (Critical 24)
          | None => POk (fst us)
          end
        else POk (fst us)
    end
  end.

(* ---------------------------------------------------------------- the packer side: Packer.Schedule *)

Record packer_opts := mkPO { po_me : N; po_benef : option N; po_target_gl : N; po_fuel : nat }.

(* xenv.BlockContext *)
Record bctx := mkCtx {
  x_beneficiary : N; x_signer : N; x_number : N; x_time : N; x_gas_limit : N; x_total_score : N;
  x_base_fee : option N }.

Definition packer_gas_limit (target parent_gl : N) : N :=
  if target =? 0 then parent_gl else Z.to_N (GasLimit_Qualify (Z.of_N target) (Z.of_N parent_gl)).

(* poa_scheduler.go: option, else endorsor of the (last) candidate whose master is me, else the zero address *)
Definition packer_beneficiary_poa (po : packer_opts) (cs : list cand) : N :=
  match po_benef po with
  | Some b => b
  | None => match find_last (fun c => p_addr (cd_p c) =? po_me po) cs with Some c => cd_endorsor c | None => 0 end
  end.

(* pos_scheduler.go: contract-level beneficiary, else option, else endorser of the (last) leader that is me *)
Definition packer_beneficiary_pos (po : packer_opts) (cs : list cand) : N :=
  match find_last (fun c => p_addr (cd_p c) =? po_me po) cs with
  | Some c => match cd_benef c with
              | Some b => b
              | None => match po_benef po with Some b => b | None => cd_endorsor c end
              end
  | None => 0
  end.

Definition base_fee_field (r : bf_result) : option N :=
  match r with BfFee z => Some (Z.to_N z) | _ => None end.

(* None = Schedule returns an error (unauthorised / out of fuel) or the Go code panics (CalcBaseFee) *)
Definition schedule_ctx (cfg : config) (pv : pview) (parent : header) (po : packer_opts) (now : N)
  : option (bctx * list (N * bool)) :=
  let num := h_number parent + 1 in
  let k := kind_of cfg pv num in
  match find_me (po_me po) (props (pv_cands pv)) with
  | None => None
  | Some mep =>
    match sched_schedule k (pv_hash pv) (h_time parent) (c_interval cfg) (pv_cands pv) (po_me po) now (po_fuel po) with
    | None => None
    | Some t =>
      let us := sched_updates k (pv_hash pv) (h_time parent) (c_interval cfg) (pv_cands pv) mep (pv_total pv) t in
      if base_fee_nil_deref cfg parent then None
      else match expected_base_fee cfg parent with
      | BfPanics => None
      | bf =>
        Some (mkCtx (if pv_pos pv then packer_beneficiary_pos po (pv_cands pv) else packer_beneficiary_poa po (pv_cands pv))
                    (po_me po) num t
                    (packer_gas_limit (po_target_gl po) (h_gas_limit parent))
                    (wrap64 (h_total_score parent + snd us))
                    (base_fee_field bf),
              fst us)
      end
    end
  end.
